"""
C13: generator of FPy programs that exercise the static analyses — special-value
ladders (isnan / isinf / == 0 / != 0 / orderings, negations, and/or), exact
arithmetic under `with fp.REAL`, rounded arithmetic under small contexts,
min/max, conditional expressions, counter loops with accumulators (nested),
`for` loops over lists and ranges (also with a target that shadows a variable),
constants flowing through assignments, lists that are bound / indexed / sliced /
packed / mutated (aliasing), tuples.

    g = Gen13(rng, model_ops=True)
    prog, sig = g.program()        # lang.Program with entry `main`; sig: list of 'R' | ('L', n)
    g.args(sig, special=0.3)       # one argument tuple (lang.N / lists of lang.N)

Programs pass fpy2's syntax check and terminate (loops are counter loops with
literal bounds, `for` over finite lists).  With model_ops=True only operations
the Gallina number instance implements are used.
"""
from __future__ import annotations

from fractions import Fraction as F

from .lang import CtxSpec, Func, N, Node, Program

V = lambda x: Node('var', x)          # noqa: E731
PV = lambda x: Node('pvar', x)        # noqa: E731


def lit(q):
    return Node('num', N.fin(q))


LITS = [0, 0, 1, 1, 2, 3, -1, -2, F(1, 2), F(3, 8), F(5, 4), F(1, 3), F(-2, 3), F(1, 10)]
SPECIALS = [N.nan(), N.inf(False), N.inf(True), N.fin(0), N.fin(0, negzero=True)]
PLAIN = [N.fin(q) for q in (1, -1, 2, 3, F(1, 2), F(-3, 4), F(5, 2), 7, F(1, 8), 100, F(-1, 1024))] + \
        [N.fin(F(2) ** 600), N.fin(-F(2) ** 700), N.fin(F(1, 2 ** 700))]


def small_ctx(r) -> CtxSpec:
    k = r.random()
    rm = r.choice(['RNE', 'RTZ', 'RTP', 'RTN', 'RNA']) if r.random() < 0.5 else 'RNE'
    if k < 0.45:
        return CtxSpec('MPFloat', p=r.randint(2, 8), rm=rm)
    if k < 0.7:
        return CtxSpec('MPSFloat', p=r.randint(2, 6), emin=r.randint(-4, 1), rm=rm)
    es = r.randint(2, 4)
    return CtxSpec('IEEE', es=es, nbits=es + r.randint(2, 5), rm=rm, ov=('SATURATE' if r.random() < 0.2 else 'OVERFLOW'))


class Gen13:
    def __init__(self, rng, model_ops=True, lists=True):
        self.r = rng
        self.model_ops = model_ops
        self.lists = lists
        self.n = 0
        self.ctxconsts = {}
        self.features = set()

    def fresh(self, base):
        self.n += 1
        return f'{base}{self.n}'

    def ctxval(self, spec):
        if spec.kind == 'REAL':
            return Node('ctxval', 'fp.REAL', spec)
        for name, s in self.ctxconsts.items():
            if s.key() == spec.key():
                return Node('ctxval', name, s)
        name = f'CTX{len(self.ctxconsts)}'
        self.ctxconsts[name] = spec
        return Node('ctxval', name, spec)

    # ------------------------------------------------------------ expressions
    def reals(self, sc):
        return [x for x, t in sc.items() if t == 'R']

    def rexpr(self, sc, depth=2):
        r = self.r
        vs = self.reals(sc)
        k = r.random()
        if depth <= 0 or k < 0.22:
            if vs and r.random() < 0.7:
                return V(r.choice(vs))
            return lit(r.choice(LITS))
        if k < 0.30:
            return Node('op1', r.choice(['neg', 'fabs']), self.rexpr_nolit(sc, depth - 1))
        if k < 0.72:
            return Node('op2', r.choice(['add', 'sub', 'mul', 'mul', 'div', 'add']), self.rexpr(sc, depth - 1), self.rexpr(sc, depth - 1))
        if k < 0.76:
            return Node('op3', 'fma', self.rexpr(sc, depth - 1), self.rexpr(sc, depth - 1), self.rexpr(sc, depth - 1))
        if k < 0.86:
            self.features.add('minmax')
            return Node(r.choice(['min', 'max']), [self.rexpr(sc, depth - 1) for _ in range(r.randint(2, 3))])
        if k < 0.94 and vs:
            self.features.add('ifexpr')
            return Node('ife', self.cond(sc), self.rexpr(sc, depth - 1), self.rexpr(sc, depth - 1))
        if k < 0.97:
            return Node('op1', 'round', self.rexpr(sc, depth - 1))
        ls = [x for x, t in sc.items() if isinstance(t, tuple) and t[0] == 'L' and t[1]]
        if ls and self.lists:
            x = r.choice(ls)
            self.features.add('listref')
            return Node('ref', V(x), lit(r.randrange(sc[x][1])))
        return lit(r.choice(LITS))

    def rexpr_nolit(self, sc, depth):
        e = self.rexpr(sc, depth)
        if e.k == 'num':        # the parser folds a negated literal
            vs = self.reals(sc)
            return V(self.r.choice(vs)) if vs else Node('op2', 'add', e, lit(1))
        return e

    def test1(self, sc):
        """One class test on a variable."""
        r = self.r
        x = V(r.choice(self.reals(sc)))
        k = r.random()
        if k < 0.22:
            return Node('pred', 'isnan', x)
        if k < 0.40:
            return Node('pred', 'isinf', x)
        if k < 0.50:
            return Node('pred', 'isfinite', x)
        if k < 0.66:
            z = lit(0)
            return Node('cmp', ['=='], [x, z] if r.random() < 0.7 else [z, x])
        if k < 0.76:
            z = lit(0)
            return Node('cmp', ['!='], [x, z] if r.random() < 0.7 else [z, x])
        if k < 0.84:
            return Node('cmp', [r.choice(['==', '!='])], [x, lit(r.choice([1, 2, F(1, 2)]))])
        if k < 0.94:
            return Node('cmp', [r.choice(['<', '<=', '>', '>='])], [x, self.rexpr(sc, 0)])
        return Node('cmp', ['<', '<='], [lit(r.choice([0, -1])), x, lit(r.choice([2, 5]))])

    def cond(self, sc, depth=1):
        r = self.r
        k = r.random()
        if depth <= 0 or k < 0.6:
            return self.test1(sc)
        if k < 0.75:
            return Node('not', self.cond(sc, depth - 1))
        if k < 0.9:
            return Node('and', [self.cond(sc, depth - 1), self.cond(sc, depth - 1)])
        return Node('or', [self.cond(sc, depth - 1), self.cond(sc, depth - 1)])

    # ------------------------------------------------------------ statements
    def assign(self, sc, name=None, depth=2):
        x = name or (self.r.choice(self.reals(sc)) if self.reals(sc) and self.r.random() < 0.45 else self.fresh('v'))
        st = Node('assign', PV(x), self.rexpr(sc, depth))
        sc[x] = 'R'
        return [st]

    def ladder(self, sc, budget):
        """if isnan(v): .. elif isinf(v): .. elif v == 0: .. else: .. (random subset / order / polarity)."""
        r = self.r
        self.features.add('ladder')
        v = r.choice(self.reals(sc))
        out = self.fresh('r')
        tests = [Node('pred', 'isnan', V(v)), Node('pred', 'isinf', V(v)),
                 Node('cmp', ['=='], [V(v), lit(0)]), Node('cmp', ['!='], [V(v), lit(0)]),
                 Node('pred', 'isfinite', V(v)), Node('cmp', ['<'], [V(v), lit(1)])]
        r.shuffle(tests)
        tests = tests[:r.randint(1, 4)]
        tests = [Node('not', t) if r.random() < 0.2 else t for t in tests]

        def arm(scope):
            s2 = dict(scope)
            body = []
            if r.random() < 0.3 and budget > 0:
                body += self.stmts(s2, 1, budget - 1)
            # the arm's value typically uses the tested variable: its refined class matters
            k = r.random()
            if k < 0.35:
                e = Node('op2', r.choice(['mul', 'add', 'sub', 'div']), V(v), self.rexpr(s2, 1))
            elif k < 0.5:
                e = Node('op2', 'div', lit(1), V(v))
            elif k < 0.6:
                e = Node('op2', 'mul', V(v), lit(0))
            else:
                e = self.rexpr(s2, 1)
            body.append(Node('assign', PV(out), e))
            return body

        def build(i):
            if i == len(tests) - 1:
                return Node('if', tests[i], arm(sc), arm(sc))
            return Node('if', tests[i], arm(sc), [build(i + 1)])
        st = build(0)
        sc[out] = 'R'
        return [st]

    def with_block(self, sc, budget, real):
        r = self.r
        s2 = dict(sc)
        pre = []
        if not real and self.reals(sc) and r.random() < 0.45:
            # a context chosen at run time (the constructor's argument depends on a run-time test), with
            # foldable inexact operations in its body: nothing in there is a compile-time constant
            self.features.add('with-dynamic')
            rm = r.choice(['RNE', 'RTZ', 'RTP'])
            pick = Node('ife', self.test1(sc), lit(r.randint(2, 4)), lit(r.randint(5, 9)))
            if r.random() < 0.6:
                header = Node('ctor', 'MPFloat', rm, None, [pick])
            else:
                header = Node('ctor', 'MPSFloat', rm, None, [pick, lit(r.randint(-4, 0))])
            c1, c2 = self.fresh('q'), self.fresh('q')
            pre = [Node('assign', PV(c1), Node('op2', 'div', lit(r.choice([1, 2, 5])), lit(r.choice([3, 7])))),
                   Node('assign', PV(c2), Node('op2', r.choice(['add', 'mul']), V(c1), lit(r.choice([F(1, 10), F(1, 3), 3]))))]
            s2[c1] = s2[c2] = 'R'
        else:
            self.features.add('with-real' if real else 'with-ctx')
            header = self.ctxval(CtxSpec('REAL') if real else small_ctx(r))
        body = pre + self.stmts(s2, r.randint(1, 3), budget - 1)
        # what the block defines stays defined afterwards
        for x, t in s2.items():
            sc[x] = t
        return [Node('with', None, header, body)]

    def while_loop(self, sc, budget):
        r = self.r
        self.features.add('while')
        i = self.fresh('i')
        k = r.randint(0, 3)
        pre = [Node('assign', PV(i), lit(0))]
        sc[i] = 'R'
        acc = None
        if not self.reals(sc) or r.random() < 0.6:
            acc = self.fresh('acc')
            pre += self.assign(sc, acc, 1)
        s2 = dict(sc)
        body = []
        for _ in range(r.randint(1, 2)):
            tgt = acc if acc and r.random() < 0.7 else r.choice([x for x in self.reals(sc) if x != i])
            body.append(Node('assign', PV(tgt), self.rexpr(s2, 2)))
        if budget > 0 and r.random() < 0.4:
            body += self.stmts(s2, 1, budget - 1, allow_new=False)
        if r.random() < 0.35:
            body = self.inner_loop(s2) + body
        if r.random() < 0.15:
            body = body + self.half_return(s2)
        body.append(Node('assign', PV(i), Node('op2', 'add', V(i), lit(1))))
        test = Node('cmp', ['<'], [V(i), lit(k)])
        if r.random() < 0.25:
            test = Node('and', [test, self.test1(sc)])
        return pre + [Node('while', test, body)]

    def inner_loop(self, sc):
        """A counter loop nested in a loop body whose condition reads a copy of an outer variable."""
        r = self.r
        self.features.add('nested-while')
        y, j = self.fresh('y'), self.fresh('j')
        src = r.choice(self.reals(sc))
        pre = [Node('assign', PV(y), V(src) if r.random() < 0.7 else self.rexpr(sc, 1)),
               Node('assign', PV(j), lit(0))]
        s2 = dict(sc)
        s2[y] = 'R'
        test = Node('and', [Node('cmp', [r.choice(['<', '<=', '!=', '>'])], [V(y), lit(r.choice([0, 1, 2]))]),
                            Node('cmp', ['<'], [V(j), lit(r.randint(1, 2))])])
        body = [Node('assign', PV(y), Node('op2', r.choice(['mul', 'add', 'sub']), V(y), lit(r.choice([1, 0, 2, F(1, 2)])))),
                Node('assign', PV(j), Node('op2', 'add', V(j), lit(1)))]
        return pre + [Node('while', test, body)]

    def for_loop(self, sc, budget):
        r = self.r
        self.features.add('for')
        ls = [x for x, t in sc.items() if isinstance(t, tuple) and t[0] == 'L']
        if ls and r.random() < 0.7:
            it = V(r.choice(ls))
        else:
            it = Node('range', [lit(r.randint(0, 3))])
        reals = self.reals(sc)
        if reals and r.random() < 0.2:
            tgt = r.choice(reals)           # the target shadows (rebinds) an existing variable
            self.features.add('for-shadow')
        else:
            tgt = self.fresh('t')
        pre = []
        if not reals:
            pre = self.assign(sc, self.fresh('acc'), 1)
        s2 = dict(sc)
        s2[tgt] = 'R'
        body = []
        for _ in range(r.randint(1, 2)):
            cands = [x for x in self.reals(sc)]
            x = r.choice(cands)
            body.append(Node('assign', PV(x), self.rexpr(s2, 2)))
        if budget > 0 and r.random() < 0.3:
            body += self.stmts(s2, 1, budget - 1, allow_new=False)
        sc[tgt] = 'R' if tgt in sc else sc.get(tgt, None) or 'R'
        if tgt not in reals:
            del sc[tgt]                     # a fresh target is not used after the loop
        return pre + [Node('for', PV(tgt), it, body)]

    def half_return(self, sc):
        """An if/else one arm of which ends in a nested if/else in which exactly one arm returns; the
        other paths assign a variable that is read after the statement (which definitions reach that read?)."""
        r = self.r
        self.features.add('half-return')
        x = r.choice(self.reals(sc))

        def asg():
            return Node('assign', PV(x), self.rexpr(sc, 1))

        def ret():
            return Node('return', self.rexpr(sc, 1))
        inner_arms = [[ret()], [asg()]]
        if r.random() < 0.3:
            inner_arms[1] = [Node('if', self.test1(sc), [asg()], [asg(), asg()])]     # depth 3, no return
        if r.random() < 0.5:
            inner_arms.reverse()
        inner = Node('if', self.test1(sc), inner_arms[0], inner_arms[1])
        pre = [asg()] if r.random() < 0.4 else []
        other = [asg()] if r.random() < 0.6 else [Node('pass')]
        arms = [pre + [inner], other]
        if r.random() < 0.5:
            arms.reverse()
        return [Node('if', self.test1(sc), arms[0], arms[1])]

    def nested_merge(self, sc):
        """Two lists of lists unified by a conditional expression / a list literal / a store, with a name
        bound to a row of one side before the unification and a write through a row of the result."""
        r = self.r
        self.features.add('nested-merge')
        ls = [x for x, t in sc.items() if isinstance(t, tuple) and t[0] == 'L' and t[1]]
        a, b = r.choice(ls), r.choice(ls)
        aa, bb, row, zz, w = (self.fresh(n) for n in ('aa', 'bb', 'row', 'zz', 'w'))
        out = [Node('assign', PV(aa), Node('list', [V(a), V(b)])),
               Node('assign', PV(bb), Node('list', [V(b), V(a)] if r.random() < 0.5 else [V(b)])),
               Node('assign', PV(row), Node('ref', V(r.choice([aa, bb])), lit(0)))]
        k = r.random()
        if k < 0.4:
            out.append(Node('assign', PV(zz), Node('ife', self.test1(sc), V(aa), V(bb))))
        elif k < 0.7:
            cc = self.fresh('cc')
            out += [Node('assign', PV(cc), Node('list', [V(aa), V(bb)])),
                    Node('assign', PV(zz), Node('ref', V(cc), lit(r.randrange(2))))]
        else:
            cc = self.fresh('cc')
            out += [Node('assign', PV(cc), Node('list', [V(aa)])),
                    Node('iassign', cc, [lit(0)], V(bb)),
                    Node('assign', PV(zz), Node('ref', V(cc), lit(0)))]
        out += [Node('assign', PV(w), Node('ref', V(zz), lit(0))),
                Node('iassign', w, [lit(0)], self.rexpr(sc, 1))]
        n = min(sc[a][1], sc[b][1])
        sc[row] = ('L', n)
        sc[w] = ('L', n)
        return out

    def if1(self, sc, budget):
        self.features.add('if1')
        s2 = dict(sc)
        body = []
        for _ in range(self.r.randint(1, 2)):
            x = self.r.choice(self.reals(sc))
            body.append(Node('assign', PV(x), self.rexpr(s2, 2)))
        return [Node('if1', self.cond(sc), body)]

    def list_stmt(self, sc):
        r = self.r
        ls = [x for x, t in sc.items() if isinstance(t, tuple) and t[0] == 'L']
        k = r.random()
        if not ls or k < 0.2:
            x = self.fresh('ys')
            n = r.randint(1, 3)
            self.features.add('list-new')
            st = Node('assign', PV(x), Node('list', [self.rexpr(sc, 1) for _ in range(n)]))
            sc[x] = ('L', n)
            return [st]
        src = r.choice(ls)
        n = sc[src][1]
        if k < 0.35:
            x = self.fresh('zs')
            sc[x] = sc[src]
            self.features.add('list-alias')
            return [Node('assign', PV(x), V(src))]
        if k < 0.5 and n:
            self.features.add('list-store')
            return [Node('iassign', src, [lit(r.randrange(n))], self.rexpr(sc, 1))]
        if k < 0.62 and n:
            x = self.fresh('sl')
            a = r.randint(0, n)
            b = r.randint(a, n)
            sc[x] = ('L', b - a)
            self.features.add('list-slice')
            return [Node('assign', PV(x), Node('slice', V(src), lit(a) if r.random() < 0.7 else None, lit(b)))]
        if k < 0.76:
            p, a, b = self.fresh('p'), self.fresh('a'), self.fresh('b')
            self.features.add('tuple')
            sts = [Node('assign', PV(p), Node('tuple', [self.rexpr(sc, 1), V(src)])),
                   Node('assign', Node('ptuple', [PV(a), PV(b)]), V(p))]
            sc[a] = 'R'
            sc[b] = sc[src]
            return sts
        if k < 0.93:
            # a list of lists, sliced: the rows of the slice are the rows of the original
            rows, sl, row = self.fresh('rows'), self.fresh('sl'), self.fresh('row')
            other = r.choice(ls)
            self.features.add('nested-slice')
            sts = [Node('assign', PV(rows), Node('list', [V(src), V(other)])),
                   Node('assign', PV(sl), Node('slice', V(rows), lit(0), lit(1))),
                   Node('assign', PV(row), Node('ref', V(sl), lit(0)))]
            sc[row] = sc[src]
            return sts
        x = self.fresh('s')
        sc[x] = 'R'
        self.features.add('sum')
        return [Node('assign', PV(x), Node('sum', V(src)))] if n else self.assign(sc)

    def const_chain(self, sc):
        """Constants flowing through assignments and arithmetic (partial evaluation)."""
        self.features.add('const-chain')
        a, b = self.fresh('c'), self.fresh('c')
        out = [Node('assign', PV(a), lit(self.r.choice([1, 2, 3, F(1, 2), 0])))]
        sc[a] = 'R'
        out.append(Node('assign', PV(b), Node('op2', self.r.choice(['add', 'mul', 'sub']), V(a), lit(self.r.choice([1, 2, F(1, 4)])))))
        sc[b] = 'R'
        return out

    def stmts(self, sc, count, budget, allow_new=True):
        r = self.r
        out = []
        for _ in range(count):
            k = r.random()
            if not self.reals(sc):
                out += self.assign(sc)
            elif k < 0.22:
                out += self.assign(sc) if allow_new else self.assign(sc, r.choice(self.reals(sc)))
            elif k < 0.42:
                if allow_new:
                    out += self.ladder(sc, budget)
                else:
                    out += self.if1(sc, budget)
            elif k < 0.54 and budget > 0 and allow_new:
                out += self.with_block(sc, budget, real=r.random() < 0.7)
            elif k < 0.66 and budget > 0 and allow_new:
                out += self.while_loop(sc, budget)
            elif k < 0.76 and budget > 0 and allow_new:
                out += self.for_loop(sc, budget)
            elif k < 0.84:
                out += self.if1(sc, budget)
            elif k < 0.89 and self.lists and allow_new:
                out += self.list_stmt(sc)
            elif k < 0.93 and self.lists and allow_new and any(isinstance(t, tuple) and t[1] for t in sc.values()):
                out += self.nested_merge(sc)
            elif k < 0.97 and self.reals(sc):
                out += self.half_return(sc)
            elif allow_new:
                out += self.const_chain(sc)
            else:
                out += self.assign(sc, r.choice(self.reals(sc)))
        return out

    # ------------------------------------------------------------ programs
    def program(self):
        r = self.r
        sig, params, sc = [], [], {}
        for i in range(r.randint(1, 3)):
            params.append(f'x{i}')
            sig.append('R')
            sc[f'x{i}'] = 'R'
        if self.lists and r.random() < 0.5:
            n = r.randint(1, 3)
            params.append('xs')
            sig.append(('L', n))
            sc['xs'] = ('L', n)
        fctx = None
        k = r.random()
        if k < 0.3:
            fctx = CtxSpec('REAL')
        elif k < 0.55:
            fctx = small_ctx(r)
        body = self.stmts(sc, r.randint(2, 5), 2)
        body.append(Node('return', self.rexpr(sc, 2)))
        f = Func('main', params, fctx, body)
        prog = Program([f])
        # the module must define the context constants the program mentions
        return prog, sig

    def args(self, sig, special=0.3):
        r = self.r

        def one():
            if r.random() < special:
                return r.choice(SPECIALS)
            return r.choice(PLAIN)
        out = []
        for t in sig:
            if t == 'R':
                out.append(one())
            else:
                out.append([one() for _ in range(t[1])])
        return out


# ---------------------------------------------------------------- calls of callees with symbolic list dimensions
_SIZED_PRELUDE = '''import fpy2 as fp
from fpy2.utils import NamedId
from fpy2.ast.fpyast import ListTypeAnn, RealTypeAnn


def _sized(func, **dims):
    """Give list parameters a symbolic dimension name (what the FPCore frontend produces for `(xs N)`)."""
    for arg in func.ast.args:
        if str(arg.name) in dims:
            arg.type = ListTypeAnn(RealTypeAnn(None, None), NamedId(dims[str(arg.name)]), None)
    return func

'''


def sized_call_program(r):
    """Module text + argument tuples: a caller `main` whose list parameters carry dimension names calls callees whose
    parameters carry (the same) dimension names and return their argument directly / in a tuple / in a nested
    tuple.  Parameters of `main` that share a dimension name get lists of equal length; the others do not."""
    shapes = {
        'plain': ('return xs', 'ys = {g}({arg})'),
        'pair': ('return (xs, len(xs))', '(ys, n1) = {g}({arg})'),
        'pair2': ('return (sum(xs), xs)', '(n1, ys) = {g}({arg})'),
        'nested': ('return (0.5, (xs, 1))', '(z1, (ys, o1)) = {g}({arg})'),
        'nested2': ('return ((xs, 2), (1, xs))', '((ys, o1), (z1, ys2)) = {g}({arg})'),
    }
    lines = [_SIZED_PRELUDE]
    use = r.sample(sorted(shapes), r.randint(1, 2))
    for i, k in enumerate(use):
        lines += ['@fp.fpy', f'def g{i}(xs: list[fp.Real]):', f'    {shapes[k][0]}', '', f"_sized(g{i}, xs='{r.choice(['N', 'N', 'M'])}')", '']
    three = r.random() < 0.5
    params = 'a: list[fp.Real], b: list[fp.Real]' + (', c: list[fp.Real]' if three else '')
    body = []
    outs = []
    for i, k in enumerate(use):
        arg = r.choice(['b', 'b', 'a'])
        call = shapes[k][1].format(g=f'g{i}', arg=arg).replace('ys', f'ys{i}').replace('n1', f'n{i}').replace('z1', f'z{i}').replace('o1', f'o{i}')
        body.append(call)
        outs.append(f'ys{i}')
    body.append('s = ' + ' + '.join([f'sum({o})' for o in outs] + ['len(a)']))
    if r.random() < 0.4:
        body.append('t = [x for x in ' + outs[0] + ']')
        outs.append('t')
    k = r.random()
    if k < 0.4:
        body.append(f'return {outs[0]}')
    elif k < 0.7:
        body.append(f'return ({outs[-1]}, a, s)')
    else:
        body.append('return s')
    lines += ['@fp.fpy', f'def main({params}):'] + ['    ' + b for b in body] + ['']
    dims = "a='N'" + (", c='N'" if three else '') + (", b='K'" if r.random() < 0.3 else '')
    lines.append(f'_sized(main, {dims})')
    text = '\n'.join(lines) + '\n'

    def lst(n):
        return [N.fin(r.choice([1, 2, -3, F(1, 2), 0])) for _ in range(n)]
    arg_sets = []
    for _ in range(4):
        la, lb = r.randint(0, 4), r.randint(0, 4)
        arg_sets.append([lst(la), lst(lb)] + ([lst(la)] if three else []))
    return text, arg_sets
