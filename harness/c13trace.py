"""
C13: traced execution of an FPy function on the real fpy2 (no repo hook).

`TracingCompiler` is a subclass of fpy2.interpret.byte.BytecodeCompiler: the
Python AST it emits is the one the real compiler emits, with every expression
wrapped in a recording call and a recording statement after every binding /
at every phi point.  `trace_call(fn, args, ctx)` compiles fn.ast that way, runs
it exactly as BytecodeInterpreter.eval does (to_value on the way in,
`_func_ctx` for the context) and returns the recorded events:

  ('val', expr_node, value, active_ctx)      an expression produced `value`
  ('use', use_node, def_index)               a variable read (Var / IndexedAssign) observed the binding made by
                                             definition #def_index of DefineUse (None: bound outside the function)
  ('def', def_index, name, value)            definition #def_index bound `name` to `value`
  ('phi', phi_index, name, value, def_index) control reached the phi; `name` holds `value`, bound by #def_index
  ('lists', stmt_node, {name: (copy, [(depth, list object)])}, {name: def_index})
                                             after a statement: the list-valued variables in scope, a copy of the
                                             value and the list OBJECTS in it (for alias / equal-length facts), and
                                             who bound each name
  ('escaped', [list objects])                lists returned by a call (the callee may have created aliasing)

plus the outcome ('ok', result) or ('exc', exception).
Values are the interpreter's own (Float / Fraction / bool / list / tuple / Context).
"""
from __future__ import annotations

import ast as pyast

from fpy2.analysis import DefineUse
from fpy2.analysis.reaching_defs import AssignDef, PhiDef
from fpy2.ast import fpyast as A
from fpy2.interpret.byte import CTX_NAME, BytecodeCompiler
from fpy2.interpret import get_default_interpreter
from fpy2.interpret.value import from_value, to_value


def snap(v, depth=0):
    """A structural copy of a value (lists are mutable: later stores must not change what was recorded)."""
    if depth > 6:
        return v
    if isinstance(v, list):
        return [snap(x, depth + 1) for x in v]
    if isinstance(v, tuple):
        return tuple(snap(x, depth + 1) for x in v)
    return v


def list_objects(v, depth=0, out=None):
    """(depth, object) for v and every list nested in it along list levels (identity structure, now)."""
    if out is None:
        out = []
    if isinstance(v, list) and depth <= 3:
        out.append((depth, v))
        for x in v[:6]:
            list_objects(x, depth + 1, out)
    return out


def all_lists(v, out=None, depth=0):
    """Every list object reachable from v (through lists and tuples)."""
    if out is None:
        out = []
    if depth > 6:
        return out
    if isinstance(v, list):
        out.append(v)
        for x in v:
            all_lists(x, out, depth + 1)
    elif isinstance(v, tuple):
        for x in v:
            all_lists(x, out, depth + 1)
    return out


class Recorder:
    def __init__(self):
        self.events = []
        self.defs = {}          # name -> index of the definition that bound it last (runtime)
        self.keys = []          # key -> node
        self.call_args = set()  # ids of the expression nodes that are arguments of a call

    def key(self, node):
        self.keys.append(node)
        return len(self.keys) - 1

    # runtime entry points (called from the compiled code)
    def val(self, k, v, ctx):
        node = self.keys[k]
        self.events.append(('val', node, snap(v), ctx))
        if type(node).__name__ == 'Call' or id(node) in self.call_args:
            # lists that went through a call: aliasing created by the callee is not the analysed function's
            self.events.append(('escaped', all_lists(v)))
        return v

    def use(self, k, name, v):
        self.events.append(('use', self.keys[k], self.defs.get(name)))
        return v

    def use_stmt(self, k, name):
        self.events.append(('use', self.keys[k], self.defs.get(name)))

    def bind(self, idx, name, v):
        self.defs[name] = idx
        self.events.append(('def', idx, name, snap(v)))

    def rebind(self, idx, name):
        self.defs[name] = idx

    def phi(self, idx, name, v):
        self.events.append(('phi', idx, name, snap(v), self.defs.get(name)))
        return True

    def lists(self, k, env):
        # the identity structure is taken NOW (the objects are kept alive, so ids stay unique)
        self.events.append(('lists', self.keys[k], {n: (snap(v), list_objects(v)) for n, v in env.items()}, dict(self.defs)))


def _c(value):
    return pyast.Constant(value=value, kind=None)


class TracingCompiler(BytecodeCompiler):
    def __init__(self, func, env, rec: Recorder, du=None):
        super().__init__(func, env)
        self.rec = rec
        self.du = du if du is not None else DefineUse.analyze(func)
        self.prologue = {}      # id(block) -> [py stmts] to run at the start of the block
        self.foreign_vals['__c13'] = rec
        self.scope_names = []   # names that may be bound (for the `lists` snapshots)

    # ------------------------------------------------------------ helpers
    def _call(self, meth, args, attrs):
        f = pyast.Attribute(value=pyast.Name(id='__c13', ctx=pyast.Load(), **attrs), attr=meth, ctx=pyast.Load(), **attrs)
        return pyast.Call(func=f, args=args, keywords=[], **attrs)

    def _fix(self, node, attrs):
        for n in pyast.walk(node):
            for k, v in attrs.items():
                if not hasattr(n, k):
                    setattr(n, k, v)
        return node

    def _def_index(self, name, site):
        d = self.du.site_to_def.get((name, site))
        return None if d is None else self.du.def_to_idx[d]

    def _bind_stmts(self, names, site, attrs):
        out = []
        for name in names:
            idx = self._def_index(name, site)
            if idx is None:
                continue
            call = self._call('bind', [_c(idx), _c(str(name)), pyast.Name(id=str(name), ctx=pyast.Load())], attrs)
            out.append(self._fix(pyast.Expr(value=call), attrs))
        return out

    def _phi_calls(self, stmt, attrs):
        calls = []
        for phi in sorted(self.du.phis.get(stmt, ()), key=lambda p: str(p.name)):
            idx = self.du.def_to_idx[phi]
            calls.append(self._call('phi', [_c(idx), _c(str(phi.name)), pyast.Name(id=str(phi.name), ctx=pyast.Load())], attrs))
        return calls

    def _lists_stmt(self, stmt, attrs):
        k = self.rec.key(stmt)
        # locals() of the compiled function: every FPy variable is a Python local
        call = self._call('lists', [_c(k), pyast.Call(func=pyast.Name(id='__c13_locals', ctx=pyast.Load()), args=[], keywords=[])], attrs)
        return self._fix(pyast.Expr(value=call), attrs)

    # ------------------------------------------------------------ expressions
    def _visit_expr(self, e, ctx):
        py = super()._visit_expr(e, ctx)
        attrs = self._location_to_attributes(e.loc)
        k = self.rec.key(e)
        if isinstance(e, A.Call):
            self.rec.call_args.update(id(a) for a in e.args)
        if isinstance(e, A.Var):
            d = self.du.use_to_def.get(e)
            # a comprehension target lives in the comprehension's own Python scope: not tracked
            tracked = d is not None and not (isinstance(d, AssignDef) and isinstance(d.site, A.ListComp))
            if tracked:
                py = self._call('use', [_c(k), _c(str(e.name)), py], attrs)
        out = self._call('val', [_c(k), py, pyast.Name(id=CTX_NAME, ctx=pyast.Load())], attrs)
        return self._fix(out, attrs)

    # ------------------------------------------------------------ statements
    def _visit_block(self, block, ctx):
        out = list(self.prologue.pop(id(block), []))
        for stmt in block.stmts:
            attrs = self._location_to_attributes(stmt.loc)
            py = self._visit_statement(stmt, ctx)
            pre, post = [], []
            if isinstance(stmt, A.Assign):
                post += self._bind_stmts(list(stmt.target.names()), stmt, attrs)
            elif isinstance(stmt, A.IndexedAssign):
                k = self.rec.key(stmt)
                pre.append(self._fix(pyast.Expr(value=self._call('use_stmt', [_c(k), _c(str(stmt.var))], attrs)), attrs))
                idx = self._def_index(stmt.var, stmt)
                if idx is not None:
                    post.append(self._fix(pyast.Expr(value=self._call('rebind', [_c(idx), _c(str(stmt.var))], attrs)), attrs))
            if isinstance(stmt, (A.If1Stmt, A.IfStmt)):
                for c in self._phi_calls(stmt, attrs):
                    post.append(self._fix(pyast.Expr(value=c), attrs))
            out += pre + [py] + post
            if not isinstance(stmt, A.ReturnStmt):
                out.append(self._lists_stmt(stmt, attrs))
        return out

    def _visit_while(self, stmt, ctx):
        py = super()._visit_while(stmt, ctx)
        attrs = self._location_to_attributes(stmt.loc)
        calls = self._phi_calls(stmt, attrs)
        if calls:
            # evaluated before the condition, on every iteration including the last test
            tup = pyast.Tuple(elts=calls + [py.test], ctx=pyast.Load())
            py.test = self._fix(pyast.Subscript(value=tup, slice=_c(len(calls)), ctx=pyast.Load()), attrs)
        return py

    def _visit_for(self, stmt, ctx):
        attrs = self._location_to_attributes(stmt.loc)
        pro = [self._fix(pyast.Expr(value=c), attrs) for c in self._phi_calls(stmt, attrs)]
        pro += self._bind_stmts(list(stmt.target.names()), stmt, attrs)
        self.prologue[id(stmt.body)] = pro
        return super()._visit_for(stmt, ctx)

    def _visit_context(self, stmt, ctx):
        attrs = self._location_to_attributes(stmt.loc)
        if isinstance(stmt.target, A.NamedId):
            self.prologue[id(stmt.body)] = self._bind_stmts([stmt.target], stmt, attrs)
        return super()._visit_context(stmt, ctx)

    def _visit_function(self, func, ctx):
        attrs = self._location_to_attributes(func.loc)
        pro = []
        for arg in func.args:
            if isinstance(arg.name, A.NamedId):
                pro += self._bind_stmts([arg.name], arg, attrs)
        self.prologue[id(func.body)] = pro
        return super()._visit_function(func, ctx)


def _locals_snapshot():
    import sys
    fr = sys._getframe(1)
    return {k: v for k, v in fr.f_locals.items() if isinstance(v, list) and not k.startswith('__')}


def compile_traced(fn, du=None):
    """-> (python callable, Recorder factory state).  One compilation serves many runs: call rec.reset()."""
    rec = Recorder()
    comp = TracingCompiler(fn.ast, fn.env, rec, du)
    comp.foreign_vals['__c13_locals'] = _locals_snapshot
    pyfn = comp.compile()
    return pyfn, rec, comp.du


def run_traced(fn, pyfn, rec, args, ctx=None):
    """Run the traced function like BytecodeInterpreter.eval does.  Returns (events, outcome)."""
    rec.events = []
    rec.defs = {}
    rt = get_default_interpreter()
    c = rt._func_ctx(fn.ast, ctx)
    vals = tuple(to_value(a) for a in args)
    try:
        res = pyfn(*vals, __ctx__=c)
        out = ('ok', from_value(res))
    except RecursionError as e:     # noqa: PERF203
        out = ('exc', e)
    except Exception as e:          # noqa: BLE001 -- every exception class is an observable outcome
        out = ('exc', e)
    return rec.events, out
