"""
C13 helpers: run the real analyses of fpy2 on a function, check every reported
fact against traced run-time values (testing / failing-input search), and
export the function annotated with the facts as a Coq term for the verified
fact checkers (coq/Analysis/Fact*.v).

    F = Facts(fn)                       all analyses on fn.ast (fail-closed: F.errors names an analysis that raised)
    violations = check_trace(F, events) list of dicts {analysis, what, node, fact, observed}
    term = AnnExporter(F).afunc()       Coq term of type `afunc ann` (raises lang.Unsupported outside the fragment)
"""
from __future__ import annotations

from fractions import Fraction

from . import lang
from .lang import N, Unsupported, clist, cstr, cz

CLS_NAN, CLS_INF, CLS_ZERO, CLS_FIN = 1, 2, 4, 8


# ---------------------------------------------------------------- values
def is_number(v):
    return (isinstance(v, Fraction) or type(v).__name__ in ('Float', 'RealFloat')
            or (isinstance(v, (int, float)) and not isinstance(v, bool)))


def atom_of(v) -> int:
    """The class atom (as the ValueClass bit) of a run-time number."""
    n = N.of(v)
    if n.kind == 'nan':
        return CLS_NAN
    if n.kind == 'inf':
        return CLS_INF
    return CLS_ZERO if n.q == 0 else CLS_FIN


def same_value(a, b) -> bool:
    """`veq`: numbers by class, sign (zeros too) and value; NaN = NaN; containers element-wise."""
    if isinstance(a, bool) or isinstance(b, bool):
        return isinstance(a, bool) and isinstance(b, bool) and a == b
    if is_number(a) and is_number(b):
        x, y = N.of(a), N.of(b)
        if x.kind == 'nan' or y.kind == 'nan':
            return x.kind == y.kind
        return x.key() == y.key()
    if isinstance(a, (list, tuple)) and isinstance(b, (list, tuple)):
        return type(a) is type(b) and len(a) == len(b) and all(same_value(x, y) for x, y in zip(a, b))
    if type(a).__name__.endswith('Context') and type(b).__name__.endswith('Context'):
        return a == b
    if type(a).__name__ == 'Foreign' or type(b).__name__ == 'Foreign':
        return True     # opaque Python values: not compared
    return a == b


# ---------------------------------------------------------------- the analyses
class Facts:
    def __init__(self, fn):
        from fpy2.analysis import (Alias, ArraySizeInfer, ContextUse, DefineUse, PartialEval, TypeInfer,
                                   ValueClassInfer)
        self.fn = fn
        self.ast = ast = fn.ast
        self.errors = {}
        self.du = DefineUse.analyze(ast)
        self.ty = self.pe = self.cu = self.vc = self.sz = self.al = None

        def attempt(name, thunk):
            try:
                return thunk()
            except Exception as e:  # noqa: BLE001 -- an analysis refusing a program is recorded, not fatal
                self.errors[name] = f'{type(e).__name__}: {e}'
                return None
        self.ty = attempt('type_infer', lambda: TypeInfer.check(ast, def_use=self.du))
        self.pe = attempt('partial_eval', lambda: PartialEval.apply(ast, def_use=self.du))
        if self.pe is not None:
            self.cu = attempt('context_use', lambda: ContextUse.analyze(ast, partial_eval=self.pe))
        if self.ty is not None and self.cu is not None:
            self.vc = attempt('value_class', lambda: ValueClassInfer.analyze(ast, def_use=self.du, type_info=self.ty, ctx_use=self.cu))
        if self.ty is not None and self.pe is not None:
            self.sz = attempt('array_size', lambda: ArraySizeInfer.analyze(ast, partial_eval=self.pe, type_info=self.ty))
        if self.ty is not None:
            self.al = attempt('alias', lambda: Alias.analyze(ast, def_use=self.du, type_info=self.ty))
        self._closure = {}

    # definitions that may flow into definition #i through phi nodes (reflexive-transitive)
    def reaching(self, i):
        if i in self._closure:
            return self._closure[i]
        from fpy2.analysis.reaching_defs import PhiDef
        seen, todo = set(), [i]
        while todo:
            k = todo.pop()
            if k in seen:
                continue
            seen.add(k)
            d = self.du.defs[k]
            if isinstance(d, PhiDef):
                todo += [d.lhs, d.rhs]
        self._closure[i] = seen
        return seen

    def nfacts(self):
        """How many non-trivial facts the analyses report (for the evidence)."""
        n = {'class': 0, 'const': 0, 'reach_use': 0, 'phi': 0, 'type': 0, 'size': 0, 'ctx': 0}
        if self.vc is not None:
            n['class'] = sum(1 for c in self.vc.by_expr.values() if c is not None and int(c.value) != 15)
        if self.pe is not None:
            n['const'] = len(self.pe.by_expr)
        n['reach_use'] = len(self.du.use_to_def)
        n['phi'] = sum(len(v) for v in self.du.phis.values())
        if self.ty is not None:
            n['type'] = len(self.ty.by_expr)
        if self.sz is not None:
            n['size'] = sum(1 for b in self.sz.by_expr.values() if b is not None)
        if self.cu is not None:
            n['ctx'] = sum(1 for s in self.cu.use_to_scope.values() if type(s.ctx).__name__.endswith('Context'))
        return n


# ---------------------------------------------------------------- facts against traced values
def _fmt(node):
    try:
        return node.format()
    except Exception:  # noqa: BLE001
        return repr(node)


def type_ok(ty, v, depth=0) -> bool:
    """Does the run-time value have the shape of the inferred type?"""
    tn = type(ty).__name__
    if tn == 'VarType' or depth > 8:
        return True
    if type(v).__name__ in ('Foreign', '_Uninit') or repr(v) == 'UNINIT':
        return True
    if tn == 'BoolType':
        return isinstance(v, bool)
    if tn == 'RealType':
        return is_number(v)
    if tn == 'ContextType':
        return type(v).__name__.endswith('Context')
    if tn == 'TupleType':
        return isinstance(v, tuple) and len(v) == len(ty.elts) and all(type_ok(t, x, depth + 1) for t, x in zip(ty.elts, v))
    if tn == 'ListType':
        if not isinstance(v, list):
            return False
        if isinstance(ty.length, int) and len(v) != ty.length:
            return False
        return all(type_ok(ty.elt, x, depth + 1) for x in v)
    return True


def size_ok(bound, v, symbolic, depth=0):
    """Static lengths hold; lengths of symbolic sizes are collected in `symbolic` (name -> set of lengths)."""
    bn = type(bound).__name__
    if bound is None or depth > 8:
        return True
    if bn == 'ListSize':
        if not isinstance(v, list):
            return True     # shapes are the type check's business
        if isinstance(bound.size, int):
            if len(v) != bound.size:
                return False
        elif bound.size is not None:
            symbolic.setdefault(str(bound.size), set()).add(len(v))
        return all(size_ok(bound.elt, x, symbolic, depth + 1) for x in v)
    if bn == 'TupleSize':
        if not isinstance(v, tuple) or len(v) != len(bound.elts):
            return True
        return all(size_ok(b, x, symbolic, depth + 1) for b, x in zip(bound.elts, v))
    return True


def type_lens(ty, v, symbolic, depth=0):
    """Lengths observed for the SYMBOLIC list lengths (dimension names) of an inferred type."""
    tn = type(ty).__name__
    if depth > 8:
        return
    if tn == 'ListType' and isinstance(v, list):
        if ty.length is not None and not isinstance(ty.length, int):
            symbolic.setdefault('type:' + str(ty.length), set()).add(len(v))
        for x in v:
            type_lens(ty.elt, x, symbolic, depth + 1)
    elif tn == 'TupleType' and isinstance(v, tuple) and len(v) == len(ty.elts):
        for t1, x in zip(ty.elts, v):
            type_lens(t1, x, symbolic, depth + 1)


def check_result(F, argvals, result):
    """The returned value against ret_size / the return type, together with the parameters: a dimension name
    shared by a parameter and the result (or by two parameters) denotes one length in a run."""
    bad = []
    symbolic = {}
    ok = True
    for arg, v in zip(F.ast.args, argvals):
        try:
            d = F.du.find_def_from_site(arg.name, arg)
        except Exception:  # noqa: BLE001
            continue
        if F.sz is not None and d in F.sz.by_def:
            ok = size_ok(F.sz.by_def[d], v, symbolic) and ok
        if F.ty is not None and d in F.ty.by_def:
            type_lens(F.ty.by_def[d], v, symbolic)
    if F.sz is not None:
        if not size_ok(F.sz.ret_size, result, symbolic):
            bad.append({'analysis': 'array_size.ret_size', 'what': 'the returned list does not have its inferred static length',
                        'node': '<return>', 'fact': str(F.sz.ret_size), 'observed': repr(result)[:200], 'obj': None, 'var': None})
    if F.ty is not None:
        rt = F.ty.return_type
        if not type_ok(rt, result):
            bad.append({'analysis': 'type_infer.return_type', 'what': 'the returned value does not have the shape of the inferred return type',
                        'node': '<return>', 'fact': rt.format(), 'observed': repr(result)[:200], 'obj': None, 'var': None})
        type_lens(rt, result, symbolic)
    for sv, lens in symbolic.items():
        if len(lens) > 1:
            bad.append({'analysis': 'array_size.equal_length' if not sv.startswith('type:') else 'type_infer.equal_length',
                        'what': 'lists reported equal-length (parameters / returned value) have different lengths',
                        'node': '<parameters and return>', 'fact': sv, 'observed': str(sorted(lens)), 'obj': None, 'var': None})
    return bad


def carries_list(ty, depth=0) -> bool:
    """Does the inferred type say the value is (or holds) a list?  (A type variable does not: the alias
    analysis makes no claim about values it does not know to be lists.)"""
    tn = type(ty).__name__
    if tn == 'ListType':
        return True
    if tn == 'TupleType' and depth < 6:
        return any(carries_list(t, depth + 1) for t in ty.elts)
    return False


def _list_objects(v, depth=0, out=None):
    """(depth, object) for v and every list nested in it along list levels."""
    if out is None:
        out = []
    if isinstance(v, list) and depth <= 3:
        out.append((depth, v))
        for x in v[:6]:
            _list_objects(x, depth + 1, out)
    return out


def check_trace(F: Facts, events):
    """Every reported fact against every traced value of one run."""
    bad = []
    du = F.du
    vc_e = F.vc.by_expr if F.vc is not None else {}
    vc_d = F.vc.by_def if F.vc is not None else {}
    pe_e = F.pe.by_expr if F.pe is not None else {}
    pe_d = F.pe.by_def if F.pe is not None else {}
    ty_e = F.ty.by_expr if F.ty is not None else {}
    ty_d = F.ty.by_def if F.ty is not None else {}
    sz_e = F.sz.by_expr if F.sz is not None else {}
    sz_d = F.sz.by_def if F.sz is not None else {}
    scopes = F.cu.use_to_scope if F.cu is not None else {}

    def add(analysis, what, node, fact, observed, var=None):
        bad.append({'analysis': analysis, 'what': what, 'node': node if isinstance(node, str) else _fmt(node),
                    'fact': str(fact), 'observed': repr(observed)[:200],
                    'obj': None if isinstance(node, str) else node, 'var': var})

    def class_fact(cls, v, analysis, node, var=None):
        if cls is None or not is_number(v):
            return
        if not (int(cls.value) & atom_of(v)):
            add(analysis, 'a run-time value is outside the reported value class', node, cls, v, var=var)

    escaped, keep_alive = set(), []
    for ev in events:
        k = ev[0]
        if k == 'val':
            _, e, v, ctx = ev
            class_fact(vc_e.get(e), v, 'value_class.by_expr', e)
            if e in pe_e and not same_value(pe_e[e], v):
                add('partial_eval.by_expr', 'an expression reported constant evaluated to another value', e, repr(pe_e[e]), v)
            if e in ty_e and not type_ok(ty_e[e], v):
                add('type_infer.by_expr', 'a run-time value does not have the shape of the inferred type', e, ty_e[e].format(), v)
            if e in sz_e and not size_ok(sz_e[e], v, {}):
                add('array_size.by_expr', 'a list does not have its inferred static length', e, sz_e[e], v)
            sc = scopes.get(e)
            if sc is not None and type(sc.ctx).__name__.endswith('Context') and sc.ctx != ctx:
                add('context_use', 'an operation ran under a context other than the reported one', e, sc.ctx, ctx)
        elif k == 'use':
            _, u, di = ev
            d = du.use_to_def.get(u)
            if d is None:
                continue
            si = du.def_to_idx[d]
            if getattr(d, 'is_free', False) and di is None:
                continue
            if di is None or di not in F.reaching(si):
                add('reaching_defs', 'a variable read observed a definition not listed as reaching it', u,
                    f'use resolves to #{si}, reached by {sorted(F.reaching(si))}', f'bound by #{di}')
        elif k == 'def':
            _, di, name, v = ev
            d = du.defs[di]
            class_fact(vc_d.get(d), v, 'value_class.by_def', f'{name} (def #{di})', var=name)
            if d in pe_d and not same_value(pe_d[d], v):
                add('partial_eval.by_def', 'a definition reported constant was bound to another value', f'{name} (def #{di})', repr(pe_d[d]), v)
            if d in ty_d and not type_ok(ty_d[d], v):
                add('type_infer.by_def', 'a bound value does not have the shape of the inferred type', f'{name} (def #{di})', ty_d[d].format(), v)
            if d in sz_d and not size_ok(sz_d[d], v, {}):
                add('array_size.by_def', 'a bound list does not have its inferred static length', f'{name} (def #{di})', sz_d[d], v)
        elif k == 'phi':
            _, pi, name, v, di = ev
            d = du.defs[pi]
            class_fact(vc_d.get(d), v, 'value_class.by_def(phi)', f'{name} (phi #{pi})', var=name)
            if d in pe_d and not same_value(pe_d[d], v):
                add('partial_eval.by_def(phi)', 'a phi reported constant held another value', f'{name} (phi #{pi})', repr(pe_d[d]), v)
            if d in ty_d and not type_ok(ty_d[d], v):
                add('type_infer.by_def(phi)', 'a value at a phi does not have the shape of the inferred type', f'{name} (phi #{pi})', ty_d[d].format(), v)
            if di is None or di not in F.reaching(pi):
                add('reaching_defs(phi)', 'the value at a phi was bound by a definition not listed as reaching it',
                    f'{name} (phi #{pi})', sorted(F.reaching(pi)), f'bound by #{di}')
        elif k == 'escaped':
            escaped.update(id(o) for o in ev[1])
            keep_alive.extend(ev[1])
        elif k == 'lists':
            _, stmt, env, defs = ev
            # equal-length classes and aliasing among the list variables in scope right now
            symbolic = {}
            objs = []       # (name, def, depth, object)
            for name, (v, structure) in env.items():
                di = defs.get(name)
                if di is None:
                    continue
                d = du.defs[di]
                if d in sz_d:
                    local = {}
                    size_ok(sz_d[d], v, local)
                    for sv, lens in local.items():
                        symbolic.setdefault(sv, set()).update(lens)
                if d in ty_d:
                    type_lens(ty_d[d], v, symbolic)
                if not carries_list(ty_d.get(d)):
                    continue
                for depth, o in structure:
                    objs.append((name, d, depth, o))
            for sv, lens in symbolic.items():
                if len(lens) > 1:
                    add('type_infer.equal_length' if sv.startswith('type:') else 'array_size.equal_length',
                        'two lists reported equal-length have different lengths', stmt, sv, sorted(lens))
            if F.al is not None:
                for i in range(len(objs)):
                    for j in range(i + 1, len(objs)):
                        n1, d1, k1, o1 = objs[i]
                        n2, d2, k2, o2 = objs[j]
                        if o1 is o2 and (n1 != n2 or k1 != k2) and id(o1) not in escaped:
                            r1, r2 = F.al.region_of(d1, k1), F.al.region_of(d2, k2)
                            if r1 is None or r2 is None or r1 is not r2:
                                add('alias', 'two places holding the same list are not reported as possibly aliased', stmt,
                                    f'{n1}@{k1} region {r1} / {n2}@{k2} region {r2}', f'{n1} and {n2} share a list object')
    return bad


# ---------------------------------------------------------------- annotated export (Coq `afunc ann`)
def cls_term(c):
    return 'None' if c is None else f'(Some (cls_of_Z {int(c.value)}))'


class AnnExporter:
    """fpy2 FuncDef + facts -> Coq term of type `afunc ann` (Analysis/Instr.v, Analysis/FactClass.v)."""

    def __init__(self, F: Facts, callees=None):
        self.F = F
        self.fd = F.ast
        self.base = lang._Exporter(F.ast, {} if callees is None else callees)
        self.callees = self.base.callees

    # ---- annotations
    def ann(self, cls=None, ctx=None, const=None, d=0, args=()):
        return f'(Ann {cls_term(cls)} {ctx or "None"} {const or "None"} {d}%nat {clist(f"{a}%nat" for a in args)})'

    def _const_term(self, e):
        pe = self.F.pe
        if pe is None or e not in pe.by_expr:
            return None
        v = pe.by_expr[e]
        try:
            if isinstance(v, bool) or is_number(v) or type(v).__name__.endswith('Context'):
                return f'(Some {lang.cval_of_py(v)})'
        except Unsupported:
            return None
        return None

    def _ctx_term(self, e):
        cu = self.F.cu
        if cu is None:
            return None
        sc = cu.use_to_scope.get(e)
        if sc is None or not type(sc.ctx).__name__.endswith('Context'):
            return None
        return f'(Some {lang.ctx_to_coq(sc.ctx)})'

    def eann(self, e, d=0):
        vc = self.F.vc
        cls = vc.by_expr.get(e) if vc is not None else None
        return self.ann(cls=cls, ctx=self._ctx_term(e), const=self._const_term(e), d=d)

    def dann(self, d):
        """Annotation of a definition (binding site or phi)."""
        from fpy2.analysis.reaching_defs import PhiDef
        vc = self.F.vc
        cls = vc.by_def.get(d) if vc is not None else None
        idx = self.F.du.def_to_idx[d]
        if isinstance(d, PhiDef):
            args = (d.lhs, d.rhs)
        else:
            args = () if d.prev is None else (d.prev,)
        return self.ann(cls=cls, d=idx, args=args)

    def site_ann(self, name, site):
        return self.dann(self.F.du.find_def_from_site(name, site))

    def use_idx(self, e):
        d = self.F.du.use_to_def.get(e)
        return 0 if d is None else self.F.du.def_to_idx[d]

    # ---- expressions
    def uses_of(self, e):
        """(name, annotation) of every tracked variable occurrence in an opaque expression, in Sem's order."""
        import fpy2.ast.fpyast as A
        out = []

        def go(x, bound):
            if isinstance(x, A.Var):
                if self.base._is_free(x) or str(x.name) in bound:
                    return
                out.append((str(x.name), self.eann(x, d=self.use_idx(x))))
                return
            if isinstance(x, A.ListComp):
                b = set(bound)
                for t, it in zip(x.targets, x.iterables):
                    go(it, b)
                    b |= {str(n) for n in t.names()}
                go(x.elt, b)
                return
            if isinstance(x, A.Call):
                for a in x.args:
                    go(a, bound)
                return
            if isinstance(x, A.Attribute):
                return
            for child in _children(x):
                go(child, bound)
        go(e, frozenset())
        return out

    def expr(self, e):
        tn = type(e).__name__
        X = self.expr
        a = None
        if tn == 'Var':
            if self.base._is_free(e):
                v = self.base._free_value(str(e.name))
                if type(v).__name__.endswith('Context'):
                    return f'(ACtxVal {self.eann(e)} {lang.ctx_to_coq(v)})'
                raise Unsupported(f'free variable {e.name}')
            return f'(AVar {self.eann(e, d=self.use_idx(e))} {cstr(str(e.name))})'
        if tn == 'BoolVal':
            return f'(ABool {self.eann(e)} {"true" if e.val else "false"})'
        if tn in ('Decnum', 'Hexnum', 'Integer', 'Rational', 'Digits'):
            v = N.of(e.as_real())
            if v.is_dyadic():
                return f'(ANum {self.eann(e)} {v.coq_fl()})'
            return f'(ARat {self.eann(e)} {cz(v.q.numerator)} {cz(v.q.denominator)})'
        if tn in ('ForeignVal', 'Attribute'):
            v = e.val if tn == 'ForeignVal' else self.base._resolve(e)
            if type(v).__name__.endswith('Context'):
                return f'(ACtxVal {self.eann(e)} {lang.ctx_to_coq(v)})'
            raise Unsupported(f'foreign value {v!r}')
        if tn in lang._NULLARY:
            return f'(AOp0 {self.eann(e)} {lang.OPS[lang._NULLARY[tn]][0]})'
        if tn in lang._UNARY:
            return f'(AOp1 {self.eann(e)} {lang.OPS[lang._UNARY[tn]][0]} {X(e.arg)})'
        if tn in lang._PREDN:
            return f'(APred {self.eann(e)} {lang.PREDS[lang._PREDN[tn]]} {X(e.arg)})'
        if tn == 'Not':
            return f'(ANot {self.eann(e)} {X(e.arg)})'
        if tn in lang._BINARY:
            return f'(AOp2 {self.eann(e)} {lang.OPS[lang._BINARY[tn]][0]} {X(e.first)} {X(e.second)})'
        if tn == 'Fma':
            return f'(AOp3 {self.eann(e)} OFma {X(e.first)} {X(e.second)} {X(e.third)})'
        if tn == 'Compare':
            ops = clist(lang.CMPS[lang._CMPN[o.name]] for o in e.ops)
            return f'(ACompare {self.eann(e)} {ops} {clist(X(x) for x in e.args)})'
        if tn == 'And':
            return f'(AAnd {self.eann(e)} {clist(X(x) for x in e.args)})'
        if tn == 'Or':
            return f'(AOr {self.eann(e)} {clist(X(x) for x in e.args)})'
        if tn == 'IfExpr':
            return f'(AIf {self.eann(e)} {X(e.cond)} {X(e.ift)} {X(e.iff)})'
        if tn == 'Min':
            return f'(AMin {self.eann(e)} {clist(X(x) for x in e.args)})'
        if tn == 'Max':
            return f'(AMax {self.eann(e)} {clist(X(x) for x in e.args)})'
        if tn == 'Call' and isinstance(e.fn, type) and e.fn.__name__ in lang._CTOR_CLASSES:
            node = self.base.expr(e)      # validates the call shape (fail-closed)
            kind, rm, ov, _ = node.a
            nnum = lang.CTORS[kind][2]
            return f'(ACtor {self.eann(e)} {lang.CTORS[kind][1](rm, ov)} {clist(X(x) for x in e.args[:nnum])})'
        # anything else: an opaque leaf
        term = lang.coq(self.base.expr(e))
        uses = clist(f'({cstr(n)}, {an})' for n, an in self.uses_of(e))
        return f'(AOpaque {self.eann(e)} {term} {uses})'

    # ---- patterns, statements
    def pat(self, t, site):
        tn = type(t).__name__
        if tn == 'UnderscoreId':
            return 'APWild'
        if tn in ('NamedId', 'SourceId'):
            return f'(APVar {self.site_ann(t, site)} {cstr(str(t))})'
        if tn == 'TupleBinding':
            return f'(APTuple {clist(self.pat(x, site) for x in t.elts)})'
        raise Unsupported(f'binding {tn}')

    def phis(self, stmt):
        ps = sorted(self.F.du.phis.get(stmt, ()), key=lambda p: str(p.name))
        return clist(f'({cstr(str(p.name))}, {self.dann(p)})' for p in ps)

    def stmt(self, s):
        tn = type(s).__name__
        X, B = self.expr, self.block
        if tn == 'Assign':
            return f'(ASAssign {self.pat(s.target, s)} {X(s.expr)})'
        if tn == 'IndexedAssign':
            d = self.F.du.use_to_def.get(s)
            au = self.ann(d=0 if d is None else self.F.du.def_to_idx[d])
            idx = clist(lang.coq(self.base.expr(i)) for i in s.indices)
            return f'(ASIndexAssign {au} {self.site_ann(s.var, s)} {cstr(str(s.var))} {idx} {X(s.expr)})'
        if tn == 'If1Stmt':
            return f'(ASIf1 {self.phis(s)} {X(s.cond)} {B(s.body)})'
        if tn == 'IfStmt':
            return f'(ASIf {self.phis(s)} {X(s.cond)} {B(s.ift)} {B(s.iff)})'
        if tn == 'WhileStmt':
            return f'(ASWhile {self.phis(s)} {X(s.cond)} {B(s.body)})'
        if tn == 'ForStmt':
            return f'(ASFor {self.phis(s)} {self.pat(s.target, s)} {X(s.iterable)} {B(s.body)})'
        if tn == 'ContextStmt':
            tgt = 'None'
            if type(s.target).__name__ in ('NamedId', 'SourceId'):
                tgt = f'(Some ({self.site_ann(s.target, s)}, {cstr(str(s.target))}))'
            return f'(ASContext {tgt} {X(s.ctx)} {B(s.body)})'
        if tn == 'AssertStmt':
            return f'(ASAssert {X(s.test)})'
        if tn == 'EffectStmt':
            return f'(ASEffect {X(s.expr)})'
        if tn == 'ReturnStmt':
            return f'(ASReturn {X(s.expr)})'
        if tn == 'PassStmt':
            return 'ASPass'
        raise Unsupported(f'statement node {tn}')

    def block(self, b):
        return clist(self.stmt(s) for s in b.stmts)

    def afunc(self):
        fd = self.fd
        params = []
        for a in fd.args:
            if type(a.name).__name__ == 'UnderscoreId':
                raise Unsupported('unnamed parameter')
            params.append(f'({self.site_ann(a.name, a)}, {cstr(str(a.name))})')
        ctx = fd.ctx
        if ctx is None:
            c = 'None'
        else:
            if not type(ctx).__name__.endswith('Context') or type(ctx).__name__ == 'FPCoreContext':
                raise Unsupported(f'declared context {ctx!r}')
            c = f'(Some {lang.ctx_to_coq(ctx)})'
        return f'(AFunc {clist(params)} {c} {self.block(fd.body)})'


def _children(x):
    """Child expressions of an fpy2 expression node (generic, through __slots__)."""
    import fpy2.ast.fpyast as A
    out, seen = [], set()
    for cls in type(x).__mro__:
        for n in getattr(cls, '__slots__', ()):
            if n in seen or n in ('func', 'fn', 'kwargs', 'targets', 'loc'):
                continue
            seen.add(n)
            c = getattr(x, n, None)
            if isinstance(c, A.Expr):
                out.append(c)
            elif isinstance(c, (list, tuple)):
                out += [y for y in c if isinstance(y, A.Expr)]
    return out
