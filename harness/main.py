"""Entry point of ./check."""
import argparse
import importlib
import os
import sys
import traceback

from .common import Check


def main():
    if hasattr(sys, 'set_int_max_str_digits'):
        sys.set_int_max_str_digits(0)     # literals / exact values with thousands of digits are legitimate cases
    ap = argparse.ArgumentParser()
    ap.add_argument('pid')
    ap.add_argument('--tier', default=os.environ.get('VERIF_TIER', 'quick'), choices=['quick', 'thorough'])
    ap.add_argument('--replay', default=None)
    ap.add_argument('--seed', type=int, default=int(os.environ.get('VERIF_SEED', '0') or 0))
    a = ap.parse_args()
    pid = a.pid.upper()
    ck = Check(pid, a.tier, a.seed, a.replay)

    # watchdog: a run that does not finish (an implementation that no longer terminates on some input, a stuck
    # subprocess) is reported, with the stream that was running, instead of hanging the caller
    import threading
    limit = float(os.environ.get('VERIF_WATCHDOG_S', '2700' if a.tier == 'quick' else '21600'))

    def expired():
        ck.broken.append(f'watchdog: the check did not finish within {limit:.0f}s (the implementation or a checker '
                         f'subprocess no longer terminates); last log line: {getattr(ck, "last_log", "")}')
        rc = ck.finish(getattr(sys.modules.get(f'harness.props.{pid.lower()}'), 'LEVEL', 'proof'))
        sys.stdout.flush()
        os._exit(rc or 1)
    wd = threading.Timer(limit, expired)
    wd.daemon = True
    wd.start()
    try:
        mod = importlib.import_module(f'harness.props.{pid.lower()}')
        mod.run(ck)
    except Exception:
        tb = traceback.format_exc()
        print(tb)
        ck.broken.append('check crashed: ' + tb[-800:])
    rc = ck.finish(getattr(sys.modules.get(f'harness.props.{pid.lower()}'), 'LEVEL', 'proof'))
    sys.stdout.flush()
    os._exit(rc)


if __name__ == '__main__':
    main()
