"""
Shared machinery of ./check: Coq builds, Print Assumptions audit, model
evaluation of correspondence cases inside Coq, evidence, VIOLATION /
KNOWN-FINDING reporting.  See DESIGN.md sections 4 and 5.
"""
from __future__ import annotations

import fcntl
import hashlib
import json
import os
import re
import shutil
import subprocess
import sys
import time
from pathlib import Path

ROOT = Path(__file__).resolve().parent.parent
REPO = Path(os.environ.get('FPY_REPO', '/repo'))
COQ = ROOT / 'coq'
BUILD0 = ROOT / 'build'
# A run against anything but /repo itself (a scratch worktree carrying a seeded change) must never
# touch the committed evidence or the build directory of the real check: it gets its own.
MUTANT_RUN = REPO.resolve() != Path('/repo')
if MUTANT_RUN:
    BUILD = BUILD0 / 'mut' / re.sub(r'[^A-Za-z0-9_.-]', '_', str(REPO.resolve()).strip('/'))
    EVID = BUILD / 'evidence'
else:
    BUILD = BUILD0
    EVID = ROOT / 'evidence'
PY = '/venv/bin/python'

# Axioms of the Coq standard library that may appear under Print Assumptions
# (DESIGN.md section 8).  Anything else fails the audit.
AXIOM_ALLOW = {
    'ClassicalDedekindReals.sig_forall_dec',
    'ClassicalDedekindReals.sig_not_dec',
    'FunctionalExtensionality.functional_extensionality_dep',
    'Classical_Prop.classic',
    'ProofIrrelevance.proof_irrelevance',
    'Eqdep.Eq_rect_eq.eq_rect_eq',
    'JMeq.JMeq_eq',
    'PropExtensionality.propositional_extensionality',
    'Reals.Rdefinitions.R',  # placeholder names never printed; harmless
}

FORBIDDEN = re.compile(
    r'\b(Admitted|admit|Axiom|Axioms|Parameter|Parameters|Conjecture|Conjectures|'
    r'Admit\s+Obligations|bypass_check|type-in-type|impredicative-set)\b|'
    r'Unset\s+(Guard|Positivity|Universe)\s+Check(ing)?')


def sh(cmd, timeout=None, cwd=None, env=None, input=None):
    """Run a command; returns (rc, stdout+stderr)."""
    e = dict(os.environ)
    if env:
        e.update(env)
    try:
        p = subprocess.run(cmd, shell=isinstance(cmd, str), cwd=cwd, env=e,
                           stdout=subprocess.PIPE, stderr=subprocess.STDOUT,
                           timeout=timeout, input=input, text=True)
        return p.returncode, p.stdout
    except subprocess.TimeoutExpired as ex:
        out = ex.stdout or ''
        if isinstance(out, bytes):
            out = out.decode('utf-8', 'replace')
        return 124, out + '\n[timeout]'


def impl_env():
    """Environment in which the implementation under test runs."""
    return {
        'PYTHONPATH': f'{REPO}:{ROOT}',
        'PYTHONHASHSEED': '0',
        'FPY_VERIF': '1',
        'PYTHONDONTWRITEBYTECODE': '1',
    }


class Lock:
    def __init__(self, name):
        BUILD0.mkdir(exist_ok=True)
        self.path = BUILD0 / f'.lock-{name}'

    def __enter__(self):
        self.f = open(self.path, 'w')
        fcntl.flock(self.f, fcntl.LOCK_EX)
        return self

    def __exit__(self, *a):
        fcntl.flock(self.f, fcntl.LOCK_UN)
        self.f.close()


def coq_project_files():
    """All static theory files (everything under coq/ except dyn/)."""
    fs = []
    for p in sorted(COQ.rglob('*.v')):
        rel = p.relative_to(COQ)
        if rel.parts[0] in ('dyn',):
            continue
        fs.append(str(rel))
    return fs


def coq_configure():
    """(Re)generate _CoqProject and Makefile.coq when the file set changed."""
    files = coq_project_files()
    text = '-Q . FpyV\n' + '\n'.join(files) + '\n'
    proj = COQ / '_CoqProject'
    if (not proj.exists()) or proj.read_text() != text or not (COQ / 'Makefile.coq').exists():
        proj.write_text(text)
        rc, out = sh('coq_makefile -f _CoqProject -o Makefile.coq', cwd=COQ, timeout=120)
        if rc != 0:
            raise RuntimeError('coq_makefile failed:\n' + out)


def coq_make(targets=None, jobs=16, timeout=3000, keep_going=False):
    """Full .vo build of the given targets (paths relative to coq/, .vo)."""
    with Lock('coq'):
        for attempt in range(3):
            coq_configure()
            tgt = ' '.join(targets) if targets else ''
            k = '-k' if keep_going else ''
            rc, out = sh(f'timeout {timeout} make {k} -f Makefile.coq -j{jobs} {tgt}', cwd=COQ,
                         timeout=timeout + 30)
            # a file listed in _CoqProject vanished or appeared meanwhile: reconfigure and retry
            if rc != 0 and ('No such file or directory' in out or 'No rule to make target' in out):
                (COQ / '_CoqProject').unlink(missing_ok=True)
                time.sleep(1)
                continue
            break
    return rc == 0, out


def v_closure(vfiles):
    """Transitive closure of FpyV dependencies of the given .v files (relative to coq/), by coqdep."""
    files = coq_project_files()
    rc, out = sh('coqdep -Q . FpyV ' + ' '.join(files), cwd=COQ, timeout=300)
    deps = {}
    for line in out.splitlines():
        if ':' not in line:
            continue
        lhs, rhs = line.split(':', 1)
        tg = [t for t in lhs.split() if t.endswith('.vo')]
        if not tg:
            continue
        src = tg[0][:-1]
        deps[src] = [d[:-1] for d in rhs.split() if d.endswith('.vo') and not d.startswith('/')]
    seen, todo = [], list(vfiles)
    while todo:
        f = os.path.normpath(todo.pop())
        if f in seen:
            continue
        seen.append(f)
        todo += deps.get(f, [])
    return sorted(seen)


STMT_RE = re.compile(r'^\s*(?:Local\s+|Global\s+|#\[[^\]]*\]\s*)*(Theorem|Lemma|Corollary|Proposition|Fact|Remark|Example|Instance)\b', re.M)


def count_statements(paths):
    n = 0
    for p in paths:
        p = Path(p)
        if p.exists():
            n += len(STMT_RE.findall(p.read_text()))
    return n


def strip_comments(text):
    out, depth, i = [], 0, 0
    while i < len(text):
        if text.startswith('(*', i):
            depth += 1
            i += 2
        elif text.startswith('*)', i) and depth:
            depth -= 1
            i += 2
        else:
            if depth == 0:
                out.append(text[i])
            i += 1
    return ''.join(out)


def forbidden_tokens(paths):
    bad = []
    for p in paths:
        p = Path(p)
        if not p.exists():
            continue
        t = strip_comments(p.read_text())
        for m in FORBIDDEN.finditer(t):
            bad.append(f'{p}: {m.group(0)}')
    return bad


def parse_assumptions(out):
    """Parse the output of a sequence of `Print Assumptions` commands.
    Returns a list (one per command) of sets of axiom names."""
    res = []
    blocks = re.split(r'(?=Closed under the global context|Axioms:)', out)
    for b in blocks:
        if b.startswith('Closed under the global context'):
            res.append(set())
        elif b.startswith('Axioms:'):
            names = set()
            for line in b.splitlines()[1:]:
                m = re.match(r'^([A-Za-z_][A-Za-z0-9_.\']*)\s*(:|$)', line)
                if m:
                    names.add(m.group(1))
            res.append(names)
    return res


class Check:
    def __init__(self, pid, tier='quick', seed=0, replay=None):
        self.pid = pid
        self.tier = tier
        self.seed = seed
        self.replay = replay
        self.t0 = time.time()
        self.dir = BUILD / pid
        if self.dir.exists():
            shutil.rmtree(self.dir, ignore_errors=True)
        self.dir.mkdir(parents=True, exist_ok=True)
        (EVID / 'replays').mkdir(parents=True, exist_ok=True)
        self.evaluations = 0
        self.nontrivial = set()
        self.nontrivial_extra = 0
        self.samples = []
        self.hist = {}
        self.violations = []
        self.known_hits = {}
        self.obligations = 0
        self.discharged = 0
        self.checker_cmds = []
        self.axioms = set()
        self.trusted = []
        self.assumptions = []
        self.extra = {}
        self.rule = ''
        self.exhaustive = False
        self.theorems = []
        self.broken = []       # names of theorems / streams that no longer check
        self.known = {}
        kfiles = [ROOT / 'known_findings.json'] + sorted((ROOT / 'known_findings.d').glob('*.json'))
        for kfp in kfiles:
            if kfp.exists():
                kf = json.loads(kfp.read_text())
                for f in kf.get('findings', []):
                    if f['property'] == pid:
                        self.known[f['key']] = f

    # ---------------------------------------------------------------- logging
    def log(self, *a):
        self.last_log = ' '.join(str(x) for x in a)[:300]
        print(f'[{self.pid} {time.time() - self.t0:6.1f}s]', *a, flush=True)

    def count(self, key, n=1):
        self.hist[key] = self.hist.get(key, 0) + n

    def sample(self, s, limit=8):
        if len(self.samples) < limit:
            self.samples.append(s)

    def nontriv(self, key):
        self.nontrivial.add(key if isinstance(key, (str, int)) else json.dumps(key, sort_keys=True, default=str))

    # ---------------------------------------------------------------- Coq
    def build_static(self, vfiles, timeout=2400):
        """Build the closure of the given static .v files; count obligations."""
        clo = v_closure(vfiles)
        targets = [f[:-2] + '.vo' for f in vfiles]
        ok, out = coq_make(targets, timeout=timeout)
        n = count_statements([COQ / f for f in clo])
        self.obligations += n
        self.checker_cmds.append(f'make -C coq -f Makefile.coq {" ".join(targets)}  # coqc 8.16.1, full .vo')
        bad = forbidden_tokens([COQ / f for f in clo])
        if bad:
            ok = False
            out += '\nFORBIDDEN TOKENS:\n' + '\n'.join(bad)
            self.broken.append('forbidden-token audit: ' + '; '.join(bad[:5]))
        if ok:
            self.discharged += n
        else:
            m = re.search(r'File "([^"]+)", line (\d+)[^\n]*\n(Error:[^\n]*(?:\n[^\n]+){0,6})', out)
            self.broken.append('static build: ' + (m.group(0)[:600] if m else out[-600:]))
        (self.dir / 'static-build.log').write_text(out)
        return ok, out

    def coqc_dyn(self, name, text=None, src=None, timeout=900):
        """Compile a per-run file in build/<pid>/ (logical path Dyn)."""
        dst = self.dir / f'{name}.v'
        if text is None:
            text = Path(src).read_text()
        dst.write_text(text)
        cmd = f'timeout {timeout} coqc -Q {COQ} FpyV -Q . Dyn {name}.v'
        rc, out = sh(cmd, cwd=self.dir, timeout=timeout + 30)
        (self.dir / f'{name}.log').write_text(out)
        return rc == 0, out

    def dyn_theory(self, name, text=None, src=None, timeout=900, count=True):
        """A per-run theory whose statements count as proof obligations."""
        ok, out = self.coqc_dyn(name, text=text, src=src, timeout=timeout)
        p = self.dir / f'{name}.v'
        n = count_statements([p]) if count else 0
        self.obligations += n
        bad = forbidden_tokens([p])
        if bad:
            ok = False
            self.broken.append('forbidden-token audit: ' + '; '.join(bad[:5]))
        if ok:
            self.discharged += n
        else:
            m = re.search(r'File "([^"]+)", line (\d+)[^\n]*\n(Error:[^\n]*(?:\n[^\n]+){0,6})', out)
            self.broken.append(f'dyn theory {name}: ' + (m.group(0)[:600] if m else out[-600:]))
        self.checker_cmds.append(f'coqc -Q coq FpyV -Q . Dyn build/{self.pid}/{name}.v')
        return ok, out

    def audit_props(self, out, theorem_names=None, closed=()):
        """Audit `Print Assumptions` output of a Props file."""
        sets = parse_assumptions(out)
        ok = True
        for i, s in enumerate(sets):
            nm = theorem_names[i] if theorem_names and i < len(theorem_names) else f'#{i}'
            extra = s - AXIOM_ALLOW
            if extra:
                ok = False
                self.broken.append(f'axiom audit: {nm} depends on {sorted(extra)}')
            if nm in closed and s:
                ok = False
                self.broken.append(f'axiom audit: {nm} expected closed, depends on {sorted(s)}')
            self.axioms |= s
        return ok, sets

    def props(self, vfile, closed=()):
        """Compile Props/<vfile> (static) freshly to capture Print Assumptions."""
        p = COQ / vfile
        text = p.read_text()
        names = re.findall(r'Print Assumptions\s+([A-Za-z0-9_\'.]+)\s*\.', strip_comments(text))
        self.theorems += names
        # recompile to capture output (cheap: only `exact` + Print Assumptions)
        rc, out = sh(f'timeout 900 coqc -Q {COQ} FpyV -o {self.dir}/{p.stem}.vo {p}', cwd=self.dir, timeout=930)
        (self.dir / f'props_{p.stem}.log').write_text(out)
        self.checker_cmds.append(f'coqc -Q coq FpyV coq/{vfile}  # Print Assumptions audit')
        if rc != 0:
            self.broken.append(f'props {vfile}: ' + out[-600:])
            return False, names
        ok, sets = self.audit_props(out, names, closed)
        if len(sets) != len(names):
            self.broken.append(f'props {vfile}: {len(names)} Print Assumptions commands, {len(sets)} answers')
            ok = False
        if self.tier == 'thorough' and ok:
            # independent re-check of the compiled property file and everything it depends on
            mod = 'FpyV.' + vfile[:-2].replace('/', '.')
            with Lock('coq'):
                rc2, out2 = sh(f'timeout 3000 coqchk -silent -o -Q . FpyV {mod}', cwd=COQ, timeout=3100)
            (self.dir / f'coqchk_{p.stem}.log').write_text(out2)
            self.checker_cmds.append(f'coqchk -silent -o -Q coq FpyV {mod}')
            m = re.search(r'\* Axioms:(.*?)\n\s*\n\* Constants', out2, re.S)
            axs = [a.strip() for a in (m.group(1).splitlines() if m else []) if a.strip() and a.strip() != '<none>']
            self.extra['coqchk_axioms'] = axs
            bad = [a for a in axs if a.replace('Coq.Logic.', '').replace('Coq.Reals.', '') not in AXIOM_ALLOW
                   and a.split('.', 2)[-1] not in AXIOM_ALLOW]
            if rc2 != 0 or 'type-in-type: <none>' not in out2 or bad:
                ok = False
                self.broken.append(f'coqchk {mod}: rc={rc2} unexpected axioms {bad}: ' + out2[-400:])
        return ok, names

    def coq_eval_mismatches(self, header, case_type, cases, check_fn, chunk=400, timeout=900, jobs=16, tag='cases'):
        """Evaluate `check_fn case = true` in Coq (vm_compute) for every case.
        `cases` is a list of Coq terms (strings) of type `case_type`.
        Returns (list of failing indices, error text or None)."""
        shards = []
        for si in range(0, len(cases), chunk):
            part = cases[si:si + chunk]
            name = f'{tag}_{si // chunk:04d}'
            body = ';\n'.join(f'({si + j}%nat, {c})' for j, c in enumerate(part))
            text = (header + '\n'
                    f'Definition cases : list (nat * ({case_type})) := [\n{body}\n].\n'
                    f'Definition bad := map fst (filter (fun ic => negb ({check_fn} (snd ic))) cases).\n'
                    'Eval vm_compute in bad.\n')
            (self.dir / f'{name}.v').write_text(text)
            shards.append(name)
        if not shards:
            return [], None
        lst = '\n'.join(shards)
        cmd = (f"xargs -P{jobs} -I{{}} sh -c 'timeout {timeout} coqc -Q {COQ} FpyV -Q . Dyn {{}}.v > {{}}.out 2>&1 || echo FAIL >> {{}}.out'")
        sh(cmd, cwd=self.dir, input=lst, timeout=timeout * (len(shards) // jobs + 1) + 60)
        bad, err = [], None
        for name in shards:
            outp = self.dir / f'{name}.out'
            out = outp.read_text() if outp.exists() else 'FAIL (no output)'
            m = re.search(r'=\s*\[(.*?)\]\s*:\s*list nat', out, re.S)
            if 'FAIL' in out or not m:
                # a shard that timed out or was killed on a loaded machine: once more, alone, with a longer limit
                rc2, out2 = sh(f'timeout {timeout * 3} coqc -Q {COQ} FpyV -Q . Dyn {name}.v', cwd=self.dir, timeout=timeout * 3 + 30)
                out = out2 if rc2 == 0 else out + '\n[retry] ' + out2[-300:] + '\nFAIL'
                m = re.search(r'=\s*\[(.*?)\]\s*:\s*list nat', out, re.S)
            if 'FAIL' in out or not m:
                err = (err or '') + f'{name}: {out[-500:]}\n'
                continue
            body = m.group(1).strip()
            if body:
                bad += [int(x.replace('%nat', '').strip()) for x in body.split(';')]
        return sorted(bad), err

    def coq_eval_raw(self, header, term, timeout=300, name='raw'):
        text = header + f'\nEval vm_compute in ({term}).\n'
        ok, out = self.coqc_dyn(name, text=text, timeout=timeout)
        return out.strip()

    # ---------------------------------------------------------------- reporting
    def violation(self, what, replay, key=None, no_input=False):
        """Report a violation (or a KNOWN-FINDING when `key` is listed)."""
        if key is not None and key in self.known:
            if key not in self.known_hits:
                self.known_hits[key] = 0
            self.known_hits[key] += 1
            return False
        n = len(self.violations)
        self._per_what = getattr(self, '_per_what', {})
        self._per_what[what] = self._per_what.get(what, 0) + 1
        path = EVID / 'replays' / f'{self.pid}-{n}.json'
        if self._per_what[what] <= 10:   # keep the first few replays of each kind, count the rest
            obj = {'property': self.pid, 'what': what, 'key': key, 'replay': replay,
                   'no_failing_input_found': bool(no_input), 'seed': self.seed, 'tier': self.tier}
            path.write_text(json.dumps(obj, indent=1, default=str))
        self.violations.append((what, str(path), no_input))
        return True

    def finish(self, level='proof'):
        for key, n in self.known_hits.items():
            print(f'KNOWN-FINDING: property={self.pid} {self.known[key]["what"]} [{key}; {n} failing inputs this run]', flush=True)
        # a broken proof / correspondence with no concrete input
        if self.broken and not self.violations:
            self.violation('proof obligation or correspondence no longer checks; search found no failing input',
                           {'broken': self.broken}, no_input=True)
        seen = {}
        for what, path, no_input in self.violations:
            seen[what] = seen.get(what, 0) + 1
            if seen[what] > 3:
                continue
            tail = ' no-failing-input-found' if no_input else ''
            print(f'VIOLATION property={self.pid} replay={path}{tail}', flush=True)
            if seen[what] == 1:
                print(f'  -> {what}', flush=True)
        for what, n in seen.items():
            if n > 3:
                print(f'  ({n} failing inputs in total for: {what})', flush=True)
        cov = {
            'obligations': self.obligations,
            'discharged': self.discharged,
            'checker_cmd': ' && '.join(self.checker_cmds) or 'none',
            'trusted_base': self.trusted + [f'axiom (Print Assumptions): {a}' for a in sorted(self.axioms)],
            'theorems': self.theorems,
            'evaluations': self.evaluations,
            'distinct_nontrivial': len(self.nontrivial) + self.nontrivial_extra,
            'rule': self.rule,
            'samples': self.samples or ['(no correspondence cases on this run)'],
            'traces_validated_against_impl': self.evaluations,
            'exhaustive': self.exhaustive,
            'input_distribution': self.hist,
            'known_findings_hit': {k: v for k, v in self.known_hits.items()},
            'broken': self.broken,
        }
        cov.update(self.extra)
        ev = {
            'property_id': self.pid, 'tier': self.tier, 'seed': self.seed, 'level': level,
            'coverage': cov, 'assumptions': self.assumptions,
            'wall_s': round(time.time() - self.t0, 2), 'violations': len(self.violations),
        }
        EVID.mkdir(exist_ok=True)
        (EVID / f'{self.pid}.json').write_text(json.dumps(ev, indent=1, default=str))
        self.log(f'obligations={self.obligations} discharged={self.discharged} evaluations={self.evaluations} '
                 f'nontrivial={cov["distinct_nontrivial"]} violations={len(self.violations)} known={sum(self.known_hits.values())}')
        return 1 if self.violations else 0


# ---------------------------------------------------------------- Coq term printers
def cz(n):
    n = int(n)
    return f'({n})%Z' if n < 0 else f'{n}%Z'


def cb(b):
    return 'true' if b else 'false'


def copt(x, f=cz):
    return 'None' if x is None else f'(Some {f(x)})'


def clist(xs, f=cz):
    return '[' + '; '.join(f(x) for x in xs) + ']'


class Rng:
    """Deterministic PRNG (all random choices derive from VERIF_SEED)."""
    def __init__(self, seed, tag=''):
        import random
        h = hashlib.sha256(f'{seed}:{tag}'.encode()).digest()
        self.r = random.Random(int.from_bytes(h[:8], 'big'))

    def __getattr__(self, k):
        return getattr(self.r, k)
