#!/bin/sh
# usage: try_mutant.sh <PROP> <worktree> <patch.diff>  -> runs ./check PROP against the mutated worktree
PROP=$1; WT=$2; PATCH=$3
cd "$WT" && git checkout -q -- . && git apply "$PATCH" || { echo "APPLY FAILED"; exit 2; }
cd /verif && FPY_REPO="$WT" ./check "$PROP" > "/tmp/mutrun-$PROP-$(basename $(dirname $PATCH)).log" 2>&1
rc=$?
cd "$WT" && git checkout -q -- .
echo "$PROP $(basename $(dirname $PATCH)) rc=$rc $(grep -c '^VIOLATION' /tmp/mutrun-$PROP-$(basename $(dirname $PATCH)).log) violation lines; $(grep -m1 -- '->' /tmp/mutrun-$PROP-$(basename $(dirname $PATCH)).log)"
