#!/usr/bin/env python3
"""Prints the markdown table of seeded changes (DESIGN.md section 0.6) from seeded/*/meta.json."""
import json, glob, os
rows = []
for d in sorted(glob.glob('/verif/seeded/*')):
    m = json.load(open(os.path.join(d, 'meta.json')))
    det = m.get('detection', {})
    rows.append((os.path.basename(d), (m.get('summary') or '').replace('|', '/')[:160], (m.get('needs') or '').replace('|', '/')[:150],
                 det.get('status', '?'), det.get('signal', '')))
print('| seeded change | what was changed | needs | detection | signal |')
print('|---|---|---|---|---|')
for r in rows:
    print('| ' + ' | '.join(r) + ' |')
