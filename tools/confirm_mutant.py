#!/usr/bin/env python3
"""confirm_mutant.py <seeded-dir> <worktree> <property> [--tests]
Confirms a seeded change in a scratch worktree: demo fails with the patch, passes without;
optionally the repository test suite passes with the patch.  Updates <seeded-dir>/meta.json."""
import json, os, subprocess, sys
d, wt, prop = sys.argv[1], sys.argv[2], sys.argv[3]
tests = '--tests' in sys.argv
env = dict(os.environ, PYTHONPATH=wt, PYTHONHASHSEED='0')
def run(cmd, **kw):
    return subprocess.run(cmd, shell=True, cwd=wt, env=env, capture_output=True, text=True, **kw)
run('git checkout -q -- .')
r0 = run(f'/venv/bin/python {os.path.abspath(d)}/demo.py', timeout=1800)
a = run(f'git apply {os.path.abspath(d)}/patch.diff')
assert a.returncode == 0, a.stderr
r1 = run(f'/venv/bin/python {os.path.abspath(d)}/demo.py', timeout=1800)
meta_p = os.path.join(d, 'meta.json')
meta = json.load(open(meta_p)) if os.path.exists(meta_p) else {}
meta.update({'property': prop, 'demo_passes_without_patch': r0.returncode == 0, 'demo_fails_with_patch': r1.returncode != 0,
             'demo_output_with_patch': (r1.stdout + r1.stderr)[-600:]})
if tests:
    t = run('/venv/bin/python -m pytest -q -p no:cacheprovider --timeout=900 -n 5 2>&1 | tail -15', timeout=7200)
    tail = t.stdout[-1500:]
    meta['tests_with_patch_tail'] = tail
    failed = [l for l in tail.splitlines() if l.startswith('FAILED')]
    meta['tests_pass_with_patch'] = (' passed' in tail and not failed)
    if failed:
        # re-run the failed tests alone (hypothesis health checks trip under machine load)
        ids = ' '.join(l.split()[1] for l in failed)
        t2 = run(f'/venv/bin/python -m pytest -q -p no:cacheprovider --timeout=900 {ids} 2>&1 | tail -3', timeout=3600)
        meta['tests_rerun_of_failed'] = t2.stdout[-400:]
        meta['tests_pass_with_patch'] = (' passed' in t2.stdout and 'failed' not in t2.stdout)
run('git checkout -q -- .')
json.dump(meta, open(meta_p, 'w'), indent=1)
print(d, {k: meta[k] for k in meta if k.startswith(('demo_passes', 'demo_fails', 'tests_pass'))})
