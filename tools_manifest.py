#!/usr/bin/env python3
"""Regenerates MANIFEST.json from harness/registry.py (keeps it valid at all times)."""
import json
from pathlib import Path
import sys
sys.path.insert(0, str(Path(__file__).parent))
from harness.registry import CHECKS, NOT_APPLICABLE

ROOT = Path(__file__).parent
m = {
    'version': 1,
    'setup_cmd': './setup.sh',
    'hooks': {
        'guard': 'FPY_VERIF',
        'enable': 'checks run fpy2 from /repo with FPY_VERIF=1 in the environment; no guarded hook exists in /repo at present (scripted RNGs and tracing are subclasses living in /verif/harness)',
        'baseline_off_cmd': 'cd /repo && /venv/bin/python -m pytest -ra -q -p no:cacheprovider --timeout=900 --continue-on-collection-errors',
        'source_commits': [],
        'add_only': True,
    },
    'engines': [
        {'name': 'coq-theories', 'path': 'coq/', 'serves_properties': sorted(CHECKS),
         'kind_free_text': 'Coq 8.16.1 + Flocq: hand-written Gallina models of the modelled code and the property theorems (coq/Props/Cxx.v: statements only, Print Assumptions audited)'},
        {'name': 'correspondence-harness', 'path': 'harness/', 'serves_properties': sorted(CHECKS),
         'kind_free_text': 'differential execution: fpy2 from /repo vs the Gallina model evaluated by vm_compute inside coqc, on generated and exhaustive small-domain cases; per-run regenerated tables compiled as Coq theories'},
        {'name': 'py2v-translator', 'path': 'translate/', 'serves_properties': ['C01', 'C05', 'C17'],
         'kind_free_text': 'fail-closed Python-ast -> Gallina translator: the model of reals.py/round.py/flags.py/bits.py/ordering.py (63 functions) is regenerated from the working tree on every run and the bridge lemmas coq/dyn/BridgeReals.v (generated = hand-written model, all arguments) and the end-to-end theorems coq/dyn/GenTheorems.v are re-proved against it'},
    ],
    'checks': [],
    'not_applicable': [{'property_id': p, 'reason': r} for p, r in sorted(NOT_APPLICABLE.items())],
    'notes': 'See DESIGN.md. known_findings.json lists recorded genuine defects and fix: commits.',
}
for pid in sorted(CHECKS):
    c = CHECKS[pid]
    m['checks'].append({
        'property_id': pid,
        'quick_cmd': f'./check {pid} --tier quick',
        'thorough_cmd': f'./check {pid} --tier thorough',
        'evidence_file': f'evidence/{pid}.json',
        'replay_cmd_template': f'./check {pid} --replay {{path}}',
        'engine': 'coq-theories + correspondence-harness',
        'level_claimed': {'category': 'proof', 'text': c['text'], 'design_ref': c.get('design_ref', f'DESIGN.md section 6, {pid}')},
        'level_note': c['note'],
        'technique': c['technique'],
    })
(ROOT / 'MANIFEST.json').write_text(json.dumps(m, indent=1) + '\n')
print('MANIFEST.json:', len(m['checks']), 'checks,', len(m['not_applicable']), 'not applicable')
