(* Generic oracle driver: each input line is a space-separated list of
   integers in hexadecimal ("-" prefix for negatives).  The extracted Gallina
   function Model.check_line decides agreement between the model and the
   implementation's observed outcome encoded on the line.  Prints the 0-based
   line numbers where check_line returns false, then "DONE <count>". *)
open Model

let rec pos_of_bits (s : string) (i : int) (acc : positive) : positive =
  (* s is a binary string, most significant first, acc holds bits consumed so far *)
  if i >= String.length s then acc
  else pos_of_bits s (i + 1) (if s.[i] = '1' then XI acc else XO acc)

let hex_to_bin (h : string) : string =
  let b = Buffer.create (4 * String.length h) in
  String.iter (fun c ->
    let v = match c with
      | '0'..'9' -> Char.code c - 48
      | 'a'..'f' -> Char.code c - 87
      | 'A'..'F' -> Char.code c - 55
      | _ -> failwith "bad hex digit" in
    for k = 3 downto 0 do Buffer.add_char b (if (v lsr k) land 1 = 1 then '1' else '0') done) h;
  Buffer.contents b

let z_of_token (t : string) : z =
  let neg = String.length t > 0 && t.[0] = '-' in
  let h = if neg then String.sub t 1 (String.length t - 1) else t in
  let b = hex_to_bin h in
  (* strip leading zeros *)
  let n = String.length b in
  let rec first i = if i < n && b.[i] = '0' then first (i + 1) else i in
  let i0 = first 0 in
  if i0 >= n then Z0
  else
    let p = pos_of_bits b (i0 + 1) XH in
    if neg then Zneg p else Zpos p

let () =
  let count = ref 0 in
  (try
    while true do
      let line = input_line stdin in
      let toks = List.filter (fun s -> s <> "") (String.split_on_char ' ' line) in
      let zs = List.map z_of_token toks in
      if not (check_line zs) then print_endline (string_of_int !count);
      incr count
    done
  with End_of_file -> ());
  print_endline ("DONE " ^ string_of_int !count)
