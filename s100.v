From Coq Require Import ZArith List Bool String.
From FpyV Require Import Num.RealFloat Num.Float Num.Out Lib.Eft Lib.Decomp Cases.C20Cases.
From Dyn Require Import GenLib.
Import ListNotations.
Open Scope Z_scope.
Open Scope string_scope.
Definition chk := check20 gen_lib.

Definition cases : list (nat * (case20 * out)) := [
(4500%nat, (KEft (FC 2%Z None RNA) "ideal_2sum" [(RF false (-2)%Z 3%Z); (RF false (-1)%Z 3%Z)], (OList [(ORf (RF false 0%Z 2%Z)); (ORf (RF false (-2)%Z 1%Z))])));
(4501%nat, (KEft (FC 2%Z None RNA) "ideal_2sum" [(RF false (-2)%Z 3%Z); (RF false 0%Z 2%Z)], (OList [(ORf (RF false 0%Z 3%Z)); (ORf (RF true (-2)%Z 1%Z))])));
(4502%nat, (KEft (FC 2%Z None RNA) "ideal_2sum" [(RF false (-2)%Z 3%Z); (RF false 0%Z 3%Z)], (OList [(ORf (RF false 1%Z 2%Z)); (ORf (RF true (-2)%Z 1%Z))])));
(4503%nat, (KEft (FC 2%Z None RNA) "ideal_2sum" [(RF false (-2)%Z 3%Z); (RF false 1%Z 2%Z)], (OList [(ORf (RF false 1%Z 2%Z)); (ORf (RF false (-2)%Z 3%Z))])));
(4504%nat, (KEft (FC 2%Z None RNA) "ideal_2sum" [(RF false (-2)%Z 3%Z); (RF false 1%Z 3%Z)], (OList [(ORf (RF false 1%Z 3%Z)); (ORf (RF false (-2)%Z 3%Z))])));
(4505%nat, (KEft (FC 2%Z None RNA) "ideal_2sum" [(RF false (-2)%Z 3%Z); (RF true (-3)%Z 2%Z)], (OList [(ORf (RF false (-2)%Z 2%Z)); (ORf (RF false (-3)%Z 0%Z))])));
(4506%nat, (KEft (FC 2%Z None RNA) "ideal_2sum" [(RF false (-2)%Z 3%Z); (RF true (-3)%Z 3%Z)], (OList [(ORf (RF false (-3)%Z 3%Z)); (ORf (RF false (-3)%Z 0%Z))])));
(4507%nat, (KEft (FC 2%Z None RNA) "ideal_2sum" [(RF false (-2)%Z 3%Z); (RF true (-2)%Z 2%Z)], (OList [(ORf (RF false (-3)%Z 2%Z)); (ORf (RF false (-3)%Z 0%Z))])));
(4508%nat, (KEft (FC 2%Z None RNA) "ideal_2sum" [(RF false (-2)%Z 3%Z); (RF true (-2)%Z 3%Z)], (OList [(ORf (RF false 0%Z 0%Z)); (ORf (RF false (-2)%Z 0%Z))])));
(4509%nat, (KEft (FC 2%Z None RNA) "ideal_2sum" [(RF false (-2)%Z 3%Z); (RF true (-1)%Z 2%Z)], (OList [(ORf (RF true (-3)%Z 2%Z)); (ORf (RF false (-3)%Z 0%Z))])));
(4510%nat, (KEft (FC 2%Z None RNA) "ideal_2sum" [(RF false (-2)%Z 3%Z); (RF true (-1)%Z 3%Z)], (OList [(ORf (RF true (-2)%Z 3%Z)); (ORf (RF false (-2)%Z 0%Z))])));
(4511%nat, (KEft (FC 2%Z None RNA) "ideal_2sum" [(RF false (-2)%Z 3%Z); (RF true 0%Z 2%Z)], (OList [(ORf (RF true (-1)%Z 3%Z)); (ORf (RF false (-2)%Z 1%Z))])));
(4512%nat, (KEft (FC 2%Z None RNA) "ideal_2sum" [(RF false (-2)%Z 3%Z); (RF true 0%Z 3%Z)], (OList [(ORf (RF true 0%Z 2%Z)); (ORf (RF true (-2)%Z 1%Z))])));
(4513%nat, (KEft (FC 2%Z None RNA) "ideal_2sum" [(RF false (-2)%Z 3%Z); (RF true 1%Z 2%Z)], (OList [(ORf (RF true 0%Z 3%Z)); (ORf (RF true (-2)%Z 1%Z))])));
(4514%nat, (KEft (FC 2%Z None RNA) "ideal_2sum" [(RF false (-2)%Z 3%Z); (RF true 1%Z 3%Z)], (OList [(ORf (RF true 1%Z 3%Z)); (ORf (RF false (-2)%Z 3%Z))])));
(4515%nat, (KEft (FC 2%Z None RNA) "ideal_2sum" [(RF false (-1)%Z 2%Z); (RF false 0%Z 0%Z)], (OList [(ORf (RF false (-1)%Z 2%Z)); (ORf (RF false (-1)%Z 0%Z))])));
(4516%nat, (KEft (FC 2%Z None RNA) "ideal_2sum" [(RF false (-1)%Z 2%Z); (RF false (-3)%Z 2%Z)], (OList [(ORf (RF false (-1)%Z 3%Z)); (ORf (RF true (-3)%Z 2%Z))])));
(4517%nat, (KEft (FC 2%Z None RNA) "ideal_2sum" [(RF false (-1)%Z 2%Z); (RF false (-3)%Z 3%Z)], (OList [(ORf (RF false (-1)%Z 3%Z)); (ORf (RF true (-3)%Z 1%Z))])));
(4518%nat, (KEft (FC 2%Z None RNA) "ideal_2sum" [(RF false (-1)%Z 2%Z); (RF false (-2)%Z 2%Z)], (OList [(ORf (RF false (-1)%Z 3%Z)); (ORf (RF false (-2)%Z 0%Z))])));
(4519%nat, (KEft (FC 2%Z None RNA) "ideal_2sum" [(RF false (-1)%Z 2%Z); (RF false (-2)%Z 3%Z)], (OList [(ORf (RF false 0%Z 2%Z)); (ORf (RF true (-2)%Z 1%Z))])));
(4520%nat, (KEft (FC 2%Z None RNA) "ideal_2sum" [(RF false (-1)%Z 2%Z); (RF false (-1)%Z 2%Z)], (OList [(ORf (RF false 0%Z 2%Z)); (ORf (RF false (-1)%Z 0%Z))])));
(4521%nat, (KEft (FC 2%Z None RNA) "ideal_2sum" [(RF false (-1)%Z 2%Z); (RF false (-1)%Z 3%Z)], (OList [(ORf (RF false 0%Z 3%Z)); (ORf (RF true (-1)%Z 1%Z))])));
(4522%nat, (KEft (FC 2%Z None RNA) "ideal_2sum" [(RF false (-1)%Z 2%Z); (RF false 0%Z 2%Z)], (OList [(ORf (RF false 0%Z 3%Z)); (ORf (RF false (-1)%Z 0%Z))])));
(4523%nat, (KEft (FC 2%Z None RNA) "ideal_2sum" [(RF false (-1)%Z 2%Z); (RF false 0%Z 3%Z)], (OList [(ORf (RF false 1%Z 2%Z)); (ORf (RF false (-1)%Z 0%Z))])));
(4524%nat, (KEft (FC 2%Z None RNA) "ideal_2sum" [(RF false (-1)%Z 2%Z); (RF false 1%Z 2%Z)], (OList [(ORf (RF false 1%Z 3%Z)); (ORf (RF true (-1)%Z 2%Z))])));
(4525%nat, (KEft (FC 2%Z None RNA) "ideal_2sum" [(RF false (-1)%Z 2%Z); (RF false 1%Z 3%Z)], (OList [(ORf (RF false 2%Z 2%Z)); (ORf (RF true (-1)%Z 2%Z))])));
(4526%nat, (KEft (FC 2%Z None RNA) "ideal_2sum" [(RF false (-1)%Z 2%Z); (RF true (-3)%Z 2%Z)], (OList [(ORf (RF false (-2)%Z 3%Z)); (ORf (RF false (-3)%Z 0%Z))])));
(4527%nat, (KEft (FC 2%Z None RNA) "ideal_2sum" [(RF false (-1)%Z 2%Z); (RF true (-3)%Z 3%Z)], (OList [(ORf (RF false (-2)%Z 3%Z)); (ORf (RF true (-3)%Z 1%Z))])));
(4528%nat, (KEft (FC 2%Z None RNA) "ideal_2sum" [(RF false (-1)%Z 2%Z); (RF true (-2)%Z 2%Z)], (OList [(ORf (RF false (-2)%Z 2%Z)); (ORf (RF false (-2)%Z 0%Z))])));
(4529%nat, (KEft (FC 2%Z None RNA) "ideal_2sum" [(RF false (-1)%Z 2%Z); (RF true (-2)%Z 3%Z)], (OList [(ORf (RF false (-3)%Z 2%Z)); (ORf (RF false (-3)%Z 0%Z))])));
(4530%nat, (KEft (FC 2%Z None RNA) "ideal_2sum" [(RF false (-1)%Z 2%Z); (RF true (-1)%Z 2%Z)], (OList [(ORf (RF false 0%Z 0%Z)); (ORf (RF false (-1)%Z 0%Z))])));
(4531%nat, (KEft (FC 2%Z None RNA) "ideal_2sum" [(RF false (-1)%Z 2%Z); (RF true (-1)%Z 3%Z)], (OList [(ORf (RF true (-2)%Z 2%Z)); (ORf (RF false (-2)%Z 0%Z))])));
(4532%nat, (KEft (FC 2%Z None RNA) "ideal_2sum" [(RF false (-1)%Z 2%Z); (RF true 0%Z 2%Z)], (OList [(ORf (RF true (-1)%Z 2%Z)); (ORf (RF false (-1)%Z 0%Z))])));
(4533%nat, (KEft (FC 2%Z None RNA) "ideal_2sum" [(RF false (-1)%Z 2%Z); (RF true 0%Z 3%Z)], (OList [(ORf (RF true 0%Z 2%Z)); (ORf (RF false (-1)%Z 0%Z))])));
(4534%nat, (KEft (FC 2%Z None RNA) "ideal_2sum" [(RF false (-1)%Z 2%Z); (RF true 1%Z 2%Z)], (OList [(ORf (RF true 0%Z 3%Z)); (ORf (RF false (-1)%Z 0%Z))])));
(4535%nat, (KEft (FC 2%Z None RNA) "ideal_2sum" [(RF false (-1)%Z 2%Z); (RF true 1%Z 3%Z)], (OList [(ORf (RF true 1%Z 3%Z)); (ORf (RF false (-1)%Z 2%Z))])));
(4536%nat, (KEft (FC 2%Z None RNA) "ideal_2sum" [(RF false (-1)%Z 3%Z); (RF false 0%Z 0%Z)], (OList [(ORf (RF false (-1)%Z 3%Z)); (ORf (RF false (-1)%Z 0%Z))])));
(4537%nat, (KEft (FC 2%Z None RNA) "ideal_2sum" [(RF false (-1)%Z 3%Z); (RF false (-3)%Z 2%Z)], (OList [(ORf (RF false 0%Z 2%Z)); (ORf (RF true (-3)%Z 2%Z))])));
(4538%nat, (KEft (FC 2%Z None RNA) "ideal_2sum" [(RF false (-1)%Z 3%Z); (RF false (-3)%Z 3%Z)], (OList [(ORf (RF false 0%Z 2%Z)); (ORf (RF true (-3)%Z 1%Z))])));
(4539%nat, (KEft (FC 2%Z None RNA) "ideal_2sum" [(RF false (-1)%Z 3%Z); (RF false (-2)%Z 2%Z)], (OList [(ORf (RF false 0%Z 2%Z)); (ORf (RF false (-2)%Z 0%Z))])));
(4540%nat, (KEft (FC 2%Z None RNA) "ideal_2sum" [(RF false (-1)%Z 3%Z); (RF false (-2)%Z 3%Z)], (OList [(ORf (RF false 0%Z 2%Z)); (ORf (RF false (-2)%Z 1%Z))])));
(4541%nat, (KEft (FC 2%Z None RNA) "ideal_2sum" [(RF false (-1)%Z 3%Z); (RF false (-1)%Z 2%Z)], (OList [(ORf (RF false 0%Z 3%Z)); (ORf (RF true (-1)%Z 1%Z))])));
(4542%nat, (KEft (FC 2%Z None RNA) "ideal_2sum" [(RF false (-1)%Z 3%Z); (RF false (-1)%Z 3%Z)], (OList [(ORf (RF false 0%Z 3%Z)); (ORf (RF false (-1)%Z 0%Z))])));
(4543%nat, (KEft (FC 2%Z None RNA) "ideal_2sum" [(RF false (-1)%Z 3%Z); (RF false 0%Z 2%Z)], (OList [(ORf (RF false 1%Z 2%Z)); (ORf (RF true (-1)%Z 1%Z))])));
(4544%nat, (KEft (FC 2%Z None RNA) "ideal_2sum" [(RF false (-1)%Z 3%Z); (RF false 0%Z 3%Z)], (OList [(ORf (RF false 1%Z 2%Z)); (ORf (RF false (-1)%Z 1%Z))])));
(4545%nat, (KEft (FC 2%Z None RNA) "ideal_2sum" [(RF false (-1)%Z 3%Z); (RF false 1%Z 2%Z)], (OList [(ORf (RF false 1%Z 3%Z)); (ORf (RF true (-1)%Z 1%Z))])));
(4546%nat, (KEft (FC 2%Z None RNA) "ideal_2sum" [(RF false (-1)%Z 3%Z); (RF false 1%Z 3%Z)], (OList [(ORf (RF false 2%Z 2%Z)); (ORf (RF true (-1)%Z 1%Z))])));
(4547%nat, (KEft (FC 2%Z None RNA) "ideal_2sum" [(RF false (-1)%Z 3%Z); (RF true (-3)%Z 2%Z)], (OList [(ORf (RF false (-1)%Z 3%Z)); (ORf (RF true (-3)%Z 2%Z))])));
(4548%nat, (KEft (FC 2%Z None RNA) "ideal_2sum" [(RF false (-1)%Z 3%Z); (RF true (-3)%Z 3%Z)], (OList [(ORf (RF false (-1)%Z 2%Z)); (ORf (RF false (-3)%Z 1%Z))])));
(4549%nat, (KEft (FC 2%Z None RNA) "ideal_2sum" [(RF false (-1)%Z 3%Z); (RF true (-2)%Z 2%Z)], (OList [(ORf (RF false (-1)%Z 2%Z)); (ORf (RF false (-2)%Z 0%Z))])));
(4550%nat, (KEft (FC 2%Z None RNA) "ideal_2sum" [(RF false (-1)%Z 3%Z); (RF true (-2)%Z 3%Z)], (OList [(ORf (RF false (-2)%Z 3%Z)); (ORf (RF false (-2)%Z 0%Z))])));
(4551%nat, (KEft (FC 2%Z None RNA) "ideal_2sum" [(RF false (-1)%Z 3%Z); (RF true (-1)%Z 2%Z)], (OList [(ORf (RF false (-2)%Z 2%Z)); (ORf (RF false (-2)%Z 0%Z))])));
(4552%nat, (KEft (FC 2%Z None RNA) "ideal_2sum" [(RF false (-1)%Z 3%Z); (RF true (-1)%Z 3%Z)], (OList [(ORf (RF false 0%Z 0%Z)); (ORf (RF false (-1)%Z 0%Z))])));
(4553%nat, (KEft (FC 2%Z None RNA) "ideal_2sum" [(RF false (-1)%Z 3%Z); (RF true 0%Z 2%Z)], (OList [(ORf (RF true (-2)%Z 2%Z)); (ORf (RF false (-2)%Z 0%Z))])));
(4554%nat, (KEft (FC 2%Z None RNA) "ideal_2sum" [(RF false (-1)%Z 3%Z); (RF true 0%Z 3%Z)], (OList [(ORf (RF true (-1)%Z 3%Z)); (ORf (RF false (-1)%Z 0%Z))])));
(4555%nat, (KEft (FC 2%Z None RNA) "ideal_2sum" [(RF false (-1)%Z 3%Z); (RF true 1%Z 2%Z)], (OList [(ORf (RF true 0%Z 3%Z)); (ORf (RF false (-1)%Z 1%Z))])));
(4556%nat, (KEft (FC 2%Z None RNA) "ideal_2sum" [(RF false (-1)%Z 3%Z); (RF true 1%Z 3%Z)], (OList [(ORf (RF true 1%Z 2%Z)); (ORf (RF true (-1)%Z 1%Z))])));
(4557%nat, (KEft (FC 2%Z None RNA) "ideal_2sum" [(RF false 0%Z 2%Z); (RF false 0%Z 0%Z)], (OList [(ORf (RF false 0%Z 2%Z)); (ORf (RF false 0%Z 0%Z))])));
(4558%nat, (KEft (FC 2%Z None RNA) "ideal_2sum" [(RF false 0%Z 2%Z); (RF false (-3)%Z 2%Z)], (OList [(ORf (RF false 0%Z 2%Z)); (ORf (RF false (-3)%Z 2%Z))])));
(4559%nat, (KEft (FC 2%Z None RNA) "ideal_2sum" [(RF false 0%Z 2%Z); (RF false (-3)%Z 3%Z)], (OList [(ORf (RF false 0%Z 2%Z)); (ORf (RF false (-3)%Z 3%Z))])));
(4560%nat, (KEft (FC 2%Z None RNA) "ideal_2sum" [(RF false 0%Z 2%Z); (RF false (-2)%Z 2%Z)], (OList [(ORf (RF false 0%Z 3%Z)); (ORf (RF true (-2)%Z 2%Z))])));
(4561%nat, (KEft (FC 2%Z None RNA) "ideal_2sum" [(RF false 0%Z 2%Z); (RF false (-2)%Z 3%Z)], (OList [(ORf (RF false 0%Z 3%Z)); (ORf (RF true (-2)%Z 1%Z))])));
(4562%nat, (KEft (FC 2%Z None RNA) "ideal_2sum" [(RF false 0%Z 2%Z); (RF false (-1)%Z 2%Z)], (OList [(ORf (RF false 0%Z 3%Z)); (ORf (RF false (-1)%Z 0%Z))])));
(4563%nat, (KEft (FC 2%Z None RNA) "ideal_2sum" [(RF false 0%Z 2%Z); (RF false (-1)%Z 3%Z)], (OList [(ORf (RF false 1%Z 2%Z)); (ORf (RF true (-1)%Z 1%Z))])));
(4564%nat, (KEft (FC 2%Z None RNA) "ideal_2sum" [(RF false 0%Z 2%Z); (RF false 0%Z 2%Z)], (OList [(ORf (RF false 1%Z 2%Z)); (ORf (RF false 0%Z 0%Z))])));
(4565%nat, (KEft (FC 2%Z None RNA) "ideal_2sum" [(RF false 0%Z 2%Z); (RF false 0%Z 3%Z)], (OList [(ORf (RF false 1%Z 3%Z)); (ORf (RF true 0%Z 1%Z))])));
(4566%nat, (KEft (FC 2%Z None RNA) "ideal_2sum" [(RF false 0%Z 2%Z); (RF false 1%Z 2%Z)], (OList [(ORf (RF false 1%Z 3%Z)); (ORf (RF false 0%Z 0%Z))])));
(4567%nat, (KEft (FC 2%Z None RNA) "ideal_2sum" [(RF false 0%Z 2%Z); (RF false 1%Z 3%Z)], (OList [(ORf (RF false 2%Z 2%Z)); (ORf (RF false 0%Z 0%Z))])));
(4568%nat, (KEft (FC 2%Z None RNA) "ideal_2sum" [(RF false 0%Z 2%Z); (RF true (-3)%Z 2%Z)], (OList [(ORf (RF false 0%Z 2%Z)); (ORf (RF true (-3)%Z 2%Z))])));
(4569%nat, (KEft (FC 2%Z None RNA) "ideal_2sum" [(RF false 0%Z 2%Z); (RF true (-3)%Z 3%Z)], (OList [(ORf (RF false (-1)%Z 3%Z)); (ORf (RF false (-3)%Z 1%Z))])));
(4570%nat, (KEft (FC 2%Z None RNA) "ideal_2sum" [(RF false 0%Z 2%Z); (RF true (-2)%Z 2%Z)], (OList [(ORf (RF false (-1)%Z 3%Z)); (ORf (RF false (-2)%Z 0%Z))])));
(4571%nat, (KEft (FC 2%Z None RNA) "ideal_2sum" [(RF false 0%Z 2%Z); (RF true (-2)%Z 3%Z)], (OList [(ORf (RF false (-1)%Z 3%Z)); (ORf (RF true (-2)%Z 1%Z))])));
(4572%nat, (KEft (FC 2%Z None RNA) "ideal_2sum" [(RF false 0%Z 2%Z); (RF true (-1)%Z 2%Z)], (OList [(ORf (RF false (-1)%Z 2%Z)); (ORf (RF false (-1)%Z 0%Z))])));
(4573%nat, (KEft (FC 2%Z None RNA) "ideal_2sum" [(RF false 0%Z 2%Z); (RF true (-1)%Z 3%Z)], (OList [(ORf (RF false (-2)%Z 2%Z)); (ORf (RF false (-2)%Z 0%Z))])));
(4574%nat, (KEft (FC 2%Z None RNA) "ideal_2sum" [(RF false 0%Z 2%Z); (RF true 0%Z 2%Z)], (OList [(ORf (RF false 0%Z 0%Z)); (ORf (RF false 0%Z 0%Z))])));
(4575%nat, (KEft (FC 2%Z None RNA) "ideal_2sum" [(RF false 0%Z 2%Z); (RF true 0%Z 3%Z)], (OList [(ORf (RF true (-1)%Z 2%Z)); (ORf (RF false (-1)%Z 0%Z))])));
(4576%nat, (KEft (FC 2%Z None RNA) "ideal_2sum" [(RF false 0%Z 2%Z); (RF true 1%Z 2%Z)], (OList [(ORf (RF true 0%Z 2%Z)); (ORf (RF false 0%Z 0%Z))])));
(4577%nat, (KEft (FC 2%Z None RNA) "ideal_2sum" [(RF false 0%Z 2%Z); (RF true 1%Z 3%Z)], (OList [(ORf (RF true 1%Z 2%Z)); (ORf (RF false 0%Z 0%Z))])));
(4578%nat, (KEft (FC 2%Z None RNA) "ideal_2sum" [(RF false 0%Z 3%Z); (RF false 0%Z 0%Z)], (OList [(ORf (RF false 0%Z 3%Z)); (ORf (RF false 0%Z 0%Z))])));
(4579%nat, (KEft (FC 2%Z None RNA) "ideal_2sum" [(RF false 0%Z 3%Z); (RF false (-3)%Z 2%Z)], (OList [(ORf (RF false 0%Z 3%Z)); (ORf (RF false (-3)%Z 2%Z))])));
(4580%nat, (KEft (FC 2%Z None RNA) "ideal_2sum" [(RF false 0%Z 3%Z); (RF false (-3)%Z 3%Z)], (OList [(ORf (RF false 0%Z 3%Z)); (ORf (RF false (-3)%Z 3%Z))])));
(4581%nat, (KEft (FC 2%Z None RNA) "ideal_2sum" [(RF false 0%Z 3%Z); (RF false (-2)%Z 2%Z)], (OList [(ORf (RF false 1%Z 2%Z)); (ORf (RF true (-2)%Z 2%Z))])));
(4582%nat, (KEft (FC 2%Z None RNA) "ideal_2sum" [(RF false 0%Z 3%Z); (RF false (-2)%Z 3%Z)], (OList [(ORf (RF false 1%Z 2%Z)); (ORf (RF true (-2)%Z 1%Z))])));
(4583%nat, (KEft (FC 2%Z None RNA) "ideal_2sum" [(RF false 0%Z 3%Z); (RF false (-1)%Z 2%Z)], (OList [(ORf (RF false 1%Z 2%Z)); (ORf (RF false (-1)%Z 0%Z))])));
(4584%nat, (KEft (FC 2%Z None RNA) "ideal_2sum" [(RF false 0%Z 3%Z); (RF false (-1)%Z 3%Z)], (OList [(ORf (RF false 1%Z 2%Z)); (ORf (RF false (-1)%Z 1%Z))])));
(4585%nat, (KEft (FC 2%Z None RNA) "ideal_2sum" [(RF false 0%Z 3%Z); (RF false 0%Z 2%Z)], (OList [(ORf (RF false 1%Z 3%Z)); (ORf (RF true 0%Z 1%Z))])));
(4586%nat, (KEft (FC 2%Z None RNA) "ideal_2sum" [(RF false 0%Z 3%Z); (RF false 0%Z 3%Z)], (OList [(ORf (RF false 1%Z 3%Z)); (ORf (RF false 0%Z 0%Z))])));
(4587%nat, (KEft (FC 2%Z None RNA) "ideal_2sum" [(RF false 0%Z 3%Z); (RF false 1%Z 2%Z)], (OList [(ORf (RF false 2%Z 2%Z)); (ORf (RF true 0%Z 1%Z))])));
(4588%nat, (KEft (FC 2%Z None RNA) "ideal_2sum" [(RF false 0%Z 3%Z); (RF false 1%Z 3%Z)], (OList [(ORf (RF false 2%Z 2%Z)); (ORf (RF false 0%Z 1%Z))])));
(4589%nat, (KEft (FC 2%Z None RNA) "ideal_2sum" [(RF false 0%Z 3%Z); (RF true (-3)%Z 2%Z)], (OList [(ORf (RF false 0%Z 3%Z)); (ORf (RF true (-3)%Z 2%Z))])));
(4590%nat, (KEft (FC 2%Z None RNA) "ideal_2sum" [(RF false 0%Z 3%Z); (RF true (-3)%Z 3%Z)], (OList [(ORf (RF false 0%Z 3%Z)); (ORf (RF true (-3)%Z 3%Z))])));
(4591%nat, (KEft (FC 2%Z None RNA) "ideal_2sum" [(RF false 0%Z 3%Z); (RF true (-2)%Z 2%Z)], (OList [(ORf (RF false 0%Z 3%Z)); (ORf (RF true (-2)%Z 2%Z))])));
(4592%nat, (KEft (FC 2%Z None RNA) "ideal_2sum" [(RF false 0%Z 3%Z); (RF true (-2)%Z 3%Z)], (OList [(ORf (RF false 0%Z 2%Z)); (ORf (RF false (-2)%Z 1%Z))])));
(4593%nat, (KEft (FC 2%Z None RNA) "ideal_2sum" [(RF false 0%Z 3%Z); (RF true (-1)%Z 2%Z)], (OList [(ORf (RF false 0%Z 2%Z)); (ORf (RF false (-1)%Z 0%Z))])));
(4594%nat, (KEft (FC 2%Z None RNA) "ideal_2sum" [(RF false 0%Z 3%Z); (RF true (-1)%Z 3%Z)], (OList [(ORf (RF false (-1)%Z 3%Z)); (ORf (RF false (-1)%Z 0%Z))])));
(4595%nat, (KEft (FC 2%Z None RNA) "ideal_2sum" [(RF false 0%Z 3%Z); (RF true 0%Z 2%Z)], (OList [(ORf (RF false (-1)%Z 2%Z)); (ORf (RF false (-1)%Z 0%Z))])));
(4596%nat, (KEft (FC 2%Z None RNA) "ideal_2sum" [(RF false 0%Z 3%Z); (RF true 0%Z 3%Z)], (OList [(ORf (RF false 0%Z 0%Z)); (ORf (RF false 0%Z 0%Z))])));
(4597%nat, (KEft (FC 2%Z None RNA) "ideal_2sum" [(RF false 0%Z 3%Z); (RF true 1%Z 2%Z)], (OList [(ORf (RF true (-1)%Z 2%Z)); (ORf (RF false (-1)%Z 0%Z))])));
(4598%nat, (KEft (FC 2%Z None RNA) "ideal_2sum" [(RF false 0%Z 3%Z); (RF true 1%Z 3%Z)], (OList [(ORf (RF true 0%Z 3%Z)); (ORf (RF false 0%Z 0%Z))])));
(4599%nat, (KEft (FC 2%Z None RNA) "ideal_2sum" [(RF false 1%Z 2%Z); (RF false 0%Z 0%Z)], (OList [(ORf (RF false 1%Z 2%Z)); (ORf (RF false 1%Z 0%Z))])))
].
Definition bad := map fst (filter (fun ic => negb (chk (snd ic))) cases).
Time Eval vm_compute in bad.
