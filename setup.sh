#!/bin/sh
# MANIFEST.setup_cmd: build every static Coq theory (full .vo build, no -vos),
# offline, from the files in /verif only.  Per-run (repo-dependent) theories are
# generated and compiled by ./check.
HERE="$(cd "$(dirname "$0")" && pwd)"
cd "$HERE" || exit 2
export PYTHONPATH="/repo:$HERE"
mkdir -p build evidence/replays
/venv/bin/python - <<'PY'
from harness.common import coq_make
ok, out = coq_make(None, jobs=16, timeout=5400, keep_going=True)
print(out[-3000:])
print('setup: static theories built' if ok else 'setup: SOME THEORIES FAILED TO BUILD (checks depending on them will report it)')
PY
if [ -d ocaml ] && [ -f ocaml/build.sh ]; then sh ocaml/build.sh || true; fi
exit 0
