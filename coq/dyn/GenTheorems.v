(* End-to-end theorems about the functions REGENERATED from the Python source (GenReals.v): the bridge
   lemmas of BridgeReals.v composed with the property theorems proved about the hand-written model.
   Compiled on every run against the freshly generated model. *)
From Coq Require Import ZArith List Bool Reals Lia.
From Flocq Require Import Core.Zaux Core.Raux Core.Defs Core.Generic_fmt.
From FpyV Require Import Num.RealFloat Num.RealFloatProofs Num.RoundSpec Num.RoundProofs Num.Float Num.CtxDef Num.Ctx
  Num.CtxProofs Num.StochProofs Py.PyRt.
From Dyn Require Import GenReals BridgeDefs BridgeReals.
Import ListNotations. Open Scope Z_scope.

(* C01: RealFloat.round, as the source has it now, is Flocq's rounding, its inexact flag is truthful *)
Theorem gen_round_correct : forall x max_p min_n rm f rng,
  rf_wf x -> rc x <> 0 ->
  match max_p with Some p => 1 <= p | None => True end ->
  (max_p <> None \/ min_n <> None) ->
  exists y fl,
    py_RealFloat_round (inj_rf x f) (inj_opt max_p) (inj_opt min_n) (inj_rm rm) (VInt 0) rng (VBool false)
      = Ok (inj_rf y fl) /\
    R2R y = round radix2 (fexp_of max_p min_n) (rnd_of rm) (R2R x) /\
    rs y = rs x /\ rf_wf y /\
    (f_inexact fl = false <-> R2R y = R2R x) /\ f_overflow fl = false.
Proof.
  intros x max_p min_n rm f rng Hwf Hnz Hp Hs.
  destruct (rf_round_spec x max_p min_n rm Hwf Hnz Hp Hs) as (y & fl & E & H).
  exists y, fl. split; [|exact H].
  rewrite round_br; [rewrite E; reflexivity | exact Hwf |].
  destruct max_p; [lia | exact I].
Qed.

(* C05: exact arithmetic and comparison of the source denote the real operations *)
Theorem gen_add_denote : forall x y f g, rf_wf x -> rf_wf y ->
  exists z fl, py_RealFloat___add__ (inj_rf x f) (inj_rf y g) = Ok (inj_rf z fl) /\ R2R z = (R2R x + R2R y)%R.
Proof.
  intros x y f g Hx Hy. destruct (add_br x y f g Hx Hy) as [fl E].
  exists (rf_add x y), fl. split; [exact E | apply add_denote].
Qed.

Theorem gen_mul_denote : forall x y f g, rf_wf x -> rf_wf y ->
  exists z, py_RealFloat___mul__ (inj_rf x f) (inj_rf y g) = Ok (inj_rf z nf) /\ R2R z = (R2R x * R2R y)%R.
Proof.
  intros x y f g Hx Hy. exists (rf_mul x y). split; [apply mul_br; assumption | apply mul_denote].
Qed.

Theorem gen_compare_denote : forall x y f g, rf_wf x -> rf_wf y ->
  py_RealFloat_compare (inj_rf x f) (inj_rf y g) = Ok (inj_cmp (Rcompare (R2R x) (R2R y))).
Proof.
  intros x y f g Hx Hy. rewrite compare_br by assumption. rewrite compare_denote by assumption. reflexivity.
Qed.

Theorem gen_split_sum : forall x n f, rf_wf x ->
  exists hi lo, py_RealFloat_split (inj_rf x f) (VInt n) = Ok (VTup [inj_rf hi nf; inj_rf lo nf]) /\
    (R2R hi + R2R lo)%R = R2R x.
Proof.
  intros x n f Hx. exists (fst (split x n)), (snd (split x n)). split; [apply split_br; exact Hx|].
  pose proof (split_sum x n Hx) as H. destruct (split x n); exact H.
Qed.

(* C17: the stochastic rounding of the source takes the decision the theorem about the model states *)
Theorem gen_stoch_decision : forall rm x n k rb f,
  0 < rc x -> 1 <= k -> 0 < n + 1 - rexp x -> rc x mod 2 ^ (n + 1 - rexp x) <> 0 ->
  0 <= rb < 2 ^ k ->
  py_RealFloat__round_at_stochastic (inj_rf x f) VNone (VInt n) VNone (inj_rm rm) (VInt k) (VInt rb) (VBool false)
  = inj_res inj_rff (round_at x None n None (if rb + stoch_L rm x n k >=? 2 ^ k then RAZ else RTZ) false).
Proof.
  intros rm x n k rb f Hc Hk Hn Hm Hrb.
  change VNone with (inj_opt None). change (VInt k) with (inj_opt (Some k)).
  rewrite round_at_stoch_br; [| lia | lia | exact I].
  rewrite stoch_decision by assumption. reflexivity.
Qed.

Print Assumptions gen_round_correct.
Print Assumptions gen_add_denote.
Print Assumptions gen_mul_denote.
Print Assumptions gen_compare_denote.
Print Assumptions gen_split_sum.
Print Assumptions gen_stoch_decision.
