(* Injections of the hand-written model's values into the value universe of the generated model.
   Definitions only; compiled on every run against the freshly generated GenReals.v. *)
From Coq Require Import ZArith List Bool.
From FpyV Require Import Num.RealFloat Py.PyRt.
From Dyn Require Import GenReals.
Import ListNotations. Open Scope Z_scope.

Definition b2z (b : bool) : Z := if b then 1 else 0.
Definition flag_bits (f : flags) : Z :=
  b2z (f_invalid f) + 2 * b2z (f_divzero f) + 4 * b2z (f_overflow f) + 8 * b2z (f_tiny_pre f)
  + 16 * b2z (f_tiny_post f) + 32 * b2z (f_inexact f) + 64 * b2z (f_carry f).
Definition inj_flags (f : flags) : val := mk_Flags (VInt (flag_bits f)).
Definition inj_rf (x : rf) (f : flags) : val :=
  mk_RealFloat (VInt (rc x)) (VInt (rexp x)) (inj_flags f) (VBool (rs x)).
Definition inj_opt (o : option Z) : val := match o with Some z => VInt z | None => VNone end.
Definition inj_ob (o : option bool) : val := match o with Some z => VBool z | None => VNone end.
Definition nf := no_flags.


Definition inj_rff (kf : rf * flags) : val := inj_rf (fst kf) (snd kf).
Definition inj_res {A} (inj : A -> val) (r : result A) : result val :=
  match r with Ok a => Ok (inj a) | Err e => Err e end.
Definition inj_rm (m : rmode) : val :=
  match m with
  | RNE => RoundingMode_RNE | RNA => RoundingMode_RNA | RTP => RoundingMode_RTP | RTN => RoundingMode_RTN
  | RTZ => RoundingMode_RTZ | RAZ => RoundingMode_RAZ | RTO => RoundingMode_RTO | RTE => RoundingMode_RTE
  end.
Definition inj_dir (d : rdir) : val :=
  match d with
  | DTZ => RoundingDirection_RTZ | DAZ => RoundingDirection_RAZ
  | DTE => RoundingDirection_RTE | DTO => RoundingDirection_RTO
  end.
Definition inj_cmp (c : comparison) : val :=
  match c with Lt => Ordering_LESS | Eq => Ordering_EQUAL | Gt => Ordering_GREATER end.
