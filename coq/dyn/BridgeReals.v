(* Bridge between the model REGENERATED from the Python source (GenReals.v, produced on every run by
   translate/py2v.py) and the hand-written model the property theorems are about (Num/RealFloat.v):
   for every function below,  generated (inj args) = inj (model args)  for ALL arguments.
   This file is compiled on every run against the freshly generated GenReals.v. *)
From Coq Require Import ZArith List Bool Lia ZifyBool.
From FpyV Require Import Num.RealFloat Py.PyRt.
From Dyn Require Import GenReals BridgeDefs.
Import ListNotations. Open Scope Z_scope.

(* run-time functions only: never unfolds Z arithmetic, the injections or generated functions *)
Ltac rt := cbv beta iota zeta delta
  [bind ok truth py_bool py_not as_int int2 py_add py_sub py_mul py_lshift py_rshift py_bitand py_bitor
   py_neg py_abs_int py_max py_min py_bit_length py_lt py_le py_gt py_ge py_eq py_ne py_is_none py_is_not_none
   py_isinstance_int py_isinstance_bool py_isinstance_never py_unpack2 py_unpack3 inj_opt inj_ob negb andb orb].
(* everything concrete: classes, fields, injections *)
Ltac rtx := cbv beta iota zeta delta
  [bind ok truth py_bool py_not as_int int2 py_add py_sub py_mul py_lshift py_rshift py_bitand py_bitor
   py_neg py_abs_int py_max py_min py_bit_length py_lt py_le py_gt py_ge py_eq py_ne py_is_none py_is_not_none
   py_isinstance_int py_isinstance_bool py_isinstance_cls py_isinstance_never nth_val set_nth py_getfield py_setfield
   py_unpack2 py_unpack3 inj_rf inj_opt inj_ob mk_RealFloat
   cls_Flags cls_RealFloat cls_RoundingMode cls_RoundingDirection cls_Ordering
   fld_Flags__flags fld_RealFloat__c fld_RealFloat__exp fld_RealFloat__flags fld_RealFloat__s
   Z.eqb Pos.eqb negb andb orb].

(* ---------------------------------------------------------------- fields *)
Lemma get_c x f : py_getfield cls_RealFloat fld_RealFloat__c (inj_rf x f) = Ok (VInt (rc x)).
Proof. reflexivity. Qed.
Lemma get_exp x f : py_getfield cls_RealFloat fld_RealFloat__exp (inj_rf x f) = Ok (VInt (rexp x)).
Proof. reflexivity. Qed.
Lemma get_s x f : py_getfield cls_RealFloat fld_RealFloat__s (inj_rf x f) = Ok (VBool (rs x)).
Proof. reflexivity. Qed.
Lemma get_flags x f : py_getfield cls_RealFloat fld_RealFloat__flags (inj_rf x f) = Ok (inj_flags f).
Proof. reflexivity. Qed.
Lemma set_c x f c : py_setfield cls_RealFloat fld_RealFloat__c (inj_rf x f) (VInt c) = Ok (inj_rf (RF (rs x) (rexp x) c) f).
Proof. reflexivity. Qed.
Lemma set_exp x f e : py_setfield cls_RealFloat fld_RealFloat__exp (inj_rf x f) (VInt e) = Ok (inj_rf (RF (rs x) e (rc x)) f).
Proof. reflexivity. Qed.
Lemma set_flags x f f' : py_setfield cls_RealFloat fld_RealFloat__flags (inj_rf x f) (inj_flags f') = Ok (inj_rf x f').
Proof. reflexivity. Qed.
Lemma isinst_rf x f : py_isinstance_cls cls_RealFloat (inj_rf x f) = Ok (VBool true).
Proof. reflexivity. Qed.
#[global] Hint Rewrite get_c get_exp get_s get_flags set_c set_exp set_flags isinst_rf : pyb.

(* ---------------------------------------------------------------- Flags *)
Lemma flags_init_spec : forall a b c d e f g,
  py_Flags___init__ VNone (inj_ob a) (inj_ob b) (inj_ob c) (inj_ob d) (inj_ob e) (inj_ob f) (inj_ob g)
  = Ok (inj_flags (FL (match a with Some x => x | None => false end) (match b with Some x => x | None => false end)
      (match c with Some x => x | None => false end) (match d with Some x => x | None => false end)
      (match e with Some x => x | None => false end) (match f with Some x => x | None => false end)
      (match g with Some x => x | None => false end))).
Proof. intros [[|]|] [[|]|] [[|]|] [[|]|] [[|]|] [[|]|] [[|]|]; vm_compute; reflexivity. Qed.

Lemma flags_init_none :
  py_Flags___init__ VNone VNone VNone VNone VNone VNone VNone VNone = Ok (inj_flags nf).
Proof. vm_compute; reflexivity. Qed.

Lemma flags_init_round : forall tp tpo ie ca,
  py_Flags___init__ VNone VNone VNone VNone (VBool tp) (VBool tpo) (VBool ie) (VBool ca)
  = Ok (inj_flags (FL false false false tp tpo ie ca)).
Proof. intros [|] [|] [|] [|]; vm_compute; reflexivity. Qed.

Lemma flags_copy_spec : forall f0,
  py_Flags___init__ (inj_flags f0) VNone VNone VNone VNone VNone VNone VNone = Ok (inj_flags f0).
Proof. intros [[|] [|] [|] [|] [|] [|] [|]]; vm_compute; reflexivity. Qed.
#[global] Hint Rewrite flags_init_none flags_init_round flags_copy_spec : pyb.

(* ---------------------------------------------------------------- RealFloat.__init__ *)
Ltac init_tac := unfold py_RealFloat___init__; rtx;
  repeat match goal with
  | |- context [?c <? 0] => destruct (c <? 0) eqn:?; [exfalso; lia|]
  end;
  repeat (first [rewrite flags_init_none | rewrite flags_copy_spec]; rtx);
  try reflexivity.

Lemma rf_init_sec : forall s e c, 0 <= c ->
  py_RealFloat___init__ (VBool s) (VInt e) (VInt c) VNone VNone VNone VNone VNone VNone VNone VNone VNone VNone
  = Ok (inj_rf (RF s e c) nf).
Proof. intros s e c H. init_tac. Qed.

(* RealFloat(x=x) *)
Lemma rf_init_copy : forall x f,
  py_RealFloat___init__ VNone VNone VNone (inj_rf x f) VNone VNone VNone VNone VNone VNone VNone VNone VNone
  = Ok (inj_rf x f).
Proof. intros [s e c] f. init_tac. Qed.
(* RealFloat(s=s, x=x) *)
Lemma rf_init_sx : forall s x f,
  py_RealFloat___init__ (VBool s) VNone VNone (inj_rf x f) VNone VNone VNone VNone VNone VNone VNone VNone VNone
  = Ok (inj_rf (RF s (rexp x) (rc x)) f).
Proof. intros s [s0 e c] f. init_tac. Qed.
(* RealFloat(s=s) *)
Lemma rf_init_s : forall s,
  py_RealFloat___init__ (VBool s) VNone VNone VNone VNone VNone VNone VNone VNone VNone VNone VNone VNone
  = Ok (inj_rf (RF s 0 0) nf).
Proof. intros s. init_tac. Qed.
(* RealFloat(c=c) *)
Lemma rf_init_c : forall c, 0 <= c ->
  py_RealFloat___init__ VNone VNone (VInt c) VNone VNone VNone VNone VNone VNone VNone VNone VNone VNone
  = Ok (inj_rf (RF false 0 c) nf).
Proof. intros c H. init_tac. Qed.
(* RealFloat(exp=e) / RealFloat(s=s, exp=e) *)
Lemma rf_init_e : forall e,
  py_RealFloat___init__ VNone (VInt e) VNone VNone VNone VNone VNone VNone VNone VNone VNone VNone VNone
  = Ok (inj_rf (RF false e 0) nf).
Proof. intros e. init_tac. Qed.
Lemma rf_init_se : forall s e,
  py_RealFloat___init__ (VBool s) (VInt e) VNone VNone VNone VNone VNone VNone VNone VNone VNone VNone VNone
  = Ok (inj_rf (RF s e 0) nf).
Proof. intros s e. init_tac. Qed.
#[global] Hint Rewrite rf_init_copy rf_init_sx rf_init_s rf_init_e rf_init_se : pyb.
#[global] Hint Rewrite rf_init_sec rf_init_c using lia : pyb.

(* ---------------------------------------------------------------- small methods *)
Ltac go := repeat (first [progress rt | progress (autorewrite with pyb)]).

Lemma is_zero_br x f : py_RealFloat_is_zero (inj_rf x f) = Ok (VBool (is_zero x)).
Proof. unfold py_RealFloat_is_zero, is_zero. go. reflexivity. Qed.
Lemma p_br x f : 0 <= rc x -> py_RealFloat_p (inj_rf x f) = Ok (VInt (rf_p x)).
Proof. intros. unfold py_RealFloat_p, rf_p. go. rewrite Z.abs_eq by lia. reflexivity. Qed.
#[global] Hint Rewrite is_zero_br : pyb.
#[global] Hint Rewrite p_br using lia : pyb.
Lemma e_br x f : 0 <= rc x -> py_RealFloat_e (inj_rf x f) = Ok (VInt (rf_e x)).
Proof. intros. unfold py_RealFloat_e, rf_e. go. reflexivity. Qed.
Lemma n_br x f : py_RealFloat_n (inj_rf x f) = Ok (VInt (rf_n x)).
Proof. intros. unfold py_RealFloat_n, rf_n. go. reflexivity. Qed.
Lemma m_br x f : py_RealFloat_m (inj_rf x f) = Ok (VInt (rf_m x)).
Proof. intros. unfold py_RealFloat_m, rf_m. go. destruct (rs x); reflexivity. Qed.
Lemma bitmask_br k : 0 <= k -> py_bitmask (VInt k) = Ok (VInt (bitmask k)).
Proof. intros. unfold py_bitmask, bitmask. go. destruct (k <? 0) eqn:?; [lia|]. reflexivity. Qed.
#[global] Hint Rewrite n_br m_br : pyb.
#[global] Hint Rewrite e_br bitmask_br using lia : pyb.

Lemma neg_br x f : py_RealFloat___neg__ (inj_rf x f) = Ok (inj_rf (rf_neg x) f).
Proof. unfold py_RealFloat___neg__, rf_neg. go. reflexivity. Qed.
Lemma pos_br x f : py_RealFloat___pos__ (inj_rf x f) = Ok (inj_rf (rf_pos x) f).
Proof. unfold py_RealFloat___pos__, rf_pos. go. reflexivity. Qed.
Lemma abs_br x f : py_RealFloat___abs__ (inj_rf x f) = Ok (inj_rf (rf_abs x) f).
Proof. unfold py_RealFloat___abs__, rf_abs. go. reflexivity. Qed.
#[global] Hint Rewrite neg_br pos_br abs_br : pyb.

(* ---------------------------------------------------------------- split *)
Lemma split_br x n f : 0 <= rc x ->
  py_RealFloat_split (inj_rf x f) (VInt n) =
  Ok (VTup [inj_rf (fst (split x n)) nf; inj_rf (snd (split x n)) nf]).
Proof.
  intros H. unfold py_RealFloat_split, split. go.
  unfold is_zero. destruct (rc x =? 0) eqn:E0; go; [reflexivity|].
  destruct (n >=? rf_e x) eqn:E1; go; [reflexivity|].
  destruct (n <? rexp x) eqn:E2; go; [reflexivity|].
  destruct (n + 1 - rexp x <? 0) eqn:E3; [lia|]. go.
  rewrite !rf_init_sec; [go; reflexivity | apply Z.land_nonneg; lia | apply Z.shiftr_nonneg; lia].
Qed.

#[global] Hint Rewrite split_br using lia : pyb.

(* one conditional at a time, innermost scrutinee first *)
Ltac case1 := match goal with
  | |- context [match ?c with true => _ | false => _ end] =>
       lazymatch c with
       | context [match _ with _ => _ end] => fail
       | _ => destruct c eqn:?
       end
  end.
Ltac fin := try reflexivity; try (exfalso; lia); try (repeat f_equal; lia).
Ltac auto_br := go; repeat (case1; go); fin.

Lemma is_more_significant_br x n f : 0 <= rc x ->
  py_RealFloat_is_more_significant (inj_rf x f) (VInt n) = Ok (VBool (is_more_significant x n)).
Proof.
  intros H. unfold py_RealFloat_is_more_significant, is_more_significant. go.
  destruct (is_zero x) eqn:E0; go; [reflexivity|].
  destruct (rexp x >? n) eqn:E1; go; [reflexivity|].
  destruct (rf_e x <=? n) eqn:E2; go; [reflexivity|].
  fin.
Qed.
#[global] Hint Rewrite is_more_significant_br using lia : pyb.
Lemma is_integer_br x f : 0 <= rc x -> py_RealFloat_is_integer (inj_rf x f) = Ok (VBool (is_integer x)).
Proof. intros. unfold py_RealFloat_is_integer, is_integer. go. reflexivity. Qed.

Lemma bit_br x n f : 0 <= rc x -> py_RealFloat_bit (inj_rf x f) (VInt n) = Ok (VBool (rf_bit x n)).
Proof.
  intros H. unfold py_RealFloat_bit, rf_bit. go.
  destruct (n - rexp x <? 0) eqn:E0; go; [reflexivity|].
  destruct (n - rexp x >=? rf_p x) eqn:E1; go; [reflexivity|].
  destruct (n - rexp x <? 0) eqn:E2; [lia|]. reflexivity.
Qed.

#[global] Hint Rewrite is_integer_br bit_br using lia : pyb.


(* ---------------------------------------------------------------- enums *)

Lemma to_direction_br m s :
  py_RoundingMode_to_direction (inj_rm m) (VBool s) =
  Ok (VTup [VBool (fst (to_direction m s)); inj_dir (snd (to_direction m s))]).
Proof. destruct m, s; vm_compute; reflexivity. Qed.
#[global] Hint Rewrite to_direction_br : pyb.

Lemma from_compare_br a b : py_Ordering_from_compare (VInt a) (VInt b) = Ok (inj_cmp (a ?= b)).
Proof.
  unfold py_Ordering_from_compare. go.
  destruct (a ?= b) eqn:E; [apply Z.compare_eq in E | rewrite Z.compare_lt_iff in E | rewrite Z.compare_gt_iff in E].
  - subst. rewrite Z.ltb_irrefl. go. rewrite Z.gtb_ltb, Z.ltb_irrefl. go. rewrite Z.eqb_refl. reflexivity.
  - destruct (a <? b) eqn:?; [|lia]. reflexivity.
  - destruct (a <? b) eqn:?; [lia|]. go. destruct (a >? b) eqn:?; [|lia]. reflexivity.
Qed.
Lemma reverse_br c : py_Ordering_reverse (inj_cmp c) = Ok (inj_cmp (CompOpp c)).
Proof. destruct c; vm_compute; reflexivity. Qed.
#[global] Hint Rewrite from_compare_br reverse_br : pyb.

Lemma rm_isinst m : py_isinstance_cls cls_RoundingMode (inj_rm m) = Ok (VBool true).
Proof. destruct m; reflexivity. Qed.
#[global] Hint Rewrite rm_isinst : pyb.

(* ---------------------------------------------------------------- compare *)
Lemma cmp_is s c : (match s with VObj _ _ | VTup _ => Ok (VBool false) | _ => py_eq s (inj_cmp c) end) =
  match s with VObj _ _ | VTup _ => Ok (VBool false) | _ => py_eq s (inj_cmp c) end.
Proof. reflexivity. Qed.

Lemma compare_br x y f g : 0 <= rc x -> 0 <= rc y ->
  py_RealFloat_compare (inj_rf x f) (inj_rf y g) = Ok (inj_cmp (rf_compare x y)).
Proof.
  intros Hx Hy. unfold py_RealFloat_compare, rf_compare, cmp_rev. go.
  destruct (rc x =? 0) eqn:E0; go.
  { destruct (rc y =? 0) eqn:E1; go; [reflexivity|]. destruct (rs y); reflexivity. }
  destruct (rc y =? 0) eqn:E1; go.
  { destruct (rs x); reflexivity. }
  destruct (rs x) eqn:Sx, (rs y) eqn:Sy; go; try reflexivity.
  all: destruct (rf_e x ?= rf_e y) eqn:E2; vm_compute inj_cmp; go; try reflexivity.
  all: destruct (rexp x - Z.min (rexp x) (rexp y) <? 0) eqn:?; try lia; go;
       destruct (rexp y - Z.min (rexp x) (rexp y) <? 0) eqn:?; try lia; go; try reflexivity.
Qed.

#[global] Hint Rewrite compare_br using lia : pyb.

Lemma ge_br x y f g : 0 <= rc x -> 0 <= rc y ->
  py_RealFloat___ge__ (inj_rf x f) (inj_rf y g) = Ok (VBool (rf_geb x y)).
Proof. intros. unfold py_RealFloat___ge__, rf_geb. go. destruct (rf_compare x y); vm_compute; reflexivity. Qed.
Lemma le_br x y f g : 0 <= rc x -> 0 <= rc y ->
  py_RealFloat___le__ (inj_rf x f) (inj_rf y g) = Ok (VBool (rf_leb x y)).
Proof. intros. unfold py_RealFloat___le__, rf_leb. go. destruct (rf_compare x y); vm_compute; reflexivity. Qed.
Lemma gt_br x y f g : 0 <= rc x -> 0 <= rc y ->
  py_RealFloat___gt__ (inj_rf x f) (inj_rf y g) =
  Ok (VBool (match rf_compare x y with Gt => true | _ => false end)).
Proof. intros. unfold py_RealFloat___gt__. go. destruct (rf_compare x y); vm_compute; reflexivity. Qed.
Lemma lt_br x y f g : 0 <= rc x -> 0 <= rc y ->
  py_RealFloat___lt__ (inj_rf x f) (inj_rf y g) =
  Ok (VBool (match rf_compare x y with Lt => true | _ => false end)).
Proof. intros. unfold py_RealFloat___lt__. go. destruct (rf_compare x y); vm_compute; reflexivity. Qed.
#[global] Hint Rewrite ge_br le_br gt_br lt_br using lia : pyb.

(* ---------------------------------------------------------------- rounding helpers *)
Lemma round_params_br x mp mn f : 0 <= rc x ->
  py_RealFloat__round_params (inj_rf x f) (inj_opt mp) (inj_opt mn) =
  inj_res (fun pn => VTup [inj_opt (fst pn); VInt (snd pn)]) (round_params x mp mn).
Proof.
  intros H. unfold py_RealFloat__round_params, round_params. destruct mp, mn; go; try reflexivity.
Qed.

Lemma round_incr_dir_br k d f :
  py_RealFloat__round_increment_direction (inj_rf k f) (inj_dir d) = Ok (VBool (round_incr_dir k d)).
Proof.
  unfold py_RealFloat__round_increment_direction, round_incr_dir.
  destruct d; go; vm_compute py_eq; go; try reflexivity.
  all: destruct (Z.land (rc k) 1 =? 0); reflexivity.
Qed.
#[global] Hint Rewrite round_incr_dir_br : pyb.

Lemma bitlen_nonneg c : 0 <= bitlen c.
Proof. unfold bitlen. destruct (c =? 0); [lia|]. pose proof (Z.log2_nonneg c). lia. Qed.

Lemma round_incr_br k l n m f g : 0 <= rc k -> 0 <= rc l -> (rc l = 0 -> rf_e l <> n) ->
  py_RealFloat__round_increment (inj_rf k f) (inj_rf l g) (VInt n) (inj_rm m) = Ok (VBool (round_incr k l n m)).
Proof.
  intros Hk Hl Hz. unfold py_RealFloat__round_increment, round_incr. go.
  destruct (to_direction m (rs k)) as [nearest d] eqn:Ed. cbn [fst snd]. go.
  destruct nearest; go; [|reflexivity].
  destruct (rf_e l =? n) eqn:E1; go.
  - assert (Hp : 1 <= rf_p l).
    { unfold rf_p, bitlen. destruct (rc l =? 0) eqn:E0; [exfalso; apply Hz; lia|].
      pose proof (Z.log2_nonneg (rc l)). lia. }
    destruct (rf_p l - 1 <? 0) eqn:?; [lia|]. go.
    destruct (Z.shiftr (rc l) (rf_p l - 1) =? 0) eqn:E2; go; [reflexivity|].
    destruct (Z.land (rc l) (bitmask (rf_p l - 1)) =? 0) eqn:E3; go; reflexivity.
  - reflexivity.
Qed.

Lemma tiny_pre_br x em f : 0 <= rc x ->
  py_RealFloat__tiny_pre (inj_rf x f) (VInt em) = Ok (VBool (tiny_pre x em)).
Proof. intros. unfold py_RealFloat__tiny_pre, tiny_pre. go. destruct (is_zero x); go; reflexivity. Qed.
#[global] Hint Rewrite tiny_pre_br using lia : pyb.

Lemma split_wf x n : 0 <= rc x -> 0 <= rc (fst (split x n)) /\ 0 <= rc (snd (split x n)).
Proof.
  intros H. unfold split. destruct (is_zero x); cbn; [lia|].
  destruct (n >=? rf_e x); cbn; [lia|]. destruct (n <? rexp x); cbn; [lia|].
  split; [apply Z.shiftr_nonneg; lia | apply Z.land_nonneg; lia].
Qed.
Lemma split_lost_e x n : 0 <= rc x -> rc (snd (split x n)) = 0 -> rf_e (snd (split x n)) <> n.
Proof.
  intros H. unfold split, is_zero. destruct (rc x =? 0) eqn:E0; cbn.
  { unfold rf_e, rf_p, bitlen; cbn. lia. }
  destruct (n >=? rf_e x) eqn:E1; cbn; [lia|].
  destruct (n <? rexp x) eqn:E2; cbn.
  { unfold rf_e, rf_p, bitlen; cbn. lia. }
  intros Hz. unfold rf_e, rf_p; cbn. rewrite Hz. unfold bitlen; cbn. lia.
Qed.

Lemma split_zero x n : is_zero x = true -> is_zero (snd (split x n)) = true.
Proof. intros H. unfold split. rewrite H. reflexivity. Qed.

Lemma tiny_post_br x k em n m f g : 0 <= rc x -> 0 <= rc k -> 0 <= em - n ->
  py_RealFloat__tiny_post (inj_rf x f) (inj_rf k g) (VInt em) (VInt n) (inj_rm m) = Ok (VBool (tiny_post x k em n m)).
Proof.
  intros Hx Hk Hp. unfold py_RealFloat__tiny_post, tiny_post. go.
  destruct (rf_e k <? em - 1) eqn:E0; go; [reflexivity|].
  assert (Hbm : 0 <= bitmask (em - n)).
  { unfold bitmask. rewrite Z.shiftl_1_l. pose proof (Z.pow_pos_nonneg 2 (em - n)). lia. }
  rewrite rf_init_sec by exact Hbm. go.
  destruct (rs x) eqn:Sx; go.
  - rewrite ge_br by (cbn; lia). go. destruct (rf_geb x (RF true n (bitmask (em - n)))); go; [reflexivity|].
    pose proof (split_wf x (n - 1) Hx) as [W1 W2]. pose proof (split_lost_e x (n - 1) Hx) as W3.
    destruct (split x (n - 1)) as [k2 l2]; cbn [fst snd] in *. go.
    rewrite round_incr_br by assumption. go. reflexivity.
  - rewrite le_br by (cbn; lia). go. destruct (rf_leb x (RF false n (bitmask (em - n)))); go; [reflexivity|].
    pose proof (split_wf x (n - 1) Hx) as [W1 W2]. pose proof (split_lost_e x (n - 1) Hx) as W3.
    destruct (split x (n - 1)) as [k2 l2]; cbn [fst snd] in *. go.
    rewrite round_incr_br by assumption. go. reflexivity.
Qed.


Lemma set_flags' x f tp tpo ie ca :
  py_setfield cls_RealFloat fld_RealFloat__flags (inj_rf x f) (inj_flags (FL false false false tp tpo ie ca))
  = Ok (inj_rf x (FL false false false tp tpo ie ca)).
Proof. reflexivity. Qed.

#[global] Hint Rewrite round_incr_br using (first [assumption | lia]) : pyb.
#[global] Hint Rewrite tiny_post_br
  using (first [assumption | lia | cbn; lia | cbn; apply Z.shiftr_nonneg; lia]) : pyb.
#[global] Hint Rewrite set_flags' : pyb.

Ltac split_case := match goal with
  | Hx : 0 <= rc ?x |- context [split ?x ?n] =>
      let k := fresh "k" in let l := fresh "l" in
      let W1 := fresh "W" in let W2 := fresh "W" in let W3 := fresh "W" in let W4 := fresh "Wz" in
      pose proof (split_wf x n Hx) as [W1 W2];
      pose proof (split_lost_e x n Hx) as W3;
      pose proof (split_zero x n) as W4;
      destruct (split x n) as [k l]; cbn [fst snd] in *
  end.
Ltac side := first [assumption | lia | cbn [rs rexp rc]; first [lia | apply Z.shiftr_nonneg; lia]
  | match goal with
    | Hem : tiny_pre ?x ?em = true -> is_zero ?x = false -> 0 <= _, Wz : is_zero ?x = true -> is_zero ?l = true |- _ =>
        apply Hem; [assumption | destruct (is_zero x) eqn:?; [specialize (Wz eq_refl); congruence | reflexivity]]
    end ].
Ltac step := first [ progress go | progress cbn [rs rexp rc fst snd]
                   | rewrite tiny_post_br by side | rewrite round_incr_br by side
                   | split_case | case1 ].
Ltac done_rf := unfold inj_res, inj_rff; cbn [fst snd rs rexp rc];
  first [ reflexivity | exfalso; lia | exfalso; discriminate
        | match goal with |- context [inj_rf ?k _] => is_var k; destruct k; reflexivity end
        | rewrite Z.abs_eq in * by lia; first [reflexivity | exfalso; lia | congruence] ].

Lemma round_at_br x p n emin m exact f : 0 <= rc x ->
  match emin with Some em => tiny_pre x em = true -> is_zero x = false -> 0 <= em - n | None => True end ->
  py_RealFloat__round_at (inj_rf x f) (inj_opt p) (VInt n) (inj_opt emin) (inj_rm m) (VBool exact)
  = inj_res inj_rff (round_at x p n emin m exact).
Proof.
  intros Hx Hem. unfold py_RealFloat__round_at, round_at.
  destruct emin as [em|], p as [p|], exact; repeat step.
  all: done_rf.
Qed.

Lemma round_at_br_ss x p n em m exact f : 0 <= rc x ->
  (tiny_pre x em = true -> is_zero x = false -> 0 <= em - n) ->
  py_RealFloat__round_at (inj_rf x f) (VInt p) (VInt n) (VInt em) (inj_rm m) (VBool exact)
  = inj_res inj_rff (round_at x (Some p) n (Some em) m exact).
Proof. intros. apply (round_at_br x (Some p) n (Some em)); assumption. Qed.
Lemma round_at_br_sn x p n m exact f : 0 <= rc x ->
  py_RealFloat__round_at (inj_rf x f) (VInt p) (VInt n) VNone (inj_rm m) (VBool exact)
  = inj_res inj_rff (round_at x (Some p) n None m exact).
Proof. intros. apply (round_at_br x (Some p) n None); [assumption|exact I]. Qed.
Lemma round_at_br_nn x n m exact f : 0 <= rc x ->
  py_RealFloat__round_at (inj_rf x f) VNone (VInt n) VNone (inj_rm m) (VBool exact)
  = inj_res inj_rff (round_at x None n None m exact).
Proof. intros. apply (round_at_br x None n None); [assumption|exact I]. Qed.

(* RealFloat.round with num_randbits = 0 (rng unused) *)
Lemma round_br x mp mn m exact f rng : 0 <= rc x ->
  match mp with Some p => 0 <= p | None => True end ->
  py_RealFloat_round (inj_rf x f) (inj_opt mp) (inj_opt mn) (inj_rm m) (VInt 0) rng (VBool exact)
  = inj_res inj_rff (rf_round x mp mn m exact).
Proof.
  intros Hx Hp. unfold py_RealFloat_round, py_RealFloat__round_params, rf_round, round_params.
  destruct mp as [p|], mn as [mn|]; go; cbn [bind fst snd]; try reflexivity.
  - rewrite round_at_br_ss; [reflexivity | assumption |].
    unfold tiny_pre. intros Ht Hz. rewrite Hz in Ht. cbn [orb] in Ht. lia.
  - rewrite round_at_br_sn by assumption. reflexivity.
  - rewrite round_at_br_nn by assumption. reflexivity.
Qed.

(* RealFloat.round_at with num_randbits = 0 *)
Lemma round_at_pub_br x n p m exact f rng : 0 <= rc x ->
  match p with Some p => 0 <= p | None => True end ->
  py_RealFloat_round_at (inj_rf x f) (VInt n) (inj_opt p) (inj_rm m) (VInt 0) rng (VBool exact)
  = inj_res inj_rff (rf_round_at x n p m exact).
Proof.
  intros Hx Hp. unfold py_RealFloat_round_at, rf_round_at.
  destruct p as [p|]; go.
  - rewrite round_at_br_ss; [reflexivity | assumption | lia].
  - rewrite round_at_br_nn by assumption. reflexivity.
Qed.

Lemma round_at_wf x p n emin m exact k fl : 0 <= rc x ->
  round_at x p n emin m exact = Ok (k, fl) -> 0 <= rc k.
Proof.
  intros Hx. unfold round_at.
  destruct ((rexp x >? n) && match p with None => true | Some p0 => rf_p x <=? p0 end).
  { intros E; injection E as <- _; cbn [rc]; lia. }
  pose proof (split_wf x n Hx) as [W1 W2]. destruct (split x n) as [k0 l0]; cbn [fst snd] in *.
  destruct (is_zero l0). { intros E; injection E as <- _; assumption. }
  destruct exact; [discriminate|].
  destruct (round_incr k0 l0 n m).
  - destruct p as [p|].
    + destruct (bitlen (rc k0 + 1) >? p); intros E; injection E as <- _; cbn [rc].
      * apply Z.shiftr_nonneg; lia.
      * lia.
    + intros E; injection E as <- _; cbn [rc]; lia.
  - intros E; injection E as <- _; assumption.
Qed.

Lemma round_at_br_ns x n em m exact f : 0 <= rc x ->
  (tiny_pre x em = true -> is_zero x = false -> 0 <= em - n) ->
  py_RealFloat__round_at (inj_rf x f) VNone (VInt n) (VInt em) (inj_rm m) (VBool exact)
  = inj_res inj_rff (round_at x None n (Some em) m exact).
Proof. intros. apply (round_at_br x None n (Some em)); assumption. Qed.

(* RealFloat._round_at_stochastic: the drawn integer is the explicit argument r *)
Lemma round_at_stoch_br x p n emin m k r exact f : 0 <= rc x ->
  match k with Some k => 0 <= k | None => True end ->
  match emin with Some em => tiny_pre x em = true -> is_zero x = false -> 0 <= em - n | None => True end ->
  py_RealFloat__round_at_stochastic (inj_rf x f) (inj_opt p) (VInt n) (inj_opt emin) (inj_rm m)
     (inj_opt k) (VInt r) (VBool exact)
  = inj_res inj_rff (round_at_stoch x p n emin m k r exact).
Proof.
  intros Hx Hk Hem. unfold py_RealFloat__round_at_stochastic, round_at_stoch, stoch_numbits, oracle_randbits.
  destruct k as [k|], p as [p|], emin as [em|]; go.
  all: rewrite round_at_br_nn by assumption.
  all: match goal with |- context [round_at ?xx None ?nr None ?mm ?ee] =>
         pose proof (round_at_wf xx None nr None mm ee) as Wxr;
         destruct (round_at xx None nr None mm ee) as [[xr flr]|er] eqn:Er end;
       cbn [inj_res bind]; unfold inj_rff; cbn [fst snd]; go; try reflexivity.
  all: specialize (Wxr xr flr Hx eq_refl).
  all: repeat (first [ step | rewrite gt_br by (unfold rf_abs; cbn [rc]; assumption)
                     | match goal with |- context [match rf_compare ?a ?b with _ => _ end] =>
                         destruct (rf_compare a b) end ]).
  all: change RoundingMode_RAZ with (inj_rm RAZ); change RoundingMode_RTZ with (inj_rm RTZ).
  all: rewrite ?round_at_br_ss, ?round_at_br_sn, ?round_at_br_ns, ?round_at_br_nn by assumption.
  all: try solve [done_rf].
Qed.

(* ---------------------------------------------------------------- exact arithmetic (RealFloat operands) *)
Lemma add_br x y f g : 0 <= rc x -> 0 <= rc y ->
  exists fl, py_RealFloat___add__ (inj_rf x f) (inj_rf y g) = Ok (inj_rf (rf_add x y) fl).
Proof.
  intros Hx Hy. unfold py_RealFloat___add__, rf_add. go.
  destruct (rc x =? 0) eqn:E0; go.
  { destruct (rc y =? 0) eqn:E1; go.
    - eexists. destruct (rs x); go; rewrite ?rf_init_sec by lia; reflexivity.
    - eexists. destruct y; reflexivity. }
  destruct (rc y =? 0) eqn:E1; go.
  { eexists. destruct x; reflexivity. }
  destruct (rexp x - Z.min (rexp x) (rexp y) <? 0) eqn:?; [lia|]. go.
  destruct (rexp y - Z.min (rexp x) (rexp y) <? 0) eqn:?; [lia|]. go.
  assert (0 <= Z.shiftl (rc x) (rexp x - Z.min (rexp x) (rexp y))) by (apply Z.shiftl_nonneg; lia).
  assert (0 <= Z.shiftl (rc y) (rexp y - Z.min (rexp x) (rexp y))) by (apply Z.shiftl_nonneg; lia).
  eexists.
  destruct (rs x), (rs y); go;
  match goal with |- context [?a <? 0] => destruct (a <? 0) eqn:? end; go;
  rewrite ?rf_init_sec by lia; reflexivity.
Qed.

Lemma mul_br x y f g : 0 <= rc x -> 0 <= rc y ->
  py_RealFloat___mul__ (inj_rf x f) (inj_rf y g) = Ok (inj_rf (rf_mul x y) nf).
Proof.
  intros Hx Hy. unfold py_RealFloat___mul__, rf_mul. go.
  assert (Es : forall a b, (if (if Z.b2z a =? Z.b2z b then true else false) then false else true) = xorb a b)
    by (intros [|] [|]; reflexivity).
  destruct (rc x =? 0) eqn:E0; go.
  { destruct (rs x), (rs y); reflexivity. }
  destruct (rc y =? 0) eqn:E1; go.
  { destruct (rs x), (rs y); reflexivity. }
  rewrite ?rf_init_sec by nia. destruct (rs x), (rs y); reflexivity.
Qed.

(* ---------------------------------------------------------------- normalize, next_* , pow *)
Definition inj_rf0 (x : rf) : val := inj_rf x nf.

Lemma normalize_br x p n f : 0 <= rc x ->
  py_RealFloat_normalize (inj_rf x f) (inj_opt p) (inj_opt n) = inj_res inj_rf0 (normalize x p n).
Proof.
  intros Hx. unfold py_RealFloat_normalize, normalize, inj_rf0.
  destruct p as [p|], n as [n|]; go; cbn [inj_res]; try reflexivity.
  all: repeat (first [step | rewrite Z.abs_eq by lia]).
  all: try solve [done_rf].
  all: try (cbn [inj_res]; rewrite ?rf_init_sec; try reflexivity; try (apply Z.shiftl_nonneg; lia); try (apply Z.shiftr_nonneg; lia); try lia).
Qed.

Lemma normalize_wf x p n y : 0 <= rc x -> normalize x p n = Ok y -> 0 <= rc y.
Proof.
  intros Hx. unfold normalize.
  assert (G : forall shift exp,
    (if shift =? 0 then Ok (RF (rs x) exp (rc x))
     else if shift >? 0 then Ok (RF (rs x) exp (Z.shiftl (rc x) shift))
     else if negb (Z.land (rc x) (bitmask (- shift)) =? 0) then Err ValueErr
     else Ok (RF (rs x) exp (Z.shiftr (rc x) (- shift)))) = Ok y -> 0 <= rc y).
  { intros shift exp. destruct (shift =? 0). { intros E; injection E as <-; cbn [rc]; lia. }
    destruct (shift >? 0). { intros E; injection E as <-; cbn [rc]; apply Z.shiftl_nonneg; lia. }
    destruct (negb _); [discriminate|]. intros E; injection E as <-; cbn [rc]; apply Z.shiftr_nonneg; lia. }
  destruct p as [p|], n as [n|].
  - destruct (p <? 0); [discriminate|]. destruct (rexp x - (p - rf_p x) <=? n); apply G.
  - destruct (p <? 0); [discriminate|]. apply G.
  - apply G.
  - intros E; injection E as <-; cbn [rc]; lia.
Qed.

Lemma normalize_br_ss x p n f : 0 <= rc x ->
  py_RealFloat_normalize (inj_rf x f) (VInt p) (VInt n) = inj_res inj_rf0 (normalize x (Some p) (Some n)).
Proof. intros. apply (normalize_br x (Some p) (Some n)); assumption. Qed.
Lemma normalize_br_ns x n f : 0 <= rc x ->
  py_RealFloat_normalize (inj_rf x f) VNone (VInt n) = inj_res inj_rf0 (normalize x None (Some n)).
Proof. intros. apply (normalize_br x None (Some n)); assumption. Qed.

Lemma extract_br x n p f : 0 <= rc x ->
  py_RealFloat__extract_and_normalize (inj_rf x f) (VInt n) (inj_opt p) =
  inj_res (fun ce => VTup [VInt (fst ce); VInt (snd ce)]) (extract_and_normalize x n p).
Proof.
  intros Hx. unfold py_RealFloat__extract_and_normalize, extract_and_normalize.
  destruct p as [p|]; go.
  - destruct (rexp x =? n + 1) eqn:E1; go.
    + destruct (rf_p x >? p) eqn:E2; go; [|reflexivity].
      rewrite normalize_br_ss by assumption.
      destruct (normalize x (Some p) (Some n)) as [y|e]; cbn [inj_res bind]; unfold inj_rf0; go; reflexivity.
    + rewrite normalize_br_ss by assumption.
      destruct (normalize x (Some p) (Some n)) as [y|e]; cbn [inj_res bind]; unfold inj_rf0; go; reflexivity.
  - destruct (rexp x =? n + 1) eqn:E1; go; [reflexivity|].
    rewrite normalize_br_ns by assumption.
    destruct (normalize x None (Some n)) as [y|e]; cbn [inj_res bind]; unfold inj_rf0; go; reflexivity.
Qed.

Lemma extract_wf x n p c e : 0 <= rc x -> extract_and_normalize x n p = Ok (c, e) -> 0 <= c.
Proof.
  intros Hx. unfold extract_and_normalize.
  destruct (negb (rexp x =? n + 1) || match p with Some p0 => rf_p x >? p0 | None => false end).
  - pose proof (normalize_wf x p (Some n)) as W.
    destruct (normalize x p (Some n)) as [y|er]; cbn [bind]; [|discriminate].
    intros E; injection E as <- _. apply (W y Hx eq_refl).
  - intros E; injection E as <- _. exact Hx.
Qed.

Lemma next_away_br x n p f : 0 <= rc x ->
  py_RealFloat__next_away (inj_rf x f) (VInt n) (inj_opt p) = inj_res inj_rf0 (next_away x n p).
Proof.
  intros Hx. unfold py_RealFloat__next_away, next_away.
  rewrite extract_br by assumption.
  pose proof (extract_wf x n p) as W.
  destruct (extract_and_normalize x n p) as [[c e]|er]; cbn [inj_res bind fst snd]; [|reflexivity].
  specialize (W c e Hx eq_refl). unfold inj_rf0.
  destruct p as [p|]; go.
  - rewrite Z.abs_eq by lia. destruct (bitlen (c + 1) >? p) eqn:E; go.
    + change (1 <? 0) with false. go.
      rewrite ?rf_init_sec by (apply Z.shiftr_nonneg; lia). reflexivity.
    + reflexivity.
  - reflexivity.
Qed.

Lemma rf_init_neg : forall s e c, c < 0 ->
  py_RealFloat___init__ (VBool s) (VInt e) (VInt c) VNone VNone VNone VNone VNone VNone VNone VNone VNone VNone
  = Err ValueErr.
Proof.
  intros s e c H. unfold py_RealFloat___init__; rtx.
  destruct (c <? 0) eqn:E; [reflexivity|lia].
Qed.

Lemma next_towards_br x n p f : 0 <= rc x ->
  py_RealFloat__next_towards (inj_rf x f) (VInt n) (inj_opt p) = inj_res inj_rf0 (next_towards x n p).
Proof.
  intros Hx. unfold py_RealFloat__next_towards, next_towards.
  rewrite extract_br by assumption.
  pose proof (extract_wf x n p) as W.
  destruct (extract_and_normalize x n p) as [[c e]|er]; cbn [inj_res bind fst snd]; [|reflexivity].
  specialize (W c e Hx eq_refl). unfold inj_rf0.
  destruct p as [p|]; go.
  - destruct (e >? n + 1) eqn:E1; go.
    + destruct (c - 1 <? 0) eqn:E0.
      * (* c = 0: Python builds RealFloat(c=-1), which raises ValueError *)
        assert (c = 0) by lia. subst c. go.
        destruct (bitlen (Z.abs (0 - 1)) <? p) eqn:E2; go; change (1 <? 0) with false; go.
        -- replace (Z.lor (Z.shiftl (0 - 1) 1) 1) with (-1) by reflexivity. rewrite rf_init_neg by lia. reflexivity.
        -- rewrite rf_init_neg by lia. reflexivity.
      * rewrite Z.abs_eq by lia. destruct (bitlen (c - 1) <? p) eqn:E2; go; change (1 <? 0) with false; go.
        -- rewrite rf_init_sec; [reflexivity|]. apply Z.lor_nonneg. split; [apply Z.shiftl_nonneg|]; lia.
        -- reflexivity.
    + destruct (c - 1 <? 0) eqn:E0; go; [rewrite rf_init_neg by lia|]; reflexivity.
  - destruct (c - 1 <? 0) eqn:E0; go; [rewrite rf_init_neg by lia|]; reflexivity.
Qed.

(* ---------------------------------------------------------------- audit *)
Print Assumptions round_br.
Print Assumptions round_at_pub_br.
Print Assumptions round_at_stoch_br.
Print Assumptions split_br.
Print Assumptions compare_br.
Print Assumptions add_br.
Print Assumptions mul_br.
Print Assumptions normalize_br.
Print Assumptions next_away_br.
Print Assumptions next_towards_br.
