(* Search for a concrete input on which the model regenerated from the source (GenReals.v) and the hand-written
   model disagree.  Compiled only when a bridge lemma no longer re-proves: the inputs it prints are replayed on the
   implementation by harness/py2v_tie.py.  Definitions and evaluations only. *)
From Coq Require Import ZArith List Bool String.
From FpyV Require Import Num.RealFloat Py.PyRt.
From Dyn Require Import GenReals BridgeDefs.
Import ListNotations. Open Scope Z_scope.

Fixpoint val_eqb (a b : val) {struct a} : bool :=
  match a, b with
  | VNone, VNone => true
  | VBool x, VBool y => Bool.eqb x y
  | VInt x, VInt y => x =? y
  | VEnum c i, VEnum c' i' => (c =? c') && (i =? i')
  | VObj c l, VObj c' l' =>
      (c =? c') && (fix go (l l' : list val) : bool :=
         match l, l' with
         | [], [] => true
         | x :: r, y :: r' => val_eqb x y && go r r'
         | _, _ => false
         end) l l'
  | VTup l, VTup l' =>
      (fix go (l l' : list val) : bool :=
         match l, l' with
         | [], [] => true
         | x :: r, y :: r' => val_eqb x y && go r r'
         | _, _ => false
         end) l l'
  | _, _ => false
  end.

Definition err_eqb (a b : err) : bool :=
  match a, b with
  | ValueErr, ValueErr | OverflowErr, OverflowErr | TypeErr, TypeErr | IndexErr, IndexErr
  | AssertErr, AssertErr | NameErr, NameErr | OtherErr, OtherErr => true
  | _, _ => false
  end.
Definition res_eqb (a b : result val) : bool :=
  match a, b with
  | Ok x, Ok y => val_eqb x y
  | Err x, Err y => err_eqb x y
  | _, _ => false
  end.

Definition cs : list Z := [0; 1; 2; 3; 5; 6; 7; 8; 11; 12; 13; 15; 21].
Definition es : list Z := [-3; -1; 0; 2].
Definition rfs : list rf := flat_map (fun c => flat_map (fun e => [RF false e c; RF true e c]) es) cs.
Definition modes : list rmode := [RNE; RNA; RTP; RTN; RTZ; RAZ; RTO; RTE].
Definition popts : list (option Z) := [None; Some 1; Some 2; Some 3].
Definition nopts : list (option Z) := [None; Some (-4); Some (-2); Some 0; Some 1].
Definition mcode (m : rmode) : Z :=
  match m with RNE => 0 | RNA => 1 | RTP => 2 | RTN => 3 | RTZ => 4 | RAZ => 5 | RTO => 6 | RTE => 7 end.
Definition oz (o : option Z) : list Z := match o with None => [0; 0] | Some z => [1; z] end.
Definition rfz (x : rf) : list Z := [if rs x then 1 else 0; rexp x; rc x].

(* what the proved model returns: [1; s; exp; c; inexact] or [0; 0; 0; 0; 0] for an error *)
Definition mout (r : result (rf * flags)) : list Z :=
  match r with
  | Ok (y, fl) => [1] ++ rfz y ++ [if f_inexact fl then 1 else 0]
  | Err _ => [0; 0; 0; 0; 0]
  end.

(* round: (x, max_p, min_n, rm) *)
Definition bad_round : list (list Z) :=
  flat_map (fun x => flat_map (fun p => flat_map (fun n => flat_map (fun m =>
    match p, n with
    | None, None => []
    | _, _ =>
      if res_eqb (py_RealFloat_round (inj_rf x nf) (inj_opt p) (inj_opt n) (inj_rm m) (VInt 0) VNone (VBool false))
                 (inj_res inj_rff (rf_round x p n m false))
      then [] else [rfz x ++ oz p ++ oz n ++ [mcode m] ++ mout (rf_round x p n m false)]
    end) modes) nopts) popts) rfs.

Definition draws (k : Z) : list Z := map Z.of_nat (seq 0 (Z.to_nat (2 ^ k))).

(* stochastic: (x, n, k, rb, rm) at fixed-point shape *)
Definition bad_stoch : list (list Z) :=
  flat_map (fun x => flat_map (fun n => flat_map (fun k => flat_map (fun rb => flat_map (fun m =>
      if res_eqb (py_RealFloat__round_at_stochastic (inj_rf x nf) VNone (VInt n) VNone (inj_rm m) (VInt k) (VInt rb) (VBool false))
                 (inj_res inj_rff (round_at_stoch x None n None m (Some k) rb false))
      then [] else [rfz x ++ [n; k; rb; mcode m] ++ mout (round_at_stoch x None n None m (Some k) rb false)]) [RNE; RTZ; RAZ; RTO]) (draws k)) [1; 2]) [-2; -1; 0; 1]) rfs.

(* exact arithmetic / comparison / split on pairs *)
Definition rfs2 : list rf := flat_map (fun c => flat_map (fun e => [RF false e c; RF true e c]) [-2; 0; 1]) [0; 1; 3; 4; 6; 7].
Definition ok_add (x y : rf) : bool :=
  match py_RealFloat___add__ (inj_rf x nf) (inj_rf y nf) with
  | Ok (VObj c [vc; ve; _; vs]) =>
      let z := rf_add x y in val_eqb vc (VInt (rc z)) && val_eqb ve (VInt (rexp z)) && val_eqb vs (VBool (rs z))
  | _ => false
  end.
Definition bad_add : list (list Z) :=
  flat_map (fun x => flat_map (fun y => if ok_add x y then [] else [rfz x ++ rfz y ++ rfz (rf_add x y)]) rfs2) rfs2.
Definition bad_mul : list (list Z) :=
  flat_map (fun x => flat_map (fun y =>
    if res_eqb (py_RealFloat___mul__ (inj_rf x nf) (inj_rf y nf)) (Ok (inj_rf (rf_mul x y) nf)) then [] else [rfz x ++ rfz y ++ rfz (rf_mul x y)]) rfs2) rfs2.
Definition bad_cmp : list (list Z) :=
  flat_map (fun x => flat_map (fun y =>
    if res_eqb (py_RealFloat_compare (inj_rf x nf) (inj_rf y nf)) (Ok (inj_cmp (rf_compare x y))) then [] else [rfz x ++ rfz y ++ [match rf_compare x y with Lt => -1 | Eq => 0 | Gt => 1 end]]) rfs2) rfs2.
Definition bad_split : list (list Z) :=
  flat_map (fun x => flat_map (fun n =>
    if res_eqb (py_RealFloat_split (inj_rf x nf) (VInt n))
               (Ok (VTup [inj_rf (fst (split x n)) nf; inj_rf (snd (split x n)) nf])) then [] else [rfz x ++ [n]]) [-4; -2; -1; 0; 1; 3]) rfs.
Definition bad_unary : list (list Z) :=
  flat_map (fun x =>
    if res_eqb (py_RealFloat___neg__ (inj_rf x nf)) (Ok (inj_rf (rf_neg x) nf)) &&
       res_eqb (py_RealFloat___pos__ (inj_rf x nf)) (Ok (inj_rf (rf_pos x) nf)) &&
       res_eqb (py_RealFloat___abs__ (inj_rf x nf)) (Ok (inj_rf (rf_abs x) nf)) then [] else [rfz x]) rfs.

Definition head5 {A} (l : list A) : list A := firstn 5 l.
Eval vm_compute in ("ROUND"%string, List.length bad_round, head5 bad_round).
Eval vm_compute in ("STOCH"%string, List.length bad_stoch, head5 bad_stoch).
Eval vm_compute in ("ADD"%string, List.length bad_add, head5 bad_add).
Eval vm_compute in ("MUL"%string, List.length bad_mul, head5 bad_mul).
Eval vm_compute in ("CMP"%string, List.length bad_cmp, head5 bad_cmp).
Eval vm_compute in ("SPLIT"%string, List.length bad_split, head5 bad_split).
Eval vm_compute in ("UNARY"%string, List.length bad_unary, head5 bad_unary).
