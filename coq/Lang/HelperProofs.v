(* Model-level lemmas mirroring the run-time helpers of fpy2/interpret/byte.py
   (_eval_list_slice, _cvt_index, zip(strict=True), _eval_min/_eval_max,
   _eval_sum, and/or) as they appear in Sem.v. *)
From Coq Require Import ZArith List Bool String Lia.
From FpyV Require Import Num.RealFloat Num.Float Num.CtxDef Lang.Syntax Lang.Values Lang.Sem
  Lang.SemMono Lang.NumInst Lang.PyIR Lang.Compile Lang.CompileProofs.
Import ListNotations.
Open Scope Z_scope.

(* ---------------------------------------------------------------- integers as numbers *)
Lemma num_to_Z_of_Z : forall z, num_to_Z (num_of_Z z) = Some z.
Proof.
  intros z. unfold num_to_Z, num_of_Z, fl_to_int, rf_to_int, is_integer, is_more_significant, is_zero. cbn.
  destruct (Z.abs z =? 0) eqn:E; cbn.
  - apply Z.eqb_eq in E. f_equal. lia.
  - destruct (z <? 0) eqn:S; f_equal.
    + apply Z.ltb_lt in S. lia.
    + apply Z.ltb_ge in S. lia.
Qed.

(* ---------------------------------------------------------------- strict index *)
Lemma negative_index_rejected : forall z, z < 0 -> cvt_index (VNum (num_of_Z z)) = RErr IndexErr.
Proof.
  intros z Hz. unfold cvt_index, cvt_int. rewrite num_to_Z_of_Z. cbn [rbind].
  apply Z.ltb_lt in Hz. rewrite Hz. reflexivity.
Qed.

Lemma index_in_range : forall z, 0 <= z -> cvt_index (VNum (num_of_Z z)) = ROk (Z.to_nat z).
Proof.
  intros z Hz. unfold cvt_index, cvt_int. rewrite num_to_Z_of_Z. cbn [rbind].
  apply Z.ltb_ge in Hz. rewrite Hz. reflexivity.
Qed.

Lemma index_past_end_rejected : forall vs i, (List.length vs <= i)%nat -> list_nth vs i = RErr IndexErr.
Proof. intros vs i H. unfold list_nth. apply nth_error_None in H. rewrite H. reflexivity. Qed.

(* ---------------------------------------------------------------- strict slice *)
Definition ZV (z : Z) : option value := Some (VNum (num_of_Z z)).

Lemma slice_strict : forall vs a b r,
  list_slice vs (ZV a) (ZV b) = ROk r ->
  0 <= a /\ a <= b /\ b <= Z.of_nat (List.length vs) /\ Z.of_nat (List.length r) = b - a.
Proof.
  intros vs a b r H. unfold list_slice, ZV, slice_bound in H. rewrite !num_to_Z_of_Z in H. cbn [rbind] in H.
  destruct (a <? 0) eqn:E1; [discriminate|].
  destruct (b >? Z.of_nat (List.length vs)) eqn:E2; [discriminate|].
  destruct (a >? b) eqn:E3; [discriminate|].
  inversion H; subst. apply Z.ltb_ge in E1.
  assert (b <= Z.of_nat (List.length vs)) by (destruct (Z.gtb_spec b (Z.of_nat (List.length vs))); [discriminate | lia]).
  assert (a <= b) by (destruct (Z.gtb_spec a b); [discriminate | lia]).
  repeat split; auto.
  rewrite firstn_length, skipn_length. lia.
Qed.

Lemma slice_out_of_range : forall vs a b,
  a < 0 \/ b > Z.of_nat (List.length vs) \/ a > b ->
  list_slice vs (ZV a) (ZV b) = RErr IndexErr.
Proof.
  intros vs a b H. unfold list_slice, ZV, slice_bound. rewrite !num_to_Z_of_Z. cbn [rbind].
  destruct (a <? 0) eqn:E1; [reflexivity|].
  destruct (b >? Z.of_nat (List.length vs)) eqn:E2; [reflexivity|].
  destruct (a >? b) eqn:E3; [reflexivity|].
  exfalso. apply Z.ltb_ge in E1.
  destruct (Z.gtb_spec b (Z.of_nat (List.length vs))); [discriminate|].
  destruct (Z.gtb_spec a b); [discriminate|]. lia.
Qed.

Lemma slice_default_bounds : forall vs, list_slice vs None None = ROk vs.
Proof.
  intros vs. unfold list_slice, slice_bound. cbn [rbind]. cbn [Z.ltb Z.compare].
  set (n := Z.of_nat (List.length vs)).
  assert (Hn : 0 <= n) by (unfold n; lia).
  destruct (Z.gtb_spec n n); [lia|]. destruct (Z.gtb_spec 0 n); [lia|].
  rewrite Z.sub_0_r. unfold n. rewrite Nat2Z.id. cbn [Z.to_nat skipn]. rewrite firstn_all. reflexivity.
Qed.

(* ---------------------------------------------------------------- strict zip *)
Lemma transpose_length : forall k ls, List.length (transpose k ls) = k.
Proof. induction k; intros; cbn; auto. Qed.

Lemma zip_strict : forall ls r,
  zip_lists ls = ROk r -> forall l, In l ls -> List.length l = List.length r.
Proof.
  intros ls r H l Hin. unfold zip_lists in H. destruct ls as [|l0 rest]; [contradiction|].
  destruct (forallb _ rest) eqn:E; [|discriminate]. inversion H; subst.
  rewrite transpose_length. destruct Hin as [->|Hin]; [reflexivity|].
  rewrite forallb_forall in E. apply Nat.eqb_eq. apply E. exact Hin.
Qed.

Lemma zip_ragged_rejected : forall l0 l rest,
  In l rest -> List.length l <> List.length l0 -> zip_lists (l0 :: rest) = RErr ValueErr.
Proof.
  intros l0 l rest Hin Hne. unfold zip_lists.
  destruct (forallb _ rest) eqn:E; [|reflexivity].
  rewrite forallb_forall in E. specialize (E _ Hin). apply Nat.eqb_eq in E. contradiction.
Qed.

Section WithNP.
Variable N : numops.
Variable P : program.

(* ---------------------------------------------------------------- min / max *)
Lemma minmax_nan_propagates : forall is_max xs x,
  In x xs -> num_isnan x = true -> exists y, minmax N is_max xs = ROk y /\ num_isnan y = true.
Proof.
  intros is_max xs x Hin Hnan. unfold minmax. destruct xs as [|x0 r]; [contradiction|].
  unfold first_nan. destruct (find num_isnan (x0 :: r)) as [y|] eqn:E.
  - apply find_some in E. destruct E. eauto.
  - exfalso. apply (find_none _ _ E) in Hin. congruence.
Qed.

Lemma minmax_empty : forall is_max, minmax N is_max [] = RErr ValueErr.
Proof. reflexivity. Qed.

(* ---------------------------------------------------------------- sum *)
Lemma sum_empty : forall C, sum_list N C [] = ROk num_zero.
Proof. reflexivity. Qed.

Lemma sum_single : forall C x, sum_list N C [VNum x] = ROk x.
Proof. reflexivity. Qed.

(* a left fold that rounds at every step *)
Lemma sum_step : forall C x y r,
  sum_list N C (VNum x :: VNum y :: r) =
  rbind (lift (n_binop N OAdd C x y)) (fun a => sum_from N C a r).
Proof. reflexivity. Qed.

Lemma sum_from_step : forall C acc y r,
  sum_from N C acc (VNum y :: r) = rbind (lift (n_binop N OAdd C acc y)) (fun a => sum_from N C a r).
Proof. reflexivity. Qed.

(* ---------------------------------------------------------------- and / or *)
Lemma and_short_circuit : forall n s mu C e r mu1,
  eval N P n s mu C e = ROk (VBool false, mu1) ->
  bool_chain N P (S n) s mu C true (e :: r) = ROk (VBool false, mu1).
Proof. intros. rewrite bool_chain_S. unfold bool_chain_body. rewrite H. reflexivity. Qed.

Lemma or_short_circuit : forall n s mu C e r mu1,
  eval N P n s mu C e = ROk (VBool true, mu1) ->
  bool_chain N P (S n) s mu C false (e :: r) = ROk (VBool true, mu1).
Proof. intros. rewrite bool_chain_S. unfold bool_chain_body. rewrite H. reflexivity. Qed.

Lemma and_continues : forall n s mu C e e' r mu1,
  eval N P n s mu C e = ROk (VBool true, mu1) ->
  bool_chain N P (S n) s mu C true (e :: e' :: r) = bool_chain N P n s mu1 C true (e' :: r).
Proof. intros. rewrite bool_chain_S. unfold bool_chain_body. rewrite H. reflexivity. Qed.

(* a chained comparison stops at the first false test: later operands are not evaluated *)
Lemma compare_chain_stops : forall n s mu C x y o ops e args mu1,
  is_ordering o = true -> cmp_test N o x y = false ->
  eval N P n s mu C e = ROk (VNum y, mu1) ->
  cmp_chain N P (S n) s mu C (VNum x) (o :: ops) (e :: args) = ROk (VBool false, mu1).
Proof.
  intros. rewrite cmp_chain_S. unfold cmp_chain_body. rewrite H. cbn [as_num rbind]. rewrite H1.
  cbn [as_num rbind]. rewrite H0. reflexivity.
Qed.

(* ---------------------------------------------------------------- the scheme without restore leaks *)
Lemma with_norestore_leaks :
  exists ps mu o mu',
    pyrel N P ps mu (compile_with_norestore O None (ECtxVal CReal) []) o mu' /\
    p_ctx (state_of o) <> p_ctx ps.
Proof.
  exists (PS [] (VCtx FP64) []), [], (PNormal (PS [] (VCtx CReal) [(O, VCtx FP64)])), [].
  split; [|cbn; discriminate].
  unfold compile_with_norestore.
  apply (R_TryFinally N P _ _ _ [] (PNormal (PS [] (VCtx CReal) [(O, VCtx FP64)])) [] _ []); [|constructor].
  eapply RB_Cons; [eapply R_Assign; [exists O; reflexivity | reflexivity]|].
  eapply RB_Cons; [eapply R_Assign; [exists O; reflexivity | reflexivity]|].
  eapply RB_Cons; [eapply R_Assign; [exists (S O); reflexivity | reflexivity]|].
  constructor.
Qed.

(* ... while the real scheme, on the same statement, has a run and restores *)
Example with_restores_example :
  exists o mu',
    pyrel N P (PS [] (VCtx FP64) []) [] (fst (compile_stmt O (SContext None (ECtxVal CReal) []))) o mu' /\
    p_ctx (state_of o) = VCtx FP64.
Proof.
  exists (PNormal (PS [] (VCtx FP64) [(O, VCtx FP64)])), []. split; [|reflexivity].
  cbn [compile_stmt fst].
  apply (R_TryFinally N P _ _ _ _ (PNormal (PS [] (VCtx CReal) [(O, VCtx FP64)])) [] _ []).
  - eapply RB_Cons; [eapply R_Assign; [exists O; reflexivity | reflexivity]|].
    eapply RB_Cons; [eapply R_Assign; [exists O; reflexivity | reflexivity]|].
    eapply RB_Cons; [eapply R_Assign; [exists (S O); reflexivity | reflexivity]|].
    constructor.
  - eapply RB_Cons; [eapply R_Assign; [exists O; reflexivity | reflexivity]|]. constructor.
Qed.

End WithNP.

(* ---------------------------------------------------------------- +-0 ties (the executable number instance) *)
Definition pz : num := NF (FFin (RF false 0 0)).
Definition nz : num := NF (FFin (RF true 0 0)).

Lemma min_zero_tie : minmax prov_numops false [pz; nz] = ROk nz /\ minmax prov_numops false [nz; pz] = ROk nz.
Proof. split; reflexivity. Qed.

Lemma max_zero_tie : minmax prov_numops true [pz; nz] = ROk pz /\ minmax prov_numops true [nz; pz] = ROk pz.
Proof. split; reflexivity. Qed.

(* ---------------------------------------------------------------- size / dim are NOT exact in the code *)
(* derived-semantics.rst: "Len / Size / Dim: exact integer counts, no rounding".
   ops.size / ops.dim round the count under the active context; the faithful model
   (ESize / EDim use n_round) therefore refutes the documented exactness: under a
   2-digit context the size of a 5-element list is 4 while its len is 5. *)
Definition size_prog : program :=
  [("main"%string, Func ["xs"%string] None
      [SContext None (ECtor (KMPFloat RNE) [ENum (FFin (RF false 0 2))])
         [SReturn (ETuple [ESize (EVar "xs") (ENum (FFin (RF false 0 0))); ELen (EVar "xs")])]])].

Definition five : list cval := map (fun z => CNum (num_of_Z z)) [1; 2; 3; 4; 5].

Lemma size_exact_refuted :
  exists sz ln, run prov_numops size_prog 50 "main" [CList five] None = ROk (CTuple [CNum sz; CNum ln]) /\
    num_same ln (num_of_Z 5) = true /\ num_same sz (num_of_Z 5) = false /\ num_same sz (num_of_Z 4) = true.
Proof. eexists. eexists. split; [vm_compute; reflexivity|]. vm_compute. auto. Qed.
