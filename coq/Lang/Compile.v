(* Model of BytecodeCompiler's statement scheme (fpy2/interpret/byte.py,
   `_visit_statement` ... `_visit_context`): FPy statement -> PyIR statement.
   Definitions only.

   `_visit_context` emits

       try:
           <tmp> = __ctx__                  (stash)
           __ctx__ = __fpy_real             (the context expression is evaluated under REAL)
           <target> = __ctx__ = <ctx expr>  (bind the target and the active context)
           <body>
       finally:
           __ctx__ = <tmp>                  (restore)

   with <tmp> a fresh name requested AFTER the body was visited (so inner
   `with` blocks get the smaller numbers).  The counter `k` models Gensym. *)
From Coq Require Import ZArith List Bool String.
From FpyV Require Import Num.RealFloat Num.Float Num.CtxDef Lang.Syntax Lang.Values Lang.Sem Lang.PyIR.
Import ListNotations.
Open Scope Z_scope.

Definition with_target (x : option ident) : list ptarget :=
  match x with Some x => [TName (NUser x)] | None => [] end.

Definition stash_stmt (k : nat) : pstmt := PAssign [TName (NTmp k)] (PName NCtx).
Definition real_stmt : pstmt := PAssign [TName NCtx] PRealC.
Definition set_stmt (x : option ident) (e : expr) : pstmt := PAssign (with_target x ++ [TName NCtx]) (PE e).
Definition restore_stmt (k : nat) : pstmt := PAssign [TName NCtx] (PName (NTmp k)).

Fixpoint compile_stmt (k : nat) (st : stmt) {struct st} : pstmt * nat :=
  let compile_block :=
    fix cb (k : nat) (b : list stmt) {struct b} : list pstmt * nat :=
      match b with
      | [] => ([], k)
      | x :: r =>
          let '(px, k1) := compile_stmt k x in
          let '(pr, k2) := cb k1 r in
          (px :: pr, k2)
      end in
  match st with
  | SAssign p e => (PAssign [TPat p] (PE e), k)
  | SIndexAssign x idx e => (PIndexAssign x idx e, k)
  | SIf1 c body => let '(pb, k1) := compile_block k body in (PIf (PE c) pb [], k1)
  | SIf c ift iff =>
      let '(pt, k1) := compile_block k ift in
      let '(pf, k2) := compile_block k1 iff in
      (PIf (PE c) pt pf, k2)
  | SWhile c body => let '(pb, k1) := compile_block k body in (PWhile (PE c) pb, k1)
  | SFor p it body => let '(pb, k1) := compile_block k body in (PFor p (PE it) pb, k1)
  | SContext x e body =>
      let '(pb, k1) := compile_block k body in
      (PTry (stash_stmt k1 :: real_stmt :: set_stmt x e :: pb) [restore_stmt k1], S k1)
  | SAssert e => (PAssert (PE e), k)
  | SEffect e => (PExpr (PE e), k)
  | SReturn e => (PReturn (PE e), k)
  | SPass => (PPass, k)
  end.

Fixpoint compile_block (k : nat) (b : list stmt) {struct b} : list pstmt * nat :=
  match b with
  | [] => ([], k)
  | x :: r =>
      let '(px, k1) := compile_stmt k x in
      let '(pr, k2) := compile_block k1 r in
      (px :: pr, k2)
  end.

(* the compiled function body; `__ctx__` is a parameter of the emitted function *)
Definition compile_func (fn : func) : list pstmt := fst (compile_block O (f_body fn)).

Definition init_pstate (s : env) (C : ctx) : pstate := PS s (VCtx C) [].

(* A variant of the scheme WITHOUT the finally-restore (what a broken compiler
   would emit), used to show that the theorem is not vacuous. *)
Definition compile_with_norestore (k : nat) (x : option ident) (e : expr) (pb : list pstmt) : pstmt :=
  PTry (stash_stmt k :: real_stmt :: set_stmt x e :: pb) [].

(* which temporaries a statement may assign *)
Definition target_tmp_ok (lo hi : nat) (t : ptarget) : bool :=
  match t with TName (NTmp j) => Nat.leb lo j && Nat.ltb j hi | _ => true end.

Section Tmps.
Variables lo hi : nat.

Fixpoint tmps_in (st : pstmt) {struct st} : bool :=
  let blk := fix blk (b : list pstmt) : bool :=
    match b with [] => true | x :: r => tmps_in x && blk r end in
  match st with
  | PAssign ts _ => forallb (target_tmp_ok lo hi) ts
  | PIf _ t f => blk t && blk f
  | PWhile _ b => blk b
  | PFor _ _ b => blk b
  | PTry b fin => blk b && blk fin
  | _ => true
  end.

Fixpoint tmps_in_block (b : list pstmt) : bool :=
  match b with [] => true | x :: r => tmps_in x && tmps_in_block r end.
End Tmps.

(* ---------------------------------------------------------------- statement skeleton *)
(* A canonical text of the statement skeleton of compiled code (expressions
   abstracted to "E" unless they are the special names `__ctx__`, `__fpy_real`
   or a context temporary).  harness/props/c04.py prints the same text from the
   Python AST the real BytecodeCompiler emitted; Coq compares the two, which ties
   the scheme the theorems are about to the code actually emitted. *)
From Coq Require Import DecimalString.
Open Scope string_scope.

Definition nat_str (n : nat) : string := NilZero.string_of_uint (Nat.to_uint n).

Definition show_name (x : pname) : string :=
  match x with NUser x => "u:" ++ x | NCtx => "ctx" | NTmp k => "t" ++ nat_str k end.

Definition show_pexpr (e : pexpr) : string :=
  match e with PE _ => "E" | PName x => show_name x | PRealC => "real" end.

Fixpoint show_pat (p : pat) : string :=
  match p with
  | PVar x => "u:" ++ x
  | PWild => "u:_"
  | PTuple ps => "(" ++ String.concat "," (map show_pat ps) ++ ")"
  end.

Definition show_target (t : ptarget) : string :=
  match t with TPat p => show_pat p | TName x => show_name x end.

Fixpoint show_pstmt (st : pstmt) {struct st} : string :=
  let blk := fix blk (b : list pstmt) : string :=
    match b with [] => "" | x :: r => show_pstmt x ++ ";" ++ blk r end in
  match st with
  | PAssign ts e => "A[" ++ String.concat "=" (map show_target ts) ++ "=" ++ show_pexpr e ++ "]"
  | PIndexAssign x idx _ => "I[" ++ x ++ "/" ++ nat_str (List.length idx) ++ "]"
  | PExpr _ => "X"
  | PIf _ t f => "If{" ++ blk t ++ "}{" ++ blk f ++ "}"
  | PWhile _ b => "Wh{" ++ blk b ++ "}"
  | PFor p _ b => "For[" ++ show_pat p ++ "]{" ++ blk b ++ "}"
  | PTry b fin => "Try{" ++ blk b ++ "}{" ++ blk fin ++ "}"
  | PReturn _ => "R"
  | PAssert _ => "As"
  | PPass => "P"
  end.

Fixpoint show_block (b : list pstmt) : string :=
  match b with [] => "" | x :: r => show_pstmt x ++ ";" ++ show_block r end.

Definition skeleton (fn : func) : string := show_block (compile_func fn).
