(* Property C06: the model of the literal pipeline (part B of Literal.v)
   returns the number the spelling denotes (part A), for every string. *)
From Coq Require Import ZArith List Bool Ascii String QArith Qpower Lia Qfield.
From FpyV Require Import Lang.Literal.
Import ListNotations.
Open Scope Z_scope.

(* values up to equality of rationals *)
Definition lval_equiv (a b : lval) : Prop :=
  match a, b with
  | LNegZero, LNegZero => True
  | LQ x, LQ y => (x == y)%Q
  | _, _ => False
  end.
Definition olval_equiv (a b : option lval) : Prop :=
  match a, b with
  | Some x, Some y => lval_equiv x y
  | None, None => True
  | _, _ => False
  end.

(* ---------------------------------------------------------------- digits and Horner *)
Definition dval (base : Z) (c : ascii) : Z := match digit_in base c with Some d => d | None => 0 end.
Definition horner (base acc : Z) (ds : list ascii) : Z := fold_left (fun a c => a * base + dval base c) ds acc.

Lemma span_spec p s : let '(a, r) := span p s in
  s = a ++ r /\ Forall (fun c => p c = true) a /\ match r with c :: _ => p c = false | [] => True end.
Proof.
  induction s as [|c t IH]; simpl; [auto|].
  destruct (p c) eqn:P.
  - destruct (span p t) as [a r]. destruct IH as [E [F H]]. subst t. repeat split; auto.
  - repeat split; auto.
Qed.

Lemma eat_span base acc n s :
  eat base false acc n s =
  (horner base acc (fst (span (is_digit base) s)), n + Zlen (fst (span (is_digit base) s)), snd (span (is_digit base) s)).
Proof.
  revert acc n. induction s as [|c t IH]; intros acc n; simpl.
  - unfold Zlen. simpl. f_equal. f_equal. lia.
  - assert (ID : is_digit base c = match digit_in base c with Some _ => true | None => false end) by reflexivity.
    rewrite ID. destruct (digit_in base c) as [d|] eqn:D.
    + rewrite IH. destruct (span (is_digit base) t) as [a r]. simpl. unfold dval at 1. rewrite D.
      f_equal. f_equal. unfold Zlen. cbn [List.length]. lia.
    + simpl. unfold Zlen. simpl. f_equal. f_equal. lia.
Qed.

Lemma fold_opt_horner base ds a : Forall (fun c => is_digit base c = true) ds ->
  fold_left (fun acc c => match acc, digit_in base c with
                          | Some a, Some d => Some (a * base + d)
                          | _, _ => None
                          end) ds (Some a) = Some (horner base a ds).
Proof.
  revert a. induction ds as [|c t IH]; intros a F; simpl; [reflexivity|].
  inversion F as [|? ? Hc Ht]; subst. unfold is_digit in Hc. unfold dval.
  destruct (digit_in base c) as [d|]; [|discriminate]. apply IH. exact Ht.
Qed.

Lemma py_int_horner base ds : ds <> [] -> Forall (fun c => is_digit base c = true) ds ->
  py_int base ds = Some (horner base 0 ds).
Proof.
  intros NE F. unfold py_int. destruct ds; [contradiction|]. apply fold_opt_horner. exact F.
Qed.

Lemma Zlen_nonneg s : 0 <= Zlen s.
Proof. unfold Zlen. lia. Qed.

Lemma horner_shift base acc ds : horner base acc ds = acc * base ^ Zlen ds + horner base 0 ds.
Proof.
  revert acc. induction ds as [|c t IH]; intros acc.
  - unfold Zlen. simpl. lia.
  - change (horner base acc (c :: t)) with (horner base (acc * base + dval base c) t).
    change (horner base 0 (c :: t)) with (horner base (0 * base + dval base c) t).
    rewrite IH. rewrite (IH (0 * base + dval base c)).
    replace (Zlen (c :: t)) with (Z.succ (Zlen t)) by (unfold Zlen; cbn [List.length]; lia).
    rewrite Z.pow_succ_r by apply Zlen_nonneg. ring.
Qed.

Lemma horner_app base acc a b : horner base acc (a ++ b) = horner base (horner base acc a) b.
Proof. unfold horner. apply fold_left_app. Qed.

Lemma dval_nonneg base c : 0 <= dval base c.
Proof.
  unfold dval, digit_in, digit_of. set (n := code c).
  destruct ((48 <=? n) && (n <=? 57)) eqn:A.
  - apply andb_prop in A. destruct A as [A1 A2]. apply Z.leb_le in A1, A2.
    destruct (n - 48 <? base); lia.
  - destruct ((97 <=? n) && (n <=? 102)) eqn:B; [|lia].
    apply andb_prop in B. destruct B as [B1 B2]. apply Z.leb_le in B1, B2.
    destruct (n - 87 <? base); lia.
Qed.

Lemma horner_nonneg base acc ds : 0 <= base -> 0 <= acc -> 0 <= horner base acc ds.
Proof.
  intros Hb. revert acc. induction ds as [|c t IH]; intros acc Ha; simpl; [exact Ha|].
  apply IH. pose proof (dval_nonneg base c). nia.
Qed.

Lemma Zlen_app a b : Zlen (a ++ b) = Zlen a + Zlen b.
Proof. unfold Zlen. rewrite app_length. lia. Qed.

(* ---------------------------------------------------------------- rational arithmetic *)
Lemma inject_pow b n : 0 <= n -> (inject_Z (b ^ n) == qpow b n)%Q.
Proof. intros. unfold qpow. apply Zpower_Qpower. exact H. Qed.

Lemma qpow_neg b n : 0 <= n -> (qpow b (- n) == / inject_Z (b ^ n))%Q.
Proof. intros. unfold qpow. rewrite Qpower_opp. rewrite <- Zpower_Qpower by exact H. reflexivity. Qed.

Lemma Qmake_div n d : 0 < d -> (Qmake n (Z.to_pos d) == inject_Z n / inject_Z d)%Q.
Proof.
  intros Hd. rewrite (Qmake_Qdiv n (Z.to_pos d)). rewrite Z2Pos.id by exact Hd. reflexivity.
Qed.

Lemma inject_nonzero d : d <> 0 -> ~ (inject_Z d == 0)%Q.
Proof. intros Hd E. unfold Qeq in E. simpl in E. lia. Qed.

(* the code's combination of the parts is the Horner value *)
Lemma combine_eq (I F base k eb e : Z) : 0 < base -> 0 < eb -> 0 <= k ->
  ((inject_Z I + inject_Z F * qpow base (- k)) * qpow eb e == mkq (I * base ^ k + F) base k eb e)%Q.
Proof.
  intros Hb He Hk. unfold mkq, ppow.
  assert (P : 0 < base ^ k) by (apply Z.pow_pos_nonneg; lia).
  rewrite qpow_neg by exact Hk.
  destruct (Z.leb_spec 0 e) as [E|E].
  - assert (R : 0 < eb ^ e) by (apply Z.pow_pos_nonneg; lia).
    rewrite Qmake_div by exact P. rewrite <- inject_pow by exact E.
    rewrite !inject_Z_mult, inject_Z_plus, inject_Z_mult.
    field. apply inject_nonzero. lia.
  - assert (R : 0 < eb ^ (- e)) by (apply Z.pow_pos_nonneg; lia).
    replace e with (- (- e)) at 1 by lia. rewrite qpow_neg by lia.
    rewrite Qmake_div by nia. rewrite !inject_Z_mult, inject_Z_plus, inject_Z_mult.
    field. split; apply inject_nonzero; lia.
Qed.

(* ---------------------------------------------------------------- characters *)
Lemma digit_code base c : is_digit base c = true -> 48 <= code c <= 57 \/ 97 <= code c <= 102.
Proof.
  unfold is_digit, digit_in, digit_of. set (n := code c).
  destruct ((48 <=? n) && (n <=? 57)) eqn:A.
  - intros _. apply andb_prop in A. destruct A as [A1 A2]. apply Z.leb_le in A1, A2. lia.
  - destruct ((97 <=? n) && (n <=? 102)) eqn:B; [|discriminate].
    intros _. apply andb_prop in B. destruct B as [B1 B2]. apply Z.leb_le in B1, B2. lia.
Qed.

Lemma digit_not_char base a c : is_digit base c = true -> code a < 48 \/ (57 < code a < 97) \/ 102 < code a ->
  is_char a c = false.
Proof. intros D H. apply digit_code in D. unfold is_char. apply Z.eqb_neq. lia. Qed.

Lemma digit_not_dot base c : is_digit base c = true -> is_char "." c = false.
Proof. intros D. apply (digit_not_char base); [exact D|]. left. vm_compute. reflexivity. Qed.

Lemma split_dot_app base ip fp : Forall (fun c => is_digit base c = true) ip ->
  split_dot (ip ++ "."%char :: fp) = Some (ip, fp).
Proof.
  intros F. unfold split_dot.
  assert (S : span (fun c => negb (is_char "." c)) (ip ++ "."%char :: fp) = (ip, "."%char :: fp)).
  { induction F as [|c t Hc Ht IH]; simpl.
    - reflexivity.
    - rewrite (digit_not_dot base c Hc). simpl. rewrite IH. reflexivity. }
  rewrite S. reflexivity.
Qed.

Lemma split_dot_none base ip : Forall (fun c => is_digit base c = true) ip -> split_dot ip = None.
Proof.
  intros F. unfold split_dot.
  assert (S : span (fun c => negb (is_char "." c)) ip = (ip, [])).
  { induction F as [|c t Hc Ht IH]; simpl; [reflexivity|].
    rewrite (digit_not_dot base c Hc). simpl. rewrite IH. reflexivity. }
  rewrite S. reflexivity.
Qed.

Lemma zero_digit base : 2 <= base -> py_int base ["0"%char] = Some 0.
Proof.
  intros H. unfold py_int. simpl. unfold digit_in. change (digit_of "0") with (Some 0).
  cbv iota beta. assert (E : (0 <? base) = true) by (apply Z.ltb_lt; lia). rewrite E. reflexivity.
Qed.

Definition qsign (sg : option ascii) : Q :=
  match sg with Some c => if is_char "-" c then inject_Z (-1) else 1%Q | None => 1%Q end.

(* the exponent group *)
Lemma exponent_spec t :
  let '(es, t1) := match t with
                   | d :: t' => if is_char "-" d || is_char "+" d then ([d], t') else ([], t)
                   | [] => ([], [])
                   end in
  let '(eneg, u1) := eat_sign t in
  u1 = t1 /\
  forall ed, ed <> [] -> Forall (fun c => is_digit 10 c = true) ed ->
    py_int_signed (es ++ ed) = Some (if eneg then - horner 10 0 ed else horner 10 0 ed).
Proof.
  destruct t as [|d t']; simpl.
  - split; [reflexivity|]. intros ed NE F. simpl.
    destruct ed as [|c r]; [contradiction|]. unfold py_int_signed.
    inversion F as [|? ? Hc Hr]; subst.
    rewrite (digit_not_char 10 "-" c Hc) by (left; vm_compute; reflexivity).
    rewrite (digit_not_char 10 "+" c Hc) by (left; vm_compute; reflexivity).
    apply py_int_horner; [discriminate|exact F].
  - destruct (is_char "-" d) eqn:M; simpl.
    + split; [reflexivity|]. intros ed NE F. unfold py_int_signed. simpl. rewrite M.
      rewrite py_int_horner by assumption. reflexivity.
    + destruct (is_char "+" d) eqn:P; simpl.
      * split; [reflexivity|]. intros ed NE F. unfold py_int_signed. simpl. rewrite M, P.
        apply py_int_horner; assumption.
      * split; [reflexivity|]. intros ed NE F. simpl.
        destruct ed as [|c r]; [contradiction|]. unfold py_int_signed.
        inversion F as [|? ? Hc Hr]; subst.
        rewrite (digit_not_char 10 "-" c Hc) by (left; vm_compute; reflexivity).
        rewrite (digit_not_char 10 "+" c Hc) by (left; vm_compute; reflexivity).
        apply py_int_horner; [discriminate|exact F].
Qed.

(* ---------------------------------------------------------------- the exponent tail *)
(* the regex tail and the denotation tail accept the same strings, and the
   exponent the code hands to int() is the one the denotation reads *)
Lemma tail_core base eb echar mant m n2 s5 :
  match re_tail echar mant s5, sci_tail base eb (is_char echar) false m n2 s5 with
  | Some (mant', ex), Some q =>
      mant' = mant /\
      exists E, q = mkq m base n2 eb E /\
        (ex = None /\ E = 0 \/ exists es, ex = Some es /\ py_int_signed es = Some E)
  | None, None => True
  | _, _ => False
  end.
Proof.
  unfold re_tail, sci_tail. destruct s5 as [|c t].
  { split; [reflexivity|]. exists 0. split; [reflexivity|]. left. auto. }
  destruct (is_char echar c); [|exact I].
  pose proof (exponent_spec t) as X.
  destruct (match t with
            | [] => ([], [])
            | d :: t' => if is_char "-" d || is_char "+" d then ([d], t') else ([], t)
            end) as [es t1].
  destruct (eat_sign t) as [eneg u1]. destruct X as [-> X].
  rewrite eat_span. pose proof (span_spec (is_digit 10) t1) as S.
  destruct (span (is_digit 10) t1) as [ed t2]. cbn [fst snd]. destruct S as [_ [Fed _]].
  destruct ed as [|c0 ed'].
  { unfold Zlen. simpl. destruct t2; exact I. }
  assert (NZ : (0 + Zlen (c0 :: ed') =? 0) = false).
  { apply Z.eqb_neq. unfold Zlen. cbn [List.length]. lia. }
  rewrite NZ. destruct t2; [|exact I].
  split; [reflexivity|]. eexists. split; [reflexivity|]. right. eexists. split; [reflexivity|].
  apply X; [discriminate|exact Fed].
Qed.

Lemma sci_to_fraction_value sg i f ex base b I F k E :
  py_int base i = Some I ->
  (f = None /\ F = 0 /\ k = 0 \/ exists fs, f = Some fs /\ py_int base fs = Some F /\ k = Zlen fs) ->
  (ex = None /\ E = 0 \/ exists es, ex = Some es /\ py_int_signed es = Some E) ->
  sci_to_fraction sg i f ex base b =
  Some (qsign sg * (inject_Z I + inject_Z F * qpow base (- k)) * qpow b E)%Q.
Proof.
  intros Hi Hf He. unfold sci_to_fraction. rewrite Hi.
  destruct Hf as [[-> [-> ->]]|[fs [-> [Hf ->]]]]; [|rewrite Hf];
  (destruct He as [[-> ->]|[es [-> He]]]; [|rewrite He]); reflexivity.
Qed.

Lemma is_char_eq a c : is_char a c = true -> c = a.
Proof.
  unfold is_char, code. intros H. apply Z.eqb_eq in H. apply N2Z.inj in H.
  rewrite <- (ascii_N_embedding c), <- (ascii_N_embedding a). f_equal. symmetry. exact H.
Qed.

Lemma Zlen_cons_pos (c : ascii) l : 0 < Zlen (c :: l).
Proof. unfold Zlen. cbn [List.length]. lia. Qed.

(* ---------------------------------------------------------------- mantissa + exponent: code = denotation *)
Lemma body_core base eb echar relaxed zero_int sg s :
  2 <= base -> 0 < eb ->
  match re_body (is_digit base) echar relaxed s, sci_body base eb (is_char echar) false (negb relaxed) s with
  | Some (mant, ex), Some mag =>
      match mant_to_fraction zero_int relaxed sg mant ex base eb with
      | Some q => (q == qsign sg * mag)%Q
      | None => zero_int = false /\ fst (span (is_digit base) s) = []
      end
  | None, None => True
  | _, _ => False
  end.
Proof.
  intros Hb He. unfold re_body, sci_body. rewrite eat_span.
  pose proof (span_spec (is_digit base) s) as S.
  destruct (span (is_digit base) s) as [ip s3]. cbn [fst snd]. destruct S as [_ [Fip _]].
  set (I := horner base 0 ip).
  (* the value when there is no fraction part *)
  assert (NoFrac : forall s5, ip <> [] ->
    match re_tail echar ip s5, sci_tail base eb (is_char echar) false I 0 s5 with
    | Some (mant, ex), Some mag =>
        match mant_to_fraction zero_int relaxed sg mant ex base eb with
        | Some q => (q == qsign sg * mag)%Q
        | None => zero_int = false /\ ip = []
        end
    | None, None => True
    | _, _ => False
    end).
  { intros s5 NE. pose proof (tail_core base eb echar ip I 0 s5) as T.
    destruct (re_tail echar ip s5) as [[mant ex]|], (sci_tail base eb (is_char echar) false I 0 s5) as [mag|]; try exact T.
    destruct T as [-> [E [-> HE]]]. unfold mant_to_fraction. rewrite (split_dot_none base ip Fip).
    rewrite (sci_to_fraction_value sg ip None ex base eb I 0 0 E (py_int_horner base ip NE Fip) (or_introl (conj eq_refl (conj eq_refl eq_refl))) HE).
    rewrite <- Qmult_assoc. apply Qmult_comp; [reflexivity|].
    rewrite (combine_eq I 0 base 0 eb E) by lia. rewrite Z.pow_0_r, Z.mul_1_r, Z.add_0_r. reflexivity. }
  destruct s3 as [|c t].
  - (* end of the mantissa at the end of the string *)
    destruct ip as [|c0 ip'].
    + reflexivity.
    + assert (N1 : (0 + Zlen (c0 :: ip') + 0 =? 0) = false) by (apply Z.eqb_neq; pose proof (Zlen_cons_pos c0 ip'); lia).
      rewrite N1. rewrite andb_false_r. simpl andb. cbv iota.
      specialize (NoFrac [] ltac:(discriminate)).
      destruct (re_tail echar (c0 :: ip') []) as [[mant ex]|], (sci_tail base eb (is_char echar) false I 0 []) as [mag|]; try exact NoFrac.
  - destruct (is_char "." c) eqn:Dot.
    + (* a point *)
      apply is_char_eq in Dot. subst c. rewrite eat_span.
      pose proof (span_spec (is_digit base) t) as S2.
      destruct (span (is_digit base) t) as [fp s4]. cbn [fst snd]. destruct S2 as [_ [Ffp _]].
      assert (Dfp : fp = [] \/ fp <> []) by (destruct fp; [left; reflexivity|right; discriminate]).
      destruct Dfp as [->|NEfp].
      * (* no digit after the point *)
        destruct ip as [|c0 ip'].
        { reflexivity. }
        assert (N1 : (0 + Zlen (c0 :: ip') + (0 + Zlen []) =? 0) = false) by (apply Z.eqb_neq; pose proof (Zlen_cons_pos c0 ip'); unfold Zlen at 2; simpl; lia).
        rewrite N1. change (0 + Zlen [] =? 0) with true. rewrite !andb_true_r.
        destruct relaxed; simpl negb; cbv iota; [|exact Logic.I].
        change (horner base I []) with I. change (0 + Zlen []) with 0.
        pose proof (tail_core base eb echar ((c0 :: ip') ++ ["."%char]) I 0 s4) as T.
        destruct (re_tail echar ((c0 :: ip') ++ ["."%char]) s4) as [[mant ex]|], (sci_tail base eb (is_char echar) false I 0 s4) as [mag|]; try exact T.
        destruct T as [-> [E [-> HE]]]. unfold mant_to_fraction. rewrite (split_dot_app base (c0 :: ip') [] Fip). cbv iota beta.
        rewrite (sci_to_fraction_value sg (c0 :: ip') None ex base eb I 0 0 E (py_int_horner base (c0 :: ip') ltac:(discriminate) Fip) (or_introl (conj eq_refl (conj eq_refl eq_refl))) HE).
        rewrite <- Qmult_assoc. apply Qmult_comp; [reflexivity|].
        rewrite (combine_eq I 0 base 0 eb E) by lia. rewrite Z.pow_0_r, Z.mul_1_r, Z.add_0_r. reflexivity.
      * (* digits after the point *)
        set (k := Zlen fp).
        assert (Kp : 0 < k) by (unfold k; destruct fp; [contradiction|apply Zlen_cons_pos]).
        assert (N1 : (0 + Zlen ip + (0 + k) =? 0) = false) by (apply Z.eqb_neq; pose proof (Zlen_nonneg ip); lia).
        assert (N2 : (0 + k =? 0) = false) by (apply Z.eqb_neq; lia).
        assert (MR : match ip, fp with
                     | [], [] => None
                     | _ :: _, [] => if relaxed then Some (ip ++ ["."%char], s4) else None
                     | _, _ :: _ => Some (ip ++ "."%char :: fp, s4)
                     end = Some (ip ++ "."%char :: fp, s4)) by (destruct ip, fp; try reflexivity; contradiction).
        rewrite MR, N1, N2. rewrite andb_false_r. cbv iota.
        set (F := horner base 0 fp).
        pose proof (tail_core base eb echar (ip ++ "."%char :: fp) (horner base I fp) (0 + k) s4) as T.
        destruct (re_tail echar (ip ++ "."%char :: fp) s4) as [[mant ex]|], (sci_tail base eb (is_char echar) false (horner base I fp) (0 + k) s4) as [mag|]; try exact T.
        destruct T as [-> [E [-> HE]]]. unfold mant_to_fraction. rewrite (split_dot_app base ip fp Fip).
        assert (FE : match fp with [] => if relaxed then None else Some fp | _ :: _ => Some fp end = Some fp)
          by (destruct fp; [contradiction|reflexivity]).
        rewrite FE.
        assert (Hf : exists fs, Some fp = Some fs /\ py_int base fs = Some F /\ k = Zlen fs).
        { exists fp. split; [reflexivity|]. split; [apply py_int_horner; [exact NEfp|exact Ffp]|reflexivity]. }
        assert (Val : forall i Iv, py_int base i = Some Iv -> Iv = I ->
                  match sci_to_fraction sg i (Some fp) ex base eb with
                  | Some q => (q == qsign sg * mkq (horner base I fp) base (0 + k) eb E)%Q
                  | None => zero_int = false /\ ip = []
                  end).
        { intros i Iv Hi ->. rewrite (sci_to_fraction_value sg i (Some fp) ex base eb I F k E Hi (or_intror Hf) HE).
          rewrite <- Qmult_assoc. apply Qmult_comp; [reflexivity|].
          rewrite (combine_eq I F base k eb E) by lia. rewrite (horner_shift base I fp). fold k F.
          replace (0 + k) with k by lia. reflexivity. }
        destruct ip as [|c0 ip'].
        { destruct zero_int.
          - apply (Val ["0"%char] 0); [apply zero_digit; exact Hb|reflexivity].
          - unfold sci_to_fraction. simpl py_int. cbv iota. auto. }
        apply (Val (c0 :: ip') I); [apply py_int_horner; [discriminate|exact Fip]|reflexivity].
    + (* no point *)
      destruct ip as [|c0 ip'].
      * reflexivity.
      * assert (N1 : (0 + Zlen (c0 :: ip') + 0 =? 0) = false) by (apply Z.eqb_neq; pose proof (Zlen_cons_pos c0 ip'); lia).
        rewrite N1. rewrite andb_false_r. simpl andb. cbv iota.
        specialize (NoFrac (c :: t) ltac:(discriminate)).
        destruct (re_tail echar (c0 :: ip') (c :: t)) as [[mant ex]|], (sci_tail base eb (is_char echar) false I 0 (c :: t)) as [mag|]; try exact NoFrac.
  Qed.

(* ---------------------------------------------------------------- sign, prefix, whitespace *)
Definition head_minus (t : list ascii) : bool := match t with c :: _ => is_char "-" c | [] => false end.

Lemma sci_core base eb echar prefix relaxed zero_int t : 2 <= base -> 0 < eb ->
  match (match re_sci (is_digit base) echar prefix relaxed t with
         | None => None
         | Some (sg, mant, ex) => mant_to_fraction zero_int relaxed sg mant ex base eb
         end),
        sci_denote base eb (is_char echar) prefix false (negb relaxed) t with
  | Some q, Some (neg, mag) => (q == (if neg then - mag else mag))%Q /\ neg = head_minus t
  | None, None => True
  | None, Some _ => zero_int = false
  | Some _, None => False
  end.
Proof.
  intros Hb He. unfold re_sci, sci_denote.
  (* the sign *)
  assert (SG : exists sg neg s1,
     (match t with
      | c :: t' => if is_char "-" c || is_char "+" c then (Some c, t') else (None, t)
      | [] => (None, [])
      end) = (sg, s1) /\ eat_sign t = (neg, s1) /\ neg = head_minus t /\
     qsign sg = (if neg then inject_Z (-1) else 1%Q)).
  { destruct t as [|c t']; [exists None, false, []; auto|]. unfold eat_sign, head_minus, qsign.
    destruct (is_char "-" c) eqn:M; [exists (Some c), true, t'; rewrite M; auto|].
    destruct (is_char "+" c) eqn:P; [exists (Some c), false, t'; rewrite M; auto|].
    exists None, false, (c :: t'); auto. }
  destruct SG as [sg [neg [s1 [-> [-> [Hneg Hsg]]]]]].
  destruct (drop_prefix prefix s1) as [s2|]; [|exact I].
  pose proof (body_core base eb echar relaxed zero_int sg s2 Hb He) as B.
  destruct (re_body (is_digit base) echar relaxed s2) as [[mant ex]|],
           (sci_body base eb (is_char echar) false (negb relaxed) s2) as [mag|]; try contradiction; [|exact I].
  destruct (mant_to_fraction zero_int relaxed sg mant ex base eb) as [q|].
  - split; [|exact Hneg]. rewrite B, Hsg. destruct neg; [|apply Qmult_1_l].
    change (inject_Z (-1)) with (- (1))%Q. field.
  - apply B.
Qed.

Lemma strip_left_head s : match strip_left s with c :: _ => is_space c = false | [] => True end.
Proof.
  induction s as [|c t IH]; simpl; [exact I|]. destruct (is_space c) eqn:E; [exact IH|exact E].
Qed.

Lemma strip_left_snoc l c : is_space c = false -> strip_left (l ++ [c]) = strip_left l ++ [c].
Proof.
  intros H. induction l as [|d l IH]; simpl; [rewrite H; reflexivity|].
  destruct (is_space d); [exact IH|reflexivity].
Qed.

Lemma starts_minus_strip s : starts_minus s = head_minus (strip s).
Proof.
  unfold starts_minus, strip. pose proof (strip_left_head s) as H.
  destruct (strip_left s) as [|c u]; [reflexivity|].
  simpl rev. rewrite strip_left_snoc by exact H. rewrite rev_app_distr. reflexivity.
Qed.

(* as_real of the code against `signed` of the denotation *)
Lemma as_real_signed (q : Q) (neg : bool) (mag : Q) (s : list ascii) :
  (q == (if neg then - mag else mag))%Q -> neg = head_minus (strip s) ->
  olval_equiv (as_real (Some q) s) (signed (Some (neg, mag))).
Proof.
  intros E N. unfold as_real, signed. rewrite starts_minus_strip, <- N.
  destruct neg.
  - rewrite andb_true_r.
    assert (B : Qeq_bool q 0 = Qeq_bool mag 0).
    { destruct (Qeq_bool q 0) eqn:A, (Qeq_bool mag 0) eqn:C; try reflexivity.
      - apply Qeq_bool_eq in A. apply Qeq_bool_neq in C. exfalso. apply C. rewrite E in A.
        rewrite <- (Qopp_involutive mag). rewrite A. reflexivity.
      - apply Qeq_bool_neq in A. apply Qeq_bool_eq in C. exfalso. apply A. rewrite E, C. reflexivity. }
    rewrite B. destruct (Qeq_bool mag 0); simpl; [exact I|exact E].
  - rewrite andb_false_r. simpl. exact E.
Qed.

(* ================================================================ theorems *)
(* decnum_to_fraction (with Decnum.as_real): every string, any digit counts *)
Theorem decnum_spec relaxed s : olval_equiv (decnum_value relaxed s) (dec_denote (negb relaxed) s).
Proof.
  unfold decnum_value, decnum_to_fraction, dec_denote.
  pose proof (sci_core 10 10 "e" [] relaxed true (strip (chars s)) ltac:(lia) ltac:(lia)) as C.
  destruct (re_sci (is_digit 10) "e" [] relaxed (strip (chars s))) as [[[sg mant] ex]|].
  - destruct (mant_to_fraction true relaxed sg mant ex 10 10) as [q|],
             (sci_denote 10 10 (is_char "e") [] false (negb relaxed) (strip (chars s))) as [[neg mag]|];
      try contradiction; try discriminate.
    + destruct C as [E N]. apply as_real_signed; assumption.
    + exact I.
  - destruct (sci_denote 10 10 (is_char "e") [] false (negb relaxed) (strip (chars s))) as [[neg mag]|];
      [discriminate|exact I].
Qed.

(* hexnum_to_fraction (with Hexnum.as_real) *)
Theorem hexnum_spec fx s :
  match hexnum_value fx s, hex_denote s with
  | Some a, Some b => lval_equiv a b
  | None, None => True
  | None, Some _ => fx_hexint fx = false
  | Some _, None => False
  end.
Proof.
  unfold hexnum_value, hexnum_to_fraction, hex_denote.
  pose proof (sci_core 16 2 "p" ["0"%char; "x"%char] false (fx_hexint fx) (strip (chars s)) ltac:(lia) ltac:(lia)) as C.
  change (negb false) with true in C.
  destruct (re_sci (is_digit 16) "p" ["0"%char; "x"%char] false (strip (chars s))) as [[[sg mant] ex]|].
  - destruct (mant_to_fraction (fx_hexint fx) false sg mant ex 16 2) as [q|],
             (sci_denote 16 2 (is_char "p") ["0"%char; "x"%char] false true (strip (chars s))) as [[neg mag]|];
      try contradiction.
    + destruct C as [E N]. pose proof (as_real_signed q neg mag (chars s) E N) as A.
      destruct (as_real (Some q) (chars s)), (signed (Some (neg, mag))); try contradiction; exact A.
    + simpl. unfold signed. destruct neg; [destruct (Qeq_bool mag 0)|]; exact C.
    + exact I.
  - destruct (sci_denote 16 2 (is_char "p") ["0"%char; "x"%char] false true (strip (chars s))) as [[neg mag]|].
    + simpl. unfold signed. destruct neg; [destruct (Qeq_bool mag 0)|]; exact C.
    + exact I.
Qed.

Corollary hexnum_spec_fixed fx s : fx_hexint fx = true -> olval_equiv (hexnum_value fx s) (hex_denote s).
Proof.
  intros H. pose proof (hexnum_spec fx s) as S. unfold olval_equiv.
  destruct (hexnum_value fx s), (hex_denote s); try exact S. congruence.
Qed.

(* as coded: whenever the function returns, it returns the denoted number ... *)
Corollary hexnum_spec_partial s a : hexnum_value lit_as_coded s = Some a ->
  exists b, hex_denote s = Some b /\ lval_equiv a b.
Proof.
  intros H. pose proof (hexnum_spec lit_as_coded s) as S. rewrite H in S.
  destruct (hex_denote s) as [b|]; [exists b; auto|contradiction].
Qed.

(* ... but it raises on a mantissa without integer digits *)
Theorem hexnum_refuted : exists s q, hexnum_value lit_as_coded s = None /\ hex_denote s = Some (LQ q) /\ (q == 1)%Q.
Proof. exists "0x.8p1"%string, (16 # 16)%Q. vm_compute. repeat split; reflexivity. Qed.

(* ---------------------------------------------------------------- rational(p, q), digits(m, e, b) *)
Theorem rational_spec p q : olval_equiv (rational_value p q) (rational_denote p q).
Proof.
  unfold rational_value, rational_denote. destruct (Z.eqb_spec q 0) as [|NZ]; [exact I|]. simpl.
  destruct (Z.ltb_spec 0 q) as [P|P].
  - rewrite Qmake_div by exact P. reflexivity.
  - rewrite Qmake_div by lia. rewrite !inject_Z_opp. field. apply inject_nonzero. exact NZ.
Qed.

Theorem digits_spec m e b : olval_equiv (digits_value m e b) (digits_denote m e b).
Proof.
  unfold digits_value, digits_denote. destruct ((b =? 0) && (e <? 0)) eqn:G; [exact I|].
  destruct (Z.leb_spec 0 e) as [E|E]; simpl.
  - rewrite <- inject_pow by exact E. rewrite <- inject_Z_mult. reflexivity.
  - assert (Bnz : b <> 0).
    { intros ->. simpl in G. destruct (Z.ltb_spec e 0); [discriminate|lia]. }
    assert (Dnz : b ^ (- e) <> 0) by (apply Z.pow_nonzero; lia).
    replace e with (- (- e)) at 1 by lia. rewrite qpow_neg by lia.
    destruct (Z.ltb_spec 0 (b ^ (- e))) as [P|P]; simpl.
    + rewrite Qmake_div by exact P. reflexivity.
    + rewrite Qmake_div by lia. rewrite !inject_Z_opp. field. apply inject_nonzero. exact Dnz.
Qed.

(* ---------------------------------------------------------------- the parser *)
Lemma lneg_compat a b : lval_equiv a b -> lval_equiv (lneg a) (lneg b).
Proof.
  destruct a as [|x], b as [|y]; simpl; try contradiction; [reflexivity|].
  intros E. assert (B : Qeq_bool x 0 = Qeq_bool y 0).
  { destruct (Qeq_bool x 0) eqn:A, (Qeq_bool y 0) eqn:C; try reflexivity.
    - apply Qeq_bool_eq in A. apply Qeq_bool_neq in C. exfalso. apply C. rewrite <- E. exact A.
    - apply Qeq_bool_neq in A. apply Qeq_bool_eq in C. exfalso. apply A. rewrite E. exact C. }
  rewrite B. destruct (Qeq_bool y 0); simpl; [exact I|]. rewrite E. reflexivity.
Qed.

(* side conditions under which the model of the parser is claimed correct;
   for the repaired code (lit_all_fixed) they say only: an integer literal is
   what Python's own integer parser returned, and a float token has no sign *)
Fixpoint lit_ok (fx : lfixes) (l : lit) : Prop :=
  match l with
  | LInt sp v => pyint_denote sp = Some v
  | LFloat sp _ => fx_float fx = true /\ head_minus (strip (normalize_pyfloat sp)) = false
  | LHex s => fx_hexint fx = true \/ hexnum_value fx s <> None
  | LRational _ _ | LDigits _ _ _ => True
  | LPos a => lit_ok fx a
  | LNeg a => lit_ok fx a /\ (fx_negneg fx = true \/ lit_denote a <> Some LNegZero)
  end.

Lemma Qred_integral q : Zpos (Qden (Qred q)) = 1 -> (inject_Z (Qnum (Qred q)) == q)%Q.
Proof.
  intros H. rewrite <- (Qred_correct q) at 2. destruct (Qred q) as [n d]. simpl in *.
  injection H as ->. reflexivity.
Qed.

Theorem literal_value_spec fx l : lit_ok fx l -> olval_equiv (literal_value fx l) (lit_denote l).
Proof.
  unfold literal_value. induction l as [sp v|sp py|s|p q|m e b|a IH|a IH]; simpl; intros Ok.
  - (* integer literal *) rewrite Ok. simpl. reflexivity.
  - (* float literal, read from its spelling *)
    destruct Ok as [Fx Hs]. rewrite Fx. unfold pyfloat_denote, decnum_to_fraction.
    pose proof (sci_core 10 10 "e" [] true true (strip (normalize_pyfloat sp)) ltac:(lia) ltac:(lia)) as C.
    change (negb true) with false in C.
    destruct (re_sci (is_digit 10) "e" [] true (strip (normalize_pyfloat sp))) as [[[sg mant] ex]|].
    + destruct (mant_to_fraction true true sg mant ex 10 10) as [q|],
               (sci_denote 10 10 (is_char "e") [] false false (strip (normalize_pyfloat sp))) as [[neg mag]|];
        try contradiction; try discriminate; [|exact I].
      destruct C as [E N]. rewrite Hs in N. subst neg. unfold signed.
      cbv iota in E.
      destruct (Qden (Qred q)) eqn:D; simpl; try exact E.
      transitivity q; [apply Qred_integral; rewrite D; reflexivity|exact E].
    + destruct (sci_denote 10 10 (is_char "e") [] false false (strip (normalize_pyfloat sp))) as [[neg mag]|];
        [discriminate|exact I].
  - (* hexfloat *)
    pose proof (hexnum_spec fx s) as H. unfold olval_equiv.
    destruct (hexnum_value fx s) as [a|], (hex_denote s) as [b|]; simpl; try exact H; try exact I.
    destruct Ok as [Ok|Ok]; [congruence|contradiction Ok; reflexivity].
  - (* rational *)
    pose proof (rational_spec p q) as H. destruct (rational_value p q), (rational_denote p q); exact H.
  - (* digits *)
    pose proof (digits_spec m e b) as H. destruct (digits_value m e b), (digits_denote m e b); exact H.
  - (* unary minus *)
    destruct Ok as [Ok NN]. specialize (IH Ok).
    destruct (parse fx a) as [n|]; destruct (lit_denote a) as [v|]; simpl in IH; try contradiction; [|exact I].
    destruct n as [z|w|n'].
    + (* Integer *)
      destruct v as [|y]; simpl in IH; [contradiction|].
      destruct z as [|pz|pz]; simpl.
      * assert (B : Qeq_bool y 0 = true) by (apply Qeq_bool_iff; rewrite <- IH; reflexivity). rewrite B. exact I.
      * assert (B : Qeq_bool y 0 = false).
        { destruct (Qeq_bool y 0) eqn:A; [|reflexivity]. apply Qeq_bool_eq in A. rewrite A in IH.
          unfold Qeq in IH. simpl in IH. lia. }
        rewrite B. simpl. rewrite <- IH. reflexivity.
      * assert (B : Qeq_bool y 0 = false).
        { destruct (Qeq_bool y 0) eqn:A; [|reflexivity]. apply Qeq_bool_eq in A. rewrite A in IH.
          unfold Qeq in IH. simpl in IH. lia. }
        rewrite B. simpl. rewrite <- IH. reflexivity.
    + (* another rational literal *)
      destruct w as [|x].
      * destruct v as [|y]; simpl in IH; [|contradiction].
        destruct NN as [NN|NN]; [rewrite NN; simpl; reflexivity|contradiction NN; reflexivity].
      * destruct v as [|y]; simpl in IH; [contradiction|].
        assert (B : Qeq_bool x 0 = Qeq_bool y 0).
        { destruct (Qeq_bool x 0) eqn:A, (Qeq_bool y 0) eqn:C; try reflexivity.
          - apply Qeq_bool_eq in A. apply Qeq_bool_neq in C. exfalso. apply C. rewrite <- IH. exact A.
          - apply Qeq_bool_neq in A. apply Qeq_bool_eq in C. exfalso. apply A. rewrite IH. exact C. }
        cbn [option_map lneg]. rewrite <- B.
        destruct (Qeq_bool x 0) eqn:A; simpl; [exact I|].
        rewrite A. simpl. rewrite IH. reflexivity.
    + (* a Neg operation *)
      simpl. apply lneg_compat. exact IH.
  - (* unary plus *) apply IH. exact Ok.
Qed.

(* the repaired code: every literal *)
Corollary literal_value_fixed l : lit_ok lit_all_fixed l ->
  olval_equiv (literal_value lit_all_fixed l) (lit_denote l).
Proof. apply literal_value_spec. Qed.

(* the code as it is: wrong on float literals that are not doubles ... *)
Theorem parser_float_refuted :
  exists sp v rp q, pyfloat_denote sp = Some (LQ q) /\ binary64_nearest_int v q = true /\
    literal_value lit_as_coded (LFloat sp (PYF false v 1 rp)) = Some (LQ (inject_Z v)) /\ ~ (inject_Z v == q)%Q.
Proof.
  exists "1e23"%string, 99999999999999991611392, "1e+23"%string, (100000000000000000000000 # 1)%Q.
  vm_compute. repeat split; try reflexivity. intro H; discriminate.
Qed.

(* ... and on the negation of a negative zero *)
Theorem negneg_refuted :
  exists l, lit_ok lit_all_fixed l /\ literal_value lit_as_coded l = Some LNegZero /\ lit_denote l = Some (LQ 0).
Proof.
  exists (LNeg (LNeg (LInt "0" 0))). vm_compute. repeat split; try reflexivity; auto.
Qed.

(* negative-zero fold: `-0`, `-0.0` are the negative zero under every variant *)
Theorem neg_zero_fold fx :
  literal_value fx (LNeg (LInt "0" 0)) = Some LNegZero /\
  lit_denote (LNeg (LInt "0" 0)) = Some LNegZero /\
  lit_denote (LNeg (LFloat "0.0" (PYF false 0 1 "0.0"))) = Some LNegZero /\
  literal_value fx (LNeg (LFloat "0.0" (PYF false 0 1 "0.0"))) = Some LNegZero.
Proof. destruct fx as [[] [] []]; vm_compute; repeat split; reflexivity. Qed.

(* ---------------------------------------------------------------- non-vacuity *)
Example lit_ok_inhabited :
  lit_ok lit_all_fixed (LNeg (LFloat "1_0.5E-3" (PYF false 0 1 ""))) /\
  lit_ok lit_all_fixed (LPos (LInt "0x_fF" 255)) /\
  lit_ok lit_all_fixed (LNeg (LNeg (LHex "0x.8p1"))) /\
  lit_ok lit_as_coded (LNeg (LHex "-0x1.8p3")) /\
  (exists q, lit_denote (LFloat "1_0.5E-3" (PYF false 0 1 "")) = Some (LQ q) /\ (q == 21 # 2000)%Q).
Proof.
  repeat split; try (vm_compute; reflexivity); try (right; vm_compute; intro; discriminate); try (left; reflexivity).
  eexists. split; [vm_compute; reflexivity|]. vm_compute. reflexivity.
Qed.
