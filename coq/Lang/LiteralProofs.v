(* Property C06: the model of the literal pipeline (part B of Literal.v)
   returns the number the spelling denotes (part A), for every string. *)
From Coq Require Import ZArith List Bool Ascii String QArith Lia Qfield.
From FpyV Require Import Lang.Literal.
Import ListNotations.
Open Scope Z_scope.

(* values up to equality of rationals *)
Definition lval_equiv (a b : lval) : Prop :=
  match a, b with
  | LNegZero, LNegZero => True
  | LQ x, LQ y => (x == y)%Q
  | _, _ => False
  end.
Definition olval_equiv (a b : option lval) : Prop :=
  match a, b with
  | Some x, Some y => lval_equiv x y
  | None, None => True
  | _, _ => False
  end.

(* ---------------------------------------------------------------- digits and Horner *)
Definition dval (base : Z) (c : ascii) : Z := match digit_in base c with Some d => d | None => 0 end.
Definition horner (base acc : Z) (ds : list ascii) : Z := fold_left (fun a c => a * base + dval base c) ds acc.

Lemma span_spec p s : let '(a, r) := span p s in
  s = a ++ r /\ Forall (fun c => p c = true) a /\ match r with c :: _ => p c = false | [] => True end.
Proof.
  induction s as [|c t IH]; simpl; [auto|].
  destruct (p c) eqn:P.
  - destruct (span p t) as [a r]. destruct IH as [E [F H]]. subst t. repeat split; auto.
  - repeat split; auto.
Qed.

Lemma eat_span base acc n s :
  eat base false acc n s =
  (horner base acc (fst (span (is_digit base) s)), n + Zlen (fst (span (is_digit base) s)), snd (span (is_digit base) s)).
Proof.
  revert acc n. induction s as [|c t IH]; intros acc n; simpl.
  - unfold Zlen. simpl. f_equal. f_equal. lia.
  - assert (ID : is_digit base c = match digit_in base c with Some _ => true | None => false end) by reflexivity.
    rewrite ID. destruct (digit_in base c) as [d|] eqn:D.
    + rewrite IH. destruct (span (is_digit base) t) as [a r]. simpl. unfold dval at 1. rewrite D.
      f_equal. f_equal. unfold Zlen. cbn [List.length]. lia.
    + simpl. unfold Zlen. simpl. f_equal. f_equal. lia.
Qed.

Lemma fold_opt_horner base ds a : Forall (fun c => is_digit base c = true) ds ->
  fold_left (fun acc c => match acc, digit_in base c with
                          | Some a, Some d => Some (a * base + d)
                          | _, _ => None
                          end) ds (Some a) = Some (horner base a ds).
Proof.
  revert a. induction ds as [|c t IH]; intros a F; simpl; [reflexivity|].
  inversion F as [|? ? Hc Ht]; subst. unfold is_digit in Hc. unfold dval.
  destruct (digit_in base c) as [d|]; [|discriminate]. apply IH. exact Ht.
Qed.

Lemma py_int_horner base ds : ds <> [] -> Forall (fun c => is_digit base c = true) ds ->
  py_int base ds = Some (horner base 0 ds).
Proof.
  intros NE F. unfold py_int. destruct ds; [contradiction|]. apply fold_opt_horner. exact F.
Qed.

Lemma horner_shift base acc ds : horner base acc ds = acc * base ^ Zlen ds + horner base 0 ds.
Proof.
  revert acc. induction ds as [|c t IH]; intros acc.
  - unfold Zlen. simpl. lia.
  - unfold horner in *. simpl. rewrite IH. rewrite (IH (0 * base + dval base c)).
    unfold Zlen. simpl length. rewrite Nat2Z.inj_succ. rewrite Z.pow_succ_r by lia. ring.
Qed.

Lemma horner_app base acc a b : horner base acc (a ++ b) = horner base (horner base acc a) b.
Proof. unfold horner. apply fold_left_app. Qed.

Lemma dval_nonneg base c : 0 <= dval base c.
Proof.
  unfold dval, digit_in, digit_of. destruct (_ && _) eqn:A.
  - destruct (_ <? base); [|lia]. apply andb_prop in A. lia.
  - destruct (_ && _) eqn:B; [|lia]. destruct (_ <? base); [|lia]. apply andb_prop in B. lia.
Qed.

Lemma horner_nonneg base acc ds : 0 <= base -> 0 <= acc -> 0 <= horner base acc ds.
Proof.
  intros Hb. revert acc. induction ds as [|c t IH]; intros acc Ha; simpl; [exact Ha|].
  apply IH. pose proof (dval_nonneg base c). nia.
Qed.

Lemma Zlen_nonneg s : 0 <= Zlen s.
Proof. unfold Zlen. lia. Qed.

Lemma Zlen_app a b : Zlen (a ++ b) = Zlen a + Zlen b.
Proof. unfold Zlen. rewrite app_length. lia. Qed.
