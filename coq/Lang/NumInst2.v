(* The number instance of the FPyLang evaluator built on the PROVED number model:
   Num/Ctx.v (`ctx_round`, all ten context families) and Num/Arith.v (`arith`:
   the exact result of + - * / fma sqrt neg fabs copysign fdim floor ceil trunc
   roundint fmod remainder mod nearbyint, rounded ONCE under the context;
   theorems in Props/C01.v / C02.v).  Definitions only.

   - dyadic operands (NF): the operation IS `Num.Arith.arith` (lemma
     `lead_binop_is_arith` etc. in Props/C04.v);
   - a non-dyadic rational operand (NQ: a literal such as 0.1, a Fraction
     argument, an exact REAL quotient): fpy2 serves + - * / fma neg fabs copysign
     floor ceil trunc roundint from RealEngine (exact rational arithmetic) and then
     rounds once; the exact value is computed here with the rational arithmetic of
     NumInst.v and rounded by `Num.Arith.round_xv` (round-to-odd `rto_of_q`, then
     `ctx_round`).  sqrt / fdim / fmod / remainder / mod have no engine for a
     Fraction operand or for the REAL context: NotImplementedError = OtherErr;
   - elementary functions, constants, pow, hypot, atan2, logb, round_at: not
     modelled (OtherErr) — C03's domain. *)
From Coq Require Import ZArith List Bool String.
From FpyV Require Import Num.RealFloat Num.Float Num.CtxDef Num.Ctx Num.Arith
  Lang.Syntax Lang.Values Lang.Sem Lang.NumInst.
Import ListNotations.
Open Scope Z_scope.

(* ---------------------------------------------------------------- num <-> xv *)
Definition num_of_xv (v : xv) : num :=
  match v with XFl x => NF x | XQ s n d => NQ (if s then - n else n) d end.

Definition xv_of_num (x : num) : xv :=
  match x with NF f => XFl f | NQ n d => XQ (n <? 0) (Z.abs n) d end.

Definition aop_of (o : op) : option aop :=
  match o with
  | OAdd => Some AAdd | OSub => Some ASub | OMul => Some AMul | ODiv => Some ADiv
  | OFma => Some AFma | OSqrt => Some ASqrt | ONeg => Some ANeg | OFabs => Some AFabs
  | OCopysign => Some ACopysign | OFdim => Some AFdim
  | OFloor => Some AFloor | OCeil => Some ACeil | OTrunc => Some ATrunc | ORoundInt => Some ARoundint
  | OFmod => Some AFmod | ORemainder => Some ARemainder | OMod => Some AMod
  | ONearbyInt => Some ANearbyint
  | _ => None
  end.

(* operations that only the MPFR engine serves: no REAL context, no Fraction operand *)
Definition mpfr_only (a : aop) : bool :=
  match a with ASqrt | AFdim | AFmod | ARemainder | AMod => true | _ => false end.

Definition is_real_ctx (c : ctx) : bool := match c with CReal => true | _ => false end.

(* `arith` on dyadic operands *)
Definition arith_num (a : aop) (c : ctx) (args : list fl) : result num :=
  if mpfr_only a && is_real_ctx c then Err OtherErr
  else bind (arith a c args) (fun r => Ok (num_of_xv (fst r))).

(* C(x): one rounding of an exact value (Context.round / ops._normalize) *)
Definition lead_round (c : ctx) (x : num) : result num :=
  bind (round_xv c (xv_of_num x)) (fun r => Ok (num_of_xv (fst r))).

(* the exact value of an operation with a rational operand (RealEngine) *)
Definition exact_q1 (a : aop) (x : num) : result num :=
  match a with
  | ANeg => Ok (num_neg x)
  | AFabs => Ok (num_abs x)
  | AFloor => num_rint RTN x
  | ACeil => num_rint RTP x
  | ATrunc => num_rint RTZ x
  | ARoundint => num_rint RNA x
  | _ => Err OtherErr
  end.

Definition exact_q2 (a : aop) (x y : num) : result num :=
  match a with
  | AAdd => Ok (num_add x y)
  | ASub => Ok (num_sub x y)
  | AMul => Ok (num_mul x y)
  | ADiv => Ok (num_div x y)
  | ACopysign => Ok (num_copysign x y)
  | _ => Err OtherErr
  end.

(* Context.round_integer of a rational: a round-to-odd stand-in fine enough for
   the integer position and for the context's own precision, then ONE rounding *)
Definition nearbyint_q (c : ctx) (n d : Z) : result num :=
  let '(mp, mn) := ctx_round_params c in
  let k := 4 + (match mp with Some p => Z.max p 0 | None => 0 end)
             + (match mn with Some m => Z.max (- m) 0 | None => 0 end) + bitlen d in
  bind (ctx_round c (FFin (sticky_approx n d k)) (Some (-1)) 0) (fun r => Ok (NF (fst r))).

Definition lead_unop (o : op) (c : ctx) (x : num) : result num :=
  match o with
  | ORound => lead_round c x
  | OCast =>
      match c with
      | CReal => Ok x
      | _ => bind (lead_round c x) (fun r =>
               if num_isnan x then Ok r
               else match num_compare r x with Some Eq => Ok r | _ => Err ValueErr end)
      end
  | _ =>
    match aop_of o with
    | None => Err OtherErr
    | Some a =>
        match x with
        | NF f => arith_num a c [f]
        | NQ n d =>
            match a with
            | ANearbyint => match c with CReal => Err OtherErr | _ => nearbyint_q c n d end
            | _ => bind (exact_q1 a x) (lead_round c)
            end
        end
    end
  end.

Definition lead_binop (o : op) (c : ctx) (x y : num) : result num :=
  match aop_of o with
  | None => Err OtherErr
  | Some a =>
      match x, y with
      | NF f, NF g => arith_num a c [f; g]
      | _, _ => bind (exact_q2 a x y) (lead_round c)
      end
  end.

Definition lead_ternop (o : op) (c : ctx) (x y z : num) : result num :=
  match o with
  | OFma =>
      match x, y, z with
      | NF f, NF g, NF h => arith_num AFma c [f; g; h]
      | _, _, _ => lead_round c (num_add (num_mul x y) z)
      end
  | _ => Err OtherErr
  end.

(* ---------------------------------------------------------------- context constructors *)
Definition lead_ctor (k : ctor) (args : list num) : result ctx :=
  match k, args with
  | KMPFixed rm, [nmin] =>
      bind (ctor_int nmin) (fun nmin => Ok (CMPFixed nmin rm (Some 0) (SP false false None None) true))
  | KFixed signed rm ov, [scale; nbits] =>
      bind (ctor_int scale) (fun scale => bind (ctor_int nbits) (fun nbits =>
        if (if signed then nbits <? 2 else nbits <? 1) then Err ValueErr
        else Ok (CFixed signed scale nbits rm ov (Some 0) None None)))
  | KSMFixed rm ov, [scale; nbits] =>
      bind (ctor_int scale) (fun scale => bind (ctor_int nbits) (fun nbits =>
        if nbits <? 2 then Err OtherErr      (* degenerate sizes: not modelled *)
        else Ok (CSMFixed scale nbits rm ov (Some 0) None None)))
  | KMPFixed _, _ | KFixed _ _ _, _ | KSMFixed _ _, _ => Err TypeErr
  | _, _ => ctor_prov k args
  end.

Definition lead_numops : numops :=
  NumOps lead_round nullop_prov lead_unop lead_binop lead_ternop pred_prov num_compare lead_ctor.
