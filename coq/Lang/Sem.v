(* FPyLang: the documented semantics (docs/source/dev/semantics.rst, rules
   E-Val ... E-Context, and the desugarings of derived-semantics.rst) as a
   fuel-indexed big-step evaluator.  Definitions only.

     eval  n s mu C e  : res (value * store)        <s, mu, C, e> ⇓ v
     exec  n s mu C st : res (outcome * store)      <s, mu, C, st> ⇓S o ; mu'
     run   n P f args caller_ctx : res cval         Function.__call__(args..., ctx=...)

   The ACTIVE ROUNDING CONTEXT `C` is a parameter of the judgement: a `with`
   block passes a different one to its body and nothing else (E-Context), so
   the context is lexically scoped by construction (SemProps.v states it).

   Number arithmetic is abstract: the evaluator is parameterised by a record
   `numops` (rounding + the exact operations); Num/Arith.v provides the real
   instance, Lang/NumInst.v a provisional executable one.

   Every function is `match fuel with O => RFuel | S n' => <non-recursive body
   that calls the others with n'>`, which makes fuel-monotonicity uniform.
   Errors are values (`RErr e`, e the Python exception class); a stuck
   configuration of the documented semantics is an error here.
   Well-typedness is assumed where Python would fall back on truthiness /
   duck typing (e.g. iterating a tuple): those cases are `TypeErr` here. *)
From Coq Require Import ZArith List Bool String.
From FpyV Require Import Num.RealFloat Num.Float Num.CtxDef Lang.Syntax Lang.Values.
Import ListNotations.
Open Scope Z_scope.

(* ---------------------------------------------------------------- results *)
Inductive res (A : Type) := ROk (a : A) | RErr (e : err) | RFuel.
Arguments ROk {A} a.
Arguments RErr {A} e.
Arguments RFuel {A}.

Definition rbind {A B} (r : res A) (f : A -> res B) : res B :=
  match r with ROk a => f a | RErr e => RErr e | RFuel => RFuel end.

Definition lift {A} (r : result A) : res A :=
  match r with Ok a => ROk a | Err e => RErr e end.

Notation "'let*' p ':=' c1 'in' c2" := (rbind c1 (fun p => c2))
  (at level 61, p pattern, c1 at next level, right associativity).

(* ---------------------------------------------------------------- numbers, abstractly *)
Record numops := NumOps {
  (* C(x): the rounding operation of the context (fp.round) *)
  n_round : ctx -> num -> result num;
  (* rounded operators: the exact operation, rounded once under the context *)
  n_nullop : op -> ctx -> result num;
  n_unop : op -> ctx -> num -> result num;
  n_binop : op -> ctx -> num -> num -> result num;
  n_ternop : op -> ctx -> num -> num -> num -> result num;
  (* exact predicates *)
  n_pred : pred -> num -> bool;
  (* ordering; None = unordered *)
  n_cmp : num -> num -> option comparison;
  (* context constructors: argument conversion (_cvt_context_arg) + the class's own validation *)
  n_ctor : ctor -> list num -> result ctx }.

Inductive outcome := ONormal (s : env) | OReturn (v : value).

(* ---------------------------------------------------------------- helpers (no recursion on fuel) *)
Definition as_num (v : value) : res num :=
  match v with VNum x => ROk x | _ => RErr TypeErr end.

Definition as_bool (v : value) : res bool :=
  match v with VBool b => ROk b | _ => RErr TypeErr end.

Definition as_list (mu : store) (v : value) : res (loc * list value) :=
  match v with
  | VList l => match store_get mu l with Some vs => ROk (l, vs) | None => RErr OtherErr end
  | _ => RErr TypeErr
  end.

Fixpoint as_nums (vs : list value) : res (list num) :=
  match vs with
  | [] => ROk []
  | v :: r => let* x := as_num v in let* xs := as_nums r in ROk (x :: xs)
  end.

(* byte._cvt_int: a real, integer-valued *)
Definition cvt_int (v : value) : res Z :=
  match v with
  | VNum x => match num_to_Z x with Some z => ROk z | None => RErr TypeErr end
  | _ => RErr TypeErr
  end.

(* byte._cvt_index: negative indices are rejected *)
Definition cvt_index (v : value) : res nat :=
  let* z := cvt_int v in
  if z <? 0 then RErr IndexErr else ROk (Z.to_nat z).

(* list[i] *)
Definition list_nth (vs : list value) (i : nat) : res value :=
  match nth_error vs i with Some v => ROk v | None => RErr IndexErr end.

(* byte._eval_list_slice after the operands are evaluated *)
Definition slice_bound (v : option value) (dflt : Z) : res Z :=
  match v with
  | None => ROk dflt
  | Some (VNum x) => match num_to_Z x with Some z => ROk z | None => RErr TypeErr end
  | Some _ => RErr TypeErr
  end.

Definition list_slice (vs : list value) (lo hi : option value) : res (list value) :=
  let n := Z.of_nat (List.length vs) in
  let* a := slice_bound lo 0 in
  let* b := slice_bound hi n in
  if a <? 0 then RErr IndexErr
  else if b >? n then RErr IndexErr
  else if a >? b then RErr IndexErr
  else ROk (firstn (Z.to_nat (b - a)) (skipn (Z.to_nat a) vs)).

(* byte._eval_range after the operands are evaluated *)
Definition range_arg (v : value) : res Z :=
  match v with
  | VNum x => match num_to_Z x with Some z => ROk z | None => RErr ValueErr end
  | _ => RErr TypeErr
  end.

Definition range_count (start stop step : Z) : Z :=
  if step >? 0 then (if start <? stop then (stop - start + step - 1) / step else 0)
  else (if stop <? start then (start - stop + (- step) - 1) / (- step) else 0).

Definition range_list (start stop step : Z) : res (list value) :=
  if step =? 0 then RErr ValueErr
  else ROk (map (fun k => VNum (num_of_Z (start + Z.of_nat k * step)))
                (seq 0 (Z.to_nat (range_count start stop step)))).

(* byte._eval_enumerate *)
Definition enumerate_list (vs : list value) : list value :=
  map (fun iv => VTuple [VNum (num_of_Z (Z.of_nat (fst iv))); snd iv])
      (combine (seq 0 (List.length vs)) vs).

(* list(zip(ls..., strict=True)) on lists of equal length *)
Fixpoint transpose (k : nat) (ls : list (list value)) : list value :=
  match k with
  | O => []
  | S k' =>
      VTuple (map (fun l => match l with x :: _ => x | [] => VUninit end) ls)
      :: transpose k' (map (fun l => match l with _ :: r => r | [] => [] end) ls)
  end.

Definition zip_lists (ls : list (list value)) : res (list value) :=
  match ls with
  | [] => ROk []
  | l0 :: r =>
      let n := List.length l0 in
      if forallb (fun l => Nat.eqb (List.length l) n) r then ROk (transpose n ls)
      else RErr ValueErr
  end.

(* ops.empty / ops._empty *)
Definition empty_dim (v : value) : res nat :=
  match v with
  | VNum (NF f) =>
      match fl_to_int f with
      | Ok z => if z <? 0 then RErr ValueErr else ROk (Z.to_nat z)
      | Err _ => RErr ValueErr
      end
  | VNum (NQ _ _) => RErr ValueErr
  | _ => RErr TypeErr
  end.

Fixpoint empty_dims (vs : list value) : res (list nat) :=
  match vs with
  | [] => ROk []
  | v :: r => let* d := empty_dim v in let* ds := empty_dims r in ROk (d :: ds)
  end.

Fixpoint mk_empty (dims : list nat) (mu : store) : value * store :=
  match dims with
  | [] => (VUninit, mu)
  | d :: rest =>
      let '(vs, mu') :=
        (fix rep (k : nat) (mu : store) : list value * store :=
           match k with
           | O => ([], mu)
           | S k' =>
               let '(v, mu1) := mk_empty rest mu in
               let '(vs, mu2) := rep k' mu1 in
               (v :: vs, mu2)
           end) d mu in
      let '(l, mu'') := alloc mu' vs in
      (VList l, mu'')
  end.

(* M-Var / M-Tuple, with Python's left-to-right rebinding for repeated names *)
Fixpoint bind_pat (p : pat) (v : value) (s : env) : result env :=
  match p with
  | PVar x => Ok (env_set s x v)
  | PWild => Ok s
  | PTuple ps =>
      match v with
      | VTuple vs =>
          if negb (Nat.eqb (List.length ps) (List.length vs)) then Err ValueErr
          else
            (fix go (ps : list pat) (vs : list value) (s : env) : result env :=
               match ps, vs with
               | p :: ps', v :: vs' => bind (bind_pat p v s) (fun s' => go ps' vs' s')
               | _, _ => Ok s
               end) ps vs s
      | _ => Err TypeErr
      end
  end.

Fixpoint bind_params (xs : list ident) (vs : list value) (s : env) : result env :=
  match xs, vs with
  | [], [] => Ok s
  | x :: xs', v :: vs' => bind_params xs' vs' (env_set s x v)
  | _, _ => Err TypeErr
  end.

Definition is_ordering (o : cmpop) : bool :=
  match o with CEq | CNe => false | _ => true end.

Section WithNumOps.
Variable N : numops.

(* one ordering test on numbers (E-Lt): unordered is false *)
Definition cmp_test (o : cmpop) (x y : num) : bool :=
  match o, n_cmp N x y with
  | CLt, Some Lt => true
  | CLe, Some Lt | CLe, Some Eq => true
  | CGt, Some Gt => true
  | CGe, Some Gt | CGe, Some Eq => true
  | CEq, Some Eq => true
  | CNe, Some Eq => false
  | CNe, _ => true
  | _, _ => false
  end.

(* byte._eval_eq: structural, NaN <> NaN also inside containers, operands of
   different kinds rejected; fuel bounds the depth of (possibly cyclic) lists *)
Fixpoint eq_lists (veq : value -> value -> res bool) (l m : list value) : res bool :=
  match l, m with
  | x :: l', y :: m' =>
      let* e := veq x y in
      if e then eq_lists veq l' m' else ROk false
  | _, _ => ROk true
  end.

Definition value_eq_body (veq : value -> value -> res bool) (mu : store) (a b : value) : res bool :=
  match a, b with
  | VTuple l, VTuple m =>
      if Nat.eqb (List.length l) (List.length m) then eq_lists veq l m else ROk false
  | VList la, VList lb =>
      match store_get mu la, store_get mu lb with
      | Some l, Some m =>
          if Nat.eqb (List.length l) (List.length m) then eq_lists veq l m else ROk false
      | _, _ => RErr OtherErr
      end
  | VBool x, VBool y => ROk (Bool.eqb x y)
  | VCtx x, VCtx y => ROk (ctx_eqb x y)
  | VNum x, VNum y => ROk (cmp_test CEq x y)
  | _, _ => RErr TypeErr
  end.

Fixpoint value_eq (n : nat) (mu : store) (a b : value) : res bool :=
  match n with
  | O => RFuel
  | S n' => value_eq_body (value_eq n' mu) mu a b
  end.

(* byte._unchecked_min / _unchecked_max on a non-empty list of numbers:
   any NaN propagates (the first one); otherwise a left fold that breaks the
   +-0 tie by sign (min prefers -0, max prefers +0) *)
Definition first_nan (xs : list num) : option num := find num_isnan xs.

Definition min_step (acc x : num) : num :=
  if cmp_test CLt x acc then x
  else if cmp_test CEq x acc && num_sign x && negb (num_sign acc) then x
  else acc.

Definition max_step (acc x : num) : num :=
  if cmp_test CGt x acc then x
  else if cmp_test CEq x acc && negb (num_sign x) && num_sign acc then x
  else acc.

Definition minmax (is_max : bool) (xs : list num) : res num :=
  match xs with
  | [] => RErr ValueErr
  | x0 :: r =>
      match first_nan xs with
      | Some nan => ROk nan
      | None => ROk (fold_left (if is_max then max_step else min_step) r x0)
      end
  end.

(* byte._eval_sum: left fold with `+`, rounding each step; empty sum is exact 0 *)
Fixpoint sum_from (C : ctx) (acc : num) (vs : list value) : res num :=
  match vs with
  | [] => ROk acc
  | v :: r =>
      let* x := as_num v in
      let* acc' := lift (n_binop N OAdd C acc x) in
      sum_from C acc' r
  end.

Definition sum_list (C : ctx) (vs : list value) : res num :=
  match vs with
  | [] => ROk num_zero
  | v :: r => let* x := as_num v in sum_from C x r
  end.

(* byte._check_bool_list + any/all *)
Fixpoint as_bools (vs : list value) : res (list bool) :=
  match vs with
  | [] => ROk []
  | v :: r => let* b := as_bool v in let* bs := as_bools r in ROk (b :: bs)
  end.

(* ops.dim: nesting depth along first elements *)
Definition dim_of_body (dimf : value -> res Z) (mu : store) (v : value) : res Z :=
  match v with
  | VList l =>
      match store_get mu l with
      | Some [] => ROk 1
      | Some (x :: _) => let* d := dimf x in ROk (d + 1)
      | None => RErr OtherErr
      end
  | _ => ROk 0
  end.

Fixpoint dim_of (n : nat) (mu : store) (v : value) : res Z :=
  match n with
  | O => RFuel
  | S n' => dim_of_body (dim_of n' mu) mu v
  end.

(* ops.size: descend k times along first elements, then len *)
Fixpoint size_of (k : nat) (mu : store) (v : value) : res Z :=
  match v with
  | VList l =>
      match store_get mu l with
      | Some vs =>
          match k with
          | O => ROk (Z.of_nat (List.length vs))
          | S k' => match vs with x :: _ => size_of k' mu x | [] => RErr IndexErr end
          end
      | None => RErr OtherErr
      end
  | _ => RErr TypeErr
  end.

Section WithProgram.
Variable P : program.

(* ================================================================ the evaluator *)
(* One unfolding of every judgement, with the recursive calls abstracted as
   "oracles" (the same functions at the previous fuel).  The evaluator proper
   (below) ties the knot on the fuel; SemMono.v proves each body monotone in
   its oracles. *)
Definition eval_body 
    (ev : env -> store -> ctx -> expr -> res (value * store)) (evs : env -> store -> ctx -> (list expr) -> res (list value * store)) (evo : env -> store -> ctx -> (option expr) -> res (option value * store)) (cmpc : env -> store -> ctx -> value -> (list cmpop) -> (list expr) -> res (value * store)) (boolc : env -> store -> ctx -> bool -> (list expr) -> res (value * store)) (cmpr : env -> store -> ctx -> (list (pat * expr)) -> expr -> res (list value * store)) (cmpl : env -> store -> ctx -> pat -> loc -> nat -> (list (pat * expr)) -> expr -> res (list value * store)) (cal : func -> (list value) -> store -> ctx -> res (value * store)) (ex : env -> store -> ctx -> stmt -> res (outcome * store)) (exb : env -> store -> ctx -> block -> res (outcome * store)) (forl : env -> store -> ctx -> pat -> loc -> nat -> block -> res (outcome * store)) (idxw : env -> store -> ctx -> value -> (list expr) -> value -> res store) (veq : store -> value -> value -> res bool) (dimf : store -> value -> res Z)
    (s : env) (mu : store) (C : ctx) (e : expr) : res (value * store) :=
    match e with
    (* E-Var *)
    | EVar x => match env_get s x with Some v => ROk (v, mu) | None => RErr NameErr end
    (* E-Val: literals denote exactly; nothing rounds *)
    | ENum v => ROk (VNum (NF v), mu)
    | ERat p q => if q =? 0 then RErr ValueErr else ROk (VNum (num_of_frac p q), mu)
    | EBool b => ROk (VBool b, mu)
    | ECtxVal c => ROk (VCtx c, mu)
    (* E-Op: operands evaluated left to right, the exact result rounded once under C *)
    | EOp0 o => let* r := lift (n_nullop N o C) in ROk (VNum r, mu)
    | EOp1 o a =>
        let* (va, mu1) := ev s mu C a in
        let* x := as_num va in
        let* r := lift (n_unop N o C x) in ROk (VNum r, mu1)
    | EOp2 o a b =>
        let* (va, mu1) := ev s mu C a in
        let* (vb, mu2) := ev s mu1 C b in
        let* x := as_num va in
        let* y := as_num vb in
        let* r := lift (n_binop N o C x y) in ROk (VNum r, mu2)
    | EOp3 o a b c =>
        let* (va, mu1) := ev s mu C a in
        let* (vb, mu2) := ev s mu1 C b in
        let* (vc, mu3) := ev s mu2 C c in
        let* x := as_num va in
        let* y := as_num vb in
        let* z := as_num vc in
        let* r := lift (n_ternop N o C x y z) in ROk (VNum r, mu3)
    (* E-Pred *)
    | EPred p a =>
        let* (va, mu1) := ev s mu C a in
        let* x := as_num va in ROk (VBool (n_pred N p x), mu1)
    (* Compare: conjunction of adjacent pairwise tests, each operand evaluated at most once *)
    | ECompare ops args =>
        match args with
        | [] => RErr OtherErr
        | a :: rest =>
            let* (va, mu1) := ev s mu C a in
            cmpc s mu1 C va ops rest
        end
    (* And / Or: short-circuit, left to right *)
    | EAnd args => boolc s mu C true args
    | EOr args => boolc s mu C false args
    | ENot a =>
        let* (va, mu1) := ev s mu C a in
        let* b := as_bool va in ROk (VBool (negb b), mu1)
    (* IfExpr: only the selected branch runs *)
    | EIf c a b =>
        let* (vc, mu1) := ev s mu C c in
        let* t := as_bool vc in
        if t then ev s mu1 C a else ev s mu1 C b
    (* E-Tuple *)
    | ETuple es => let* (vs, mu1) := evs s mu C es in ROk (VTuple vs, mu1)
    | EFst a =>
        let* (va, mu1) := ev s mu C a in
        match va with
        | VTuple [x; _] => ROk (x, mu1)
        | VTuple _ => RErr ValueErr
        | _ => RErr TypeErr
        end
    | ESnd a =>
        let* (va, mu1) := ev s mu C a in
        match va with
        | VTuple [_; y] => ROk (y, mu1)
        | VTuple _ => RErr ValueErr
        | _ => RErr TypeErr
        end
    (* E-List (+ E-Ref per element): a fresh list *)
    | EList es =>
        let* (vs, mu1) := evs s mu C es in
        let '(l, mu2) := alloc mu1 vs in ROk (VList l, mu2)
    (* E-Index, E-Deref: strict index *)
    | ERef a i =>
        let* (va, mu1) := ev s mu C a in
        let* (vi, mu2) := ev s mu1 C i in
        let* k := cvt_index vi in
        let* (_, vs) := as_list mu2 va in
        let* v := list_nth vs k in ROk (v, mu2)
    (* ListSlice: exactly stop - start elements, fresh cells *)
    | ESlice a lo hi =>
        let* (va, mu1) := ev s mu C a in
        let* (vlo, mu2) := evo s mu1 C lo in
        let* (vhi, mu3) := evo s mu2 C hi in
        let* (_, vs) := as_list mu3 va in
        let* r := list_slice vs vlo vhi in
        let '(l, mu4) := alloc mu3 r in ROk (VList l, mu4)
    (* ListComp: k generators = k nested loops; targets are local *)
    | EComp gens elt =>
        let* (vs, mu1) := cmpr s mu C gens elt in
        let '(l, mu2) := alloc mu1 vs in ROk (VList l, mu2)
    | ELen a =>
        let* (va, mu1) := ev s mu C a in
        let* (_, vs) := as_list mu1 va in
        ROk (VNum (num_of_Z (Z.of_nat (List.length vs))), mu1)
    | ERange1 a =>
        let* (va, mu1) := ev s mu C a in
        let* stop := range_arg va in
        let* r := range_list 0 stop 1 in
        let '(l, mu2) := alloc mu1 r in ROk (VList l, mu2)
    | ERange2 a b =>
        let* (va, mu1) := ev s mu C a in
        let* (vb, mu2) := ev s mu1 C b in
        let* start := range_arg va in
        let* stop := range_arg vb in
        let* r := range_list start stop 1 in
        let '(l, mu3) := alloc mu2 r in ROk (VList l, mu3)
    | ERange3 a b c =>
        let* (va, mu1) := ev s mu C a in
        let* (vb, mu2) := ev s mu1 C b in
        let* (vc, mu3) := ev s mu2 C c in
        let* start := range_arg va in
        let* stop := range_arg vb in
        let* step := range_arg vc in
        let* r := range_list start stop step in
        let '(l, mu4) := alloc mu3 r in ROk (VList l, mu4)
    (* Zip: strict *)
    | EZip es =>
        let* (vs, mu1) := evs s mu C es in
        let* ls := (fix go (vs : list value) : res (list (list value)) :=
                      match vs with
                      | [] => ROk []
                      | v :: r => let* (_, l) := as_list mu1 v in let* ls := go r in ROk (l :: ls)
                      end) vs in
        let* r := zip_lists ls in
        let '(l, mu2) := alloc mu1 r in ROk (VList l, mu2)
    | EEnumerate a =>
        let* (va, mu1) := ev s mu C a in
        let* (_, vs) := as_list mu1 va in
        let '(l, mu2) := alloc mu1 (enumerate_list vs) in ROk (VList l, mu2)
    | EEmpty dims =>
        let* (vs, mu1) := evs s mu C dims in
        let* ds := empty_dims vs in
        match ds with
        | [] => RErr ValueErr
        | _ => ROk (mk_empty ds mu1)
        end
    | EDim a =>
        let* (va, mu1) := ev s mu C a in
        let* _ := as_list mu1 va in
        let* d := dimf mu1 va in
        let* r := lift (n_round N C (num_of_Z d)) in ROk (VNum r, mu1)
    | ESize a d =>
        let* (va, mu1) := ev s mu C a in
        let* (vd, mu2) := ev s mu1 C d in
        let* k := (match vd with
                   | VNum (NF f) => match fl_to_int f with Ok z => ROk z | Err _ => RErr ValueErr end
                   | VNum (NQ _ _) => RErr ValueErr
                   | _ => RErr TypeErr
                   end) in
        let* z := size_of (Z.to_nat k) mu2 va in
        let* r := lift (n_round N C (num_of_Z z)) in ROk (VNum r, mu2)
    (* reductions *)
    | ESum a =>
        let* (va, mu1) := ev s mu C a in
        let* (_, vs) := as_list mu1 va in
        let* r := sum_list C vs in ROk (VNum r, mu1)
    | EAMin a =>
        let* (va, mu1) := ev s mu C a in
        let* (_, vs) := as_list mu1 va in
        match vs with
        | [] => RErr ValueErr
        | _ => let* xs := as_nums vs in let* r := minmax false xs in ROk (VNum r, mu1)
        end
    | EAMax a =>
        let* (va, mu1) := ev s mu C a in
        let* (_, vs) := as_list mu1 va in
        match vs with
        | [] => RErr ValueErr
        | _ => let* xs := as_nums vs in let* r := minmax true xs in ROk (VNum r, mu1)
        end
    | EMin es =>
        let* (vs, mu1) := evs s mu C es in
        let* xs := as_nums vs in let* r := minmax false xs in ROk (VNum r, mu1)
    | EMax es =>
        let* (vs, mu1) := evs s mu C es in
        let* xs := as_nums vs in let* r := minmax true xs in ROk (VNum r, mu1)
    | EAny a =>
        let* (va, mu1) := ev s mu C a in
        let* (_, vs) := as_list mu1 va in
        let* bs := as_bools vs in ROk (VBool (existsb (fun b => b) bs), mu1)
    | EAll a =>
        let* (va, mu1) := ev s mu C a in
        let* (_, vs) := as_list mu1 va in
        let* bs := as_bools vs in ROk (VBool (forallb (fun b => b) bs), mu1)
    (* E-App: arguments are passed as they are (lists shared, nothing rounded);
       the callee runs under its declared context if it has one, else under C *)
    | ECall f args =>
        match lookup_fn P f with
        | None => RErr NameErr
        | Some fn =>
            let* (vs, mu1) := evs s mu C args in
            cal fn vs mu1 C
        end
    (* a context constructor: arguments evaluated under the ACTIVE context C
       (which is REAL when the constructor is the header of a `with`) *)
    | ECtor k args =>
        let* (vs, mu1) := evs s mu C args in
        let* xs := as_nums vs in
        let* c := lift (n_ctor N k xs) in ROk (VCtx c, mu1)
    end.

Definition evals_body 
    (ev : env -> store -> ctx -> expr -> res (value * store)) (evs : env -> store -> ctx -> (list expr) -> res (list value * store)) (evo : env -> store -> ctx -> (option expr) -> res (option value * store)) (cmpc : env -> store -> ctx -> value -> (list cmpop) -> (list expr) -> res (value * store)) (boolc : env -> store -> ctx -> bool -> (list expr) -> res (value * store)) (cmpr : env -> store -> ctx -> (list (pat * expr)) -> expr -> res (list value * store)) (cmpl : env -> store -> ctx -> pat -> loc -> nat -> (list (pat * expr)) -> expr -> res (list value * store)) (cal : func -> (list value) -> store -> ctx -> res (value * store)) (ex : env -> store -> ctx -> stmt -> res (outcome * store)) (exb : env -> store -> ctx -> block -> res (outcome * store)) (forl : env -> store -> ctx -> pat -> loc -> nat -> block -> res (outcome * store)) (idxw : env -> store -> ctx -> value -> (list expr) -> value -> res store) (veq : store -> value -> value -> res bool) (dimf : store -> value -> res Z)
    (s : env) (mu : store) (C : ctx) (es : list expr) : res (list value * store) :=
    match es with
    | [] => ROk ([], mu)
    | e :: r =>
        let* (v, mu1) := ev s mu C e in
        let* (vs, mu2) := evs s mu1 C r in
        ROk (v :: vs, mu2)
    end.

Definition eval_opt_body 
    (ev : env -> store -> ctx -> expr -> res (value * store)) (evs : env -> store -> ctx -> (list expr) -> res (list value * store)) (evo : env -> store -> ctx -> (option expr) -> res (option value * store)) (cmpc : env -> store -> ctx -> value -> (list cmpop) -> (list expr) -> res (value * store)) (boolc : env -> store -> ctx -> bool -> (list expr) -> res (value * store)) (cmpr : env -> store -> ctx -> (list (pat * expr)) -> expr -> res (list value * store)) (cmpl : env -> store -> ctx -> pat -> loc -> nat -> (list (pat * expr)) -> expr -> res (list value * store)) (cal : func -> (list value) -> store -> ctx -> res (value * store)) (ex : env -> store -> ctx -> stmt -> res (outcome * store)) (exb : env -> store -> ctx -> block -> res (outcome * store)) (forl : env -> store -> ctx -> pat -> loc -> nat -> block -> res (outcome * store)) (idxw : env -> store -> ctx -> value -> (list expr) -> value -> res store) (veq : store -> value -> value -> res bool) (dimf : store -> value -> res Z)
    (s : env) (mu : store) (C : ctx) (e : option expr) : res (option value * store) :=
    match e with
    | None => ROk (None, mu)
    | Some e => let* (v, mu1) := ev s mu C e in ROk (Some v, mu1)
    end.

(* `v` is the already evaluated left operand of the next test *)
Definition cmp_chain_body 
    (ev : env -> store -> ctx -> expr -> res (value * store)) (evs : env -> store -> ctx -> (list expr) -> res (list value * store)) (evo : env -> store -> ctx -> (option expr) -> res (option value * store)) (cmpc : env -> store -> ctx -> value -> (list cmpop) -> (list expr) -> res (value * store)) (boolc : env -> store -> ctx -> bool -> (list expr) -> res (value * store)) (cmpr : env -> store -> ctx -> (list (pat * expr)) -> expr -> res (list value * store)) (cmpl : env -> store -> ctx -> pat -> loc -> nat -> (list (pat * expr)) -> expr -> res (list value * store)) (cal : func -> (list value) -> store -> ctx -> res (value * store)) (ex : env -> store -> ctx -> stmt -> res (outcome * store)) (exb : env -> store -> ctx -> block -> res (outcome * store)) (forl : env -> store -> ctx -> pat -> loc -> nat -> block -> res (outcome * store)) (idxw : env -> store -> ctx -> value -> (list expr) -> value -> res store) (veq : store -> value -> value -> res bool) (dimf : store -> value -> res Z)
    (s : env) (mu : store) (C : ctx) (v : value) (ops : list cmpop) (args : list expr) : res (value * store) :=
    match ops, args with
    | [], [] => ROk (VBool true, mu)
    | o :: ops', e :: args' =>
        if is_ordering o then
          (* __fpy_ordered(lhs) is checked before the right operand is evaluated *)
          let* x := as_num v in
          let* (w, mu1) := ev s mu C e in
          let* y := as_num w in
          if cmp_test o x y then
            match ops' with
            | [] => ROk (VBool true, mu1)
            | _ => cmpc s mu1 C w ops' args'
            end
          else ROk (VBool false, mu1)
        else
          let* (w, mu1) := ev s mu C e in
          let* eq := veq mu1 v w in
          if (match o with CNe => negb eq | _ => eq end) then
            match ops' with
            | [] => ROk (VBool true, mu1)
            | _ => cmpc s mu1 C w ops' args'
            end
          else ROk (VBool false, mu1)
    | _, _ => RErr OtherErr
    end.

(* And (unit = true) / Or (unit = false) *)
Definition bool_chain_body 
    (ev : env -> store -> ctx -> expr -> res (value * store)) (evs : env -> store -> ctx -> (list expr) -> res (list value * store)) (evo : env -> store -> ctx -> (option expr) -> res (option value * store)) (cmpc : env -> store -> ctx -> value -> (list cmpop) -> (list expr) -> res (value * store)) (boolc : env -> store -> ctx -> bool -> (list expr) -> res (value * store)) (cmpr : env -> store -> ctx -> (list (pat * expr)) -> expr -> res (list value * store)) (cmpl : env -> store -> ctx -> pat -> loc -> nat -> (list (pat * expr)) -> expr -> res (list value * store)) (cal : func -> (list value) -> store -> ctx -> res (value * store)) (ex : env -> store -> ctx -> stmt -> res (outcome * store)) (exb : env -> store -> ctx -> block -> res (outcome * store)) (forl : env -> store -> ctx -> pat -> loc -> nat -> block -> res (outcome * store)) (idxw : env -> store -> ctx -> value -> (list expr) -> value -> res store) (veq : store -> value -> value -> res bool) (dimf : store -> value -> res Z)
    (s : env) (mu : store) (C : ctx) (unit : bool) (args : list expr) : res (value * store) :=
    match args with
    | [] => ROk (VBool unit, mu)
    | e :: r =>
        let* (v, mu1) := ev s mu C e in
        let* b := as_bool v in
        if Bool.eqb b unit then
          match r with
          | [] => ROk (VBool b, mu1)
          | _ => boolc s mu1 C unit r
          end
        else ROk (VBool b, mu1)
    end.

(* the values a comprehension produces, in order *)
Definition comp_body 
    (ev : env -> store -> ctx -> expr -> res (value * store)) (evs : env -> store -> ctx -> (list expr) -> res (list value * store)) (evo : env -> store -> ctx -> (option expr) -> res (option value * store)) (cmpc : env -> store -> ctx -> value -> (list cmpop) -> (list expr) -> res (value * store)) (boolc : env -> store -> ctx -> bool -> (list expr) -> res (value * store)) (cmpr : env -> store -> ctx -> (list (pat * expr)) -> expr -> res (list value * store)) (cmpl : env -> store -> ctx -> pat -> loc -> nat -> (list (pat * expr)) -> expr -> res (list value * store)) (cal : func -> (list value) -> store -> ctx -> res (value * store)) (ex : env -> store -> ctx -> stmt -> res (outcome * store)) (exb : env -> store -> ctx -> block -> res (outcome * store)) (forl : env -> store -> ctx -> pat -> loc -> nat -> block -> res (outcome * store)) (idxw : env -> store -> ctx -> value -> (list expr) -> value -> res store) (veq : store -> value -> value -> res bool) (dimf : store -> value -> res Z)
    (s : env) (mu : store) (C : ctx) (gens : list (pat * expr)) (elt : expr) : res (list value * store) :=
    match gens with
    | [] => let* (v, mu1) := ev s mu C elt in ROk ([v], mu1)
    | (p, it) :: gs =>
        let* (vi, mu1) := ev s mu C it in
        let* (l, _) := as_list mu1 vi in
        cmpl s mu1 C p l O gs elt
    end.

(* the iterated list is read live, element by element (as Python's list iterator does) *)
Definition comp_loop_body 
    (ev : env -> store -> ctx -> expr -> res (value * store)) (evs : env -> store -> ctx -> (list expr) -> res (list value * store)) (evo : env -> store -> ctx -> (option expr) -> res (option value * store)) (cmpc : env -> store -> ctx -> value -> (list cmpop) -> (list expr) -> res (value * store)) (boolc : env -> store -> ctx -> bool -> (list expr) -> res (value * store)) (cmpr : env -> store -> ctx -> (list (pat * expr)) -> expr -> res (list value * store)) (cmpl : env -> store -> ctx -> pat -> loc -> nat -> (list (pat * expr)) -> expr -> res (list value * store)) (cal : func -> (list value) -> store -> ctx -> res (value * store)) (ex : env -> store -> ctx -> stmt -> res (outcome * store)) (exb : env -> store -> ctx -> block -> res (outcome * store)) (forl : env -> store -> ctx -> pat -> loc -> nat -> block -> res (outcome * store)) (idxw : env -> store -> ctx -> value -> (list expr) -> value -> res store) (veq : store -> value -> value -> res bool) (dimf : store -> value -> res Z)
    (s : env) (mu : store) (C : ctx) (p : pat) (l : loc) (i : nat) (gs : list (pat * expr)) (elt : expr) : res (list value * store) :=
    match store_get mu l with
    | None => RErr OtherErr
    | Some vs =>
        match nth_error vs i with
        | None => ROk ([], mu)
        | Some x =>
            let* s' := lift (bind_pat p x s) in
            let* (r1, mu1) := cmpr s' mu C gs elt in
            let* (r2, mu2) := cmpl s' mu1 C p l (S i) gs elt in
            ROk (r1 ++ r2, mu2)
        end
    end.

(* a call of the FPy function `fn` on evaluated arguments, caller context C *)
Definition call_body 
    (ev : env -> store -> ctx -> expr -> res (value * store)) (evs : env -> store -> ctx -> (list expr) -> res (list value * store)) (evo : env -> store -> ctx -> (option expr) -> res (option value * store)) (cmpc : env -> store -> ctx -> value -> (list cmpop) -> (list expr) -> res (value * store)) (boolc : env -> store -> ctx -> bool -> (list expr) -> res (value * store)) (cmpr : env -> store -> ctx -> (list (pat * expr)) -> expr -> res (list value * store)) (cmpl : env -> store -> ctx -> pat -> loc -> nat -> (list (pat * expr)) -> expr -> res (list value * store)) (cal : func -> (list value) -> store -> ctx -> res (value * store)) (ex : env -> store -> ctx -> stmt -> res (outcome * store)) (exb : env -> store -> ctx -> block -> res (outcome * store)) (forl : env -> store -> ctx -> pat -> loc -> nat -> block -> res (outcome * store)) (idxw : env -> store -> ctx -> value -> (list expr) -> value -> res store) (veq : store -> value -> value -> res bool) (dimf : store -> value -> res Z)
    (fn : func) (vs : list value) (mu : store) (C : ctx) : res (value * store) :=
    let* s := lift (bind_params (f_params fn) vs []) in
    let C' := match f_ctx fn with Some c => c | None => C end in
    let* (o, mu1) := exb s mu C' (f_body fn) in
    match o with
    | OReturn v => ROk (v, mu1)
    | ONormal _ => RErr OtherErr          (* a body that completes normally is stuck *)
    end.

Definition exec_body 
    (ev : env -> store -> ctx -> expr -> res (value * store)) (evs : env -> store -> ctx -> (list expr) -> res (list value * store)) (evo : env -> store -> ctx -> (option expr) -> res (option value * store)) (cmpc : env -> store -> ctx -> value -> (list cmpop) -> (list expr) -> res (value * store)) (boolc : env -> store -> ctx -> bool -> (list expr) -> res (value * store)) (cmpr : env -> store -> ctx -> (list (pat * expr)) -> expr -> res (list value * store)) (cmpl : env -> store -> ctx -> pat -> loc -> nat -> (list (pat * expr)) -> expr -> res (list value * store)) (cal : func -> (list value) -> store -> ctx -> res (value * store)) (ex : env -> store -> ctx -> stmt -> res (outcome * store)) (exb : env -> store -> ctx -> block -> res (outcome * store)) (forl : env -> store -> ctx -> pat -> loc -> nat -> block -> res (outcome * store)) (idxw : env -> store -> ctx -> value -> (list expr) -> value -> res store) (veq : store -> value -> value -> res bool) (dimf : store -> value -> res Z)
    (s : env) (mu : store) (C : ctx) (st : stmt) : res (outcome * store) :=
    match st with
    (* E-Assign: copies nothing *)
    | SAssign p e =>
        let* (v, mu1) := ev s mu C e in
        let* s' := lift (bind_pat p v s) in
        ROk (ONormal s', mu1)
    (* E-Index + E-Update: the right-hand side first, then the indices *)
    | SIndexAssign x idx e =>
        let* (v, mu1) := ev s mu C e in
        match env_get s x with
        | None => RErr NameErr
        | Some cur => let* mu2 := idxw s mu1 C cur idx v in ROk (ONormal s, mu2)
        end
    | SIf1 c body =>
        let* (vc, mu1) := ev s mu C c in
        let* t := as_bool vc in
        if t then exb s mu1 C body else ROk (ONormal s, mu1)
    (* E-If-True / E-If-False *)
    | SIf c ift iff =>
        let* (vc, mu1) := ev s mu C c in
        let* t := as_bool vc in
        if t then exb s mu1 C ift else exb s mu1 C iff
    (* E-While-True / E-While-False *)
    | SWhile c body =>
        let* (vc, mu1) := ev s mu C c in
        let* t := as_bool vc in
        if t then
          let* (o, mu2) := exb s mu1 C body in
          match o with
          | OReturn v => ROk (OReturn v, mu2)
          | ONormal s' => ex s' mu2 C (SWhile c body)
          end
        else ROk (ONormal s, mu1)
    (* ForStmt: an index loop over the (live) list *)
    | SFor p it body =>
        let* (vi, mu1) := ev s mu C it in
        let* (l, _) := as_list mu1 vi in
        forl s mu1 C p l O body
    (* E-Context: the context expression is evaluated under REAL; the body runs
       under the new context C' with x bound to it; C itself is untouched *)
    | SContext x e body =>
        let* (vc, mu1) := ev s mu CReal e in
        match vc with
        | VCtx C' =>
            let s' := match x with Some x => env_set s x (VCtx C') | None => s end in
            exb s' mu1 C' body
        | _ => RErr TypeErr
        end
    (* E-Assert *)
    | SAssert e =>
        let* (v, mu1) := ev s mu C e in
        let* t := as_bool v in
        if t then ROk (ONormal s, mu1) else RErr AssertErr
    | SEffect e =>
        let* (_, mu1) := ev s mu C e in ROk (ONormal s, mu1)
    (* E-Ret *)
    | SReturn e =>
        let* (v, mu1) := ev s mu C e in ROk (OReturn v, mu1)
    (* E-Skip *)
    | SPass => ROk (ONormal s, mu)
    end.

(* E-Seq-Normal / E-Seq-Return *)
Definition exec_block_body 
    (ev : env -> store -> ctx -> expr -> res (value * store)) (evs : env -> store -> ctx -> (list expr) -> res (list value * store)) (evo : env -> store -> ctx -> (option expr) -> res (option value * store)) (cmpc : env -> store -> ctx -> value -> (list cmpop) -> (list expr) -> res (value * store)) (boolc : env -> store -> ctx -> bool -> (list expr) -> res (value * store)) (cmpr : env -> store -> ctx -> (list (pat * expr)) -> expr -> res (list value * store)) (cmpl : env -> store -> ctx -> pat -> loc -> nat -> (list (pat * expr)) -> expr -> res (list value * store)) (cal : func -> (list value) -> store -> ctx -> res (value * store)) (ex : env -> store -> ctx -> stmt -> res (outcome * store)) (exb : env -> store -> ctx -> block -> res (outcome * store)) (forl : env -> store -> ctx -> pat -> loc -> nat -> block -> res (outcome * store)) (idxw : env -> store -> ctx -> value -> (list expr) -> value -> res store) (veq : store -> value -> value -> res bool) (dimf : store -> value -> res Z)
    (s : env) (mu : store) (C : ctx) (b : block) : res (outcome * store) :=
    match b with
    | [] => ROk (ONormal s, mu)
    | st :: r =>
        let* (o, mu1) := ex s mu C st in
        match o with
        | OReturn v => ROk (OReturn v, mu1)
        | ONormal s' => exb s' mu1 C r
        end
    end.

Definition for_loop_body 
    (ev : env -> store -> ctx -> expr -> res (value * store)) (evs : env -> store -> ctx -> (list expr) -> res (list value * store)) (evo : env -> store -> ctx -> (option expr) -> res (option value * store)) (cmpc : env -> store -> ctx -> value -> (list cmpop) -> (list expr) -> res (value * store)) (boolc : env -> store -> ctx -> bool -> (list expr) -> res (value * store)) (cmpr : env -> store -> ctx -> (list (pat * expr)) -> expr -> res (list value * store)) (cmpl : env -> store -> ctx -> pat -> loc -> nat -> (list (pat * expr)) -> expr -> res (list value * store)) (cal : func -> (list value) -> store -> ctx -> res (value * store)) (ex : env -> store -> ctx -> stmt -> res (outcome * store)) (exb : env -> store -> ctx -> block -> res (outcome * store)) (forl : env -> store -> ctx -> pat -> loc -> nat -> block -> res (outcome * store)) (idxw : env -> store -> ctx -> value -> (list expr) -> value -> res store) (veq : store -> value -> value -> res bool) (dimf : store -> value -> res Z)
    (s : env) (mu : store) (C : ctx) (p : pat) (l : loc) (i : nat) (body : block) : res (outcome * store) :=
    match store_get mu l with
    | None => RErr OtherErr
    | Some vs =>
        match nth_error vs i with
        | None => ROk (ONormal s, mu)
        | Some x =>
            let* s1 := lift (bind_pat p x s) in
            let* (o, mu1) := exb s1 mu C body in
            match o with
            | OReturn v => ROk (OReturn v, mu1)
            | ONormal s2 => forl s2 mu1 C p l (S i) body
            end
        end
    end.

(* xs[i1]...[ik] = v: load along all indices but the last, store at the last *)
Definition index_walk_body 
    (ev : env -> store -> ctx -> expr -> res (value * store)) (evs : env -> store -> ctx -> (list expr) -> res (list value * store)) (evo : env -> store -> ctx -> (option expr) -> res (option value * store)) (cmpc : env -> store -> ctx -> value -> (list cmpop) -> (list expr) -> res (value * store)) (boolc : env -> store -> ctx -> bool -> (list expr) -> res (value * store)) (cmpr : env -> store -> ctx -> (list (pat * expr)) -> expr -> res (list value * store)) (cmpl : env -> store -> ctx -> pat -> loc -> nat -> (list (pat * expr)) -> expr -> res (list value * store)) (cal : func -> (list value) -> store -> ctx -> res (value * store)) (ex : env -> store -> ctx -> stmt -> res (outcome * store)) (exb : env -> store -> ctx -> block -> res (outcome * store)) (forl : env -> store -> ctx -> pat -> loc -> nat -> block -> res (outcome * store)) (idxw : env -> store -> ctx -> value -> (list expr) -> value -> res store) (veq : store -> value -> value -> res bool) (dimf : store -> value -> res Z)
    (s : env) (mu : store) (C : ctx) (cur : value) (idx : list expr) (v : value) : res store :=
    match idx with
    | [] => RErr OtherErr
    | [i] =>
        let* (vi, mu1) := ev s mu C i in
        let* k := cvt_index vi in
        let* (l, vs) := as_list mu1 cur in
        if Nat.ltb k (List.length vs) then ROk (store_set mu1 l k v) else RErr IndexErr
    | i :: rest =>
        let* (vi, mu1) := ev s mu C i in
        let* k := cvt_index vi in
        let* (_, vs) := as_list mu1 cur in
        let* nxt := list_nth vs k in
        idxw s mu1 C nxt rest v
    end.


Fixpoint eval (n : nat) (s : env) (mu : store) (C : ctx) (e : expr) {struct n} : res (value * store) :=
  match n with
  | O => RFuel
  | S n' => eval_body (eval n') (evals n') (eval_opt n') (cmp_chain n') (bool_chain n') (comp n') (comp_loop n') (call n') (exec n') (exec_block n') (for_loop n') (index_walk n') (value_eq n') (dim_of n') s mu C e
  end
with evals (n : nat) (s : env) (mu : store) (C : ctx) (es : list expr) {struct n} : res (list value * store) :=
  match n with
  | O => RFuel
  | S n' => evals_body (eval n') (evals n') (eval_opt n') (cmp_chain n') (bool_chain n') (comp n') (comp_loop n') (call n') (exec n') (exec_block n') (for_loop n') (index_walk n') (value_eq n') (dim_of n') s mu C es
  end
with eval_opt (n : nat) (s : env) (mu : store) (C : ctx) (e : option expr) {struct n} : res (option value * store) :=
  match n with
  | O => RFuel
  | S n' => eval_opt_body (eval n') (evals n') (eval_opt n') (cmp_chain n') (bool_chain n') (comp n') (comp_loop n') (call n') (exec n') (exec_block n') (for_loop n') (index_walk n') (value_eq n') (dim_of n') s mu C e
  end
with cmp_chain (n : nat) (s : env) (mu : store) (C : ctx) (v : value) (ops : list cmpop) (args : list expr) {struct n} : res (value * store) :=
  match n with
  | O => RFuel
  | S n' => cmp_chain_body (eval n') (evals n') (eval_opt n') (cmp_chain n') (bool_chain n') (comp n') (comp_loop n') (call n') (exec n') (exec_block n') (for_loop n') (index_walk n') (value_eq n') (dim_of n') s mu C v ops args
  end
with bool_chain (n : nat) (s : env) (mu : store) (C : ctx) (unit : bool) (args : list expr) {struct n} : res (value * store) :=
  match n with
  | O => RFuel
  | S n' => bool_chain_body (eval n') (evals n') (eval_opt n') (cmp_chain n') (bool_chain n') (comp n') (comp_loop n') (call n') (exec n') (exec_block n') (for_loop n') (index_walk n') (value_eq n') (dim_of n') s mu C unit args
  end
with comp (n : nat) (s : env) (mu : store) (C : ctx) (gens : list (pat * expr)) (elt : expr) {struct n} : res (list value * store) :=
  match n with
  | O => RFuel
  | S n' => comp_body (eval n') (evals n') (eval_opt n') (cmp_chain n') (bool_chain n') (comp n') (comp_loop n') (call n') (exec n') (exec_block n') (for_loop n') (index_walk n') (value_eq n') (dim_of n') s mu C gens elt
  end
with comp_loop (n : nat) (s : env) (mu : store) (C : ctx) (p : pat) (l : loc) (i : nat) (gs : list (pat * expr)) (elt : expr) {struct n} : res (list value * store) :=
  match n with
  | O => RFuel
  | S n' => comp_loop_body (eval n') (evals n') (eval_opt n') (cmp_chain n') (bool_chain n') (comp n') (comp_loop n') (call n') (exec n') (exec_block n') (for_loop n') (index_walk n') (value_eq n') (dim_of n') s mu C p l i gs elt
  end
with call (n : nat) (fn : func) (vs : list value) (mu : store) (C : ctx) {struct n} : res (value * store) :=
  match n with
  | O => RFuel
  | S n' => call_body (eval n') (evals n') (eval_opt n') (cmp_chain n') (bool_chain n') (comp n') (comp_loop n') (call n') (exec n') (exec_block n') (for_loop n') (index_walk n') (value_eq n') (dim_of n') fn vs mu C
  end
with exec (n : nat) (s : env) (mu : store) (C : ctx) (st : stmt) {struct n} : res (outcome * store) :=
  match n with
  | O => RFuel
  | S n' => exec_body (eval n') (evals n') (eval_opt n') (cmp_chain n') (bool_chain n') (comp n') (comp_loop n') (call n') (exec n') (exec_block n') (for_loop n') (index_walk n') (value_eq n') (dim_of n') s mu C st
  end
with exec_block (n : nat) (s : env) (mu : store) (C : ctx) (b : block) {struct n} : res (outcome * store) :=
  match n with
  | O => RFuel
  | S n' => exec_block_body (eval n') (evals n') (eval_opt n') (cmp_chain n') (bool_chain n') (comp n') (comp_loop n') (call n') (exec n') (exec_block n') (for_loop n') (index_walk n') (value_eq n') (dim_of n') s mu C b
  end
with for_loop (n : nat) (s : env) (mu : store) (C : ctx) (p : pat) (l : loc) (i : nat) (body : block) {struct n} : res (outcome * store) :=
  match n with
  | O => RFuel
  | S n' => for_loop_body (eval n') (evals n') (eval_opt n') (cmp_chain n') (bool_chain n') (comp n') (comp_loop n') (call n') (exec n') (exec_block n') (for_loop n') (index_walk n') (value_eq n') (dim_of n') s mu C p l i body
  end
with index_walk (n : nat) (s : env) (mu : store) (C : ctx) (cur : value) (idx : list expr) (v : value) {struct n} : res store :=
  match n with
  | O => RFuel
  | S n' => index_walk_body (eval n') (evals n') (eval_opt n') (cmp_chain n') (bool_chain n') (comp n') (comp_loop n') (call n') (exec n') (exec_block n') (for_loop n') (index_walk n') (value_eq n') (dim_of n') s mu C cur idx v
  end.

(* ================================================================ program entry *)
(* Function.__call__(args..., ctx=caller): declared context, else the caller's,
   else IEEE double; arguments converted WITHOUT rounding, containers rebuilt
   (deep copy) on the way in and read out on the way back *)
Definition entry_ctx (fn : func) (caller : option ctx) : ctx :=
  match f_ctx fn with
  | Some c => c
  | None => match caller with Some c => c | None => FP64 end
  end.

Definition run (n : nat) (f : ident) (args : list cval) (caller : option ctx) : res cval :=
  match lookup_fn P f with
  | None => RErr NameErr
  | Some fn =>
      let '(vs, mu) := inject_all args [] in
      let* (v, mu1) := call n fn vs mu (match caller with Some c => c | None => FP64 end) in
      match extract n mu1 v with
      | Some c => ROk c
      | None => RFuel
      end
  end.

End WithProgram.
End WithNumOps.
