(* Model of the rounding-lowering rewrites of fpy2/transform:
     unfold_special.py  unfold_overflow.py  unfold_neg_zero.py
     float_to_fixed.py  rescale_fixed.py
   applied to the one-rounding program   with C: y = fp.round(x); return y.

   A lowered program is a term of `lp`; `sem p x` is the value it returns on
   the operand x (or the exception it raises).  Each rewrite T has
     T_describe : ctx -> option ...   the decision the transform's `_verify`
                                      makes about the source context (None =
                                      Declined), including every probe
                                      (`try_round`) it asks of the context, and
     T_lp                              the program text it emits,
   and T_rw : lp -> lp rewrites every rounding block of a lowered program
   (`where=None`), leaving a refused block unchanged.

   Definitions only.  The theorems are in LowerProofs.v. *)
From Coq Require Import ZArith List Bool.
From FpyV Require Import Num.RealFloat Num.Float Num.CtxDef Num.Ctx.
Import ListNotations.
Open Scope Z_scope.

(* ---------------------------------------------------------------- which version of the code *)
(* Three refusal conditions are missing in /repo as found (see the *_refuted
   theorems and fixes/C10-*.diff).  The model carries them as switches, so that
   it describes the code as found (fx_asis), the repaired code (fx_all), and
   anything in between; the harness determines the switches by probing three
   witness contexts on every run. *)
Record fixes := FX {
  fx_wrap : bool;        (* unfold_overflow declines every wrapping format outright *)
  fx_zero_bound : bool;  (* unfold_neg_zero declines a bound that is a zero of the other sign *)
  fx_degenerate : bool   (* float_to_fixed declines (rather than raises on) a format whose only finite value is zero *)
}.
Definition fx_asis := FX false false false.
Definition fx_all := FX true true true.

(* ---------------------------------------------------------------- values *)
Definition vres := result fl.

(* Context.round, value only *)
Definition vround (c : ctx) (x : fl) : vres :=
  match ctx_round0 c x with Ok (y, _) => Ok y | Err e => Err e end.

(* transform/utils.shift: x * 2^k exactly *)
Definition rf_shift (x : rf) (k : Z) : rf := RF (rs x) (rexp x + k) (rc x).

(* (2 ** k) * x evaluated under fp.REAL: Float.__mul__ with a positive power of two *)
Definition fl_scale (k : Z) (x : fl) : fl :=
  match x with
  | FFin r => FFin (if is_zero r then RF (rs r) 0 0 else rf_shift r k)
  | FInf s => FInf s
  | FNaN _ => FNaN false
  end.

Definition zero_rf : rf := RF false 0 0.

Definition fl_gt (x : fl) (c : rf) : bool := match fl_compare x (FFin c) with Some Gt => true | _ => false end.
Definition fl_lt (x : fl) (c : rf) : bool := match fl_compare x (FFin c) with Some Lt => true | _ => false end.
Definition fl_ge (x : fl) (c : rf) : bool := match fl_compare x (FFin c) with Some Gt | Some Eq => true | _ => false end.
Definition fl_le (x : fl) (c : rf) : bool := match fl_compare x (FFin c) with Some Lt | Some Eq => true | _ => false end.
Definition fl_eq0 (x : fl) : bool := match fl_compare x (FFin zero_rf) with Some Eq => true | _ => false end.
Definition fl_isfinite (x : fl) : bool := match x with FFin _ => true | _ => false end.
Definition fl_copysign (t x : fl) : fl := fl_with_sign (fl_s x) t.

(* same_value (number/number/floats.py): class, sign (zeros and NaN too), value *)
Definition fl_same (a b : fl) : bool :=
  match a, b with
  | FFin x, FFin y => rf_eqb x y && eqb (rs x) (rs y)
  | FInf s, FInf t => eqb s t
  | FNaN s, FNaN t => eqb s t
  | _, _ => false
  end.

Definition err_same (a b : err) : bool :=
  match a, b with
  | ValueErr, ValueErr | OverflowErr, OverflowErr | TypeErr, TypeErr | IndexErr, IndexErr
  | AssertErr, AssertErr | NameErr, NameErr | OtherErr, OtherErr => true
  | _, _ => false
  end.

(* transform/utils.agrees, a refusal counting as an outcome *)
Definition vres_same (a b : vres) : bool :=
  match a, b with
  | Ok x, Ok y => fl_same x y
  | Err e, Err e' => err_same e e'
  | _, _ => false
  end.

(* ---------------------------------------------------------------- lowered programs *)
Inductive test :=
  | TIsNan | TIsInf | TIsZero                 (* fp.isnan(x)  fp.isinf(x)  x == 0 *)
  | TGe (c : rf) | TLe (c : rf)               (* x >= c   x <= c *)
  | TFinGe (c : rf) | TFinLe (c : rf).        (* fp.isfinite(x) and x >= c ... *)

Definition eval_test (t : test) (x : fl) : bool :=
  match t with
  | TIsNan => fl_isnan x
  | TIsInf => fl_isinf x
  | TIsZero => fl_eq0 x
  | TGe c => fl_ge x c
  | TLe c => fl_le x c
  | TFinGe c => fl_isfinite x && fl_ge x c
  | TFinLe c => fl_isfinite x && fl_le x c
  end.

Inductive lp :=
  | LRound (c : ctx)                                   (* with c: r = fp.round(x) *)
  | LVal (pos neg : fl)                                (* r = (neg if fp.signbit(x) else pos)  -- utils.sign_choice *)
  | LIf (t : test) (a b : lp)
  | LBound (p : lp) (maxv negv : rf) (op on : fl) (dnz : bool)
      (* t = p(x); if t > maxv: op elif t < negv: on elif [dnz and] t == 0: 0 else t *)
  | LCopyZero (p : lp)                                 (* t = p(x); fp.copysign(t, x) if t == 0 else t *)
  | LNanSign (p : lp)                                  (* t = p(x); fp.copysign(t, x) if fp.isnan(t) else t *)
  | LLogb (pmax : Z) (em : option (Z * Z)) (expmax : option Z) (sub : lp) (norm : Z -> lp)
      (* e = fp.logb(x); if e < emin: sub else: exp = min(max(e - (pmax-1), expmin), expmax); norm exp *)
  | LScale (k : Z) (p : lp).                           (* t = 2^-k * x; r = p(t); 2^k * r *)

(* float_to_fixed: the computed position *)
Definition f2f_pos (pmax : Z) (em : option (Z * Z)) (expmax : option Z) (e : Z) : Z :=
  let s0 := e - (pmax - 1) in
  let s1 := match em with Some (_, expmin) => Z.max s0 expmin | None => s0 end in
  match expmax with Some m => Z.min s1 m | None => s1 end.

Fixpoint sem (p : lp) (x : fl) : vres :=
  match p with
  | LRound c => vround c x
  | LVal pos neg => Ok (if fl_s x then neg else pos)
  | LIf t a b => if eval_test t x then sem a x else sem b x
  | LBound q maxv negv op on dnz =>
      bind (sem q x) (fun t =>
        Ok (if fl_gt t maxv then op else if fl_lt t negv then on
            else if dnz && fl_eq0 t then FFin zero_rf else t))
  | LCopyZero q => bind (sem q x) (fun t => Ok (if fl_eq0 t then fl_copysign t x else t))
  | LNanSign q => bind (sem q x) (fun t => Ok (if fl_isnan t then fl_copysign t x else t))
  | LLogb pmax em expmax sub norm =>
      match x with
      | FFin xr =>
          if is_zero xr then Err OtherErr
          else
            let e := rf_e xr in
            match em with
            | Some (emin, _) => if e <? emin then sem sub x else sem (norm (f2f_pos pmax em expmax e)) x
            | None => sem (norm (f2f_pos pmax em expmax e)) x
            end
      | _ => Err OtherErr                                (* logb of a special: never reached, the ladder is in front *)
      end
  | LScale k q => bind (sem q (fl_scale (- k) x)) (fun r => Ok (fl_scale k r))
  end.

(* ---------------------------------------------------------------- probes *)
Definition pos_nan := FNaN false.
Definition pos_inf := FInf false.
Definition pos_zero := FFin zero_rf.

(* _special_pair: what the context makes of `positive` and of its negative *)
Definition try_pair (c : ctx) (positive : fl) : option (fl * fl) :=
  match vround c positive, vround c (fl_with_sign true positive) with
  | Ok a, Ok b => Some (a, b)
  | _, _ => None
  end.

Definition isSome {A} (o : option A) : bool := match o with Some _ => true | None => false end.

(* stochastic? *)
Definition ctx_k (c : ctx) : option Z :=
  match c with
  | CReal => Some 0
  | CMPFloat _ _ k _ | CMPSFloat _ _ _ k _ | CMPBFloat _ _ _ _ _ _ k _ => k
  | CEFloat _ _ _ _ _ _ _ k _ _ => k
  | CMPFixed _ _ k _ _ | CMPBFixed _ _ _ _ _ k _ _ => k
  | CFixed _ _ _ _ _ k _ _ | CSMFixed _ _ _ _ k _ _ => k
  | CExp _ _ _ _ _ => Some 0
  end.
Definition deterministic (c : ctx) : bool := match ctx_k c with Some 0 => true | _ => false end.

(* ================================================================ unfold_special *)
Definition o2i_any (rm : rmode) : bool := overflow_to_infinity rm false || overflow_to_infinity rm true.

(* _shedable, the infinity side (the NaN side is always safe) *)
Definition bounded_inf_safe (rm : rmode) (ov : ovmode) (ei : bool) (iv : option fl) : bool :=
  match ov with
  | OV_OVERFLOW => if o2i_any rm then negb (ei || isSome iv) else true
  | _ => true
  end.

Definition us_inf_safe (c : ctx) : bool :=
  match c with
  | CMPBFloat _ _ _ _ rm ov _ sp => bounded_inf_safe rm ov (sp_enable_inf sp) (sp_inf_value sp)
  | CMPBFixed _ _ _ rm ov _ sp _ => bounded_inf_safe rm ov (sp_enable_inf sp) (sp_inf_value sp)
  | CFixed _ _ _ rm ov _ _ iv => bounded_inf_safe rm ov false iv
  | CSMFixed _ _ rm ov _ _ iv => bounded_inf_safe rm ov false iv
  | _ => true
  end.

(* _Shedable: the families that state their specials as parameters *)
Definition us_family (c : ctx) : bool :=
  match c with
  | CMPFloat _ _ _ _ | CMPSFloat _ _ _ _ _ | CMPBFloat _ _ _ _ _ _ _ _
  | CMPFixed _ _ _ _ _ | CMPBFixed _ _ _ _ _ _ _ _ | CFixed _ _ _ _ _ _ _ _ | CSMFixed _ _ _ _ _ _ _ => true
  | _ => false
  end.

Definition sp_drop (sp : special) (sn si : bool) : special :=
  SP (if sn then false else sp_enable_nan sp) (if si then false else sp_enable_inf sp)
     (if sn then None else sp_nan_value sp) (if si then None else sp_inf_value sp).

(* _without_specials *)
Definition us_drop (c : ctx) (sn si : bool) : ctx :=
  match c with
  | CMPFloat p rm k sp => CMPFloat p rm k (sp_drop sp sn si)
  | CMPSFloat p em rm k sp => CMPSFloat p em rm k (sp_drop sp sn si)
  | CMPBFloat p em pm nm rm ov k sp => CMPBFloat p em pm nm rm ov k (sp_drop sp sn si)
  | CMPFixed nmin rm k sp nz => CMPFixed nmin rm k (sp_drop sp sn si) nz
  | CMPBFixed nmin pm nm rm ov k sp nz => CMPBFixed nmin pm nm rm ov k (sp_drop sp sn si) nz
  | CFixed sg sc nb rm ov k nv iv => CFixed sg sc nb rm ov k (if sn then None else nv) (if si then None else iv)
  | CSMFixed sc nb rm ov k nv iv => CSMFixed sc nb rm ov k (if sn then None else nv) (if si then None else iv)
  | _ => c
  end.

(* a shedding decision `_describe` may take: only rules no finite operand
   depends on, only where the branch has a value to take over *)
Definition us_shed_ok (c : ctx) (sn si : bool) : bool :=
  (negb (sn || si) || us_family c) &&
  (negb si || us_inf_safe c) &&
  (negb sn || isSome (try_pair c pos_nan)) &&
  (negb si || isSome (try_pair c pos_inf)).

(* Declined: REAL, or nothing to state *)
Definition us_decl (c : ctx) : bool :=
  match c with
  | CReal => true
  | _ => negb (isSome (try_pair c pos_nan) || isSome (try_pair c pos_inf))
  end.

Definition ladder (nanp infp zerop : option (fl * fl)) (body : lp) : lp :=
  let z := match zerop with Some (a, b) => LIf TIsZero (LVal a b) body | None => body end in
  let i := match infp with Some (a, b) => LIf TIsInf (LVal a b) z | None => z end in
  match nanp with Some (a, b) => LIf TIsNan (LVal a b) i | None => i end.

Definition us_lp (c : ctx) (sn si : bool) : lp :=
  ladder (try_pair c pos_nan) (try_pair c pos_inf) (try_pair c pos_zero) (LRound (us_drop c sn si)).

(* the choice of `_describe`: most first (constructibility of the dropped
   context, which can only make the real choice smaller, is not modelled) *)
Definition us_choice (c : ctx) : bool * bool :=
  if us_shed_ok c true true then (true, true)
  else if us_shed_ok c true false then (true, false)
  else if us_shed_ok c false true then (false, true)
  else (false, false).

Definition us_leaf (c : ctx) : option lp :=
  if us_decl c then None else let '(sn, si) := us_choice c in Some (us_lp c sn si).

(* ================================================================ unfold_overflow *)
Record uo_src := UO {
  uo_U : ctx; uo_max : rf; uo_nmax : rf; uo_inf : rf; uo_ninf : rf;
  uo_op : fl; uo_on : fl; uo_dnz : bool; uo_chk : bool;
  uo_nan : option (fl * fl); uo_infs : option (fl * fl) }.

(* the bounded families: (unbounded counterpart, maxval, neg_maxval, infval, neg_infval) *)
Definition neg_rf (x : rf) : rf := RF true (rexp x) (rc x).

Definition neg_zero_of (c : ctx) : bool :=
  match vround c (FFin (RF true 0 0)) with Ok y => fl_s y | Err _ => false end.

Definition uo_parts (c : ctx) : option (ctx * rf * rf * option Z * Z) :=
  match c with
  | CMPBFloat p emin pm nm rm _ _ _ =>
      Some (CMPSFloat p emin rm (Some 0) sp_default, pm, nm, Some p, mps_nmin p emin)
  | CEFloat es nbits ei nk eo rm _ _ _ _ =>
      if negb (efloat_valid es nbits ei nk) then None
      else match ext_to_mpb es nbits ei nk eo with
           | Ok (p, emin, maxv) => Some (CMPSFloat p emin rm (Some 0) sp_default, maxv, neg_rf maxv, Some p, mps_nmin p emin)
           | Err _ => None
           end
  | CMPBFixed nmin pm nm rm _ _ sp _ =>
      Some (CMPFixed nmin rm (Some 0) sp (neg_zero_of c), pm, nm, None, nmin)
  | CFixed sg sc nb rm _ _ nv iv =>
      let '(pm, nm) := fixed_bounds sg sc nb in
      Some (CMPFixed (sc - 1) rm (Some 0) (sp_fixed nv iv) (neg_zero_of c), pm, nm, None, sc - 1)
  | CSMFixed sc nb rm _ _ nv iv =>
      Some (CMPFixed (sc - 1) rm (Some 0) (sp_fixed nv iv) (neg_zero_of c),
            RF false sc (bitmask (nb - 1)), RF true sc (bitmask (nb - 1)), None, sc - 1)
  | _ => None
  end.

(* the generated rounding and checks, special branches aside *)
Definition uo_body (early : bool) (s : uo_src) : lp :=
  let b := LBound (LRound (uo_U s)) (uo_max s) (uo_nmax s) (uo_op s) (uo_on s) (uo_dnz s) in
  if early then
    if uo_chk s then
      LIf (TFinGe (uo_inf s)) (LVal (uo_op s) (uo_op s)) (LIf (TFinLe (uo_ninf s)) (LVal (uo_on s) (uo_on s)) b)
    else
      LIf (TGe (uo_inf s)) (LVal (uo_op s) (uo_op s)) (LIf (TLe (uo_ninf s)) (LVal (uo_on s) (uo_on s)) b)
  else b.

(* _Prober._specials for one special: None = Declined; Some None = no branch needed *)
Definition uo_special (c : ctx) (body : lp) (positive : fl) : option (option (fl * fl)) :=
  let negative := fl_with_sign true positive in
  let wp := vround c positive in
  let wn := vround c negative in
  if vres_same wp (sem body positive) && vres_same wn (sem body negative) then Some None
  else match wp, wn with
       | Ok a, Ok b => Some (Some (a, b))
       | _, _ => None
       end.

Definition ctx_wraps (c : ctx) : bool :=
  match c with
  | CMPBFloat _ _ _ _ _ OV_WRAP _ _ | CEFloat _ _ _ _ _ _ OV_WRAP _ _ _
  | CMPBFixed _ _ _ _ OV_WRAP _ _ _ | CFixed _ _ _ _ OV_WRAP _ _ _ | CSMFixed _ _ _ OV_WRAP _ _ _ => true
  | _ => false
  end.

Definition uo_describe (fx : fixes) (early : bool) (c : ctx) : option uo_src :=
  if negb (deterministic c) then None else
  if fx_wrap fx && ctx_wraps c then None else
  match uo_parts c with
  | None => None
  | Some (U, maxv, negv, p, nmin) =>
      (* an unsigned format states no bound below zero; a format with no non-zero value *)
      if (rc negv =? 0) || negb (rs negv) || (rc maxv =? 0) then None else
      match next_away maxv nmin p, next_away negv nmin p with
      | Ok infv, Ok ninfv =>
          let near_p := vround c (FFin (rf_shift maxv 1)) in
          let near_n := vround c (FFin (rf_shift negv 1)) in
          let far_p := vround c (FFin (rf_shift maxv 64)) in
          let far_n := vround c (FFin (rf_shift negv 64)) in
          match near_p, near_n, far_p, far_n with
          | Ok op, Ok on, Ok fp_, Ok fn =>
              if negb (fl_same op fp_ && fl_same on fn) then None else
              let dnz := match vround U (FFin (RF true 0 0)), vround c (FFin (RF true 0 0)) with
                         | Ok a, Ok b => fl_s a && negb (fl_s b) | _, _ => false end in
              let chk := match vround U pos_inf with Ok _ => false | Err _ => true end in
              let s0 := UO U maxv negv infv ninfv op on dnz chk None None in
              let body := uo_body early s0 in
              match uo_special c body pos_nan, uo_special c body pos_inf with
              | Some sn, Some si => Some (UO U maxv negv infv ninfv op on dnz chk sn si)
              | _, _ => None
              end
          | _, _, _, _ => None
          end
      | _, _ => None
      end
  end.

Definition uo_lp (early : bool) (s : uo_src) : lp :=
  let body := uo_body early s in
  let i := match uo_infs s with Some (a, b) => LIf TIsInf (LVal a b) body | None => body end in
  match uo_nan s with Some (a, b) => LIf TIsNan (LVal a b) i | None => i end.

Definition uo_leaf (fx : fixes) (early : bool) (c : ctx) : option lp :=
  match uo_describe fx early c with Some s => Some (uo_lp early s) | None => None end.

(* ================================================================ unfold_neg_zero *)
Definition unz_dropped (c : ctx) : option ctx :=
  match c with
  | CMPFixed nmin rm k sp _ => Some (CMPFixed nmin rm k sp false)
  | CMPBFixed nmin pm nm rm ov k sp _ => Some (CMPBFixed nmin pm nm rm ov k sp false)
  | CSMFixed sc nb rm ov k nv iv =>
      Some (CMPBFixed (sc - 1) (RF false sc (bitmask (nb - 1))) (RF true sc (bitmask (nb - 1)))
                      rm ov k (sp_fixed nv iv) false)
  | CFixed sg sc nb rm ov k nv iv =>
      let '(pm, nm) := fixed_bounds sg sc nb in
      Some (CMPBFixed (sc - 1) pm nm rm ov k (sp_fixed nv iv) false)
  | _ => None
  end.

Definition is_zero_sub (v : option fl) : bool :=
  match v with Some (FFin r) => is_zero r | _ => false end.

(* a bound that is a zero of the other side's sign: saturation lands on it *)
Definition zero_bound (pm nm : rf) (ov : ovmode) : bool :=
  match ov with
  | OV_SATURATE | OV_OVERFLOW => ((rc nm =? 0) && negb (rs nm)) || ((rc pm =? 0) && rs pm)
  | _ => false
  end.

Definition unz_zero_bound (c : ctx) : bool :=
  match c with
  | CMPBFixed _ pm nm _ ov _ _ _ => zero_bound pm nm ov
  | CSMFixed sc nb _ ov _ _ _ => zero_bound (RF false sc (bitmask (nb - 1))) (RF true sc (bitmask (nb - 1))) ov
  | _ => false
  end.

(* _sign_survives *)
Definition unz_survives (fx : fixes) (c : ctx) : bool :=
  let go (wrap : bool) (en ei : bool) (nv iv : option fl) :=
    negb wrap && negb ((negb en && is_zero_sub nv) || (negb ei && is_zero_sub iv)) &&
    negb (fx_zero_bound fx && unz_zero_bound c) in
  match c with
  | CMPFixed _ _ _ sp _ => go false (sp_enable_nan sp) (sp_enable_inf sp) (sp_nan_value sp) (sp_inf_value sp)
  | CMPBFixed _ _ _ _ ov _ sp _ =>
      go (match ov with OV_WRAP => true | _ => false end) (sp_enable_nan sp) (sp_enable_inf sp) (sp_nan_value sp) (sp_inf_value sp)
  | CFixed _ _ _ _ ov _ nv iv | CSMFixed _ _ _ ov _ nv iv =>
      go (match ov with OV_WRAP => true | _ => false end) false false nv iv
  | _ => false
  end.

Definition unz_leaf (fx : fixes) (c : ctx) : option lp :=
  if negb (deterministic c) then None
  else if negb (neg_zero_of c) then None
  else match unz_dropped c with
       | None => None
       | Some c' => if unz_survives fx c then Some (LCopyZero (LRound c')) else None
       end.

(* ================================================================ float_to_fixed *)
Inductive policy := PUnbounded | PInfinite | PSaturating | PNanOverflow.

(* (pmax, (emin, expmin), bound) of the float families this lowering knows *)
Definition f2f_parts (c : ctx) : option (Z * option (Z * Z) * option (rf * rf) * rmode) :=
  match c with
  | CMPFloat p rm _ _ => Some (p, None, None, rm)
  | CMPSFloat p emin rm _ _ => Some (p, Some (emin, emin - p + 1), None, rm)
  | CMPBFloat p emin pm nm rm _ _ _ => Some (p, Some (emin, emin - p + 1), Some (pm, nm), rm)
  | CEFloat es nbits ei nk eo rm _ _ _ _ =>
      let ieee := match nk with NK_IEEE => ei | _ => false end in
      if negb (efloat_valid es nbits ei nk) then None
      else if negb (eo =? 0) then None          (* a shifted exponent encoding is not accounted for *)
      else match ext_to_mpb es nbits ei nk eo with
           | Ok (p, emin, maxv) => Some (p, Some (emin, emin - p + 1), Some (maxv, neg_rf maxv), rm)
           | Err _ => None
           end
  | _ => None
  end.

(* _overflow_policy *)
Definition f2f_policy (c : ctx) (maxv negv : rf) : option policy :=
  match vround c (FFin (rf_shift maxv 1)), vround c (FFin (rf_shift negv 1)) with
  | Ok pos, Ok neg =>
      match pos, neg with
      | FInf false, FInf true => Some PInfinite
      | FNaN _, FNaN _ => Some PNanOverflow
      | FFin a, FFin b => if rf_eqb a maxv && rf_eqb b negv then Some PSaturating else None
      | _, _ => None
      end
  | _, _ => None
  end.

Record f2f_src := F2F {
  ff_pmax : Z; ff_em : option (Z * Z); ff_expmax : option Z; ff_maxv : option rf; ff_rm : rmode;
  ff_policy : policy; ff_nan : fl; ff_pinf : fl; ff_ninf : fl; ff_pz : fl; ff_nz : fl }.

(* RealFloat equality of the two bounds as `!=` decides it (value equality) *)
Definition mirror (maxv negv : rf) : bool := rf_eqb negv (neg_rf maxv) && (rs negv || (rc negv =? 0)).

Definition f2f_describe (fx : fixes) (c : ctx) : option f2f_src :=
  if negb (deterministic c) then None else
  match f2f_parts c with
  | None => None
  | Some (p, em, bound, rm) =>
      let fin (expmax : option Z) (mv : option rf) (pol : policy) : option f2f_src :=
        match vround c pos_nan, vround c pos_inf, vround c (FInf true), vround c pos_zero, vround c (FFin (RF true 0 0)) with
        | Ok a, Ok b, Ok b', Ok z, Ok z' => Some (F2F p em expmax mv rm pol a b b' z z')
        | _, _, _, _, _ => None
        end in
      match bound with
      | None => fin None None PUnbounded
      | Some (maxv, negv) =>
          if fx_degenerate fx && (rc maxv =? 0) then None
          else if negb (rf_eqb negv (neg_rf maxv)) then None
          else
            let expmax := rf_e maxv - p + 1 in
            if rexp maxv <? expmax then None
            else match f2f_policy c maxv negv with
                 | None => None
                 | Some pol => fin (Some expmax) (Some maxv) pol
                 end
      end
  end.

(* _ctx_call: the fixed-point format at position nmin, overflow where the float format puts it *)
Definition f2f_ctx (s : f2f_src) (nmin : Z) (reach : rf) : ctx :=
  let nz := fl_s (ff_nz s) in
  match ff_policy s, ff_maxv s with
  | PUnbounded, _ | _, None =>
      CMPBFixed nmin reach (neg_rf reach) (ff_rm s) OV_ASSERT (Some 0) (SP false false None None) nz
  | PInfinite, Some mv =>
      CMPBFixed nmin mv (neg_rf mv) (ff_rm s) OV_OVERFLOW (Some 0) (SP false true None None) nz
  | PSaturating, Some mv =>
      CMPBFixed nmin mv (neg_rf mv) (ff_rm s) OV_SATURATE (Some 0) (SP false false None None) nz
  | PNanOverflow, Some mv =>
      CMPBFixed nmin mv (neg_rf mv) (ff_rm s) OV_OVERFLOW (Some 0) (SP true false None (Some (FNaN false))) nz
  end.

Definition f2f_round (s : f2f_src) (nmin : Z) (reach : rf) : lp :=
  let r := LRound (f2f_ctx s nmin reach) in
  match ff_policy s with PNanOverflow => LNanSign r | _ => r end.

Definition f2f_lp (s : f2f_src) : lp :=
  let sub := match ff_em s with
             | Some (emin, expmin) => f2f_round s (expmin - 1) (RF false emin 1)
             | None => LRound CReal      (* no subnormal branch *)
             end in
  let body := LLogb (ff_pmax s) (ff_em s) (ff_expmax s) sub
                    (fun exp => f2f_round s (exp - 1) (RF false (exp + ff_pmax s) 1)) in
  LIf TIsNan (LVal (ff_nan s) (ff_nan s))
    (LIf TIsInf (LVal (ff_pinf s) (ff_ninf s))
       (LIf TIsZero (LVal (ff_pz s) (ff_nz s)) body)).

Definition f2f_leaf (fx : fixes) (c : ctx) : option lp :=
  match f2f_describe fx c with Some s => Some (f2f_lp s) | None => None end.

(* ================================================================ rescale_fixed *)
Definition finite_sub (v : option fl) : bool := match v with Some (FFin _) => true | _ => false end.

(* (scale, rescaled context) *)
Definition rs_parts (c : ctx) : option (Z * ctx * option fl * option fl) :=
  match c with
  | CFixed sg sc nb rm ov k nv iv => Some (sc, CFixed sg 0 nb rm ov k nv iv, nv, iv)
  | CSMFixed sc nb rm ov k nv iv => Some (sc, CSMFixed 0 nb rm ov k nv iv, nv, iv)
  | CMPFixed nmin rm k sp nz => Some (nmin + 1, CMPFixed (-1) rm k sp nz, sp_nan_value sp, sp_inf_value sp)
  | CMPBFixed nmin pm nm rm ov k sp nz =>
      Some (nmin + 1, CMPBFixed (-1) (rf_shift pm (- (nmin + 1))) (rf_shift nm (- (nmin + 1))) rm ov k sp nz,
            sp_nan_value sp, sp_inf_value sp)
  | _ => None
  end.

Definition rs_leaf (c : ctx) : option lp :=
  match rs_parts c with
  | None => None
  | Some (scale, c0, nv, iv) =>
      if scale =? 0 then None
      else if finite_sub nv || finite_sub iv then None
      else Some (LScale scale (LRound c0))
  end.

(* ================================================================ whole-program rewrites *)
Section Rewrite.
  Variable leaf : ctx -> option lp.
  Fixpoint rw (p : lp) : lp :=
    match p with
    | LRound c => match leaf c with Some q => q | None => p end
    | LVal _ _ => p
    | LIf t a b => LIf t (rw a) (rw b)
    | LBound q mv nv op on dnz => LBound (rw q) mv nv op on dnz
    | LCopyZero q => LCopyZero (rw q)
    | LNanSign q => LNanSign (rw q)
    | LLogb pm em ex sub norm => LLogb pm em ex (rw sub) (fun e => rw (norm e))
    | LScale k q => LScale k (rw q)
    end.
End Rewrite.

Inductive xform := XSpecial | XOverflow | XOverflowEarly | XNegZero | XF2F | XRescale.

Definition leaf_of (fx : fixes) (t : xform) : ctx -> option lp :=
  match t with
  | XSpecial => us_leaf
  | XOverflow => uo_leaf fx false
  | XOverflowEarly => uo_leaf fx true
  | XNegZero => unz_leaf fx
  | XF2F => f2f_leaf fx
  | XRescale => rs_leaf
  end.

Definition apply_chain (fx : fixes) (ts : list xform) (p : lp) : lp :=
  fold_left (fun q t => rw (leaf_of fx t) q) ts p.

(* the documented lowering chain of the property, and the two recipes of docs/todos *)
Definition chain_property := [XSpecial; XOverflow; XNegZero; XF2F; XRescale].
Definition chain_float := [XSpecial; XOverflow; XF2F; XRescale].
Definition chain_fixed := [XSpecial; XNegZero; XOverflow; XRescale].
