(* C10, part 3: float_to_fixed. *)
From Coq Require Import ZArith List Bool Lia Reals Psatz.
From Flocq Require Import Core.Zaux Core.Raux Core.Defs Core.Digits Core.Float_prop
  Core.Generic_fmt Core.FLX Core.FLT Core.FIX.
From FpyV Require Import Num.RealFloat Num.RealFloatProofs Num.RoundSpec Num.RoundProofs
  Num.Float Num.FloatProofs Num.CtxDef Num.Ctx Num.CtxProofs
  Lang.Lowering.Lower Lang.Lowering.LowerProofs Lang.Lowering.LowerUOProofs.
Import ListNotations.
Open Scope Z_scope.
Set Default Timeout 120.

(* ---------------------------------------------------------------- a float rounding is a fixed-point rounding at the computed position *)
(* RealFloat.round with a precision p and a floor nmin, and RealFloat.round
   with the position alone, at n(x) = max(nmin, e(x) - p): the same real, the
   same sign, the same inexact flag (the encodings differ after a carry) *)
Theorem float_to_fixed_eq x p nmin rm :
  rf_wf x -> rc x <> 0 -> 1 <= p ->
  exists y f y' f',
    rf_round x (Some p) (Some nmin) rm false = Ok (y, f) /\
    rf_round x None (Some (Z.max nmin (rf_e x - p))) rm false = Ok (y', f') /\
    R2R y = R2R y' /\ rs y = rs x /\ rs y' = rs x /\ rf_wf y /\ rf_wf y' /\
    f_inexact f = f_inexact f'.
Proof.
  intros Hw Hnz Hp. unfold rf_wf in Hw. assert (Hc : 0 < rc x) by lia.
  unfold rf_round, round_params. cbn [bind].
  set (n := Z.max nmin (rf_e x - p)).
  destruct (round_at_core x (Some p) n (Some (p + nmin)) rm Hc) as (y & f & Hr & Hs & Hy & Hcore).
  { unfold p_ok. split; [exact Hp|]. unfold n. lia. }
  destruct (round_at_core x None n None rm Hc I) as (y' & f' & Hr' & Hs' & Hy' & Hcore').
  exists y, f, y', f'. rewrite Hr, Hr'.
  destruct (round_core rm (rs x) (rc x) (rexp x) n) as [[mr er] ix].
  destruct Hcore as [Hv Hi]. destruct Hcore' as [Hv' Hi'].
  repeat split; try assumption; congruence.
Qed.

(* the same at a float format without a floor (MPFloatContext) *)
Theorem float_to_fixed_eq_flx x p rm :
  rf_wf x -> rc x <> 0 -> 1 <= p ->
  exists y f y' f',
    rf_round x (Some p) None rm false = Ok (y, f) /\
    rf_round x None (Some (rf_e x - p)) rm false = Ok (y', f') /\
    R2R y = R2R y' /\ rs y = rs x /\ rs y' = rs x /\ rf_wf y /\ rf_wf y' /\
    f_inexact f = f_inexact f'.
Proof.
  intros Hw Hnz Hp. unfold rf_wf in Hw. assert (Hc : 0 < rc x) by lia.
  unfold rf_round, round_params. cbn [bind].
  set (n := rf_e x - p).
  destruct (round_at_core x (Some p) n None rm Hc) as (y & f & Hr & Hs & Hy & Hcore).
  { unfold p_ok. split; [exact Hp|]. unfold n. lia. }
  destruct (round_at_core x None n None rm Hc I) as (y' & f' & Hr' & Hs' & Hy' & Hcore').
  exists y, f, y', f'. rewrite Hr, Hr'.
  destruct (round_core rm (rs x) (rc x) (rexp x) n) as [[mr er] ix].
  destruct Hcore as [Hv Hi]. destruct Hcore' as [Hv' Hi'].
  repeat split; try assumption; congruence.
Qed.

(* ---------------------------------------------------------------- the position as the transform emits it *)
(* e = logb(x); below emin the constant position EXP - 1 = nmin; otherwise
   clamp(e - P + 1, EXP, EMAX - P + 1) - 1 *)
Lemma f2f_pos_sub p emin e : e < emin -> (emin - p + 1) - 1 = Z.max (mps_nmin p emin) (e - p).
Proof. unfold mps_nmin. lia. Qed.

Lemma f2f_pos_normal p emin expmax e : emin <= e -> e - p + 1 <= expmax ->
  f2f_pos p (Some (emin, emin - p + 1)) (Some expmax) e - 1 = Z.max (mps_nmin p emin) (e - p).
Proof. unfold f2f_pos, mps_nmin. lia. Qed.

Lemma f2f_pos_normal_unbounded p emin e : emin <= e ->
  f2f_pos p (Some (emin, emin - p + 1)) None e - 1 = Z.max (mps_nmin p emin) (e - p).
Proof. unfold f2f_pos, mps_nmin. lia. Qed.

Lemma f2f_pos_flx p e : f2f_pos p None None e - 1 = e - p.
Proof. unfold f2f_pos. lia. Qed.

(* past the top binade the position is clamped to the bound's last digit *)
Lemma f2f_pos_clamped p emin expmax e : expmax < e - p + 1 -> emin - p + 1 <= expmax ->
  f2f_pos p (Some (emin, emin - p + 1)) (Some expmax) e = expmax.
Proof. unfold f2f_pos. lia. Qed.

(* ---------------------------------------------------------------- magnitudes *)
Lemma R2R_abs_bounds x : 0 < rc x ->
  (bpow radix2 (rf_e x) <= Rabs (R2R x) < bpow radix2 (rf_e x + 1))%R.
Proof.
  intros Hc. assert (Hw : rf_wf x) by (unfold rf_wf; lia).
  rewrite <- (abs_denote x Hw). unfold rf_abs, R2R, rf_m. cbn [rs rc rexp]. unfold F2R. cbn [Fnum Fexp].
  pose proof (bitlen_bounds _ Hc) as [B1 B2]. pose proof (bitlen_pos _ Hc) as Bp.
  unfold rf_e, rf_p.
  replace (rexp x + bitlen (rc x) - 1) with ((bitlen (rc x) - 1) + rexp x) by lia.
  replace (bitlen (rc x) - 1 + rexp x + 1) with (bitlen (rc x) + rexp x) by lia.
  rewrite !bpow_plus.
  assert (P : (0 < bpow radix2 (rexp x))%R) by apply bpow_gt_0.
  rewrite <- (IZR_Zpower radix2 (bitlen (rc x) - 1)) by lia. rewrite <- (IZR_Zpower radix2 (bitlen (rc x))) by lia.
  change (Zpower radix2) with (Z.pow 2).
  split.
  - apply Rmult_le_compat_r; [lra|]. apply IZR_le. exact B1.
  - apply Rmult_lt_compat_r; [exact P|]. apply IZR_lt. exact B2.
Qed.

(* ---------------------------------------------------------------- values, not encodings *)
Lemma is_overflowing_value pm nm pm' nm' y y' :
  rf_wf pm -> rf_wf nm -> rf_wf pm' -> rf_wf nm' -> rf_wf y -> rf_wf y' ->
  R2R pm = R2R pm' -> R2R nm = R2R nm' -> R2R y = R2R y' -> rs y = rs y' ->
  is_overflowing pm nm y = is_overflowing pm' nm' y'.
Proof.
  intros ? ? ? ? ? ? E1 E2 E3 E4. unfold is_overflowing. rewrite !compare_denote by assumption.
  rewrite E1, E2, E3, E4. reflexivity.
Qed.

Lemma fnz_equiv z y y' : rf_wf y -> rf_wf y' -> R2R y = R2R y' -> rs y = rs y' ->
  fl_equiv (FFin (fix_neg_zero z y)) (FFin (fix_neg_zero z y')).
Proof.
  intros Hy Hy' Hv Hs. unfold fix_neg_zero, is_zero.
  assert (Hz : (rc y =? 0) = (rc y' =? 0)).
  { destruct (Z.eqb_spec (rc y) 0) as [Z0|Z0], (Z.eqb_spec (rc y') 0) as [Z1|Z1]; try reflexivity; exfalso.
    - apply Z1. apply (R2R_eq0 y' Hy'). rewrite <- Hv. apply R2R_zero. exact Z0.
    - apply Z0. apply (R2R_eq0 y Hy). rewrite Hv. apply R2R_zero. exact Z1. }
  rewrite <- Hz, <- Hs.
  destruct ((rc y =? 0) && rs y && negb z) eqn:E.
  - apply andb_prop in E as [E _]. apply andb_prop in E as [E _]. apply Z.eqb_eq in E.
    assert (E' : rc y' = 0) by (apply Z.eqb_eq; rewrite <- Hz; apply Z.eqb_eq; exact E).
    simpl. rewrite E, E'. split; [|reflexivity]. rewrite !R2R_zero by reflexivity. reflexivity.
  - simpl. auto.
Qed.

(* the NaN sign restoration changes no value (the sign of a NaN is not one) *)
Lemma nansign_equiv q x : vequiv (sem (LNanSign q) x) (sem q x).
Proof.
  cbn [sem]. destruct (sem q x) as [t|e]; cbn [bind vequiv]; [|reflexivity].
  destruct t; cbn [fl_isnan]; try apply fl_equiv_refl. simpl. exact I.
Qed.

Lemma f2f_round_equiv s nmin reach x :
  vequiv (sem (f2f_round s nmin reach) x) (vround (f2f_ctx s nmin reach) x).
Proof.
  unfold f2f_round. destruct (ff_policy s); try apply vequiv_refl. apply nansign_equiv.
Qed.

(* an overflow of the source that is not a finite value happened in a mode that rounds to infinity *)
Lemma ovr_float_nonfinite pm nm rm ov sp s v :
  ovr_float pm nm rm ov sp s = Ok v -> fl_isfinite v = false -> overflow_to_infinity rm s = true.
Proof.
  unfold ovr_float. destruct ov; try discriminate.
  - destruct (overflow_to_infinity rm s); [reflexivity|]. intros [= <-]. discriminate.
  - intros [= <-]. discriminate.
Qed.

Lemma fixup_val_nonfinite ei nk nv iv maxv r v :
  fixup_val ei nk nv iv maxv r = Ok v -> fl_isfinite v = false ->
  exists w, r = Ok w /\ fl_isfinite w = false.
Proof.
  destruct r as [w|e]; [|discriminate]. cbn [fixup_val]. intros Hv Hf. exists w. split; [reflexivity|].
  destruct w as [xr|s|s]; try reflexivity. rewrite fixup_fin in Hv. injection Hv as <-. discriminate.
Qed.

(* ---------------------------------------------------------------- a bounded float source *)
Lemma neg_rf_R x : rs x = false -> R2R (neg_rf x) = (- R2R x)%R.
Proof.
  intros Hs. unfold R2R, neg_rf, rf_m. cbn [rs rc rexp]. rewrite Hs. rewrite <- F2R_Zopp. reflexivity.
Qed.

Lemma neg_rf_wf x : rf_wf x -> rf_wf (neg_rf x).
Proof. unfold rf_wf, neg_rf. simpl. auto. Qed.

(* beyond the top binade every rounding overflows *)
Lemma beyond_overflows (fexp : Z -> Z) rm maxv negv xr y :
  Valid_exp fexp ->
  rf_wf maxv -> rf_wf negv -> rs maxv = false -> rs negv = true -> rc maxv <> 0 ->
  R2R negv = (- R2R maxv)%R ->
  rf_wf xr -> 0 < rc xr -> rf_wf y ->
  R2R y = round radix2 fexp (rnd_of rm) (R2R xr) ->
  rf_e maxv < rf_e xr ->
  generic_format radix2 fexp (bpow radix2 (rf_e maxv + 1)) ->
  is_overflowing maxv negv y = true.
Proof.
  intros Hv Wp Wn Sp Sn Cp Hneg Wx Cx Wy Hy He Hg.
  destruct (is_overflowing maxv negv y) eqn:E; [reflexivity|exfalso].
  apply (is_overflowing_spec maxv negv y Wp Wn Wy Sp (or_introl Sn)) in E. unfold in_range in E.
  assert (Cm : 0 < rc maxv) by (unfold rf_wf in Wp; lia).
  pose proof (R2R_abs_bounds maxv Cm) as [_ M2]. pose proof (R2R_abs_bounds xr Cx) as [X1 _].
  assert (Ppos : (0 < R2R maxv)%R) by (apply R2R_sign_pos; assumption).
  rewrite (Rabs_pos_eq (R2R maxv)) in M2 by lra.
  assert (B : (bpow radix2 (rf_e maxv + 1) <= Rabs (R2R xr))%R).
  { apply Rle_trans with (bpow radix2 (rf_e xr)); [apply bpow_le; lia|exact X1]. }
  pose proof (abs_round_ge_generic radix2 fexp (rnd_of rm) (bpow radix2 (rf_e maxv + 1)) (R2R xr) Hg B) as A.
  rewrite <- Hy in A. rewrite Hneg in E.
  assert (Rabs (R2R y) <= R2R maxv)%R by (apply Rabs_le; lra). lra.
Qed.

Section BoundedSource.
  Variables (c U : ctx) (maxv negv : rf) (p nmin : Z) (rm : rmode) (ovr : bool -> vres) (zU zC : bool).
  Hypothesis Hb : bounded_as c U maxv negv (Some p) nmin rm ovr zU zC.
  Hypothesis Hbo : bounds_ok (Some p) nmin maxv negv.
  Hypothesis Hmirror : R2R negv = (- R2R maxv)%R.
  Hypothesis Hovw : forall sg v, ovr sg = Ok v -> fl_wf v.
  Hypothesis Hnonfin : forall sg v, ovr sg = Ok v -> fl_isfinite v = false -> overflow_to_infinity rm sg = true.
  Variable s : f2f_src.
  Hypothesis Hmv : ff_maxv s = Some maxv.
  Hypothesis Hrm : ff_rm s = rm.
  Hypothesis Hnz : fl_s (ff_nz s) = zC.
  Hypothesis Hpol : f2f_policy c maxv negv = Some (ff_policy s).

  (* the emitted context *)
  Definition ovF : ovmode := match ff_policy s with PSaturating => OV_SATURATE | PUnbounded => OV_ASSERT | _ => OV_OVERFLOW end.
  Definition spF : special :=
    match ff_policy s with
    | PInfinite => SP false true None None
    | PNanOverflow => SP true false None (Some (FNaN false))
    | _ => SP false false None None
    end.

  Lemma policy_bounded : ff_policy s <> PUnbounded.
  Proof.
    unfold f2f_policy in Hpol.
    destruct (vround c (FFin (rf_shift maxv 1))) as [pos|]; [|discriminate].
    destruct (vround c (FFin (rf_shift negv 1))) as [neg|]; [|discriminate].
    destruct pos as [a|[|]|sa], neg as [b|[|]|sb]; try discriminate; try (injection Hpol as <-; discriminate).
    destruct (rf_eqb a maxv && rf_eqb b negv); [injection Hpol as <-; discriminate|discriminate].
  Qed.

  Lemma f2f_ctx_bounded nfix reach :
    f2f_ctx s nfix reach = CMPBFixed nfix maxv (neg_rf maxv) rm ovF (Some 0) spF zC.
  Proof.
    pose proof policy_bounded as Hnb. unfold f2f_ctx, ovF, spF. rewrite Hmv, Hrm, Hnz.
    destruct (ff_policy s); try reflexivity. congruence.
  Qed.

  Lemma overflow_agrees sg : vequiv (ovr_fixed maxv (neg_rf maxv) rm ovF spF sg) (ovr sg).
  Proof.
    destruct Hbo as (Hp & Wp & Wn & Sp & Cp & Sn & Cn & Gp & Gn).
    destruct (probe_overflows c U maxv negv (Some p) nmin rm ovr zU zC 1 Hb Hbo ltac:(lia)) as [P1 P2].
    unfold f2f_policy in Hpol. rewrite P1, P2 in Hpol.
    assert (Ppos : (0 < R2R maxv)%R) by (apply R2R_sign_pos; assumption).
    destruct (ovr false) as [pos|] eqn:E1; [|discriminate].
    destruct (ovr true) as [neg|] eqn:E2; [|discriminate].
    destruct pos as [a|sa|sa], neg as [b|sb|sb]; try discriminate.
    - (* saturating *)
      destruct (rf_eqb a maxv && rf_eqb b negv) eqn:Eab; [|discriminate]. injection Hpol as Hpol.
      apply andb_prop in Eab as [Ea Eb].
      pose proof (Hovw false _ E1) as Wa. pose proof (Hovw true _ E2) as Wb. simpl in Wa, Wb.
      apply (eq_iff_denote a maxv Wa Wp) in Ea. apply (eq_iff_denote b negv Wb Wn) in Eb.
      unfold ovr_fixed, ovF. rewrite <- Hpol.
      destruct sg.
      + rewrite E2. cbn [vequiv fl_equiv]. rewrite (neg_rf_R maxv Sp), Eb, Hmirror. split; [reflexivity|].
        cbn [neg_rf rs]. symmetry. apply (proj2 (sign_of_R b Wb)). lra.
      + rewrite E1. cbn [vequiv fl_equiv]. rewrite Ea. split; [reflexivity|].
        rewrite Sp. symmetry. apply (proj1 (sign_of_R a Wa)). lra.
    - (* infinite *)
      destruct sa; [discriminate|]. destruct sb; [|discriminate]. injection Hpol as Hpol.
      unfold ovr_fixed, ovF, spF. rewrite <- Hpol. cbn [sp_enable_inf].
      destruct sg.
      + rewrite (Hnonfin true _ E2 eq_refl), E2. apply vequiv_refl.
      + rewrite (Hnonfin false _ E1 eq_refl), E1. apply vequiv_refl.
    - (* NaN on overflow *)
      injection Hpol as Hpol.
      unfold ovr_fixed, ovF, spF. rewrite <- Hpol. cbn [sp_enable_inf sp_inf_value].
      destruct sg.
      + rewrite (Hnonfin true _ E2 eq_refl), E2. simpl. exact I.
      + rewrite (Hnonfin false _ E1 eq_refl), E1. simpl. exact I.
  Qed.

  Lemma ovF_not_wrap : ovF <> OV_WRAP.
  Proof. unfold ovF. destruct (ff_policy s); discriminate. Qed.

  (* the position the transform computes: the float's own, or clamped past the top binade *)
  Definition pos_ok (xr : rf) (nfix : Z) : Prop :=
    nfix = Z.max nmin (rf_e xr - p) \/ (rf_e maxv < rf_e xr /\ nfix <= rf_e maxv).

  Lemma bounded_core xr nfix reach :
    rf_wf xr -> rc xr <> 0 -> pos_ok xr nfix ->
    vequiv (vround (f2f_ctx s nfix reach) (FFin xr)) (vround c (FFin xr)).
  Proof.
    intros Hw Hnzx Hpos. rewrite f2f_ctx_bounded.
    destruct Hbo as (Hp & Wp & Wn & Sp & Cp & Sn & Cn & Gp & Gn).
    assert (Wnm : rf_wf (neg_rf maxv)) by (apply neg_rf_wf; exact Wp).
    destruct Hb as [Hb1 _]. destruct (Hb1 xr Hw Hnzx) as (y & f & Hr & _ & HC).
    destruct (mpbfixed_bounded nfix maxv (neg_rf maxv) rm ovF spF zC ovF_not_wrap) as [HF1 _].
    destruct (HF1 xr Hw Hnzx) as (y' & f' & Hr' & _ & HF).
    rewrite HC, HF.
    assert (Hsome : Some p <> None \/ Some nmin <> None) by (left; discriminate).
    assert (Hsome' : @None Z <> None \/ Some nfix <> None) by (right; discriminate).
    destruct (rf_round_spec xr (Some p) (Some nmin) rm Hw Hnzx Hp Hsome) as (y1 & f1 & Hr1 & Hv1 & Hs1 & Wy & _).
    rewrite Hr in Hr1. injection Hr1 as <- <-.
    destruct (rf_round_spec xr None (Some nfix) rm Hw Hnzx I Hsome') as (y2 & f2 & Hr2 & Hv2 & Hs2 & Wy' & _).
    rewrite Hr' in Hr2. injection Hr2 as <- <-.
    assert (Cx : 0 < rc xr) by (unfold rf_wf in Hw; lia).
    destruct Hpos as [Hpos|[He Hn]].
    - (* the float's own position *)
      destruct (float_to_fixed_eq xr p nmin rm Hw Hnzx Hp) as (ya & fa & yb & fb & Ra & Rb & Hv & Sa & Sb & _).
      rewrite Hr in Ra. injection Ra as <- <-. rewrite <- Hpos, Hr' in Rb. injection Rb as <- <-.
      rewrite (is_overflowing_value maxv (neg_rf maxv) maxv negv y' y) by
        (try assumption; try reflexivity; try (rewrite (neg_rf_R maxv Sp); symmetry; exact Hmirror); try (symmetry; exact Hv); congruence).
      destruct (is_overflowing maxv negv y).
      + replace (rs y') with (rs y) by congruence. apply overflow_agrees.
      + cbn [vequiv]. apply fnz_equiv; try assumption; [symmetry; exact Hv|congruence].
    - (* clamped: both overflow *)
      assert (O1 : is_overflowing maxv negv y = true).
      { apply (beyond_overflows (fexp_of (Some p) (Some nmin)) rm maxv negv xr y); try assumption.
        - apply valid_fexp_of. exact Hp.
        - cbn [fexp_of]. apply generic_format_FLT_bpow; [unfold Prec_gt_0; lia|].
          (* the bound is a format member, so its exponent is at least the floor *)
          assert (Cm : 0 < rc maxv) by (unfold rf_wf in Wp; lia).
          pose proof (R2R_abs_bounds maxv Cm) as [M1 M2].
          assert (Ppos : (0 < R2R maxv)%R) by (apply R2R_sign_pos; assumption).
          cbn [fexp_of] in Gp.
          assert (Hge : (bpow radix2 (nmin + 1) <= R2R maxv)%R).
          { apply (generic_format_ge_bpow radix2 (FLT_exp (nmin + 1) p) (nmin + 1)); [|exact Ppos|exact Gp].
            intros e. unfold FLT_exp. lia. }
          rewrite (Rabs_pos_eq (R2R maxv)) in M2 by lra.
          assert (bpow radix2 (nmin + 1) < bpow radix2 (rf_e maxv + 1))%R by lra.
          apply lt_bpow in H. lia. }
      assert (O2 : is_overflowing maxv (neg_rf maxv) y' = true).
      { apply (beyond_overflows (fexp_of None (Some nfix)) rm maxv (neg_rf maxv) xr y'); try assumption.
        - apply valid_fexp_of. exact I.
        - reflexivity.
        - apply neg_rf_R. exact Sp.
        - cbn [fexp_of]. apply generic_format_bpow. unfold FIX_exp. lia. }
      rewrite O1, O2. replace (rs y') with (rs y) by congruence. apply overflow_agrees.
  Qed.
End BoundedSource.
