(* C10, part 3: float_to_fixed. *)
From Coq Require Import ZArith List Bool Lia Reals Psatz.
From Flocq Require Import Core.Zaux Core.Raux Core.Defs Core.Digits Core.Float_prop
  Core.Generic_fmt Core.FLX Core.FLT Core.FIX.
From FpyV Require Import Num.RealFloat Num.RealFloatProofs Num.RoundSpec Num.RoundProofs
  Num.Float Num.FloatProofs Num.CtxDef Num.Ctx Num.CtxProofs
  Lang.Lowering.Lower Lang.Lowering.LowerProofs Lang.Lowering.LowerUOProofs.
Import ListNotations.
Open Scope Z_scope.

(* ---------------------------------------------------------------- a float rounding is a fixed-point rounding at the computed position *)
(* RealFloat.round with a precision p and a floor nmin, and RealFloat.round
   with the position alone, at n(x) = max(nmin, e(x) - p): the same real, the
   same sign, the same inexact flag (the encodings differ after a carry) *)
Theorem float_to_fixed_eq x p nmin rm :
  rf_wf x -> rc x <> 0 -> 1 <= p ->
  exists y f y' f',
    rf_round x (Some p) (Some nmin) rm false = Ok (y, f) /\
    rf_round x None (Some (Z.max nmin (rf_e x - p))) rm false = Ok (y', f') /\
    R2R y = R2R y' /\ rs y = rs x /\ rs y' = rs x /\ rf_wf y /\ rf_wf y' /\
    f_inexact f = f_inexact f'.
Proof.
  intros Hw Hnz Hp. unfold rf_wf in Hw. assert (Hc : 0 < rc x) by lia.
  unfold rf_round, round_params. cbn [bind].
  set (n := Z.max nmin (rf_e x - p)).
  destruct (round_at_core x (Some p) n (Some (p + nmin)) rm Hc) as (y & f & Hr & Hs & Hy & Hcore).
  { unfold p_ok. split; [exact Hp|]. unfold n. lia. }
  destruct (round_at_core x None n None rm Hc I) as (y' & f' & Hr' & Hs' & Hy' & Hcore').
  exists y, f, y', f'. rewrite Hr, Hr'.
  destruct (round_core rm (rs x) (rc x) (rexp x) n) as [[mr er] ix].
  destruct Hcore as [Hv Hi]. destruct Hcore' as [Hv' Hi'].
  repeat split; try assumption; congruence.
Qed.

(* the same at a float format without a floor (MPFloatContext) *)
Theorem float_to_fixed_eq_flx x p rm :
  rf_wf x -> rc x <> 0 -> 1 <= p ->
  exists y f y' f',
    rf_round x (Some p) None rm false = Ok (y, f) /\
    rf_round x None (Some (rf_e x - p)) rm false = Ok (y', f') /\
    R2R y = R2R y' /\ rs y = rs x /\ rs y' = rs x /\ rf_wf y /\ rf_wf y' /\
    f_inexact f = f_inexact f'.
Proof.
  intros Hw Hnz Hp. unfold rf_wf in Hw. assert (Hc : 0 < rc x) by lia.
  unfold rf_round, round_params. cbn [bind].
  set (n := rf_e x - p).
  destruct (round_at_core x (Some p) n None rm Hc) as (y & f & Hr & Hs & Hy & Hcore).
  { unfold p_ok. split; [exact Hp|]. unfold n. lia. }
  destruct (round_at_core x None n None rm Hc I) as (y' & f' & Hr' & Hs' & Hy' & Hcore').
  exists y, f, y', f'. rewrite Hr, Hr'.
  destruct (round_core rm (rs x) (rc x) (rexp x) n) as [[mr er] ix].
  destruct Hcore as [Hv Hi]. destruct Hcore' as [Hv' Hi'].
  repeat split; try assumption; congruence.
Qed.

(* ---------------------------------------------------------------- the position as the transform emits it *)
(* e = logb(x); below emin the constant position EXP - 1 = nmin; otherwise
   clamp(e - P + 1, EXP, EMAX - P + 1) - 1 *)
Lemma f2f_pos_sub p emin e : e < emin -> (emin - p + 1) - 1 = Z.max (mps_nmin p emin) (e - p).
Proof. unfold mps_nmin. lia. Qed.

Lemma f2f_pos_normal p emin expmax e : emin <= e -> e - p + 1 <= expmax ->
  f2f_pos p (Some (emin, emin - p + 1)) (Some expmax) e - 1 = Z.max (mps_nmin p emin) (e - p).
Proof. unfold f2f_pos, mps_nmin. lia. Qed.

Lemma f2f_pos_normal_unbounded p emin e : emin <= e ->
  f2f_pos p (Some (emin, emin - p + 1)) None e - 1 = Z.max (mps_nmin p emin) (e - p).
Proof. unfold f2f_pos, mps_nmin. lia. Qed.

Lemma f2f_pos_flx p e : f2f_pos p None None e - 1 = e - p.
Proof. unfold f2f_pos. lia. Qed.

(* past the top binade the position is clamped to the bound's last digit *)
Lemma f2f_pos_clamped p emin expmax e : expmax < e - p + 1 -> emin - p + 1 <= expmax ->
  f2f_pos p (Some (emin, emin - p + 1)) (Some expmax) e = expmax.
Proof. unfold f2f_pos. lia. Qed.

(* ---------------------------------------------------------------- magnitudes *)
Lemma R2R_abs_bounds x : 0 < rc x ->
  (bpow radix2 (rf_e x) <= Rabs (R2R x) < bpow radix2 (rf_e x + 1))%R.
Proof.
  intros Hc. assert (Hw : rf_wf x) by (unfold rf_wf; lia).
  rewrite <- (abs_denote x Hw). unfold rf_abs, R2R, rf_m. cbn [rs rc rexp]. unfold F2R. cbn [Fnum Fexp].
  pose proof (bitlen_bounds _ Hc) as [B1 B2]. pose proof (bitlen_pos _ Hc) as Bp.
  unfold rf_e, rf_p.
  replace (rexp x + bitlen (rc x) - 1) with ((bitlen (rc x) - 1) + rexp x) by lia.
  replace (bitlen (rc x) - 1 + rexp x + 1) with (bitlen (rc x) + rexp x) by lia.
  rewrite !bpow_plus.
  assert (P : (0 < bpow radix2 (rexp x))%R) by apply bpow_gt_0.
  rewrite <- (IZR_Zpower radix2 (bitlen (rc x) - 1)) by lia. rewrite <- (IZR_Zpower radix2 (bitlen (rc x))) by lia.
  change (Zpower radix2) with (Z.pow 2).
  split.
  - apply Rmult_le_compat_r; [lra|]. apply IZR_le. exact B1.
  - apply Rmult_lt_compat_r; [exact P|]. apply IZR_lt. exact B2.
Qed.

(* ---------------------------------------------------------------- values, not encodings *)
Lemma is_overflowing_value pm nm pm' nm' y y' :
  rf_wf pm -> rf_wf nm -> rf_wf pm' -> rf_wf nm' -> rf_wf y -> rf_wf y' ->
  R2R pm = R2R pm' -> R2R nm = R2R nm' -> R2R y = R2R y' -> rs y = rs y' ->
  is_overflowing pm nm y = is_overflowing pm' nm' y'.
Proof.
  intros ? ? ? ? ? ? E1 E2 E3 E4. unfold is_overflowing. rewrite !compare_denote by assumption.
  rewrite E1, E2, E3, E4. reflexivity.
Qed.

Lemma fnz_equiv z y y' : rf_wf y -> rf_wf y' -> R2R y = R2R y' -> rs y = rs y' ->
  fl_equiv (FFin (fix_neg_zero z y)) (FFin (fix_neg_zero z y')).
Proof.
  intros Hy Hy' Hv Hs. unfold fix_neg_zero, is_zero.
  assert (Hz : (rc y =? 0) = (rc y' =? 0)).
  { destruct (Z.eqb_spec (rc y) 0) as [Z0|Z0], (Z.eqb_spec (rc y') 0) as [Z1|Z1]; try reflexivity; exfalso.
    - apply Z1. apply (R2R_eq0 y' Hy'). rewrite <- Hv. apply R2R_zero. exact Z0.
    - apply Z0. apply (R2R_eq0 y Hy). rewrite Hv. apply R2R_zero. exact Z1. }
  rewrite <- Hz, <- Hs.
  destruct ((rc y =? 0) && rs y && negb z) eqn:E.
  - apply andb_prop in E as [E _]. apply andb_prop in E as [E _]. apply Z.eqb_eq in E.
    assert (E' : rc y' = 0) by (apply Z.eqb_eq; rewrite <- Hz; apply Z.eqb_eq; exact E).
    simpl. rewrite E, E'. split; [|reflexivity]. rewrite !R2R_zero by reflexivity. reflexivity.
  - simpl. auto.
Qed.

(* the NaN sign restoration changes no value (the sign of a NaN is not one) *)
Lemma nansign_equiv q x : vequiv (sem (LNanSign q) x) (sem q x).
Proof.
  cbn [sem]. destruct (sem q x) as [t|e]; cbn [bind vequiv]; [|reflexivity].
  destruct t; cbn [fl_isnan]; try apply fl_equiv_refl. simpl. exact I.
Qed.

Lemma f2f_round_equiv s nmin reach x :
  vequiv (sem (f2f_round s nmin reach) x) (vround (f2f_ctx s nmin reach) x).
Proof.
  unfold f2f_round. destruct (ff_policy s); try apply vequiv_refl. apply nansign_equiv.
Qed.

(* an overflow of the source that is not a finite value happened in a mode that rounds to infinity *)
Lemma ovr_float_nonfinite pm nm rm ov sp s v :
  ovr_float pm nm rm ov sp s = Ok v -> fl_isfinite v = false -> overflow_to_infinity rm s = true.
Proof.
  unfold ovr_float. destruct ov; try discriminate.
  - destruct (overflow_to_infinity rm s); [reflexivity|]. intros [= <-]. discriminate.
  - intros [= <-]. discriminate.
Qed.

Lemma fixup_val_nonfinite ei nk nv iv maxv r v :
  fixup_val ei nk nv iv maxv r = Ok v -> fl_isfinite v = false ->
  exists w, r = Ok w /\ fl_isfinite w = false.
Proof.
  destruct r as [w|e]; [|discriminate]. cbn [fixup_val]. intros Hv Hf. exists w. split; [reflexivity|].
  destruct w as [xr|s|s]; try reflexivity. rewrite fixup_fin in Hv. injection Hv as <-. discriminate.
Qed.

(* ---------------------------------------------------------------- a bounded float source *)
Lemma neg_rf_R x : rs x = false -> R2R (neg_rf x) = (- R2R x)%R.
Proof.
  intros Hs. unfold R2R, neg_rf, rf_m. cbn [rs rc rexp]. rewrite Hs. rewrite <- F2R_Zopp. reflexivity.
Qed.

Lemma neg_rf_wf x : rf_wf x -> rf_wf (neg_rf x).
Proof. unfold rf_wf, neg_rf. simpl. auto. Qed.

(* beyond the top binade every rounding overflows *)
Lemma beyond_overflows (fexp : Z -> Z) rm maxv negv xr y :
  Valid_exp fexp ->
  rf_wf maxv -> rf_wf negv -> rs maxv = false -> rs negv = true -> rc maxv <> 0 ->
  R2R negv = (- R2R maxv)%R ->
  rf_wf xr -> 0 < rc xr -> rf_wf y ->
  R2R y = round radix2 fexp (rnd_of rm) (R2R xr) ->
  rf_e maxv < rf_e xr ->
  generic_format radix2 fexp (bpow radix2 (rf_e maxv + 1)) ->
  is_overflowing maxv negv y = true.
Proof.
  intros Hv Wp Wn Sp Sn Cp Hneg Wx Cx Wy Hy He Hg.
  destruct (is_overflowing maxv negv y) eqn:E; [reflexivity|exfalso].
  apply (is_overflowing_spec maxv negv y Wp Wn Wy Sp (or_introl Sn)) in E. unfold in_range in E.
  assert (Cm : 0 < rc maxv) by (unfold rf_wf in Wp; lia).
  pose proof (R2R_abs_bounds maxv Cm) as [_ M2]. pose proof (R2R_abs_bounds xr Cx) as [X1 _].
  assert (Ppos : (0 < R2R maxv)%R) by (apply R2R_sign_pos; assumption).
  rewrite (Rabs_pos_eq (R2R maxv)) in M2 by lra.
  assert (B : (bpow radix2 (rf_e maxv + 1) <= Rabs (R2R xr))%R).
  { apply Rle_trans with (bpow radix2 (rf_e xr)); [apply bpow_le; lia|exact X1]. }
  pose proof (abs_round_ge_generic radix2 fexp (rnd_of rm) (bpow radix2 (rf_e maxv + 1)) (R2R xr) Hg B) as A.
  rewrite <- Hy in A. rewrite Hneg in E.
  assert (Rabs (R2R y) <= R2R maxv)%R by (apply Rabs_le; lra). lra.
Qed.

Section BoundedSource.
  Variables (c U : ctx) (maxv negv : rf) (p nmin : Z) (rm : rmode) (ovr : bool -> vres) (zU zC : bool).
  Hypothesis Hb : bounded_as c U maxv negv (Some p) nmin rm ovr zU zC.
  Hypothesis Hbo : bounds_ok (Some p) nmin maxv negv.
  Hypothesis Hmirror : R2R negv = (- R2R maxv)%R.
  Hypothesis Hovw : forall sg v, ovr sg = Ok v -> fl_wf v.
  Hypothesis Hnonfin : forall sg v, ovr sg = Ok v -> fl_isfinite v = false -> overflow_to_infinity rm sg = true.
  Variable s : f2f_src.
  Hypothesis Hmv : ff_maxv s = Some maxv.
  Hypothesis Hrm : ff_rm s = rm.
  Hypothesis Hnz : fl_s (ff_nz s) = zC.
  Hypothesis Hpol : f2f_policy c maxv negv = Some (ff_policy s).

  (* the emitted context *)
  Definition ovF : ovmode := match ff_policy s with PSaturating => OV_SATURATE | PUnbounded => OV_ASSERT | _ => OV_OVERFLOW end.
  Definition spF : special :=
    match ff_policy s with
    | PInfinite => SP false true None None
    | PNanOverflow => SP true false None (Some (FNaN false))
    | _ => SP false false None None
    end.

  Lemma policy_bounded : ff_policy s <> PUnbounded.
  Proof.
    unfold f2f_policy in Hpol.
    destruct (vround c (FFin (rf_shift maxv 1))) as [pos|]; [|discriminate].
    destruct (vround c (FFin (rf_shift negv 1))) as [neg|]; [|discriminate].
    destruct pos as [a|[|]|sa], neg as [b|[|]|sb]; try discriminate; try (injection Hpol as <-; discriminate).
    destruct (rf_eqb a maxv && rf_eqb b negv); [injection Hpol as <-; discriminate|discriminate].
  Qed.

  Lemma f2f_ctx_bounded nfix reach :
    f2f_ctx s nfix reach = CMPBFixed nfix maxv (neg_rf maxv) rm ovF (Some 0) spF zC.
  Proof.
    pose proof policy_bounded as Hnb. unfold f2f_ctx, ovF, spF. rewrite Hmv, Hrm, Hnz.
    destruct (ff_policy s); try reflexivity. congruence.
  Qed.

  Lemma overflow_agrees sg : vequiv (ovr_fixed maxv (neg_rf maxv) rm ovF spF sg) (ovr sg).
  Proof.
    destruct Hbo as (Hp & Wp & Wn & Sp & Cp & Sn & Cn & Gp & Gn).
    destruct (probe_overflows c U maxv negv (Some p) nmin rm ovr zU zC 1 Hb Hbo ltac:(lia)) as [P1 P2].
    unfold f2f_policy in Hpol. rewrite P1, P2 in Hpol.
    assert (Ppos : (0 < R2R maxv)%R) by (apply R2R_sign_pos; assumption).
    destruct (ovr false) as [pos|] eqn:E1; [|discriminate].
    destruct (ovr true) as [neg|] eqn:E2; [|discriminate].
    destruct pos as [a|[|]|sa], neg as [b|[|]|sb]; try discriminate.
    - (* saturating *)
      destruct (rf_eqb a maxv && rf_eqb b negv) eqn:Eab; [|discriminate]. injection Hpol as Hpol.
      apply andb_prop in Eab as [Ea Eb].
      pose proof (Hovw false _ E1) as Wa. pose proof (Hovw true _ E2) as Wb. simpl in Wa, Wb.
      apply (eq_iff_denote a maxv Wa Wp) in Ea. apply (eq_iff_denote b negv Wb Wn) in Eb.
      unfold ovr_fixed, ovF. rewrite <- Hpol.
      destruct sg.
      + rewrite E2. cbn [vequiv fl_equiv]. rewrite (neg_rf_R maxv Sp), Eb, Hmirror. split; [reflexivity|].
        cbn [neg_rf rs]. symmetry. apply (proj2 (sign_of_R b Wb)). lra.
      + rewrite E1. cbn [vequiv fl_equiv]. rewrite Ea. split; [reflexivity|].
        rewrite Sp. symmetry. apply (proj1 (sign_of_R a Wa)). lra.
    - (* infinite *)
      injection Hpol as Hpol.
      unfold ovr_fixed, ovF, spF. rewrite <- Hpol. cbn [sp_enable_inf].
      destruct sg.
      + rewrite (Hnonfin true _ E2 eq_refl), E2. apply vequiv_refl.
      + rewrite (Hnonfin false _ E1 eq_refl), E1. apply vequiv_refl.
    - (* NaN on overflow *)
      injection Hpol as Hpol.
      unfold ovr_fixed, ovF, spF. rewrite <- Hpol. cbn [sp_enable_inf sp_inf_value].
      destruct sg.
      + rewrite (Hnonfin true _ E2 eq_refl), E2. simpl. exact I.
      + rewrite (Hnonfin false _ E1 eq_refl), E1. simpl. exact I.
  Qed.

  Lemma ovF_not_wrap : ovF <> OV_WRAP.
  Proof. unfold ovF. destruct (ff_policy s); discriminate. Qed.

  (* the position the transform computes: the float's own, or clamped past the top binade *)
  Definition pos_ok (xr : rf) (nfix : Z) : Prop :=
    nfix = Z.max nmin (rf_e xr - p) \/ (rf_e maxv < rf_e xr /\ nfix <= rf_e maxv).

  Lemma bounded_core xr nfix reach :
    rf_wf xr -> rc xr <> 0 -> pos_ok xr nfix ->
    vequiv (vround (f2f_ctx s nfix reach) (FFin xr)) (vround c (FFin xr)).
  Proof.
    intros Hw Hnzx Hpos. rewrite f2f_ctx_bounded.
    destruct Hbo as (Hp & Wp & Wn & Sp & Cp & Sn & Cn & Gp & Gn).
    assert (Wnm : rf_wf (neg_rf maxv)) by (apply neg_rf_wf; exact Wp).
    destruct Hb as [Hb1 _]. destruct (Hb1 xr Hw Hnzx) as (y & f & Hr & _ & HC).
    destruct (mpbfixed_bounded nfix maxv (neg_rf maxv) rm ovF spF zC ovF_not_wrap) as [HF1 _].
    destruct (HF1 xr Hw Hnzx) as (y' & f' & Hr' & _ & HF).
    rewrite HC, HF.
    assert (Hsome : Some p <> None \/ Some nmin <> None) by (left; discriminate).
    assert (Hsome' : @None Z <> None \/ Some nfix <> None) by (right; discriminate).
    destruct (rf_round_spec xr (Some p) (Some nmin) rm Hw Hnzx Hp Hsome) as (y1 & f1 & Hr1 & Hv1 & Hs1 & Wy & _).
    rewrite Hr in Hr1. injection Hr1 as <- <-.
    destruct (rf_round_spec xr None (Some nfix) rm Hw Hnzx I Hsome') as (y2 & f2 & Hr2 & Hv2 & Hs2 & Wy' & _).
    rewrite Hr' in Hr2. injection Hr2 as <- <-.
    assert (Cx : 0 < rc xr) by (unfold rf_wf in Hw; lia).
    destruct Hpos as [Hpos|[He Hn]].
    - (* the float's own position *)
      destruct (float_to_fixed_eq xr p nmin rm Hw Hnzx Hp) as (ya & fa & yb & fb & Ra & Rb & Hv & Sa & Sb & _).
      rewrite Hr in Ra. injection Ra as <- <-. rewrite <- Hpos, Hr' in Rb. injection Rb as <- <-.
      rewrite (is_overflowing_value maxv (neg_rf maxv) maxv negv y' y) by
        (try assumption; try reflexivity; try (rewrite (neg_rf_R maxv Sp); symmetry; exact Hmirror); try (symmetry; exact Hv); congruence).
      destruct (is_overflowing maxv negv y).
      + replace (rs y') with (rs y) by congruence. apply overflow_agrees.
      + cbn [vequiv]. apply fnz_equiv; try assumption; [symmetry; exact Hv|congruence].
    - (* clamped: both overflow *)
      assert (O1 : is_overflowing maxv negv y = true).
      { apply (beyond_overflows (fexp_of (Some p) (Some nmin)) rm maxv negv xr y); try assumption.
        - apply valid_fexp_of. lia.
        - cbn [fexp_of]. apply generic_format_FLT_bpow; [unfold Prec_gt_0; lia|].
          (* the bound is a format member, so its exponent is at least the floor *)
          assert (Cm : 0 < rc maxv) by (unfold rf_wf in Wp; lia).
          pose proof (R2R_abs_bounds maxv Cm) as [M1 M2].
          assert (Ppos : (0 < R2R maxv)%R) by (apply R2R_sign_pos; assumption).
          cbn [fexp_of] in Gp.
          assert (Hge : (bpow radix2 (nmin + 1) <= R2R maxv)%R).
          { apply (generic_format_ge_bpow radix2 (FLT_exp (nmin + 1) p) (nmin + 1)); [|exact Ppos|exact Gp].
            intros e. unfold FLT_exp. lia. }
          rewrite (Rabs_pos_eq (R2R maxv)) in M2 by lra.
          assert (bpow radix2 (nmin + 1) < bpow radix2 (rf_e maxv + 1))%R by lra.
          apply lt_bpow in H. lia. }
      assert (O2 : is_overflowing maxv (neg_rf maxv) y' = true).
      { apply (beyond_overflows (fexp_of None (Some nfix)) rm maxv (neg_rf maxv) xr y'); try assumption.
        - apply valid_fexp_of. exact I.
        - reflexivity.
        - apply neg_rf_R. exact Sp.
        - cbn [fexp_of]. apply generic_format_bpow. unfold FIX_exp. lia. }
      rewrite O1, O2. replace (rs y') with (rs y) by congruence. apply overflow_agrees.
  Qed.
End BoundedSource.

(* ---------------------------------------------------------------- an unbounded float source *)
(* the emitted bound 2^k states how far the operand reaches: nothing overflows it *)
Lemma reach_holds nfix k rm xr y' f' :
  rf_wf xr -> rc xr <> 0 -> nfix + 1 <= k -> rf_e xr + 1 <= k ->
  rf_round xr None (Some nfix) rm false = Ok (y', f') ->
  vround (CMPBFixed nfix (RF false k 1) (neg_rf (RF false k 1)) rm OV_ASSERT (Some 0) (SP false false None None) true) (FFin xr)
  = Ok (FFin y').
Proof.
  intros Hw Hnz Hk He Hr.
  assert (Hnw : OV_ASSERT <> OV_WRAP) by discriminate.
  destruct (mpbfixed_bounded nfix (RF false k 1) (neg_rf (RF false k 1)) rm OV_ASSERT (SP false false None None) true Hnw) as [HF _].
  destruct (HF xr Hw Hnz) as (y2 & f2 & Hr2 & _ & HC). rewrite Hr in Hr2. injection Hr2 as <- <-.
  rewrite HC. rewrite fnz_true.
  assert (Hsome : @None Z <> None \/ Some nfix <> None) by (right; discriminate).
  destruct (rf_round_spec xr None (Some nfix) rm Hw Hnz I Hsome) as (y3 & f3 & Hr3 & Hv & Hs & Wy & _).
  rewrite Hr in Hr3. injection Hr3 as <- <-.
  assert (Cx : 0 < rc xr) by (unfold rf_wf in Hw; lia).
  pose proof (R2R_abs_bounds xr Cx) as [_ X2].
  assert (Wr : rf_wf (RF false k 1)) by (unfold rf_wf; simpl; lia).
  assert (Rr : R2R (RF false k 1) = bpow radix2 k).
  { unfold R2R, rf_m, F2R. cbn. ring. }
  assert (Hov : is_overflowing (RF false k 1) (neg_rf (RF false k 1)) y' = false).
  { apply (is_overflowing_spec _ _ y' Wr (neg_rf_wf _ Wr) Wy eq_refl (or_introl eq_refl)).
    unfold in_range. rewrite (neg_rf_R (RF false k 1) eq_refl), Rr. apply Rabs_le_inv. rewrite Hv.
    apply abs_round_le_generic.
    - apply valid_fexp_of. exact I.
    - apply valid_rnd_of.
    - cbn [fexp_of]. apply generic_format_bpow. unfold FIX_exp. lia.
    - apply Rlt_le. apply Rlt_le_trans with (bpow radix2 (rf_e xr + 1)); [exact X2|apply bpow_le; lia]. }
  rewrite Hov. reflexivity.
Qed.

Lemma mpsfloat_fin p emin rm sp xr y f : rc xr <> 0 ->
  rf_round xr (Some p) (Some (mps_nmin p emin)) rm false = Ok (y, f) ->
  vround (CMPSFloat p emin rm (Some 0) sp) (FFin xr) = Ok (FFin y).
Proof.
  intros Hnz Hr. unfold vround, ctx_round0, ctx_round, round_mpsfloat, special_float, clamp_n, rf_round_k.
  rewrite (is_zero_false xr Hnz), Hr. reflexivity.
Qed.

Lemma mpfloat_fin p rm sp xr y f : rc xr <> 0 ->
  rf_round xr (Some p) None rm false = Ok (y, f) ->
  vround (CMPFloat p rm (Some 0) sp) (FFin xr) = Ok (FFin y).
Proof.
  intros Hnz Hr. unfold vround, ctx_round0, ctx_round, round_mpfloat, special_float, rf_round_k.
  rewrite (is_zero_false xr Hnz), Hr. reflexivity.
Qed.

(* ---------------------------------------------------------------- the emitted program *)
Lemma sem_f2f_lp s x :
  sem (f2f_lp s) x =
  match x with
  | FNaN _ => Ok (ff_nan s)
  | FInf sg => Ok (if sg then ff_ninf s else ff_pinf s)
  | FFin r =>
      if is_zero r then Ok (if rs r then ff_nz s else ff_pz s)
      else
        let e := rf_e r in
        match ff_em s with
        | Some (emin, expmin) =>
            if e <? emin then sem (f2f_round s (expmin - 1) (RF false emin 1)) x
            else sem (f2f_round s (f2f_pos (ff_pmax s) (ff_em s) (ff_expmax s) e - 1)
                                (RF false (f2f_pos (ff_pmax s) (ff_em s) (ff_expmax s) e + ff_pmax s) 1)) x
        | None => sem (f2f_round s (f2f_pos (ff_pmax s) (ff_em s) (ff_expmax s) e - 1)
                                  (RF false (f2f_pos (ff_pmax s) (ff_em s) (ff_expmax s) e + ff_pmax s) 1)) x
        end
  end.
Proof.
  unfold f2f_lp. destruct x as [r|sg|sg]; cbn [sem eval_test fl_isnan fl_isinf fl_s].
  - rewrite fl_eq0_fin. destruct (is_zero r) eqn:Hz; [reflexivity|].
    destruct (ff_em s) as [[emin expmin]|]; reflexivity.
  - destruct sg; reflexivity.
  - destruct sg; reflexivity.
Qed.

Lemma f2f_pos_clamped' p em expmin expmax e : expmax < e - p + 1 ->
  f2f_pos p (Some (em, expmin)) (Some expmax) e = expmax.
Proof. unfold f2f_pos. lia. Qed.

Lemma f2f_position_exact p emin expmax e :
  (e < emin -> (emin - p + 1) - 1 = Z.max (mps_nmin p emin) (e - p)) /\
  (emin <= e -> e - p + 1 <= expmax ->
     f2f_pos p (Some (emin, emin - p + 1)) (Some expmax) e - 1 = Z.max (mps_nmin p emin) (e - p)) /\
  (expmax < e - p + 1 -> f2f_pos p (Some (emin, emin - p + 1)) (Some expmax) e = expmax).
Proof.
  split; [exact (f2f_pos_sub p emin e)|].
  split; [exact (f2f_pos_normal p emin expmax e)|exact (f2f_pos_clamped' p emin (emin - p + 1) expmax e)].
Qed.

(* what the float constructors guarantee *)
Definition f2f_ctx_ok (c : ctx) : Prop :=
  match c with
  | CMPFloat p _ _ _ | CMPSFloat p _ _ _ _ => 1 <= p
  | CMPBFloat _ _ _ _ _ _ _ _ | CEFloat _ _ _ _ _ _ _ _ _ _ => uo_ctx_ok c
  | _ => True
  end.

(* a format with a non-zero finite value *)
Definition f2f_nondegenerate (c : ctx) : Prop :=
  match uo_parts c with Some (_, maxv, _, _, _) => rc maxv <> 0 | None => True end.

Lemma mirror_facts maxv negv : rf_wf maxv -> rf_wf negv -> rs maxv = false -> rc maxv <> 0 ->
  rf_eqb negv (neg_rf maxv) = true ->
  R2R negv = (- R2R maxv)%R /\ rs negv = true /\ rc negv <> 0.
Proof.
  intros Wp Wn Sp Cp He. apply (eq_iff_denote negv (neg_rf maxv) Wn (neg_rf_wf _ Wp)) in He.
  rewrite (neg_rf_R maxv Sp) in He. split; [exact He|].
  assert (Ppos : (0 < R2R maxv)%R) by (apply R2R_sign_pos; assumption).
  split.
  - apply (proj2 (sign_of_R negv Wn)). lra.
  - intros Z0. rewrite (R2R_zero negv Z0) in He. lra.
Qed.

Section BoundedAssembly.
  Variables (c U : ctx) (maxv negv : rf) (p emin : Z) (rm : rmode) (ovr : bool -> vres) (zC : bool).
  Hypothesis Hb : bounded_as c U maxv negv (Some p) (mps_nmin p emin) rm ovr true zC.
  Hypothesis Hbo : bounds_ok (Some p) (mps_nmin p emin) maxv negv.
  Hypothesis Hmirror : R2R negv = (- R2R maxv)%R.
  Hypothesis Hovw : forall sg v, ovr sg = Ok v -> fl_wf v.
  Hypothesis Hnonfin : forall sg v, ovr sg = Ok v -> fl_isfinite v = false -> overflow_to_infinity rm sg = true.
  Hypothesis Hnan : forall sg, vround c (FNaN sg) = vround c (FNaN false).
  Hypothesis Hreal : c <> CReal.
  Variables (pol : policy) (a b b' z z' : fl).
  Let s := F2F p (Some (emin, emin - p + 1)) (Some (rf_e maxv - p + 1)) (Some maxv) rm pol a b b' z z'.
  Hypothesis Hpol : f2f_policy c maxv negv = Some pol.
  Hypothesis Ha : vround c pos_nan = Ok a.
  Hypothesis Hbb : vround c pos_inf = Ok b.
  Hypothesis Hbb' : vround c (FInf true) = Ok b'.
  Hypothesis Hzz : vround c pos_zero = Ok z.
  Hypothesis Hzz' : vround c (FFin (RF true 0 0)) = Ok z'.

  Lemma bounded_assembly x : fl_wf x -> vequiv (sem (f2f_lp s) x) (vround c x).
  Proof.
    intros Hw. rewrite sem_f2f_lp. destruct x as [r|sg|sg].
    - destruct (is_zero r) eqn:Hz.
      + rewrite (vround_zero c r Hreal Hz). cbn [ff_nz ff_pz s].
        destruct (rs r); [rewrite Hzz'|fold zero_rf; fold pos_zero; rewrite Hzz]; apply vequiv_refl.
      + assert (Hnz : rc r <> 0) by (unfold is_zero in Hz; apply Z.eqb_neq; exact Hz).
        assert (Hz'' : fl_s z' = zC).
        { destruct Hb as [_ Hb0]. destruct (Hb0 true 0) as [_ E]. rewrite E in Hzz'. injection Hzz' as <-. reflexivity. }
        assert (Hcore : forall nfix reach, pos_ok maxv p (mps_nmin p emin) r nfix ->
                  vequiv (sem (f2f_round s nfix reach) (FFin r)) (vround c (FFin r))).
        { intros nfix reach Hpos. eapply vequiv_trans; [apply f2f_round_equiv|].
          apply (bounded_core c U maxv negv p (mps_nmin p emin) rm ovr true zC Hb Hbo Hmirror Hovw Hnonfin s
                   eq_refl eq_refl Hz'' Hpol r nfix reach Hw Hnz Hpos). }
        cbn [ff_em ff_pmax ff_expmax s]. cbv zeta.
        destruct (Z.ltb_spec (rf_e r) emin) as [Hlt|Hge].
        * apply Hcore. left. apply f2f_pos_sub. exact Hlt.
        * destruct (Z_le_gt_dec (rf_e r - p + 1) (rf_e maxv - p + 1)) as [Hle|Hgt].
          { apply Hcore. left. apply f2f_pos_normal; assumption. }
          { apply Hcore. right. rewrite f2f_pos_clamped' by lia. destruct Hbo as (Hp1 & _). simpl in Hp1. lia. }
    - cbn [ff_ninf ff_pinf s]. destruct sg; [rewrite Hbb'|fold pos_inf; rewrite Hbb]; apply vequiv_refl.
    - cbn [ff_nan s]. rewrite Hnan. fold pos_nan. rewrite Ha. apply vequiv_refl.
  Qed.
End BoundedAssembly.

(* ---------------------------------------------------------------- float_to_fixed_ctx_eq *)
Lemma special_float_nan sp sg : special_float sp (FNaN sg) = special_float sp (FNaN false).
Proof. reflexivity. Qed.

(* round_F(x) = round_{A(inf, n(x), B)}(x): the emitted program -- the special
   ladder, logb, the subnormal branch `e < emin` at the constant position, the
   clamp of the computed position, the fixed-point context with the float's own
   bound and overflow rule -- returns what the float context returns, for
   MPFloat, MPSFloat, MPBFloat and EFloat/IEEE sources, every mode and
   overflow policy the transform accepts, every operand *)
Theorem float_to_fixed_ctx_eq fx c s x :
  f2f_describe fx c = Some s -> f2f_ctx_ok c ->
  (fx_degenerate fx = true \/ f2f_nondegenerate c) ->
  fl_wf x ->
  vequiv (sem (f2f_lp s) x) (vround c x).
Proof.
  intros Hd Hok Hdeg Hw. unfold f2f_describe in Hd.
  destruct (deterministic c) eqn:Hdet; [|discriminate]. cbn [negb] in Hd.
  unfold deterministic, ctx_k in Hdet.
  destruct c; try discriminate; cbn [f2f_parts] in Hd; cbv beta zeta iota in Hd.
  - (* MPFloat *)
    destruct k as [[| |]|]; try discriminate. cbn [f2f_ctx_ok] in Hok.
    destruct (vround (CMPFloat pmax rm (Some 0) sp) pos_nan) as [a|] eqn:Ea; cbv iota in Hd; [|discriminate].
    destruct (vround (CMPFloat pmax rm (Some 0) sp) pos_inf) as [b|] eqn:Eb; cbv iota in Hd; [|discriminate].
    destruct (vround (CMPFloat pmax rm (Some 0) sp) (FInf true)) as [b'|] eqn:Eb'; cbv iota in Hd; [|discriminate].
    destruct (vround (CMPFloat pmax rm (Some 0) sp) pos_zero) as [z|] eqn:Ez; cbv iota in Hd; [|discriminate].
    destruct (vround (CMPFloat pmax rm (Some 0) sp) (FFin (RF true 0 0))) as [z'|] eqn:Ez'; cbv iota in Hd; [|discriminate].
    injection Hd as <-. rewrite sem_f2f_lp.
    destruct x as [r|sg|sg].
    + destruct (is_zero r) eqn:Hz.
      * rewrite (vround_zero (CMPFloat pmax rm (Some 0) sp) r ltac:(discriminate) Hz). cbn [ff_nz ff_pz].
        destruct (rs r); [rewrite Ez'|fold zero_rf; fold pos_zero; rewrite Ez]; apply vequiv_refl.
      * assert (Hnz : rc r <> 0) by (unfold is_zero in Hz; apply Z.eqb_neq; exact Hz).
        cbn [ff_em ff_pmax ff_expmax]. cbv zeta.
        eapply vequiv_trans; [apply f2f_round_equiv|].
        destruct (float_to_fixed_eq_flx r pmax rm Hw Hnz Hok) as (y & f & y' & f' & Ry & Ry' & Hv & Sy & Sy' & Wy & Wy' & _).
        rewrite (mpfloat_fin pmax rm sp r y f Hnz Ry).
        assert (Hzs : fl_s z' = true).
        { unfold vround, ctx_round0, ctx_round, round_mpfloat in Ez'. cbn in Ez'. injection Ez' as <-. reflexivity. }
        unfold f2f_ctx. cbn [ff_policy ff_maxv ff_rm ff_nz]. rewrite Hzs.
        rewrite f2f_pos_flx.
        rewrite (reach_holds (rf_e r - pmax) _ rm r y' f' Hw Hnz); [| |unfold f2f_pos; lia|exact Ry'].
        -- cbn [vequiv fl_equiv]. split; [symmetry; exact Hv|congruence].
        -- unfold f2f_pos. lia.
    + cbn [ff_ninf ff_pinf]. destruct sg; [rewrite Eb'|fold pos_inf; rewrite Eb]; apply vequiv_refl.
    + cbn [ff_nan]. replace (vround (CMPFloat pmax rm (Some 0) sp) (FNaN sg)) with (vround (CMPFloat pmax rm (Some 0) sp) pos_nan) by reflexivity.
      rewrite Ea. apply vequiv_refl.
  - (* MPSFloat *)
    destruct k as [[| |]|]; try discriminate. cbn [f2f_ctx_ok] in Hok.
    destruct (vround (CMPSFloat pmax emin rm (Some 0) sp) pos_nan) as [a|] eqn:Ea; cbv iota in Hd; [|discriminate].
    destruct (vround (CMPSFloat pmax emin rm (Some 0) sp) pos_inf) as [b|] eqn:Eb; cbv iota in Hd; [|discriminate].
    destruct (vround (CMPSFloat pmax emin rm (Some 0) sp) (FInf true)) as [b'|] eqn:Eb'; cbv iota in Hd; [|discriminate].
    destruct (vround (CMPSFloat pmax emin rm (Some 0) sp) pos_zero) as [z|] eqn:Ez; cbv iota in Hd; [|discriminate].
    destruct (vround (CMPSFloat pmax emin rm (Some 0) sp) (FFin (RF true 0 0))) as [z'|] eqn:Ez'; cbv iota in Hd; [|discriminate].
    injection Hd as <-. rewrite sem_f2f_lp.
    destruct x as [r|sg|sg].
    + destruct (is_zero r) eqn:Hz.
      * rewrite (vround_zero (CMPSFloat pmax emin rm (Some 0) sp) r ltac:(discriminate) Hz). cbn [ff_nz ff_pz].
        destruct (rs r); [rewrite Ez'|fold zero_rf; fold pos_zero; rewrite Ez]; apply vequiv_refl.
      * assert (Hnz : rc r <> 0) by (unfold is_zero in Hz; apply Z.eqb_neq; exact Hz).
        cbn [ff_em ff_pmax ff_expmax]. cbv zeta.
        destruct (float_to_fixed_eq r pmax (mps_nmin pmax emin) rm Hw Hnz Hok) as (y & f & y' & f' & Ry & Ry' & Hv & Sy & Sy' & Wy & Wy' & _).
        rewrite (mpsfloat_fin pmax emin rm sp r y f Hnz Ry).
        assert (Hzs : fl_s z' = true).
        { unfold vround, ctx_round0, ctx_round, round_mpsfloat in Ez'. cbn in Ez'. injection Ez' as <-. reflexivity. }
        assert (Hfin : fl_equiv (FFin y') (FFin y)) by (cbn [fl_equiv]; split; [symmetry; exact Hv|congruence]).
        destruct (Z.ltb_spec (rf_e r) emin) as [Hlt|Hge].
        -- eapply vequiv_trans; [apply f2f_round_equiv|].
           unfold f2f_ctx. cbn [ff_policy ff_maxv ff_rm ff_nz]. rewrite Hzs.
           rewrite (f2f_pos_sub pmax emin (rf_e r) Hlt).
           rewrite (reach_holds _ emin rm r y' f' Hw Hnz); [exact Hfin| | |exact Ry']; unfold mps_nmin; lia.
        -- eapply vequiv_trans; [apply f2f_round_equiv|].
           unfold f2f_ctx. cbn [ff_policy ff_maxv ff_rm ff_nz]. rewrite Hzs.
           rewrite (f2f_pos_normal_unbounded pmax emin (rf_e r) Hge).
           rewrite (reach_holds _ _ rm r y' f' Hw Hnz); [exact Hfin| | |exact Ry']; unfold f2f_pos, mps_nmin; lia.
    + cbn [ff_ninf ff_pinf]. destruct sg; [rewrite Eb'|fold pos_inf; rewrite Eb]; apply vequiv_refl.
    + cbn [ff_nan]. replace (vround (CMPSFloat pmax emin rm (Some 0) sp) (FNaN sg)) with (vround (CMPSFloat pmax emin rm (Some 0) sp) pos_nan) by reflexivity.
      rewrite Ea. apply vequiv_refl.
  - (* MPBFloat *)
    destruct k as [[| |]|]; try discriminate. cbn [f2f_ctx_ok] in Hok.
    destruct Hok as [Hsub Hfmt]. cbn [uo_parts] in Hfmt. destruct Hfmt as (Hp1 & Wp & Wn & Sp & Gp & Gn).
    assert (Cp : rc pos_max <> 0).
    { destruct Hdeg as [Hf|Hn]; [|exact Hn]. rewrite Hf in Hd. cbn [andb] in Hd.
      destruct (Z.eqb_spec (rc pos_max) 0); [discriminate|assumption]. }
    destruct (fx_degenerate fx && (rc pos_max =? 0)); [discriminate|].
    destruct (rf_eqb neg_max (neg_rf pos_max)) eqn:Hmir; [|discriminate]. cbn [negb] in Hd.
    destruct (rexp pos_max <? rf_e pos_max - pmax + 1); [discriminate|].
    destruct (f2f_policy _ pos_max neg_max) as [pol|] eqn:Hpol; [|discriminate].
    set (c := CMPBFloat pmax emin pos_max neg_max rm ov (Some 0) sp) in *.
    destruct (vround c pos_nan) as [a|] eqn:Ea; cbv iota in Hd; [|discriminate].
    destruct (vround c pos_inf) as [b|] eqn:Eb; cbv iota in Hd; [|discriminate].
    destruct (vround c (FInf true)) as [b'|] eqn:Eb'; cbv iota in Hd; [|discriminate].
    destruct (vround c pos_zero) as [z|] eqn:Ez; cbv iota in Hd; [|discriminate].
    destruct (vround c (FFin (RF true 0 0))) as [z'|] eqn:Ez'; cbv iota in Hd; [|discriminate].
    injection Hd as <-.
    destruct (mirror_facts pos_max neg_max Wp Wn Sp Cp Hmir) as (Hm & Sn & Cn).
    apply (bounded_assembly c (CMPSFloat pmax emin rm (Some 0) sp_default) pos_max neg_max pmax emin rm
             (ovr_float pos_max neg_max rm ov sp) true); try assumption.
    + apply mpbfloat_bounded. exact Hp1.
    + repeat split; assumption.
    + intros sg v. apply ovr_float_wf; assumption.
    + intros sg v. apply ovr_float_nonfinite.
    + intros sg. reflexivity.
    + discriminate.
  - (* EFloat *)
    destruct k as [[| |]|]; try discriminate. cbn [f2f_ctx_ok] in Hok.
    destruct Hok as [Hsub Hfmt]. cbn [uo_parts] in Hfmt.
    destruct (efloat_valid es nbits enable_inf nk) eqn:Hv; [|discriminate]. cbn [negb] in Hd, Hfmt.
    destruct (eoffset =? 0) eqn:Heo; [|discriminate]. cbn [negb] in Hd.
    destruct (ext_to_mpb es nbits enable_inf nk eoffset) as [[[p0 em] mv]|] eqn:He; [|discriminate].
    destruct Hfmt as (Hp1 & Wp & Wn & Sp & Gp & Gn).
    assert (Cp : rc mv <> 0).
    { destruct Hdeg as [Hf|Hn].
      - rewrite Hf in Hd. cbn [andb] in Hd. destruct (Z.eqb_spec (rc mv) 0); [discriminate|assumption].
      - unfold f2f_nondegenerate in Hn. cbn [uo_parts] in Hn. rewrite Hv, He in Hn. exact Hn. }
    destruct (fx_degenerate fx && (rc mv =? 0)); [discriminate|].
    destruct (rf_eqb (neg_rf mv) (neg_rf mv)) eqn:Hmir; [|discriminate]. cbn [negb] in Hd.
    destruct (rexp mv <? rf_e mv - p0 + 1); [discriminate|].
    destruct (f2f_policy _ mv (neg_rf mv)) as [pol|] eqn:Hpol; [|discriminate].
    set (c := CEFloat es nbits enable_inf nk eoffset rm ov (Some 0) nan_value inf_value) in *.
    destruct (vround c pos_nan) as [a|] eqn:Ea; cbv iota in Hd; [|discriminate].
    destruct (vround c pos_inf) as [b|] eqn:Eb; cbv iota in Hd; [|discriminate].
    destruct (vround c (FInf true)) as [b'|] eqn:Eb'; cbv iota in Hd; [|discriminate].
    destruct (vround c pos_zero) as [z|] eqn:Ez; cbv iota in Hd; [|discriminate].
    destruct (vround c (FFin (RF true 0 0))) as [z'|] eqn:Ez'; cbv iota in Hd; [|discriminate].
    injection Hd as <-. destruct Hsub as [Hnv Hiv].
    destruct (mirror_facts mv (neg_rf mv) Wp Wn Sp Cp Hmir) as (Hm & Sn & Cn).
    apply (bounded_assembly c (CMPSFloat p0 em rm (Some 0) sp_default) mv (neg_rf mv) p0 em rm
             (fun sg => fixup_val enable_inf nk nan_value inf_value mv (ovr_float mv (neg_rf mv) rm ov sp_default sg))
             (negb (is_negzero nk))); try assumption.
    + apply efloat_bounded; assumption.
    + repeat split; assumption.
    + intros sg v. destruct (ovr_float mv (neg_rf mv) rm ov sp_default sg) as [w|] eqn:Ew; [|discriminate].
      cbn [fixup_val]. intros [= <-]. apply fixup_wf; try assumption.
      eapply ovr_float_wf; [exact Wp|exact Wn|exact sp_default_wf|exact Ew].
    + intros sg v Hr Hf. destruct (fixup_val_nonfinite _ _ _ _ _ _ _ Hr Hf) as (w & Ew & Hfw).
      eapply ovr_float_nonfinite; eassumption.
    + intros sg. unfold c, vround, ctx_round0, ctx_round, round_efloat. rewrite Hv, He. reflexivity.
    + discriminate.
Qed.
