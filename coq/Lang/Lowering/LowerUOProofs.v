(* C10, part 2: unfold_overflow (and its early check). *)
From Coq Require Import ZArith List Bool Lia Reals Psatz.
From Flocq Require Import Core.Zaux Core.Raux Core.Defs Core.Digits Core.Float_prop
  Core.Generic_fmt Core.FLX Core.FLT Core.FIX.
From FpyV Require Import Num.RealFloat Num.RealFloatProofs Num.RoundSpec Num.RoundProofs
  Num.Float Num.FloatProofs Num.CtxDef Num.Ctx Num.CtxProofs Lang.Lowering.Lower Lang.Lowering.LowerProofs.
Import ListNotations.
Open Scope Z_scope.

(* ---------------------------------------------------------------- comparisons against a bound *)
Lemma cmp_pos_bound y b : rs b = false -> rc b <> 0 ->
  rf_compare y b = Gt -> rs y = false /\ rc y <> 0.
Proof.
  intros Sb Cb. unfold rf_compare. destruct (Z.eqb_spec (rc y) 0) as [Zy|Zy].
  - destruct (Z.eqb_spec (rc b) 0); [contradiction|]. rewrite Sb. discriminate.
  - destruct (Z.eqb_spec (rc b) 0); [contradiction|]. rewrite Sb.
    destruct (rs y); cbn; [discriminate|auto].
Qed.

Lemma cmp_neg_bound y b : rs b = true -> rc b <> 0 ->
  rf_compare y b = Lt -> rs y = true /\ rc y <> 0.
Proof.
  intros Sb Cb. unfold rf_compare. destruct (Z.eqb_spec (rc y) 0) as [Zy|Zy].
  - destruct (Z.eqb_spec (rc b) 0); [contradiction|]. rewrite Sb. discriminate.
  - destruct (Z.eqb_spec (rc b) 0); [contradiction|]. rewrite Sb.
    destruct (rs y); cbn; [auto|discriminate].
Qed.

(* the sign of a zero does not take part in a comparison *)
Lemma rf_compare_zero_sign s s' e e' b : rf_compare (RF s e 0) b = rf_compare (RF s' e' 0) b.
Proof. unfold rf_compare. cbn. reflexivity. Qed.

(* a post-processing that only touches the sign / exponent of a zero *)
Definition zero_only (f : rf -> rf) : Prop :=
  forall y, f y = y \/ (rc y = 0 /\ rc (f y) = 0).

Lemma zero_only_compare f y b : zero_only f -> rf_compare (f y) b = rf_compare y b.
Proof.
  intros Hf. destruct (Hf y) as [->|[Z1 Z2]]; [reflexivity|].
  destruct y as [s e c], (f (RF s e c)) as [s' e' c']. simpl in *. subst. apply rf_compare_zero_sign.
Qed.

Lemma zero_only_id : zero_only (fun y => y).
Proof. intros y. left. reflexivity. Qed.

Lemma zero_only_fnz nz : zero_only (fix_neg_zero nz).
Proof.
  intros y. unfold fix_neg_zero, is_zero. destruct (Z.eqb_spec (rc y) 0) as [Z0|Z0]; cbn [andb]; [|left; reflexivity].
  destruct (rs y && negb nz); [right; simpl; auto|left; reflexivity].
Qed.

(* the bound checks of the emitted program decide `is_overflowing` *)
Lemma bound_checks pm nm t y :
  rs pm = false -> rc pm <> 0 -> rs nm = true -> rc nm <> 0 ->
  rf_compare t pm = rf_compare y pm -> rf_compare t nm = rf_compare y nm ->
  (fl_gt (FFin t) pm = (negb (rs y) && is_overflowing pm nm y)) /\
  (fl_gt (FFin t) pm = false -> fl_lt (FFin t) nm = (rs y && is_overflowing pm nm y)).
Proof.
  intros Sp Cp Sn Cn E1 E2. unfold fl_gt, fl_lt, fl_compare, is_overflowing. rewrite E1, E2.
  destruct (rs y) eqn:Sy; cbn [negb andb].
  - split.
    + destruct (rf_compare y pm) eqn:E; try reflexivity.
      destruct (cmp_pos_bound y pm Sp Cp E) as [H _]. congruence.
    + intros _. destruct (rf_compare y nm); reflexivity.
  - split.
    + destruct (rf_compare y pm); reflexivity.
    + intros _. destruct (rf_compare y nm) eqn:E; try reflexivity.
      destruct (cmp_neg_bound y nm Sn Cn E) as [H _]. congruence.
Qed.

(* ---------------------------------------------------------------- a bounded rounding seen through its unbounded sibling *)
(* For a finite non-zero operand: both round to the same y; U returns it (less
   the sign of a zero where zU = false), C returns the overflow constant of the
   sign when y leaves [negv, maxv] and y otherwise (less the sign of a zero
   where zC = false).  A zero operand keeps its sign where zU / zC say so. *)
Definition bounded_as (c U : ctx) (maxv negv : rf) (p : option Z) (n : Z) (rm : rmode)
    (ovr : bool -> vres) (zU zC : bool) : Prop :=
  (forall xr, rf_wf xr -> rc xr <> 0 ->
    exists y f, rf_round xr p (Some n) rm false = Ok (y, f) /\
      vround U (FFin xr) = Ok (FFin (fix_neg_zero zU y)) /\
      vround c (FFin xr) = (if is_overflowing maxv negv y then ovr (rs y) else Ok (FFin (fix_neg_zero zC y)))) /\
  (forall s e, vround U (FFin (RF s e 0)) = Ok (FFin (RF (s && zU) 0 0)) /\
               vround c (FFin (RF s e 0)) = Ok (FFin (RF (s && zC) 0 0))).

Lemma sem_bound q mv nv op on dnz x t : sem q x = Ok t ->
  sem (LBound q mv nv op on dnz) x =
  Ok (if fl_gt t mv then op else if fl_lt t nv then on else if dnz && fl_eq0 t then FFin zero_rf else t).
Proof. intros H. cbn [sem]. rewrite H. reflexivity. Qed.

Lemma fnz_true y : fix_neg_zero true y = y.
Proof. unfold fix_neg_zero. rewrite andb_false_r. reflexivity. Qed.

Lemma post_equiv zU zC y : implb zC zU = true ->
  fl_equiv (if (zU && negb zC) && fl_eq0 (FFin (fix_neg_zero zU y)) then FFin zero_rf else FFin (fix_neg_zero zU y))
           (FFin (fix_neg_zero zC y)).
Proof.
  intros Hi. rewrite fl_eq0_fin.
  destruct zU, zC; try discriminate; cbn [andb negb]; rewrite ?fnz_true; try apply fl_equiv_refl.
  unfold fix_neg_zero, is_zero, zero_rf. destruct (Z.eqb_spec (rc y) 0) as [Z0|Z0]; cbn [andb negb]; [|apply fl_equiv_refl].
  rewrite andb_true_r. destruct y as [s e c]. simpl in Z0. subst c. cbn [rs rexp rc].
  destruct s; apply equiv_zero.
Qed.

(* the heart of unfold_overflow on a finite non-zero operand *)
Lemma uo_finite_core c U maxv negv p n rm ovr zU zC op on xr :
  bounded_as c U maxv negv p n rm ovr zU zC ->
  rs maxv = false -> rc maxv <> 0 -> rs negv = true -> rc negv <> 0 ->
  implb zC zU = true ->
  ovr false = Ok op -> ovr true = Ok on ->
  rf_wf xr -> rc xr <> 0 ->
  vequiv (sem (LBound (LRound U) maxv negv op on (zU && negb zC)) (FFin xr)) (vround c (FFin xr)).
Proof.
  intros [Hb _] Sp Cp Sn Cn Hz Hop Hon Hw Hnz.
  destruct (Hb xr Hw Hnz) as (y & f & Hr & HU & HC).
  rewrite (sem_bound (LRound U) maxv negv op on _ (FFin xr) (FFin (fix_neg_zero zU y)) HU), HC.
  destruct (bound_checks maxv negv (fix_neg_zero zU y) y Sp Cp Sn Cn
              (zero_only_compare _ y maxv (zero_only_fnz zU))
              (zero_only_compare _ y negv (zero_only_fnz zU))) as [G L].
  destruct (is_overflowing maxv negv y) eqn:Hov.
  - destruct (rs y) eqn:Sy; cbn [negb andb] in *.
    + rewrite G, (L G). rewrite Hon. apply vequiv_refl.
    + rewrite G. rewrite Hop. apply vequiv_refl.
  - rewrite andb_false_r in *. rewrite G, (L G).
    cbn [vequiv]. apply post_equiv. exact Hz.
Qed.

(* a zero operand: rounded to a zero, past no bound *)
Lemma uo_zero_core c U maxv negv p n rm ovr zU zC op on s e :
  bounded_as c U maxv negv p n rm ovr zU zC ->
  rs maxv = false -> rc maxv <> 0 -> rs negv = true -> rc negv <> 0 ->
  implb zC zU = true ->
  vequiv (sem (LBound (LRound U) maxv negv op on (zU && negb zC)) (FFin (RF s e 0))) (vround c (FFin (RF s e 0))).
Proof.
  intros [_ Hz0] Sp Cp Sn Cn Hz. destruct (Hz0 s e) as [HU HC].
  rewrite (sem_bound (LRound U) maxv negv op on _ _ _ HU), HC.
  assert (G : fl_gt (FFin (RF (s && zU) 0 0)) maxv = false).
  { unfold fl_gt, fl_compare, rf_compare. cbn [rc rs]. cbn [Z.eqb].
    destruct (Z.eqb_spec (rc maxv) 0); [contradiction|]. rewrite Sp. reflexivity. }
  assert (L : fl_lt (FFin (RF (s && zU) 0 0)) negv = false).
  { unfold fl_lt, fl_compare, rf_compare. cbn [rc rs]. cbn [Z.eqb].
    destruct (Z.eqb_spec (rc negv) 0); [contradiction|]. rewrite Sn. reflexivity. }
  rewrite G, L. rewrite fl_eq0_fin. unfold is_zero. cbn [rc Z.eqb]. rewrite andb_true_r.
  cbn [vequiv]. destruct zU, zC; try discriminate; cbn [andb negb]; rewrite ?andb_true_r, ?andb_false_r;
    try apply fl_equiv_refl.
Qed.

(* ---------------------------------------------------------------- the probes overflow *)
Lemma gf_double (fexp : Z -> Z) x : Valid_exp fexp -> (forall e, fexp (e + 1) <= fexp e + 1) ->
  generic_format radix2 fexp x -> generic_format radix2 fexp (x * 2).
Proof.
  intros Hv Hm Hx. destruct (Req_dec x 0) as [->|Hnz].
  { rewrite Rmult_0_l. apply generic_format_0. }
  unfold generic_format in Hx. set (m := Ztrunc (scaled_mantissa radix2 fexp x)) in *.
  assert (E : (x * 2 = F2R (Float radix2 m (cexp radix2 fexp x + 1)))%R).
  { transitivity (F2R (Float radix2 m (cexp radix2 fexp x)) * 2)%R; [rewrite <- Hx; reflexivity|].
    unfold F2R. cbn [Fnum Fexp]. rewrite bpow_plus. change (bpow radix2 1) with 2%R. ring. }
  rewrite E. apply generic_format_F2R. intros _. rewrite <- E.
  unfold cexp. change 2%R with (bpow radix2 1). rewrite mag_mult_bpow by assumption. apply Hm.
Qed.

Lemma fexp_of_step p n e : match p with Some p => 1 <= p | None => True end ->
  fexp_of p (Some n) (e + 1) <= fexp_of p (Some n) e + 1.
Proof. destruct p as [p|]; simpl; unfold FLT_exp, FIX_exp; lia. Qed.

Lemma R2R_shift1 x : R2R (rf_shift x 1) = (R2R x * 2)%R.
Proof. unfold R2R, rf_shift, rf_m, F2R. cbn [Fnum Fexp rs rexp rc]. rewrite bpow_plus. change (bpow radix2 1) with 2%R. ring. Qed.

Lemma rf_shift_wf x k : rf_wf x -> rf_wf (rf_shift x k).
Proof. unfold rf_wf, rf_shift. simpl. auto. Qed.

Lemma R2R_shift_gen x k : R2R (rf_shift x k) = (R2R x * bpow radix2 k)%R.
Proof. unfold R2R, rf_shift, rf_m, F2R. cbn [Fnum Fexp rs rexp rc]. rewrite bpow_plus. ring. Qed.

Lemma gf_shift (fexp : Z -> Z) x k : Valid_exp fexp -> (forall e, fexp (e + 1) <= fexp e + 1) -> 0 <= k ->
  generic_format radix2 fexp (R2R x) -> generic_format radix2 fexp (R2R (rf_shift x k)).
Proof.
  intros Hv Hm Hk Hx. pattern k. apply natlike_ind; [| |exact Hk].
  - replace (rf_shift x 0) with x; [exact Hx|]. destruct x; unfold rf_shift; simpl. f_equal. lia.
  - intros z Hz IH. replace (rf_shift x (Z.succ z)) with (rf_shift (rf_shift x z) 1).
    + rewrite R2R_shift1. apply gf_double; assumption.
    + destruct x; unfold rf_shift; simpl. f_equal. lia.
Qed.

(* rounding a positive format member scaled up by 2^k (k >= 1) overflows to the positive side *)
Definition bounds_ok (p : option Z) (n : Z) (maxv negv : rf) : Prop :=
  match p with Some p => 1 <= p | None => True end /\
  rf_wf maxv /\ rf_wf negv /\ rs maxv = false /\ rc maxv <> 0 /\ rs negv = true /\ rc negv <> 0 /\
  generic_format radix2 (fexp_of p (Some n)) (R2R maxv) /\
  generic_format radix2 (fexp_of p (Some n)) (R2R negv).

Lemma probe_overflows c U maxv negv p n rm ovr zU zC k :
  bounded_as c U maxv negv p n rm ovr zU zC ->
  bounds_ok p n maxv negv -> 1 <= k ->
  vround c (FFin (rf_shift maxv k)) = ovr false /\ vround c (FFin (rf_shift negv k)) = ovr true.
Proof.
  intros [Hb _] (Hp & Wp & Wn & Sp & Cp & Sn & Cn & Gp & Gn) Hk.
  assert (Hv : Valid_exp (fexp_of p (Some n))).
  { apply valid_fexp_of. destruct p; [lia|exact I]. }
  assert (Hstep := fun e => fexp_of_step p n e Hp).
  assert (Hsome : p <> None \/ Some n <> None) by (right; discriminate).
  assert (B1 : (1 < bpow radix2 k)%R).
  { change 1%R with (bpow radix2 0). apply bpow_lt. lia. }
  assert (Ppos : (0 < R2R maxv)%R) by (apply R2R_sign_pos; assumption).
  assert (Nneg : (R2R negv < 0)%R) by (apply R2R_sign_neg; assumption).
  split.
  - destruct (Hb (rf_shift maxv k) (rf_shift_wf _ _ Wp) Cp) as (y & f & Hr & _ & HC).
    destruct (rf_round_spec (rf_shift maxv k) p (Some n) rm (rf_shift_wf _ _ Wp) Cp Hp Hsome)
      as (y' & f' & Hr' & Hval & Hsg & Hwy & _).
    rewrite Hr in Hr'. injection Hr' as <- <-.
    rewrite round_generic in Hval; [|apply valid_rnd_of|apply gf_shift; try assumption; lia].
    rewrite R2R_shift_gen in Hval.
    assert (Hov : is_overflowing maxv negv y = true).
    { destruct (is_overflowing maxv negv y) eqn:E; [reflexivity|].
      apply (is_overflowing_spec maxv negv y Wp Wn Hwy Sp (or_introl Sn)) in E.
      unfold in_range in E. rewrite Hval in E. nra. }
    rewrite HC, Hov. cbn [rf_shift rs] in Hsg. rewrite Hsg, Sp. reflexivity.
  - destruct (Hb (rf_shift negv k) (rf_shift_wf _ _ Wn) Cn) as (y & f & Hr & _ & HC).
    destruct (rf_round_spec (rf_shift negv k) p (Some n) rm (rf_shift_wf _ _ Wn) Cn Hp Hsome)
      as (y' & f' & Hr' & Hval & Hsg & Hwy & _).
    rewrite Hr in Hr'. injection Hr' as <- <-.
    rewrite round_generic in Hval; [|apply valid_rnd_of|apply gf_shift; try assumption; lia].
    rewrite R2R_shift_gen in Hval.
    assert (Hov : is_overflowing maxv negv y = true).
    { destruct (is_overflowing maxv negv y) eqn:E; [reflexivity|].
      apply (is_overflowing_spec maxv negv y Wp Wn Hwy Sp (or_introl Sn)) in E.
      unfold in_range in E. rewrite Hval in E. nra. }
    rewrite HC, Hov. cbn [rf_shift rs] in Hsg. rewrite Hsg, Sn. reflexivity.
Qed.

(* ---------------------------------------------------------------- the bounded families *)
Definition ovr_float (pm nm : rf) (rm : rmode) (ov : ovmode) (sp : special) (s : bool) : vres :=
  match ov with
  | OV_OVERFLOW =>
      if overflow_to_infinity rm s then
        if sp_enable_inf sp then Ok (FInf s)
        else match sp_inf_value sp with None => Err ValueErr | Some v => Ok (fl_with_sign s v) end
      else Ok (FFin (if s then nm else pm))
  | OV_SATURATE => Ok (FFin (if s then nm else pm))
  | OV_ASSERT => Err OverflowErr
  | OV_WRAP => Err OtherErr
  end.

(* fixed point: the substitute is used as given; WRAP is not a constant *)
Definition ovr_fixed (pm nm : rf) (rm : rmode) (ov : ovmode) (sp : special) (s : bool) : vres :=
  match ov with
  | OV_OVERFLOW =>
      if overflow_to_infinity rm s then
        if sp_enable_inf sp then Ok (FInf s)
        else match sp_inf_value sp with None => Err ValueErr | Some v => Ok v end
      else Ok (FFin (if s then nm else pm))
  | OV_SATURATE => Ok (FFin (if s then nm else pm))
  | OV_ASSERT => Err OverflowErr
  | OV_WRAP => Err OtherErr
  end.

Lemma is_zero_false x : rc x <> 0 -> is_zero x = false.
Proof. intros H. unfold is_zero. apply Z.eqb_neq. exact H. Qed.

Lemma mpbfloat_bounded p emin pm nm rm ov sp : 1 <= p ->
  bounded_as (CMPBFloat p emin pm nm rm ov (Some 0) sp) (CMPSFloat p emin rm (Some 0) sp_default)
             pm nm (Some p) (mps_nmin p emin) rm (ovr_float pm nm rm ov sp) true true.
Proof.
  intros Hp. split.
  - intros xr Hw Hnz.
    assert (Hsome : Some p <> None \/ Some (mps_nmin p emin) <> None) by (left; discriminate).
    destruct (rf_round_spec xr (Some p) (Some (mps_nmin p emin)) rm Hw Hnz Hp Hsome) as (y & f & Hr & _ & Hsg & _).
    exists y, f. split; [exact Hr|]. rewrite !fnz_true.
    unfold vround, ctx_round0, ctx_round, round_mpsfloat, round_mpbfloat, special_float, clamp_n, rf_round_k.
    rewrite (is_zero_false xr Hnz), Hr. cbn [bind wrap_fin fst snd]. split; [reflexivity|].
    destruct (is_overflowing pm nm y); [|reflexivity].
    unfold ovr_float. rewrite <- Hsg. destruct ov; try reflexivity.
    destruct (overflow_to_infinity rm (rs y)); [|reflexivity].
    destruct (sp_enable_inf sp); [reflexivity|]. destruct (sp_inf_value sp); reflexivity.
  - intros s e. unfold vround, ctx_round0, ctx_round, round_mpsfloat, round_mpbfloat, special_float, is_zero.
    cbn. rewrite andb_true_r. auto.
Qed.

Lemma mpbfixed_bounded nmin pm nm rm ov sp nz : ov <> OV_WRAP ->
  bounded_as (CMPBFixed nmin pm nm rm ov (Some 0) sp nz) (CMPFixed nmin rm (Some 0) sp nz)
             pm nm None nmin rm (ovr_fixed pm nm rm ov sp) nz nz.
Proof.
  intros Hov. split.
  - intros xr Hw Hnz.
    assert (Hsome : @None Z <> None \/ Some nmin <> None) by (right; discriminate).
    destruct (rf_round_spec xr None (Some nmin) rm Hw Hnz I Hsome) as (y & f & Hr & _ & Hsg & _).
    exists y, f. split; [exact Hr|].
    unfold vround, ctx_round0, ctx_round, round_mpfixed, round_mpbfixed, special_fixed, clamp_n_fixed, rf_round_k.
    rewrite (is_zero_false xr Hnz), Hr. cbn [bind fst snd]. split; [reflexivity|].
    destruct (is_overflowing pm nm y); [|reflexivity].
    unfold ovr_fixed. rewrite <- Hsg. destruct ov; try reflexivity; try congruence.
    destruct (overflow_to_infinity rm (rs y)); [|reflexivity].
    destruct (sp_enable_inf sp); [reflexivity|]. destruct (sp_inf_value sp); reflexivity.
  - intros s e. unfold vround, ctx_round0, ctx_round, round_mpfixed, round_mpbfixed, special_fixed, is_zero.
    cbn. auto.
Qed.

Lemma neg_zero_of_mpbfixed nmin pm nm rm ov k sp nz : neg_zero_of (CMPBFixed nmin pm nm rm ov k sp nz) = nz.
Proof. unfold neg_zero_of, vround, ctx_round0, ctx_round, round_mpbfixed. cbn. reflexivity. Qed.

(* EFloat: the MPB rounding with default specials, then the fixup ladder *)
Definition fixup_val (ei : bool) (nk : nankind) (nv iv : option fl) (maxv : rf) (r : vres) : vres :=
  match r with Ok v => Ok (fst (efloat_fixup ei nk nv iv maxv (v, no_flags))) | Err e => Err e end.

Definition is_negzero (nk : nankind) : bool := match nk with NK_NEGZERO => true | _ => false end.

Lemma fixup_fst ei nk nv iv maxv v f :
  fst (efloat_fixup ei nk nv iv maxv (v, f)) = fst (efloat_fixup ei nk nv iv maxv (v, no_flags)).
Proof.
  unfold efloat_fixup. destruct v as [xr|s|s].
  - destruct (is_zero xr && rs xr && match nk with NK_NEGZERO => true | _ => false end); reflexivity.
  - destruct ei; [reflexivity|]. destruct iv; [reflexivity|]. destruct nk; reflexivity.
  - destruct nk; try reflexivity. destruct nv; [reflexivity|]. destruct ei; reflexivity.
Qed.

Lemma fixup_fin ei nk nv iv maxv y f :
  fst (efloat_fixup ei nk nv iv maxv (FFin y, f)) = FFin (fix_neg_zero (negb (is_negzero nk)) y).
Proof.
  unfold efloat_fixup, fix_neg_zero, is_negzero. rewrite negb_involutive.
  destruct (is_zero y && rs y && match nk with NK_NEGZERO => true | _ => false end); reflexivity.
Qed.

Lemma efloat_bounded es nbits ei nk eo rm ov nv iv p emin maxv :
  efloat_valid es nbits ei nk = true -> ext_to_mpb es nbits ei nk eo = Ok (p, emin, maxv) -> 1 <= p ->
  bounded_as (CEFloat es nbits ei nk eo rm ov (Some 0) nv iv) (CMPSFloat p emin rm (Some 0) sp_default)
             maxv (neg_rf maxv) (Some p) (mps_nmin p emin) rm
             (fun s => fixup_val ei nk nv iv maxv (ovr_float maxv (neg_rf maxv) rm ov sp_default s))
             true (negb (is_negzero nk)).
Proof.
  intros Hv He Hp.
  destruct (mpbfloat_bounded p emin maxv (neg_rf maxv) rm ov sp_default Hp) as [Hb Hz].
  assert (Hvr : forall x, vround (CEFloat es nbits ei nk eo rm ov (Some 0) nv iv) x =
                fixup_val ei nk nv iv maxv (vround (CMPBFloat p emin maxv (neg_rf maxv) rm ov (Some 0) sp_default) x)).
  { intros x. unfold vround, ctx_round0, ctx_round, round_efloat. rewrite Hv, He. cbn [negb bind].
    unfold neg_rf.
    destruct (round_mpbfloat p emin maxv (RF true (rexp maxv) (rc maxv)) rm ov (Some 0) sp_default x None 0) as [[v f]|e];
      cbn [bind fixup_val]; [|reflexivity].
    rewrite <- (fixup_fst ei nk nv iv maxv v f). destruct (efloat_fixup ei nk nv iv maxv (v, f)). reflexivity. }
  split.
  - intros xr Hw Hnz. destruct (Hb xr Hw Hnz) as (y & f & Hr & HU & HC).
    exists y, f. split; [exact Hr|]. split; [exact HU|].
    rewrite Hvr, HC. destruct (is_overflowing maxv (neg_rf maxv) y); [reflexivity|].
    cbn [fixup_val]. rewrite fixup_fin, fnz_true. reflexivity.
  - intros s e. destruct (Hz s e) as [HU HC]. split; [exact HU|].
    rewrite Hvr, HC. cbn [fixup_val]. rewrite fixup_fin. rewrite andb_true_r.
    unfold fix_neg_zero, is_zero. cbn [rc rs rexp Z.eqb andb]. rewrite negb_involutive.
    destruct s, (is_negzero nk); reflexivity.
Qed.

(* ---------------------------------------------------------------- the early check *)
(* what the rewrite needs of its threshold: a member of the unbounded format above the bound
   (Context.infval: "the next value above maxval", mirrored below) *)
Definition early_ok (p : option Z) (n : Z) (maxv negv infv ninfv : rf) : Prop :=
  rf_wf infv /\ rf_wf ninfv /\
  (R2R maxv < R2R infv)%R /\ (R2R ninfv < R2R negv)%R /\
  generic_format radix2 (fexp_of p (Some n)) (R2R infv) /\
  generic_format radix2 (fexp_of p (Some n)) (R2R ninfv).

Lemma fl_ge_R x b : rf_wf x -> rf_wf b -> fl_ge (FFin x) b = true -> (R2R b <= R2R x)%R.
Proof.
  intros Hx Hb. unfold fl_ge, fl_compare. rewrite compare_denote by assumption.
  destruct (Rcompare_spec (R2R x) (R2R b)); intros; try discriminate; lra.
Qed.

Lemma fl_le_R x b : rf_wf x -> rf_wf b -> fl_le (FFin x) b = true -> (R2R x <= R2R b)%R.
Proof.
  intros Hx Hb. unfold fl_le, fl_compare. rewrite compare_denote by assumption.
  destruct (Rcompare_spec (R2R x) (R2R b)); intros; try discriminate; lra.
Qed.

Lemma sign_of_R x : rf_wf x -> ((0 < R2R x)%R -> rs x = false) /\ ((R2R x < 0)%R -> rs x = true).
Proof.
  intros Hw. unfold R2R, rf_m. unfold rf_wf in Hw. split; intros H; destruct (rs x); try reflexivity; exfalso.
  - assert (F2R (Float radix2 (- rc x) (rexp x)) <= 0)%R by (apply F2R_le_0; simpl; lia). lra.
  - assert (0 <= F2R (Float radix2 (rc x) (rexp x)))%R by (apply F2R_ge_0; simpl; lia). lra.
Qed.

(* early_check_sound: an operand at or past infval overflows, in every mode *)
Theorem early_check_sound c U maxv negv p n rm ovr zU zC infv ninfv xr :
  bounded_as c U maxv negv p n rm ovr zU zC ->
  bounds_ok p n maxv negv -> early_ok p n maxv negv infv ninfv ->
  rf_wf xr ->
  (fl_ge (FFin xr) infv = true -> vround c (FFin xr) = ovr false) /\
  (fl_le (FFin xr) ninfv = true -> vround c (FFin xr) = ovr true).
Proof.
  intros [Hb _] (Hp & Wp & Wn & Sp & Cp & Sn & Cn & Gp & Gn) (Wi & Wni & Li & Lni & Gi & Gni) Hw.
  assert (Hv : Valid_exp (fexp_of p (Some n))).
  { apply valid_fexp_of. destruct p; [lia|exact I]. }
  assert (Hsome : p <> None \/ Some n <> None) by (right; discriminate).
  assert (Ppos : (0 < R2R maxv)%R) by (apply R2R_sign_pos; assumption).
  assert (Nneg : (R2R negv < 0)%R) by (apply R2R_sign_neg; assumption).
  split; intros Hge.
  - apply (fl_ge_R xr infv Hw Wi) in Hge.
    assert (Hxpos : (0 < R2R xr)%R) by lra.
    assert (Hnz : rc xr <> 0).
    { intros Z0. rewrite (R2R_zero xr Z0) in Hxpos. lra. }
    destruct (Hb xr Hw Hnz) as (y & f & Hr & _ & HC).
    destruct (rf_round_spec xr p (Some n) rm Hw Hnz Hp Hsome) as (y' & f' & Hr' & Hval & Hsg & Hwy & _).
    rewrite Hr in Hr'. injection Hr' as <- <-.
    assert (Hle : (R2R infv <= R2R y)%R).
    { rewrite Hval. rewrite <- (round_generic radix2 (fexp_of p (Some n)) (rnd_of rm) (R2R infv)) by assumption.
      apply round_le; [exact Hv|apply valid_rnd_of|exact Hge]. }
    assert (Hov : is_overflowing maxv negv y = true).
    { destruct (is_overflowing maxv negv y) eqn:E; [reflexivity|].
      apply (is_overflowing_spec maxv negv y Wp Wn Hwy Sp (or_introl Sn)) in E.
      unfold in_range in E. lra. }
    rewrite HC, Hov, Hsg. rewrite (proj1 (sign_of_R xr Hw) Hxpos). reflexivity.
  - apply (fl_le_R xr ninfv Hw Wni) in Hge.
    assert (Hxneg : (R2R xr < 0)%R) by lra.
    assert (Hnz : rc xr <> 0).
    { intros Z0. rewrite (R2R_zero xr Z0) in Hxneg. lra. }
    destruct (Hb xr Hw Hnz) as (y & f & Hr & _ & HC).
    destruct (rf_round_spec xr p (Some n) rm Hw Hnz Hp Hsome) as (y' & f' & Hr' & Hval & Hsg & Hwy & _).
    rewrite Hr in Hr'. injection Hr' as <- <-.
    assert (Hle : (R2R y <= R2R ninfv)%R).
    { rewrite Hval. rewrite <- (round_generic radix2 (fexp_of p (Some n)) (rnd_of rm) (R2R ninfv)) by assumption.
      apply round_le; [exact Hv|apply valid_rnd_of|exact Hge]. }
    assert (Hov : is_overflowing maxv negv y = true).
    { destruct (is_overflowing maxv negv y) eqn:E; [reflexivity|].
      apply (is_overflowing_spec maxv negv y Wp Wn Hwy Sp (or_introl Sn)) in E.
      unfold in_range in E. lra. }
    rewrite HC, Hov, Hsg. rewrite (proj2 (sign_of_R xr Hw) Hxneg). reflexivity.
Qed.

(* ---------------------------------------------------------------- assembling the emitted program *)
Lemma fl_same_equiv a b : fl_wf a -> fl_wf b -> fl_same a b = true -> fl_equiv a b.
Proof.
  destruct a as [x|s|s], b as [y|t|t]; simpl; try discriminate; intros Ha Hb H.
  - apply andb_prop in H as [H1 H2]. split; [apply eq_iff_denote; assumption|apply eqb_prop; exact H2].
  - apply eqb_prop. exact H.
  - exact I.
Qed.

Lemma vres_same_equiv a b :
  (forall v, a = Ok v -> fl_wf v) -> (forall v, b = Ok v -> fl_wf v) -> vres_same a b = true -> vequiv a b.
Proof.
  destruct a as [x|e], b as [y|e']; simpl; try discriminate; intros Ha Hb H.
  - apply fl_same_equiv; auto.
  - destruct e, e'; try discriminate; reflexivity.
Qed.

Section Generic.
  Variables (c U : ctx) (maxv negv : rf) (p : option Z) (n : Z) (rm : rmode) (ovr : bool -> vres) (zU zC : bool).
  Variables (early : bool) (infv ninfv : rf) (op on : fl) (chk : bool).
  Hypothesis Hb : bounded_as c U maxv negv p n rm ovr zU zC.
  Hypothesis Hbo : bounds_ok p n maxv negv.
  Hypothesis Hz : implb zC zU = true.
  Hypothesis Hop : ovr false = Ok op.
  Hypothesis Hon : ovr true = Ok on.
  Hypothesis Hearly : early = true -> early_ok p n maxv negv infv ninfv.
  (* results on special operands are well-formed values *)
  Hypothesis Hcw : forall x v, fl_isfinite x = false -> vround c x = Ok v -> fl_wf v.
  Hypothesis HUw : forall x v, fl_isfinite x = false -> vround U x = Ok v -> fl_wf v.
  Hypothesis Hopw : fl_wf op.
  Hypothesis Honw : fl_wf on.

  Let s0 := UO U maxv negv infv ninfv op on (zU && negb zC) chk None None.
  Let body := uo_body early s0.

  Lemma body_fin xr : rf_wf xr -> vequiv (sem body (FFin xr)) (vround c (FFin xr)).
  Proof.
    intros Hw. destruct Hbo as (Hp & Wp & Wn & Sp & Cp & Sn & Cn & Gp & Gn).
    assert (Hcore : vequiv (sem (LBound (LRound U) maxv negv op on (zU && negb zC)) (FFin xr)) (vround c (FFin xr))).
    { destruct (Z.eq_dec (rc xr) 0) as [Z0|Z0].
      - destruct xr as [s e cc]. simpl in Z0. subst cc.
        apply (uo_zero_core c U maxv negv p n rm ovr zU zC op on s e); assumption.
      - apply (uo_finite_core c U maxv negv p n rm ovr zU zC op on xr); assumption. }
    unfold body, uo_body. cbn [uo_U uo_max uo_nmax uo_inf uo_ninf uo_op uo_on uo_dnz uo_chk s0].
    destruct early eqn:Ee; [|exact Hcore].
    destruct (early_check_sound c U maxv negv p n rm ovr zU zC infv ninfv xr Hb Hbo (Hearly eq_refl) Hw) as [E1 E2].
    destruct chk; cbn [sem eval_test fl_isfinite andb].
    - destruct (fl_ge (FFin xr) infv) eqn:G1.
      { rewrite (E1 eq_refl), Hop. cbn [fl_s]. destruct (rs xr); apply vequiv_refl. }
      destruct (fl_le (FFin xr) ninfv) eqn:G2.
      { rewrite (E2 eq_refl), Hon. cbn [sem fl_s]. destruct (rs xr); apply vequiv_refl. }
      exact Hcore.
    - destruct (fl_ge (FFin xr) infv) eqn:G1.
      { rewrite (E1 eq_refl), Hop. cbn [fl_s]. destruct (rs xr); apply vequiv_refl. }
      destruct (fl_le (FFin xr) ninfv) eqn:G2.
      { rewrite (E2 eq_refl), Hon. cbn [sem fl_s]. destruct (rs xr); apply vequiv_refl. }
      exact Hcore.
  Qed.

  (* whatever the generated code makes of a special operand is a well-formed value *)
  Lemma body_special_wf x v : fl_isfinite x = false -> sem body x = Ok v -> fl_wf v.
  Proof.
    intros Hx. unfold body, uo_body. cbn [uo_U uo_max uo_nmax uo_inf uo_ninf uo_op uo_on uo_dnz uo_chk s0].
    assert (Hcore : forall v, sem (LBound (LRound U) maxv negv op on (zU && negb zC)) x = Ok v -> fl_wf v).
    { intros v0. cbn [sem]. destruct (vround U x) as [t|e] eqn:Et; [|discriminate]. cbn [bind].
      intros [= <-]. destruct (fl_gt t maxv); [exact Hopw|]. destruct (fl_lt t negv); [exact Honw|].
      destruct (zU && negb zC && fl_eq0 t); [simpl; unfold rf_wf; simpl; lia|]. exact (HUw x t Hx Et). }
    destruct early; [|apply Hcore].
    destruct chk; cbn [sem]; repeat match goal with |- context [if ?b then _ else _] => destruct b end;
      try apply Hcore; intros [= <-]; assumption.
  Qed.

  Variables (spn spi : option (fl * fl)).
  Hypothesis Hsn : uo_special c body pos_nan = Some spn.
  Hypothesis Hsi : uo_special c body pos_inf = Some spi.
  Let s := UO U maxv negv infv ninfv op on (zU && negb zC) chk spn spi.

  Lemma special_case positive sp (x : fl) :
    uo_special c body positive = Some sp -> fl_isfinite positive = false ->
    (x = positive \/ x = fl_with_sign true positive) -> fl_s positive = false ->
    vequiv (match sp with Some (a, b) => Ok (if fl_s x then b else a) | None => sem body x end) (vround c x).
  Proof.
    intros Hs Hfin Hx Hpos. unfold uo_special in Hs.
    assert (Hfin' : fl_isfinite (fl_with_sign true positive) = false) by (destruct positive; [discriminate|reflexivity|reflexivity]).
    destruct (vres_same (vround c positive) (sem body positive) &&
              vres_same (vround c (fl_with_sign true positive)) (sem body (fl_with_sign true positive))) eqn:Ea.
    - injection Hs as <-. apply andb_prop in Ea as [Ea Eb]. apply vequiv_sym.
      destruct Hx as [->| ->].
      + apply vres_same_equiv; [intros v; apply Hcw; exact Hfin|intros v; apply body_special_wf; exact Hfin|exact Ea].
      + apply vres_same_equiv; [intros v; apply Hcw; exact Hfin'|intros v; apply body_special_wf; exact Hfin'|exact Eb].
    - destruct (vround c positive) as [a|] eqn:Ep; [|discriminate].
      destruct (vround c (fl_with_sign true positive)) as [b|] eqn:En; [|discriminate].
      injection Hs as <-. destruct Hx as [->| ->].
      + rewrite Hpos, Ep. apply vequiv_refl.
      + rewrite En. replace (fl_s (fl_with_sign true positive)) with true by (destruct positive; reflexivity).
        apply vequiv_refl.
  Qed.

  Theorem uo_generic x : fl_wf x -> vequiv (sem (uo_lp early s) x) (vround c x).
  Proof.
    intros Hw. unfold uo_lp. change (uo_body early s) with body. cbn [uo_infs uo_nan s].
    destruct x as [xr|sg|sg].
    - (* finite: no special branch is taken *)
      assert (E : sem (match spn with
                       | Some (a, b) => LIf TIsNan (LVal a b) (match spi with Some (a0, b0) => LIf TIsInf (LVal a0 b0) body | None => body end)
                       | None => match spi with Some (a0, b0) => LIf TIsInf (LVal a0 b0) body | None => body end
                       end) (FFin xr) = sem body (FFin xr)).
      { destruct spn as [[? ?]|], spi as [[? ?]|]; reflexivity. }
      rewrite E. apply body_fin. exact Hw.
    - (* infinity *)
      assert (E : sem (match spn with
                       | Some (a, b) => LIf TIsNan (LVal a b) (match spi with Some (a0, b0) => LIf TIsInf (LVal a0 b0) body | None => body end)
                       | None => match spi with Some (a0, b0) => LIf TIsInf (LVal a0 b0) body | None => body end
                       end) (FInf sg) =
                  match spi with Some (a, b) => Ok (if fl_s (FInf sg) then b else a) | None => sem body (FInf sg) end).
      { destruct spn as [[? ?]|], spi as [[? ?]|]; reflexivity. }
      rewrite E. apply (special_case pos_inf spi (FInf sg) Hsi eq_refl); [|reflexivity].
      destruct sg; [right|left]; reflexivity.
    - (* NaN *)
      assert (E : sem (match spn with
                       | Some (a, b) => LIf TIsNan (LVal a b) (match spi with Some (a0, b0) => LIf TIsInf (LVal a0 b0) body | None => body end)
                       | None => match spi with Some (a0, b0) => LIf TIsInf (LVal a0 b0) body | None => body end
                       end) (FNaN sg) =
                  match spn with Some (a, b) => Ok (if fl_s (FNaN sg) then b else a) | None => sem body (FNaN sg) end).
      { destruct spn as [[? ?]|], spi as [[? ?]|]; reflexivity. }
      rewrite E. apply (special_case pos_nan spn (FNaN sg) Hsn eq_refl); [|reflexivity].
      destruct sg; [right|left]; reflexivity.
  Qed.
End Generic.

(* ---------------------------------------------------------------- the five bounded families *)
Definition ofl_wf (o : option fl) : Prop := match o with Some v => fl_wf v | None => True end.
Definition sp_wf (sp : special) : Prop := ofl_wf (sp_nan_value sp) /\ ofl_wf (sp_inf_value sp).

(* the substitutes a context states are values *)
Definition ctx_subs_wf (c : ctx) : Prop :=
  match c with
  | CMPFloat _ _ _ sp | CMPSFloat _ _ _ _ sp | CMPBFloat _ _ _ _ _ _ _ sp => sp_wf sp
  | CMPFixed _ _ _ sp _ | CMPBFixed _ _ _ _ _ _ sp _ => sp_wf sp
  | CEFloat _ _ _ _ _ _ _ _ nv iv | CFixed _ _ _ _ _ _ nv iv | CSMFixed _ _ _ _ _ nv iv => ofl_wf nv /\ ofl_wf iv
  | CExp _ _ _ _ iv => ofl_wf iv
  | CReal => True
  end.

(* what the constructors guarantee of a bounded format: a precision, and two
   bounds that are members of the format, the upper one non-negative *)
Definition bounds_fmt (p : option Z) (n : Z) (maxv negv : rf) : Prop :=
  match p with Some p => 1 <= p | None => True end /\
  rf_wf maxv /\ rf_wf negv /\ rs maxv = false /\
  generic_format radix2 (fexp_of p (Some n)) (R2R maxv) /\
  generic_format radix2 (fexp_of p (Some n)) (R2R negv).

Definition uo_ctx_ok (c : ctx) : Prop :=
  ctx_subs_wf c /\
  match uo_parts c with
  | Some (_, maxv, negv, p, n) => bounds_fmt p n maxv negv
  | None => True
  end.

Lemma with_sign_wf s v : fl_wf v -> fl_wf (fl_with_sign s v).
Proof. destruct v; simpl; auto. Qed.

Lemma special_float_wf sp x r v f : sp_wf sp -> special_float sp x = Some r -> r = Ok (v, f) -> fl_wf v.
Proof.
  intros [Hn Hi] Hs Hr. destruct x as [xr|s|s]; [discriminate| |]; cbn [special_float] in Hs; injection Hs as <-.
  - destruct (sp_enable_inf sp); [injection Hr as <- <-; exact I|].
    destruct (sp_inf_value sp) as [w|]; [|discriminate]. injection Hr as <- <-. apply with_sign_wf. exact Hi.
  - destruct (sp_enable_nan sp); [injection Hr as <- <-; exact I|].
    destruct (sp_nan_value sp) as [w|]; [|discriminate]. injection Hr as <- <-. exact Hn.
Qed.

Lemma special_fixed_wf sp x r v f : sp_wf sp -> special_fixed sp x = Some r -> r = Ok (v, f) -> fl_wf v.
Proof.
  intros [Hn Hi] Hs Hr. destruct x as [xr|s|s]; [discriminate| |]; cbn [special_fixed] in Hs; injection Hs as <-.
  - destruct (sp_enable_inf sp); [injection Hr as <- <-; exact I|].
    destruct (sp_inf_value sp) as [w|]; [|discriminate]. injection Hr as <- <-. exact Hi.
  - destruct (sp_enable_nan sp); [injection Hr as <- <-; exact I|].
    destruct (sp_nan_value sp) as [w|]; [|discriminate]. injection Hr as <- <-. exact Hn.
Qed.

Lemma special_some_float sp x : fl_isfinite x = false -> exists r, special_float sp x = Some r.
Proof. destruct x; [discriminate| |]; intros _; eexists; reflexivity. Qed.
Lemma special_some_fixed sp x : fl_isfinite x = false -> exists r, special_fixed sp x = Some r.
Proof. destruct x; [discriminate| |]; intros _; eexists; reflexivity. Qed.

Lemma mpbfloat_special_wf p emin pm nm rm ov k sp x v : sp_wf sp -> fl_isfinite x = false ->
  vround (CMPBFloat p emin pm nm rm ov k sp) x = Ok v -> fl_wf v.
Proof.
  intros Hsp Hx. unfold vround, ctx_round0, ctx_round, round_mpbfloat.
  destruct (special_some_float sp x Hx) as [r Hr]. rewrite Hr.
  destruct r as [[w f]|e] eqn:Er; [|discriminate]. intros [= <-].
  eapply special_float_wf; eauto.
Qed.

Lemma mpsfloat_special_wf p emin rm k sp x v : sp_wf sp -> fl_isfinite x = false ->
  vround (CMPSFloat p emin rm k sp) x = Ok v -> fl_wf v.
Proof.
  intros Hsp Hx. unfold vround, ctx_round0, ctx_round, round_mpsfloat.
  destruct (special_some_float sp x Hx) as [r Hr]. rewrite Hr.
  destruct r as [[w f]|e] eqn:Er; [|discriminate]. intros [= <-].
  eapply special_float_wf; eauto.
Qed.

Lemma mpbfixed_special_wf nmin pm nm rm ov k sp nz x v : sp_wf sp -> fl_isfinite x = false ->
  vround (CMPBFixed nmin pm nm rm ov k sp nz) x = Ok v -> fl_wf v.
Proof.
  intros Hsp Hx. unfold vround, ctx_round0, ctx_round, round_mpbfixed.
  destruct (special_some_fixed sp x Hx) as [r Hr]. rewrite Hr.
  destruct r as [[w f]|e] eqn:Er; [|discriminate]. intros [= <-].
  eapply special_fixed_wf; eauto.
Qed.

Lemma mpfixed_special_wf nmin rm k sp nz x v : sp_wf sp -> fl_isfinite x = false ->
  vround (CMPFixed nmin rm k sp nz) x = Ok v -> fl_wf v.
Proof.
  intros Hsp Hx. unfold vround, ctx_round0, ctx_round, round_mpfixed.
  destruct (special_some_fixed sp x Hx) as [r Hr]. rewrite Hr.
  destruct r as [[w f]|e] eqn:Er; [|discriminate]. intros [= <-].
  eapply special_fixed_wf; eauto.
Qed.

Lemma sp_default_wf : sp_wf sp_default.
Proof. split; exact I. Qed.

Lemma fixup_wf ei nk nv iv maxv v : ofl_wf nv -> ofl_wf iv -> rf_wf maxv -> fl_wf v ->
  fl_wf (fst (efloat_fixup ei nk nv iv maxv (v, no_flags))).
Proof.
  intros Hn Hi Hm Hv. unfold efloat_fixup. destruct v as [xr|s|s].
  - destruct (is_zero xr && rs xr && match nk with NK_NEGZERO => true | _ => false end); simpl; [|exact Hv].
    exact Hv.
  - destruct ei; [exact I|]. destruct iv as [w|]; [apply with_sign_wf; exact Hi|]. destruct nk; simpl; auto.
  - destruct nk; try exact I. destruct nv as [w|]; [apply with_sign_wf; exact Hn|]. destruct ei; simpl; auto.
Qed.

Lemma ovr_float_wf pm nm rm ov sp s v : rf_wf pm -> rf_wf nm -> sp_wf sp ->
  ovr_float pm nm rm ov sp s = Ok v -> fl_wf v.
Proof.
  intros Hp Hn [_ Hi]. unfold ovr_float.
  assert (Hb : fl_wf (FFin (if s then nm else pm))) by (destruct s; assumption).
  destruct ov; try discriminate; try (intros [= <-]; exact Hb).
  destruct (overflow_to_infinity rm s); [|intros [= <-]; exact Hb].
  destruct (sp_enable_inf sp); [intros [= <-]; exact I|].
  destruct (sp_inf_value sp) as [w|]; [|discriminate]. intros [= <-]. apply with_sign_wf. exact Hi.
Qed.

Lemma ovr_fixed_wf pm nm rm ov sp s v : rf_wf pm -> rf_wf nm -> sp_wf sp ->
  ovr_fixed pm nm rm ov sp s = Ok v -> fl_wf v.
Proof.
  intros Hp Hn [_ Hi]. unfold ovr_fixed.
  assert (Hb : fl_wf (FFin (if s then nm else pm))) by (destruct s; assumption).
  destruct ov; try discriminate; try (intros [= <-]; exact Hb).
  destruct (overflow_to_infinity rm s); [|intros [= <-]; exact Hb].
  destruct (sp_enable_inf sp); [intros [= <-]; exact I|].
  destruct (sp_inf_value sp) as [w|]; [|discriminate]. intros [= <-]. exact Hi.
Qed.

Lemma bounded_as_ext c c' U maxv negv p n rm ovr zU zC :
  (forall x, vround c x = vround c' x) ->
  bounded_as c' U maxv negv p n rm ovr zU zC -> bounded_as c U maxv negv p n rm ovr zU zC.
Proof.
  intros He [H1 H2]. split.
  - intros xr Hw Hnz. destruct (H1 xr Hw Hnz) as (y & f & A & B & C). exists y, f. rewrite He. auto.
  - intros s e. rewrite He. apply H2.
Qed.

(* everything the generic theorem needs, for each bounded family *)
Lemma uo_family c U maxv negv p n :
  deterministic c = true -> ctx_wraps c = false ->
  uo_parts c = Some (U, maxv, negv, p, n) -> uo_ctx_ok c ->
  exists rm ovr zU zC,
    bounded_as c U maxv negv p n rm ovr zU zC /\ implb zC zU = true /\
    (forall x v, fl_isfinite x = false -> vround c x = Ok v -> fl_wf v) /\
    (forall x v, fl_isfinite x = false -> vround U x = Ok v -> fl_wf v) /\
    (forall s v, ovr s = Ok v -> fl_wf v).
Proof.
  intros Hd Hwr Hp [Hsub Hok]. rewrite Hp in Hok. destruct Hok as (Hp1 & Wp & Wn & Sp & Gp & Gn).
  unfold deterministic, ctx_k in Hd.
  destruct c; try discriminate; cbn [uo_parts] in Hp; cbn [ctx_subs_wf] in Hsub.
  - (* MPBFloat *)
    destruct k as [[| |]|]; try discriminate. injection Hp as <- <- <- <- <-.
    exists rm, (ovr_float pos_max neg_max rm ov sp), true, true.
    split; [apply mpbfloat_bounded; exact Hp1|]. split; [reflexivity|].
    split; [intros x v; apply mpbfloat_special_wf; exact Hsub|].
    split; [intros x v; apply mpsfloat_special_wf; exact sp_default_wf|].
    intros s v. apply ovr_float_wf; assumption.
  - (* EFloat *)
    destruct k as [[| |]|]; try discriminate.
    destruct (efloat_valid es nbits enable_inf nk) eqn:Hv; [|discriminate]. cbn [negb] in Hp.
    destruct (ext_to_mpb es nbits enable_inf nk eoffset) as [[[p0 em] mv]|] eqn:He; [|discriminate].
    injection Hp as <- <- <- <- <-. destruct Hsub as [Hnv Hiv].
    exists rm, (fun s => fixup_val enable_inf nk nan_value inf_value mv (ovr_float mv (neg_rf mv) rm ov sp_default s)),
           true, (negb (is_negzero nk)).
    split; [apply efloat_bounded; assumption|]. split; [destruct (is_negzero nk); reflexivity|].
    assert (Hvr : forall x, vround (CEFloat es nbits enable_inf nk eoffset rm ov (Some 0) nan_value inf_value) x =
                fixup_val enable_inf nk nan_value inf_value mv (vround (CMPBFloat p0 em mv (neg_rf mv) rm ov (Some 0) sp_default) x)).
    { intros x. unfold vround, ctx_round0, ctx_round, round_efloat. rewrite Hv, He. cbn [negb bind].
      unfold neg_rf.
      destruct (round_mpbfloat p0 em mv (RF true (rexp mv) (rc mv)) rm ov (Some 0) sp_default x None 0) as [[v f]|e];
        cbn [bind fixup_val]; [|reflexivity].
      rewrite <- (fixup_fst enable_inf nk nan_value inf_value mv v f).
      destruct (efloat_fixup enable_inf nk nan_value inf_value mv (v, f)). reflexivity. }
    split.
    { intros x v Hx. rewrite Hvr.
      destruct (vround (CMPBFloat p0 em mv (neg_rf mv) rm ov (Some 0) sp_default) x) as [w|] eqn:Ew; [|discriminate].
      cbn [fixup_val]. intros [= <-]. apply fixup_wf; try assumption.
      eapply mpbfloat_special_wf; [exact sp_default_wf|exact Hx|exact Ew]. }
    split; [intros x v; apply mpsfloat_special_wf; exact sp_default_wf|].
    intros s v. destruct (ovr_float mv (neg_rf mv) rm ov sp_default s) as [w|] eqn:Ew; [|discriminate].
    cbn [fixup_val]. intros [= <-]. apply fixup_wf; try assumption.
    eapply ovr_float_wf; [exact Wp|exact Wn|exact sp_default_wf|exact Ew].
  - (* MPBFixed *)
    destruct k as [[| |]|]; try discriminate. rewrite neg_zero_of_mpbfixed in Hp. injection Hp as <- <- <- <- <-.
    assert (Hov : ov <> OV_WRAP) by (intros ->; discriminate).
    exists rm, (ovr_fixed pos_max neg_max rm ov sp), neg_zero, neg_zero.
    split; [apply mpbfixed_bounded; exact Hov|]. split; [destruct neg_zero; reflexivity|].
    split; [intros x v; apply mpbfixed_special_wf; exact Hsub|].
    split; [intros x v; apply mpfixed_special_wf; exact Hsub|].
    intros s v. apply ovr_fixed_wf; assumption.
  - (* Fixed *)
    destruct k as [[| |]|]; try discriminate.
    destruct (fixed_bounds signed scale nbits) as [pm nm] eqn:Eb.
    assert (Hvr : forall x, vround (CFixed signed scale nbits rm ov (Some 0) nan_value inf_value) x =
                            vround (CMPBFixed (scale - 1) pm nm rm ov (Some 0) (sp_fixed nan_value inf_value) false) x).
    { intros x. unfold vround, ctx_round0, ctx_round, round_fixed. rewrite Eb. reflexivity. }
    assert (Hnz : neg_zero_of (CFixed signed scale nbits rm ov (Some 0) nan_value inf_value) = false).
    { unfold neg_zero_of. rewrite Hvr. fold (neg_zero_of (CMPBFixed (scale - 1) pm nm rm ov (Some 0) (sp_fixed nan_value inf_value) false)).
      apply neg_zero_of_mpbfixed. }
    rewrite Hnz in Hp. injection Hp as <- <- <- <- <-.
    assert (Hov : ov <> OV_WRAP) by (intros ->; discriminate).
    assert (Hsp : sp_wf (sp_fixed nan_value inf_value)) by exact Hsub.
    exists rm, (ovr_fixed pm nm rm ov (sp_fixed nan_value inf_value)), false, false.
    split; [apply (bounded_as_ext _ _ _ _ _ _ _ _ _ _ _ Hvr); apply mpbfixed_bounded; exact Hov|].
    split; [reflexivity|].
    split; [intros x v Hx; rewrite Hvr; apply mpbfixed_special_wf; assumption|].
    split; [intros x v; apply mpfixed_special_wf; exact Hsp|].
    intros s v. apply ovr_fixed_wf; assumption.
  - (* SMFixed *)
    destruct k as [[| |]|]; try discriminate.
    set (pm := RF false scale (bitmask (nbits - 1))) in *. set (nm := RF true scale (bitmask (nbits - 1))) in *.
    assert (Hvr : forall x, vround (CSMFixed scale nbits rm ov (Some 0) nan_value inf_value) x =
                            vround (CMPBFixed (scale - 1) pm nm rm ov (Some 0) (sp_fixed nan_value inf_value) true) x).
    { intros x. reflexivity. }
    assert (Hnz : neg_zero_of (CSMFixed scale nbits rm ov (Some 0) nan_value inf_value) = true).
    { unfold neg_zero_of. rewrite Hvr. fold (neg_zero_of (CMPBFixed (scale - 1) pm nm rm ov (Some 0) (sp_fixed nan_value inf_value) true)).
      apply neg_zero_of_mpbfixed. }
    rewrite Hnz in Hp. injection Hp as <- <- <- <- <-.
    assert (Hov : ov <> OV_WRAP) by (intros ->; discriminate).
    assert (Hsp : sp_wf (sp_fixed nan_value inf_value)) by exact Hsub.
    exists rm, (ovr_fixed pm nm rm ov (sp_fixed nan_value inf_value)), true, true.
    split; [apply (bounded_as_ext _ _ _ _ _ _ _ _ _ _ _ Hvr); apply mpbfixed_bounded; exact Hov|].
    split; [reflexivity|].
    split; [intros x v Hx; rewrite Hvr; apply mpbfixed_special_wf; assumption|].
    split; [intros x v; apply mpfixed_special_wf; exact Hsp|].
    intros s v. apply ovr_fixed_wf; assumption.
Qed.

(* ---------------------------------------------------------------- unfold_overflow_eq *)
Definition uo_early_ok (c : ctx) (s : uo_src) : Prop :=
  match uo_parts c with
  | Some (_, maxv, negv, p, n) => early_ok p n maxv negv (uo_inf s) (uo_ninf s)
  | None => True
  end.

(* round_C(x) = overflow(sign x) when round_U(x) leaves [-maxval, maxval], and
   round_U(x) otherwise: every bounded family (MPBFloat/MPSFloat, EFloat through
   its MPB parameters, MPBFixed/Fixed/SMFixed vs MPFixed), every mode, overflow
   mode, special-value option and substitute, every operand; with and without
   the early check.  A wrapping format must be declined (fx_wrap): the two
   probes of the code as found do not always detect it
   (unfold_overflow_wrap_refuted). *)
Theorem unfold_overflow_eq fx early c s x :
  uo_describe fx early c = Some s ->
  (fx_wrap fx = true \/ ctx_wraps c = false) ->
  uo_ctx_ok c -> (early = true -> uo_early_ok c s) ->
  fl_wf x ->
  vequiv (sem (uo_lp early s) x) (vround c x).
Proof.
  intros Hd Hfx Hok Hearly Hw. unfold uo_describe in Hd.
  destruct (deterministic c) eqn:Hdet; [|discriminate]. cbn [negb] in Hd.
  assert (Hwr : ctx_wraps c = false).
  { destruct Hfx as [Hf|Hf]; [|exact Hf]. rewrite Hf in Hd. cbn [andb] in Hd.
    destruct (ctx_wraps c); [discriminate|reflexivity]. }
  rewrite Hwr, andb_false_r in Hd.
  destruct (uo_parts c) as [[[[[U maxv] negv] p] n]|] eqn:Hp; [|discriminate].
  destruct (rc negv =? 0) eqn:Cn; [discriminate|]. destruct (rs negv) eqn:Sn; [|discriminate].
  destruct (rc maxv =? 0) eqn:Cp; [discriminate|]. cbn [orb negb] in Hd.
  destruct (next_away maxv n p) as [infv|] eqn:Ei; [|discriminate].
  destruct (next_away negv n p) as [ninfv|] eqn:Eni; [|discriminate].
  destruct (vround c (FFin (rf_shift maxv 1))) as [op|] eqn:Eop; [|discriminate].
  destruct (vround c (FFin (rf_shift negv 1))) as [on|] eqn:Eon; [|discriminate].
  destruct (vround c (FFin (rf_shift maxv 64))) as [fp_|] eqn:Efp; [|discriminate].
  destruct (vround c (FFin (rf_shift negv 64))) as [fn|] eqn:Efn; [|discriminate].
  destruct (negb (fl_same op fp_ && fl_same on fn)); [discriminate|].
  destruct (uo_family c U maxv negv p n Hdet Hwr Hp Hok) as (rm & ovr & zU & zC & Hb & Hz & Hcw & HUw & Hovw).
  destruct Hok as [Hsub Hfmt]. rewrite Hp in Hfmt. destruct Hfmt as (Hp1 & Wp & Wn & Sp & Gp & Gn).
  apply Z.eqb_neq in Cn, Cp.
  assert (Hbo : bounds_ok p n maxv negv) by (repeat split; assumption).
  destruct (probe_overflows c U maxv negv p n rm ovr zU zC 1 Hb Hbo ltac:(lia)) as [P1 P2].
  rewrite Eop in P1. rewrite Eon in P2.
  (* the sign-of-zero switch is zU && not zC *)
  destruct Hb as [Hb1 Hb0]. destruct (Hb0 true 0) as [Z1 Z2]. rewrite Z1, Z2 in Hd.
  cbn [fl_s rs andb] in Hd.
  set (chk := match vround U pos_inf with Ok _ => false | Err _ => true end) in *.
  set (s0 := UO U maxv negv infv ninfv op on (zU && negb zC) chk None None) in *.
  destruct (uo_special c (uo_body early s0) pos_nan) as [sn|] eqn:Hsn; [|discriminate].
  destruct (uo_special c (uo_body early s0) pos_inf) as [si|] eqn:Hsi; [|discriminate].
  injection Hd as <-.
  apply (uo_generic c U maxv negv p n rm ovr zU zC early infv ninfv op on chk (conj Hb1 Hb0) Hbo Hz
           (eq_sym P1) (eq_sym P2)); try assumption.
  - intros He. specialize (Hearly He). unfold uo_early_ok in Hearly. rewrite Hp in Hearly. exact Hearly.
  - apply (Hovw false). symmetry. exact P1.
  - apply (Hovw true). symmetry. exact P2.
Qed.
