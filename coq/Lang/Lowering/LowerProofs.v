(* C10: the rounding-lowering rewrites are identities between rounding
   functions.  Part 1: values, equivalence, unfold_special, unfold_neg_zero. *)
From Coq Require Import ZArith List Bool Lia Reals Psatz.
From Flocq Require Import Core.Zaux Core.Raux Core.Defs Core.Digits Core.Float_prop
  Core.Generic_fmt Core.FLX Core.FLT Core.FIX.
From FpyV Require Import Num.RealFloat Num.RealFloatProofs Num.RoundSpec Num.RoundProofs
  Num.Float Num.FloatProofs Num.CtxDef Num.Ctx Num.CtxProofs Num.StochProofs Lang.Lowering.Lower.
Import ListNotations.
Open Scope Z_scope.

(* ---------------------------------------------------------------- results up to representation *)
(* same class, same sign (zeros too), same real value; the sign of a NaN is
   not part of the value (2^k * NaN computed under REAL is +NaN) *)
Definition fl_equiv (a b : fl) : Prop :=
  match a, b with
  | FFin x, FFin y => R2R x = R2R y /\ rs x = rs y
  | FInf s, FInf t => s = t
  | FNaN _, FNaN _ => True
  | _, _ => False
  end.

Definition vequiv (a b : vres) : Prop :=
  match a, b with
  | Ok x, Ok y => fl_equiv x y
  | Err e, Err e' => e = e'
  | _, _ => False
  end.

Lemma fl_equiv_refl a : fl_equiv a a.
Proof. destruct a; simpl; auto. Qed.
Lemma fl_equiv_sym a b : fl_equiv a b -> fl_equiv b a.
Proof. destruct a, b; simpl; intuition congruence. Qed.
Lemma fl_equiv_trans a b c : fl_equiv a b -> fl_equiv b c -> fl_equiv a c.
Proof. destruct a, b, c; simpl; intuition congruence. Qed.
Lemma vequiv_refl a : vequiv a a.
Proof. destruct a; simpl; auto using fl_equiv_refl. Qed.
Lemma vequiv_sym a b : vequiv a b -> vequiv b a.
Proof. destruct a, b; simpl; auto using fl_equiv_sym. Qed.
Lemma vequiv_trans a b c : vequiv a b -> vequiv b c -> vequiv a c.
Proof. destruct a, b, c; simpl; try tauto; try congruence; eauto using fl_equiv_trans. Qed.
Lemma vequiv_eq a b : a = b -> vequiv a b.
Proof. intros ->. apply vequiv_refl. Qed.

(* ---------------------------------------------------------------- tests on a finite operand *)
Lemma fl_eq0_fin r : fl_eq0 (FFin r) = is_zero r.
Proof.
  unfold fl_eq0, fl_compare, rf_compare, zero_rf, is_zero. simpl.
  destruct (rc r =? 0); [reflexivity|]. destruct (rs r); reflexivity.
Qed.
Lemma fl_eq0_inf s : fl_eq0 (FInf s) = false.
Proof. destruct s; reflexivity. Qed.
Lemma fl_eq0_nan s : fl_eq0 (FNaN s) = false.
Proof. reflexivity. Qed.

(* ================================================================ unfold_special *)
(* every family but REAL rounds a zero to a zero that depends on its sign only *)
Lemma vround_zero c r : c <> CReal -> is_zero r = true ->
  vround c (FFin r) = vround c (FFin (RF (rs r) 0 0)).
Proof.
  intros Hc Hz. unfold vround, ctx_round0, ctx_round.
  destruct c; try congruence;
    unfold round_mpfloat, round_mpsfloat, round_mpbfloat, round_efloat, round_mpfixed, round_fixed, round_smfixed,
           round_exp, round_mpfloat;
    repeat match goal with |- context [let '(_, _) := ?e in _] => destruct e end;
    unfold round_mpbfloat, round_mpbfixed, special_float, special_fixed; rewrite ?Hz;
    unfold is_zero in *; simpl; try reflexivity.
Qed.

(* shedding a rule changes nothing for an operand the rule does not see *)
Lemma o2i_any_of rm s : overflow_to_infinity rm s = true -> o2i_any rm = true.
Proof. unfold o2i_any. destruct s; intros ->; [apply orb_true_r|reflexivity]. Qed.

Lemma bounded_drop_inf rm s ei iv :
  bounded_inf_safe rm OV_OVERFLOW ei iv = true -> overflow_to_infinity rm s = true -> ei = false /\ iv = None.
Proof.
  unfold bounded_inf_safe. intros H Ho. rewrite (o2i_any_of _ _ Ho) in H.
  destruct ei; [discriminate|]. destruct iv; [discriminate|]. auto.
Qed.

Lemma vround_drop_fin c sn si r :
  (si = true -> us_inf_safe c = true) ->
  vround (us_drop c sn si) (FFin r) = vround c (FFin r).
Proof.
  intros Hsafe. unfold vround, ctx_round0, ctx_round.
  destruct c; cbn [us_drop].
  - reflexivity.
  - reflexivity.
  - reflexivity.
  - (* MPBFloat *)
    unfold round_mpbfloat, special_float. destruct (is_zero r); [reflexivity|].
    destruct (rf_round_k r (Some pmax) (Some (clamp_n None (mps_nmin pmax emin))) rm k 0) as [[y f]|e]; [|reflexivity].
    cbn [bind]. destruct (is_overflowing pos_max neg_max y); [|reflexivity].
    destruct ov; try reflexivity.
    destruct (overflow_to_infinity rm (rs y)) eqn:Ho; [|reflexivity].
    destruct si; [|destruct sp; reflexivity].
    specialize (Hsafe eq_refl). cbn [us_inf_safe] in Hsafe.
    destruct (bounded_drop_inf _ _ _ _ Hsafe Ho) as [E1 E2].
    destruct sp as [en ei nv iv]; cbn in *. subst. reflexivity.
  - reflexivity.
  - reflexivity.
  - (* MPBFixed *)
    unfold round_mpbfixed, special_fixed. destruct (is_zero r); [reflexivity|].
    destruct (rf_round_k r None (Some (clamp_n_fixed None nmin)) rm k 0) as [[y f]|e]; [|reflexivity].
    cbn [bind]. destruct (is_overflowing pos_max neg_max y); [|reflexivity].
    destruct ov; try reflexivity.
    destruct (overflow_to_infinity rm (rs y)) eqn:Ho; [|reflexivity].
    destruct si; [|destruct sp; reflexivity].
    specialize (Hsafe eq_refl). cbn [us_inf_safe] in Hsafe.
    destruct (bounded_drop_inf _ _ _ _ Hsafe Ho) as [E1 E2].
    destruct sp as [en ei nv iv]; cbn in *. subst. reflexivity.
  - (* Fixed *)
    unfold round_fixed. destruct (fixed_bounds signed scale nbits) as [pm nm].
    unfold round_mpbfixed, special_fixed. destruct (is_zero r); [reflexivity|].
    destruct (rf_round_k r None (Some (clamp_n_fixed None (scale - 1))) rm k 0) as [[y f]|e]; [|reflexivity].
    cbn [bind]. destruct (is_overflowing pm nm y); [|reflexivity].
    destruct ov; try reflexivity.
    destruct (overflow_to_infinity rm (rs y)) eqn:Ho; [|reflexivity].
    destruct si; [|reflexivity].
    specialize (Hsafe eq_refl). cbn [us_inf_safe] in Hsafe.
    destruct (bounded_drop_inf _ _ _ _ Hsafe Ho) as [E1 E2]. subst. reflexivity.
  - (* SMFixed *)
    unfold round_smfixed, round_mpbfixed, special_fixed. destruct (is_zero r); [reflexivity|].
    destruct (rf_round_k r None (Some (clamp_n_fixed None (scale - 1))) rm k 0) as [[y f]|e]; [|reflexivity].
    cbn [bind]. match goal with |- context [is_overflowing ?a ?b y] => destruct (is_overflowing a b y) end; [|reflexivity].
    destruct ov; try reflexivity.
    destruct (overflow_to_infinity rm (rs y)) eqn:Ho; [|reflexivity].
    destruct si; [|reflexivity].
    specialize (Hsafe eq_refl). cbn [us_inf_safe] in Hsafe.
    destruct (bounded_drop_inf _ _ _ _ Hsafe Ho) as [E1 E2]. subst. reflexivity.
  - reflexivity.
Qed.

Lemma vround_drop_nan c si s : vround (us_drop c false si) (FNaN s) = vround c (FNaN s).
Proof.
  unfold vround, ctx_round0, ctx_round.
  destruct c; cbn [us_drop]; try reflexivity;
    try (destruct sp; reflexivity);
    unfold round_fixed, round_smfixed; repeat match goal with |- context [let '(_, _) := ?e in _] => destruct e end;
    reflexivity.
Qed.

Lemma vround_drop_inf c sn s : vround (us_drop c sn false) (FInf s) = vround c (FInf s).
Proof.
  unfold vround, ctx_round0, ctx_round.
  destruct c; cbn [us_drop]; try reflexivity;
    try (destruct sp; reflexivity);
    unfold round_fixed, round_smfixed; repeat match goal with |- context [let '(_, _) := ?e in _] => destruct e end;
    reflexivity.
Qed.

Lemma try_pair_spec c pos a b : try_pair c pos = Some (a, b) ->
  vround c pos = Ok a /\ vround c (fl_with_sign true pos) = Ok b.
Proof.
  unfold try_pair. destruct (vround c pos); [|discriminate].
  destruct (vround c (fl_with_sign true pos)); [|discriminate]. intros [= <- <-]. auto.
Qed.

Lemma sem_ladder nanp infp zerop body x :
  sem (ladder nanp infp zerop body) x =
  match x with
  | FNaN s => match nanp with Some (a, b) => Ok (if s then b else a) | None => sem body x end
  | FInf s => match infp with Some (a, b) => Ok (if s then b else a) | None => sem body x end
  | FFin r =>
      if is_zero r then match zerop with Some (a, b) => Ok (if rs r then b else a) | None => sem body x end
      else sem body x
  end.
Proof.
  unfold ladder.
  destruct x as [r|s|s]; destruct nanp as [[? ?]|], infp as [[? ?]|], zerop as [[? ?]|];
    cbn [sem eval_test fl_isnan fl_isinf fl_s]; rewrite ?fl_eq0_fin, ?fl_eq0_inf, ?fl_eq0_nan;
    try reflexivity; destruct (is_zero r); reflexivity.
Qed.

(* unfold_special: the branch ladder assigns exactly what the source context
   returns on NaN / +-inf / +-0, and the surviving context agrees with it on
   every other operand, for every shedding decision `_describe` may take *)
Theorem unfold_special_eq c sn si x :
  c <> CReal -> us_shed_ok c sn si = true ->
  sem (us_lp c sn si) x = vround c x.
Proof.
  intros Hc Hok. unfold us_lp. rewrite sem_ladder.
  unfold us_shed_ok in Hok. apply andb_prop in Hok as [Hok Hi]. apply andb_prop in Hok as [Hok Hn].
  apply andb_prop in Hok as [_ Hsafe].
  destruct x as [r|s|s].
  - (* finite *)
    assert (Hbody : sem (LRound (us_drop c sn si)) (FFin r) = vround c (FFin r)).
    { cbn [sem]. apply vround_drop_fin. intros ->. simpl in Hsafe. exact Hsafe. }
    destruct (is_zero r) eqn:Hz; [|exact Hbody].
    destruct (try_pair c pos_zero) as [[a b]|] eqn:Hp; [|exact Hbody].
    apply try_pair_spec in Hp as [Ha Hb]. rewrite (vround_zero c r Hc Hz).
    destruct (rs r); [exact (eq_sym Hb)|exact (eq_sym Ha)].
  - (* infinity *)
    destruct (try_pair c pos_inf) as [[a b]|] eqn:Hp.
    + apply try_pair_spec in Hp as [Ha Hb]. destruct s; [exact (eq_sym Hb)|exact (eq_sym Ha)].
    + destruct si; [discriminate|]. cbn [sem]. apply vround_drop_inf.
  - (* NaN *)
    destruct (try_pair c pos_nan) as [[a b]|] eqn:Hp.
    + apply try_pair_spec in Hp as [Ha Hb]. destruct s; [exact (eq_sym Hb)|exact (eq_sym Ha)].
    + destruct sn; [discriminate|]. cbn [sem]. apply vround_drop_nan.
Qed.

(* the leaf rewrite (the choice `_describe` takes) *)
Lemma us_choice_ok c : let '(sn, si) := us_choice c in us_shed_ok c sn si = true.
Proof.
  unfold us_choice.
  destruct (us_shed_ok c true true) eqn:E1; [exact E1|].
  destruct (us_shed_ok c true false) eqn:E2; [exact E2|].
  destruct (us_shed_ok c false true) eqn:E3; [exact E3|].
  reflexivity.
Qed.

Theorem us_leaf_sound c p x : us_leaf c = Some p -> sem p x = vround c x.
Proof.
  unfold us_leaf. destruct (us_decl c) eqn:Hd; [discriminate|].
  pose proof (us_choice_ok c) as Hok. destruct (us_choice c) as [sn si]. intros [= <-].
  apply unfold_special_eq; [|exact Hok]. intros ->. discriminate.
Qed.

(* ================================================================ unfold_neg_zero *)
Lemma rf_round_sign x max_p min_n rm y f :
  rf_wf x -> rc x <> 0 -> match max_p with Some p => 1 <= p | None => True end ->
  (max_p <> None \/ min_n <> None) ->
  rf_round x max_p min_n rm false = Ok (y, f) -> rs y = rs x /\ rf_wf y.
Proof.
  intros Hw Hnz Hp Hs Hr.
  destruct (rf_round_spec x max_p min_n rm Hw Hnz Hp Hs) as (y' & f' & Hr' & _ & Hsg & Hwy & _).
  rewrite Hr in Hr'. injection Hr' as <- <-. auto.
Qed.

Lemma fl_eq0_sub v : is_zero_sub (Some v) = false -> fl_eq0 v = false.
Proof. destruct v as [r|s|s]; simpl; [rewrite fl_eq0_fin; auto|intros _; apply fl_eq0_inf|reflexivity]. Qed.

Lemma rf_eta (y : rf) : RF (rs y) (rexp y) (rc y) = y.
Proof. destruct y; reflexivity. Qed.

Lemma copy_zero_special sp x (r : result rfl) :
  special_fixed sp x = Some r ->
  (sp_enable_nan sp = false -> is_zero_sub (sp_nan_value sp) = false) ->
  (sp_enable_inf sp = false -> is_zero_sub (sp_inf_value sp) = false) ->
  bind (match r with Ok (y, _) => Ok y | Err e => Err e end)
       (fun t => Ok (if fl_eq0 t then fl_copysign t x else t)) =
  match r with Ok (y, _) => Ok y | Err e => Err e end.
Proof.
  intros Hs Hn Hi. destruct x as [xr|s|s]; [discriminate| |]; cbn [special_fixed] in Hs.
  - destruct (sp_enable_inf sp) eqn:E.
    + injection Hs as <-. cbn [bind]. rewrite fl_eq0_inf. reflexivity.
    + destruct (sp_inf_value sp) as [v|] eqn:Ev; injection Hs as <-; [|reflexivity].
      cbn [bind]. rewrite (fl_eq0_sub v (Hi eq_refl)). reflexivity.
  - destruct (sp_enable_nan sp) eqn:E.
    + injection Hs as <-. reflexivity.
    + destruct (sp_nan_value sp) as [v|] eqn:Ev; injection Hs as <-; [|reflexivity].
      cbn [bind]. rewrite (fl_eq0_sub v (Hn eq_refl)). reflexivity.
Qed.

Lemma mpbfixed_negzero nmin pm nm rm ov sp x :
  fl_wf x ->
  ov <> OV_WRAP ->
  (sp_enable_nan sp = false -> is_zero_sub (sp_nan_value sp) = false) ->
  (sp_enable_inf sp = false -> is_zero_sub (sp_inf_value sp) = false) ->
  zero_bound pm nm ov = false ->
  sem (LCopyZero (LRound (CMPBFixed nmin pm nm rm ov (Some 0) sp false))) x =
  vround (CMPBFixed nmin pm nm rm ov (Some 0) sp true) x.
Proof.
  intros Hw Hov Hn Hi Hzb. cbn [sem]. unfold vround, ctx_round0, ctx_round, round_mpbfixed.
  destruct (special_fixed sp x) as [r|] eqn:Hs.
  { apply (copy_zero_special sp x r Hs Hn Hi). }
  destruct x as [xr| |]; try discriminate. clear Hs.
  destruct (is_zero xr) eqn:Hz.
  { cbn [bind]. rewrite fl_eq0_fin. unfold is_zero; simpl.
    unfold fl_copysign, fl_with_sign; simpl. rewrite andb_true_r. reflexivity. }
  unfold rf_round_k.
  destruct (rf_round xr None (Some (clamp_n_fixed None nmin)) rm false) as [[y f]|e] eqn:Hr; [|reflexivity].
  assert (Hnz : rc xr <> 0) by (unfold is_zero in Hz; apply Z.eqb_neq; exact Hz).
  assert (Hsome : @None Z <> None \/ Some (clamp_n_fixed None nmin) <> None) by (right; discriminate).
  destruct (rf_round_sign xr None (Some (clamp_n_fixed None nmin)) rm y f Hw Hnz I Hsome Hr) as [Hsg Hwy].
  cbn [bind].
  destruct (is_overflowing pm nm y) eqn:Hovf.
  - (* overflow: the same result under both, and never a zero of the wrong sign *)
    destruct ov; try congruence.
    + destruct (overflow_to_infinity rm (rs y)).
      * destruct (sp_enable_inf sp) eqn:E.
        { cbn [bind]. rewrite fl_eq0_inf. reflexivity. }
        destruct (sp_inf_value sp) as [v|] eqn:Ev; [|reflexivity].
        cbn [bind]. rewrite (fl_eq0_sub v (Hi eq_refl)). reflexivity.
      * cbn [bind]. rewrite fl_eq0_fin.
        unfold zero_bound in Hzb. apply orb_false_elim in Hzb as [Z1 Z2].
        destruct (rs y) eqn:Sy.
        { unfold is_zero. destruct (rc nm =? 0) eqn:Zn; [|reflexivity].
          simpl in Z1. apply negb_false_iff in Z1.
          unfold fl_copysign, fl_with_sign, fl_s. rewrite <- Hsg, <- Z1. rewrite rf_eta. reflexivity. }
        { unfold is_zero. destruct (rc pm =? 0) eqn:Zp; [|reflexivity].
          simpl in Z2.
          unfold fl_copysign, fl_with_sign, fl_s. rewrite <- Hsg, <- Z2. rewrite rf_eta. reflexivity. }
    + cbn [bind]. rewrite fl_eq0_fin.
      unfold zero_bound in Hzb. apply orb_false_elim in Hzb as [Z1 Z2].
      destruct (rs y) eqn:Sy.
      { unfold is_zero. destruct (rc nm =? 0) eqn:Zn; [|reflexivity].
        simpl in Z1. apply negb_false_iff in Z1.
        unfold fl_copysign, fl_with_sign, fl_s. rewrite <- Hsg, <- Z1. rewrite rf_eta. reflexivity. }
      { unfold is_zero. destruct (rc pm =? 0) eqn:Zp; [|reflexivity].
        simpl in Z2.
        unfold fl_copysign, fl_with_sign, fl_s. rewrite <- Hsg, <- Z2. rewrite rf_eta. reflexivity. }
    + reflexivity.
  - (* in range: only the sign of a zero result differs, and the operand supplies it *)
    cbn [bind]. rewrite fl_eq0_fin. unfold fix_neg_zero.
    destruct (is_zero y) eqn:Zy; cbn [andb negb]; rewrite ?andb_false_r.
    + destruct (rs y) eqn:Sy; cbn [andb]; unfold is_zero in *; cbn [rc]; rewrite Zy.
      * unfold fl_copysign, fl_with_sign, fl_s; cbn [rexp rc rs]. rewrite <- Hsg, <- Sy. rewrite rf_eta. reflexivity.
      * unfold fl_copysign, fl_with_sign, fl_s. rewrite <- Hsg, <- Sy. rewrite rf_eta. reflexivity.
    + rewrite Zy. reflexivity.
Qed.

Lemma mpfixed_negzero nmin rm sp x :
  fl_wf x ->
  (sp_enable_nan sp = false -> is_zero_sub (sp_nan_value sp) = false) ->
  (sp_enable_inf sp = false -> is_zero_sub (sp_inf_value sp) = false) ->
  sem (LCopyZero (LRound (CMPFixed nmin rm (Some 0) sp false))) x =
  vround (CMPFixed nmin rm (Some 0) sp true) x.
Proof.
  intros Hw Hn Hi. cbn [sem]. unfold vround, ctx_round0, ctx_round, round_mpfixed.
  destruct (special_fixed sp x) as [r|] eqn:Hs.
  { apply (copy_zero_special sp x r Hs Hn Hi). }
  destruct x as [xr| |]; try discriminate. clear Hs.
  destruct (is_zero xr) eqn:Hz.
  { cbn [bind]. rewrite fl_eq0_fin. unfold is_zero; simpl.
    unfold fl_copysign, fl_with_sign; simpl. rewrite andb_true_r. reflexivity. }
  unfold rf_round_k.
  destruct (rf_round xr None (Some (clamp_n_fixed None nmin)) rm false) as [[y f]|e] eqn:Hr; [|reflexivity].
  assert (Hnz : rc xr <> 0) by (unfold is_zero in Hz; apply Z.eqb_neq; exact Hz).
  assert (Hsome : @None Z <> None \/ Some (clamp_n_fixed None nmin) <> None) by (right; discriminate).
  destruct (rf_round_sign xr None (Some (clamp_n_fixed None nmin)) rm y f Hw Hnz I Hsome Hr) as [Hsg Hwy].
  cbn [bind fst snd]. rewrite fl_eq0_fin. unfold fix_neg_zero.
  destruct (is_zero y) eqn:Zy; cbn [andb negb]; rewrite ?andb_false_r.
  - destruct (rs y) eqn:Sy; cbn [andb]; unfold is_zero in *; cbn [rc]; rewrite Zy.
    + unfold fl_copysign, fl_with_sign, fl_s; cbn [rexp rc rs]. rewrite <- Hsg, <- Sy. rewrite rf_eta. reflexivity.
    + unfold fl_copysign, fl_with_sign, fl_s. rewrite <- Hsg, <- Sy. rewrite rf_eta. reflexivity.
  - rewrite Zy. reflexivity.
Qed.

Lemma is_zero_sub_or a b (x y : option fl) :
  negb ((negb a && is_zero_sub x) || (negb b && is_zero_sub y)) = true ->
  (a = false -> is_zero_sub x = false) /\ (b = false -> is_zero_sub y = false).
Proof.
  intros H. apply negb_true_iff in H. apply orb_false_elim in H as [H1 H2].
  split; intros ->; simpl in *; assumption.
Qed.

(* unfold_neg_zero: C is C_ (one zero) plus the sign of the operand on a zero
   result; declined for WRAP and for zero substitutes as the code says -- and,
   what the code as found does not say, for a bound that is a zero of the
   other sign (fx_zero_bound) *)
Theorem unfold_neg_zero_eq fx c p x :
  fl_wf x -> unz_leaf fx c = Some p ->
  (fx_zero_bound fx = true \/ unz_zero_bound c = false) ->
  sem p x = vround c x.
Proof.
  intros Hw Hl Hzb. unfold unz_leaf in Hl.
  destruct (deterministic c) eqn:Hd; [|discriminate]. cbn [negb] in Hl.
  destruct (neg_zero_of c) eqn:Hnz; [|discriminate]. cbn [negb] in Hl.
  destruct (unz_dropped c) as [c'|] eqn:Hc'; [|discriminate].
  destruct (unz_survives fx c) eqn:Hsv; [|discriminate]. injection Hl as <-.
  assert (Hzb' : unz_zero_bound c = false).
  { destruct Hzb as [Hf|Hf]; [|exact Hf].
    destruct c; try reflexivity; unfold unz_survives in Hsv; rewrite Hf in Hsv;
      apply andb_prop in Hsv as [_ Hsv]; apply negb_true_iff in Hsv; exact Hsv. }
  destruct c; try discriminate; unfold deterministic, ctx_k in Hd.
  - (* MPFixed *)
    destruct k as [[| |]|]; try discriminate.
    assert (neg_zero = true).
    { unfold neg_zero_of, vround, ctx_round0, ctx_round, round_mpfixed in Hnz.
      destruct (special_fixed sp (FFin (RF true 0 0))) eqn:E; [discriminate|]. simpl in Hnz. exact Hnz. }
    subst. injection Hc' as <-.
    unfold unz_survives in Hsv. apply andb_prop in Hsv as [Hsv _]. cbn [negb andb] in Hsv.
    apply is_zero_sub_or in Hsv as [Hn Hi].
    apply mpfixed_negzero; assumption.
  - (* MPBFixed *)
    destruct k as [[| |]|]; try discriminate.
    assert (neg_zero = true).
    { unfold neg_zero_of, vround, ctx_round0, ctx_round, round_mpbfixed in Hnz.
      destruct (special_fixed sp (FFin (RF true 0 0))) eqn:E; [discriminate|]. simpl in Hnz. exact Hnz. }
    subst. injection Hc' as <-.
    unfold unz_survives in Hsv. apply andb_prop in Hsv as [Hsv _]. apply andb_prop in Hsv as [Hwr Hsv].
    apply is_zero_sub_or in Hsv as [Hn Hi].
    apply mpbfixed_negzero; try assumption.
    intros ->. discriminate.
  - (* Fixed: one zero *)
    exfalso. unfold neg_zero_of, vround, ctx_round0, ctx_round, round_fixed in Hnz.
    destruct (fixed_bounds signed scale nbits). unfold round_mpbfixed in Hnz. simpl in Hnz. discriminate.
  - (* SMFixed: rebuilt as the MPBFixed it derives from *)
    destruct k as [[| |]|]; try discriminate.
    injection Hc' as <-.
    unfold unz_survives in Hsv. apply andb_prop in Hsv as [Hsv _]. apply andb_prop in Hsv as [Hwr Hsv].
    apply is_zero_sub_or in Hsv as [Hn Hi].
    change (vround (CSMFixed scale nbits rm ov (Some 0) nan_value inf_value) x)
      with (vround (CMPBFixed (scale - 1) (RF false scale (bitmask (nbits - 1))) (RF true scale (bitmask (nbits - 1)))
                              rm ov (Some 0) (sp_fixed nan_value inf_value) true) x).
    apply mpbfixed_negzero; try assumption.
    intros ->. discriminate.
Qed.

(* ================================================================ rescale_fixed *)
Lemma rf_shift_shift x k : rf_shift (rf_shift x k) (- k) = x.
Proof. destruct x as [s e c]. unfold rf_shift; simpl. f_equal. lia. Qed.

Lemma rf_round_fix x n rm : 0 < rc x ->
  exists f, rf_round x None (Some n) rm false = Ok (fix_round_val rm x n, f).
Proof.
  intros Hc. unfold rf_round, round_params. cbn [bind].
  exact (round_at_fix_exact x n None rm Hc).
Qed.

Lemma gtb_shift a b j : (a + j >? b + j) = (a >? b).
Proof. destruct (Z.gtb_spec (a + j) (b + j)), (Z.gtb_spec a b); try reflexivity; lia. Qed.

Lemma fix_round_val_shift rm x n j :
  fix_round_val rm (rf_shift x j) (n + j) = rf_shift (fix_round_val rm x n) j.
Proof.
  unfold fix_round_val, rf_shift. cbn [rs rexp rc]. rewrite gtb_shift.
  destruct (rexp x >? n); [reflexivity|].
  replace (n + j + 1 - (rexp x + j)) with (n + 1 - rexp x) by lia.
  cbn [rs rexp rc]. f_equal. lia.
Qed.

Lemma rf_compare_shift a b j : rf_compare (rf_shift a j) (rf_shift b j) = rf_compare a b.
Proof.
  unfold rf_compare, rf_shift, rf_e, rf_p. cbn [rs rexp rc].
  replace (rexp a + j + bitlen (rc a) - 1) with (j + (rexp a + bitlen (rc a) - 1)) by lia.
  replace (rexp b + j + bitlen (rc b) - 1) with (j + (rexp b + bitlen (rc b) - 1)) by lia.
  rewrite Z.add_compare_mono_l. rewrite Z.add_min_distr_r.
  replace (rexp a + j - (Z.min (rexp a) (rexp b) + j)) with (rexp a - Z.min (rexp a) (rexp b)) by lia.
  replace (rexp b + j - (Z.min (rexp a) (rexp b) + j)) with (rexp b - Z.min (rexp a) (rexp b)) by lia.
  reflexivity.
Qed.

(* b' is b moved by 2^j (a zero bound may be written at any exponent) *)
Definition bound_moved (b b' : rf) (j : Z) : Prop :=
  rc b' = rc b /\ rs b' = rs b /\ (rc b <> 0 -> rexp b' = rexp b + j).

Lemma bound_moved_shift b j : bound_moved b (rf_shift b j) j.
Proof. unfold bound_moved, rf_shift; simpl. auto. Qed.

Lemma rf_compare_moved y b b' j : bound_moved b b' j ->
  rf_compare (rf_shift y j) b' = rf_compare y b.
Proof.
  intros (Hc & Hs & He). destruct (Z.eq_dec (rc b) 0) as [Z0|Z0].
  - unfold rf_compare, rf_shift. cbn [rs rexp rc]. rewrite Hc, Hs, Z0. cbn. reflexivity.
  - specialize (He Z0).
    replace b' with (rf_shift b j); [apply rf_compare_shift|].
    destruct b' as [s' e' c']; unfold rf_shift; simpl in *. subst. reflexivity.
Qed.

Lemma is_overflowing_moved pm nm pm' nm' y j : bound_moved pm pm' j -> bound_moved nm nm' j ->
  is_overflowing pm' nm' (rf_shift y j) = is_overflowing pm nm y.
Proof.
  intros Hp Hn. unfold is_overflowing. cbn [rf_shift rs].
  rewrite (rf_compare_moved y nm nm' j Hn), (rf_compare_moved y pm pm' j Hp). reflexivity.
Qed.

Lemma fixed_to_ordinal_shift n x j : fixed_to_ordinal (n + j) (rf_shift x j) = fixed_to_ordinal n x.
Proof.
  unfold fixed_to_ordinal, rf_shift, is_zero. cbn [rs rexp rc].
  replace (rexp x + j - (n + j + 1)) with (rexp x - (n + 1)) by lia. reflexivity.
Qed.

Lemma fixed_to_ordinal_moved n b b' j : bound_moved b b' j ->
  fixed_to_ordinal (n + j) b' = fixed_to_ordinal n b.
Proof.
  intros (Hc & Hs & He). destruct (Z.eq_dec (rc b) 0) as [Z0|Z0].
  - unfold fixed_to_ordinal, is_zero. rewrite Hc, Z0. reflexivity.
  - specialize (He Z0).
    replace b' with (rf_shift b j); [apply fixed_to_ordinal_shift|].
    destruct b' as [s' e' c']; unfold rf_shift; simpl in *. subst. reflexivity.
Qed.

(* scaling back *)
Lemma equiv_zero s e e' : fl_equiv (FFin (RF s e 0)) (FFin (RF s e' 0)).
Proof. simpl. split; [|reflexivity]. rewrite !R2R_zero by reflexivity. reflexivity. Qed.

Lemma scale_back y j : fl_equiv (fl_scale (- j) (FFin (rf_shift y j))) (FFin y).
Proof.
  unfold fl_scale, is_zero. cbn [rf_shift rc rs].
  destruct (Z.eqb_spec (rc y) 0) as [Z0|Z0].
  - destruct y as [s e c]. simpl in Z0. subst. apply equiv_zero.
  - fold (rf_shift y j). rewrite rf_shift_shift. apply fl_equiv_refl.
Qed.

Lemma scale_back_moved b b' j : bound_moved b b' j -> fl_equiv (fl_scale (- j) (FFin b')) (FFin b).
Proof.
  intros (Hc & Hs & He). destruct (Z.eq_dec (rc b) 0) as [Z0|Z0].
  - unfold fl_scale, is_zero. rewrite Hc, Z0. cbn. rewrite Hs.
    destruct b as [s e c]. simpl in Z0. subst c. cbn [rs]. apply equiv_zero.
  - specialize (He Z0).
    replace b' with (rf_shift b j); [apply scale_back|].
    destruct b' as [s' e' c']; unfold rf_shift; simpl in *. subst. reflexivity.
Qed.

Lemma scale_nonfinite j v : finite_sub (Some v) = false -> fl_equiv (fl_scale j v) v.
Proof. destruct v; simpl; [discriminate|auto|auto]. Qed.

Lemma fix_neg_zero_shift nz y j : fix_neg_zero nz (rf_shift y j) = rf_shift (fix_neg_zero nz y) j.
Proof.
  unfold fix_neg_zero, is_zero, rf_shift. cbn [rs rexp rc].
  destruct ((rc y =? 0) && rs y && negb nz); reflexivity.
Qed.

(* a special operand: scaled in, substituted/kept, scaled out *)
Lemma special_rescale sp x j (r : result rfl) :
  finite_sub (sp_nan_value sp) = false -> finite_sub (sp_inf_value sp) = false ->
  special_fixed sp x = Some r ->
  exists r', special_fixed sp (fl_scale j x) = Some r' /\
    vequiv (bind (match r' with Ok (y, _) => Ok y | Err e => Err e end) (fun t => Ok (fl_scale (- j) t)))
           (match r with Ok (y, _) => Ok y | Err e => Err e end).
Proof.
  intros Hn Hi Hs. destruct x as [xr|s|s]; [discriminate| |]; cbn [special_fixed fl_scale] in *.
  - eexists; split; [reflexivity|]. injection Hs as <-.
    destruct (sp_enable_inf sp); [simpl; reflexivity|].
    destruct (sp_inf_value sp) as [v|]; [|simpl; reflexivity].
    cbn [bind]. apply (scale_nonfinite (- j) v Hi).
  - eexists; split; [reflexivity|]. injection Hs as <-.
    destruct (sp_enable_nan sp); [simpl; exact I|].
    destruct (sp_nan_value sp) as [v|]; [|simpl; reflexivity].
    cbn [bind]. apply (scale_nonfinite (- j) v Hn).
Qed.

Lemma mpbfixed_rescale nmin pm nm pm' nm' rm ov sp nz j x :
  fl_wf x -> bound_moved pm pm' j -> bound_moved nm nm' j ->
  finite_sub (sp_nan_value sp) = false -> finite_sub (sp_inf_value sp) = false ->
  vequiv (bind (vround (CMPBFixed (nmin + j) pm' nm' rm ov (Some 0) sp nz) (fl_scale j x))
               (fun r => Ok (fl_scale (- j) r)))
         (vround (CMPBFixed nmin pm nm rm ov (Some 0) sp nz) x).
Proof.
  intros Hw Hp Hn Hnv Hiv. unfold vround, ctx_round0, ctx_round, round_mpbfixed.
  destruct (special_fixed sp x) as [r|] eqn:Hs.
  { destruct (special_rescale sp x j r Hnv Hiv Hs) as (r' & Hs' & He). rewrite Hs'. exact He. }
  destruct x as [xr| |]; try discriminate. clear Hs. cbn [fl_scale special_fixed].
  destruct (is_zero xr) eqn:Hz.
  { unfold is_zero at 1. cbn [rc]. cbn [Z.eqb bind rs]. unfold fl_scale, is_zero. cbn. split; reflexivity. }
  assert (Hz' : is_zero (rf_shift xr j) = false) by exact Hz. rewrite Hz'.
  assert (Hc : 0 < rc xr).
  { unfold is_zero in Hz. apply Z.eqb_neq in Hz. simpl in Hw. unfold rf_wf in Hw. lia. }
  unfold rf_round_k, clamp_n_fixed.
  destruct (rf_round_fix xr nmin rm Hc) as [f Hr]. rewrite Hr.
  destruct (rf_round_fix (rf_shift xr j) (nmin + j) rm Hc) as [f' Hr']. rewrite Hr'.
  rewrite fix_round_val_shift. set (y := fix_round_val rm xr nmin). cbn [bind].
  rewrite (is_overflowing_moved pm nm pm' nm' y j Hp Hn).
  destruct (is_overflowing pm nm y).
  - cbn [rf_shift rs].
    assert (Hsat : vequiv (bind (Ok (FFin (if rs y then nm' else pm'))) (fun r => Ok (fl_scale (- j) r)))
                          (Ok (FFin (if rs y then nm else pm)))).
    { cbn [bind vequiv]. destruct (rs y); apply scale_back_moved; assumption. }
    destruct ov.
    + destruct (overflow_to_infinity rm (rs y)); [|exact Hsat].
      destruct (sp_enable_inf sp); [simpl; reflexivity|].
      destruct (sp_inf_value sp) as [v|]; [|simpl; reflexivity].
      cbn [bind vequiv]. apply (scale_nonfinite (- j) v Hiv).
    + exact Hsat.
    + (* WRAP *)
      rewrite (fixed_to_ordinal_moved nmin nm nm' j Hn), (fixed_to_ordinal_moved nmin pm pm' j Hp).
      fold (rf_shift y j). rewrite fixed_to_ordinal_shift.
      set (o := (fixed_to_ordinal nmin y - fixed_to_ordinal nmin nm) mod
                (fixed_to_ordinal nmin pm - fixed_to_ordinal nmin nm + 1) + fixed_to_ordinal nmin nm).
      cbn [bind vequiv]. unfold fixed_from_ordinal.
      destruct (o =? 0); [simpl; split; reflexivity|].
      unfold fl_scale, is_zero. cbn [rc].
      destruct (Z.eqb_spec (Z.abs o) 0) as [A0|A0].
      * rewrite A0. apply equiv_zero.
      * unfold rf_shift. cbn [rs rexp rc]. replace (nmin + j + 1 + - j) with (nmin + 1) by lia. apply fl_equiv_refl.
    + simpl. reflexivity.
  - cbn [bind vequiv]. rewrite fix_neg_zero_shift. apply scale_back.
Qed.

Lemma mpfixed_rescale nmin rm sp nz j x :
  fl_wf x ->
  finite_sub (sp_nan_value sp) = false -> finite_sub (sp_inf_value sp) = false ->
  vequiv (bind (vround (CMPFixed (nmin + j) rm (Some 0) sp nz) (fl_scale j x))
               (fun r => Ok (fl_scale (- j) r)))
         (vround (CMPFixed nmin rm (Some 0) sp nz) x).
Proof.
  intros Hw Hnv Hiv. unfold vround, ctx_round0, ctx_round, round_mpfixed.
  destruct (special_fixed sp x) as [r|] eqn:Hs.
  { destruct (special_rescale sp x j r Hnv Hiv Hs) as (r' & Hs' & He). rewrite Hs'. exact He. }
  destruct x as [xr| |]; try discriminate. clear Hs. cbn [fl_scale special_fixed].
  destruct (is_zero xr) eqn:Hz.
  { unfold is_zero at 1. cbn [rc]. cbn [Z.eqb bind rs]. unfold fl_scale, is_zero. cbn. split; reflexivity. }
  assert (Hz' : is_zero (rf_shift xr j) = false) by exact Hz. rewrite Hz'.
  assert (Hc : 0 < rc xr).
  { unfold is_zero in Hz. apply Z.eqb_neq in Hz. simpl in Hw. unfold rf_wf in Hw. lia. }
  unfold rf_round_k, clamp_n_fixed.
  destruct (rf_round_fix xr nmin rm Hc) as [f Hr]. rewrite Hr.
  destruct (rf_round_fix (rf_shift xr j) (nmin + j) rm Hc) as [f' Hr']. rewrite Hr'.
  rewrite fix_round_val_shift. cbn [bind vequiv fst snd]. rewrite fix_neg_zero_shift. apply scale_back.
Qed.

Lemma sem_scale k q x : sem (LScale k q) x = bind (sem q (fl_scale (- k) x)) (fun r => Ok (fl_scale (- - k) r)).
Proof. cbn [sem]. rewrite Z.opp_involutive. reflexivity. Qed.

(* rescale_fixed: round_A(x) = 2^k * round_{2^-k A}(2^-k * x) -- scale in,
   round at position zero (bounds shifted likewise), scale out; every
   fixed-point family, every mode and overflow mode incl. WRAP, every operand;
   a format that substitutes a finite value is declined *)
Theorem rescale_fixed_eq c p x :
  fl_wf x -> deterministic c = true -> rs_leaf c = Some p ->
  vequiv (sem p x) (vround c x).
Proof.
  intros Hw Hd Hl. unfold rs_leaf in Hl.
  destruct (rs_parts c) as [[[[sc c0] nv] iv]|] eqn:Hp; [|discriminate].
  destruct (sc =? 0); [discriminate|].
  destruct (finite_sub nv) eqn:Fn; [discriminate|]. destruct (finite_sub iv) eqn:Fi; [discriminate|].
  cbn [orb] in Hl. injection Hl as <-. rewrite sem_scale. cbn [sem].
  unfold deterministic, ctx_k in Hd.
  destruct c; try discriminate; cbn [rs_parts] in Hp; injection Hp as <- <- <- <-;
    (destruct k as [[| |]|]; try discriminate).
  - (* MPFixed *)
    replace (-1) with (nmin + - (nmin + 1)) by lia.
    apply mpfixed_rescale; assumption.
  - (* MPBFixed *)
    replace (-1) with (nmin + - (nmin + 1)) by lia.
    apply mpbfixed_rescale; try assumption; apply bound_moved_shift.
  - (* Fixed *)
    unfold vround, ctx_round0, ctx_round, round_fixed.
    assert (Hb : forall pm nm pm' nm', fixed_bounds signed scale nbits = (pm, nm) -> fixed_bounds signed 0 nbits = (pm', nm') ->
                 bound_moved pm pm' (- scale) /\ bound_moved nm nm' (- scale)).
    { unfold fixed_bounds. destruct signed; intros ? ? ? ? [= <- <-] [= <- <-]; unfold bound_moved; cbn [rs rexp rc];
        repeat split; intros; try lia; try contradiction. }
    destruct (fixed_bounds signed scale nbits) as [pm nm] eqn:E1.
    destruct (fixed_bounds signed 0 nbits) as [pm' nm'] eqn:E0.
    destruct (Hb pm nm pm' nm' eq_refl eq_refl) as [Hpm Hnm].
    replace (0 - 1) with (scale - 1 + - scale) by lia.
    apply (mpbfixed_rescale (scale - 1) pm nm pm' nm' rm ov (sp_fixed nan_value inf_value) false (- scale) x); assumption.
  - (* SMFixed *)
    unfold vround, ctx_round0, ctx_round, round_smfixed.
    replace (0 - 1) with (scale - 1 + - scale) by lia.
    apply (mpbfixed_rescale (scale - 1) _ _ _ _ rm ov (sp_fixed nan_value inf_value) true (- scale) x); try assumption;
      unfold bound_moved; cbn [rs rexp rc]; repeat split; intros; lia.
Qed.
