(* C10, part 4: results are well-formed values; rewriting a lowered program
   preserves its results; chains of rewrites; round_elim / round_insert. *)
From Coq Require Import ZArith List Bool Lia Reals Psatz.
From Flocq Require Import Core.Zaux Core.Raux Core.Defs Core.Digits Core.Float_prop
  Core.Generic_fmt Core.FLX Core.FLT Core.FIX.
From FpyV Require Import Num.RealFloat Num.RealFloatProofs Num.RoundSpec Num.RoundProofs
  Num.Float Num.FloatProofs Num.CtxDef Num.Ctx Num.CtxProofs
  Lang.Lowering.Lower Lang.Lowering.LowerProofs Lang.Lowering.LowerUOProofs Lang.Lowering.LowerF2FProofs.
Import ListNotations.
Open Scope Z_scope.

(* ---------------------------------------------------------------- contexts whose parameters are values *)
Definition ctx_wf (c : ctx) : Prop :=
  ctx_subs_wf c /\
  match c with
  | CMPFloat p _ _ _ | CMPSFloat p _ _ _ _ => 1 <= p
  | CMPBFloat p _ pm nm _ _ _ _ => 1 <= p /\ rf_wf pm /\ rf_wf nm
  | CEFloat es nb ei nk eo _ _ _ _ _ =>
      forall p em mv, ext_to_mpb es nb ei nk eo = Ok (p, em, mv) -> 1 <= p /\ rf_wf mv
  | CMPBFixed _ pm nm _ _ _ _ _ => rf_wf pm /\ rf_wf nm
  | CFixed sg sc nb _ _ _ _ _ => rf_wf (fst (fixed_bounds sg sc nb)) /\ rf_wf (snd (fixed_bounds sg sc nb))
  | CSMFixed sc nb _ _ _ _ _ => 0 <= bitmask (nb - 1)
  | CExp _ _ _ _ _ => False          (* no lowering applies to ExpContext; left out *)
  | _ => True
  end.

Lemma zero_wf s e : rf_wf (RF s e 0).
Proof. unfold rf_wf. simpl. lia. Qed.

Lemma rf_round_wf x max_p min_n rm y f :
  rf_wf x -> rc x <> 0 -> match max_p with Some p => 1 <= p | None => True end ->
  (max_p <> None \/ min_n <> None) ->
  rf_round x max_p min_n rm false = Ok (y, f) -> rf_wf y.
Proof. intros. eapply rf_round_sign; eassumption. Qed.

Lemma some_l (p : Z) (n : option Z) : Some p <> None \/ n <> None.
Proof. left. discriminate. Qed.
Lemma some_r (p : option Z) (n : Z) : p <> None \/ Some n <> None.
Proof. right. discriminate. Qed.

Lemma fnz_wf nz y : rf_wf y -> rf_wf (fix_neg_zero nz y).
Proof. unfold fix_neg_zero, rf_wf. destruct (is_zero y && rs y && negb nz); simpl; auto. Qed.

Lemma mpbfloat_wf p emin pm nm rm ov sp x v :
  1 <= p -> rf_wf pm -> rf_wf nm -> sp_wf sp -> fl_wf x ->
  vround (CMPBFloat p emin pm nm rm ov (Some 0) sp) x = Ok v -> fl_wf v.
Proof.
  intros Hp Wp Wn Hsp Hw. destruct x as [xr|s|s]; try (apply mpbfloat_special_wf; [exact Hsp|reflexivity]).
  unfold vround, ctx_round0, ctx_round, round_mpbfloat, special_float.
  destruct (is_zero xr) eqn:Hz; [intros [= <-]; apply zero_wf|].
  assert (Hnz : rc xr <> 0) by (unfold is_zero in Hz; apply Z.eqb_neq; exact Hz).
  unfold rf_round_k, clamp_n.
  destruct (rf_round xr (Some p) (Some (mps_nmin p emin)) rm false) as [[y f]|e] eqn:Hr; [|discriminate].
  assert (Wy : rf_wf y) by exact (rf_round_wf xr (Some p) (Some (mps_nmin p emin)) rm y f Hw Hnz Hp (some_l _ _) Hr).
  cbn [bind]. destruct (is_overflowing pm nm y); [|intros [= <-]; exact Wy].
  assert (Hb : fl_wf (FFin (if rs y then nm else pm))) by (destruct (rs y); assumption).
  destruct ov; try discriminate; try (intros [= <-]; exact Hb).
  destruct (overflow_to_infinity rm (rs y)); [|intros [= <-]; exact Hb].
  destruct (sp_enable_inf sp); [intros [= <-]; exact I|].
  destruct Hsp as [_ Hi]. destruct (sp_inf_value sp) as [w|]; [|discriminate].
  intros [= <-]. apply with_sign_wf. exact Hi.
Qed.

Lemma from_ordinal_wf nmin o : rf_wf (fixed_from_ordinal nmin o).
Proof. unfold fixed_from_ordinal, rf_wf. destruct (o =? 0); simpl; lia. Qed.

Lemma mpbfixed_wf nmin pm nm rm ov sp nz x v :
  rf_wf pm -> rf_wf nm -> sp_wf sp -> fl_wf x ->
  vround (CMPBFixed nmin pm nm rm ov (Some 0) sp nz) x = Ok v -> fl_wf v.
Proof.
  intros Wp Wn Hsp Hw. destruct x as [xr|s|s]; try (apply mpbfixed_special_wf; [exact Hsp|reflexivity]).
  unfold vround, ctx_round0, ctx_round, round_mpbfixed, special_fixed.
  destruct (is_zero xr) eqn:Hz; [intros [= <-]; apply zero_wf|].
  assert (Hnz : rc xr <> 0) by (unfold is_zero in Hz; apply Z.eqb_neq; exact Hz).
  unfold rf_round_k, clamp_n_fixed.
  destruct (rf_round xr None (Some nmin) rm false) as [[y f]|e] eqn:Hr; [|discriminate].
  assert (Wy : rf_wf y) by exact (rf_round_wf xr None (Some nmin) rm y f Hw Hnz I (some_r _ _) Hr).
  cbn [bind]. destruct (is_overflowing pm nm y); [|intros [= <-]; apply fnz_wf; exact Wy].
  assert (Hb : fl_wf (FFin (if rs y then nm else pm))) by (destruct (rs y); assumption).
  destruct ov; try discriminate; try (intros [= <-]; exact Hb).
  - destruct (overflow_to_infinity rm (rs y)); [|intros [= <-]; exact Hb].
    destruct (sp_enable_inf sp); [intros [= <-]; exact I|].
    destruct Hsp as [_ Hi]. destruct (sp_inf_value sp) as [w|]; [|discriminate].
    intros [= <-]. exact Hi.
  - intros [= <-]. apply from_ordinal_wf.
Qed.

Theorem vround_wf c x v : ctx_wf c -> deterministic c = true -> fl_wf x -> vround c x = Ok v -> fl_wf v.
Proof.
  intros [Hsub Hc] Hd Hw. unfold deterministic, ctx_k in Hd.
  destruct c; cbn [ctx_subs_wf] in Hsub.
  - unfold vround, ctx_round0, ctx_round. intros [= <-]. exact Hw.
  - (* MPFloat *)
    destruct k as [[| |]|]; try discriminate.
    destruct x as [xr|s|s].
    + unfold vround, ctx_round0, ctx_round, round_mpfloat, special_float.
      destruct (is_zero xr) eqn:Hz; [intros [= <-]; apply zero_wf|].
      assert (Hnz : rc xr <> 0) by (unfold is_zero in Hz; apply Z.eqb_neq; exact Hz).
      unfold rf_round_k, wrap_fin.
      destruct (rf_round xr (Some pmax) None rm false) as [[y f]|e] eqn:Hr; [|discriminate].
      cbn [bind fst]. intros [= <-]. exact (rf_round_wf xr (Some pmax) None rm y f Hw Hnz Hc (some_l _ _) Hr).
    + unfold vround, ctx_round0, ctx_round, round_mpfloat.
      destruct (special_float sp (FInf s)) as [r|] eqn:Hr; [|discriminate].
      destruct r as [[w f]|]; [|discriminate]. intros [= <-]. eapply special_float_wf; eauto.
    + unfold vround, ctx_round0, ctx_round, round_mpfloat.
      destruct (special_float sp (FNaN s)) as [r|] eqn:Hr; [|discriminate].
      destruct r as [[w f]|]; [|discriminate]. intros [= <-]. eapply special_float_wf; eauto.
  - (* MPSFloat *)
    destruct k as [[| |]|]; try discriminate.
    destruct x as [xr|s|s]; try (apply mpsfloat_special_wf; [exact Hsub|reflexivity]).
    unfold vround, ctx_round0, ctx_round, round_mpsfloat, special_float.
    destruct (is_zero xr) eqn:Hz; [intros [= <-]; apply zero_wf|].
    assert (Hnz : rc xr <> 0) by (unfold is_zero in Hz; apply Z.eqb_neq; exact Hz).
    unfold rf_round_k, wrap_fin, clamp_n.
    destruct (rf_round xr (Some pmax) (Some (mps_nmin pmax emin)) rm false) as [[y f]|e] eqn:Hr; [|discriminate].
    cbn [bind fst]. intros [= <-]. exact (rf_round_wf xr (Some pmax) (Some (mps_nmin pmax emin)) rm y f Hw Hnz Hc (some_l _ _) Hr).
  - (* MPBFloat *)
    destruct k as [[| |]|]; try discriminate. destruct Hc as (Hp & Wp & Wn).
    apply mpbfloat_wf; assumption.
  - (* EFloat *)
    destruct k as [[| |]|]; try discriminate. destruct Hsub as [Hnv Hiv].
    unfold vround, ctx_round0, ctx_round, round_efloat.
    destruct (negb (efloat_valid es nbits enable_inf nk)); [discriminate|].
    destruct (ext_to_mpb es nbits enable_inf nk eoffset) as [[[p em] mv]|] eqn:He; [|discriminate].
    destruct (Hc p em mv eq_refl) as [Hp Wm]. cbn [bind].
    destruct (round_mpbfloat p em mv (RF true (rexp mv) (rc mv)) rm ov (Some 0) sp_default x None 0) as [[w f]|e] eqn:Hr;
      [|discriminate].
    cbn [bind]. destruct (efloat_fixup enable_inf nk nan_value inf_value mv (w, f)) as [w' f'] eqn:Ef.
    intros [= <-].
    assert (Ww : fl_wf w).
    { apply (mpbfloat_wf p em mv (RF true (rexp mv) (rc mv)) rm ov sp_default x w Hp Wm Wm sp_default_wf Hw).
      unfold vround, ctx_round0, ctx_round. rewrite Hr. reflexivity. }
    pose proof (fixup_wf enable_inf nk nan_value inf_value mv w Hnv Hiv Wm Ww) as H.
    rewrite <- (fixup_fst enable_inf nk nan_value inf_value mv w f) in H. rewrite Ef in H. exact H.
  - (* MPFixed *)
    destruct k as [[| |]|]; try discriminate.
    destruct x as [xr|s|s]; try (apply mpfixed_special_wf; [exact Hsub|reflexivity]).
    unfold vround, ctx_round0, ctx_round, round_mpfixed, special_fixed.
    destruct (is_zero xr) eqn:Hz; [intros [= <-]; apply zero_wf|].
    assert (Hnz : rc xr <> 0) by (unfold is_zero in Hz; apply Z.eqb_neq; exact Hz).
    unfold rf_round_k, clamp_n_fixed.
    destruct (rf_round xr None (Some nmin) rm false) as [[y f]|e] eqn:Hr; [|discriminate].
    cbn [bind fst]. intros [= <-]. apply fnz_wf. exact (rf_round_wf xr None (Some nmin) rm y f Hw Hnz I (some_r _ _) Hr).
  - (* MPBFixed *)
    destruct k as [[| |]|]; try discriminate. destruct Hc as (Wp & Wn).
    apply mpbfixed_wf; assumption.
  - (* Fixed *)
    destruct k as [[| |]|]; try discriminate. destruct Hc as (Wp & Wn).
    unfold vround, ctx_round0, ctx_round, round_fixed.
    destruct (fixed_bounds signed scale nbits) as [pm nm]. cbn [fst snd] in Wp, Wn.
    apply (mpbfixed_wf (scale - 1) pm nm rm ov (sp_fixed nan_value inf_value) false x v Wp Wn Hsub Hw).
  - (* SMFixed *)
    destruct k as [[| |]|]; try discriminate.
    apply (mpbfixed_wf (scale - 1) _ _ rm ov (sp_fixed nan_value inf_value) true x v); try assumption;
      unfold rf_wf; simpl; exact Hc.
  - (* Exp *) contradiction.
Qed.

(* ---------------------------------------------------------------- lowered programs over values *)
Fixpoint lp_wf (p : lp) : Prop :=
  match p with
  | LRound c => ctx_wf c /\ deterministic c = true
  | LVal a b => fl_wf a /\ fl_wf b
  | LIf _ a b => lp_wf a /\ lp_wf b
  | LBound q mv nv op on _ => lp_wf q /\ fl_wf op /\ fl_wf on
  | LCopyZero q | LNanSign q | LScale _ q => lp_wf q
  | LLogb _ _ _ sub norm => lp_wf sub /\ forall e, lp_wf (norm e)
  end.

Lemma fl_scale_wf k x : fl_wf x -> fl_wf (fl_scale k x).
Proof.
  destruct x as [r|s|s]; simpl; auto. intros Hw. destruct (is_zero r); [apply zero_wf|apply rf_shift_wf; exact Hw].
Qed.

Lemma copysign_wf t x : fl_wf t -> fl_wf (fl_copysign t x).
Proof. intros. apply with_sign_wf. assumption. Qed.

Theorem sem_wf p : lp_wf p -> forall x v, fl_wf x -> sem p x = Ok v -> fl_wf v.
Proof.
  induction p as [c|a b|t a IHa b IHb|q IHq mv nv op on dnz|q IHq|q IHq|pm em ex sub IHsub norm IHnorm|k q IHq];
    cbn [lp_wf]; intros Hp x v Hw.
  - destruct Hp as [Hc Hd]. cbn [sem]. apply vround_wf; assumption.
  - destruct Hp as [Ha Hb]. cbn [sem]. intros [= <-]. destruct (fl_s x); assumption.
  - destruct Hp as [Ha Hb]. cbn [sem]. destruct (eval_test t x); [apply IHa|apply IHb]; assumption.
  - destruct Hp as (Hq & Hop & Hon). cbn [sem].
    destruct (sem q x) as [t|e] eqn:Et; [|discriminate]. cbn [bind]. intros [= <-].
    destruct (fl_gt t mv); [exact Hop|]. destruct (fl_lt t nv); [exact Hon|].
    destruct (dnz && fl_eq0 t); [apply zero_wf|]. exact (IHq Hq x t Hw Et).
  - cbn [sem]. destruct (sem q x) as [t|e] eqn:Et; [|discriminate]. cbn [bind]. intros [= <-].
    pose proof (IHq Hp x t Hw Et). destruct (fl_eq0 t); [apply copysign_wf|]; assumption.
  - cbn [sem]. destruct (sem q x) as [t|e] eqn:Et; [|discriminate]. cbn [bind]. intros [= <-].
    pose proof (IHq Hp x t Hw Et). destruct (fl_isnan t); [apply copysign_wf|]; assumption.
  - destruct Hp as [Hs Hn]. cbn [sem]. destruct x as [xr| |]; try discriminate.
    destruct (is_zero xr); [discriminate|].
    destruct em as [[emin expmin]|].
    + destruct (rf_e xr <? emin); [apply IHsub|apply IHnorm]; auto.
    + apply IHnorm; auto.
  - cbn [sem]. destruct (sem q (fl_scale (- k) x)) as [t|e] eqn:Et; [|discriminate]. cbn [bind]. intros [= <-].
    apply fl_scale_wf. apply (IHq Hp (fl_scale (- k) x) t); [apply fl_scale_wf; exact Hw|exact Et].
Qed.

(* ---------------------------------------------------------------- the post-processing respects values *)
Lemma fl_compare_equiv t t' b : fl_wf t -> fl_wf t' -> rf_wf b -> fl_equiv t t' ->
  fl_compare t (FFin b) = fl_compare t' (FFin b) \/ (fl_isnan t = true /\ fl_isnan t' = true).
Proof.
  destruct t as [x|s|s], t' as [y|s'|s']; simpl; try tauto; intros Hx Hy Hb He.
  all: try (left; destruct He as [Hv Hs]; rewrite !compare_denote by assumption; rewrite Hv; reflexivity).
  all: try (left; subst; reflexivity).
  all: try (right; auto).
Qed.

Lemma cmp_tests_equiv t t' b : fl_wf t -> fl_wf t' -> rf_wf b -> fl_equiv t t' ->
  fl_gt t b = fl_gt t' b /\ fl_lt t b = fl_lt t' b.
Proof.
  intros Ht Ht' Hb He. unfold fl_gt, fl_lt.
  destruct (fl_compare_equiv t t' b Ht Ht' Hb He) as [E|[N1 N2]].
  - rewrite E. auto.
  - destruct t, t'; try discriminate. simpl. auto.
Qed.

Lemma eq0_equiv t t' : fl_wf t -> fl_wf t' -> fl_equiv t t' -> fl_eq0 t = fl_eq0 t'.
Proof.
  intros Ht Ht' He. unfold fl_eq0.
  destruct (fl_compare_equiv t t' zero_rf Ht Ht' (zero_wf false 0) He) as [E|[N1 N2]].
  - rewrite E. reflexivity.
  - destruct t, t'; try discriminate. reflexivity.
Qed.

Lemma with_sign_equiv s t t' : fl_equiv t t' -> fl_equiv (fl_with_sign s t) (fl_with_sign s t').
Proof.
  destruct t as [x|a|a], t' as [y|b|b]; simpl; try tauto; try (intros; reflexivity).
  intros [Hv Hs]. split; [|reflexivity].
  assert (HA : forall (b : bool) c e, F2R (Float radix2 (if b then - c else c) e) =
                (if b then - F2R (Float radix2 c e) else F2R (Float radix2 c e))%R).
  { intros [] c e; [apply F2R_Zopp|reflexivity]. }
  unfold R2R, rf_m in *. cbn [rs rc rexp] in *. rewrite Hs in Hv. rewrite !HA in *.
  destruct (rs y), s; lra.
Qed.

Lemma isnan_equiv t t' : fl_equiv t t' -> fl_isnan t = fl_isnan t'.
Proof. destruct t, t'; simpl; tauto. Qed.

Lemma scale_equiv k t t' : fl_wf t -> fl_wf t' -> fl_equiv t t' -> fl_equiv (fl_scale k t) (fl_scale k t').
Proof.
  destruct t as [x|a|a], t' as [y|b|b]; simpl; try tauto.
  intros Hx Hy [Hv Hs]. unfold is_zero.
  assert (Hz : (rc x =? 0) = (rc y =? 0)).
  { destruct (Z.eqb_spec (rc x) 0) as [Z0|Z0], (Z.eqb_spec (rc y) 0) as [Z1|Z1]; try reflexivity; exfalso.
    - apply Z1. apply (R2R_eq0 y Hy). rewrite <- Hv. apply R2R_zero. exact Z0.
    - apply Z0. apply (R2R_eq0 x Hx). rewrite Hv. apply R2R_zero. exact Z1. }
  rewrite <- Hz. destruct (rc x =? 0).
  - rewrite Hs. split; reflexivity.
  - split; [|exact Hs]. rewrite !R2R_shift_gen. rewrite Hv. reflexivity.
Qed.

(* ---------------------------------------------------------------- rewriting a lowered program *)
Fixpoint lp_all (P : ctx -> Prop) (p : lp) : Prop :=
  match p with
  | LRound c => P c
  | LVal _ _ => True
  | LIf _ a b => lp_all P a /\ lp_all P b
  | LBound q _ _ _ _ _ | LCopyZero q | LNanSign q | LScale _ q => lp_all P q
  | LLogb _ _ _ sub norm => lp_all P sub /\ forall e, lp_all P (norm e)
  end.

(* also the comparison constants of a bound check are values *)
Fixpoint lp_bounds_wf (p : lp) : Prop :=
  match p with
  | LRound _ | LVal _ _ => True
  | LIf _ a b => lp_bounds_wf a /\ lp_bounds_wf b
  | LBound q mv nv _ _ _ => lp_bounds_wf q /\ rf_wf mv /\ rf_wf nv
  | LCopyZero q | LNanSign q | LScale _ q => lp_bounds_wf q
  | LLogb _ _ _ sub norm => lp_bounds_wf sub /\ forall e, lp_bounds_wf (norm e)
  end.

Section RwSound.
  Variable leaf : ctx -> option lp.
  Variable P : ctx -> Prop.
  (* the rewrite of one rounding block is sound, and emits a program over values *)
  Hypothesis leaf_sound : forall c q x, P c -> leaf c = Some q -> fl_wf x -> vequiv (sem q x) (vround c x).

  Theorem rw_sound p : lp_wf p -> lp_wf (rw leaf p) -> lp_bounds_wf p -> lp_all P p ->
    forall x, fl_wf x -> vequiv (sem (rw leaf p) x) (sem p x).
  Proof.
    induction p as [c|a b|t a IHa b IHb|q IHq mv nv op on dnz|q IHq|q IHq|pm em ex sub IHsub norm IHnorm|k q IHq];
      cbn [lp_wf lp_bounds_wf lp_all rw]; intros Hw Hw' Hb Ha x Hx.
    - destruct (leaf c) as [q|] eqn:El; [|apply vequiv_refl]. cbn [sem]. apply leaf_sound; assumption.
    - apply vequiv_refl.
    - destruct Hw, Hw', Hb, Ha. cbn [sem]. destruct (eval_test t x); [apply IHa|apply IHb]; assumption.
    - destruct Hw as (Hq & Hop & Hon), Hw' as (Hq' & _), Hb as (Hbq & Wmv & Wnv).
      pose proof (IHq Hq Hq' Hbq Ha x Hx) as IH. cbn [sem].
      pose proof (sem_wf (rw leaf q) Hq' x) as W1. pose proof (sem_wf q Hq x) as W2.
      destruct (sem (rw leaf q) x) as [t|e], (sem q x) as [t'|e']; cbn [vequiv] in IH; try contradiction; cbn [bind vequiv];
        [|exact IH].
      specialize (W1 t Hx eq_refl). specialize (W2 t' Hx eq_refl).
      destruct (cmp_tests_equiv t t' mv W1 W2 Wmv IH) as [G _].
      destruct (cmp_tests_equiv t t' nv W1 W2 Wnv IH) as [_ L].
      rewrite G, L, (eq0_equiv t t' W1 W2 IH).
      destruct (fl_gt t' mv); [apply fl_equiv_refl|]. destruct (fl_lt t' nv); [apply fl_equiv_refl|].
      destruct (dnz && fl_eq0 t'); [apply fl_equiv_refl|exact IH].
    - pose proof (IHq Hw Hw' Hb Ha x Hx) as IH. cbn [sem].
      pose proof (sem_wf (rw leaf q) Hw' x) as W1. pose proof (sem_wf q Hw x) as W2.
      destruct (sem (rw leaf q) x) as [t|e], (sem q x) as [t'|e']; cbn [vequiv] in IH; try contradiction; cbn [bind vequiv];
        [|exact IH].
      specialize (W1 t Hx eq_refl). specialize (W2 t' Hx eq_refl).
      rewrite (eq0_equiv t t' W1 W2 IH). destruct (fl_eq0 t'); [apply with_sign_equiv|]; exact IH.
    - pose proof (IHq Hw Hw' Hb Ha x Hx) as IH. cbn [sem].
      destruct (sem (rw leaf q) x) as [t|e], (sem q x) as [t'|e']; cbn [vequiv] in IH; try contradiction; cbn [bind vequiv];
        [|exact IH].
      rewrite (isnan_equiv t t' IH). destruct (fl_isnan t'); [apply with_sign_equiv|]; exact IH.
    - destruct Hw as [Hs Hn], Hw' as [Hs' Hn'], Hb as [Bs Bn], Ha as [As An]. cbn [sem].
      destruct x as [xr| |]; try apply vequiv_refl. destruct (is_zero xr); [apply vequiv_refl|].
      destruct em as [[emin expmin]|].
      + destruct (rf_e xr <? emin); [apply IHsub|apply IHnorm]; auto.
      + apply IHnorm; auto.
    - assert (Hx' : fl_wf (fl_scale (- k) x)) by (apply fl_scale_wf; exact Hx).
      pose proof (IHq Hw Hw' Hb Ha _ Hx') as IH. cbn [sem].
      pose proof (sem_wf (rw leaf q) Hw' (fl_scale (- k) x)) as W1.
      pose proof (sem_wf q Hw (fl_scale (- k) x)) as W2.
      destruct (sem (rw leaf q) (fl_scale (- k) x)) as [t|e], (sem q (fl_scale (- k) x)) as [t'|e'];
        cbn [vequiv] in IH; try contradiction; cbn [bind vequiv]; [|exact IH].
      apply scale_equiv; [apply W1|apply W2|exact IH]; auto.
  Qed.
End RwSound.

(* ---------------------------------------------------------------- the five rewrites, on any lowered program *)
(* what each rewrite needs of a rounding block it is about to rewrite *)
Definition cond (fx : fixes) (t : xform) (c : ctx) : Prop :=
  match t with
  | XSpecial => True
  | XOverflow => uo_ctx_ok c /\ (fx_wrap fx = true \/ ctx_wraps c = false)
  | XOverflowEarly =>
      uo_ctx_ok c /\ (fx_wrap fx = true \/ ctx_wraps c = false) /\
      forall s, uo_describe fx true c = Some s -> uo_early_ok c s
  | XNegZero => fx_zero_bound fx = true \/ unz_zero_bound c = false
  | XF2F => f2f_ctx_ok c /\ (fx_degenerate fx = true \/ f2f_nondegenerate c)
  | XRescale => deterministic c = true
  end.

Theorem leaf_of_sound fx t c q x :
  cond fx t c -> leaf_of fx t c = Some q -> fl_wf x -> vequiv (sem q x) (vround c x).
Proof.
  intros Hc Hl Hx. destruct t; cbn [leaf_of cond] in *.
  - apply vequiv_eq. apply us_leaf_sound. exact Hl.
  - unfold uo_leaf in Hl. destruct (uo_describe fx false c) as [s|] eqn:Hd; [|discriminate]. injection Hl as <-.
    destruct Hc as [Hok Hwr]. apply (unfold_overflow_eq fx false c s x Hd Hwr Hok); [discriminate|exact Hx].
  - unfold uo_leaf in Hl. destruct (uo_describe fx true c) as [s|] eqn:Hd; [|discriminate]. injection Hl as <-.
    destruct Hc as (Hok & Hwr & He). apply (unfold_overflow_eq fx true c s x Hd Hwr Hok); [intros _; apply He; reflexivity|exact Hx].
  - apply vequiv_eq. apply (unfold_neg_zero_eq fx c q x Hx Hl Hc).
  - unfold f2f_leaf in Hl. destruct (f2f_describe fx c) as [s|] eqn:Hd; [|discriminate]. injection Hl as <-.
    destruct Hc as [Hok Hdeg]. apply (float_to_fixed_ctx_eq fx c s x Hd Hok Hdeg Hx).
  - apply (rescale_fixed_eq c q x Hx Hc Hl).
Qed.

(* one rewrite applied to a whole lowered program (every block it accepts;
   a refused block is left as it is) preserves every result *)
Theorem rewrite_sound fx t p x :
  lp_wf p -> lp_wf (rw (leaf_of fx t) p) -> lp_bounds_wf p -> lp_all (cond fx t) p -> fl_wf x ->
  vequiv (sem (rw (leaf_of fx t) p) x) (sem p x).
Proof.
  intros Hw Hw' Hb Ha Hx.
  apply (rw_sound (leaf_of fx t) (cond fx t)); try assumption.
  intros c q y Hc Hl Hy. apply (leaf_of_sound fx t c q y Hc Hl Hy).
Qed.

(* every stage of a chain works on a program over values whose blocks meet the
   conditions of the rewrite applied next *)
Fixpoint chain_ok (fx : fixes) (ts : list xform) (p : lp) : Prop :=
  match ts with
  | [] => True
  | t :: ts' =>
      lp_wf p /\ lp_bounds_wf p /\ lp_all (cond fx t) p /\ lp_wf (rw (leaf_of fx t) p) /\
      chain_ok fx ts' (rw (leaf_of fx t) p)
  end.

(* chain_eq: every chain of rewrites -- in particular every prefix of
   special -> overflow -> neg-zero -> float_to_fixed -> rescale -- preserves results *)
Theorem chain_eq fx ts : forall p x, chain_ok fx ts p -> fl_wf x ->
  vequiv (sem (apply_chain fx ts p) x) (sem p x).
Proof.
  unfold apply_chain. induction ts as [|t ts IH]; intros p x Hc Hx; cbn [fold_left].
  - apply vequiv_refl.
  - destruct Hc as (Hw & Hb & Ha & Hw' & Hc).
    eapply vequiv_trans; [apply IH; assumption|]. apply rewrite_sound; assumption.
Qed.

Lemma chain_ok_prefix fx ts1 ts2 p : chain_ok fx (ts1 ++ ts2) p -> chain_ok fx ts1 p.
Proof.
  revert p. induction ts1 as [|t ts IH]; intros p H; cbn in *; [exact I|].
  destruct H as (A & B & C & D & E). repeat split; auto.
Qed.

Corollary chain_prefix_eq fx ts1 ts2 p x : chain_ok fx (ts1 ++ ts2) p -> fl_wf x ->
  vequiv (sem (apply_chain fx ts1 p) x) (sem p x).
Proof. intros H. apply chain_eq. eapply chain_ok_prefix. exact H. Qed.

(* ---------------------------------------------------------------- refusals *)
(* refusal_complete: a context outside the family a rewrite can reproduce is
   declined -- the block is left exactly as it was -- never approximated *)
Theorem refusal_unchanged fx t c : leaf_of fx t c = None -> rw (leaf_of fx t) (LRound c) = LRound c.
Proof. intros H. cbn [rw]. rewrite H. reflexivity. Qed.

Theorem refusal_complete fx c :
  (* stochastic rounding *)
  (deterministic c = false ->
     uo_leaf fx false c = None /\ uo_leaf fx true c = None /\ unz_leaf fx c = None /\ f2f_leaf fx c = None) /\
  (* REAL rounds exactly *)
  (c = CReal -> forall t, leaf_of fx t c = None) /\
  (* families outside the rewrite's own *)
  (uo_parts c = None -> uo_leaf fx false c = None /\ uo_leaf fx true c = None) /\
  (f2f_parts c = None -> f2f_leaf fx c = None) /\
  (rs_parts c = None -> rs_leaf c = None) /\
  (unz_dropped c = None -> unz_leaf fx c = None) /\
  (* wrapping: declined by unfold_neg_zero as found, by unfold_overflow once fx_wrap *)
  (ctx_wraps c = true -> unz_leaf fx c = None /\ (fx_wrap fx = true -> uo_leaf fx false c = None /\ uo_leaf fx true c = None)) /\
  (* a finite substitute does not commute with scaling *)
  (forall sc c0 nv iv, rs_parts c = Some (sc, c0, nv, iv) -> finite_sub nv || finite_sub iv = true -> rs_leaf c = None).
Proof.
  repeat (split || intro).
  - unfold uo_leaf, uo_describe. rewrite H. reflexivity.
  - unfold uo_leaf, uo_describe. rewrite H. reflexivity.
  - unfold unz_leaf. rewrite H. reflexivity.
  - unfold f2f_leaf, f2f_describe. rewrite H. reflexivity.
  - subst c. destruct fx as [a b d]. destruct t, a; reflexivity.
  - unfold uo_leaf, uo_describe. rewrite H. destruct (negb (deterministic c)); [reflexivity|].
    destruct (fx_wrap fx && ctx_wraps c); reflexivity.
  - unfold uo_leaf, uo_describe. rewrite H. destruct (negb (deterministic c)); [reflexivity|].
    destruct (fx_wrap fx && ctx_wraps c); reflexivity.
  - unfold f2f_leaf, f2f_describe. rewrite H. destruct (negb (deterministic c)); reflexivity.
  - unfold rs_leaf. rewrite H. reflexivity.
  - unfold unz_leaf. rewrite H. destruct (negb (deterministic c)); [reflexivity|].
    destruct (negb (neg_zero_of c)); reflexivity.
  - unfold unz_leaf. destruct (negb (deterministic c)); [reflexivity|].
    destruct (negb (neg_zero_of c)); [reflexivity|]. destruct (unz_dropped c); [|reflexivity].
    assert (Hs : unz_survives fx c = false); [|rewrite Hs; reflexivity].
    destruct c; try discriminate; destruct ov; try discriminate; reflexivity.
  - unfold uo_leaf, uo_describe. rewrite H, H0. destruct (negb (deterministic c)); reflexivity.
  - unfold uo_leaf, uo_describe. rewrite H, H0. destruct (negb (deterministic c)); reflexivity.
  - unfold rs_leaf. rewrite H. destruct (sc =? 0); [reflexivity|]. rewrite H0. reflexivity.
Qed.

(* ---------------------------------------------------------------- round_elim / round_insert *)
(* if the operand is a member of the context's format (Flocq's generic_format,
   and inside the bounds of a bounded format) rounding it changes no value *)
Definition representable (c : ctx) (x : rf) : Prop :=
  match c with
  | CReal => True
  | CMPFloat p _ _ _ => generic_format radix2 (FLX_exp p) (R2R x)
  | CMPSFloat p emin _ _ _ => generic_format radix2 (FLT_exp (emin - p + 1) p) (R2R x)
  | CMPBFloat p emin pm nm _ _ _ _ =>
      generic_format radix2 (FLT_exp (emin - p + 1) p) (R2R x) /\ in_range pm nm (R2R x)
  | CMPFixed nmin _ _ _ _ => generic_format radix2 (FIX_exp (nmin + 1)) (R2R x)
  | CMPBFixed nmin pm nm _ _ _ _ _ =>
      generic_format radix2 (FIX_exp (nmin + 1)) (R2R x) /\ in_range pm nm (R2R x)
  | _ => False
  end.

Theorem round_identity c x :
  ctx_wf c -> deterministic c = true -> rf_wf x -> rc x <> 0 ->
  match c with
  | CMPBFloat _ _ pm nm _ _ _ _ | CMPBFixed _ pm nm _ _ _ _ _ => rs pm = false /\ (rs nm = true \/ rc nm = 0)
  | _ => True
  end ->
  representable c x ->
  vequiv (vround c (FFin x)) (Ok (FFin x)).
Proof.
  intros [Hsub Hc] Hd Hw Hnz Hsgn Hrep. unfold deterministic, ctx_k in Hd.
  destruct c; cbn [representable] in Hrep; try contradiction.
  - apply vequiv_refl.
  - destruct k as [[| |]|]; try discriminate.
    destruct (representable_unchanged x (Some pmax) None rm Hw Hnz Hc (some_l _ _) Hrep) as (y & f & Hr & Hv & _).
    destruct (rf_round_sign x (Some pmax) None rm y f Hw Hnz Hc (some_l _ _) Hr) as [Hs _].
    rewrite (mpfloat_fin pmax rm sp x y f Hnz Hr). simpl. auto.
  - destruct k as [[| |]|]; try discriminate.
    assert (Hrep' : generic_format radix2 (fexp_of (Some pmax) (Some (mps_nmin pmax emin))) (R2R x)).
    { cbn [fexp_of]. unfold mps_nmin. replace (emin - pmax + 1 - 1 + 1) with (emin - pmax + 1) by lia. exact Hrep. }
    destruct (representable_unchanged x (Some pmax) (Some (mps_nmin pmax emin)) rm Hw Hnz Hc (some_l _ _) Hrep') as (y & f & Hr & Hv & _).
    destruct (rf_round_sign x (Some pmax) (Some (mps_nmin pmax emin)) rm y f Hw Hnz Hc (some_l _ _) Hr) as [Hs _].
    rewrite (mpsfloat_fin pmax emin rm sp x y f Hnz Hr). simpl. auto.
  - destruct k as [[| |]|]; try discriminate. destruct Hc as (Hp & Wp & Wn). destruct Hrep as [Hg Hin]. destruct Hsgn as [Sp Sn].
    assert (Hrep' : generic_format radix2 (fexp_of (Some pmax) (Some (mps_nmin pmax emin))) (R2R x)).
    { cbn [fexp_of]. unfold mps_nmin. replace (emin - pmax + 1 - 1 + 1) with (emin - pmax + 1) by lia. exact Hg. }
    destruct (representable_unchanged x (Some pmax) (Some (mps_nmin pmax emin)) rm Hw Hnz Hp (some_l _ _) Hrep') as (y & f & Hr & Hv & _).
    destruct (rf_round_sign x (Some pmax) (Some (mps_nmin pmax emin)) rm y f Hw Hnz Hp (some_l _ _) Hr) as [Hs Wy].
    destruct (mpbfloat_bounded pmax emin pos_max neg_max rm ov sp Hp) as [Hb _].
    destruct (Hb x Hw Hnz) as (y' & f' & Hr' & _ & HC). rewrite Hr in Hr'. injection Hr' as <- <-.
    rewrite HC.
    assert (Hov : is_overflowing pos_max neg_max y = false).
    { apply (is_overflowing_spec pos_max neg_max y Wp Wn Wy Sp Sn). rewrite Hv. exact Hin. }
    rewrite Hov, fnz_true. simpl. auto.
  - destruct k as [[| |]|]; try discriminate.
    destruct (representable_unchanged x None (Some nmin) rm Hw Hnz I (some_r _ _) Hrep) as (y & f & Hr & Hv & _).
    destruct (rf_round_sign x None (Some nmin) rm y f Hw Hnz I (some_r _ _) Hr) as [Hs Wy].
    unfold vround, ctx_round0, ctx_round, round_mpfixed, special_fixed, clamp_n_fixed, rf_round_k.
    rewrite (is_zero_false x Hnz), Hr. cbn [bind fst snd vequiv].
    assert (Cy : rc y <> 0).
    { intros Z0. apply Hnz. apply (R2R_eq0 x Hw). rewrite <- Hv. apply R2R_zero. exact Z0. }
    unfold fix_neg_zero. rewrite (is_zero_false y Cy). simpl. auto.
  - destruct k as [[| |]|]; try discriminate. destruct Hc as (Wp & Wn). destruct Hrep as [Hg Hin]. destruct Hsgn as [Sp Sn].
    destruct (representable_unchanged x None (Some nmin) rm Hw Hnz I (some_r _ _) Hg) as (y & f & Hr & Hv & _).
    destruct (rf_round_sign x None (Some nmin) rm y f Hw Hnz I (some_r _ _) Hr) as [Hs Wy].
    unfold vround, ctx_round0, ctx_round, round_mpbfixed, special_fixed, clamp_n_fixed, rf_round_k.
    rewrite (is_zero_false x Hnz), Hr. cbn [bind].
    assert (Hov : is_overflowing pos_max neg_max y = false).
    { apply (is_overflowing_spec pos_max neg_max y Wp Wn Wy Sp Sn). rewrite Hv. exact Hin. }
    rewrite Hov. cbn [vequiv].
    assert (Cy : rc y <> 0).
    { intros Z0. apply Hnz. apply (R2R_eq0 x Hw). rewrite <- Hv. apply R2R_zero. exact Z0. }
    unfold fix_neg_zero. rewrite (is_zero_false y Cy). simpl. auto.
Qed.

(* round_elim: `with C: y = round(x)` may be replaced by `y = x` when x is representable;
   round_insert: and the other way round *)
Corollary round_elim_sound c x :
  ctx_wf c -> deterministic c = true -> rf_wf x -> rc x <> 0 ->
  match c with
  | CMPBFloat _ _ pm nm _ _ _ _ | CMPBFixed _ pm nm _ _ _ _ _ => rs pm = false /\ (rs nm = true \/ rc nm = 0)
  | _ => True
  end ->
  representable c x ->
  vequiv (sem (LRound CReal) (FFin x)) (sem (LRound c) (FFin x)).
Proof. intros. apply vequiv_sym. cbn [sem]. change (vround CReal (FFin x)) with (@Ok fl (FFin x)). apply round_identity; assumption. Qed.

Corollary round_insert_sound c x :
  ctx_wf c -> deterministic c = true -> rf_wf x -> rc x <> 0 ->
  match c with
  | CMPBFloat _ _ pm nm _ _ _ _ | CMPBFixed _ pm nm _ _ _ _ _ => rs pm = false /\ (rs nm = true \/ rc nm = 0)
  | _ => True
  end ->
  representable c x ->
  vequiv (sem (LRound c) (FFin x)) (sem (LRound CReal) (FFin x)).
Proof. intros. cbn [sem]. change (vround CReal (FFin x)) with (@Ok fl (FFin x)). apply round_identity; assumption. Qed.
