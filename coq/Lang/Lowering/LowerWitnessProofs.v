(* C10, part 5: the code as found (fx_asis) refuted on two refusal conditions;
   the hypotheses of the theorems are satisfiable. *)
From Coq Require Import ZArith List Bool Lia Reals Psatz.
From Flocq Require Import Core.Zaux Core.Raux Core.Defs Core.Digits Core.Float_prop
  Core.Generic_fmt Core.FLX Core.FLT Core.FIX.
From FpyV Require Import Num.RealFloat Num.RealFloatProofs Num.RoundSpec Num.RoundProofs
  Num.Float Num.FloatProofs Num.CtxDef Num.Ctx Num.CtxProofs
  Lang.Lowering.Lower Lang.Lowering.LowerProofs Lang.Lowering.LowerUOProofs Lang.Lowering.LowerF2FProofs
  Lang.Lowering.LowerChainProofs.
Import ListNotations.
Open Scope Z_scope.

(* SMFixedContext(0, 3, RNE, WRAP): seven values, so the two probes of
   unfold_overflow (2*maxval and 2^64*maxval) wrap to the same value and the
   format is rewritten with the constant -1 for every positive overflow;
   q(4) = -3 (wrapped), unfold_overflow(q)(4) = -1 *)
Definition wrap_witness : ctx := CSMFixed 0 3 RNE OV_WRAP (Some 0) None None.

Theorem unfold_overflow_wrap_refuted :
  exists p x, uo_leaf fx_asis false wrap_witness = Some p /\ fl_wf x /\
              ~ vequiv (sem p x) (vround wrap_witness x).
Proof.
  destruct (uo_leaf fx_asis false wrap_witness) as [p|] eqn:E; [|vm_compute in E; discriminate].
  exists p, (FFin (RF false 0 4)). split; [reflexivity|]. split; [unfold fl_wf, rf_wf; simpl; lia|].
  vm_compute in E. injection E as <-.
  vm_compute. intros [H _]. unfold R2R, rf_m, F2R in H. simpl in H. lra.
Qed.

(* ... and is declined once the refusal is stated outright *)
Theorem unfold_overflow_wrap_declined : forall early c, ctx_wraps c = true -> uo_leaf fx_all early c = None.
Proof.
  intros early c H. unfold uo_leaf, uo_describe. cbn [fx_all fx_wrap]. rewrite H.
  destruct (negb (deterministic c)); reflexivity.
Qed.

(* MPBFixedContext(-1, 3, RNE, SATURATE, neg_maxval=+0), enable_neg_zero:
   -1 saturates onto the lower bound +0; the rewritten program restores the
   operand's sign on every zero result and returns -0 *)
Definition zero_bound_witness : ctx :=
  CMPBFixed (-1) (RF false 0 3) (RF false 0 0) RNE OV_SATURATE (Some 0) (SP false false None None) true.

Theorem unfold_neg_zero_zero_bound_refuted :
  exists p x, unz_leaf fx_asis zero_bound_witness = Some p /\ fl_wf x /\
              ~ vequiv (sem p x) (vround zero_bound_witness x).
Proof.
  destruct (unz_leaf fx_asis zero_bound_witness) as [p|] eqn:E; [|vm_compute in E; discriminate].
  exists p, (FFin (RF true 0 1)). split; [reflexivity|]. split; [unfold fl_wf, rf_wf; simpl; lia|].
  vm_compute in E. injection E as <-.
  vm_compute. intros [_ H]. discriminate.
Qed.

Theorem unfold_neg_zero_zero_bound_declined : unz_leaf fx_all zero_bound_witness = None.
Proof. vm_compute. reflexivity. Qed.

(* ---------------------------------------------------------------- the hypotheses are satisfiable *)
(* a small bounded float: precision 3, emin -1, maxval 7 = 1.75 * 2^2, IEEE-like overflow *)
Definition small_float : ctx :=
  CMPBFloat 3 (-1) (RF false 0 7) (RF true 0 7) RNE OV_OVERFLOW (Some 0) sp_default.

Lemma gf_small m : Z.abs m < 8 -> generic_format radix2 (FLT_exp (-3) 3) (F2R (Float radix2 m 0)).
Proof.
  intros H. apply generic_format_FLT. exists (Float radix2 m 0); simpl; try reflexivity; try lia.
Qed.

Example small_float_ok : uo_ctx_ok small_float /\ f2f_ctx_ok small_float /\ f2f_nondegenerate small_float /\
  ctx_wf small_float /\ ctx_wraps small_float = false.
Proof.
  assert (Hok : uo_ctx_ok small_float).
  { split; [split; exact I|]. cbn [small_float uo_parts]. unfold bounds_fmt. cbn [fexp_of mps_nmin].
    repeat split; try (unfold rf_wf; simpl; lia).
    - replace (-1 - 3 + 1 - 1 + 1) with (-3) by lia. apply (gf_small 7). simpl. lia.
    - replace (-1 - 3 + 1 - 1 + 1) with (-3) by lia. apply (gf_small (-7)). simpl. lia. }
  split; [exact Hok|]. split; [exact Hok|]. split; [cbv; discriminate|].
  split; [|reflexivity]. split; [split; exact I|]. simpl. repeat split; unfold rf_wf; simpl; lia.
Qed.

Example small_float_rewritten :
  (exists s, uo_describe fx_asis false small_float = Some s) /\
  (exists s, uo_describe fx_all true small_float = Some s) /\
  (exists s, f2f_describe fx_all small_float = Some s) /\
  us_decl small_float = false.
Proof.
  repeat split.
  - destruct (uo_describe fx_asis false small_float) eqn:E; [eexists; reflexivity|vm_compute in E; discriminate].
  - destruct (uo_describe fx_all true small_float) eqn:E; [eexists; reflexivity|vm_compute in E; discriminate].
  - destruct (f2f_describe fx_all small_float) eqn:E; [eexists; reflexivity|vm_compute in E; discriminate].
Qed.

(* the early-check threshold of the model (Context.infval = next_away maxval) meets `early_ok` on the example:
   8 is the next member of the unbounded format above 7 *)
Example small_float_early : forall s, uo_describe fx_all true small_float = Some s -> uo_early_ok small_float s.
Proof.
  intros s E. vm_compute in E. injection E as <-. unfold uo_early_ok. cbn [small_float uo_parts uo_inf uo_ninf].
  unfold early_ok. cbn [fexp_of mps_nmin].
  replace (-1 - 3 + 1 - 1 + 1) with (-3) by lia.
  assert (G : forall s0, generic_format radix2 (FLT_exp (-3) 3) (R2R (RF s0 1 4))).
  { intros s0. apply generic_format_FLT. exists (Float radix2 (if s0 then -4 else 4) 1).
    - reflexivity.
    - destruct s0; simpl; lia.
    - simpl; lia. }
  repeat split; try (unfold rf_wf; simpl; lia); try apply G;
    unfold R2R, rf_m, F2R; simpl; lra.
Qed.

(* a chain on the example: unfold_overflow, then unfold_special on the unbounded block it left *)
Example small_float_chain_ok : chain_ok fx_all [XOverflow; XSpecial] (LRound small_float).
Proof.
  destruct small_float_ok as (Hok & _ & _ & Hwf & Hwr).
  cbn [chain_ok].
  assert (E1 : rw (leaf_of fx_all XOverflow) (LRound small_float) =
      LBound (LRound (CMPSFloat 3 (-1) RNE (Some 0) sp_default)) (RF false 0 7) (RF true 0 7) (FInf false) (FInf true) false).
  { vm_compute. reflexivity. }
  rewrite E1.
  assert (Wu : forall sp, sp_wf sp -> ctx_wf (CMPSFloat 3 (-1) RNE (Some 0) sp)).
  { intros sp Hsp. split; [exact Hsp|]. simpl. lia. }
  split; [split; [exact Hwf|reflexivity]|].
  split; [exact I|].
  split; [cbn [lp_all cond]; split; [exact Hok|right; exact Hwr]|].
  assert (W1 : lp_wf (LBound (LRound (CMPSFloat 3 (-1) RNE (Some 0) sp_default)) (RF false 0 7) (RF true 0 7) (FInf false) (FInf true) false)).
  { cbn [lp_wf fl_wf]. split; [split; [apply Wu; exact sp_default_wf|reflexivity]|split; exact I]. }
  split; [exact W1|]. split; [exact W1|].
  split; [cbn [lp_bounds_wf]; split; [exact I|split; unfold rf_wf; simpl; lia]|].
  split; [cbn [lp_all cond]; exact I|].
  split; [|exact I].
  assert (E2 : rw (leaf_of fx_all XSpecial) (LRound (CMPSFloat 3 (-1) RNE (Some 0) sp_default)) =
    LIf TIsNan (LVal (FNaN false) (FNaN false))
      (LIf TIsInf (LVal (FInf false) (FInf true))
         (LIf TIsZero (LVal (FFin (RF false 0 0)) (FFin (RF true 0 0)))
            (LRound (CMPSFloat 3 (-1) RNE (Some 0) (SP false false None None)))))).
  { vm_compute. reflexivity. }
  change (rw (leaf_of fx_all XSpecial)
            (LBound (LRound (CMPSFloat 3 (-1) RNE (Some 0) sp_default)) (RF false 0 7) (RF true 0 7) (FInf false) (FInf true) false))
    with (LBound (rw (leaf_of fx_all XSpecial) (LRound (CMPSFloat 3 (-1) RNE (Some 0) sp_default)))
                 (RF false 0 7) (RF true 0 7) (FInf false) (FInf true) false).
  rewrite E2.
  cbn [lp_wf fl_wf].
  split; [|split; exact I]. split; [split; exact I|]. split; [split; exact I|]. split; [split; apply zero_wf|].
  split; [apply Wu; split; exact I|reflexivity].
Qed.

(* EFloatContext(0, 2, True, NONE, 0): the only finite value is zero; every
   operand that rounds away from zero overflows to an infinity (q(1) = +inf), the
   program float_to_fixed emits (bound 0, saturating) returns 0 *)
Definition zero_only_witness : ctx := CEFloat 0 2 true NK_NONE 0 RNE OV_OVERFLOW (Some 0) None None.

Theorem float_to_fixed_zero_only_refuted :
  exists p x, f2f_leaf fx_asis zero_only_witness = Some p /\ fl_wf x /\
              ~ vequiv (sem p x) (vround zero_only_witness x).
Proof.
  destruct (f2f_leaf fx_asis zero_only_witness) as [p|] eqn:E; [|vm_compute in E; discriminate].
  exists p, (FFin (RF false 0 1)). split; [reflexivity|]. split; [unfold fl_wf, rf_wf; simpl; lia|].
  unfold f2f_leaf in E. destruct (f2f_describe fx_asis zero_only_witness) as [s|] eqn:Es; [|discriminate].
  injection E as <-. vm_compute in Es. injection Es as <-.
  vm_compute. intros H. exact H.
Qed.

Theorem float_to_fixed_zero_only_declined : f2f_leaf fx_all zero_only_witness = None.
Proof. vm_compute. reflexivity. Qed.
