(* compile_correct: forward simulation from the documented semantics (Sem.v,
   context = lexically scoped parameter) to the compiled statement in PyIR
   (context = mutable local `__ctx__`, `with` = stash/try/finally-restore),
   for every run of the source statement that produces an outcome. *)
From Coq Require Import ZArith List Bool String Lia.
From FpyV Require Import Num.RealFloat Num.Float Num.CtxDef Lang.Syntax Lang.Values Lang.Sem
  Lang.SemMono Lang.PyIR Lang.Compile Lang.CompileProofs.
Import ListNotations.
Open Scope Z_scope.

Section WithNP.
Variable N : numops.
Variable P : program.

(* the PyIR outcome that corresponds to an FPy outcome under ambient context C:
   same variables, and the local `__ctx__` holds C again *)
Definition sim_out (C : ctx) (o : outcome) (po : pout) : Prop :=
  match o, po with
  | ONormal s', PNormal ps' => p_user ps' = s' /\ p_ctx ps' = VCtx C
  | OReturn v, PRet v' _ => v' = v
  | _, _ => False
  end.

Ltac dbind H :=
  repeat match type of H with
  | rbind ?c _ = ROk _ =>
      let E := fresh "E" in destruct c as [?|?|] eqn:E; cbn [rbind] in H; [|discriminate H|discriminate H]
  | (let '(_, _) := ?p in _) = ROk _ => destruct p
  end.

Lemma as_bool_inv : forall v b, as_bool v = ROk b -> v = VBool b.
Proof. intros v b H; destruct v; cbn in H; inversion H; reflexivity. Qed.

Lemma as_list_inv : forall mu v l vs, as_list mu v = ROk (l, vs) -> v = VList l.
Proof.
  intros mu v l vs H; destruct v as [| | | |l0|]; cbn in H; try discriminate.
  destruct (store_get mu l0); inversion H; reflexivity.
Qed.

Lemma pe_sto : forall s C tmps mu e n v mu1,
  eval N P n s mu C e = ROk (v, mu1) -> pevalsto N P (PS s (VCtx C) tmps) mu (PE e) v mu1.
Proof. intros. exists n. exact H. Qed.

Definition stmt_ok (n : nat) : Prop :=
  forall s mu C st o mu' k tmps, exec N P n s mu C st = ROk (o, mu') ->
    exists po, pyrel N P (PS s (VCtx C) tmps) mu (fst (compile_stmt k st)) po mu' /\ sim_out C o po.
Definition block_ok (n : nat) : Prop :=
  forall s mu C b o mu' k tmps, exec_block N P n s mu C b = ROk (o, mu') ->
    exists po, pyrel_block N P (PS s (VCtx C) tmps) mu (fst (compile_block k b)) po mu' /\ sim_out C o po.
Definition for_ok (n : nat) : Prop :=
  forall s mu C p l i body o mu' k tmps, for_loop N P n s mu C p l i body = ROk (o, mu') ->
    exists po, pyfor N P (PS s (VCtx C) tmps) mu p l i (fst (compile_block k body)) po mu' /\ sim_out C o po.

Lemma sim_normal_inv : forall C s' po, sim_out C (ONormal s') po -> exists tmps', po = PNormal (PS s' (VCtx C) tmps').
Proof.
  intros C s' [[u c t]| |] H; cbn in H; try contradiction.
  destruct H as [A B]. cbn in *. subst. eauto.
Qed.

Lemma sim_return_inv : forall C v po, sim_out C (OReturn v) po -> exists ps', po = PRet v ps'.
Proof. intros C v [| |] H; cbn in H; try contradiction. subst. eauto. Qed.

Lemma not_normal_ret : forall v ps ps1, PRet v ps <> PNormal ps1.
Proof. discriminate. Qed.

Lemma compile_correct_step : forall n, stmt_ok n -> block_ok n -> for_ok n ->
  stmt_ok (S n) /\ block_ok (S n) /\ for_ok (S n).
Proof.
  intros n IHs IHb IHf. split; [|split].
  - (* statements *)
    unfold stmt_ok. intros s mu C st o mu' k tmps H. rewrite exec_S in H. unfold exec_body in H.
    destruct st.
    + (* assign *)
      dbind H. destruct (bind_pat p v s) as [s'|] eqn:B; cbn in E0; inversion E0; subst. inversion H; subst.
      exists (PNormal (PS a (VCtx C) tmps)). split; [|cbn; auto].
      cbn [compile_stmt fst]. eapply R_Assign; [eapply pe_sto; eauto|]. cbn. rewrite B. reflexivity.
    + (* indexed assign *)
      destruct o as [s'|v].
      * exists (PNormal (PS s' (VCtx C) tmps)). split; [|cbn; auto]. cbn [compile_stmt fst].
        assert (Hs : s' = s).
        { dbind H. destruct (env_get s x); [|discriminate]. dbind H. inversion H; reflexivity. }
        subst s'. eapply (R_IndexAssign N P (PS s (VCtx C) tmps) mu x idx e C (S n)); [reflexivity|].
        rewrite exec_S. unfold exec_body. exact H.
      * exfalso. dbind H. destruct (env_get s x); [|discriminate]. dbind H. inversion H.
    + (* if1 *)
      dbind H. apply as_bool_inv in E0. subst v. rewrite compile_stmt_if1.
      destruct (compile_block k body) as [pb k1] eqn:EC. cbn [fst].
      destruct a.
      * destruct (IHb _ _ _ _ _ _ k tmps H) as (po & Hr & Hs). rewrite EC in Hr. cbn [fst] in Hr.
        exists po. split; auto. eapply R_IfTrue; [eapply pe_sto; eauto | exact Hr].
      * inversion H; subst. exists (PNormal (PS s (VCtx C) tmps)). split; [|cbn; auto].
        eapply R_IfFalse; [eapply pe_sto; eauto | constructor].
    + (* if *)
      dbind H. apply as_bool_inv in E0. subst v. rewrite compile_stmt_if.
      destruct (compile_block k ift) as [pt k1] eqn:EC1. destruct (compile_block k1 iff) as [pf k2] eqn:EC2. cbn [fst].
      destruct a.
      * destruct (IHb _ _ _ _ _ _ k tmps H) as (po & Hr & Hs). rewrite EC1 in Hr. cbn [fst] in Hr.
        exists po. split; auto. eapply R_IfTrue; [eapply pe_sto; eauto | exact Hr].
      * destruct (IHb _ _ _ _ _ _ k1 tmps H) as (po & Hr & Hs). rewrite EC2 in Hr. cbn [fst] in Hr.
        exists po. split; auto. eapply R_IfFalse; [eapply pe_sto; eauto | exact Hr].
    + (* while *)
      dbind H. apply as_bool_inv in E0. subst v. rewrite compile_stmt_while.
      destruct (compile_block k body) as [pb k1] eqn:EC. cbn [fst].
      destruct a.
      * dbind H. destruct o0 as [sq|vq].
        -- destruct (IHb _ _ _ _ _ _ k tmps E0) as (po1 & Hr1 & Hs1). rewrite EC in Hr1. cbn [fst] in Hr1.
           apply sim_normal_inv in Hs1. destruct Hs1 as (tmps1 & ->).
           destruct (IHs _ _ _ _ _ _ k tmps1 H) as (po & Hr & Hs). rewrite compile_stmt_while, EC in Hr. cbn [fst] in Hr.
           exists po. split; auto. eapply R_WhileTrue; [eapply pe_sto; eauto | exact Hr1 | exact Hr].
        -- inversion H; subst.
           destruct (IHb _ _ _ _ _ _ k tmps E0) as (po1 & Hr1 & Hs1). rewrite EC in Hr1. cbn [fst] in Hr1.
           destruct (sim_return_inv _ _ _ Hs1) as (ps' & ->).
           exists (PRet vq ps'). split; [|reflexivity].
           eapply R_WhileExit; [eapply pe_sto; eauto | exact Hr1 | intros; discriminate].
      * inversion H; subst. exists (PNormal (PS s (VCtx C) tmps)). split; [|cbn; auto].
        eapply R_WhileFalse. eapply pe_sto; eauto.
    + (* for *)
      dbind H. pose proof (as_list_inv _ _ _ _ E0) as ->. rewrite compile_stmt_for.
      destruct (compile_block k body) as [pb k1] eqn:EC. cbn [fst].
      destruct (IHf _ _ _ _ _ _ _ _ _ k tmps H) as (po & Hr & Hs). rewrite EC in Hr. cbn [fst] in Hr.
      exists po. split; auto. eapply R_For; [eapply pe_sto; eauto | exact Hr].
    + (* with *)
      dbind H. destruct v; try discriminate. rename c into C'.
      rewrite compile_stmt_context. destruct (compile_block k body) as [pb k1] eqn:EC. cbn [fst].
      destruct (proj2 compile_range_both _ _ _ _ EC) as [Hle Hpb].
      set (s1 := match x with Some x0 => env_set s x0 (VCtx C') | None => s end) in *.
      set (tm1 := tmp_set tmps k1 (VCtx C)).
      destruct (IHb _ _ _ _ _ _ k tm1 H) as (pob & Hrb & Hsb). rewrite EC in Hrb. cbn [fst] in Hrb.
      (* the try body *)
      assert (Hstash : pyrel N P (PS s (VCtx C) tmps) mu (stash_stmt k1) (PNormal (PS s (VCtx C) tm1)) mu).
      { eapply R_Assign; [exists O; reflexivity | reflexivity]. }
      assert (Hreal : pyrel N P (PS s (VCtx C) tm1) mu real_stmt (PNormal (PS s (VCtx CReal) tm1)) mu).
      { eapply R_Assign; [exists O; reflexivity | reflexivity]. }
      assert (Hset : pyrel N P (PS s (VCtx CReal) tm1) mu (set_stmt x e) (PNormal (PS s1 (VCtx C') tm1)) s0).
      { eapply R_Assign; [exists n; exact E|]. unfold s1. destruct x; reflexivity. }
      assert (Hbody : pyrel_block N P (PS s (VCtx C) tmps) mu (stash_stmt k1 :: real_stmt :: set_stmt x e :: pb) pob mu').
      { eapply RB_Cons; [exact Hstash|]. eapply RB_Cons; [exact Hreal|]. eapply RB_Cons; [exact Hset|]. exact Hrb. }
      (* the temporary survives the body *)
      assert (Htmp : tmp_get (p_tmps (state_of pob)) k1 = Some (VCtx C)).
      { rewrite (proj1 (proj2 (frame_all N P)) _ _ _ _ _ Hrb k k1 Hpb k1 ltac:(right; lia)).
        cbn. apply tmp_get_set_same. }
      assert (Hfin : pyrel_block N P (state_of pob) mu' [restore_stmt k1]
                       (PNormal (name_set (state_of pob) NCtx (VCtx C))) mu').
      { eapply RB_Cons; [|constructor]. eapply R_Assign; [exists O; cbn; rewrite Htmp; reflexivity | reflexivity]. }
      destruct o as [s'|v].
      * apply sim_normal_inv in Hsb. destruct Hsb as (tmps' & ->).
        exists (PNormal (name_set (PS s' (VCtx C') tmps') NCtx (VCtx C))). split; [|cbn; auto].
        exact (R_TryFinally N P _ _ _ _ _ _ _ _ Hbody Hfin).
      * destruct (sim_return_inv _ _ _ Hsb) as (ps' & ->).
        exists (PRet v (name_set ps' NCtx (VCtx C))). split; [|reflexivity].
        exact (R_TryFinally N P _ _ _ _ _ _ _ _ Hbody Hfin).
    + (* assert *)
      dbind H. apply as_bool_inv in E0. subst v. destruct a; [|discriminate]. inversion H; subst.
      exists (PNormal (PS s (VCtx C) tmps)). split; [|cbn; auto].
      cbn [compile_stmt fst]. eapply R_AssertOk. eapply pe_sto; eauto.
    + (* effect *)
      dbind H. inversion H; subst.
      exists (PNormal (PS s (VCtx C) tmps)). split; [|cbn; auto].
      cbn [compile_stmt fst]. eapply R_Expr. eapply pe_sto; eauto.
    + (* return *)
      dbind H. inversion H; subst.
      exists (PRet v (PS s (VCtx C) tmps)). split; [|reflexivity].
      cbn [compile_stmt fst]. eapply R_Return. eapply pe_sto; eauto.
    + (* pass *)
      inversion H; subst. exists (PNormal (PS s (VCtx C) tmps)). split; [|cbn; auto]. constructor.
  - (* blocks *)
    unfold block_ok. intros s mu C b o mu' k tmps H. rewrite exec_block_S in H. unfold exec_block_body in H.
    destruct b as [|st r].
    + inversion H; subst. exists (PNormal (PS s (VCtx C) tmps)). split; [constructor | cbn; auto].
    + dbind H. cbn [compile_block]. destruct (compile_stmt k st) as [px k1] eqn:EC1.
      destruct (compile_block k1 r) as [pr k2] eqn:EC2. cbn [fst].
      destruct (IHs _ _ _ _ _ _ k tmps E) as (po1 & Hr1 & Hs1). rewrite EC1 in Hr1. cbn [fst] in Hr1.
      destruct o0 as [sq|vq].
      * apply sim_normal_inv in Hs1. destruct Hs1 as (tmps1 & ->).
        destruct (IHb _ _ _ _ _ _ k1 tmps1 H) as (po & Hr & Hs). rewrite EC2 in Hr. cbn [fst] in Hr.
        exists po. split; auto. eapply RB_Cons; eauto.
      * inversion H; subst. destruct (sim_return_inv _ _ _ Hs1) as (ps' & ->).
        exists (PRet vq ps'). split; [|reflexivity]. eapply RB_Exit; [exact Hr1 | intros; discriminate].
  - (* for loops *)
    unfold for_ok. intros s mu C p l i body o mu' k tmps H. rewrite for_loop_S in H. unfold for_loop_body in H.
    destruct (store_get mu l) as [vs|] eqn:EG; [|discriminate].
    destruct (nth_error vs i) as [x|] eqn:EN.
    + dbind H. destruct (bind_pat p x s) as [sb|] eqn:B; cbn in E; inversion E; subst a.
      destruct (IHb _ _ _ _ _ _ k tmps E0) as (po1 & Hr1 & Hs1).
      destruct o0 as [sq|vq].
      * apply sim_normal_inv in Hs1. destruct Hs1 as (tmps1 & ->).
        destruct (IHf _ _ _ _ _ _ _ _ _ k tmps1 H) as (po & Hr & Hs).
        exists po. split; auto. eapply RF_Step; eauto.
      * inversion H; subst. destruct (sim_return_inv _ _ _ Hs1) as (ps' & ->).
        exists (PRet vq ps'). split; [|reflexivity]. eapply RF_Exit; eauto. intros; discriminate.
    + inversion H; subst. exists (PNormal (PS s (VCtx C) tmps)). split; [|cbn; auto]. eapply RF_Done; eauto.
Qed.

Lemma compile_correct_all : forall n, stmt_ok n /\ block_ok n /\ for_ok n.
Proof.
  induction n as [|n (A & B & C)].
  - repeat split; intro; intros; discriminate.
  - apply compile_correct_step; assumption.
Qed.

(* compile_correct for a function body: if the documented semantics gives the
   body an outcome under context C, the compiled body, started with the local
   `__ctx__` = C, has the corresponding outcome (same returned value / same
   variables, same final store) — and `__ctx__` = C again on normal completion. *)
Theorem compile_correct : forall n s mu C b o mu',
  exec_block N P n s mu C b = ROk (o, mu') ->
  exists po, pyrel_block N P (init_pstate s C) mu (fst (compile_block O b)) po mu' /\ sim_out C o po.
Proof. intros. destruct (compile_correct_all n) as (_ & B & _). eapply B; eauto. Qed.

Theorem compile_correct_stmt : forall n s mu C st o mu' k tmps,
  exec N P n s mu C st = ROk (o, mu') ->
  exists po, pyrel N P (PS s (VCtx C) tmps) mu (fst (compile_stmt k st)) po mu' /\ sim_out C o po.
Proof. intros. destruct (compile_correct_all n) as (A & _ & _). eapply A; eauto. Qed.

End WithNP.
