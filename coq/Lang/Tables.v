(* The operator tables of fpy2/frontend/parser.py and fpy2/interpret/byte.py as DATA:
   what every documented surface name must map to.  Definitions only.
   An `entry` is regenerated from /repo on every run by parsing and compiling a
   one-line function per surface name (harness/props/c04.py): the surface name,
   the fpyast node class the real parser built, and the implementation the real
   BytecodeCompiler emitted a call to (module-qualified name, with the `ctx=`
   keyword it passes).  `tables_ok` says: every rounded operator is implemented
   by the LIKE-NAMED function of fpy2.ops, receives ctx=__ctx__, and the node is
   the one the model's `op` tag stands for; the structural helpers are the
   strict run-time helpers; and no documented name is missing. *)
From Coq Require Import ZArith List Bool String.
From FpyV Require Import Lang.Syntax.
Import ListNotations.
Open Scope string_scope.

Definition entry := (string * string * string)%type.

(* fpyast node class -> the model's operator tag (what harness/lang.py exports it as) *)
Definition node_op : list (string * op) := [
  ("ConstNan", ONan);
  ("ConstInf", OInf);
  ("ConstPi", (OConst "const_pi"));
  ("ConstE", (OConst "const_e"));
  ("ConstLog2E", (OConst "const_log2e"));
  ("ConstLog10E", (OConst "const_log10e"));
  ("ConstLn2", (OConst "const_ln2"));
  ("ConstPi_2", (OConst "const_pi_2"));
  ("ConstPi_4", (OConst "const_pi_4"));
  ("Const1_Pi", (OConst "const_1_pi"));
  ("Const2_Pi", (OConst "const_2_pi"));
  ("Const2_SqrtPi", (OConst "const_2_sqrt_pi"));
  ("ConstSqrt2", (OConst "const_sqrt2"));
  ("ConstSqrt1_2", (OConst "const_sqrt1_2"));
  ("Neg", ONeg);
  ("Abs", OFabs);
  ("Sqrt", OSqrt);
  ("Cbrt", OCbrt);
  ("Ceil", OCeil);
  ("Floor", OFloor);
  ("NearbyInt", ONearbyInt);
  ("RoundInt", ORoundInt);
  ("Trunc", OTrunc);
  ("Round", ORound);
  ("Cast", OCast);
  ("Logb", OLogb);
  ("Acos", (OElem "acos"));
  ("Asin", (OElem "asin"));
  ("Atan", (OElem "atan"));
  ("Cos", (OElem "cos"));
  ("Sin", (OElem "sin"));
  ("Tan", (OElem "tan"));
  ("Acosh", (OElem "acosh"));
  ("Asinh", (OElem "asinh"));
  ("Atanh", (OElem "atanh"));
  ("Cosh", (OElem "cosh"));
  ("Sinh", (OElem "sinh"));
  ("Tanh", (OElem "tanh"));
  ("Exp", (OElem "exp"));
  ("Exp2", (OElem "exp2"));
  ("Expm1", (OElem "expm1"));
  ("Log", (OElem "log"));
  ("Log10", (OElem "log10"));
  ("Log1p", (OElem "log1p"));
  ("Log2", (OElem "log2"));
  ("Erf", (OElem "erf"));
  ("Erfc", (OElem "erfc"));
  ("Lgamma", (OElem "lgamma"));
  ("Tgamma", (OElem "tgamma"));
  ("Add", OAdd);
  ("Sub", OSub);
  ("Mul", OMul);
  ("Div", ODiv);
  ("Copysign", OCopysign);
  ("Fdim", OFdim);
  ("Mod", OMod);
  ("Fmod", OFmod);
  ("Remainder", ORemainder);
  ("Hypot", OHypot);
  ("Atan2", OAtan2);
  ("Pow", OPow);
  ("RoundAt", ORoundAt);
  ("Fma", OFma)
].

(* the fpy2.ops function that implements a tag *)
Definition op_name (o : op) : string :=
  match o with
  | ONan => "nan"
  | OInf => "inf"
  | ONeg => "neg"
  | OFabs => "fabs"
  | OSqrt => "sqrt"
  | OCbrt => "cbrt"
  | OCeil => "ceil"
  | OFloor => "floor"
  | ONearbyInt => "nearbyint"
  | ORoundInt => "roundint"
  | OTrunc => "trunc"
  | ORound => "round"
  | OCast => "cast"
  | OLogb => "logb"
  | OAdd => "add"
  | OSub => "sub"
  | OMul => "mul"
  | ODiv => "div"
  | OCopysign => "copysign"
  | OFdim => "fdim"
  | OMod => "mod"
  | OFmod => "fmod"
  | ORemainder => "remainder"
  | OHypot => "hypot"
  | OAtan2 => "atan2"
  | OPow => "pow"
  | ORoundAt => "round_at"
  | OFma => "fma"
  | OElem n => n
  | OConst n => n
  end.

(* the operation a surface spelling documents (aliases and operator symbols) *)
Definition doc_name (s : string) : string :=
  if String.eqb s "abs" then "fabs"
  else if String.eqb s "round_exact" then "cast"
  else if String.eqb s "+" then "add" else if String.eqb s "-" then "sub"
  else if String.eqb s "*" then "mul" else if String.eqb s "/" then "div"
  else if String.eqb s "%" then "mod" else if String.eqb s "**" then "pow"
  else s.

Definition rounded_impl (o : op) : string := "fpy2.ops." ++ op_name o ++ "[ctx=__ctx__]".

(* predicates, structural helpers, comparisons, boolean operators *)
Definition helper_table : list (string * (string * string)) := [
  ("isnan", ("IsNan", "fpy2.ops.isnan[ctx=__ctx__]"));
  ("isinf", ("IsInf", "fpy2.ops.isinf[ctx=__ctx__]"));
  ("isfinite", ("IsFinite", "fpy2.ops.isfinite[ctx=__ctx__]"));
  ("isnormal", ("IsNormal", "fpy2.ops.isnormal[ctx=__ctx__]"));
  ("signbit", ("Signbit", "fpy2.ops.signbit[ctx=__ctx__]"));
  ("len", ("Len", "fractions.Fraction(fpy2.interpret.byte._eval_len)"));
  ("sum", ("Sum", "fpy2.interpret.byte._eval_sum[ctx=__ctx__]"));
  ("enumerate", ("Enumerate", "fpy2.interpret.byte._eval_enumerate[ctx=__ctx__]"));
  ("min/1", ("AMin", "fpy2.interpret.byte._eval_min"));
  ("max/1", ("AMax", "fpy2.interpret.byte._eval_max"));
  ("min/2", ("Min", "fpy2.interpret.byte._eval_min"));
  ("max/2", ("Max", "fpy2.interpret.byte._eval_max"));
  ("fmin/2", ("Min", "fpy2.interpret.byte._eval_min"));
  ("fmax/2", ("Max", "fpy2.interpret.byte._eval_max"));
  ("any", ("AnyOf", "fpy2.interpret.byte._eval_any"));
  ("all", ("AllOf", "fpy2.interpret.byte._eval_all"));
  ("zip", ("Zip", "py.list(py.zip[strict=True])"));
  ("range/1", ("Range1", "fpy2.interpret.byte._eval_range"));
  ("range/2", ("Range2", "fpy2.interpret.byte._eval_range"));
  ("range/3", ("Range3", "fpy2.interpret.byte._eval_range"));
  ("empty", ("Empty", "fpy2.ops.empty[ctx=__ctx__]"));
  ("dim", ("Dim", "fpy2.ops.dim[ctx=__ctx__]"));
  ("size", ("Size", "fpy2.ops.size[ctx=__ctx__]"));
  ("fst", ("Fst", "fpy2.ops.fst[ctx=__ctx__]"));
  ("snd", ("Snd", "fpy2.ops.snd[ctx=__ctx__]"));
  ("<", ("Compare", "Lt(fpy2.interpret.byte._eval_ordered,fpy2.interpret.byte._eval_ordered)"));
  ("<=", ("Compare", "LtE(fpy2.interpret.byte._eval_ordered,fpy2.interpret.byte._eval_ordered)"));
  (">", ("Compare", "Gt(fpy2.interpret.byte._eval_ordered,fpy2.interpret.byte._eval_ordered)"));
  (">=", ("Compare", "GtE(fpy2.interpret.byte._eval_ordered,fpy2.interpret.byte._eval_ordered)"));
  ("==", ("Compare", "fpy2.interpret.byte._eval_eq"));
  ("!=", ("Compare", "UnaryOp.Not(fpy2.interpret.byte._eval_eq)"));
  ("and", ("And", "BoolOp.And"));
  ("or", ("Or", "BoolOp.Or"));
  ("not", ("Not", "UnaryOp.Not(name)"));
  ("ref", ("ListRef", "Subscript(fpy2.interpret.byte._cvt_index)"));
  ("slice", ("ListSlice", "fpy2.interpret.byte._eval_list_slice"));
  ("call", ("Call", "fpy2.interpret.byte._eval_call"));
  ("ctor", ("Call", "fpy2.interpret.byte._eval_call"))
].

Fixpoint assoc {A} (k : string) (l : list (string * A)) : option A :=
  match l with
  | [] => None
  | (k', v) :: r => if String.eqb k k' then Some v else assoc k r
  end.

Definition entry_ok (e : entry) : bool :=
  let '(surface, node, impl) := e in
  match assoc node node_op with
  | Some o => String.eqb (op_name o) (doc_name surface) && String.eqb impl (rounded_impl o)
  | None =>
      match assoc surface helper_table with
      | Some (n, i) => String.eqb node n && String.eqb impl i
      | None => false
      end
  end.

Definition required : list string := ["!="; "%"; "*"; "**"; "+"; "-"; "/"; "<"; "<="; "=="; ">"; ">="; "abs"; "acos"; "acosh"; "all"; "and"; "any"; "asin"; "asinh"; "atan"; "atan2"; "atanh"; "call"; "cast"; "cbrt"; "ceil"; "const_1_pi"; "const_2_pi"; "const_2_sqrt_pi"; "const_e"; "const_ln2"; "const_log10e"; "const_log2e"; "const_pi"; "const_pi_2"; "const_pi_4"; "const_sqrt1_2"; "const_sqrt2"; "copysign"; "cos"; "cosh"; "ctor"; "dim"; "empty"; "enumerate"; "erf"; "erfc"; "exp"; "exp2"; "expm1"; "fabs"; "fdim"; "floor"; "fma"; "fmax/2"; "fmin/2"; "fmod"; "fst"; "hypot"; "inf"; "isfinite"; "isinf"; "isnan"; "isnormal"; "len"; "lgamma"; "log"; "log10"; "log1p"; "log2"; "logb"; "max/1"; "max/2"; "min/1"; "min/2"; "nan"; "nearbyint"; "neg"; "not"; "or"; "pow"; "range/1"; "range/2"; "range/3"; "ref"; "remainder"; "round"; "round_at"; "round_exact"; "roundint"; "signbit"; "sin"; "sinh"; "size"; "slice"; "snd"; "sqrt"; "sum"; "tan"; "tanh"; "tgamma"; "trunc"; "zip"].

Definition tables_ok (t : list entry) : bool :=
  forallb entry_ok t &&
  forallb (fun s => existsb (fun e : entry => String.eqb (fst (fst e)) s) t) required.

(* the exporter of harness/lang.py maps node classes to the same tags *)
Definition exporter_ok (t : list (string * op)) : bool :=
  forallb (fun ne : string * op => match assoc (fst ne) node_op with Some o => op_eqb o (snd ne) | None => false end) t.
