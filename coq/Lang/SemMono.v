(* Fuel monotonicity of the FPyLang evaluator (Sem.v): more fuel never changes
   a result that is not "out of fuel".  For every judgement F of Sem.v:
       F N P n args = r -> r <> RFuel -> n <= m -> F N P m args = r.
   Unfolding lemmas `F_S` (one step of every judgement) are provided as well.
   (Generated skeleton: the per-judgement lemmas are instances of one scheme.) *)
From Coq Require Import ZArith List Bool String Lia.
From FpyV Require Import Num.RealFloat Num.Float Num.CtxDef Lang.Syntax Lang.Values Lang.Sem.
Import ListNotations.
Open Scope Z_scope.

(* b is at least as defined as a *)
Definition le_res {A} (a b : res A) : Prop := a <> RFuel -> b = a.

Lemma le_res_refl : forall A (a : res A), le_res a a.
Proof. unfold le_res; auto. Qed.

Lemma le_res_bind : forall A B (c1 c2 : res A) (k1 k2 : A -> res B),
  le_res c1 c2 -> (forall a, c1 = ROk a -> le_res (k1 a) (k2 a)) -> le_res (rbind c1 k1) (rbind c2 k2).
Proof.
  unfold le_res; intros A B c1 c2 k1 k2 Hc Hk Hne. destruct c1 as [a|e|].
  - rewrite (Hc ltac:(discriminate)). cbn [rbind] in *. apply Hk; auto.
  - rewrite (Hc ltac:(discriminate)). reflexivity.
  - exfalso. apply Hne. reflexivity.
Qed.

Section Mono.
Variable N : numops.
Variable P : program.

(* ---------------------------------------------------------------- one-step unfoldings *)

Lemma eval_S : forall n (s : env) (mu : store) (C : ctx) (e : expr),
  eval N P (S n) s mu C e = eval_body N P (eval N P n) (evals N P n) (eval_opt N P n) (cmp_chain N P n) (bool_chain N P n) (comp N P n) (comp_loop N P n) (call N P n) (exec N P n) (exec_block N P n) (for_loop N P n) (index_walk N P n) (value_eq N n) (dim_of n) s mu C e.
Proof. reflexivity. Qed.

Lemma eval_O : forall (s : env) (mu : store) (C : ctx) (e : expr), eval N P O s mu C e = RFuel.
Proof. reflexivity. Qed.

Lemma evals_S : forall n (s : env) (mu : store) (C : ctx) (es : list expr),
  evals N P (S n) s mu C es = evals_body (eval N P n) (evals N P n) (eval_opt N P n) (cmp_chain N P n) (bool_chain N P n) (comp N P n) (comp_loop N P n) (call N P n) (exec N P n) (exec_block N P n) (for_loop N P n) (index_walk N P n) (value_eq N n) (dim_of n) s mu C es.
Proof. reflexivity. Qed.

Lemma evals_O : forall (s : env) (mu : store) (C : ctx) (es : list expr), evals N P O s mu C es = RFuel.
Proof. reflexivity. Qed.

Lemma eval_opt_S : forall n (s : env) (mu : store) (C : ctx) (e : option expr),
  eval_opt N P (S n) s mu C e = eval_opt_body (eval N P n) (evals N P n) (eval_opt N P n) (cmp_chain N P n) (bool_chain N P n) (comp N P n) (comp_loop N P n) (call N P n) (exec N P n) (exec_block N P n) (for_loop N P n) (index_walk N P n) (value_eq N n) (dim_of n) s mu C e.
Proof. reflexivity. Qed.

Lemma eval_opt_O : forall (s : env) (mu : store) (C : ctx) (e : option expr), eval_opt N P O s mu C e = RFuel.
Proof. reflexivity. Qed.

Lemma cmp_chain_S : forall n (s : env) (mu : store) (C : ctx) (v : value) (ops : list cmpop) (args : list expr),
  cmp_chain N P (S n) s mu C v ops args = cmp_chain_body N (eval N P n) (evals N P n) (eval_opt N P n) (cmp_chain N P n) (bool_chain N P n) (comp N P n) (comp_loop N P n) (call N P n) (exec N P n) (exec_block N P n) (for_loop N P n) (index_walk N P n) (value_eq N n) (dim_of n) s mu C v ops args.
Proof. reflexivity. Qed.

Lemma cmp_chain_O : forall (s : env) (mu : store) (C : ctx) (v : value) (ops : list cmpop) (args : list expr), cmp_chain N P O s mu C v ops args = RFuel.
Proof. reflexivity. Qed.

Lemma bool_chain_S : forall n (s : env) (mu : store) (C : ctx) (unit : bool) (args : list expr),
  bool_chain N P (S n) s mu C unit args = bool_chain_body (eval N P n) (evals N P n) (eval_opt N P n) (cmp_chain N P n) (bool_chain N P n) (comp N P n) (comp_loop N P n) (call N P n) (exec N P n) (exec_block N P n) (for_loop N P n) (index_walk N P n) (value_eq N n) (dim_of n) s mu C unit args.
Proof. reflexivity. Qed.

Lemma bool_chain_O : forall (s : env) (mu : store) (C : ctx) (unit : bool) (args : list expr), bool_chain N P O s mu C unit args = RFuel.
Proof. reflexivity. Qed.

Lemma comp_S : forall n (s : env) (mu : store) (C : ctx) (gens : list (pat * expr)) (elt : expr),
  comp N P (S n) s mu C gens elt = comp_body (eval N P n) (evals N P n) (eval_opt N P n) (cmp_chain N P n) (bool_chain N P n) (comp N P n) (comp_loop N P n) (call N P n) (exec N P n) (exec_block N P n) (for_loop N P n) (index_walk N P n) (value_eq N n) (dim_of n) s mu C gens elt.
Proof. reflexivity. Qed.

Lemma comp_O : forall (s : env) (mu : store) (C : ctx) (gens : list (pat * expr)) (elt : expr), comp N P O s mu C gens elt = RFuel.
Proof. reflexivity. Qed.

Lemma comp_loop_S : forall n (s : env) (mu : store) (C : ctx) (p : pat) (l : loc) (i : nat) (gs : list (pat * expr)) (elt : expr),
  comp_loop N P (S n) s mu C p l i gs elt = comp_loop_body (eval N P n) (evals N P n) (eval_opt N P n) (cmp_chain N P n) (bool_chain N P n) (comp N P n) (comp_loop N P n) (call N P n) (exec N P n) (exec_block N P n) (for_loop N P n) (index_walk N P n) (value_eq N n) (dim_of n) s mu C p l i gs elt.
Proof. reflexivity. Qed.

Lemma comp_loop_O : forall (s : env) (mu : store) (C : ctx) (p : pat) (l : loc) (i : nat) (gs : list (pat * expr)) (elt : expr), comp_loop N P O s mu C p l i gs elt = RFuel.
Proof. reflexivity. Qed.

Lemma call_S : forall n (fn : func) (vs : list value) (mu : store) (C : ctx),
  call N P (S n) fn vs mu C = call_body (eval N P n) (evals N P n) (eval_opt N P n) (cmp_chain N P n) (bool_chain N P n) (comp N P n) (comp_loop N P n) (call N P n) (exec N P n) (exec_block N P n) (for_loop N P n) (index_walk N P n) (value_eq N n) (dim_of n) fn vs mu C.
Proof. reflexivity. Qed.

Lemma call_O : forall (fn : func) (vs : list value) (mu : store) (C : ctx), call N P O fn vs mu C = RFuel.
Proof. reflexivity. Qed.

Lemma exec_S : forall n (s : env) (mu : store) (C : ctx) (st : stmt),
  exec N P (S n) s mu C st = exec_body (eval N P n) (evals N P n) (eval_opt N P n) (cmp_chain N P n) (bool_chain N P n) (comp N P n) (comp_loop N P n) (call N P n) (exec N P n) (exec_block N P n) (for_loop N P n) (index_walk N P n) (value_eq N n) (dim_of n) s mu C st.
Proof. reflexivity. Qed.

Lemma exec_O : forall (s : env) (mu : store) (C : ctx) (st : stmt), exec N P O s mu C st = RFuel.
Proof. reflexivity. Qed.

Lemma exec_block_S : forall n (s : env) (mu : store) (C : ctx) (b : block),
  exec_block N P (S n) s mu C b = exec_block_body (eval N P n) (evals N P n) (eval_opt N P n) (cmp_chain N P n) (bool_chain N P n) (comp N P n) (comp_loop N P n) (call N P n) (exec N P n) (exec_block N P n) (for_loop N P n) (index_walk N P n) (value_eq N n) (dim_of n) s mu C b.
Proof. reflexivity. Qed.

Lemma exec_block_O : forall (s : env) (mu : store) (C : ctx) (b : block), exec_block N P O s mu C b = RFuel.
Proof. reflexivity. Qed.

Lemma for_loop_S : forall n (s : env) (mu : store) (C : ctx) (p : pat) (l : loc) (i : nat) (body : block),
  for_loop N P (S n) s mu C p l i body = for_loop_body (eval N P n) (evals N P n) (eval_opt N P n) (cmp_chain N P n) (bool_chain N P n) (comp N P n) (comp_loop N P n) (call N P n) (exec N P n) (exec_block N P n) (for_loop N P n) (index_walk N P n) (value_eq N n) (dim_of n) s mu C p l i body.
Proof. reflexivity. Qed.

Lemma for_loop_O : forall (s : env) (mu : store) (C : ctx) (p : pat) (l : loc) (i : nat) (body : block), for_loop N P O s mu C p l i body = RFuel.
Proof. reflexivity. Qed.

Lemma index_walk_S : forall n (s : env) (mu : store) (C : ctx) (cur : value) (idx : list expr) (v : value),
  index_walk N P (S n) s mu C cur idx v = index_walk_body (eval N P n) (evals N P n) (eval_opt N P n) (cmp_chain N P n) (bool_chain N P n) (comp N P n) (comp_loop N P n) (call N P n) (exec N P n) (exec_block N P n) (for_loop N P n) (index_walk N P n) (value_eq N n) (dim_of n) s mu C cur idx v.
Proof. reflexivity. Qed.

Lemma index_walk_O : forall (s : env) (mu : store) (C : ctx) (cur : value) (idx : list expr) (v : value), index_walk N P O s mu C cur idx v = RFuel.
Proof. reflexivity. Qed.


(* ---------------------------------------------------------------- the bodies are monotone in their oracles *)
Section BodiesMono.

Variables ev1 ev2 : env -> store -> ctx -> expr -> res (value * store).
Variables evs1 evs2 : env -> store -> ctx -> (list expr) -> res (list value * store).
Variables evo1 evo2 : env -> store -> ctx -> (option expr) -> res (option value * store).
Variables cmpc1 cmpc2 : env -> store -> ctx -> value -> (list cmpop) -> (list expr) -> res (value * store).
Variables boolc1 boolc2 : env -> store -> ctx -> bool -> (list expr) -> res (value * store).
Variables cmpr1 cmpr2 : env -> store -> ctx -> (list (pat * expr)) -> expr -> res (list value * store).
Variables cmpl1 cmpl2 : env -> store -> ctx -> pat -> loc -> nat -> (list (pat * expr)) -> expr -> res (list value * store).
Variables cal1 cal2 : func -> (list value) -> store -> ctx -> res (value * store).
Variables ex1 ex2 : env -> store -> ctx -> stmt -> res (outcome * store).
Variables exb1 exb2 : env -> store -> ctx -> block -> res (outcome * store).
Variables forl1 forl2 : env -> store -> ctx -> pat -> loc -> nat -> block -> res (outcome * store).
Variables idxw1 idxw2 : env -> store -> ctx -> value -> (list expr) -> value -> res store.
Variables veq1 veq2 : store -> value -> value -> res bool.
Variables dimf1 dimf2 : store -> value -> res Z.
Hypothesis Hev : forall a0 a1 a2 a3, le_res (ev1 a0 a1 a2 a3) (ev2 a0 a1 a2 a3).
Hypothesis Hevs : forall a0 a1 a2 a3, le_res (evs1 a0 a1 a2 a3) (evs2 a0 a1 a2 a3).
Hypothesis Hevo : forall a0 a1 a2 a3, le_res (evo1 a0 a1 a2 a3) (evo2 a0 a1 a2 a3).
Hypothesis Hcmpc : forall a0 a1 a2 a3 a4 a5, le_res (cmpc1 a0 a1 a2 a3 a4 a5) (cmpc2 a0 a1 a2 a3 a4 a5).
Hypothesis Hboolc : forall a0 a1 a2 a3 a4, le_res (boolc1 a0 a1 a2 a3 a4) (boolc2 a0 a1 a2 a3 a4).
Hypothesis Hcmpr : forall a0 a1 a2 a3 a4, le_res (cmpr1 a0 a1 a2 a3 a4) (cmpr2 a0 a1 a2 a3 a4).
Hypothesis Hcmpl : forall a0 a1 a2 a3 a4 a5 a6 a7, le_res (cmpl1 a0 a1 a2 a3 a4 a5 a6 a7) (cmpl2 a0 a1 a2 a3 a4 a5 a6 a7).
Hypothesis Hcal : forall a0 a1 a2 a3, le_res (cal1 a0 a1 a2 a3) (cal2 a0 a1 a2 a3).
Hypothesis Hex : forall a0 a1 a2 a3, le_res (ex1 a0 a1 a2 a3) (ex2 a0 a1 a2 a3).
Hypothesis Hexb : forall a0 a1 a2 a3, le_res (exb1 a0 a1 a2 a3) (exb2 a0 a1 a2 a3).
Hypothesis Hforl : forall a0 a1 a2 a3 a4 a5 a6, le_res (forl1 a0 a1 a2 a3 a4 a5 a6) (forl2 a0 a1 a2 a3 a4 a5 a6).
Hypothesis Hidxw : forall a0 a1 a2 a3 a4 a5, le_res (idxw1 a0 a1 a2 a3 a4 a5) (idxw2 a0 a1 a2 a3 a4 a5).
Hypothesis Hveq : forall a0 a1 a2, le_res (veq1 a0 a1 a2) (veq2 a0 a1 a2).
Hypothesis Hdimf : forall a0 a1, le_res (dimf1 a0 a1) (dimf2 a0 a1).

Ltac mono :=
  repeat first
    [ apply le_res_refl
    | apply Hev
    | apply Hevs
    | apply Hevo
    | apply Hcmpc
    | apply Hboolc
    | apply Hcmpr
    | apply Hcmpl
    | apply Hcal
    | apply Hex
    | apply Hexb
    | apply Hforl
    | apply Hidxw
    | apply Hveq
    | apply Hdimf
    | apply le_res_bind; [ | intros ? _ ]
    | match goal with |- le_res (match ?x with _ => _ end) _ => destruct x end ].

Lemma eval_body_mono : forall (s : env) (mu : store) (C : ctx) (e : expr),
  le_res (eval_body N P ev1 evs1 evo1 cmpc1 boolc1 cmpr1 cmpl1 cal1 ex1 exb1 forl1 idxw1 veq1 dimf1 s mu C e) (eval_body N P ev2 evs2 evo2 cmpc2 boolc2 cmpr2 cmpl2 cal2 ex2 exb2 forl2 idxw2 veq2 dimf2 s mu C e).
Proof. intros. unfold eval_body. mono. Qed.

Lemma evals_body_mono : forall (s : env) (mu : store) (C : ctx) (es : list expr),
  le_res (evals_body ev1 evs1 evo1 cmpc1 boolc1 cmpr1 cmpl1 cal1 ex1 exb1 forl1 idxw1 veq1 dimf1 s mu C es) (evals_body ev2 evs2 evo2 cmpc2 boolc2 cmpr2 cmpl2 cal2 ex2 exb2 forl2 idxw2 veq2 dimf2 s mu C es).
Proof. intros. unfold evals_body. mono. Qed.

Lemma eval_opt_body_mono : forall (s : env) (mu : store) (C : ctx) (e : option expr),
  le_res (eval_opt_body ev1 evs1 evo1 cmpc1 boolc1 cmpr1 cmpl1 cal1 ex1 exb1 forl1 idxw1 veq1 dimf1 s mu C e) (eval_opt_body ev2 evs2 evo2 cmpc2 boolc2 cmpr2 cmpl2 cal2 ex2 exb2 forl2 idxw2 veq2 dimf2 s mu C e).
Proof. intros. unfold eval_opt_body. mono. Qed.

Lemma cmp_chain_body_mono : forall (s : env) (mu : store) (C : ctx) (v : value) (ops : list cmpop) (args : list expr),
  le_res (cmp_chain_body N ev1 evs1 evo1 cmpc1 boolc1 cmpr1 cmpl1 cal1 ex1 exb1 forl1 idxw1 veq1 dimf1 s mu C v ops args) (cmp_chain_body N ev2 evs2 evo2 cmpc2 boolc2 cmpr2 cmpl2 cal2 ex2 exb2 forl2 idxw2 veq2 dimf2 s mu C v ops args).
Proof. intros. unfold cmp_chain_body. mono. Qed.

Lemma bool_chain_body_mono : forall (s : env) (mu : store) (C : ctx) (unit : bool) (args : list expr),
  le_res (bool_chain_body ev1 evs1 evo1 cmpc1 boolc1 cmpr1 cmpl1 cal1 ex1 exb1 forl1 idxw1 veq1 dimf1 s mu C unit args) (bool_chain_body ev2 evs2 evo2 cmpc2 boolc2 cmpr2 cmpl2 cal2 ex2 exb2 forl2 idxw2 veq2 dimf2 s mu C unit args).
Proof. intros. unfold bool_chain_body. mono. Qed.

Lemma comp_body_mono : forall (s : env) (mu : store) (C : ctx) (gens : list (pat * expr)) (elt : expr),
  le_res (comp_body ev1 evs1 evo1 cmpc1 boolc1 cmpr1 cmpl1 cal1 ex1 exb1 forl1 idxw1 veq1 dimf1 s mu C gens elt) (comp_body ev2 evs2 evo2 cmpc2 boolc2 cmpr2 cmpl2 cal2 ex2 exb2 forl2 idxw2 veq2 dimf2 s mu C gens elt).
Proof. intros. unfold comp_body. mono. Qed.

Lemma comp_loop_body_mono : forall (s : env) (mu : store) (C : ctx) (p : pat) (l : loc) (i : nat) (gs : list (pat * expr)) (elt : expr),
  le_res (comp_loop_body ev1 evs1 evo1 cmpc1 boolc1 cmpr1 cmpl1 cal1 ex1 exb1 forl1 idxw1 veq1 dimf1 s mu C p l i gs elt) (comp_loop_body ev2 evs2 evo2 cmpc2 boolc2 cmpr2 cmpl2 cal2 ex2 exb2 forl2 idxw2 veq2 dimf2 s mu C p l i gs elt).
Proof. intros. unfold comp_loop_body. mono. Qed.

Lemma call_body_mono : forall (fn : func) (vs : list value) (mu : store) (C : ctx),
  le_res (call_body ev1 evs1 evo1 cmpc1 boolc1 cmpr1 cmpl1 cal1 ex1 exb1 forl1 idxw1 veq1 dimf1 fn vs mu C) (call_body ev2 evs2 evo2 cmpc2 boolc2 cmpr2 cmpl2 cal2 ex2 exb2 forl2 idxw2 veq2 dimf2 fn vs mu C).
Proof. intros. unfold call_body. mono. Qed.

Lemma exec_body_mono : forall (s : env) (mu : store) (C : ctx) (st : stmt),
  le_res (exec_body ev1 evs1 evo1 cmpc1 boolc1 cmpr1 cmpl1 cal1 ex1 exb1 forl1 idxw1 veq1 dimf1 s mu C st) (exec_body ev2 evs2 evo2 cmpc2 boolc2 cmpr2 cmpl2 cal2 ex2 exb2 forl2 idxw2 veq2 dimf2 s mu C st).
Proof. intros. unfold exec_body. mono. Qed.

Lemma exec_block_body_mono : forall (s : env) (mu : store) (C : ctx) (b : block),
  le_res (exec_block_body ev1 evs1 evo1 cmpc1 boolc1 cmpr1 cmpl1 cal1 ex1 exb1 forl1 idxw1 veq1 dimf1 s mu C b) (exec_block_body ev2 evs2 evo2 cmpc2 boolc2 cmpr2 cmpl2 cal2 ex2 exb2 forl2 idxw2 veq2 dimf2 s mu C b).
Proof. intros. unfold exec_block_body. mono. Qed.

Lemma for_loop_body_mono : forall (s : env) (mu : store) (C : ctx) (p : pat) (l : loc) (i : nat) (body : block),
  le_res (for_loop_body ev1 evs1 evo1 cmpc1 boolc1 cmpr1 cmpl1 cal1 ex1 exb1 forl1 idxw1 veq1 dimf1 s mu C p l i body) (for_loop_body ev2 evs2 evo2 cmpc2 boolc2 cmpr2 cmpl2 cal2 ex2 exb2 forl2 idxw2 veq2 dimf2 s mu C p l i body).
Proof. intros. unfold for_loop_body. mono. Qed.

Lemma index_walk_body_mono : forall (s : env) (mu : store) (C : ctx) (cur : value) (idx : list expr) (v : value),
  le_res (index_walk_body ev1 evs1 evo1 cmpc1 boolc1 cmpr1 cmpl1 cal1 ex1 exb1 forl1 idxw1 veq1 dimf1 s mu C cur idx v) (index_walk_body ev2 evs2 evo2 cmpc2 boolc2 cmpr2 cmpl2 cal2 ex2 exb2 forl2 idxw2 veq2 dimf2 s mu C cur idx v).
Proof. intros. unfold index_walk_body. mono. Qed.

End BodiesMono.


(* ---------------------------------------------------------------- value_eq, dim_of *)
Lemma eq_lists_mono : forall (v1 v2 : value -> value -> res bool),
  (forall a b, le_res (v1 a b) (v2 a b)) -> forall l m, le_res (eq_lists v1 l m) (eq_lists v2 l m).
Proof.
  intros v1 v2 H. induction l as [|x l IH]; intros [|y m]; cbn [eq_lists]; try apply le_res_refl.
  apply le_res_bind; [apply H|]. intros [] _; [apply IH | apply le_res_refl].
Qed.

Lemma value_eq_mono : forall n m mu a b, (n <= m)%nat -> le_res (value_eq N n mu a b) (value_eq N m mu a b).
Proof.
  induction n as [|n IH]; intros m mu a b Hle.
  - intro H. exfalso. apply H. reflexivity.
  - destruct m as [|m]; [lia|]. cbn [value_eq]. unfold value_eq_body.
    assert (Hl : forall l l', le_res (eq_lists (value_eq N n mu) l l') (eq_lists (value_eq N m mu) l l')).
    { apply eq_lists_mono. intros. apply IH. lia. }
    destruct a, b; try apply le_res_refl.
    + destruct (Nat.eqb _ _); [apply Hl | apply le_res_refl].
    + destruct (store_get mu l), (store_get mu l0); try apply le_res_refl.
      destruct (Nat.eqb _ _); [apply Hl | apply le_res_refl].
Qed.

Lemma dim_of_mono : forall n m mu v, (n <= m)%nat -> le_res (dim_of n mu v) (dim_of m mu v).
Proof.
  induction n as [|n IH]; intros m mu v Hle.
  - intro H. exfalso. apply H. reflexivity.
  - destruct m as [|m]; [lia|]. cbn [dim_of]. unfold dim_of_body.
    destruct v; try apply le_res_refl.
    destruct (store_get mu l) as [[|x r]|]; try apply le_res_refl.
    apply le_res_bind; [apply IH; lia | intros; apply le_res_refl].
Qed.

(* ---------------------------------------------------------------- the evaluator *)
Definition mono_at (n m : nat) : Prop :=
  (forall s mu C e, le_res (eval N P n s mu C e) (eval N P m s mu C e)) /\
  (forall s mu C es, le_res (evals N P n s mu C es) (evals N P m s mu C es)) /\
  (forall s mu C e, le_res (eval_opt N P n s mu C e) (eval_opt N P m s mu C e)) /\
  (forall s mu C v ops args, le_res (cmp_chain N P n s mu C v ops args) (cmp_chain N P m s mu C v ops args)) /\
  (forall s mu C u args, le_res (bool_chain N P n s mu C u args) (bool_chain N P m s mu C u args)) /\
  (forall s mu C gens elt, le_res (comp N P n s mu C gens elt) (comp N P m s mu C gens elt)) /\
  (forall s mu C p l i gs elt, le_res (comp_loop N P n s mu C p l i gs elt) (comp_loop N P m s mu C p l i gs elt)) /\
  (forall fn vs mu C, le_res (call N P n fn vs mu C) (call N P m fn vs mu C)) /\
  (forall s mu C st, le_res (exec N P n s mu C st) (exec N P m s mu C st)) /\
  (forall s mu C b, le_res (exec_block N P n s mu C b) (exec_block N P m s mu C b)) /\
  (forall s mu C p l i body, le_res (for_loop N P n s mu C p l i body) (for_loop N P m s mu C p l i body)) /\
  (forall s mu C cur idx v, le_res (index_walk N P n s mu C cur idx v) (index_walk N P m s mu C cur idx v)).

Lemma mono_all : forall n m, (n <= m)%nat -> mono_at n m.
Proof.
  induction n as [|n IH]; intros m Hle.
  - unfold mono_at. repeat split; intros; intro H; exfalso; apply H; reflexivity.
  - destruct m as [|m]; [lia|].
    destruct (IH m ltac:(lia)) as (H1 & H2 & H3 & H4 & H5 & H6 & H7 & H8 & H9 & H10 & H11 & H12).
    assert (Hv : forall mu a b, le_res (value_eq N n mu a b) (value_eq N m mu a b)) by (intros; apply value_eq_mono; lia).
    assert (Hd : forall mu v, le_res (dim_of n mu v) (dim_of m mu v)) by (intros; apply dim_of_mono; lia).
    unfold mono_at. repeat split; intros.
    + rewrite !eval_S. apply eval_body_mono; assumption.
    + rewrite !evals_S. apply evals_body_mono; assumption.
    + rewrite !eval_opt_S. apply eval_opt_body_mono; assumption.
    + rewrite !cmp_chain_S. apply cmp_chain_body_mono; assumption.
    + rewrite !bool_chain_S. apply bool_chain_body_mono; assumption.
    + rewrite !comp_S. apply comp_body_mono; assumption.
    + rewrite !comp_loop_S. apply comp_loop_body_mono; assumption.
    + rewrite !call_S. apply call_body_mono; assumption.
    + rewrite !exec_S. apply exec_body_mono; assumption.
    + rewrite !exec_block_S. apply exec_block_body_mono; assumption.
    + rewrite !for_loop_S. apply for_loop_body_mono; assumption.
    + rewrite !index_walk_S. apply index_walk_body_mono; assumption.
Qed.

(* the per-judgement statements *)

Lemma eval_mono : forall n m s mu C e r,
  eval N P n s mu C e = r -> r <> RFuel -> (n <= m)%nat -> eval N P m s mu C e = r.
Proof. intros n m s mu C e r H Hne Hle. subst r. destruct (mono_all n m Hle) as (K & _). apply K, Hne. Qed.

Lemma evals_mono : forall n m s mu C es r,
  evals N P n s mu C es = r -> r <> RFuel -> (n <= m)%nat -> evals N P m s mu C es = r.
Proof. intros n m s mu C es r H Hne Hle. subst r. destruct (mono_all n m Hle) as (_ & K & _). apply K, Hne. Qed.

Lemma eval_opt_mono : forall n m s mu C e r,
  eval_opt N P n s mu C e = r -> r <> RFuel -> (n <= m)%nat -> eval_opt N P m s mu C e = r.
Proof. intros n m s mu C e r H Hne Hle. subst r. destruct (mono_all n m Hle) as (_ & _ & K & _). apply K, Hne. Qed.

Lemma cmp_chain_mono : forall n m s mu C v ops args r,
  cmp_chain N P n s mu C v ops args = r -> r <> RFuel -> (n <= m)%nat -> cmp_chain N P m s mu C v ops args = r.
Proof. intros n m s mu C v ops args r H Hne Hle. subst r. destruct (mono_all n m Hle) as (_ & _ & _ & K & _). apply K, Hne. Qed.

Lemma bool_chain_mono : forall n m s mu C u args r,
  bool_chain N P n s mu C u args = r -> r <> RFuel -> (n <= m)%nat -> bool_chain N P m s mu C u args = r.
Proof. intros n m s mu C u args r H Hne Hle. subst r. destruct (mono_all n m Hle) as (_ & _ & _ & _ & K & _). apply K, Hne. Qed.

Lemma comp_mono : forall n m s mu C gens elt r,
  comp N P n s mu C gens elt = r -> r <> RFuel -> (n <= m)%nat -> comp N P m s mu C gens elt = r.
Proof. intros n m s mu C gens elt r H Hne Hle. subst r. destruct (mono_all n m Hle) as (_ & _ & _ & _ & _ & K & _). apply K, Hne. Qed.

Lemma comp_loop_mono : forall n m s mu C p l i gs elt r,
  comp_loop N P n s mu C p l i gs elt = r -> r <> RFuel -> (n <= m)%nat -> comp_loop N P m s mu C p l i gs elt = r.
Proof. intros n m s mu C p l i gs elt r H Hne Hle. subst r. destruct (mono_all n m Hle) as (_ & _ & _ & _ & _ & _ & K & _). apply K, Hne. Qed.

Lemma call_mono : forall n m fn vs mu C r,
  call N P n fn vs mu C = r -> r <> RFuel -> (n <= m)%nat -> call N P m fn vs mu C = r.
Proof. intros n m fn vs mu C r H Hne Hle. subst r. destruct (mono_all n m Hle) as (_ & _ & _ & _ & _ & _ & _ & K & _). apply K, Hne. Qed.

Lemma exec_mono : forall n m s mu C st r,
  exec N P n s mu C st = r -> r <> RFuel -> (n <= m)%nat -> exec N P m s mu C st = r.
Proof. intros n m s mu C st r H Hne Hle. subst r. destruct (mono_all n m Hle) as (_ & _ & _ & _ & _ & _ & _ & _ & K & _). apply K, Hne. Qed.

Lemma exec_block_mono : forall n m s mu C b r,
  exec_block N P n s mu C b = r -> r <> RFuel -> (n <= m)%nat -> exec_block N P m s mu C b = r.
Proof. intros n m s mu C b r H Hne Hle. subst r. destruct (mono_all n m Hle) as (_ & _ & _ & _ & _ & _ & _ & _ & _ & K & _). apply K, Hne. Qed.

Lemma for_loop_mono : forall n m s mu C p l i body r,
  for_loop N P n s mu C p l i body = r -> r <> RFuel -> (n <= m)%nat -> for_loop N P m s mu C p l i body = r.
Proof. intros n m s mu C p l i body r H Hne Hle. subst r. destruct (mono_all n m Hle) as (_ & _ & _ & _ & _ & _ & _ & _ & _ & _ & K & _). apply K, Hne. Qed.

Lemma index_walk_mono : forall n m s mu C cur idx v r,
  index_walk N P n s mu C cur idx v = r -> r <> RFuel -> (n <= m)%nat -> index_walk N P m s mu C cur idx v = r.
Proof. intros n m s mu C cur idx v r H Hne Hle. subst r. destruct (mono_all n m Hle) as (_ & _ & _ & _ & _ & _ & _ & _ & _ & _ & _ & K). apply K, Hne. Qed.

(* corollaries for successful runs *)
Lemma eval_mono_ok : forall n m s mu C e r,
  eval N P n s mu C e = ROk r -> (n <= m)%nat -> eval N P m s mu C e = ROk r.
Proof. intros. eapply eval_mono; eauto. discriminate. Qed.

Lemma exec_mono_ok : forall n m s mu C st r,
  exec N P n s mu C st = ROk r -> (n <= m)%nat -> exec N P m s mu C st = ROk r.
Proof. intros. eapply exec_mono; eauto. discriminate. Qed.

Lemma exec_block_mono_ok : forall n m s mu C b r,
  exec_block N P n s mu C b = ROk r -> (n <= m)%nat -> exec_block N P m s mu C b = ROk r.
Proof. intros. eapply exec_block_mono; eauto. discriminate. Qed.

Lemma call_mono_ok : forall n m fn vs mu C r,
  call N P n fn vs mu C = ROk r -> (n <= m)%nat -> call N P m fn vs mu C = ROk r.
Proof. intros. eapply call_mono; eauto. discriminate. Qed.

Lemma evals_mono_ok : forall n m s mu C es r,
  evals N P n s mu C es = ROk r -> (n <= m)%nat -> evals N P m s mu C es = ROk r.
Proof. intros. eapply evals_mono; eauto. discriminate. Qed.

Lemma for_loop_mono_ok : forall n m s mu C p l i body r,
  for_loop N P n s mu C p l i body = ROk r -> (n <= m)%nat -> for_loop N P m s mu C p l i body = ROk r.
Proof. intros. eapply for_loop_mono; eauto. discriminate. Qed.

(* ---------------------------------------------------------------- extract, run *)
Lemma extract_mono : forall n m mu v c, extract n mu v = Some c -> (n <= m)%nat -> extract m mu v = Some c.
Proof.
  induction n as [|n IH]; intros m mu v c H Hle; [discriminate|].
  destruct m as [|m]; [lia|].
  assert (Hl : forall l cs,
    (fix go (l : list value) : option (list cval) :=
       match l with
       | [] => Some []
       | x :: r => match extract n mu x, go r with Some c, Some cs => Some (c :: cs) | _, _ => None end
       end) l = Some cs ->
    (fix go (l : list value) : option (list cval) :=
       match l with
       | [] => Some []
       | x :: r => match extract m mu x, go r with Some c, Some cs => Some (c :: cs) | _, _ => None end
       end) l = Some cs).
  { induction l as [|x l IHl]; intros cs Hc; [exact Hc|].
    destruct (extract n mu x) as [c0|] eqn:E; [|discriminate].
    rewrite (IH m mu x c0 E ltac:(lia)).
    match type of Hc with context [match ?g l with _ => _ end] => destruct (g l) as [cs0|] eqn:E2 end; [|discriminate].
    rewrite (IHl cs0 eq_refl). exact Hc. }
  cbn [extract] in *.
  destruct v; try exact H.
  - match type of H with context [match ?g vs with _ => _ end] => destruct (g vs) as [cs|] eqn:E end; [|discriminate].
    rewrite (Hl vs cs E). exact H.
  - destruct (store_get mu l) as [vs|]; [|discriminate].
    match type of H with context [match ?g vs with _ => _ end] => destruct (g vs) as [cs|] eqn:E end; [|discriminate].
    rewrite (Hl vs cs E). exact H.
Qed.

Lemma run_mono : forall n m f args caller c,
  run N P n f args caller = ROk c -> (n <= m)%nat -> run N P m f args caller = ROk c.
Proof.
  unfold run. intros n m f args caller c H Hle.
  destruct (lookup_fn P f) as [fn|]; [|discriminate].
  destruct (inject_all args []) as [vs mu].
  destruct (call N P n fn vs mu _) as [[v mu1]|e|] eqn:E; cbn [rbind] in H; try discriminate.
  rewrite (call_mono_ok _ m _ _ _ _ _ E Hle). cbn [rbind].
  destruct (extract n mu1 v) as [c0|] eqn:E2; [|discriminate].
  rewrite (extract_mono _ m _ _ _ E2 Hle). exact H.
Qed.

End Mono.
