(* A PROVISIONAL executable instance of `numops` (Sem.v), used by the
   correspondence runs until Num/Ctx.v + Num/Arith.v provide the real one.
   Definitions only.

   Supported contexts: REAL, MPFloatContext(p, rm), MPSFloatContext(p, emin, rm),
   IEEEContext(es, nbits, rm, OVERFLOW|SATURATE) — deterministic rounding
   (num_randbits = 0), default special-value options.  Anything else is
   `Err OtherErr` ("not modelled here").
   Supported operations: + - * / fma neg fabs copysign round cast
   floor ceil trunc roundint, computed EXACTLY on `num` (dyadic or rational)
   and then rounded once with `rf_round` of Num/RealFloat.v. *)
From Coq Require Import ZArith List Bool String.
From FpyV Require Import Num.RealFloat Num.Float Num.CtxDef Lang.Syntax Lang.Values Lang.Sem.
Import ListNotations.
Open Scope Z_scope.

(* ---------------------------------------------------------------- exact arithmetic on num *)
(* the value of a finite dyadic as a fraction (n, d), d a power of two *)
Definition frac_of_rf (x : rf) : Z * Z :=
  if rexp x >=? 0 then (rf_m x * 2 ^ rexp x, 1) else (rf_m x, 2 ^ (- rexp x)).

Definition num_neg (x : num) : num :=
  match x with NF f => NF (fl_neg f) | NQ n d => NQ (- n) d end.

Definition num_abs (x : num) : num :=
  match x with NF f => NF (fl_abs f) | NQ n d => NQ (Z.abs n) d end.

Definition num_is_zero (x : num) : bool :=
  match x with NF f => fl_is_zero f | NQ _ _ => false end.

(* finite value as a fraction; None for inf/nan *)
Definition num_frac (x : num) : option (Z * Z) :=
  match x with
  | NF (FFin r) => Some (frac_of_rf r)
  | NF _ => None
  | NQ n d => Some (n, d)
  end.

(* RealEngine.add *)
Definition num_add (x y : num) : num :=
  match x, y with
  | NF a, NF b => NF (fl_add a b)
  | _, _ =>
      if num_isnan x || num_isnan y then NF (FNaN false)
      else if num_isinf x then NF (FInf (num_sign x))      (* the other one is a finite rational *)
      else if num_isinf y then NF (FInf (num_sign y))
      else match num_frac x, num_frac y with
           | Some (n1, d1), Some (n2, d2) => num_of_frac (n1 * d2 + n2 * d1) (d1 * d2)
           | _, _ => NF (FNaN false)
           end
  end.

Definition num_sub (x y : num) : num := num_add x (num_neg y).

(* RealEngine.mul *)
Definition num_mul (x y : num) : num :=
  match x, y with
  | NF a, NF b => NF (fl_mul a b)
  | _, _ =>
      if num_isnan x || num_isnan y then NF (FNaN false)
      else if num_isinf x || num_isinf y then NF (FInf (xorb (num_sign x) (num_sign y)))   (* the other one is a non-zero rational *)
      else match num_frac x, num_frac y with
           | Some (n1, d1), Some (n2, d2) => num_of_frac (n1 * n2) (d1 * d2)
           | _, _ => NF (FNaN false)
           end
  end.

(* RealEngine.div *)
Definition num_div (x y : num) : num :=
  if num_isnan x || num_isnan y then NF (FNaN false)
  else
    let s := xorb (num_sign x) (num_sign y) in
    if num_isinf x then (if num_isinf y then NF (FNaN false) else NF (FInf s))
    else if num_isinf y then NF (FFin (RF s 0 0))
    else if num_is_zero y then (if num_is_zero x then NF (FNaN false) else NF (FInf s))
    else if num_is_zero x then NF (FFin (RF s 0 0))
    else match num_frac x, num_frac y with
         | Some (n1, d1), Some (n2, d2) => num_of_frac (n1 * d2) (d1 * n2)
         | _, _ => NF (FNaN false)
         end.

(* RealEngine.copysign *)
Definition num_copysign (x y : num) : num :=
  let s := num_sign y in
  match x with
  | NF f => NF (fl_with_sign s f)
  | NQ n d => NQ (if s then - Z.abs n else Z.abs n) d
  end.

(* ---------------------------------------------------------------- rounding *)
(* A dyadic stand-in for the non-dyadic n/d that rounds like it at every
   position >= -k: floor(|n| 2^k / d) with a sticky bit below (round-to-odd). *)
Definition sticky_approx (n d k : Z) : rf :=
  let q := (Z.abs n * 2 ^ k) / d in
  RF (n <? 0) (- k - 1) (2 * q + 1).

(* round a finite non-zero-or-zero num with the RealFloat rounding parameters *)
Definition round_finite (x : num) (p : option Z) (nmin : option Z) (rm : rmode) : result rf :=
  match x with
  | NF (FFin r) =>
      if is_zero r then Ok (RF (rs r) 0 0)
      else bind (rf_round r p nmin rm false) (fun y => Ok (fst y))
  | NQ n d =>
      let k := 3 + (match p with Some p => Z.max p 0 | None => 0 end)
                 + (match nmin with Some m => Z.max (- m) 0 | None => 0 end)
                 + bitlen d in
      bind (rf_round (sticky_approx n d k) p nmin rm false) (fun y => Ok (fst y))
  | _ => Err OtherErr
  end.

(* MPBFloatContext._overflow_to_infinity *)
Definition overflow_to_inf (rm : rmode) (s : bool) : bool :=
  match snd (to_direction rm s) with DTZ => false | _ => true end.

Definition is_default_sp (sp : special) : bool :=
  sp_enable_nan sp && sp_enable_inf sp &&
  match sp_nan_value sp, sp_inf_value sp with None, None => true | _, _ => false end.

Definition is_det (k : option Z) : bool := match k with Some 0 => true | _ => false end.

(* Context.round *)
Definition ctx_round_prov (c : ctx) (x : num) : result num :=
  match c with
  | CReal => Ok x
  | _ =>
    match x with
    | NF (FNaN _) => Ok (NF (FNaN false))
    | NF (FInf s) => Ok (NF (FInf s))
    | _ =>
      match c with
      | CMPFloat p rm k sp =>
          if is_det k && is_default_sp sp then
            bind (round_finite x (Some p) None rm) (fun r => Ok (NF (FFin r)))
          else Err OtherErr
      | CMPSFloat p emin rm k sp =>
          if is_det k && is_default_sp sp then
            bind (round_finite x (Some p) (Some (emin - p)) rm) (fun r => Ok (NF (FFin r)))
          else Err OtherErr
      | CEFloat es nbits true NK_IEEE 0 rm ov (Some 0) None None =>
          let p := nbits - es in
          let emax := bitmask (es - 1) in
          let emin := 1 - emax in
          bind (round_finite x (Some p) (Some (emin - p)) rm) (fun r =>
            let maxval := RF false (emax - p + 1) (bitmask p) in
            match rf_compare (rf_abs r) maxval with
            | Gt =>
                match ov with
                | OV_OVERFLOW =>
                    if overflow_to_inf rm (rs r) then Ok (NF (FInf (rs r)))
                    else Ok (NF (FFin (RF (rs r) (rexp maxval) (rc maxval))))
                | OV_SATURATE => Ok (NF (FFin (RF (rs r) (rexp maxval) (rc maxval))))
                | OV_ASSERT => Err OverflowErr
                | OV_WRAP => Err OtherErr
                end
            | _ => Ok (NF (FFin r))
            end)
      | _ => Err OtherErr
      end
    end
  end.

(* round to an integer in direction rm (RealEngine._real_rint) *)
Definition num_rint (rm : rmode) (x : num) : result num :=
  match x with
  | NF (FFin _) | NQ _ _ => bind (round_finite x None (Some (-1)) rm) (fun r => Ok (NF (FFin r)))
  | _ => Ok x
  end.

(* round(exact = True): ValueError unless the rounding is exact *)
Definition ctx_round_exact_prov (c : ctx) (x : num) : result num :=
  bind (ctx_round_prov c x) (fun r =>
    if num_isnan x then Ok r
    else match num_compare r x with Some Eq => Ok r | _ => Err ValueErr end).

(* ---------------------------------------------------------------- the operations *)
Definition unop_prov (o : op) (c : ctx) (x : num) : result num :=
  match o with
  | ONeg => ctx_round_prov c (num_neg x)
  | OFabs => ctx_round_prov c (num_abs x)
  | ORound => ctx_round_prov c x
  | OCast => match c with CReal => Ok x | _ => ctx_round_exact_prov c x end
  | OFloor => bind (num_rint RTN x) (ctx_round_prov c)
  | OCeil => bind (num_rint RTP x) (ctx_round_prov c)
  | OTrunc => bind (num_rint RTZ x) (ctx_round_prov c)
  | ORoundInt => bind (num_rint RNA x) (ctx_round_prov c)
  | _ => Err OtherErr
  end.

Definition binop_prov (o : op) (c : ctx) (x y : num) : result num :=
  match o with
  | OAdd => ctx_round_prov c (num_add x y)
  | OSub => ctx_round_prov c (num_sub x y)
  | OMul => ctx_round_prov c (num_mul x y)
  | ODiv => ctx_round_prov c (num_div x y)
  | OCopysign => ctx_round_prov c (num_copysign x y)
  | _ => Err OtherErr
  end.

Definition ternop_prov (o : op) (c : ctx) (x y z : num) : result num :=
  match o with
  | OFma => ctx_round_prov c (num_add (num_mul x y) z)
  | _ => Err OtherErr
  end.

Definition nullop_prov (o : op) (c : ctx) : result num :=
  match o with
  | ONan => Ok (NF (FNaN false))
  | OInf => Ok (NF (FInf false))
  | _ => Err OtherErr
  end.

Definition pred_prov (p : pred) (x : num) : bool :=
  match p with
  | PIsNan => num_isnan x
  | PIsInf => num_isinf x
  | PIsFinite => negb (num_isnan x || num_isinf x)
  | PSignbit => num_sign x
  | PIsNormal => false       (* not modelled (depends on the value's own context) *)
  end.

(* ---------------------------------------------------------------- context constructors *)
(* byte._cvt_context_arg for an `int` parameter *)
Definition ctor_int (x : num) : result Z :=
  match x with
  | NQ _ _ => Err TypeErr
  | NF f => match fl_to_int f with Ok z => Ok z | Err _ => Err ValueErr end
  end.

Definition ctor_prov (k : ctor) (args : list num) : result ctx :=
  match k, args with
  | KMPFloat rm, [p] =>
      bind (ctor_int p) (fun p =>
        if p <? 1 then Err TypeErr else Ok (CMPFloat p rm (Some 0) sp_default))
  | KMPSFloat rm, [p; emin] =>
      bind (ctor_int p) (fun p => bind (ctor_int emin) (fun emin =>
        if p <? 1 then Err TypeErr else Ok (CMPSFloat p emin rm (Some 0) sp_default)))
  | KIEEE rm ov, [es; nbits] =>
      bind (ctor_int es) (fun es => bind (ctor_int nbits) (fun nbits =>
        if (nbits <? 1) || (es <? 1) || (es >=? nbits) || (nbits - es =? 1) then Err ValueErr
        else Ok (CIEEE es nbits rm ov)))
  | KMPFloat _, _ | KMPSFloat _, _ | KIEEE _ _, _ => Err TypeErr
  | _, _ => Err OtherErr
  end.

Definition prov_numops : numops :=
  NumOps ctx_round_prov nullop_prov unop_prov binop_prov ternop_prov pred_prov num_compare ctor_prov.
