(* FPyLang: abstract syntax of the evaluable core of fpy2/ast/fpyast.py.
   Definitions only.  Each constructor names the fpyast class it mirrors.
   Identifiers are strings (the Python-level names; gensym'd names are
   canonicalised by the exporter, harness/lang.py). *)
From Coq Require Import ZArith List Bool String.
From FpyV Require Import Num.RealFloat Num.Float Num.CtxDef.
Import ListNotations.
Open Scope Z_scope.

Definition ident := string.

(* ---------------------------------------------------------------- operators *)
(* Rounded operators (E-Op of derived-semantics.rst): the exact meaning of a
   tag is given by the `numops` record the evaluator is run with (Sem.v).
   Arity is fixed by the expression constructor that carries the tag. *)
Inductive op :=
  (* nullary *)
  | ONan | OInf | OConst (name : string)       (* ConstNan, ConstInf, ConstPi ... *)
  (* unary *)
  | ONeg | OFabs | OSqrt | OCbrt
  | OFloor | OCeil | OTrunc | ORoundInt | ONearbyInt
  | ORound | OCast                             (* Round, Cast (round_exact) *)
  | OLogb
  | OElem (name : string)                      (* elementary functions: "sin", "exp", ... (C03's domain) *)
  (* binary *)
  | OAdd | OSub | OMul | ODiv
  | OMod | OFmod | ORemainder
  | OCopysign | OFdim | OPow | OHypot | OAtan2
  | ORoundAt
  (* ternary *)
  | OFma.

(* exact predicates on one number (E-Pred) *)
Inductive pred := PIsNan | PIsInf | PIsFinite | PIsNormal | PSignbit.

(* utils.CompareOp *)
Inductive cmpop := CLt | CLe | CGe | CGt | CEq | CNe.

(* Context constructors that may appear as `Call`s in a program.  The
   non-numeric arguments (rounding mode, overflow mode) are part of the tag,
   the numeric ones are expressions (evaluated under the active context —
   which is REAL inside a `with` header, see Sem.v E-Context). *)
Inductive ctor :=
  | KMPFloat (rm : rmode)                       (* MPFloatContext(pmax, rm) *)
  | KMPSFloat (rm : rmode)                      (* MPSFloatContext(pmax, emin, rm) *)
  | KMPBFloat (rm : rmode) (ov : ovmode)        (* MPBFloatContext(pmax, emin, maxval, rm, overflow) *)
  | KIEEE (rm : rmode) (ov : ovmode)            (* IEEEContext(es, nbits, rm, overflow) *)
  | KMPFixed (rm : rmode)                       (* MPFixedContext(nmin, rm) *)
  | KFixed (signed : bool) (rm : rmode) (ov : ovmode)   (* FixedContext(signed, scale, nbits, rm, overflow) *)
  | KSMFixed (rm : rmode) (ov : ovmode)         (* SMFixedContext(scale, nbits, rm, overflow) *)
  | KExp (rm : rmode) (ov : ovmode).            (* ExpContext(nbits, eoffset, rm, overflow) *)

(* ---------------------------------------------------------------- patterns *)
(* Id | TupleBinding: SourceId/NamedId, UnderscoreId, TupleBinding *)
Inductive pat :=
  | PVar (x : ident)
  | PWild
  | PTuple (ps : list pat).

(* ---------------------------------------------------------------- expressions *)
Inductive expr :=
  | EVar (x : ident)                            (* Var *)
  | ENum (v : fl)                               (* Integer/Decnum/Hexnum/Rational/Digits with a dyadic value, or -0 *)
  | ERat (n d : Z)                              (* the same literal classes, non-dyadic value n/d (d > 0) *)
  | EBool (b : bool)                            (* BoolVal *)
  | ECtxVal (c : ctx)                           (* a context constant: ForeignVal / free variable / Attribute that is a Context *)
  | EOp0 (o : op)                               (* NullaryOp *)
  | EOp1 (o : op) (a : expr)                    (* UnaryOp (rounded) *)
  | EOp2 (o : op) (a b : expr)                  (* BinaryOp (rounded) *)
  | EOp3 (o : op) (a b c : expr)                (* TernaryOp (rounded) *)
  | EPred (p : pred) (a : expr)                 (* IsNan IsInf IsFinite IsNormal Signbit *)
  | ECompare (ops : list cmpop) (args : list expr)   (* Compare: |args| = |ops| + 1 *)
  | EAnd (args : list expr)                     (* And *)
  | EOr (args : list expr)                      (* Or *)
  | ENot (a : expr)                             (* Not *)
  | EIf (c a b : expr)                          (* IfExpr: a if c else b *)
  | ETuple (es : list expr)                     (* TupleExpr *)
  | EFst (a : expr) | ESnd (a : expr)           (* Fst, Snd *)
  | EList (es : list expr)                      (* ListExpr *)
  | ERef (a i : expr)                           (* ListRef *)
  | ESlice (a : expr) (lo hi : option expr)     (* ListSlice *)
  | EComp (gens : list (pat * expr)) (elt : expr)   (* ListComp *)
  | ELen (a : expr)                             (* Len *)
  | ERange1 (a : expr) | ERange2 (a b : expr) | ERange3 (a b c : expr)
  | EZip (es : list expr)                       (* Zip *)
  | EEnumerate (a : expr)                       (* Enumerate *)
  | EEmpty (dims : list expr)                   (* Empty *)
  | EDim (a : expr) | ESize (a d : expr)        (* Dim, Size *)
  | ESum (a : expr)                             (* Sum *)
  | EAMin (a : expr) | EAMax (a : expr)         (* AMin, AMax: reduce form *)
  | EMin (es : list expr) | EMax (es : list expr)   (* Min, Max: variadic, >= 2 args *)
  | EAny (a : expr) | EAll (a : expr)           (* AnyOf, AllOf *)
  | ECall (f : ident) (args : list expr)        (* Call of another FPy function of the program *)
  | ECtor (k : ctor) (args : list expr).        (* Call of a context constructor *)

(* ---------------------------------------------------------------- statements *)
Inductive stmt :=
  | SAssign (p : pat) (e : expr)                        (* Assign *)
  | SIndexAssign (x : ident) (idx : list expr) (e : expr)   (* IndexedAssign *)
  | SIf1 (c : expr) (body : list stmt)                  (* If1Stmt *)
  | SIf (c : expr) (ift iff : list stmt)                (* IfStmt *)
  | SWhile (c : expr) (body : list stmt)                (* WhileStmt *)
  | SFor (p : pat) (it : expr) (body : list stmt)       (* ForStmt *)
  | SContext (x : option ident) (e : expr) (body : list stmt)   (* ContextStmt: with e [as x]: body *)
  | SAssert (e : expr)                                  (* AssertStmt (message ignored) *)
  | SEffect (e : expr)                                  (* EffectStmt *)
  | SReturn (e : expr)                                  (* ReturnStmt *)
  | SPass.                                              (* PassStmt *)

Definition block := list stmt.

(* ---------------------------------------------------------------- functions, programs *)
(* FuncDef: parameter names, FuncMeta.ctx (the `ctx=` of the decorator), body *)
Record func := Func {
  f_params : list ident;
  f_ctx : option ctx;
  f_body : block }.

(* the top-level environment Φ *)
Definition program := list (ident * func).

Fixpoint lookup_fn (P : program) (f : ident) : option func :=
  match P with
  | [] => None
  | (g, fn) :: P' => if String.eqb f g then Some fn else lookup_fn P' f
  end.

Definition op_eqb (a b : op) : bool :=
  match a, b with
  | ONan, ONan | OInf, OInf | ONeg, ONeg | OFabs, OFabs | OSqrt, OSqrt | OCbrt, OCbrt
  | OFloor, OFloor | OCeil, OCeil | OTrunc, OTrunc | ORoundInt, ORoundInt | ONearbyInt, ONearbyInt
  | ORound, ORound | OCast, OCast | OLogb, OLogb | OAdd, OAdd | OSub, OSub | OMul, OMul | ODiv, ODiv
  | OMod, OMod | OFmod, OFmod | ORemainder, ORemainder | OCopysign, OCopysign | OFdim, OFdim
  | OPow, OPow | OHypot, OHypot | OAtan2, OAtan2 | ORoundAt, ORoundAt | OFma, OFma => true
  | OConst x, OConst y => String.eqb x y
  | OElem x, OElem y => String.eqb x y
  | _, _ => false
  end.
