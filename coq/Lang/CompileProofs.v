(* Proofs about the compile scheme (Compile.v) in the mini-Python IR (PyIR.v):
   - with_restores_ctx: after the compiled `with`, the local `__ctx__` holds its
     previous value for EVERY outcome of the body (normal, return, exception);
   - with_norestore_leaks: without the finally-restore it does not (non-vacuity);
   - compile_correct: the compiled statement, run with `__ctx__` as an ordinary
     mutable local, produces the outcome the documented semantics (Sem.v, context
     as a lexically scoped parameter) assigns to the source statement. *)
From Coq Require Import ZArith List Bool String Lia.
From FpyV Require Import Num.RealFloat Num.Float Num.CtxDef Lang.Syntax Lang.Values Lang.Sem
  Lang.SemMono Lang.PyIR Lang.Compile.
Import ListNotations.
Open Scope Z_scope.

(* ---------------------------------------------------------------- unfoldings *)
Lemma compile_stmt_if1 : forall k c body,
  compile_stmt k (SIf1 c body) = let '(pb, k1) := compile_block k body in (PIf (PE c) pb [], k1).
Proof. reflexivity. Qed.
Lemma compile_stmt_if : forall k c t f,
  compile_stmt k (SIf c t f) =
  let '(pt, k1) := compile_block k t in let '(pf, k2) := compile_block k1 f in (PIf (PE c) pt pf, k2).
Proof. reflexivity. Qed.
Lemma compile_stmt_while : forall k c body,
  compile_stmt k (SWhile c body) = let '(pb, k1) := compile_block k body in (PWhile (PE c) pb, k1).
Proof. reflexivity. Qed.
Lemma compile_stmt_for : forall k p it body,
  compile_stmt k (SFor p it body) = let '(pb, k1) := compile_block k body in (PFor p (PE it) pb, k1).
Proof. reflexivity. Qed.
Lemma compile_stmt_context : forall k x e body,
  compile_stmt k (SContext x e body) =
  let '(pb, k1) := compile_block k body in
  (PTry (stash_stmt k1 :: real_stmt :: set_stmt x e :: pb) [restore_stmt k1], S k1).
Proof. reflexivity. Qed.

Lemma tmps_in_if : forall lo hi c t f, tmps_in lo hi (PIf c t f) = tmps_in_block lo hi t && tmps_in_block lo hi f.
Proof. reflexivity. Qed.
Lemma tmps_in_while : forall lo hi c b, tmps_in lo hi (PWhile c b) = tmps_in_block lo hi b.
Proof. reflexivity. Qed.
Lemma tmps_in_for : forall lo hi p it b, tmps_in lo hi (PFor p it b) = tmps_in_block lo hi b.
Proof. reflexivity. Qed.
Lemma tmps_in_try : forall lo hi b fin, tmps_in lo hi (PTry b fin) = tmps_in_block lo hi b && tmps_in_block lo hi fin.
Proof. reflexivity. Qed.

(* ---------------------------------------------------------------- induction principle for statements *)
Section StmtInd.
Variable Q : stmt -> Prop.
Variable QB : list stmt -> Prop.
Hypothesis HAssign : forall p e, Q (SAssign p e).
Hypothesis HIndex : forall x idx e, Q (SIndexAssign x idx e).
Hypothesis HIf1 : forall c b, QB b -> Q (SIf1 c b).
Hypothesis HIf : forall c t f, QB t -> QB f -> Q (SIf c t f).
Hypothesis HWhile : forall c b, QB b -> Q (SWhile c b).
Hypothesis HFor : forall p it b, QB b -> Q (SFor p it b).
Hypothesis HContext : forall x e b, QB b -> Q (SContext x e b).
Hypothesis HAssert : forall e, Q (SAssert e).
Hypothesis HEffect : forall e, Q (SEffect e).
Hypothesis HReturn : forall e, Q (SReturn e).
Hypothesis HPass : Q SPass.
Hypothesis HNil : QB [].
Hypothesis HCons : forall x r, Q x -> QB r -> QB (x :: r).

Fixpoint stmt_ind2 (st : stmt) : Q st :=
  let blk := fix blk (b : list stmt) : QB b :=
    match b with [] => HNil | x :: r => HCons x r (stmt_ind2 x) (blk r) end in
  match st with
  | SAssign p e => HAssign p e
  | SIndexAssign x idx e => HIndex x idx e
  | SIf1 c b => HIf1 c b (blk b)
  | SIf c t f => HIf c t f (blk t) (blk f)
  | SWhile c b => HWhile c b (blk b)
  | SFor p it b => HFor p it b (blk b)
  | SContext x e b => HContext x e b (blk b)
  | SAssert e => HAssert e
  | SEffect e => HEffect e
  | SReturn e => HReturn e
  | SPass => HPass
  end.

Fixpoint block_ind2 (b : list stmt) : QB b :=
  match b with [] => HNil | x :: r => HCons x r (stmt_ind2 x) (block_ind2 r) end.
End StmtInd.

(* ---------------------------------------------------------------- which temporaries compiled code assigns *)
Lemma target_ok_weaken : forall lo hi lo' hi' t, (lo' <= lo)%nat -> (hi <= hi')%nat ->
  target_tmp_ok lo hi t = true -> target_tmp_ok lo' hi' t = true.
Proof.
  intros lo hi lo' hi' [p|[x| |j]] H1 H2 H; cbn in *; auto.
  apply andb_true_iff in H. destruct H as [A B]. apply Nat.leb_le in A. apply Nat.ltb_lt in B.
  apply andb_true_iff. split; [apply Nat.leb_le | apply Nat.ltb_lt]; lia.
Qed.

Section PStmtInd.
Variable Q : pstmt -> Prop.
Variable QB : list pstmt -> Prop.
Hypothesis H1 : forall ts e, Q (PAssign ts e).
Hypothesis H2 : forall x idx e, Q (PIndexAssign x idx e).
Hypothesis H3 : forall e, Q (PExpr e).
Hypothesis H4 : forall c t f, QB t -> QB f -> Q (PIf c t f).
Hypothesis H5 : forall c b, QB b -> Q (PWhile c b).
Hypothesis H6 : forall p it b, QB b -> Q (PFor p it b).
Hypothesis H7 : forall b fin, QB b -> QB fin -> Q (PTry b fin).
Hypothesis H8 : forall e, Q (PReturn e).
Hypothesis H9 : forall e, Q (PAssert e).
Hypothesis H10 : Q PPass.
Hypothesis HNil : QB [].
Hypothesis HCons : forall x r, Q x -> QB r -> QB (x :: r).

Fixpoint pstmt_ind2 (st : pstmt) : Q st :=
  let blk := fix blk (b : list pstmt) : QB b :=
    match b with [] => HNil | x :: r => HCons x r (pstmt_ind2 x) (blk r) end in
  match st with
  | PAssign ts e => H1 ts e
  | PIndexAssign x idx e => H2 x idx e
  | PExpr e => H3 e
  | PIf c t f => H4 c t f (blk t) (blk f)
  | PWhile c b => H5 c b (blk b)
  | PFor p it b => H6 p it b (blk b)
  | PTry b fin => H7 b fin (blk b) (blk fin)
  | PReturn e => H8 e
  | PAssert e => H9 e
  | PPass => H10
  end.

Fixpoint pblock_ind2 (b : list pstmt) : QB b :=
  match b with [] => HNil | x :: r => HCons x r (pstmt_ind2 x) (pblock_ind2 r) end.
End PStmtInd.

Lemma tmps_in_weaken_both : forall lo hi lo' hi', (lo' <= lo)%nat -> (hi <= hi')%nat ->
  (forall st, tmps_in lo hi st = true -> tmps_in lo' hi' st = true) /\
  (forall b, tmps_in_block lo hi b = true -> tmps_in_block lo' hi' b = true).
Proof.
  intros lo hi lo' hi' Hlo Hhi.
  assert (K : forall st, tmps_in lo hi st = true -> tmps_in lo' hi' st = true).
  { apply (pstmt_ind2 (fun st => tmps_in lo hi st = true -> tmps_in lo' hi' st = true)
                      (fun b => tmps_in_block lo hi b = true -> tmps_in_block lo' hi' b = true)).
    - intros ts e Ht. cbn in *. rewrite forallb_forall in *. intros t Hin. eapply target_ok_weaken; eauto.
    - auto.
    - auto.
    - intros c t f IHt IHf Ht. rewrite tmps_in_if in *. apply andb_true_iff in Ht. destruct Ht.
      apply andb_true_iff; split; auto.
    - intros c b IHb Ht. rewrite tmps_in_while in *. auto.
    - intros p it b IHb Ht. rewrite tmps_in_for in *. auto.
    - intros b fin IHb IHf Ht. rewrite tmps_in_try in *. apply andb_true_iff in Ht. destruct Ht.
      apply andb_true_iff; split; auto.
    - auto.
    - auto.
    - auto.
    - auto.
    - intros x r IHx IHr Ht. cbn in *. apply andb_true_iff in Ht. destruct Ht. apply andb_true_iff; split; auto. }
  split; [exact K|].
  induction b as [|x r IH]; cbn; intros; auto.
  apply andb_true_iff in H. destruct H. apply andb_true_iff; split; auto.
Qed.

Lemma compile_range_both :
  (forall st k ps k', compile_stmt k st = (ps, k') -> (k <= k')%nat /\ tmps_in k k' ps = true) /\
  (forall b k pb k', compile_block k b = (pb, k') -> (k <= k')%nat /\ tmps_in_block k k' pb = true).
Proof.
  assert (K : forall st k ps k', compile_stmt k st = (ps, k') -> (k <= k')%nat /\ tmps_in k k' ps = true).
  { apply (stmt_ind2
      (fun st => forall k ps k', compile_stmt k st = (ps, k') -> (k <= k')%nat /\ tmps_in k k' ps = true)
      (fun b => forall k pb k', compile_block k b = (pb, k') -> (k <= k')%nat /\ tmps_in_block k k' pb = true)).
    - intros p e k ps k' H. inversion H; subst. split; [lia | reflexivity].
    - intros x idx e k ps k' H. inversion H; subst. split; [lia | reflexivity].
    - intros c b IH k ps k' H. rewrite compile_stmt_if1 in H.
      destruct (compile_block k b) as [pb k1] eqn:E. inversion H; subst.
      destruct (IH _ _ _ E). split; auto. rewrite tmps_in_if. rewrite H1. reflexivity.
    - intros c t f IHt IHf k ps k' H. rewrite compile_stmt_if in H.
      destruct (compile_block k t) as [pt k1] eqn:E1. destruct (compile_block k1 f) as [pf k2] eqn:E2.
      inversion H; subst. destruct (IHt _ _ _ E1) as [A B]. destruct (IHf _ _ _ E2) as [A' B'].
      split; [lia|]. rewrite tmps_in_if.
      rewrite (proj2 (tmps_in_weaken_both k k1 k k' ltac:(lia) ltac:(lia)) _ B).
      rewrite (proj2 (tmps_in_weaken_both k1 k' k k' ltac:(lia) ltac:(lia)) _ B'). reflexivity.
    - intros c b IH k ps k' H. rewrite compile_stmt_while in H.
      destruct (compile_block k b) as [pb k1] eqn:E. inversion H; subst.
      destruct (IH _ _ _ E). split; auto.
    - intros p it b IH k ps k' H. rewrite compile_stmt_for in H.
      destruct (compile_block k b) as [pb k1] eqn:E. inversion H; subst.
      destruct (IH _ _ _ E). split; auto.
    - intros x e b IH k ps k' H. rewrite compile_stmt_context in H.
      destruct (compile_block k b) as [pb k1] eqn:E. inversion H; subst.
      destruct (IH _ _ _ E) as [A B]. split; [lia|]. rewrite tmps_in_try.
      assert (T : target_tmp_ok k (S k1) (TName (NTmp k1)) = true).
      { unfold target_tmp_ok. apply andb_true_iff. split; [apply Nat.leb_le | apply Nat.ltb_lt]; lia. }
      cbn [tmps_in_block]. cbn [tmps_in stash_stmt real_stmt set_stmt restore_stmt forallb]. rewrite T.
      rewrite (proj2 (tmps_in_weaken_both k k1 k (S k1) ltac:(lia) ltac:(lia)) _ B).
      cbn. rewrite forallb_app. cbn. destruct x; reflexivity.
    - intros e k ps k' H. inversion H; subst. split; [lia | reflexivity].
    - intros e k ps k' H. inversion H; subst. split; [lia | reflexivity].
    - intros e k ps k' H. inversion H; subst. split; [lia | reflexivity].
    - intros k ps k' H. inversion H; subst. split; [lia | reflexivity].
    - intros k pb k' H. inversion H; subst. split; [lia | reflexivity].
    - intros x r IHx IHr k pb k' H. cbn [compile_block] in H.
      destruct (compile_stmt k x) as [px k1] eqn:E1. destruct (compile_block k1 r) as [pr k2] eqn:E2.
      inversion H; subst. destruct (IHx _ _ _ E1) as [A B]. destruct (IHr _ _ _ E2) as [A' B'].
      split; [lia|]. cbn.
      rewrite (proj1 (tmps_in_weaken_both k k1 k k' ltac:(lia) ltac:(lia)) _ B).
      rewrite (proj2 (tmps_in_weaken_both k1 k' k k' ltac:(lia) ltac:(lia)) _ B'). reflexivity. }
  split; [exact K|].
  induction b as [|x r IH]; intros k pb k' H; cbn [compile_block] in H.
  - inversion H; subst. split; [lia | reflexivity].
  - destruct (compile_stmt k x) as [px k1] eqn:E1. destruct (compile_block k1 r) as [pr k2] eqn:E2.
    inversion H; subst. destruct (K _ _ _ _ E1) as [A B]. destruct (IH _ _ _ E2) as [A' B'].
    split; [lia|]. cbn.
    rewrite (proj1 (tmps_in_weaken_both k k1 k k' ltac:(lia) ltac:(lia)) _ B).
    rewrite (proj2 (tmps_in_weaken_both k1 k' k k' ltac:(lia) ltac:(lia)) _ B'). reflexivity.
Qed.

(* ---------------------------------------------------------------- frame: temporaries outside the range are untouched *)
Lemma tmp_get_set_other : forall l k j v, k <> j -> tmp_get (tmp_set l k v) j = tmp_get l j.
Proof.
  induction l as [|[i w] l IH]; intros k j v Hne; cbn.
  - destruct (Nat.eqb j k) eqn:E; auto. apply Nat.eqb_eq in E. congruence.
  - destruct (Nat.eqb k i) eqn:E; cbn.
    + apply Nat.eqb_eq in E. subst i. destruct (Nat.eqb j k) eqn:E2; auto. apply Nat.eqb_eq in E2. congruence.
    + destruct (Nat.eqb j i); auto.
Qed.

Lemma tmp_get_set_same : forall l k v, tmp_get (tmp_set l k v) k = Some v.
Proof.
  induction l as [|[i w] l IH]; intros k v; cbn.
  - rewrite Nat.eqb_refl. reflexivity.
  - destruct (Nat.eqb k i) eqn:E; cbn; rewrite E; auto.
Qed.

Definition outside (j lo hi : nat) : Prop := (j < lo)%nat \/ (hi <= j)%nat.

Lemma target_set_frame : forall ps t v ps' lo hi j,
  target_set ps t v = Ok ps' -> target_tmp_ok lo hi t = true -> outside j lo hi ->
  tmp_get (p_tmps ps') j = tmp_get (p_tmps ps) j.
Proof.
  intros ps [p|[x| |k]] v ps' lo hi j H Hok Hout; cbn in H.
  - destruct (bind_pat p v (p_user ps)); cbn in H; inversion H; subst; reflexivity.
  - inversion H; subst; reflexivity.
  - inversion H; subst; reflexivity.
  - inversion H; subst. cbn. apply tmp_get_set_other. cbn in Hok.
    apply andb_true_iff in Hok. destruct Hok as [A B]. apply Nat.leb_le in A. apply Nat.ltb_lt in B.
    unfold outside in Hout. lia.
Qed.

Lemma targets_set_frame : forall ts ps v ps' oe lo hi j,
  targets_set ps ts v = (ps', oe) -> forallb (target_tmp_ok lo hi) ts = true -> outside j lo hi ->
  tmp_get (p_tmps ps') j = tmp_get (p_tmps ps) j.
Proof.
  induction ts as [|t r IH]; intros ps v ps' oe lo hi j H Hok Hout; cbn in H.
  - inversion H; subst; reflexivity.
  - cbn in Hok. apply andb_true_iff in Hok. destruct Hok as [A B].
    destruct (target_set ps t v) as [ps1|e] eqn:E.
    + rewrite (IH _ _ _ _ _ _ _ H B Hout). eapply target_set_frame; eauto.
    + inversion H; subst; reflexivity.
Qed.

Section WithNP.
Variable N : numops.
Variable P : program.

Scheme pyrel_mut := Induction for pyrel Sort Prop
  with pyrel_block_mut := Induction for pyrel_block Sort Prop
  with pyfor_mut := Induction for pyfor Sort Prop.
Combined Scheme pyrel_mutind from pyrel_mut, pyrel_block_mut, pyfor_mut.

Definition framed (ps : pstate) (o : pout) (lo hi : nat) : Prop :=
  forall j, outside j lo hi -> tmp_get (p_tmps (state_of o)) j = tmp_get (p_tmps ps) j.

Lemma frame_all :
  (forall ps mu st o mu', pyrel N P ps mu st o mu' -> forall lo hi, tmps_in lo hi st = true -> framed ps o lo hi) /\
  (forall ps mu b o mu', pyrel_block N P ps mu b o mu' -> forall lo hi, tmps_in_block lo hi b = true -> framed ps o lo hi) /\
  (forall ps mu p l i b o mu', pyfor N P ps mu p l i b o mu' -> forall lo hi, tmps_in_block lo hi b = true -> framed ps o lo hi).
Proof.
  apply pyrel_mutind; intros; unfold framed in *; intros j Hj; cbn [state_of]; try reflexivity.
  - (* assign *) cbn in H. eapply targets_set_frame; eauto.
  - cbn in H. eapply targets_set_frame; eauto.
  - (* if true *) rewrite tmps_in_if in H0. apply andb_true_iff in H0. destruct H0. eapply H; eauto.
  - rewrite tmps_in_if in H0. apply andb_true_iff in H0. destruct H0. eapply H; eauto.
  - (* while true *) rewrite tmps_in_while in H1. rewrite (H0 lo hi ltac:(rewrite tmps_in_while; exact H1) j Hj).
    apply (H lo hi H1 j Hj).
  - rewrite tmps_in_while in H0. eapply H; eauto.
  - (* for *) rewrite tmps_in_for in H0. eapply H; eauto.
  - (* try/finally *) rewrite tmps_in_try in H1. apply andb_true_iff in H1. destruct H1 as [A B].
    specialize (H lo hi A j Hj). specialize (H0 lo hi B j Hj). cbn [state_of] in H0.
    destruct o1; cbn [state_of] in *; congruence.
  - rewrite tmps_in_try in H1. apply andb_true_iff in H1. destruct H1 as [A B].
    specialize (H lo hi A j Hj). specialize (H0 lo hi B j Hj). congruence.
  - (* block cons *) cbn in H1. apply andb_true_iff in H1. destruct H1 as [A B].
    rewrite (H0 lo hi B j Hj). apply (H lo hi A j Hj).
  - cbn in H0. apply andb_true_iff in H0. destruct H0 as [A B]. apply (H lo hi A j Hj).
  - (* for step *) rewrite (H0 lo hi H1 j Hj). apply (H lo hi H1 j Hj).
  - apply (H lo hi H0 j Hj).
Qed.

(* ---------------------------------------------------------------- inversion helpers *)
Lemma block_cons_inv : forall ps mu st r o mu',
  pyrel_block N P ps mu (st :: r) o mu' ->
  (exists ps1 mu1, pyrel N P ps mu st (PNormal ps1) mu1 /\ pyrel_block N P ps1 mu1 r o mu') \/
  (pyrel N P ps mu st o mu' /\ forall ps1, o <> PNormal ps1).
Proof. intros. inversion H; subst; [left; eauto | right; auto]. Qed.

Lemma name_assign_inv : forall ps mu x y o mu',
  pyrel N P ps mu (PAssign [TName x] (PName y)) o mu' ->
  (exists v, name_get ps y = Some v /\ o = PNormal (name_set ps x v) /\ mu' = mu) \/
  (name_get ps y = None /\ o = PRaise NameErr ps /\ mu' = mu).
Proof.
  intros ps mu x y o mu' H. inversion H; subst.
  - match goal with Hp : pevalsto _ _ _ _ _ _ _ |- _ => destruct Hp as [n Hn] end. cbn in Hn.
    destruct (name_get ps y) as [v0|] eqn:E; inversion Hn; subst.
    match goal with Ht : targets_set _ _ _ = _ |- _ => cbn in Ht; inversion Ht; subst end. left; eauto.
  - match goal with Ht : targets_set _ _ _ = _ |- _ => cbn in Ht; inversion Ht end.
  - match goal with Hp : pevalerr _ _ _ _ _ _ |- _ => destruct Hp as [n Hn] end. cbn in Hn.
    destruct (name_get ps y) as [v0|] eqn:E; inversion Hn; subst. right; auto.
Qed.

(* ---------------------------------------------------------------- with_restores_ctx *)
Theorem with_restores_ctx : forall k x e body pst k' ps mu o mu',
  compile_stmt k (SContext x e body) = (pst, k') ->
  pyrel N P ps mu pst o mu' ->
  p_ctx (state_of o) = p_ctx ps.
Proof.
  intros k x e body pst k' ps mu o mu' Hc Hr.
  rewrite compile_stmt_context in Hc. destruct (compile_block k body) as [pb k1] eqn:E.
  inversion Hc; subst pst k'. clear Hc.
  destruct (proj2 compile_range_both _ _ _ _ E) as [Hle Hpb].
  (* what the try body does to the temporary *)
  assert (Hbody : forall o1 mu1,
    pyrel_block N P ps mu (stash_stmt k1 :: real_stmt :: set_stmt x e :: pb) o1 mu1 ->
    tmp_get (p_tmps (state_of o1)) k1 = Some (p_ctx ps)).
  { intros o1 mu1 Hb. apply block_cons_inv in Hb. destruct Hb as [(ps1 & mu1' & Hs & Hrest) | (Hs & Hne)].
    - apply name_assign_inv in Hs. destruct Hs as [(v & Hv & Ho & Hm) | (Hv & Ho & _)]; [|discriminate].
      cbn in Hv. inversion Hv; subst v. inversion Ho; subst ps1.
      assert (T : tmps_in_block k k1 (real_stmt :: set_stmt x e :: pb) = true).
      { cbn [tmps_in_block]. rewrite Hpb. cbn. rewrite forallb_app. cbn. destruct x; reflexivity. }
      rewrite (proj1 (proj2 frame_all) _ _ _ _ _ Hrest k k1 T k1 ltac:(right; lia)).
      cbn. apply tmp_get_set_same.
    - apply name_assign_inv in Hs. destruct Hs as [(v & Hv & Ho & Hm) | (Hv & Ho & _)].
      + exfalso. eapply Hne. exact Ho.
      + cbn in Hv. discriminate. }
  (* the finaliser restores it *)
  assert (Hfin : forall ps1 mu1 o2 mu2, tmp_get (p_tmps ps1) k1 = Some (p_ctx ps) ->
    pyrel_block N P ps1 mu1 [restore_stmt k1] o2 mu2 ->
    exists ps2, o2 = PNormal ps2 /\ p_ctx ps2 = p_ctx ps).
  { intros ps1 mu1 o2 mu2 Ht Hb. apply block_cons_inv in Hb. destruct Hb as [(ps1' & mu1' & Hs & Hrest) | (Hs & Hne)].
    - apply name_assign_inv in Hs. destruct Hs as [(v & Hv & Ho & Hm) | (Hv & Ho & _)]; [|discriminate].
      cbn in Hv. rewrite Ht in Hv. inversion Hv; subst v. inversion Ho; subst ps1'.
      inversion Hrest; subst. eexists; split; [reflexivity | reflexivity].
    - apply name_assign_inv in Hs. destruct Hs as [(v & Hv & Ho & Hm) | (Hv & Ho & _)].
      + exfalso. eapply Hne. exact Ho.
      + cbn in Hv. rewrite Ht in Hv. discriminate. }
  inversion Hr; subst.
  - match goal with
    | Hb : pyrel_block _ _ _ _ (stash_stmt _ :: _) ?o1 _, Hf : pyrel_block _ _ (state_of ?o1) _ [restore_stmt _] _ _ |- _ =>
        destruct (Hfin _ _ _ _ (Hbody _ _ Hb) Hf) as (ps2' & Heq & Hctx); inversion Heq; subst ps2';
        destruct o1; cbn [state_of]; exact Hctx
    end.
  - match goal with
    | Hb : pyrel_block _ _ _ _ (stash_stmt _ :: _) ?o1 _, Hf : pyrel_block _ _ (state_of ?o1) _ [restore_stmt _] _ _,
      Hne : forall ps2, o <> PNormal ps2 |- _ =>
        destruct (Hfin _ _ _ _ (Hbody _ _ Hb) Hf) as (ps2' & Heq & Hctx); subst o; exfalso; eapply Hne; reflexivity
    end.
Qed.

End WithNP.
