(* Property C06 — numeric literals.  Definitions only.

   Part A (specification): the number a spelling denotes, by one left-to-right
   Horner pass over the characters: a single accumulator runs through the
   integer digits and on through the fraction digits, the number of fraction
   digits is counted, an optional exponent is read the same way;
       value = (-1)^neg * acc * eb^exp / base^(#fraction digits).
   Nothing here looks like the code (no groups, no substrings, no int()).

   Part B (model of the code): fpy2/utils/fractions.py (the two regular
   expressions as a group-extracting matcher, decnum_to_fraction,
   hexnum_to_fraction, _sci_to_fraction, digits_to_fraction),
   fpy2/ast/fpyast.py (as_rational / as_real of the five literal classes) and
   fpy2/frontend/parser.py (_parse_constant, the unary minus / plus fold). *)
From Coq Require Import ZArith List Bool Ascii String QArith Qabs.
Import ListNotations.
Open Scope Z_scope.

(* the two genuine defects recorded for C06 (known_findings.d/C06.json):
   fx_float  — the parser reads a float literal from its source spelling (fixes/C06-parser-float-spelling.diff)
               instead of the double Python parsed it to;
   fx_hexint — hexnum_to_fraction accepts an empty integer part like the decimal path does;
   fx_negneg — the unary-minus fold of the parser negates a negative-zero literal to +0 *)
Record lfixes := LFX { fx_float : bool; fx_hexint : bool; fx_negneg : bool }.
Definition lit_as_coded := LFX false false false.
Definition lit_all_fixed := LFX true true true.

(* a literal's value: a rational or the negative zero *)
Inductive lval := LNegZero | LQ (q : Q).

Definition lval_eqb (a b : lval) : bool :=
  match a, b with
  | LNegZero, LNegZero => true
  | LQ x, LQ y => Qeq_bool x y
  | _, _ => false
  end.

(* ---------------------------------------------------------------- characters *)
Definition code (c : ascii) : Z := Z.of_N (N_of_ascii c).

Definition digit_of (c : ascii) : option Z :=
  let n := code c in
  if (48 <=? n) && (n <=? 57) then Some (n - 48)
  else if (97 <=? n) && (n <=? 102) then Some (n - 87)
  else None.

Definition digit_in (base : Z) (c : ascii) : option Z :=
  match digit_of c with Some d => if d <? base then Some d else None | None => None end.

Definition is_digit (base : Z) (c : ascii) : bool := match digit_in base c with Some _ => true | None => false end.
Definition is_char (a c : ascii) : bool := code a =? code c.
Definition is_space (c : ascii) : bool := let n := code c in (n =? 32) || ((9 <=? n) && (n <=? 13)).
Definition lower (c : ascii) : ascii :=
  let n := code c in if (65 <=? n) && (n <=? 90) then ascii_of_N (Z.to_N (n + 32)) else c.

(* base^k as a positive denominator *)
Definition ppow (base k : Z) : positive := Z.to_pos (base ^ k).

(* m * eb^e / base^k *)
Definition mkq (m base k eb e : Z) : Q :=
  if 0 <=? e then Qmake (m * eb ^ e) (ppow base k)
  else Qmake m (Z.to_pos (base ^ k * eb ^ (- e))).

(* ================================================================ A. denotation of a spelling *)
(* read digits of `base` (optionally skipping underscores, as in Python source
   literals): accumulator, number of digits read, rest *)
Fixpoint eat (base : Z) (us : bool) (acc n : Z) (s : list ascii) : Z * Z * list ascii :=
  match s with
  | [] => (acc, n, [])
  | c :: t =>
      match digit_in base c with
      | Some d => eat base us (acc * base + d) (n + 1) t
      | None => if us && is_char "_" c then eat base us acc n t else (acc, n, s)
      end
  end.

Definition eat_sign (s : list ascii) : bool * list ascii :=
  match s with
  | c :: t => if is_char "-" c then (true, t) else if is_char "+" c then (false, t) else (false, s)
  | [] => (false, [])
  end.

(* digits [. digits] [E [sign] digits]  — at least one mantissa digit.
   `strict`: digits are required after a point (the grammar of Decnum/Hexnum
   strings); Python source literals (`strict = false`) may end in a point.
   One accumulator runs through the integer and the fraction digits. *)
(* the optional exponent and the end of the string; m = accumulated digits, n2 = number of fraction digits *)
Definition sci_tail (base eb : Z) (is_e : ascii -> bool) (us : bool) (m n2 : Z) (s3 : list ascii) : option Q :=
  match s3 with
  | [] => Some (mkq m base n2 eb 0)
  | c :: t =>
      if is_e c then
        let '(eneg, t1) := eat_sign t in
        let '(e, ne, t2) := eat 10 us 0 0 t1 in
        if ne =? 0 then None
        else match t2 with
             | [] => Some (mkq m base n2 eb (if eneg then - e else e))
             | _ => None
             end
      else None
  end.

Definition sci_body (base eb : Z) (is_e : ascii -> bool) (us strict : bool) (s1 : list ascii) : option Q :=
  let '(m1, n1, s2) := eat base us 0 0 s1 in
  let '(m, n2, dot, s3) :=
    match s2 with
    | c :: t => if is_char "." c then let '(m, n2, t') := eat base us m1 0 t in (m, n2, true, t')
                else (m1, 0, false, s2)
    | [] => (m1, 0, false, s2)
    end in
  if n1 + n2 =? 0 then None
  else if strict && dot && (n2 =? 0) then None
  else sci_tail base eb is_e us m n2 s3.

(* a fixed prefix ("0x") *)
Fixpoint drop_prefix (p s : list ascii) : option (list ascii) :=
  match p, s with
  | [], _ => Some s
  | a :: p', c :: s' => if is_char a c then drop_prefix p' s' else None
  | _ :: _, [] => None
  end.

(* [sign] prefix body: (is the spelling negative, magnitude) *)
Definition sci_denote (base eb : Z) (is_e : ascii -> bool) (prefix : list ascii) (us strict : bool) (s : list ascii)
  : option (bool * Q) :=
  let '(neg, s1) := eat_sign s in
  match drop_prefix prefix s1 with
  | Some s2 => match sci_body base eb is_e us strict s2 with Some q => Some (neg, q) | None => None end
  | None => None
  end.

Definition signed (r : option (bool * Q)) : option lval :=
  match r with
  | Some (neg, q) => if neg then (if Qeq_bool q 0 then Some LNegZero else Some (LQ (Qopp q))) else Some (LQ q)
  | None => None
  end.

Fixpoint strip_left (s : list ascii) : list ascii :=
  match s with c :: t => if is_space c then strip_left t else s | [] => [] end.
Definition strip (s : list ascii) : list ascii := rev (strip_left (rev (strip_left s))).

Definition chars (s : string) : list ascii := list_ascii_of_string s.

(* a decimal string (the text of a Decnum): "-12.50e-3"; `strict`: digits are
   required after a point *)
Definition dec_denote (strict : bool) (s : string) : option lval :=
  signed (sci_denote 10 10 (is_char "e") [] false strict (strip (chars s))).

(* a hexadecimal-float string (the argument of fp.hexfloat): "-0x1.8p3":
   [sign] 0x body, hexadecimal digits, binary exponent after `p` *)
Definition hex_denote (s : string) : option lval :=
  signed (sci_denote 16 2 (is_char "p") ["0"%char; "x"%char] false true (strip (chars s))).

(* a Python float literal as written in the source: "1_000.5E-3", "5.", ".5":
   underscores are ignored and the exponent letter may be upper case
   (Python reference, 2.4.6); digits need not follow the point *)
Definition normalize_pyfloat (s : string) : list ascii :=
  filter (fun c => negb (is_char "_" c)) (map lower (chars s)).
Definition pyfloat_denote (s : string) : option lval :=
  signed (sci_denote 10 10 (is_char "e") [] false false (strip (normalize_pyfloat s))).

(* a Python integer literal: decimal, 0x / 0o / 0b prefixed, with underscores *)
Definition pyint_denote (s : string) : option Z :=
  let t := map lower (chars s) in
  let go base t := let '(m, n, r) := eat base true 0 0 t in
                   match r with [] => if n =? 0 then None else Some m | _ => None end in
  match t with
  | z :: k :: t2 =>
      if is_char "0" z && is_char "x" k then go 16 t2
      else if is_char "0" z && is_char "o" k then go 8 t2
      else if is_char "0" z && is_char "b" k then go 2 t2
      else go 10 t
  | _ => go 10 t
  end.

(* rational(p, q) and digits(m, e, b) *)
Definition rational_denote (p q : Z) : option lval :=
  if q =? 0 then None else Some (LQ (if 0 <? q then Qmake p (Z.to_pos q) else Qmake (- p) (Z.to_pos (- q)))).

Definition digits_denote (m e b : Z) : option lval :=
  if (b =? 0) && (e <? 0) then None
  else if 0 <=? e then Some (LQ (Qmake (m * b ^ e) 1))
  else let d := b ^ (- e) in
       Some (LQ (if 0 <? d then Qmake m (Z.to_pos d) else Qmake (- m) (Z.to_pos (- d)))).

(* exact negation with signed zeros *)
Definition lneg (v : lval) : lval :=
  match v with LNegZero => LQ 0 | LQ q => if Qeq_bool q 0 then LNegZero else LQ (Qopp q) end.

(* ================================================================ B. model of the code *)
Section Code.
Variable fx : lfixes.

(* longest prefix of characters satisfying p *)
Fixpoint span (p : ascii -> bool) (s : list ascii) : list ascii * list ascii :=
  match s with
  | c :: t => if p c then let '(a, r) := span p t in (c :: a, r) else ([], s)
  | [] => ([], [])
  end.

(* re.fullmatch of
     ([-+])?PREFIX(D+(\.D+)?|\.D+)(E([-+]?[0-9]+))?
   (D = digit class, E = exponent letter); returns groups 1, 2 and 5.
   The character classes are pairwise disjoint, so the greedy scan is the
   regular expression's only way to match.  `relaxed`: D+\.D* is accepted too
   (the decimal pattern of fixes/C06-parser-float-spelling.diff). *)
(* group 5 and the end of the string *)
Definition re_tail (echar : ascii) (mant s5 : list ascii) : option (list ascii * option (list ascii)) :=
  match s5 with
  | [] => Some (mant, None)
  | c :: t =>
      if is_char echar c then
        let '(es, t1) :=
          match t with
          | d :: t' => if is_char "-" d || is_char "+" d then ([d], t') else ([], t)
          | [] => ([], [])
          end in
        let '(ed, t2) := span (is_digit 10) t1 in
        match ed, t2 with
        | _ :: _, [] => Some (mant, Some (es ++ ed))
        | _, _ => None
        end
      else None
  end.

(* groups 2 and 5: the mantissa and the exponent *)
Definition re_body (isd : ascii -> bool) (echar : ascii) (relaxed : bool) (s2 : list ascii)
  : option (list ascii * option (list ascii)) :=
  let '(ip, s3) := span isd s2 in
  let mant_rest : option (list ascii * list ascii) :=
    match s3 with
    | c :: t =>
        if is_char "." c then
          let '(fp, s4) := span isd t in
          match ip, fp with
          | [], [] => None
          | _ :: _, [] => if relaxed then Some (ip ++ [c], s4) else None
          | _, _ :: _ => Some (ip ++ c :: fp, s4)
          end
        else match ip with [] => None | _ => Some (ip, s3) end
    | [] => match ip with [] => None | _ => Some (ip, s3) end
    end in
  match mant_rest with
  | None => None
  | Some (mant, s5) => re_tail echar mant s5
  end.

Definition re_sci (isd : ascii -> bool) (echar : ascii) (prefix : list ascii) (relaxed : bool) (s : list ascii)
  : option (option ascii * list ascii * option (list ascii)) :=
  let '(sg, s1) :=
    match s with
    | c :: t => if is_char "-" c || is_char "+" c then (Some c, t) else (None, s)
    | [] => (None, [])
    end in
  match drop_prefix prefix s1 with
  | None => None
  | Some s2 => match re_body isd echar relaxed s2 with
               | Some (mant, ex) => Some (sg, mant, ex)
               | None => None
               end
  end.

(* int(s, base) on a string of digits: ValueError (None) on the empty string *)
Definition py_int (base : Z) (s : list ascii) : option Z :=
  match s with
  | [] => None
  | _ => fold_left (fun acc c => match acc, digit_in base c with
                                 | Some a, Some d => Some (a * base + d)
                                 | _, _ => None
                                 end) s (Some 0)
  end.

(* int(s) on [-+]?[0-9]+ *)
Definition py_int_signed (s : list ascii) : option Z :=
  match s with
  | c :: t => if is_char "-" c then option_map Z.opp (py_int 10 t)
              else if is_char "+" c then py_int 10 t
              else py_int 10 s
  | [] => None
  end.

Definition Zlen (s : list ascii) : Z := Z.of_nat (List.length s).

(* Fraction(b) ** e *)
Definition qpow (b e : Z) : Q := Qpower (inject_Z b) e.

(* _sci_to_fraction *)
Definition sci_to_fraction (sg : option ascii) (i : list ascii) (f e : option (list ascii)) (base b : Z) : option Q :=
  let sign : Q := match sg with Some c => if is_char "-" c then inject_Z (-1) else 1%Q | None => 1%Q end in
  match py_int base i with
  | None => None
  | Some ipart =>
      let fr : option (Z * Z) :=
        match f with
        | Some f => match py_int base f with Some fp => Some (fp, - Zlen f) | None => None end
        | None => Some (0, 0)
        end in
      match fr with
      | None => None
      | Some (fpart, efrac) =>
          let ex : option Z := match e with Some e => py_int_signed e | None => Some 0 end in
          match ex with
          | None => None
          | Some exp =>
              Some (sign * (inject_Z ipart + inject_Z fpart * qpow base efrac) * qpow b exp)%Q
          end
      end
  end.

(* mant.split('.') when '.' in mant *)
Definition split_dot (mant : list ascii) : option (list ascii * list ascii) :=
  let '(a, r) := span (fun c => negb (is_char "." c)) mant in
  match r with _ :: b => Some (a, b) | [] => None end.

(* the common tail of decnum_to_fraction / hexnum_to_fraction: split the
   mantissa at the point and call _sci_to_fraction.  `zero_int`: an empty
   integer part is replaced by '0' (the decimal path; the hexadecimal path
   only with fixes/C06-hexnum-empty-integer-part.diff); `relaxed`: an empty
   fraction part is dropped (only reachable with the patched decimal pattern) *)
Definition mant_to_fraction (zero_int relaxed : bool) (sg : option ascii) (mant : list ascii)
    (ex : option (list ascii)) (base b : Z) : option Q :=
  match split_dot mant with
  | Some (p0, p1) =>
      let i := match p0 with [] => if zero_int then ["0"%char] else p0 | _ => p0 end in
      let f := match p1 with [] => if relaxed then None else Some p1 | _ => Some p1 end in
      sci_to_fraction sg i f ex base b
  | None => sci_to_fraction sg mant None ex base b
  end.

(* decnum_to_fraction; `relaxed` = the patched pattern, which also accepts "12." *)
Definition decnum_to_fraction (relaxed : bool) (s : list ascii) : option Q :=
  match re_sci (is_digit 10) "e" [] relaxed (strip s) with
  | None => None
  | Some (sg, mant, ex) => mant_to_fraction true relaxed sg mant ex 10 10
  end.

(* hexnum_to_fraction *)
Definition hexnum_to_fraction (s : list ascii) : option Q :=
  match re_sci (is_digit 16) "p" ["0"%char; "x"%char] false (strip s) with
  | None => None
  | Some (sg, mant, ex) => mant_to_fraction (fx_hexint fx) false sg mant ex 16 2
  end.

(* Decnum.as_real / Hexnum.as_real: r == 0 and val.lstrip().startswith('-') *)
Definition starts_minus (s : list ascii) : bool :=
  match strip_left s with c :: _ => is_char "-" c | [] => false end.
Definition as_real (r : option Q) (s : list ascii) : option lval :=
  match r with
  | Some q => if Qeq_bool q 0 && starts_minus s then Some LNegZero else Some (LQ q)
  | None => None
  end.

Definition decnum_value (relaxed : bool) (s : string) : option lval :=
  as_real (decnum_to_fraction relaxed (chars s)) (chars s).
Definition hexnum_value (s : string) : option lval := as_real (hexnum_to_fraction (chars s)) (chars s).

(* Rational.as_rational = Fraction(p, q);  Digits.as_rational = Fraction(m) * Fraction(b) ** e *)
Definition rational_value (p q : Z) : option lval :=
  if q =? 0 then None else Some (LQ (Qdiv (inject_Z p) (inject_Z q))).
Definition digits_value (m e b : Z) : option lval :=
  if (b =? 0) && (e <? 0) then None else Some (LQ (inject_Z m * qpow b e)%Q).

(* ---------------------------------------------------------------- the parser *)
(* What the front end receives for a float literal: Python's own value of it
   (an exact dyadic rational dnum / dden, or an infinity) and repr() of that. *)
Record pyfloat := PYF { pf_inf : bool; pf_num : Z; pf_den : Z; pf_repr : string }.

Inductive lit :=
  | LInt (spelling : string) (pyvalue : Z)          (* ast.Constant(int): the value Python parsed *)
  | LFloat (spelling : string) (py : pyfloat)
  | LHex (s : string)
  | LRational (p q : Z)
  | LDigits (m e b : Z)
  | LNeg (a : lit)
  | LPos (a : lit).

(* FPy AST node produced for the literal: Integer or another RationalVal, or a Neg operation *)
Inductive node := NInteger (v : Z) | NRat (v : lval) | NNegOp (a : node).

(* Parser._parse_constant / _parse_hexfloat / _parse_rational / _parse_digits / _parse_unaryop *)
Fixpoint parse (l : lit) : option node :=
  match l with
  | LInt _ v => Some (NInteger v)
  | LFloat sp py =>
      if fx_float fx then
        (* fixes/C06-parser-float-spelling.diff: the literal's own text *)
        match decnum_to_fraction true (normalize_pyfloat sp) with
        | Some q => if (Zpos (Qden (Qred q)) =? 1) then Some (NInteger (Qnum (Qred q)))
                    else Some (NRat (LQ q))
        | None => None
        end
      else if pf_inf py then None                          (* Decnum('inf'): invalid decimal number *)
      else if pf_den py =? 1 then Some (NInteger (pf_num py))       (* e.value.is_integer() *)
      else option_map NRat (decnum_value false (pf_repr py))   (* Decnum(str(e.value)) *)
  | LHex s => option_map NRat (hexnum_value s)
  | LRational p q => option_map NRat (rational_value p q)
  | LDigits m e b => option_map NRat (digits_value m e b)
  | LPos a => parse a
  | LNeg a =>
      match parse a with
      | Some (NInteger 0) => Some (NRat LNegZero)
      | Some (NInteger v) => Some (NInteger (- v))
      | Some (NRat LNegZero) =>
          (* as coded: as_rational() == 0, folded to Decnum('-0.0') again; fixes/C06-neg-of-negative-zero.diff: +0 *)
          if fx_negneg fx then Some (NInteger 0) else Some (NRat LNegZero)
      | Some (NRat (LQ q)) => if Qeq_bool q 0 then Some (NRat LNegZero) else Some (NNegOp (NRat (LQ q)))
      | Some (NNegOp a) => Some (NNegOp (NNegOp a))
      | None => None
      end
  end.

(* evaluation under the real context: literals are exact, Neg is exact *)
Fixpoint eval_real (n : node) : lval :=
  match n with
  | NInteger v => LQ (inject_Z v)
  | NRat v => v
  | NNegOp a => lneg (eval_real a)
  end.

Definition literal_value (l : lit) : option lval := option_map eval_real (parse l).

End Code.

(* ================================================================ what the source text denotes *)

Fixpoint lit_denote (l : lit) : option lval :=
  match l with
  | LInt sp _ => option_map (fun z => LQ (inject_Z z)) (pyint_denote sp)
  | LFloat sp _ => pyfloat_denote sp
  | LHex s => hex_denote s
  | LRational p q => rational_denote p q
  | LDigits m e b => digits_denote m e b
  | LNeg a => option_map lneg (lit_denote a)
  | LPos a => lit_denote a
  end.

(* v (an integer >= 2^53) is a binary64 number within half a unit in the last
   place of q: a correctly rounded double of q (used to state the witness of
   the parser defect: the double is what Python hands to the front end) *)
Definition binary64_nearest_int (v : Z) (q : Q) : bool :=
  let e := Z.log2 v - 52 in
  (2 ^ 53 <=? v) && (v mod 2 ^ e =? 0) && Qle_bool (Qabs (q - inject_Z v)) (inject_Z (2 ^ (e - 1))).
