(* C15 — model of fpy2/analysis/syntax_check.py (_Env, merge, the _visit_ methods),
   fpy2/analysis/reachability.py and the acceptance decision of
   fpy2/decorator.py (_apply_fpy_decorator), together with a big-step
   semantics of a small statement language in which reading an unbound name is
   an error.  Definitions only (proofs: Lang/DefinedProofs.v).

   The language is the part of FPy the property talks about: assignments
   (tuple patterns flattened to the names they bind), if/else, one-armed if,
   for, while, with-as, comprehensions, returns, pass, effect statements
   (assert / expression statements).  Values are abstracted away: the only
   thing an expression does is *read names*; which way a branch goes and how
   many times a loop runs is decided by an oracle, so that "for every input
   steering every combination of branch outcomes and trip counts" becomes
   "for every oracle". *)
From Coq Require Import List Bool Arith.
Import ListNotations.

Definition name := nat.

Inductive expr :=
  | EConst                                            (* literals, foreign values *)
  | EVar (x : name)
  | EOp (a b : expr)                                  (* any operator / call / tuple / list / index: reads its operands *)
  | EComp (ts : list name) (iter : expr) (elt : expr).  (* [elt for ts in iter] *)

Inductive stmt :=
  | SAssign (ts : list name) (e : expr)               (* x = e ; (x, y) = e ; _ = e *)
  | SEffect (e : expr)                                (* assert e ; bare expression ; xs[i] = e (reads xs, i, e; binds nothing) *)
  | SIf1 (c : expr) (body : list stmt)
  | SIf (c : expr) (ift iff : list stmt)
  | SWhile (c : expr) (body : list stmt)
  | SFor (ts : list name) (iter : expr) (body : list stmt)
  | SWith (t : option name) (ctx : expr) (body : list stmt)
  | SReturn (e : expr)
  | SPass.

(* ------------------------------------------------------------------ syntax_check._Env *)

Record cenv := CEnv { vars : list (name * bool); term : bool }.

Fixpoint lookup (x : name) (vs : list (name * bool)) : option bool :=
  match vs with
  | [] => None
  | (y, b) :: r => if Nat.eqb x y then Some b else lookup x r
  end.

Fixpoint set_var (x : name) (b : bool) (vs : list (name * bool)) : list (name * bool) :=
  match vs with
  | [] => [(x, b)]
  | (y, c) :: r => if Nat.eqb x y then (y, b) :: r else (y, c) :: set_var x b r
  end.

(* _Env.extend: copy, env[var] = True, the terminated flag is kept *)
Definition extend (x : name) (E : cenv) : cenv := CEnv (set_var x true (vars E)) (term E).

(* _visit_binding over the names a pattern binds, left to right *)
Definition extend_all (ts : list name) (E : cenv) : cenv := fold_left (fun E x => extend x E) ts E.

(* self.env.get(key, False) *)
Definition getd (x : name) (vs : list (name * bool)) : bool :=
  match lookup x vs with Some b => b | None => false end.

(* _Env.merge *)
Definition merge (A B : cenv) : cenv :=
  if term A && term B then CEnv [] true
  else if term A then CEnv (vars B) false
  else if term B then CEnv (vars A) false
  else
    let keys := map fst (vars A) ++ map fst (vars B) in
    CEnv (fold_left (fun acc k => set_var k (getd k (vars A) && getd k (vars B)) acc) keys []) false.

(* _mark_use succeeds: the name is in the env and its flag is True *)
Definition defined (E : cenv) (x : name) : bool :=
  match lookup x (vars E) with Some true => true | _ => false end.

(* ------------------------------------------------------------------ SyntaxCheckInstance *)

(* true = no FPySyntaxError *)
Fixpoint check_expr (E : cenv) (e : expr) : bool :=
  match e with
  | EConst => true
  | EVar x => defined E x
  | EOp a b => check_expr E a && check_expr E b
  | EComp ts it elt => check_expr E it && check_expr (extend_all ts E) elt
  end.

(* `fx` = false: `_visit_for` as coded (the loop target is bound in the env the
   result is merged from); `fx` = true: the repaired rule (the result is merged
   from the env *before* the target was bound).  Everything else is common. *)
Section Check.
  Variable fx : bool.

  Definition check_list (f : cenv -> stmt -> option cenv) :=
    fix go (E : cenv) (ss : list stmt) : option cenv :=
      match ss with
      | [] => Some E
      | s :: r => match f E s with Some E' => go E' r | None => None end
      end.

  Fixpoint check_stmt (E : cenv) (s : stmt) {struct s} : option cenv :=
    match s with
    | SAssign ts e => if check_expr E e then Some (extend_all ts E) else None
    | SEffect e => if check_expr E e then Some E else None
    | SIf1 c b =>
        if check_expr E c then
          match check_list check_stmt E b with Some Eb => Some (merge E Eb) | None => None end
        else None
    | SIf c a b =>
        if check_expr E c then
          match check_list check_stmt E a with
          | Some Ea => match check_list check_stmt E b with
                       | Some Eb => Some (merge Ea Eb)
                       | None => None
                       end
          | None => None
          end
        else None
    | SWhile c b =>
        match check_list check_stmt E b with
        | Some Eb => let E' := merge E Eb in if check_expr E' c then Some E' else None
        | None => None
        end
    | SFor ts it b =>
        if check_expr E it then
          let E1 := extend_all ts E in
          match check_list check_stmt E1 b with
          | Some Eb => Some (merge (if fx then E else E1) Eb)
          | None => None
          end
        else None
    | SWith t c b =>
        if check_expr E c then
          check_list check_stmt (match t with Some x => extend x E | None => E end) b   (* no merge *)
        else None
    | SReturn e => if check_expr E e then Some (CEnv [] true) else None
    | SPass => Some E
    end.

  Definition check_block := check_list check_stmt.
End Check.

(* ------------------------------------------------------------------ Reachability *)

(* (is there a path through the statement, was every statement visited reachable) *)
Definition reach_list (f : bool -> stmt -> bool * bool) :=
  fix go (r : bool) (ss : list stmt) : bool * bool :=
    match ss with
    | [] => (r, true)
    | s :: rest => let '(o, ok) := f r s in let '(o', ok') := go o rest in (o', ok && ok')
    end.

Fixpoint reach_stmt (r : bool) (s : stmt) {struct s} : bool * bool :=
  match s with
  | SAssign _ _ | SEffect _ | SPass => (r, r)
  | SReturn _ => (false, r)
  | SIf1 _ b | SWhile _ b | SFor _ _ b =>
      let '(o, ok) := reach_list reach_stmt r b in (r || o, r && ok)
  | SIf _ a b =>
      let '(oa, oka) := reach_list reach_stmt r a in
      let '(ob, okb) := reach_list reach_stmt r b in
      (oa || ob, r && oka && okb)
  | SWith _ _ b =>
      let '(o, ok) := reach_list reach_stmt r b in (o, r && ok)
  end.

Definition reach_block := reach_list reach_stmt.

(* check_all_reachable and check_no_fallthrough *)
Definition reach_ok (body : list stmt) : bool :=
  let '(o, ok) := reach_block true body in ok && negb o.

(* ------------------------------------------------------------------ the decorator's verdict *)

Definition env0 (params : list name) : cenv := extend_all params (CEnv [] false).

Definition accept_gen (fx : bool) (params : list name) (body : list stmt) : bool :=
  match check_block fx (env0 params) body with
  | None => false
  | Some _ => reach_ok body
  end.

Definition accept := accept_gen false.          (* fpy2 as it is *)
Definition accept_fixed := accept_gen true.     (* with the repaired `_visit_for` *)

(* ------------------------------------------------------------------ semantics *)

Inductive rerr := NameErr | FellOffEnd.

Inductive outcome :=
  | ONormal (sigma : list name) (k : nat)     (* bound names, oracle position *)
  | OReturn
  | OErr (e : rerr)
  | OFuel.

Section Sem.
  Variable o : nat -> bool.      (* the oracle: branch outcomes, "one more iteration?" *)

  Definition bound (sigma : list name) (x : name) : bool := existsb (Nat.eqb x) sigma.

  (* (no unbound name was read, new oracle position).  The element of a
     comprehension is evaluated (with the targets bound locally) iff the oracle
     says the iterable is non-empty; the bindings do not escape. *)
  Fixpoint eval_expr (sigma : list name) (k : nat) (e : expr) : bool * nat :=
    match e with
    | EConst => (true, k)
    | EVar x => (bound sigma x, k)
    | EOp a b =>
        let '(oka, k1) := eval_expr sigma k a in
        if oka then eval_expr sigma k1 b else (false, k1)
    | EComp ts it elt =>
        let '(oki, k1) := eval_expr sigma k it in
        if oki then
          if o k1 then eval_expr (ts ++ sigma) (S k1) elt else (true, S k1)
        else (false, k1)
    end.

  Fixpoint exec_stmt (fuel : nat) (sigma : list name) (k : nat) (s : stmt) {struct fuel} : outcome :=
    match fuel with
    | O => OFuel
    | S f =>
        match s with
        | SAssign ts e =>
            let '(ok, k1) := eval_expr sigma k e in
            if ok then ONormal (ts ++ sigma) k1 else OErr NameErr
        | SEffect e =>
            let '(ok, k1) := eval_expr sigma k e in
            if ok then ONormal sigma k1 else OErr NameErr
        | SIf1 c b =>
            let '(ok, k1) := eval_expr sigma k c in
            if ok then (if o k1 then exec_block f sigma (S k1) b else ONormal sigma (S k1))
            else OErr NameErr
        | SIf c a b =>
            let '(ok, k1) := eval_expr sigma k c in
            if ok then (if o k1 then exec_block f sigma (S k1) a else exec_block f sigma (S k1) b)
            else OErr NameErr
        | SWhile c b => exec_iter f sigma k (Some c) [] b
        | SFor ts it b =>
            let '(ok, k1) := eval_expr sigma k it in
            if ok then exec_iter f sigma k1 None ts b else OErr NameErr
        | SWith t c b =>
            let '(ok, k1) := eval_expr sigma k c in
            if ok then exec_block f (match t with Some x => x :: sigma | None => sigma end) k1 b
            else OErr NameErr
        | SReturn e =>
            let '(ok, _) := eval_expr sigma k e in
            if ok then OReturn else OErr NameErr
        | SPass => ONormal sigma k
        end
    end

  with exec_block (fuel : nat) (sigma : list name) (k : nat) (ss : list stmt) {struct fuel} : outcome :=
    match fuel with
    | O => OFuel
    | S f =>
        match ss with
        | [] => ONormal sigma k
        | s :: r =>
            match exec_stmt f sigma k s with
            | ONormal sigma' k' => exec_block f sigma' k' r
            | other => other
            end
        end
    end

  (* a loop: (evaluate the condition;) ask the oracle; bind the targets; run the body; again *)
  with exec_iter (fuel : nat) (sigma : list name) (k : nat) (c : option expr) (ts : list name)
                 (b : list stmt) {struct fuel} : outcome :=
    match fuel with
    | O => OFuel
    | S f =>
        let '(ok, k1) := match c with Some ce => eval_expr sigma k ce | None => (true, k) end in
        if ok then
          if o k1 then
            match exec_block f (ts ++ sigma) (S k1) b with
            | ONormal sigma' k' => exec_iter f sigma' k' c ts b
            | other => other
            end
          else ONormal sigma (S k1)
        else OErr NameErr
    end.

  (* calling the function: parameters are bound; running off the end is an error *)
  Definition run (fuel : nat) (params : list name) (body : list stmt) : outcome :=
    match exec_block fuel params 0 body with
    | ONormal _ _ => OErr FellOffEnd
    | other => other
    end.
End Sem.
