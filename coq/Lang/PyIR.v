(* A mini-Python IR for the statement skeleton that BytecodeCompiler
   (fpy2/interpret/byte.py) emits, in which the active rounding context is an
   ORDINARY MUTABLE LOCAL `__ctx__` (NCtx) and `with` is compiled to
   stash / try / finally-restore (see Compile.v).  Definitions only.

   Expressions are kept abstract: `PE e` is "the Python expression emitted for
   the FPy expression e"; what the model records about it is exactly the fact
   the compiler establishes — every rounded operation in it receives
   `ctx=__ctx__`, i.e. it evaluates like `e` under the context currently stored
   in the local.  The emitted helper calls themselves are modelled by Sem.v's
   expression evaluator (and checked by the correspondence runs).

   The semantics is a big-step relation with three outcomes — normal, return,
   raise — each carrying the locals, so that "what does `__ctx__` hold after the
   statement" is a question the model can answer for every way out of a block. *)
From Coq Require Import ZArith List Bool String.
From FpyV Require Import Num.RealFloat Num.Float Num.CtxDef Lang.Syntax Lang.Values Lang.Sem.
Import ListNotations.
Open Scope Z_scope.

(* the locals of the compiled function: the program's own variables, the local
   `__ctx__`, and the gensym'd temporaries (`__fpy_ctx_tmp<k>`; the real Gensym
   reserves the program's names, so they never clash with user variables) *)
Record pstate := PS { p_user : env; p_ctx : value; p_tmps : list (nat * value) }.

Inductive pname := NUser (x : ident) | NCtx | NTmp (k : nat).

Inductive pexpr :=
  | PE (e : expr)          (* compiled FPy expression: ops take ctx=__ctx__ *)
  | PName (x : pname)      (* a plain name load *)
  | PRealC.                (* the namespace constant __fpy_real *)

Inductive ptarget := TPat (p : pat) | TName (x : pname).

Inductive pstmt :=
  | PAssign (ts : list ptarget) (e : pexpr)            (* t1 = t2 = ... = e *)
  | PIndexAssign (x : ident) (idx : list expr) (e : expr)
  | PExpr (e : pexpr)
  | PIf (c : pexpr) (t f : list pstmt)
  | PWhile (c : pexpr) (b : list pstmt)
  | PFor (p : pat) (it : pexpr) (b : list pstmt)
  | PTry (b fin : list pstmt)                          (* try: b finally: fin *)
  | PReturn (e : pexpr)
  | PAssert (e : pexpr)
  | PPass.

Inductive pout := PNormal (ps : pstate) | PRet (v : value) (ps : pstate) | PRaise (e : err) (ps : pstate).

Definition state_of (o : pout) : pstate :=
  match o with PNormal ps => ps | PRet _ ps => ps | PRaise _ ps => ps end.

Fixpoint tmp_get (l : list (nat * value)) (k : nat) : option value :=
  match l with
  | [] => None
  | (j, v) :: r => if Nat.eqb k j then Some v else tmp_get r k
  end.

Fixpoint tmp_set (l : list (nat * value)) (k : nat) (v : value) : list (nat * value) :=
  match l with
  | [] => [(k, v)]
  | (j, w) :: r => if Nat.eqb k j then (j, v) :: r else (j, w) :: tmp_set r k v
  end.

Definition name_get (ps : pstate) (x : pname) : option value :=
  match x with
  | NUser x => env_get (p_user ps) x
  | NCtx => Some (p_ctx ps)
  | NTmp k => tmp_get (p_tmps ps) k
  end.

Definition name_set (ps : pstate) (x : pname) (v : value) : pstate :=
  match x with
  | NUser x => PS (env_set (p_user ps) x v) (p_ctx ps) (p_tmps ps)
  | NCtx => PS (p_user ps) v (p_tmps ps)
  | NTmp k => PS (p_user ps) (p_ctx ps) (tmp_set (p_tmps ps) k v)
  end.

(* one assignment target; unpacking may fail *)
Definition target_set (ps : pstate) (t : ptarget) (v : value) : result pstate :=
  match t with
  | TName x => Ok (name_set ps x v)
  | TPat p => bind (bind_pat p v (p_user ps)) (fun s' => Ok (PS s' (p_ctx ps) (p_tmps ps)))
  end.

(* targets are assigned left to right; a failure leaves the earlier ones assigned *)
Fixpoint targets_set (ps : pstate) (ts : list ptarget) (v : value) : pstate * option err :=
  match ts with
  | [] => (ps, None)
  | t :: r =>
      match target_set ps t v with
      | Ok ps' => targets_set ps' r v
      | Err e => (ps, Some e)
      end
  end.

Section WithNP.
Variable N : numops.
Variable P : program.

(* expression evaluation: some fuel suffices *)
Definition peval (n : nat) (ps : pstate) (mu : store) (pe : pexpr) : res (value * store) :=
  match pe with
  | PE e =>
      match p_ctx ps with
      | VCtx C => eval N P n (p_user ps) mu C e
      | _ => RErr TypeErr          (* ops reject a non-Context `ctx` argument *)
      end
  | PName x => match name_get ps x with Some v => ROk (v, mu) | None => RErr NameErr end
  | PRealC => ROk (VCtx CReal, mu)
  end.

Definition pevalsto (ps : pstate) (mu : store) (pe : pexpr) (v : value) (mu' : store) : Prop :=
  exists n, peval n ps mu pe = ROk (v, mu').

Definition pevalerr (ps : pstate) (mu : store) (pe : pexpr) (e : err) : Prop :=
  exists n, peval n ps mu pe = RErr e.

Inductive pyrel : pstate -> store -> pstmt -> pout -> store -> Prop :=
  | R_Assign : forall ps mu ts pe v mu1 ps',
      pevalsto ps mu pe v mu1 -> targets_set ps ts v = (ps', None) ->
      pyrel ps mu (PAssign ts pe) (PNormal ps') mu1
  | R_AssignUnpackErr : forall ps mu ts pe v mu1 ps' e,
      pevalsto ps mu pe v mu1 -> targets_set ps ts v = (ps', Some e) ->
      pyrel ps mu (PAssign ts pe) (PRaise e ps') mu1
  | R_AssignErr : forall ps mu ts pe e,
      pevalerr ps mu pe e -> pyrel ps mu (PAssign ts pe) (PRaise e ps) mu
  | R_IndexAssign : forall ps mu x idx e C n s' mu1,
      p_ctx ps = VCtx C ->
      exec N P n (p_user ps) mu C (SIndexAssign x idx e) = ROk (ONormal s', mu1) ->
      pyrel ps mu (PIndexAssign x idx e) (PNormal (PS s' (p_ctx ps) (p_tmps ps))) mu1
  | R_IndexAssignErr : forall ps mu x idx e C n er,
      p_ctx ps = VCtx C ->
      exec N P n (p_user ps) mu C (SIndexAssign x idx e) = RErr er ->
      pyrel ps mu (PIndexAssign x idx e) (PRaise er ps) mu
  | R_Expr : forall ps mu pe v mu1,
      pevalsto ps mu pe v mu1 -> pyrel ps mu (PExpr pe) (PNormal ps) mu1
  | R_ExprErr : forall ps mu pe e,
      pevalerr ps mu pe e -> pyrel ps mu (PExpr pe) (PRaise e ps) mu
  | R_IfTrue : forall ps mu c t f mu1 o mu2,
      pevalsto ps mu c (VBool true) mu1 -> pyrel_block ps mu1 t o mu2 ->
      pyrel ps mu (PIf c t f) o mu2
  | R_IfFalse : forall ps mu c t f mu1 o mu2,
      pevalsto ps mu c (VBool false) mu1 -> pyrel_block ps mu1 f o mu2 ->
      pyrel ps mu (PIf c t f) o mu2
  | R_IfErr : forall ps mu c t f e,
      pevalerr ps mu c e -> pyrel ps mu (PIf c t f) (PRaise e ps) mu
  | R_IfType : forall ps mu c t f v mu1,
      pevalsto ps mu c v mu1 -> (forall b, v <> VBool b) ->
      pyrel ps mu (PIf c t f) (PRaise TypeErr ps) mu1
  | R_WhileFalse : forall ps mu c b mu1,
      pevalsto ps mu c (VBool false) mu1 -> pyrel ps mu (PWhile c b) (PNormal ps) mu1
  | R_WhileTrue : forall ps mu c b mu1 ps' mu2 o mu3,
      pevalsto ps mu c (VBool true) mu1 -> pyrel_block ps mu1 b (PNormal ps') mu2 ->
      pyrel ps' mu2 (PWhile c b) o mu3 ->
      pyrel ps mu (PWhile c b) o mu3
  | R_WhileExit : forall ps mu c b mu1 o mu2,
      pevalsto ps mu c (VBool true) mu1 -> pyrel_block ps mu1 b o mu2 ->
      (forall ps', o <> PNormal ps') ->
      pyrel ps mu (PWhile c b) o mu2
  | R_WhileErr : forall ps mu c b e,
      pevalerr ps mu c e -> pyrel ps mu (PWhile c b) (PRaise e ps) mu
  | R_WhileType : forall ps mu c b v mu1,
      pevalsto ps mu c v mu1 -> (forall t, v <> VBool t) ->
      pyrel ps mu (PWhile c b) (PRaise TypeErr ps) mu1
  | R_For : forall ps mu p it b l mu1 o mu2,
      pevalsto ps mu it (VList l) mu1 -> pyfor ps mu1 p l O b o mu2 ->
      pyrel ps mu (PFor p it b) o mu2
  | R_ForErr : forall ps mu p it b e,
      pevalerr ps mu it e -> pyrel ps mu (PFor p it b) (PRaise e ps) mu
  | R_ForType : forall ps mu p it b v mu1,
      pevalsto ps mu it v mu1 -> (forall l, v <> VList l) ->
      pyrel ps mu (PFor p it b) (PRaise TypeErr ps) mu1
  (* try/finally: the finaliser runs whatever the outcome of the body was, from
     the locals the body left; if it completes normally the body's outcome is
     re-issued (with the locals the finaliser left), otherwise its own outcome wins *)
  | R_TryFinally : forall ps mu b fin o1 mu1 ps2 mu2,
      pyrel_block ps mu b o1 mu1 ->
      pyrel_block (state_of o1) mu1 fin (PNormal ps2) mu2 ->
      pyrel ps mu (PTry b fin)
        (match o1 with PNormal _ => PNormal ps2 | PRet v _ => PRet v ps2 | PRaise e _ => PRaise e ps2 end) mu2
  | R_TryFinallyOverride : forall ps mu b fin o1 mu1 o2 mu2,
      pyrel_block ps mu b o1 mu1 ->
      pyrel_block (state_of o1) mu1 fin o2 mu2 -> (forall ps2, o2 <> PNormal ps2) ->
      pyrel ps mu (PTry b fin) o2 mu2
  | R_Return : forall ps mu pe v mu1,
      pevalsto ps mu pe v mu1 -> pyrel ps mu (PReturn pe) (PRet v ps) mu1
  | R_ReturnErr : forall ps mu pe e,
      pevalerr ps mu pe e -> pyrel ps mu (PReturn pe) (PRaise e ps) mu
  | R_AssertOk : forall ps mu pe mu1,
      pevalsto ps mu pe (VBool true) mu1 -> pyrel ps mu (PAssert pe) (PNormal ps) mu1
  | R_AssertFail : forall ps mu pe mu1,
      pevalsto ps mu pe (VBool false) mu1 -> pyrel ps mu (PAssert pe) (PRaise AssertErr ps) mu1
  | R_AssertErr : forall ps mu pe e,
      pevalerr ps mu pe e -> pyrel ps mu (PAssert pe) (PRaise e ps) mu
  | R_AssertType : forall ps mu pe v mu1,
      pevalsto ps mu pe v mu1 -> (forall t, v <> VBool t) ->
      pyrel ps mu (PAssert pe) (PRaise TypeErr ps) mu1
  | R_Pass : forall ps mu, pyrel ps mu PPass (PNormal ps) mu

with pyrel_block : pstate -> store -> list pstmt -> pout -> store -> Prop :=
  | RB_Nil : forall ps mu, pyrel_block ps mu [] (PNormal ps) mu
  | RB_Cons : forall ps mu st r ps1 mu1 o mu2,
      pyrel ps mu st (PNormal ps1) mu1 -> pyrel_block ps1 mu1 r o mu2 ->
      pyrel_block ps mu (st :: r) o mu2
  | RB_Exit : forall ps mu st r o mu1,
      pyrel ps mu st o mu1 -> (forall ps1, o <> PNormal ps1) ->
      pyrel_block ps mu (st :: r) o mu1

(* for x in <list at l>, from index i, reading the list live *)
with pyfor : pstate -> store -> pat -> loc -> nat -> list pstmt -> pout -> store -> Prop :=
  | RF_Done : forall ps mu p l i b vs,
      store_get mu l = Some vs -> nth_error vs i = None ->
      pyfor ps mu p l i b (PNormal ps) mu
  | RF_Step : forall ps mu p l i b vs x s1 ps2 mu2 o mu3,
      store_get mu l = Some vs -> nth_error vs i = Some x ->
      bind_pat p x (p_user ps) = Ok s1 ->
      pyrel_block (PS s1 (p_ctx ps) (p_tmps ps)) mu b (PNormal ps2) mu2 ->
      pyfor ps2 mu2 p l (S i) b o mu3 ->
      pyfor ps mu p l i b o mu3
  | RF_Exit : forall ps mu p l i b vs x s1 o mu2,
      store_get mu l = Some vs -> nth_error vs i = Some x ->
      bind_pat p x (p_user ps) = Ok s1 ->
      pyrel_block (PS s1 (p_ctx ps) (p_tmps ps)) mu b o mu2 ->
      (forall ps2, o <> PNormal ps2) ->
      pyfor ps mu p l i b o mu2
  | RF_UnpackErr : forall ps mu p l i b vs x e,
      store_get mu l = Some vs -> nth_error vs i = Some x ->
      bind_pat p x (p_user ps) = Err e ->
      pyfor ps mu p l i b (PRaise e ps) mu.

End WithNP.
