(* Properties of the FPyLang evaluator (Sem.v).
   - determinism: `eval`/`exec`/`run` are functions;
   - the rounding context is lexically scoped (E-Context);
   - the context expression of a `with` is evaluated under REAL;
   - callee-context rule, no rounding of arguments at entry;
   - fuel monotonicity: see SemMono.v. *)
From Coq Require Import ZArith List Bool String Lia.
From FpyV Require Import Num.RealFloat Num.Float Num.CtxDef Lang.Syntax Lang.Values Lang.Sem.
Import ListNotations.
Open Scope Z_scope.

Section Props.
Variable N : numops.
Variable P : program.

(* E-Context, unfolded: the header runs under REAL, the body under the new
   context with the target bound to it. *)
Lemma exec_context_unfold : forall n s mu C x e body,
  exec N P (S n) s mu C (SContext x e body) =
  rbind (eval N P n s mu CReal e) (fun '(vc, mu1) =>
    match vc with
    | VCtx C' =>
        exec_block N P n (match x with Some x => env_set s x (VCtx C') | None => s end) mu1 C' body
    | _ => RErr TypeErr
    end).
Proof. intros. reflexivity. Qed.

(* The context expression never sees the ambient context: the result of the
   whole statement does not depend on C when the body does not run (and the
   header's value is the same for every C). *)
Lemma context_header_exact : forall n s mu C1 C2 x e body,
  exec N P (S n) s mu C1 (SContext x e body) = exec N P (S n) s mu C2 (SContext x e body).
Proof. intros. rewrite !exec_context_unfold. reflexivity. Qed.

(* Lexical scoping: whatever the `with` block does, the statements after it run
   under the context C that was active before it. *)
Lemma context_lexically_scoped : forall n s mu C x e body rest s' mu',
  exec N P n s mu C (SContext x e body) = ROk (ONormal s', mu') ->
  exec_block N P (S n) s mu C (SContext x e body :: rest) = exec_block N P n s' mu' C rest.
Proof. intros. change (exec_block N P (S n) s mu C (SContext x e body :: rest)) with
    (rbind (exec N P n s mu C (SContext x e body)) (fun '(o, mu1) =>
       match o with OReturn v => ROk (OReturn v, mu1) | ONormal s' => exec_block N P n s' mu1 C rest end)).
  rewrite H. reflexivity. Qed.

(* ... and an early return from inside the block returns from the function *)
Lemma context_return_propagates : forall n s mu C x e body rest v mu',
  exec N P n s mu C (SContext x e body) = ROk (OReturn v, mu') ->
  exec_block N P (S n) s mu C (SContext x e body :: rest) = ROk (OReturn v, mu').
Proof. intros. change (exec_block N P (S n) s mu C (SContext x e body :: rest)) with
    (rbind (exec N P n s mu C (SContext x e body)) (fun '(o, mu1) =>
       match o with OReturn v => ROk (OReturn v, mu1) | ONormal s' => exec_block N P n s' mu1 C rest end)).
  rewrite H. reflexivity. Qed.

(* Callee-context rule and no rounding at entry: the parameters are bound to
   the argument values themselves; the body runs under the declared context if
   there is one, else under the caller's. *)
Lemma call_unfold : forall n fn vs mu C,
  call N P (S n) fn vs mu C =
  rbind (lift (bind_params (f_params fn) vs [])) (fun s =>
    rbind (exec_block N P n s mu (match f_ctx fn with Some c => c | None => C end) (f_body fn))
      (fun '(o, mu1) => match o with OReturn v => ROk (v, mu1) | ONormal _ => RErr OtherErr end)).
Proof.
  intros. reflexivity.
Qed.

Lemma callee_declared_ctx : forall n fn vs mu C1 C2 c,
  f_ctx fn = Some c -> call N P n fn vs mu C1 = call N P n fn vs mu C2.
Proof. intros. destruct n; [reflexivity|]. rewrite !call_unfold, H. reflexivity. Qed.

Lemma bind_params_exact : forall xs vs s s',
  bind_params xs vs s = Ok s' -> NoDup xs ->
  forall i x v, nth_error xs i = Some x -> nth_error vs i = Some v -> env_get s' x = Some v.
Proof.
  assert (get_set : forall s x v, env_get (env_set s x v) x = Some v).
  { induction s as [|[y w] s IH]; intros; cbn.
    - rewrite String.eqb_refl. reflexivity.
    - destruct (String.eqb x y) eqn:E; cbn; rewrite E; auto. }
  assert (get_set_other : forall s x y v, x <> y -> env_get (env_set s x v) y = env_get s y).
  { induction s as [|[z w] s IH]; intros; cbn.
    - destruct (String.eqb y x) eqn:E; auto. apply String.eqb_eq in E. congruence.
    - destruct (String.eqb x z) eqn:E; cbn.
      + apply String.eqb_eq in E. subst z.
        destruct (String.eqb y x) eqn:E2; auto. apply String.eqb_eq in E2. congruence.
      + destruct (String.eqb y z); auto. }
  assert (keep : forall xs vs s s' y, bind_params xs vs s = Ok s' -> ~ In y xs -> env_get s' y = env_get s y).
  { induction xs as [|x xs IH]; intros vs s s' y Hb Hn; destruct vs; cbn in Hb; try discriminate.
    - inversion Hb; auto.
    - rewrite (IH _ _ _ _ Hb). apply get_set_other. intro; subst; apply Hn; left; auto.
      intro; apply Hn; right; auto. }
  induction xs as [|x xs IH]; intros vs s s' Hb Hnd i y v Hx Hv.
  - destruct i; discriminate.
  - destruct vs as [|w vs]; cbn in Hb; try discriminate.
    inversion Hnd; subst. destruct i; cbn in Hx, Hv.
    + inversion Hx; inversion Hv; subst. rewrite (keep _ _ _ _ _ Hb H1). apply get_set.
    + eapply IH; eauto.
Qed.

(* `run`: a call from Python.  The function's own context wins, then the
   caller's, and with neither it is IEEE double. *)
Lemma run_ctx : forall n f fn args caller,
  lookup_fn P f = Some fn ->
  run N P n f args caller =
  let '(vs, mu) := inject_all args [] in
  rbind (call N P n fn vs mu (match caller with Some c => c | None => FP64 end)) (fun '(v, mu1) =>
    match extract n mu1 v with Some c => ROk c | None => RFuel end).
Proof.
  intros. unfold run. rewrite H. destruct (inject_all args []) as [vs mu].
  destruct (call N P n fn vs mu _) as [[v mu1]| |]; reflexivity.
Qed.

(* inject is the identity on scalars: arguments are not rounded on entry *)
Lemma inject_num_exact : forall x mu, inject (CNum x) mu = (VNum x, mu).
Proof. reflexivity. Qed.

End Props.
