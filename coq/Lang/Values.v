(* FPyLang: run-time values (fpy2/interpret/value.py), the store, and the
   Python-boundary conversions.  Definitions only.

   Numbers.  The interpreter's numbers are `Float | Fraction`; a dyadic
   Fraction is interchangeable with the equal Float everywhere (ops._cvt_to_real
   converts it first; value.from_value folds it on the way out), so the model has
     NF x      x : fl — every dyadic real with signed zero, +-inf, NaN
     NQ n d    a NON-dyadic rational n/d in lowest terms, d > 1 (e.g. the literal 0.1)
   Lists are locations into a store so that sharing on assignment / FPy-to-FPy
   calls / mutation through aliases is expressible (a Python list object = one
   location; lists never change length). *)
From Coq Require Import ZArith List Bool String.
From FpyV Require Import Num.RealFloat Num.Float Num.CtxDef Lang.Syntax.
Import ListNotations.
Open Scope Z_scope.

(* ---------------------------------------------------------------- numbers *)
Inductive num := NF (x : fl) | NQ (n d : Z).

Definition is_pow2 (d : Z) : bool := (0 <? d) && (Z.shiftl 1 (Z.log2 d) =? d).

(* the canonical num of the rational n/d (d <> 0); dyadic values become NF *)
Definition num_of_frac (n d : Z) : num :=
  let '(n, d) := if d <? 0 then (- n, - d) else (n, d) in
  let g := Z.gcd n d in
  let '(n, d) := if g =? 0 then (n, d) else (n / g, d / g) in
  if is_pow2 d then NF (FFin (RF (n <? 0) (- Z.log2 d) (Z.abs n)))
  else NQ n d.

Definition num_of_Z (z : Z) : num := NF (FFin (RF (z <? 0) 0 (Z.abs z))).
Definition num_zero : num := num_of_Z 0.

(* integer-valuedness (byte._is_integer) and the integer value (int(x)) *)
Definition num_is_integer (x : num) : bool :=
  match x with NF f => fl_is_integer f | NQ _ _ => false end.

Definition num_to_Z (x : num) : option Z :=
  match x with
  | NF f => match fl_to_int f with Ok z => Some z | Err _ => None end
  | NQ _ _ => None
  end.

Definition num_isnan (x : num) : bool := match x with NF f => fl_isnan f | _ => false end.
Definition num_isinf (x : num) : bool := match x with NF f => fl_isinf f | _ => false end.
(* Float.s, or `x < 0` for a Fraction *)
Definition num_sign (x : num) : bool := match x with NF f => fl_s f | NQ n _ => n <? 0 end.

(* compare the dyadic x with n/d (d > 0) exactly *)
Definition rf_cmp_frac (x : rf) (n d : Z) : comparison :=
  if rexp x >=? 0 then (rf_m x * 2 ^ rexp x * d) ?= n
  else (rf_m x * d) ?= (n * 2 ^ (- rexp x)).

(* Python's ordering of Float/Fraction: None = unordered (a NaN operand) *)
Definition num_compare (x y : num) : option comparison :=
  match x, y with
  | NF a, NF b => fl_compare a b
  | NF (FNaN _), _ | _, NF (FNaN _) => None
  | NF (FInf s), NQ _ _ => Some (if s then Lt else Gt)
  | NQ _ _, NF (FInf s) => Some (if s then Gt else Lt)
  | NF (FFin a), NQ n d => Some (rf_cmp_frac a n d)
  | NQ n d, NF (FFin b) => Some (CompOpp (rf_cmp_frac b n d))
  | NQ n1 d1, NQ n2 d2 => Some ((n1 * d2) ?= (n2 * d1))
  end.

(* "the same number": class, sign (of zeros and infinities too) and real value;
   NaN equals NaN of the same sign.  This is `veq` on numbers. *)
Definition num_same (x y : num) : bool :=
  match x, y with
  | NF (FNaN a), NF (FNaN b) => Bool.eqb a b
  | NF (FNaN _), _ | _, NF (FNaN _) => false
  | _, _ =>
      match num_compare x y with
      | Some Eq => Bool.eqb (num_sign x) (num_sign y)
      | _ => false
      end
  end.

(* ---------------------------------------------------------------- values, store *)
Definition loc := nat.

Inductive value :=
  | VBool (b : bool)
  | VNum (x : num)
  | VCtx (c : ctx)
  | VTuple (vs : list value)
  | VList (l : loc)
  | VUninit.                   (* utils.UNINIT: the placeholder `empty` fills lists with *)

(* mu: location -> contents; allocation appends, nothing is ever deallocated *)
Definition store := list (list value).

Definition store_get (mu : store) (l : loc) : option (list value) := nth_error mu l.

Definition alloc (mu : store) (vs : list value) : loc * store := (List.length mu, mu ++ [vs]).

Fixpoint list_set {A} (l : list A) (i : nat) (v : A) : list A :=
  match l, i with
  | [], _ => []
  | _ :: r, O => v :: r
  | x :: r, S i' => x :: list_set r i' v
  end.

(* write element i of the list at location l (caller has checked the bounds) *)
Definition store_set (mu : store) (l : loc) (i : nat) (v : value) : store :=
  match nth_error mu l with
  | Some vs => list_set mu l (list_set vs i v)
  | None => mu
  end.

(* sigma: an association list; later bindings shadow earlier ones by update *)
Definition env := list (ident * value).

Fixpoint env_get (s : env) (x : ident) : option value :=
  match s with
  | [] => None
  | (y, v) :: s' => if String.eqb x y then Some v else env_get s' x
  end.

Fixpoint env_set (s : env) (x : ident) (v : value) : env :=
  match s with
  | [] => [(x, v)]
  | (y, w) :: s' => if String.eqb x y then (y, v) :: s' else (y, w) :: env_set s' x v
  end.

(* ---------------------------------------------------------------- the Python boundary *)
(* What the Python caller passes / receives: closed trees (value.to_value rebuilds
   every container, so no sharing crosses the boundary). *)
Inductive cval :=
  | CBool (b : bool)
  | CNum (x : num)
  | CCtx (c : ctx)
  | CTuple (vs : list cval)
  | CList (vs : list cval)
  | CUninit.

(* value.to_value: every list becomes a fresh location *)
Fixpoint inject (v : cval) (mu : store) : value * store :=
  let inject_list :=
    fix go (l : list cval) (mu : store) : list value * store :=
      match l with
      | [] => ([], mu)
      | x :: r =>
          let '(v, mu1) := inject x mu in
          let '(vs, mu2) := go r mu1 in
          (v :: vs, mu2)
      end in
  match v with
  | CBool b => (VBool b, mu)
  | CNum x => (VNum x, mu)
  | CCtx c => (VCtx c, mu)
  | CUninit => (VUninit, mu)
  | CTuple l => let '(vs, mu') := inject_list l mu in (VTuple vs, mu')
  | CList l =>
      let '(vs, mu') := inject_list l mu in
      let '(lc, mu'') := alloc mu' vs in
      (VList lc, mu'')
  end.

Fixpoint inject_all (l : list cval) (mu : store) : list value * store :=
  match l with
  | [] => ([], mu)
  | x :: r =>
      let '(v, mu1) := inject x mu in
      let '(vs, mu2) := inject_all r mu1 in
      (v :: vs, mu2)
  end.

(* value.from_value: read a value out of the store (fuel bounds the depth; a
   cyclic list, which `xs[0] = xs` can build, has no finite image) *)
Fixpoint extract (n : nat) (mu : store) (v : value) : option cval :=
  match n with
  | O => None
  | S n' =>
      let extract_list :=
        fix go (l : list value) : option (list cval) :=
          match l with
          | [] => Some []
          | x :: r =>
              match extract n' mu x, go r with
              | Some c, Some cs => Some (c :: cs)
              | _, _ => None
              end
          end in
      match v with
      | VBool b => Some (CBool b)
      | VNum x => Some (CNum x)
      | VCtx c => Some (CCtx c)
      | VUninit => Some CUninit
      | VTuple vs => match extract_list vs with Some cs => Some (CTuple cs) | None => None end
      | VList l =>
          match store_get mu l with
          | Some vs => match extract_list vs with Some cs => Some (CList cs) | None => None end
          | None => None
          end
      end
  end.

(* ---------------------------------------------------------------- decidable comparisons *)
Definition rmode_eqb (a b : rmode) : bool :=
  match a, b with
  | RNE, RNE | RNA, RNA | RTP, RTP | RTN, RTN | RTZ, RTZ | RAZ, RAZ | RTO, RTO | RTE, RTE => true
  | _, _ => false
  end.

Definition ovmode_eqb (a b : ovmode) : bool :=
  match a, b with
  | OV_OVERFLOW, OV_OVERFLOW | OV_SATURATE, OV_SATURATE | OV_WRAP, OV_WRAP | OV_ASSERT, OV_ASSERT => true
  | _, _ => false
  end.

Definition nankind_eqb (a b : nankind) : bool :=
  match a, b with
  | NK_IEEE, NK_IEEE | NK_MAXVAL, NK_MAXVAL | NK_NEGZERO, NK_NEGZERO | NK_NONE, NK_NONE => true
  | _, _ => false
  end.

Definition optZ_eqb (a b : option Z) : bool :=
  match a, b with Some x, Some y => x =? y | None, None => true | _, _ => false end.

Definition fl_same (a b : fl) : bool := num_same (NF a) (NF b).

Definition optfl_eqb (a b : option fl) : bool :=
  match a, b with Some x, Some y => fl_same x y | None, None => true | _, _ => false end.

Definition rf_same (a b : rf) : bool := fl_same (FFin a) (FFin b).

Definition special_eqb (a b : special) : bool :=
  Bool.eqb (sp_enable_nan a) (sp_enable_nan b) && Bool.eqb (sp_enable_inf a) (sp_enable_inf b) &&
  optfl_eqb (sp_nan_value a) (sp_nan_value b) && optfl_eqb (sp_inf_value a) (sp_inf_value b).

(* Context.__eq__: same family, same parameters *)
Definition ctx_eqb (a b : ctx) : bool :=
  match a, b with
  | CReal, CReal => true
  | CMPFloat p rm k sp, CMPFloat p' rm' k' sp' =>
      (p =? p') && rmode_eqb rm rm' && optZ_eqb k k' && special_eqb sp sp'
  | CMPSFloat p e rm k sp, CMPSFloat p' e' rm' k' sp' =>
      (p =? p') && (e =? e') && rmode_eqb rm rm' && optZ_eqb k k' && special_eqb sp sp'
  | CMPBFloat p e pm nm rm ov k sp, CMPBFloat p' e' pm' nm' rm' ov' k' sp' =>
      (p =? p') && (e =? e') && rf_same pm pm' && rf_same nm nm' && rmode_eqb rm rm' &&
      ovmode_eqb ov ov' && optZ_eqb k k' && special_eqb sp sp'
  | CEFloat es nb ei nk eo rm ov k nv iv, CEFloat es' nb' ei' nk' eo' rm' ov' k' nv' iv' =>
      (es =? es') && (nb =? nb') && Bool.eqb ei ei' && nankind_eqb nk nk' && (eo =? eo') &&
      rmode_eqb rm rm' && ovmode_eqb ov ov' && optZ_eqb k k' && optfl_eqb nv nv' && optfl_eqb iv iv'
  | CMPFixed n rm k sp nz, CMPFixed n' rm' k' sp' nz' =>
      (n =? n') && rmode_eqb rm rm' && optZ_eqb k k' && special_eqb sp sp' && Bool.eqb nz nz'
  | CMPBFixed n pm nm rm ov k sp nz, CMPBFixed n' pm' nm' rm' ov' k' sp' nz' =>
      (n =? n') && rf_same pm pm' && rf_same nm nm' && rmode_eqb rm rm' && ovmode_eqb ov ov' &&
      optZ_eqb k k' && special_eqb sp sp' && Bool.eqb nz nz'
  | CFixed sg sc nb rm ov k nv iv, CFixed sg' sc' nb' rm' ov' k' nv' iv' =>
      Bool.eqb sg sg' && (sc =? sc') && (nb =? nb') && rmode_eqb rm rm' && ovmode_eqb ov ov' &&
      optZ_eqb k k' && optfl_eqb nv nv' && optfl_eqb iv iv'
  | CSMFixed sc nb rm ov k nv iv, CSMFixed sc' nb' rm' ov' k' nv' iv' =>
      (sc =? sc') && (nb =? nb') && rmode_eqb rm rm' && ovmode_eqb ov ov' &&
      optZ_eqb k k' && optfl_eqb nv nv' && optfl_eqb iv iv'
  | CExp nb eo rm ov iv, CExp nb' eo' rm' ov' iv' =>
      (nb =? nb') && (eo =? eo') && rmode_eqb rm rm' && ovmode_eqb ov ov' && optfl_eqb iv iv'
  | _, _ => false
  end.

(* `veq` of DESIGN.md 3.2 on closed values: numbers by class/sign/real value,
   NaN = NaN, containers element-wise *)
Fixpoint cval_eqb (a b : cval) {struct a} : bool :=
  let eq_list :=
    fix go (l : list cval) (m : list cval) : bool :=
      match l, m with
      | [], [] => true
      | x :: l', y :: m' => cval_eqb x y && go l' m'
      | _, _ => false
      end in
  match a, b with
  | CBool x, CBool y => Bool.eqb x y
  | CNum x, CNum y => num_same x y
  | CCtx x, CCtx y => ctx_eqb x y
  | CTuple l, CTuple m => eq_list l m
  | CList l, CList m => eq_list l m
  | CUninit, CUninit => true
  | _, _ => false
  end.
