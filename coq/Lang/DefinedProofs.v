(* C15 — proofs about the model of Lang/Defined.v. *)
From Coq Require Import List Bool Arith Lia.
From FpyV Require Import Lang.Defined.
Import ListNotations.

(* ------------------------------------------------------------------ the checker's environment *)

Lemma lookup_set_var x b vs y :
  lookup y (set_var x b vs) = if Nat.eqb y x then Some b else lookup y vs.
Proof.
  induction vs as [|[z c] r IH]; simpl.
  - destruct (Nat.eqb y x); reflexivity.
  - destruct (Nat.eqb x z) eqn:Exz; simpl.
    + apply Nat.eqb_eq in Exz. subst z. destruct (Nat.eqb y x); reflexivity.
    + rewrite IH. destruct (Nat.eqb y z) eqn:Eyz; [|reflexivity].
      apply Nat.eqb_eq in Eyz. subst z.
      destruct (Nat.eqb y x) eqn:Eyx; [|reflexivity].
      apply Nat.eqb_eq in Eyx. subst y. rewrite Nat.eqb_refl in Exz. discriminate.
Qed.

Lemma defined_extend x E y : defined (extend x E) y = Nat.eqb y x || defined E y.
Proof.
  unfold defined, extend. simpl. rewrite lookup_set_var. destruct (Nat.eqb y x); reflexivity.
Qed.

Lemma term_extend_all ts : forall E, term (extend_all ts E) = term E.
Proof. unfold extend_all. induction ts as [|t r IH]; intros E; simpl; [reflexivity|]. rewrite IH. reflexivity. Qed.

Lemma defined_extend_all ts : forall E y,
  defined (extend_all ts E) y = existsb (Nat.eqb y) ts || defined E y.
Proof.
  unfold extend_all. induction ts as [|t r IH]; intros E y; simpl; [reflexivity|].
  rewrite IH, defined_extend. destruct (Nat.eqb y t), (existsb (Nat.eqb y) r); reflexivity.
Qed.

Lemma lookup_fold_set (g : name -> bool) keys : forall acc y,
  lookup y (fold_left (fun acc k => set_var k (g k) acc) keys acc) =
  if existsb (Nat.eqb y) keys then Some (g y) else lookup y acc.
Proof.
  induction keys as [|k r IH]; intros acc y; simpl; [reflexivity|].
  rewrite IH, lookup_set_var.
  destruct (Nat.eqb y k) eqn:E; simpl.
  - apply Nat.eqb_eq in E. subst k. destruct (existsb (Nat.eqb y) r); reflexivity.
  - reflexivity.
Qed.

Lemma lookup_none_keys y vs : existsb (Nat.eqb y) (map fst vs) = false -> lookup y vs = None.
Proof.
  induction vs as [|[z c] r IH]; simpl; [reflexivity|].
  destruct (Nat.eqb y z); simpl; [discriminate|exact IH].
Qed.

Lemma term_merge A B : term (merge A B) = term A && term B.
Proof. unfold merge. destruct (term A), (term B); reflexivity. Qed.

Lemma defined_getd E y : defined E y = getd y (vars E).
Proof. unfold defined, getd. destruct (lookup y (vars E)) as [[|]|]; reflexivity. Qed.

Lemma defined_merge A B y :
  defined (merge A B) y =
  if term A && term B then false
  else if term A then defined B y
  else if term B then defined A y
  else defined A y && defined B y.
Proof.
  unfold merge. destruct (term A) eqn:TA, (term B) eqn:TB; simpl; try reflexivity.
  unfold defined at 1. simpl. rewrite lookup_fold_set, existsb_app.
  rewrite !defined_getd.
  destruct (existsb _ (map fst (vars A))) eqn:KA; simpl.
  - destruct (getd y (vars A) && getd y (vars B)); reflexivity.
  - destruct (existsb _ (map fst (vars B))) eqn:KB.
    + destruct (getd y (vars A) && getd y (vars B)); reflexivity.
    + simpl. unfold getd. rewrite (lookup_none_keys y (vars A) KA). reflexivity.
Qed.

(* with a live left operand, a merge never defines more than the left operand *)
Lemma defined_merge_l A B y : term A = false -> defined (merge A B) y = true -> defined A y = true.
Proof.
  intros TA H. rewrite defined_merge, TA in H. simpl in H.
  destruct (term B); [exact H|]. apply andb_true_iff in H. apply H.
Qed.

Lemma defined_merge_r A B y :
  term B = false -> defined (merge A B) y = true -> defined B y = true.
Proof.
  intros TB H. rewrite defined_merge, TB in H. rewrite andb_false_r in H.
  destruct (term A); [exact H|]. apply andb_true_iff in H. apply H.
Qed.

(* ------------------------------------------------------------------ semantics: basics *)

Lemma bound_app ts sigma x : bound (ts ++ sigma) x = existsb (Nat.eqb x) ts || bound sigma x.
Proof. unfold bound. apply existsb_app. Qed.

Definition Inv (E : cenv) (sigma : list name) : Prop :=
  forall x, defined E x = true -> bound sigma x = true.

Lemma Inv_extend_all ts E sigma : Inv E sigma -> Inv (extend_all ts E) (ts ++ sigma).
Proof.
  intros H x Hx. rewrite defined_extend_all in Hx. rewrite bound_app.
  destruct (existsb (Nat.eqb x) ts); [reflexivity|]. simpl in *. apply H. exact Hx.
Qed.

Lemma Inv_extend x E sigma : Inv E sigma -> Inv (extend x E) (x :: sigma).
Proof.
  intros H y Hy. rewrite defined_extend in Hy. unfold bound. simpl.
  destruct (Nat.eqb y x); [reflexivity|]. simpl in *. apply H. exact Hy.
Qed.

Section WithOracle.
  Variable o : nat -> bool.

  Lemma eval_sound e : forall E sigma k,
    check_expr E e = true -> Inv E sigma -> fst (eval_expr o sigma k e) = true.
  Proof.
    induction e as [|x|a IHa b IHb|ts it IHi elt IHe]; intros E sigma k Hc HI; simpl in *.
    - reflexivity.
    - apply HI. exact Hc.
    - apply andb_true_iff in Hc as [Ha Hb].
      specialize (IHa E sigma k Ha HI). destruct (eval_expr o sigma k a) as [oka k1]. simpl in IHa. subst oka.
      apply (IHb E sigma k1 Hb HI).
    - apply andb_true_iff in Hc as [Hi He].
      specialize (IHi E sigma k Hi HI). destruct (eval_expr o sigma k it) as [oki k1]. simpl in IHi. subst oki.
      destruct (o k1); [|reflexivity].
      apply (IHe (extend_all ts E) (ts ++ sigma) (S k1) He). apply Inv_extend_all. exact HI.
  Qed.

  Definition grows (sigma : list name) (out : outcome) : Prop :=
    match out with
    | ONormal sigma' _ => forall x, bound sigma x = true -> bound sigma' x = true
    | _ => True
    end.

  Lemma grows_app ts sigma out : grows (ts ++ sigma) out -> grows sigma out.
  Proof.
    destruct out; simpl; try tauto. intros H x Hx. apply H. rewrite bound_app, Hx. apply orb_true_r.
  Qed.

  (* bound names are never lost *)
  Lemma exec_grows : forall fuel,
    (forall s sigma k, grows sigma (exec_stmt o fuel sigma k s)) /\
    (forall ss sigma k, grows sigma (exec_block o fuel sigma k ss)) /\
    (forall c ts b sigma k, grows sigma (exec_iter o fuel sigma k c ts b)).
  Proof.
    induction fuel as [|f (IHs & IHb & IHi)]; [repeat split; intros; exact I|].
    split; [|split].
    - intros s sigma k. destruct s; simpl.
      + destruct (eval_expr o sigma k e) as [ok k1]. destruct ok; simpl; [|exact I].
        intros x Hx. rewrite bound_app, Hx. apply orb_true_r.
      + destruct (eval_expr o sigma k e) as [ok k1]. destruct ok; simpl; [|exact I]. auto.
      + destruct (eval_expr o sigma k c) as [ok k1]. destruct ok; simpl; [|exact I].
        destruct (o k1); [apply IHb|simpl; auto].
      + destruct (eval_expr o sigma k c) as [ok k1]. destruct ok; simpl; [|exact I].
        destruct (o k1); apply IHb.
      + apply IHi.
      + destruct (eval_expr o sigma k iter) as [ok k1]. destruct ok; simpl; [|exact I]. apply IHi.
      + destruct (eval_expr o sigma k ctx) as [ok k1]. destruct ok; simpl; [|exact I].
        destruct t as [x|]; [|apply IHb].
        apply (grows_app [x] sigma). apply IHb.
      + destruct (eval_expr o sigma k e) as [ok k1]. destruct ok; exact I.
      + simpl. auto.
    - intros ss sigma k. destruct ss as [|s r]; simpl; [auto|].
      pose proof (IHs s sigma k) as H1. destruct (exec_stmt o f sigma k s) as [s1 k1| | |]; simpl; try exact I.
      pose proof (IHb r s1 k1) as H2. destruct (exec_block o f s1 k1 r); simpl in *; auto.
    - intros c ts b sigma k. simpl.
      destruct (match c with Some ce => eval_expr o sigma k ce | None => (true, k) end) as [ok k1].
      destruct ok; [|exact I]. destruct (o k1); [|simpl; auto].
      pose proof (IHb b (ts ++ sigma) (S k1)) as H1.
      destruct (exec_block o f (ts ++ sigma) (S k1) b) as [s1 k2| | |]; simpl; try exact I.
      pose proof (IHi c ts b s1 k2) as H2.
      destruct (exec_iter o f s1 k2 c ts b); simpl in *; auto.
      intros x Hx. apply H2, H1. rewrite bound_app, Hx. apply orb_true_r.
  Qed.

  (* ---------------------------------------------------------------- soundness of the repaired checker *)

  Definition good (E' : cenv) (out : outcome) : Prop :=
    match out with
    | ONormal sigma' _ => term E' = false /\ Inv E' sigma'
    | OReturn => True
    | OErr _ => False
    | OFuel => True
    end.

  Definition good_loop (E : cenv) (out : outcome) : Prop :=
    match out with
    | ONormal sigma' _ => Inv E sigma'
    | OReturn => True
    | OErr _ => False
    | OFuel => True
    end.

  Lemma Inv_merge_l A B sigma : term A = false -> Inv A sigma -> Inv (merge A B) sigma.
  Proof. intros TA H x Hx. apply H. eapply defined_merge_l; eassumption. Qed.

  Lemma check_block_eq fx E ss : check_list (check_stmt fx) E ss = check_block fx E ss.
  Proof. reflexivity. Qed.

  Lemma exec_sound : forall fuel,
    (forall s E E' sigma k, check_stmt true E s = Some E' -> term E = false -> Inv E sigma ->
                            good E' (exec_stmt o fuel sigma k s)) /\
    (forall ss E E' sigma k, check_block true E ss = Some E' -> term E = false -> Inv E sigma ->
                             good E' (exec_block o fuel sigma k ss)) /\
    (forall c ts b E Eb sigma k,
        term E = false -> Inv E sigma ->
        check_block true (extend_all ts E) b = Some Eb ->
        match c with Some ce => check_expr (merge E Eb) ce = true | None => True end ->
        good_loop E (exec_iter o fuel sigma k c ts b)).
  Proof.
    induction fuel as [|f (IHs & IHb & IHi)]; [repeat split; intros; exact I|].
    split; [|split].
    - (* statements *)
      intros s E E' sigma k Hc TE HI. destruct s; cbn [check_stmt] in Hc; simpl exec_stmt.
      + (* assign *)
        destruct (check_expr E e) eqn:He; [|discriminate]. inversion Hc; subst E'.
        pose proof (eval_sound e E sigma k He HI) as Hev.
        destruct (eval_expr o sigma k e) as [ok k1]. simpl in Hev. subst ok. simpl.
        split; [rewrite term_extend_all; exact TE|apply Inv_extend_all; exact HI].
      + (* effect *)
        destruct (check_expr E e) eqn:He; [|discriminate]. inversion Hc; subst E'.
        pose proof (eval_sound e E sigma k He HI) as Hev.
        destruct (eval_expr o sigma k e) as [ok k1]. simpl in Hev. subst ok. simpl. split; assumption.
      + (* one-armed if *)
        destruct (check_expr E c) eqn:He; [|discriminate].
        rewrite check_block_eq in Hc. destruct (check_block true E body) as [Eb|] eqn:Hb; [|discriminate].
        inversion Hc; subst E'.
        pose proof (eval_sound c E sigma k He HI) as Hev.
        destruct (eval_expr o sigma k c) as [ok k1]. simpl in Hev. subst ok.
        destruct (o k1).
        * pose proof (IHb body E Eb sigma (S k1) Hb TE HI) as G.
          pose proof (proj1 (proj2 (exec_grows f)) body sigma (S k1)) as Gr.
          destruct (exec_block o f sigma (S k1) body) as [s1 k2| | |]; cbn [good good_loop grows] in *; try exact G.
          rewrite term_merge, TE. split; [reflexivity|].
          apply Inv_merge_l; [exact TE|]. intros x Hx. apply Gr. apply HI. exact Hx.
        * cbn [good]. rewrite term_merge, TE. split; [reflexivity|]. apply Inv_merge_l; assumption.
      + (* if / else *)
        destruct (check_expr E c) eqn:He; [|discriminate].
        rewrite !check_block_eq in Hc.
        destruct (check_block true E ift) as [Ea|] eqn:Ha; [|discriminate].
        destruct (check_block true E iff) as [Eb|] eqn:Hb; [|discriminate].
        inversion Hc; subst E'.
        pose proof (eval_sound c E sigma k He HI) as Hev.
        destruct (eval_expr o sigma k c) as [ok k1]. simpl in Hev. subst ok.
        destruct (o k1).
        * pose proof (IHb ift E Ea sigma (S k1) Ha TE HI) as G.
          destruct (exec_block o f sigma (S k1) ift) as [s1 k2| | |]; cbn [good good_loop grows] in *; try exact G.
          destruct G as [TA IA]. rewrite term_merge, TA. split; [reflexivity|].
          intros x Hx. apply IA. eapply defined_merge_l; eassumption.
        * pose proof (IHb iff E Eb sigma (S k1) Hb TE HI) as G.
          destruct (exec_block o f sigma (S k1) iff) as [s1 k2| | |]; cbn [good good_loop grows] in *; try exact G.
          destruct G as [TB IB]. rewrite term_merge, TB, andb_false_r. split; [reflexivity|].
          intros x Hx. apply IB. eapply defined_merge_r; eassumption.
      + (* while *)
        rewrite check_block_eq in Hc. destruct (check_block true E body) as [Eb|] eqn:Hb; [|discriminate].
        destruct (check_expr (merge E Eb) c) eqn:He; [|discriminate]. inversion Hc; subst E'.
        pose proof (IHi (Some c) [] body E Eb sigma k TE HI Hb He) as G.
        destruct (exec_iter o f sigma k (Some c) [] body) as [s1 k2| | |]; cbn [good good_loop grows] in *; try exact G.
        rewrite term_merge, TE. split; [reflexivity|]. apply Inv_merge_l; assumption.
      + (* for, repaired rule *)
        destruct (check_expr E iter) eqn:He; [|discriminate].
        rewrite check_block_eq in Hc.
        destruct (check_block true (extend_all ts E) body) as [Eb|] eqn:Hb; [|discriminate].
        inversion Hc; subst E'.
        pose proof (eval_sound iter E sigma k He HI) as Hev.
        destruct (eval_expr o sigma k iter) as [ok k1]. simpl in Hev. subst ok.
        pose proof (IHi None ts body E Eb sigma k1 TE HI Hb I) as G.
        destruct (exec_iter o f sigma k1 None ts body) as [s1 k2| | |]; cbn [good good_loop grows] in *; try exact G.
        rewrite term_merge, TE. split; [reflexivity|]. apply Inv_merge_l; assumption.
      + (* with *)
        destruct (check_expr E ctx) eqn:He; [|discriminate]. rewrite check_block_eq in Hc.
        pose proof (eval_sound ctx E sigma k He HI) as Hev.
        destruct (eval_expr o sigma k ctx) as [ok k1]. simpl in Hev. subst ok.
        destruct t as [x|].
        * apply (IHb body (extend x E) E' (x :: sigma) k1 Hc); [exact TE|apply Inv_extend; exact HI].
        * apply (IHb body E E' sigma k1 Hc TE HI).
      + (* return *)
        destruct (check_expr E e) eqn:He; [|discriminate].
        pose proof (eval_sound e E sigma k He HI) as Hev.
        destruct (eval_expr o sigma k e) as [ok k1]. simpl in Hev. subst ok. exact I.
      + (* pass *)
        inversion Hc; subst E'. simpl. split; assumption.
    - (* blocks *)
      intros ss E E' sigma k Hc TE HI. destruct ss as [|s r]; simpl exec_block.
      + inversion Hc; subst E'. simpl. split; assumption.
      + unfold check_block in Hc. cbn [check_list] in Hc.
        destruct (check_stmt true E s) as [E1|] eqn:Hs; [|discriminate].
        pose proof (IHs s E E1 sigma k Hs TE HI) as G.
        destruct (exec_stmt o f sigma k s) as [s1 k1| | |]; cbn [good good_loop grows] in *; try exact G.
        destruct G as [T1 I1]. apply (IHb r E1 E' s1 k1 Hc T1 I1).
    - (* loops *)
      intros c ts b E Eb sigma k TE HI Hb Hcnd. simpl exec_iter.
      assert (Hev : fst (match c with Some ce => eval_expr o sigma k ce | None => (true, k) end) = true).
      { destruct c as [ce|]; [|reflexivity].
        apply (eval_sound ce (merge E Eb) sigma k Hcnd). apply Inv_merge_l; assumption. }
      destruct (match c with Some ce => eval_expr o sigma k ce | None => (true, k) end) as [ok k1].
      simpl in Hev. subst ok. destruct (o k1); [|simpl; exact HI].
      pose proof (IHb b (extend_all ts E) Eb (ts ++ sigma) (S k1) Hb) as G.
      rewrite term_extend_all in G. specialize (G TE (Inv_extend_all ts E sigma HI)).
      pose proof (proj1 (proj2 (exec_grows f)) b (ts ++ sigma) (S k1)) as Gr.
      destruct (exec_block o f (ts ++ sigma) (S k1) b) as [s1 k2| | |]; cbn [good good_loop grows] in *; try exact G.
      apply (IHi c ts b E Eb s1 k2 TE); [|exact Hb|exact Hcnd].
      intros x Hx. apply Gr. rewrite bound_app. rewrite (HI x Hx). apply orb_true_r.
  Qed.

  (* ---------------------------------------------------------------- no fall-through *)

  Definition not_normal (out : outcome) : Prop :=
    match out with ONormal _ _ => False | _ => True end.

  Lemma reach_block_cons r s rest :
    reach_block r (s :: rest) =
    (let '(o1, ok1) := reach_stmt r s in let '(o2, ok2) := reach_block o1 rest in (o2, ok1 && ok2)).
  Proof. reflexivity. Qed.

  Lemma no_fallthrough : forall fuel,
    (forall s sigma k, fst (reach_stmt true s) = false -> not_normal (exec_stmt o fuel sigma k s)) /\
    (forall ss sigma k, fst (reach_block true ss) = false -> not_normal (exec_block o fuel sigma k ss)).
  Proof.
    induction fuel as [|f (IHs & IHb)]; [split; intros; exact I|].
    split.
    - intros s sigma k H. destruct s; cbn [reach_stmt] in H; simpl exec_stmt; try discriminate.
      + fold reach_block in H. destruct (reach_block true body). discriminate.
      + fold reach_block in H.
        destruct (reach_block true ift) as [oa oka] eqn:Ea.
        destruct (reach_block true iff) as [ob okb] eqn:Eb. simpl in H.
        apply orb_false_iff in H as [Ha Hb]. subst oa ob.
        destruct (eval_expr o sigma k c) as [ok k1]. destruct ok; [|exact I].
        destruct (o k1); apply IHb; [rewrite Ea|rewrite Eb]; reflexivity.
      + fold reach_block in H. destruct (reach_block true body). discriminate.
      + fold reach_block in H. destruct (reach_block true body). discriminate.
      + fold reach_block in H. destruct (reach_block true body) as [ob okb] eqn:Eb. simpl in H. subst ob.
        destruct (eval_expr o sigma k ctx) as [ok k1]. destruct ok; [|exact I].
        apply IHb. rewrite Eb. reflexivity.
      + destruct (eval_expr o sigma k e) as [ok k1]. destruct ok; exact I.
    - intros ss sigma k H. destruct ss as [|s r]; [discriminate|]. simpl exec_block.
      rewrite reach_block_cons in H.
      destruct (reach_stmt true s) as [o1 ok1] eqn:Es.
      destruct (reach_block o1 r) as [o2 ok2] eqn:Er. simpl in H. subst o2.
      destruct o1.
      + destruct (exec_stmt o f sigma k s) as [s1 k1| | |]; try exact I.
        apply IHb. rewrite Er. reflexivity.
      + pose proof (IHs s sigma k) as Hs. rewrite Es in Hs. specialize (Hs eq_refl).
        destruct (exec_stmt o f sigma k s); try exact I. contradiction.
  Qed.
End WithOracle.

(* ------------------------------------------------------------------ the theorems *)

Lemma Inv_env0 ps : Inv (env0 ps) ps.
Proof.
  intros x Hx. unfold env0 in Hx. rewrite defined_extend_all in Hx.
  unfold bound. destruct (existsb (Nat.eqb x) ps); [reflexivity|]. simpl in Hx.
  unfold defined in Hx. simpl in Hx. discriminate.
Qed.

(* with the repaired `_visit_for`: an accepted program never reads an unbound
   name and never falls off its end, whatever the branch outcomes and trip
   counts (zero-trip loops and untaken one-armed ifs included) *)
Theorem accept_fixed_sound ps body :
  accept_fixed ps body = true ->
  forall o fuel e, run o fuel ps body <> OErr e.
Proof.
  unfold accept_fixed, accept_gen. intros H o fuel e.
  destruct (check_block true (env0 ps) body) as [E'|] eqn:Hc; [|discriminate].
  unfold reach_ok in H. destruct (reach_block true body) as [ro ok] eqn:Hr.
  apply andb_true_iff in H as [_ Hno]. apply negb_true_iff in Hno. subst ro.
  unfold run.
  assert (TE : term (env0 ps) = false) by (unfold env0; rewrite term_extend_all; reflexivity).
  pose proof (proj1 (proj2 (exec_sound o fuel)) body (env0 ps) E' ps 0 Hc TE (Inv_env0 ps)) as G.
  pose proof (proj2 (no_fallthrough o fuel) body ps 0) as N. rewrite Hr in N. specialize (N eq_refl).
  destruct (exec_block o fuel ps 0 body); simpl in *; try contradiction; discriminate.
Qed.

(* the checker as coded accepts a program that reads an unbound name *)
Theorem accept_sound_refuted :
  exists ps body o fuel, accept ps body = true /\ run o fuel ps body = OErr NameErr.
Proof.
  (* def f(xs): for x in xs: pass ; return x      with xs empty *)
  exists [0], [SFor [1] (EVar 0) [SPass]; SReturn (EVar 1)], (fun _ => false), 10.
  split; vm_compute; reflexivity.
Qed.

(* PARTIAL: the statement of the property for fpy2 as it is, outside the
   refuted arm: on every program on which the coded rule and the repaired rule
   for `for` agree (i.e. that does not rely on a loop target after its loop). *)
Theorem accept_sound_partial ps body :
  accept ps body = true -> accept_fixed ps body = true ->
  forall o fuel e, run o fuel ps body <> OErr e.
Proof. intros _ H. apply accept_fixed_sound. exact H. Qed.

(* ------------------------------------------------------------------ programs without `for` *)

Fixpoint stmt_ind3 (P : stmt -> Prop)
    (HA : forall ts e, P (SAssign ts e)) (HE : forall e, P (SEffect e))
    (H1 : forall c b, Forall P b -> P (SIf1 c b))
    (H2 : forall c a b, Forall P a -> Forall P b -> P (SIf c a b))
    (HW : forall c b, Forall P b -> P (SWhile c b))
    (HF : forall ts it b, Forall P b -> P (SFor ts it b))
    (HC : forall t c b, Forall P b -> P (SWith t c b))
    (HR : forall e, P (SReturn e)) (HP : P SPass)
    (s : stmt) {struct s} : P s :=
  let lst := fix lst (ss : list stmt) : Forall P ss :=
    match ss with
    | [] => Forall_nil P
    | x :: r => Forall_cons x (stmt_ind3 P HA HE H1 H2 HW HF HC HR HP x) (lst r)
    end in
  match s with
  | SAssign ts e => HA ts e
  | SEffect e => HE e
  | SIf1 c b => H1 c b (lst b)
  | SIf c a b => H2 c a b (lst a) (lst b)
  | SWhile c b => HW c b (lst b)
  | SFor ts it b => HF ts it b (lst b)
  | SWith t c b => HC t c b (lst b)
  | SReturn e => HR e
  | SPass => HP
  end.

Fixpoint no_for (s : stmt) : bool :=
  match s with
  | SFor _ _ _ => false
  | SIf1 _ b | SWhile _ b | SWith _ _ b => forallb no_for b
  | SIf _ a b => forallb no_for a && forallb no_for b
  | _ => true
  end.

Lemma check_list_ext (f g : cenv -> stmt -> option cenv) ss :
  Forall (fun s => forall E, f E s = g E s) ss ->
  forall E, check_list f E ss = check_list g E ss.
Proof.
  intros H. induction H as [|s r Hs Hr IH]; intros E; simpl; [reflexivity|].
  rewrite Hs. destruct (g E s); [apply IH|reflexivity].
Qed.

Lemma Forall_no_for (P : stmt -> Prop) ss :
  Forall (fun s => no_for s = true -> P s) ss -> forallb no_for ss = true -> Forall P ss.
Proof.
  intros H. induction H as [|s r Hs Hr IH]; simpl; intros Hn; [constructor|].
  apply andb_true_iff in Hn as [H1 H2]. constructor; [apply Hs; exact H1|apply IH; exact H2].
Qed.

Lemma check_no_for s :
  no_for s = true -> forall E, check_stmt false E s = check_stmt true E s.
Proof.
  induction s as [ts e|e|c b IH|c a b IHa IHb|c b IH|ts it b IH|t c b IH|e|] using stmt_ind3;
    intros Hn E; cbn [check_stmt]; try reflexivity.
  - simpl in Hn. rewrite (check_list_ext (check_stmt false) (check_stmt true) b); [reflexivity|].
    apply Forall_no_for; assumption.
  - simpl in Hn. apply andb_true_iff in Hn as [Hna Hnb].
    rewrite (check_list_ext (check_stmt false) (check_stmt true) a) by (apply Forall_no_for; assumption).
    rewrite (check_list_ext (check_stmt false) (check_stmt true) b) by (apply Forall_no_for; assumption).
    reflexivity.
  - simpl in Hn. rewrite (check_list_ext (check_stmt false) (check_stmt true) b); [reflexivity|].
    apply Forall_no_for; assumption.
  - discriminate.
  - simpl in Hn. rewrite (check_list_ext (check_stmt false) (check_stmt true) b); [reflexivity|].
    apply Forall_no_for; assumption.
Qed.

(* fpy2 as it is, on programs without `for` loops: full statement *)
Theorem accept_sound_no_for ps body :
  forallb no_for body = true -> accept ps body = true ->
  forall o fuel e, run o fuel ps body <> OErr e.
Proof.
  intros Hn Ha. apply accept_fixed_sound.
  unfold accept, accept_fixed, accept_gen in *.
  unfold check_block in *.
  rewrite <- (check_list_ext (check_stmt false) (check_stmt true) body); [exact Ha|].
  apply Forall_forall. intros s Hs E. apply check_no_for.
  rewrite forallb_forall in Hn. apply Hn. exact Hs.
Qed.

(* ------------------------------------------------------------------ the guide's scoping rules *)

(* is a loop or a one-armed if *)
Definition scoped (s : stmt) : bool :=
  match s with SIf1 _ _ | SWhile _ _ | SFor _ _ _ => true | _ => false end.

(* repaired rule: a name defined after a loop / one-armed if was defined before
   it — names introduced only inside, and loop targets, are not *)
Theorem guide_rules E s E' x :
  scoped s = true -> term E = false -> check_stmt true E s = Some E' ->
  defined E' x = true -> defined E x = true.
Proof.
  intros Hs TE Hc Hx. destruct s; try discriminate; cbn [check_stmt] in Hc.
  - destruct (check_expr E c); [|discriminate].
    destruct (check_list (check_stmt true) E body); [|discriminate]. inversion Hc; subst.
    eapply defined_merge_l; eassumption.
  - destruct (check_list (check_stmt true) E body); [|discriminate].
    destruct (check_expr (merge E c0) c); [|discriminate]. inversion Hc; subst.
    eapply defined_merge_l; eassumption.
  - destruct (check_expr E iter); [|discriminate].
    destruct (check_list (check_stmt true) (extend_all ts E) body); [|discriminate]. inversion Hc; subst.
    eapply defined_merge_l; eassumption.
Qed.

(* as coded: true except for the targets of a `for` *)
Theorem guide_rules_partial E s E' x :
  scoped s = true -> term E = false -> check_stmt false E s = Some E' ->
  match s with SFor ts _ _ => existsb (Nat.eqb x) ts = false | _ => True end ->
  defined E' x = true -> defined E x = true.
Proof.
  intros Hs TE Hc Hnt Hx. destruct s; try discriminate; cbn [check_stmt] in Hc.
  - destruct (check_expr E c); [|discriminate].
    destruct (check_list (check_stmt false) E body); [|discriminate]. inversion Hc; subst.
    eapply defined_merge_l; eassumption.
  - destruct (check_list (check_stmt false) E body); [|discriminate].
    destruct (check_expr (merge E c0) c); [|discriminate]. inversion Hc; subst.
    eapply defined_merge_l; eassumption.
  - destruct (check_expr E iter); [|discriminate].
    destruct (check_list (check_stmt false) (extend_all ts E) body); [|discriminate]. inversion Hc; subst.
    apply defined_merge_l in Hx; [|rewrite term_extend_all; exact TE].
    rewrite defined_extend_all, Hnt in Hx. exact Hx.
Qed.

(* as coded: the target of a `for` is defined after the loop *)
Theorem guide_rules_refuted :
  exists E s E' x,
    scoped s = true /\ term E = false /\ check_stmt false E s = Some E' /\
    defined E' x = true /\ defined E x = false.
Proof.
  exists (env0 [0]), (SFor [1] (EVar 0) [SPass]), (merge (extend_all [1] (env0 [0])) (extend_all [1] (env0 [0]))), 1.
  repeat split; vm_compute; reflexivity.
Qed.

(* two-armed if: a name defined afterwards is defined at the end of every arm that reaches the join *)
Theorem guide_rules_if fx E c a b E' :
  check_stmt fx E (SIf c a b) = Some E' ->
  exists Ea Eb, check_block fx E a = Some Ea /\ check_block fx E b = Some Eb /\
    forall x, defined E' x = true ->
      (term Ea = false -> defined Ea x = true) /\ (term Eb = false -> defined Eb x = true).
Proof.
  cbn [check_stmt]. intros Hc. destruct (check_expr E c); [|discriminate].
  rewrite !check_block_eq in Hc.
  destruct (check_block fx E a) as [Ea|]; [|discriminate].
  destruct (check_block fx E b) as [Eb|]; [|discriminate]. inversion Hc; subst.
  exists Ea, Eb. repeat split; try reflexivity.
  - intros T. eapply defined_merge_l; eassumption.
  - intros T. eapply defined_merge_r; eassumption.
Qed.
