(* C07: lemmas about the evaluator shared by the soundness proofs of the
   simplify passes.
     - environments: get/set, agreement on a set of names, bind_pat;
     - `ext_all`: a program that defines at least what P defines (with the same
       functions) evaluates everything P evaluates, to the same result
       (simplify adds the rewritten function under a fresh name);
     - `cval_eqb_refl`. *)
From Coq Require Import ZArith List Bool String Lia.
From FpyV Require Import Num.RealFloat Num.Float Num.CtxDef Lang.Syntax Lang.Values Lang.Sem Lang.SemMono.
From FpyV Require Import Lang.Transforms.SimpDefs.
Import ListNotations.
Open Scope Z_scope.

(* ---------------------------------------------------------------- environments *)
Lemma env_get_set_same : forall s x v, env_get (env_set s x v) x = Some v.
Proof.
  induction s as [|[y w] s IH]; intros; cbn.
  - rewrite String.eqb_refl. reflexivity.
  - destruct (String.eqb x y) eqn:E; cbn; rewrite E; auto.
Qed.

Lemma env_get_set_other : forall s x y v, x <> y -> env_get (env_set s x v) y = env_get s y.
Proof.
  induction s as [|[z w] s IH]; intros; cbn.
  - destruct (String.eqb y x) eqn:E; auto. apply String.eqb_eq in E. congruence.
  - destruct (String.eqb x z) eqn:E; cbn.
    + apply String.eqb_eq in E. subst z.
      destruct (String.eqb y x) eqn:E2; auto. apply String.eqb_eq in E2. congruence.
    + destruct (String.eqb y z); auto.
Qed.

Lemma vmem_In : forall x L, vmem x L = true <-> In x L.
Proof.
  intros x L. unfold vmem. rewrite existsb_exists. split.
  - intros (y & Hy & E). apply String.eqb_eq in E. subst. assumption.
  - intros H. exists x. split; auto. apply String.eqb_refl.
Qed.

Lemma vmem_false : forall x L, vmem x L = false <-> ~ In x L.
Proof.
  intros x L. split.
  - intros H HI. apply vmem_In in HI. congruence.
  - intros H. destruct (vmem x L) eqn:E; auto. exfalso. apply H. apply vmem_In. exact E.
Qed.

Lemma vdisj_spec : forall A B, vdisj A B = true -> forall x, In x A -> ~ In x B.
Proof.
  unfold vdisj. intros A B H x Hx. rewrite forallb_forall in H. specialize (H x Hx).
  apply negb_true_iff in H. apply vmem_false in H. assumption.
Qed.

Lemma vincl_spec : forall A B, vincl A B = true -> incl A B.
Proof.
  unfold vincl. intros A B H x Hx. rewrite forallb_forall in H. apply vmem_In. auto.
Qed.

Lemma vdiff_In : forall x A B, In x A -> ~ In x B -> In x (vdiff A B).
Proof.
  unfold vdiff. intros. apply filter_In. split; auto. apply negb_true_iff. apply vmem_false. assumption.
Qed.

(* s1 and s2 give the same answer for the names of L *)
Definition agree (L : vars) (s1 s2 : env) : Prop := forall x, In x L -> env_get s1 x = env_get s2 x.

Lemma agree_refl : forall L s, agree L s s.
Proof. intros L s x _. reflexivity. Qed.

Lemma agree_incl : forall L L' s1 s2, agree L s1 s2 -> incl L' L -> agree L' s1 s2.
Proof. intros L L' s1 s2 H Hi x Hx. apply H. auto. Qed.

Lemma agree_sym : forall L s1 s2, agree L s1 s2 -> agree L s2 s1.
Proof. intros L s1 s2 H x Hx. symmetry. auto. Qed.

Lemma agree_set : forall L s1 s2 x v, agree L s1 s2 -> agree (x :: L) (env_set s1 x v) (env_set s2 x v).
Proof.
  intros L s1 s2 x v H y Hy. destruct (string_dec x y) as [->|Hne].
  - rewrite !env_get_set_same. reflexivity.
  - rewrite !env_get_set_other by assumption. apply H. destruct Hy; [contradiction|assumption].
Qed.

(* the two environments differ at most on W *)
Definition keeps (W : vars) (s s' : env) : Prop := forall x, ~ In x W -> env_get s' x = env_get s x.

Lemma keeps_refl : forall W s, keeps W s s.
Proof. intros W s x _. reflexivity. Qed.

Lemma keeps_trans : forall W1 W2 s1 s2 s3, keeps W1 s1 s2 -> keeps W2 s2 s3 -> keeps (W1 ++ W2) s1 s3.
Proof.
  intros W1 W2 s1 s2 s3 H1 H2 x Hx. rewrite H2, H1; auto; intro; apply Hx; apply in_or_app; auto.
Qed.

Lemma keeps_incl : forall W W' s s', keeps W s s' -> incl W W' -> keeps W' s s'.
Proof. intros W W' s s' H Hi x Hx. apply H. intro; apply Hx; auto. Qed.

(* ---------------------------------------------------------------- patterns *)
Fixpoint pat_ind' (Q : pat -> Prop) (HV : forall x, Q (PVar x)) (HW : Q PWild)
  (HT : forall ps, Forall Q ps -> Q (PTuple ps)) (p : pat) {struct p} : Q p :=
  match p with
  | PVar x => HV x
  | PWild => HW
  | PTuple ps =>
      HT ps ((fix go (l : list pat) : Forall Q l :=
                match l with
                | [] => Forall_nil Q
                | q :: r => Forall_cons q (pat_ind' Q HV HW HT q) (go r)
                end) ps)
  end.

Definition bind_pats : list pat -> list value -> env -> result env :=
  fix go (ps : list pat) (vs : list value) (s : env) : result env :=
    match ps, vs with
    | p :: ps', v :: vs' => bind (bind_pat p v s) (fun s' => go ps' vs' s')
    | _, _ => Ok s
    end.

Lemma bind_pat_tuple : forall ps v s,
  bind_pat (PTuple ps) v s =
  match v with
  | VTuple vs => if negb (Nat.eqb (List.length ps) (List.length vs)) then Err ValueErr
                 else bind_pats ps vs s
  | _ => Err TypeErr
  end.
Proof. reflexivity. Qed.

(* binding the same value under the same pattern: the results agree on the
   pattern's names and wherever the environments agreed; failure does not
   depend on the environment *)
Lemma bind_pat_agree : forall p v s1 s2 L,
  agree L s1 s2 ->
  match bind_pat p v s1, bind_pat p v s2 with
  | Ok s1', Ok s2' => agree (pvars p ++ L) s1' s2'
  | Err e1, Err e2 => e1 = e2
  | _, _ => False
  end.
Proof.
  induction p as [x| |ps IH] using pat_ind'; intros v s1 s2 L HA.
  - cbn. apply agree_set. assumption.
  - cbn. assumption.
  - rewrite !bind_pat_tuple. destruct v; auto.
    destruct (Nat.eqb (List.length ps) (List.length vs)) eqn:Hlen; cbn [negb]; auto.
    apply Nat.eqb_eq in Hlen.
    cbn [pvars]. clear - IH HA Hlen. revert vs s1 s2 L HA Hlen.
    induction IH as [|p ps Hp _ IHps]; intros vs s1 s2 L HA Hlen.
    + cbn. assumption.
    + destruct vs as [|v vs]; [discriminate Hlen|].
      cbn [bind_pats flat_map].
      specialize (Hp v s1 s2 L HA).
      destruct (bind_pat p v s1) as [s1'|e1], (bind_pat p v s2) as [s2'|e2]; cbn [bind]; try contradiction; auto.
      assert (Hl : List.length ps = List.length vs) by (cbn in Hlen; lia).
      specialize (IHps vs s1' s2' _ Hp Hl).
      destruct (bind_pats ps vs s1') as [t1|], (bind_pats ps vs s2') as [t2|]; try contradiction; auto.
      eapply agree_incl; [exact IHps|].
      intros z Hz. rewrite !in_app_iff in *. tauto.
Qed.

(* binding only touches the pattern's names *)
Lemma bind_pat_keeps : forall p v s s', bind_pat p v s = Ok s' -> keeps (pvars p) s s'.
Proof.
  induction p as [x| |ps IH] using pat_ind'; intros v s s' H.
  - cbn in H. inversion H; subst. intros y Hy. apply env_get_set_other. intro; subst; apply Hy; left; reflexivity.
  - cbn in H. inversion H; subst. apply keeps_refl.
  - rewrite bind_pat_tuple in H. destruct v; try discriminate.
    destruct (negb (Nat.eqb (List.length ps) (List.length vs))); try discriminate.
    cbn [pvars]. clear - IH H. revert vs s s' H.
    induction IH as [|p ps Hp _ IHps]; intros vs s s' H.
    + cbn in H. inversion H; subst. apply keeps_refl.
    + destruct vs as [|v vs]; [cbn in H; inversion H; subst; apply keeps_refl|].
      cbn [bind_pats] in H. destruct (bind_pat p v s) as [s1|] eqn:E; cbn [bind] in H; try discriminate.
      cbn [flat_map]. eapply keeps_trans; [eapply Hp; eassumption | eapply IHps; eassumption].
Qed.

(* ---------------------------------------------------------------- results *)
Lemma rbind_ok : forall A B (c : res A) (k : A -> res B) r,
  rbind c k = ROk r -> exists a, c = ROk a /\ k a = ROk r.
Proof. intros A B [a|e|] k r H; cbn in H; try discriminate. eauto. Qed.

(* ---------------------------------------------------------------- program extension *)
Section Ext.
Variable N : numops.
Variables P P' : program.
Hypothesis Hext : forall g fn, lookup_fn P g = Some fn -> lookup_fn P' g = Some fn.

Definition ext_at (n : nat) : Prop :=
  (forall s mu C e r, eval N P n s mu C e = ROk r -> eval N P' n s mu C e = ROk r) /\
  (forall s mu C es r, evals N P n s mu C es = ROk r -> evals N P' n s mu C es = ROk r) /\
  (forall s mu C e r, eval_opt N P n s mu C e = ROk r -> eval_opt N P' n s mu C e = ROk r) /\
  (forall s mu C v ops args r, cmp_chain N P n s mu C v ops args = ROk r -> cmp_chain N P' n s mu C v ops args = ROk r) /\
  (forall s mu C u args r, bool_chain N P n s mu C u args = ROk r -> bool_chain N P' n s mu C u args = ROk r) /\
  (forall s mu C gens elt r, comp N P n s mu C gens elt = ROk r -> comp N P' n s mu C gens elt = ROk r) /\
  (forall s mu C p l i gs elt r, comp_loop N P n s mu C p l i gs elt = ROk r -> comp_loop N P' n s mu C p l i gs elt = ROk r) /\
  (forall fn vs mu C r, call N P n fn vs mu C = ROk r -> call N P' n fn vs mu C = ROk r) /\
  (forall s mu C st r, exec N P n s mu C st = ROk r -> exec N P' n s mu C st = ROk r) /\
  (forall s mu C b r, exec_block N P n s mu C b = ROk r -> exec_block N P' n s mu C b = ROk r) /\
  (forall s mu C p l i body r, for_loop N P n s mu C p l i body = ROk r -> for_loop N P' n s mu C p l i body = ROk r) /\
  (forall s mu C cur idx v r, index_walk N P n s mu C cur idx v = ROk r -> index_walk N P' n s mu C cur idx v = ROk r).

Ltac use_ih E :=
  match goal with
  | IH : ext_at _ |- _ =>
      let H1 := fresh in let H2 := fresh in let H3 := fresh in let H4 := fresh in let H5 := fresh in
      let H6 := fresh in let H7 := fresh in let H8 := fresh in let H9 := fresh in let H10 := fresh in
      let H11 := fresh in let H12 := fresh in
      pose proof IH as (H1 & H2 & H3 & H4 & H5 & H6 & H7 & H8 & H9 & H10 & H11 & H12);
      first [ rewrite (H1 _ _ _ _ _ E) | rewrite (H2 _ _ _ _ _ E) | rewrite (H3 _ _ _ _ _ E)
            | rewrite (H4 _ _ _ _ _ _ _ E) | rewrite (H5 _ _ _ _ _ _ E) | rewrite (H6 _ _ _ _ _ _ E)
            | rewrite (H7 _ _ _ _ _ _ _ _ _ E) | rewrite (H8 _ _ _ _ _ E) | rewrite (H9 _ _ _ _ _ E)
            | rewrite (H10 _ _ _ _ _ E) | rewrite (H11 _ _ _ _ _ _ _ _ E) | rewrite (H12 _ _ _ _ _ _ _ E) ];
      clear H1 H2 H3 H4 H5 H6 H7 H8 H9 H10 H11 H12
  end.

Ltac estep :=
  match goal with
  | H : ROk _ = ROk _ |- _ => exact H
  | H : rbind ?x _ = ROk _ |- _ =>
      let E := fresh "E" in
      destruct x eqn:E; cbn [rbind] in H; [ | discriminate H | discriminate H ];
      try use_ih E; cbn [rbind]
  | H : match lookup_fn P ?f with _ => _ end = ROk _ |- _ =>
      let E := fresh "E" in
      destruct (lookup_fn P f) eqn:E; [ rewrite (Hext _ _ E) | discriminate H ]
  | H : (let '(_, _) := ?x in _) = ROk _ |- _ => destruct x
  | H : match ?x with _ => _ end = ROk _ |- _ =>
      let E := fresh "E" in destruct x eqn:E; try discriminate H
  | H : (if ?x then _ else _) = ROk _ |- _ =>
      let E := fresh "E" in destruct x eqn:E; try discriminate H
  end.

Ltac finish_ih :=
  match goal with
  | H : ?F = ROk ?r |- _ => first [ exact H | use_ih H; reflexivity ]
  end.

Lemma ext_all : forall n, ext_at n.
Proof.
  induction n as [|n IH].
  - unfold ext_at. repeat split; intros; discriminate.
  - unfold ext_at. repeat split; intros.
    + rewrite eval_S in *. unfold eval_body in *. destruct e; repeat estep; try finish_ih.
    + rewrite evals_S in *. unfold evals_body in *. destruct es; repeat estep; try finish_ih.
    + rewrite eval_opt_S in *. unfold eval_opt_body in *. destruct e; repeat estep; try finish_ih.
    + rewrite cmp_chain_S in *. unfold cmp_chain_body in *. destruct ops, args; repeat estep; try finish_ih.
    + rewrite bool_chain_S in *. unfold bool_chain_body in *. destruct args; repeat estep; try finish_ih.
    + rewrite comp_S in *. unfold comp_body in *. destruct gens as [|[p it] gs]; repeat estep; try finish_ih.
    + rewrite comp_loop_S in *. unfold comp_loop_body in *. repeat estep; try finish_ih.
    + rewrite call_S in *. unfold call_body in *. repeat estep; try finish_ih.
    + rewrite exec_S in *. unfold exec_body in *. destruct st; repeat estep; try finish_ih.
    + rewrite exec_block_S in *. unfold exec_block_body in *. destruct b; repeat estep; try finish_ih.
    + rewrite for_loop_S in *. unfold for_loop_body in *. repeat estep; try finish_ih.
    + rewrite index_walk_S in *. unfold index_walk_body in *. destruct idx as [|i [|j rest]]; repeat estep; try finish_ih.
Qed.

Lemma call_ext : forall n fn vs mu C r, call N P n fn vs mu C = ROk r -> call N P' n fn vs mu C = ROk r.
Proof. intros n. destruct (ext_all n) as (_ & _ & _ & _ & _ & _ & _ & K & _). exact K. Qed.

Lemma exec_block_ext : forall n s mu C b r, exec_block N P n s mu C b = ROk r -> exec_block N P' n s mu C b = ROk r.
Proof. intros n. destruct (ext_all n) as (_ & _ & _ & _ & _ & _ & _ & _ & _ & K & _). exact K. Qed.
End Ext.

