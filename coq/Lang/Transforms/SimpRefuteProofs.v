(* C07: the passes AS CODED do change what a program returns -- the witnesses
   of the known defects, evaluated on the faithful models (vm_compute, with the
   provisional number instance). *)
From Coq Require Import ZArith List Bool String.
From FpyV Require Import Num.RealFloat Num.Float Num.CtxDef Lang.Syntax Lang.Values Lang.Sem Lang.NumInst.
From FpyV Require Import Lang.Transforms.SimpDefs Lang.Transforms.SimpRw Lang.Transforms.SimpDce
  Lang.Transforms.SimpRunProofs.
Import ListNotations.
Open Scope string_scope.
Open Scope Z_scope.

Definition zlit (z : Z) : expr := ENum (FFin (RF (z <? 0) 0 (Z.abs z))).
Definition znum (z : Z) : cval := CNum (NF (FFin (RF (z <? 0) 0 (Z.abs z)))).

(* "the pass T changes what f returns on args" *)
Definition changes (P : program) (f : ident) (T : func -> block) (args : list cval) : Prop :=
  exists fn v v',
    lookup_fn P f = Some fn /\
    run prov_numops P 100 f args None = ROk v /\
    run prov_numops (add_fn P "f'" (with_body fn (T fn))) 100 "f'" args None = ROk v' /\
    cval_eqb v v' = false.

(* y = a; x = y; y = b; return x + y      f(1, 2) = 3, after copy propagation 4 *)
Definition wA : func := Func ["a"; "b"] None
  [SAssign (PVar "y") (EVar "a"); SAssign (PVar "x") (EVar "y"); SAssign (PVar "y") (EVar "b");
   SReturn (EOp2 OAdd (EVar "x") (EVar "y"))].

Theorem copyprop_as_coded_refuted : changes [("f", wA)] "f" copyprop_as_coded [znum 1; znum 2].
Proof. exists wA, (znum 3), (znum 4). vm_compute. repeat split; reflexivity. Qed.

(* the repaired pass leaves the witness alone where the source is redefined *)
Example copyprop_fixed_on_witness :
  copyprop_fixed wA =
  [SAssign (PVar "y") (EVar "a"); SAssign (PVar "x") (EVar "a"); SAssign (PVar "y") (EVar "b");
   SReturn (EOp2 OAdd (EVar "x") (EVar "b"))].
Proof. vm_compute. reflexivity. Qed.

(* g2(zs): zs[0] = 7; return 0
   main(xs, c): x = g2(xs); if c > 0: x = 1; return xs[0]     main([5, 6], 1) = 7, after DCE 5 *)
Definition g2 : func := Func ["zs"] None [SIndexAssign "zs" [zlit 0] (zlit 7); SReturn (zlit 0)].
Definition wB : func := Func ["xs"; "c"] None
  [SAssign (PVar "x") (ECall "g2" [EVar "xs"]);
   SIf1 (ECompare [CGt] [EVar "c"; zlit 0]) [SAssign (PVar "x") (zlit 1)];
   SReturn (ERef (EVar "xs") (zlit 0))].

Theorem dce_unrepaired_refuted :
  changes [("g2", g2); ("f", wB)] "f" (dce_unrepaired [("g2", g2); ("f", wB)]) [CList [znum 5; znum 6]; znum 1].
Proof. exists wB, (znum 7), (znum 5). vm_compute. repeat split; reflexivity. Qed.

(* g(zs): ws = zs; ws[0] = 7; return 0
   main(xs): t = g(xs); return xs[0]                         main([5, 6]) = 7, after DCE 5 *)
Definition galias : func := Func ["zs"] None
  [SAssign (PVar "ws") (EVar "zs"); SIndexAssign "ws" [zlit 0] (zlit 7); SReturn (zlit 0)].
Definition wC : func := Func ["xs"] None
  [SAssign (PVar "t") (ECall "g" [EVar "xs"]); SReturn (ERef (EVar "xs") (zlit 0))].

Theorem dce_purity_unrepaired_refuted :
  changes [("g", galias); ("f", wC)] "f" (dce_unrepaired [("g", galias); ("f", wC)]) [CList [znum 5; znum 6]].
Proof. exists wC, (znum 7), (znum 5). vm_compute. repeat split; reflexivity. Qed.

(* xs = [1, 2]; ys = xs; ys[0] = 5; return xs[0]: replacing the reads of xs by the
   literal of its value (value_to_literal on a list) gives 1 instead of 5 *)
Definition wD : func := Func ["a"] None
  [SAssign (PVar "xs") (EList [zlit 1; zlit 2]); SAssign (PVar "ys") (EVar "xs");
   SIndexAssign "ys" [zlit 0] (zlit 5); SReturn (ERef (EVar "xs") (zlit 0))].

Definition fold_xs (fn : func) : block :=
  match literal_of_value (CList [znum 1; znum 2]) with
  | Some l =>
      [SAssign (PVar "xs") (EList [zlit 1; zlit 2]); SAssign (PVar "ys") l;
       SIndexAssign "ys" [zlit 0] (zlit 5); SReturn (ERef l (zlit 0))]
  | None => f_body fn
  end.

Theorem constfold_list_refuted : changes [("f", wD)] "f" fold_xs [znum 1].
Proof. exists wD, (znum 5), (znum 1). vm_compute. repeat split; reflexivity. Qed.

(* i = y; for i in xs: pass; return i: the analysis forgets the loop target *)
Definition wF : func := Func ["y"; "xs"] None
  [SAssign (PVar "i") (EVar "y"); SFor (PVar "i") (EVar "xs") [SPass]; SReturn (EVar "i")].

Theorem copyprop_for_target_unrepaired_refuted : changes [("f", wF)] "f" copyprop_unrepaired [znum 1; CList [znum 10; znum 20]].
Proof. exists wF, (znum 20), (znum 1). vm_compute. repeat split; reflexivity. Qed.

(* with the repairs that are in /repo now, the passes as coded leave these witnesses alone *)
Example dce_as_coded_keeps_witnesses :
  dce_as_coded [("g2", g2); ("f", wB)] wB = [SAssign (PVar "x") (ECall "g2" [EVar "xs"]); SReturn (ERef (EVar "xs") (zlit 0))] /\
  dce_as_coded [("g", galias); ("f", wC)] wC = f_body wC /\
  copyprop_as_coded wF = f_body wF.
Proof. vm_compute. repeat split; reflexivity. Qed.

(* the hypotheses of the soundness theorems are satisfiable: the repaired,
   re-checked passes do change the witnesses (to equivalent programs) *)
Example copyprop_checked_nontrivial : copyprop_checked 50 wA = copyprop_fixed wA.
Proof. vm_compute. reflexivity. Qed.

Example dce_checked_nontrivial :
  dce_checked 50 [("f", Func ["a"] None [SAssign (PVar "t") (EOp2 OAdd (EVar "a") (zlit 1)); SReturn (EVar "a")])]
    (Func ["a"] None [SAssign (PVar "t") (EOp2 OAdd (EVar "a") (zlit 1)); SReturn (EVar "a")])
  = [SReturn (EVar "a")].
Proof. vm_compute. reflexivity. Qed.
