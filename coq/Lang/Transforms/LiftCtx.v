(* FPyLang transforms: lifting context expressions to the top of the function
   (fpy2/transform/lift_context.py), a Gallina model AS CODED for the positions
   the check exercises.  Definitions only.

   The code: `_ContextFinder` collects, in visit order, every expression that
   PartialEval evaluated to a Context and that is neither a variable nor a
   foreign value; `_ContextLifter` gives each OCCURRENCE a fresh name `ctx`,
   `ctxN`, replaces it by that variable, and prepends `name = <expression>` for
   all of them to the function body -- so the expression is evaluated once,
   under the function's ambient context, instead of where it stood (under REAL
   when it was the header of a `with`).

   Modelled: context constructor calls with LITERAL numeric arguments that
   construct successfully (`ctor_ok`, what PartialEval established), standing as
   the header of a `with` or as the whole right-hand side of an assignment.
   Any other constructor call is outside the model (`None`).  Constructor calls
   with computed arguments or arguments that are constant variables ARE lifted
   by the code, and unsoundly: see C09_lift_computed_refuted. *)
From Coq Require Import ZArith List Bool String.
From FpyV Require Import Num.RealFloat Num.Float Num.CtxDef Lang.Syntax Lang.Values Lang.Sem.
From FpyV Require Import Lang.Transforms.Rename Lang.Transforms.Inline.
Import ListNotations.
Open Scope string_scope.
Open Scope list_scope.

Fixpoint has_ctor (e : expr) : bool :=
  match e with
  | EVar x => false
  | ENum v => false
  | ERat n d => false
  | EBool b => false
  | ECtxVal c => false
  | EOp0 o => false
  | EOp1 o a => has_ctor a
  | EOp2 o a b => has_ctor a || has_ctor b
  | EOp3 o a b c => has_ctor a || has_ctor b || has_ctor c
  | EPred p a => has_ctor a
  | ECompare ops args => existsb has_ctor args
  | EAnd args => existsb has_ctor args
  | EOr args => existsb has_ctor args
  | ENot a => has_ctor a
  | EIf c a b => has_ctor c || has_ctor a || has_ctor b
  | ETuple es => existsb has_ctor es
  | EFst a => has_ctor a
  | ESnd a => has_ctor a
  | EList es => existsb has_ctor es
  | ERef a i => has_ctor a || has_ctor i
  | ESlice a lo hi => has_ctor a || (match lo with Some x => has_ctor x | None => false end) || (match hi with Some x => has_ctor x | None => false end)
  | EComp gens elt => existsb (fun g => match g with (_, it) => has_ctor it end) gens || has_ctor elt
  | ELen a => has_ctor a
  | ERange1 a => has_ctor a
  | ERange2 a b => has_ctor a || has_ctor b
  | ERange3 a b c => has_ctor a || has_ctor b || has_ctor c
  | EZip es => existsb has_ctor es
  | EEnumerate a => has_ctor a
  | EEmpty dims => existsb has_ctor dims
  | EDim a => has_ctor a
  | ESize a d => has_ctor a || has_ctor d
  | ESum a => has_ctor a
  | EAMin a => has_ctor a
  | EAMax a => has_ctor a
  | EMin es => existsb has_ctor es
  | EMax es => existsb has_ctor es
  | EAny a => has_ctor a
  | EAll a => has_ctor a
  | ECall f args => existsb has_ctor args
  | ECtor k args => true
  end.

Definition is_lit (e : expr) : bool :=
  match e with ENum _ => true | ERat _ q => negb (q =? 0)%Z | _ => false end.

(* the numbers the literal arguments denote *)
Fixpoint lit_nums (es : list expr) : option (list num) :=
  match es with
  | [] => Some []
  | ENum v :: r => match lit_nums r with Some xs => Some (NF v :: xs) | None => None end
  | ERat p q :: r =>
      if (q =? 0)%Z then None
      else match lit_nums r with Some xs => Some (num_of_frac p q :: xs) | None => None end
  | _ => None
  end.

Definition lb_gen (ls : stmt -> ist -> option (stmt * ist * list (ident * expr)))
    : list stmt -> ist -> option (list stmt * ist * list (ident * expr)) :=
  fix go (b : list stmt) (st : ist) : option (list stmt * ist * list (ident * expr)) :=
    match b with
    | [] => Some ([], st, [])
    | x :: r =>
        match ls x st with None => None | Some (x', st1, b1) =>
        match go r st1 with None => None | Some (r', st2, b2) => Some (x' :: r', st2, b1 ++ b2) end end
    end.

(* closed arithmetic over literals: what PartialEval folds *)
Fixpoint closed (e : expr) : bool :=
  match e with
  | ENum _ => true
  | ERat _ q => negb (q =? 0)%Z
  | EOp1 _ a => closed a
  | EOp2 _ a b => closed a && closed b
  | EOp3 _ a b c => closed a && closed b && closed c
  | _ => false
  end.

Section Lift.
Variable ctor_ok : ctor -> list expr -> bool.    (* PartialEval evaluated the call (literal arguments) to a Context *)
Variable ctor_ok_c : ctor -> list expr -> bool.  (* ... the call with computed arguments, as the header of a `with` *)
Variable allow_computed : bool.                  (* the code: true; the proved fragment: false *)
(* the proposed repair fixes/C09-lift-context-value.diff: the prelude binds the Context the
   expression was statically evaluated to (`sval`) instead of the expression *)
Variable fix_val : bool.
Variable sval : expr -> option ctx.

Definition liftable (hdr : bool) (e : expr) : bool :=
  match e with
  | ECtor k args =>
      if forallb is_lit args then ctor_ok k args
      else allow_computed && hdr && forallb closed args && ctor_ok_c k args
  | _ => false
  end.

(* an expression in a lifted position *)
Definition lift_pos (hdr : bool) (e : expr) (st : ist) : option (expr * ist * list (ident * expr)) :=
  if liftable hdr e then
    match refresh "ctx" st with
    | Some (x, st') => Some (EVar x, st', [(x, e)])
    | None => None
    end
  else if has_ctor e then None else Some (e, st, []).

(* an assignment right-hand side when the ambient context is not statically known (PartialEval
   does not evaluate it): a constructor call stays where it is *)
Definition keep_pos (e : expr) (st : ist) : option (expr * ist * list (ident * expr)) :=
  match e with
  | ECtor _ args => if existsb has_ctor args then None else Some (e, st, [])
  | _ => if has_ctor e then None else Some (e, st, [])
  end.

(* the body of `with e:` runs under a statically known context *)
Definition static_hdr (e : expr) : bool :=
  liftable true e || match e with ECtxVal _ => true | _ => false end.

(* an expression in any other position *)
Definition lift_other (e : expr) : bool := negb (has_ctor e).

(* amb: the ambient context is statically known at this statement (the function declares one, or
   the enclosing `with` headers are static) *)
Fixpoint lift_stmt (amb : bool) (s : stmt) (st : ist) {struct s} : option (stmt * ist * list (ident * expr)) :=
  let lb := lb_gen (lift_stmt amb) in
  match s with
  | SAssign p e =>
      match (if amb then lift_pos false e st else keep_pos e st) with
      | None => None | Some (e', st1, b1) => Some (SAssign p e', st1, b1) end
  | SIndexAssign x idx e =>
      if forallb lift_other idx && lift_other e then Some (s, st, []) else None
  | SIf1 c body =>
      if lift_other c then
        match lb body st with None => None | Some (body', st1, b1) => Some (SIf1 c body', st1, b1) end
      else None
  | SIf c b1 b2 =>
      if lift_other c then
        match lb b1 st with None => None | Some (b1', st1, l1) =>
        match lb b2 st1 with None => None | Some (b2', st2, l2) => Some (SIf c b1' b2', st2, l1 ++ l2) end end
      else None
  | SWhile c body =>
      if lift_other c then
        match lb body st with None => None | Some (body', st1, b1) => Some (SWhile c body', st1, b1) end
      else None
  | SFor p it body =>
      if lift_other it then
        match lb body st with None => None | Some (body', st1, b1) => Some (SFor p it body', st1, b1) end
      else None
  | SContext x e body =>
      match lift_pos true e st with None => None | Some (e', st1, l1) =>
      match lb_gen (lift_stmt (static_hdr e)) body st1 with None => None
      | Some (body', st2, l2) => Some (SContext x e' body', st2, l1 ++ l2) end end
  | SAssert e | SEffect e | SReturn e => if lift_other e then Some (s, st, []) else None
  | SPass => Some (s, st, [])
  end.

Definition lift_block (amb : bool) := lb_gen (lift_stmt amb).

Definition bound_expr (e : expr) : expr :=
  if fix_val then match sval e with Some c => ECtxVal c | None => e end else e.

Definition lift_prelude (bs : list (ident * expr)) : block :=
  map (fun xe => SAssign (PVar (fst xe)) (bound_expr (snd xe))) bs.

Fixpoint nodupb (l : list ident) : bool :=
  match l with
  | [] => true
  | x :: r => negb (mem x r) && nodupb r
  end.

Definition lift_fn (fn : func) : option func :=
  let V := func_names fn in
  match lift_block (match f_ctx fn with Some _ => true | None => false end) (f_body fn) (ist0 fn) with
  | None => None
  | Some (body', _, bs) =>
      (* the generated names are fresh and distinct, the bound expressions are the lifted ones
         (re-checked, never false) *)
      if forallb (fun xe => negb (mem (fst xe) V) && liftable true (snd xe)) bs && nodupb (map fst bs)
      then Some (Func (f_params fn) (f_ctx fn) (lift_prelude bs ++ body'))
      else None
  end.

End Lift.

(* "PartialEval evaluated the call": the literal arguments make a valid context *)
Definition static_ctx (N : numops) (e : expr) : option ctx :=
  match e with
  | ECtor k args =>
      match lit_nums args with
      | Some xs => match n_ctor N k xs with Ok c => Some c | Err _ => None end
      | None => None
      end
  | _ => None
  end.

Definition ctor_ok_N (N : numops) (k : ctor) (args : list expr) : bool :=
  match static_ctx N (ECtor k args) with Some _ => true | None => false end.

(* computed arguments in a `with` header: PartialEval evaluates them under REAL *)
Definition ctor_ok_real (N : numops) (k : ctor) (args : list expr) : bool :=
  match eval N [] 64 [] [] CReal (ECtor k args) with
  | ROk (VCtx _, _) => true
  | _ => false
  end.

(* what PartialEval computes for a lifted expression *)
Definition static_val (N : numops) (e : expr) : option ctx :=
  match static_ctx N e with
  | Some c => Some c
  | None => match eval N [] 64 [] [] CReal e with ROk (VCtx c, _) => Some c | _ => None end
  end.

(* lift_context; fx: with the proposed repair.  As coded / restricted to literal arguments *)
Definition lift_ctx_x (N : numops) (fx : bool) (fn : func) : option func :=
  lift_fn (ctor_ok_N N) (ctor_ok_real N) true fx (static_val N) fn.
Definition lift_ctx_lit_x (N : numops) (fx : bool) (fn : func) : option func :=
  lift_fn (ctor_ok_N N) (ctor_ok_real N) false fx (static_val N) fn.
Definition lift_ctx (N : numops) := lift_ctx_x N false.
Definition lift_ctx_lit (N : numops) := lift_ctx_lit_x N false.
