(* C07: from a simulation of the function body to `run`.
   `simplify(func)` returns a NEW function object: the rewritten body is added
   to the program under a fresh name f' (the callees, and every reference to
   the original f, keep the original ASTs, as in fpy2). *)
From Coq Require Import ZArith List Bool String Lia.
From FpyV Require Import Num.RealFloat Num.Float Num.CtxDef Lang.Syntax Lang.Values Lang.Sem Lang.SemMono.
From FpyV Require Import Lang.Transforms.SimpDefs Lang.Transforms.SimpBaseProofs Lang.Transforms.SimpEqProofs.
Import ListNotations.
Open Scope Z_scope.

Lemma lookup_add_old : forall P f' fn' g fn, lookup_fn P g = Some fn -> lookup_fn (add_fn P f' fn') g = Some fn.
Proof.
  unfold add_fn. induction P as [|[h hn] P IH]; intros f' fn' g fn H; cbn in *; [discriminate|].
  destruct (String.eqb g h); auto.
Qed.

Lemma lookup_add_new : forall P f' fn', lookup_fn P f' = None -> lookup_fn (add_fn P f' fn') f' = Some fn'.
Proof.
  unfold add_fn. induction P as [|[h hn] P IH]; intros f' fn' H; cbn in *.
  - rewrite String.eqb_refl. reflexivity.
  - destruct (String.eqb f' h); [discriminate|]. auto.
Qed.

(* the active context is the statically known one, if any *)
Definition ctx_ok (oc : option ctx) (C : ctx) : Prop := match oc with Some c => C = c | None => True end.

Section Lift.
Variable N : numops.
Variable P : program.

(* body' simulates body on returning executions, from the same initial state,
   under every context compatible with the declared one *)
Definition body_sim (oc : option ctx) (b b' : block) : Prop :=
  forall n s mu C v mu', ctx_ok oc C -> exec_block N P n s mu C b = ROk (OReturn v, mu') ->
    exists n', exec_block N P n' s mu C b' = ROk (OReturn v, mu').

Lemma body_sim_refl : forall oc b, body_sim oc b b.
Proof. intros oc b n s mu C v mu' _ H. exists n. exact H. Qed.

Lemma body_sim_trans : forall oc b1 b2 b3, body_sim oc b1 b2 -> body_sim oc b2 b3 -> body_sim oc b1 b3.
Proof.
  intros oc b1 b2 b3 H12 H23 n s mu C v mu' Hc H. destruct (H12 _ _ _ _ _ _ Hc H) as (n2 & H2).
  exact (H23 _ _ _ _ _ _ Hc H2).
Qed.

Lemma run_lift : forall f f' fn fn',
  lookup_fn P f = Some fn -> lookup_fn P f' = None ->
  f_params fn' = f_params fn -> f_ctx fn' = f_ctx fn ->
  body_sim (f_ctx fn) (f_body fn) (f_body fn') ->
  preserves N P f (add_fn P f' fn') f'.
Proof.
  intros f f' fn fn' Hf Hf' Hp Hc Hsim fuel args c v H.
  unfold run in H. rewrite Hf in H.
  destruct (inject_all args []) as [vs mu] eqn:Hinj.
  destruct (rbind_ok _ _ _ _ _ H) as ([w mu1] & Ecall & Hex). clear H.
  destruct fuel as [|n]; [discriminate|]. rewrite call_S in Ecall. unfold call_body in Ecall.
  destruct (bind_params (f_params fn) vs []) as [s|] eqn:Bp; cbn [lift rbind] in Ecall; [|discriminate].
  destruct (rbind_ok _ _ _ _ _ Ecall) as ([o m2] & Eb & Hr). clear Ecall.
  destruct o as [s'|w']; [discriminate|]. inversion Hr; subst w' m2. clear Hr.
  assert (Hcok : ctx_ok (f_ctx fn) (match f_ctx fn with Some c0 => c0 | None => match c with Some c0 => c0 | None => FP64 end end))
    by (destruct (f_ctx fn); cbn; auto).
  destruct (Hsim _ _ _ _ _ _ Hcok Eb) as (n' & Eb').
  pose proof (exec_block_ext N P (add_fn P f' fn') (lookup_add_old P f' fn') _ _ _ _ _ _ Eb') as Eb''.
  destruct (extract (S n) mu1 w) as [cv|] eqn:Ex; [|discriminate]. inversion Hex; subst cv. clear Hex.
  exists (S (Nat.max n n')), v. split; [|apply cval_eqb_refl].
  unfold run. rewrite (lookup_add_new P f' fn' Hf'). rewrite Hinj.
  rewrite call_S. unfold call_body. rewrite Hp, Bp. cbn [lift rbind]. rewrite Hc.
  rewrite (exec_block_mono_ok N (add_fn P f' fn') n' (Nat.max n n') _ _ _ _ _ Eb'') by lia.
  cbn [rbind]. rewrite (extract_mono (S n) (S (Nat.max n n')) _ _ _ Ex) by lia. reflexivity.
Qed.
End Lift.

(* preservation composes: any sequence of preserving passes preserves *)
Lemma preserves_refl : forall N P f, preserves N P f P f.
Proof. intros N P f fuel args c v H. exists fuel, v. split; [exact H | apply cval_eqb_refl]. Qed.
