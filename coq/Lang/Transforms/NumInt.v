(* The number instance used by the C08 correspondence runs: Lang/NumInst.v's
   provisional instance extended with the MPFixed family (fp.INTEGER is
   MPFixedContext(-1, RTZ, enable_neg_zero=False)) and with fmod; and the
   hypothesis on an arbitrary `numops` under which the loop transforms are
   proved: integer index arithmetic under INTEGER is exact.  Definitions only. *)
From Coq Require Import ZArith List Bool String.
From FpyV Require Import Num.RealFloat Num.Float Num.CtxDef Lang.Syntax Lang.Values Lang.Sem Lang.NumInst
  Lang.Transforms.Common.
Import ListNotations.
Open Scope Z_scope.

(* RealEngine.fmod: x - trunc(x / y) * y, the sign of a zero result is the sign of x *)
Definition num_fmod (x y : num) : num :=
  if num_isnan x || num_isnan y then NF (FNaN false)
  else if num_isinf x || num_is_zero y then NF (FNaN false)
  else if num_isinf y then x
  else match num_frac x, num_frac y with
       | Some (n1, d1), Some (n2, d2) =>
           let q := Z.quot (n1 * d2) (d1 * n2) in
           let r := n1 * d2 - q * n2 * d1 in
           if r =? 0 then NF (FFin (RF (num_sign x) 0 0)) else num_of_frac r (d1 * d2)
       | _, _ => NF (FNaN false)
       end.

(* MPFixedContext.round, deterministic; NaN / infinities are not representable *)
Definition ctx_round_ext (c : ctx) (x : num) : result num :=
  match c with
  | CMPFixed nmin rm (Some 0) _ nz =>
      match x with
      | NF (FNaN _) | NF (FInf _) => Err ValueErr
      | _ =>
          bind (round_finite x None (Some nmin) rm) (fun r =>
            Ok (NF (FFin (if negb nz && is_zero r then RF false (rexp r) 0 else r))))
      end
  | _ => ctx_round_prov c x
  end.

Definition unop_ext (o : op) (c : ctx) (x : num) : result num :=
  match o with
  | ONeg => ctx_round_ext c (num_neg x)
  | OFabs => ctx_round_ext c (num_abs x)
  | ORound => ctx_round_ext c x
  | _ => unop_prov o c x
  end.

Definition binop_ext (o : op) (c : ctx) (x y : num) : result num :=
  match o with
  | OAdd => ctx_round_ext c (num_add x y)
  | OSub => ctx_round_ext c (num_sub x y)
  | OMul => ctx_round_ext c (num_mul x y)
  | ODiv => ctx_round_ext c (num_div x y)
  | OCopysign => ctx_round_ext c (num_copysign x y)
  | OFmod => ctx_round_ext c (num_fmod x y)
  | _ => binop_prov o c x y
  end.

Definition ternop_ext (o : op) (c : ctx) (x y z : num) : result num :=
  match o with
  | OFma => ctx_round_ext c (num_add (num_mul x y) z)
  | _ => ternop_prov o c x y z
  end.

Definition c08_numops : numops :=
  NumOps ctx_round_ext nullop_prov unop_ext binop_ext ternop_ext pred_prov num_compare ctor_prov.

(* ---------------------------------------------------------------- the hypothesis of the theorems *)
(* Under the INTEGER context, +, - and fmod of small non-negative integers (as `len`, integer literals and
   `range` produce them) are exact, and integers compare exactly. *)
Record int_exact (N : numops) : Prop := IntExact {
  ie_add : forall a b, 0 <= a -> 0 <= b ->
      n_binop N OAdd CInteger (num_of_Z a) (num_of_Z b) = Ok (num_of_Z (a + b));
  ie_sub : forall a b, 0 <= b <= a ->
      n_binop N OSub CInteger (num_of_Z a) (num_of_Z b) = Ok (num_of_Z (a - b));
  ie_fmod : forall a k, 0 <= a -> 0 < k ->
      n_binop N OFmod CInteger (num_of_Z a) (num_of_Z k) = Ok (num_of_Z (a mod k));
  ie_cmp : forall a b, 0 <= a -> 0 <= b -> n_cmp N (num_of_Z a) (num_of_Z b) = Some (a ?= b) }.
