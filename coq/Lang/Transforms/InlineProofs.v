(* Soundness of function inlining (model: Inline.v) for call sites in statement
   position -- `p = g(args)`, `return g(args)`, `g(args)` as an effect statement,
   with call-free arguments -- anywhere in nested `if` / `while` / `for` / `with`
   blocks, for callees with one trailing `return` (possibly under trailing
   `with` blocks) and no named `with` target; callee with or without a declared
   context, list arguments shared, any name clashes.  Other call positions are
   modelled (and checked against the implementation) but not covered: the code
   hoists them unsoundly, see `inline_hoist_refuted`. *)
From Coq Require Import ZArith List Bool String Lia.
From FpyV Require Import Num.RealFloat Num.Float Num.CtxDef Lang.Syntax Lang.Values Lang.Sem Lang.SemMono Lang.SemProps.
From FpyV Require Import Lang.Transforms.Rename Lang.Transforms.RenameProofs Lang.Transforms.RenameSimProofs
                         Lang.Transforms.Inline.
Import ListNotations.

Ltac bstep :=
  match goal with
  | H : rbind ?x _ = ROk _ |- _ =>
      let E := fresh "E" in
      destruct x eqn:E; [|discriminate H|discriminate H]; cbn [rbind] in H;
      repeat match goal with p : (_ * _)%type |- _ => destruct p end
  end.

(* ---------------------------------------------------------------- syntactic facts *)
Lemma mem_In : forall x l, mem x l = true <-> In x l.
Proof.
  induction l as [|y l IH]; cbn; [split; [discriminate|tauto]|].
  rewrite orb_true_iff, IH, String.eqb_eq. split; intros [H|H]; auto.
Qed.

Lemma mem_false_In : forall x l, mem x l = false -> ~ In x l.
Proof. intros x l H Hi. apply mem_In in Hi. congruence. Qed.

Lemma list_sum_app0 : forall a b, (a + b = 0)%nat -> a = 0%nat /\ b = 0%nat.
Proof. intros; lia. Qed.

Lemma rr_stmt_context : forall t x c body,
  rr_stmt t (SContext x c body) =
  match rr_block t body with Some body' => Some (SContext x c body') | None => None end.
Proof.
  intros t x c body. cbn [rr_stmt].
  assert (H : forall b,
    (fix go (b : list stmt) : option (list stmt) :=
       match b with
       | [] => None
       | [last] => match rr_stmt t last with Some l' => Some [l'] | None => None end
       | s0 :: (_ :: _) as r => match go r with Some r' => Some (s0 :: r') | None => None end
       end) b = rr_block t b).
  { induction b as [|s0 r IH]; [reflexivity|]. destruct r as [|s1 r]; [reflexivity|].
    rewrite IH. reflexivity. }
  rewrite H. reflexivity.
Qed.

Lemma rr_block_cons2 : forall t s0 s1 r,
  rr_block t (s0 :: s1 :: r) =
  match rr_block t (s1 :: r) with Some r' => Some (s0 :: r') | None => None end.
Proof. reflexivity. Qed.

Lemma rr_block_count : forall t b b', rr_block t b = Some b' -> (1 <= count_ret_block b)%nat.
Proof.
  intros t b. unfold count_ret_block.
  assert (Hs : forall st, forall st', rr_stmt t st = Some st' -> (1 <= count_ret st)%nat).
  { induction st using stmt_ind'; intros st' Hrr; try discriminate.
    - (* SContext *) rewrite rr_stmt_context in Hrr.
      destruct (rr_block t body) as [body'|] eqn:E; [|discriminate].
      clear Hrr. cbn [count_ret]. revert body' E. induction H as [|s0 r Hs0 Hr IH]; intros body' E; [discriminate|].
      destruct r as [|s1 r].
      + cbn in E. destruct (rr_stmt t s0) eqn:E0; [|discriminate].
        cbn. specialize (Hs0 _ eq_refl). clear -Hs0. lia.
      + rewrite rr_block_cons2 in E. destruct (rr_block t (s1 :: r)) eqn:E1; [|discriminate].
        specialize (IH _ eq_refl). clear -IH. cbn [map list_sum fold_right] in *. lia.
    - cbn. lia. }
  induction b as [|s0 r IH]; intros b' H; [discriminate|].
  destruct r as [|s1 r].
  - cbn in H. destruct (rr_stmt t s0) eqn:E0; [|discriminate]. cbn. specialize (Hs _ _ E0). clear -Hs. lia.
  - rewrite rr_block_cons2 in H. destruct (rr_block t (s1 :: r)) eqn:E1; [|discriminate].
    specialize (IH _ eq_refl). clear -IH. cbn [map list_sum fold_right] in *. lia.
Qed.

Lemma count_ret_ren : forall rho st, count_ret (ren_stmt rho st) = count_ret st.
Proof.
  intros rho. induction st using stmt_ind'; cbn; auto; rewrite ?map_map;
    repeat match goal with H : Forall _ _ |- _ =>
      let K := fresh in
      assert (K : forall l, Forall (fun st => count_ret (ren_stmt rho st) = count_ret st) l ->
                  map (fun x => count_ret (ren_stmt rho x)) l = map count_ret l)
        by (clear; induction 1; cbn; congruence);
      rewrite (K _ H); clear H K end; reflexivity.
Qed.

Lemma count_ret_ren_block : forall rho b, count_ret_block (ren_block rho b) = count_ret_block b.
Proof.
  intros rho b. unfold count_ret_block, ren_block. rewrite map_map. f_equal.
  induction b; cbn; auto. rewrite count_ret_ren. congruence.
Qed.

(* a body without named `with` targets is renamed faithfully by RenameTarget *)
Lemma wt_ok_no_with : forall rho st, with_targets st = [] -> wt_ok rho st = true.
Proof.
  intros rho.
  assert (K : forall l, Forall (fun st => with_targets st = [] -> wt_ok rho st = true) l ->
              flat_map with_targets l = [] -> forallb (wt_ok rho) l = true).
  { induction 1 as [|x l Hx Hl IH]; cbn; auto. intro E. apply app_eq_nil in E. destruct E as [E1 E2].
    rewrite (Hx E1), (IH E2). reflexivity. }
  induction st using stmt_ind'; cbn; auto; intro E.
  - apply app_eq_nil in E. destruct E as [E1 E2]. rewrite (K _ H E1), (K _ H0 E2). reflexivity.
  - destruct x; [discriminate|]. cbn in E. rewrite (K _ H E). reflexivity.
Qed.

Lemma ren_stmt_t_no_with : forall rho st, with_targets st = [] -> ren_stmt_t rho st = ren_stmt rho st.
Proof.
  intros rho.
  assert (K : forall l, Forall (fun st => with_targets st = [] -> ren_stmt_t rho st = ren_stmt rho st) l ->
              flat_map with_targets l = [] -> map (ren_stmt_t rho) l = map (ren_stmt rho) l).
  { induction 1 as [|x l Hx Hl IH]; cbn; auto. intro E. apply app_eq_nil in E. destruct E as [E1 E2].
    rewrite (Hx E1), (IH E2). reflexivity. }
  induction st using stmt_ind'; cbn; auto; intro E.
  - rewrite (K _ H E). reflexivity.
  - apply app_eq_nil in E. destruct E as [E1 E2]. rewrite (K _ H E1), (K _ H0 E2). reflexivity.
  - rewrite (K _ H E). reflexivity.
  - rewrite (K _ H E). reflexivity.
  - destruct x; [discriminate|]. cbn in E. rewrite (K _ H E). reflexivity.
Qed.

Lemma ren_block_t_no_with : forall rho b, flat_map with_targets b = [] -> ren_block_t rho b = ren_block rho b.
Proof.
  intros rho b. unfold ren_block_t, ren_block. induction b as [|x l IH]; cbn; auto. intro E.
  apply app_eq_nil in E. destruct E as [E1 E2]. rewrite (ren_stmt_t_no_with _ _ E1), (IH E2). reflexivity.
Qed.

Lemma wt_ok_block_no_with : forall rho b, flat_map with_targets b = [] -> wt_ok_block rho b = true.
Proof.
  intros rho b. unfold wt_ok_block. induction b as [|x l IH]; cbn; auto. intro E.
  apply app_eq_nil in E. destruct E as [E1 E2]. rewrite (wt_ok_no_with _ _ E1), (IH E2). reflexivity.
Qed.

Lemma swap_invol : forall x y z, swap x y (swap x y z) = z.
Proof.
  intros x y z. unfold swap. destruct (String.eqb z x) eqn:E1.
  - apply String.eqb_eq in E1. subst z. destruct (String.eqb y x) eqn:E2.
    + apply String.eqb_eq in E2. auto.
    + rewrite String.eqb_refl. reflexivity.
  - destruct (String.eqb z y) eqn:E2.
    + apply String.eqb_eq in E2. subst z. rewrite String.eqb_refl. reflexivity.
    + rewrite E1, E2. reflexivity.
Qed.

Lemma swap_inj : forall x y a b, swap x y a = swap x y b -> a = b.
Proof. intros x y a b H. rewrite <- (swap_invol x y a), H. apply swap_invol. Qed.

Lemma perm_of_inj : forall l, inj (perm_of l).
Proof.
  induction l as [|[x y] l IH]; intros a b H; cbn in H; auto.
  apply IH in H. eapply swap_inj; eauto.
Qed.

(* ---------------------------------------------------------------- semantic lemmas *)
Section SemLemmas.
Variable N : numops.
Variable P : program.

(* a body without `return` statements completes normally *)
Definition nr_exec (k : nat) := forall st s mu C o mu', count_ret st = 0%nat ->
  exec N P k s mu C st = ROk (o, mu') -> exists s', o = ONormal s'.
Definition nr_block (k : nat) := forall b s mu C o mu', count_ret_block b = 0%nat ->
  exec_block N P k s mu C b = ROk (o, mu') -> exists s', o = ONormal s'.
Definition nr_for (k : nat) := forall body s mu C p l i o mu', count_ret_block body = 0%nat ->
  for_loop N P k s mu C p l i body = ROk (o, mu') -> exists s', o = ONormal s'.

Lemma no_ret_all : forall k, nr_exec k /\ nr_block k /\ nr_for k.
Proof.
  induction k as [|k (IHe & IHb & IHf)].
  - repeat split; intros until 1; discriminate.
  - repeat split.
    + intros st s mu C o mu' Hc H. destruct st; simpl in H; cbn [count_ret] in Hc; try discriminate.
      * repeat bstep. inversion H; eauto.
      * bstep. destruct (env_get s x); [|discriminate]. bstep. inversion H; eauto.
      * repeat bstep. destruct a; [eapply IHb; [|exact H]; assumption|inversion H; eauto].
      * apply list_sum_app0 in Hc. destruct Hc. repeat bstep. destruct a; (eapply IHb; [|exact H]; assumption).
      * repeat bstep. destruct a; [|inversion H; eauto]. bstep.
        destruct o0 as [sw|vw].
        -- eapply IHe; [|exact H]. exact Hc.
        -- match goal with E : exec_block N P k _ _ _ _ = ROk _ |- _ =>
             destruct (IHb _ _ _ _ _ _ Hc E) as (s' & Hs) end. discriminate.
      * repeat bstep. eapply IHf; [|exact H]; assumption.
      * bstep. destruct v; try discriminate. eapply IHb; [|exact H]; assumption.
      * repeat bstep. destruct a; [|discriminate]. inversion H; eauto.
      * repeat bstep. inversion H; eauto.
      * inversion H; eauto.
    + intros b s mu C o mu' Hc H. destruct b as [|st b]; simpl in H.
      * inversion H; eauto.
      * unfold count_ret_block in Hc. cbn [map list_sum fold_right] in Hc. apply list_sum_app0 in Hc. destruct Hc as [Hc1 Hc2].
        bstep. destruct o0 as [sw|vw].
        -- eapply IHb; [|exact H]; assumption.
        -- match goal with E : exec N P k _ _ _ _ = ROk _ |- _ =>
             destruct (IHe _ _ _ _ _ _ Hc1 E) as (s' & Hs) end. discriminate.
    + intros body s mu C p l i o mu' Hc H. simpl in H. unfold for_loop_body in H.
      destruct (store_get mu l); [|discriminate]. destruct (nth_error l0 i); [|inversion H; eauto].
      repeat bstep. destruct o0 as [sw|vw].
      * eapply IHf; [|exact H]; assumption.
      * match goal with E : exec_block N P k _ _ _ _ = ROk _ |- _ =>
          destruct (IHb _ _ _ _ _ _ Hc E) as (s' & Hs) end. discriminate.
Qed.

Lemma no_ret_block : forall k b s mu C o mu', count_ret_block b = 0%nat ->
  exec_block N P k s mu C b = ROk (o, mu') -> exists s', o = ONormal s'.
Proof. intros k. apply (no_ret_all k). Qed.

Lemma no_ret_stmt : forall k st s mu C o mu', count_ret st = 0%nat ->
  exec N P k s mu C st = ROk (o, mu') -> exists s', o = ONormal s'.
Proof. intros k. apply (no_ret_all k). Qed.

(* sequencing two blocks *)
Lemma exec_block_cons : forall k s mu C st b,
  exec_block N P (S k) s mu C (st :: b) =
  rbind (exec N P k s mu C st) (fun '(o, mu1) =>
    match o with OReturn v => ROk (OReturn v, mu1) | ONormal s' => exec_block N P k s' mu1 C b end).
Proof. reflexivity. Qed.

Lemma exec_block_nil : forall k s mu C, exec_block N P (S k) s mu C [] = ROk (ONormal s, mu).
Proof. reflexivity. Qed.

Lemma exec_block_app : forall b1 n1 n2 s mu C s1 mu1 b2 r,
  exec_block N P n1 s mu C b1 = ROk (ONormal s1, mu1) ->
  exec_block N P n2 s1 mu1 C b2 = ROk r ->
  exists m, exec_block N P m s mu C (b1 ++ b2) = ROk r.
Proof.
  induction b1 as [|st b1 IH]; intros n1 n2 s mu C s1 mu1 b2 r H1 H2.
  - destruct n1; [discriminate|]. rewrite exec_block_nil in H1. inversion H1; subst. exists n2. exact H2.
  - destruct n1 as [|k]; [discriminate|]. rewrite exec_block_cons in H1.
    destruct (exec N P k s mu C st) as [[o mu0]| |] eqn:E; try discriminate. cbn [rbind] in H1.
    destruct o as [s0|v]; [|discriminate].
    destruct (IH _ _ _ _ _ _ _ _ _ H1 H2) as (m & Hm).
    exists (S (Nat.max k m)). cbn [app]. rewrite exec_block_cons.
    rewrite (exec_up N P k (Nat.max k m) _ _ _ _ _ (Nat.le_max_l _ _) E). cbn [rbind].
    apply (exec_block_up N P m); [apply Nat.le_max_r|exact Hm].
Qed.

Lemma exec_block_app_ret : forall b1 n1 s mu C v mu1 b2,
  exec_block N P n1 s mu C b1 = ROk (OReturn v, mu1) ->
  exec_block N P n1 s mu C (b1 ++ b2) = ROk (OReturn v, mu1).
Proof.
  induction b1 as [|st b1 IH]; intros n1 s mu C v mu1 b2 H1.
  - destruct n1; [discriminate|]. rewrite exec_block_nil in H1. discriminate.
  - destruct n1 as [|k]; [discriminate|]. cbn [app]. rewrite exec_block_cons in H1 |- *.
    destruct (exec N P k s mu C st) as [[o mu0]| |] eqn:E; try discriminate. cbn [rbind] in H1 |- *.
    destruct o as [s0|v0]; [|exact H1]. apply IH. exact H1.
Qed.

(* _replace_ret: the body with its trailing `return e` turned into `t = e` completes normally
   with t bound to the returned value, the same store, the same fuel *)
Lemma rr_sound : forall t k b b' T mu C v mu2,
  rr_block t b = Some b' -> count_ret_block b = 1%nat ->
  exec_block N P k T mu C b = ROk (OReturn v, mu2) ->
  exists T2, exec_block N P k T mu C b' = ROk (ONormal T2, mu2) /\ env_get T2 t = Some v.
Proof.
  intros t k. induction k as [k IH] using lt_wf_ind. intros b b' T mu C v mu2 Hrr Hc H.
  destruct b as [|st r]; [discriminate|].
  destruct k as [|k]; [discriminate|]. rewrite exec_block_cons in H.
  destruct r as [|s1 r].
  - (* the last statement *)
    cbn in Hrr. destruct (rr_stmt t st) as [l'|] eqn:El; [|discriminate]. inversion Hrr; subst b'. clear Hrr.
    rewrite exec_block_cons.
    destruct (exec N P k T mu C st) as [[o mu0]| |] eqn:E; try discriminate. cbn [rbind] in H.
    destruct o as [s0|v0].
    { destruct k; [discriminate|]. rewrite exec_block_nil in H. discriminate. }
    inversion H; subst v0 mu0. clear H.
    destruct k as [|k]; [discriminate|].
    destruct st; try discriminate.
    + (* with *)
      rewrite rr_stmt_context in El. destruct (rr_block t body) as [body'|] eqn:Eb; [|discriminate].
      inversion El; subst l'. clear El.
      simpl in E |- *.
      destruct (eval N P k T mu CReal e) as [[vc mu1]| |]; try discriminate. cbn [rbind] in E |- *.
      destruct vc; try discriminate.
      unfold count_ret_block in Hc. cbn [map list_sum fold_right count_ret] in Hc.
      assert (Hc' : count_ret_block body = 1%nat) by (unfold count_ret_block; lia).
      destruct (IH k ltac:(lia) _ _ _ _ _ _ _ Eb Hc' E) as (T2 & Ex & Ht).
      rewrite Ex. cbn [rbind]. exists T2. split; [reflexivity|exact Ht].
    + (* return *)
      cbn in El. inversion El; subst l'. clear El.
      simpl in E |- *.
      destruct (eval N P k T mu C e) as [[ve mu1]| |]; try discriminate. cbn [rbind] in E |- *.
      inversion E; subst. cbn [lift rbind]. eexists; split; [reflexivity|]. apply env_get_set_same.
  - (* an earlier statement *)
    rewrite rr_block_cons2 in Hrr. destruct (rr_block t (s1 :: r)) as [r'|] eqn:Er; [|discriminate].
    inversion Hrr; subst b'. clear Hrr.
    pose proof (rr_block_count _ _ _ Er) as Hge.
    unfold count_ret_block in Hc, Hge. cbn [map list_sum fold_right] in Hc, Hge.
    assert (Hc0 : count_ret st = 0%nat) by lia.
    assert (Hc1 : count_ret_block (s1 :: r) = 1%nat) by (unfold count_ret_block; cbn [map list_sum fold_right]; lia).
    rewrite exec_block_cons.
    destruct (exec N P k T mu C st) as [[o mu0]| |] eqn:E; try discriminate. cbn [rbind] in H |- *.
    destruct (no_ret_stmt _ _ _ _ _ _ _ Hc0 E) as (s' & Hs). subst o.
    apply (IH k ltac:(lia) _ _ _ _ _ _ _ Er Hc1 H).
Qed.

End SemLemmas.

(* ---------------------------------------------------------------- the model on call-free code *)
Section ModelFacts.
Variable V : list ident.
Variable sel : nat -> bool.
Variable impl : ident -> option func.
Variable rc : bool.
Variable fwt fhdr : bool.
Variable rex : nat -> bool.

Lemma inl_expr_nocall : forall fl e st, has_call e = false ->
  inl_expr V sel impl rc fwt fhdr rex fl e st = Some ([], e, st).
Proof.
  intros fl e st H. destruct e; cbn [inl_expr]; rewrite H; reflexivity.
Qed.

Lemma il_gen_nocall : forall ie, (forall a st, has_call a = false -> ie a st = Some ([], a, st)) ->
  forall es st, existsb has_call es = false -> il_gen ie es st = Some ([], es, st).
Proof.
  intros ie Hie. induction es as [|a es IH]; intros st H; [reflexivity|].
  cbn in H. apply orb_false_iff in H. destruct H as [Ha He].
  cbn. rewrite (Hie _ _ Ha), (IH _ He). reflexivity.
Qed.

Lemma ga_gen_nocall : forall ie rho, (forall a st, has_call a = false -> ie a st = Some ([], a, st)) ->
  forall args qs st l st', existsb has_call args = false ->
  ga_gen ie rho false args qs st = Some (l, st') ->
  l = bind_list rho qs args /\ st' = st /\ List.length args = List.length qs.
Proof.
  intros ie rho Hie. induction args as [|a args IH]; intros qs st l st' H Hg.
  - destruct qs; cbn in Hg; [|discriminate]. inversion Hg; subst. auto.
  - destruct qs as [|q qs]; cbn in Hg; [discriminate|].
    cbn in H. apply orb_false_iff in H. destruct H as [Ha He].
    rewrite (Hie _ _ Ha) in Hg.
    destruct (ga_gen ie rho false args qs st) as [[p2 st2]|] eqn:E; [|discriminate].
    destruct (IH _ _ _ _ He E) as (-> & -> & Hl). inversion Hg; subst. cbn. auto.
Qed.

(* what the model does at a call (not in a `with` header) whose arguments are call-free *)
Lemma inl_call_inv : forall fl g args st pre e' st',
  fl_hdr fl = false ->
  existsb has_call args = false ->
  inl_expr V sel impl rc fwt fhdr rex fl (ECall g args) st = Some (pre, e', st') ->
  exists fn', impl g = Some fn' /\
    ((pre = [] /\ e' = ECall g args) \/
     (exists subst t body',
        fl_while fl = false /\ count_ret_block (f_body fn') = 1%nat /\
        rr_block t ((if fwt then ren_block_t (perm_of subst) else ren_block (perm_of subst)) (f_body fn')) = Some body' /\
        fresh_ok V (perm_of subst) fn' body' t = true /\
        List.length args = List.length (f_params fn') /\
        pre = bind_list (perm_of subst) (f_params fn') args ++ wrap_body fl fn' body' /\
        e' = EVar t)).
Proof.
  intros fl g args st pre e' st' Hh Hargs H.
  cbn [inl_expr has_call negb] in H.
  destruct (impl g) as [fn'|] eqn:Ei; [|discriminate]. exists fn'. split; [reflexivity|].
  assert (Hie : forall a st0, has_call a = false -> inl_expr V sel impl rc fwt fhdr rex fl a st0 = Some ([], a, st0))
    by (intros; apply inl_expr_nocall; assumption).
  match type of H with (if ?c then _ else _) = _ => destruct c eqn:Eref end.
  { rewrite (il_gen_nocall _ Hie _ _ Hargs) in H. inversion H; subst. left; auto. }
  apply orb_false_iff in Eref. destruct Eref as [Eref _].
  apply orb_false_iff in Eref. destruct Eref as [Ew Ec]. apply negb_false_iff, Nat.eqb_eq in Ec.
  cbn [is_idx is_used is_ctr is_occ] in H.
  destruct (negb (sel (is_idx st))).
  { rewrite (il_gen_nocall _ Hie _ _ Hargs) in H. inversion H; subst. left; auto. }
  match type of H with match refresh_all ?a ?b with _ => _ end = _ =>
    destruct (refresh_all a b) as [[subst st1]|]; [|discriminate] end.
  match type of H with (if ?c then _ else _) = _ => destruct c; [discriminate|] end.
  rewrite Hh, andb_false_r in H.
  match type of H with match ga_gen ?a ?b ?h ?c ?d ?e with _ => _ end = _ =>
    destruct (ga_gen a b h c d e) as [[pa st2]|] eqn:Eg; [|discriminate] end.
  destruct (ga_gen_nocall _ _ Hie _ _ _ _ _ Hargs Eg) as (-> & -> & Hl).
  destruct (refresh "t" st1) as [[t st3]|]; [|discriminate].
  match type of H with match rr_block t ?b with _ => _ end = _ =>
    destruct (rr_block t b) as [body'|] eqn:Er; [|discriminate] end.
  destruct (fresh_ok V (perm_of subst) fn' body' t) eqn:Ef; [|discriminate].
  inversion H; subst. right. exists subst, t, body'. repeat split; auto.
Qed.

End ModelFacts.

(* ---------------------------------------------------------------- big-step rules with existential fuel *)
Section BigStep.
Variable N : numops.
Variable P : program.

Definition XE (T : env) (mu : store) (C : ctx) (e : expr) (r : value * store) : Prop :=
  exists m, eval N P m T mu C e = ROk r.
Definition XS (T : env) (mu : store) (C : ctx) (st : stmt) (r : outcome * store) : Prop :=
  exists m, exec N P m T mu C st = ROk r.
Definition XB (T : env) (mu : store) (C : ctx) (b : block) (r : outcome * store) : Prop :=
  exists m, exec_block N P m T mu C b = ROk r.
Definition XF (T : env) (mu : store) (C : ctx) (p : pat) (l : loc) (i : nat) (body : block)
    (r : outcome * store) : Prop :=
  exists m, for_loop N P m T mu C p l i body = ROk r.

Lemma eval_up : forall n m s mu C e r, (n <= m)%nat ->
  eval N P n s mu C e = ROk r -> eval N P m s mu C e = ROk r.
Proof. intros. eapply eval_mono; eauto. discriminate. Qed.

Lemma for_loop_up : forall n m s mu C p l i body r, (n <= m)%nat ->
  for_loop N P n s mu C p l i body = ROk r -> for_loop N P m s mu C p l i body = ROk r.
Proof. intros. eapply for_loop_mono; eauto. discriminate. Qed.

Lemma XB_nil : forall T mu C, XB T mu C [] (ONormal T, mu).
Proof. intros. exists 1%nat. reflexivity. Qed.

Lemma XB_cons_normal : forall T mu C st b T1 mu1 r,
  XS T mu C st (ONormal T1, mu1) -> XB T1 mu1 C b r -> XB T mu C (st :: b) r.
Proof.
  intros T mu C st b T1 mu1 r [m1 H1] [m2 H2]. exists (S (Nat.max m1 m2)).
  rewrite exec_block_cons. rewrite (exec_up N P m1 _ _ _ _ _ _ (Nat.le_max_l _ _) H1). cbn [rbind].
  apply (exec_block_up N P m2); [apply Nat.le_max_r|exact H2].
Qed.

Lemma XB_cons_ret : forall T mu C st b v mu1,
  XS T mu C st (OReturn v, mu1) -> XB T mu C (st :: b) (OReturn v, mu1).
Proof.
  intros T mu C st b v mu1 [m1 H1]. exists (S m1). rewrite exec_block_cons, H1. reflexivity.
Qed.

Lemma XB_single : forall T mu C st r, XS T mu C st r -> XB T mu C [st] r.
Proof.
  intros T mu C st [o mu1] H. destruct o.
  - eapply XB_cons_normal; [exact H|apply XB_nil].
  - apply XB_cons_ret. exact H.
Qed.

Lemma XB_single_inv : forall T mu C st r, XB T mu C [st] r -> XS T mu C st r.
Proof.
  intros T mu C st r [m H]. destruct m as [|m]; [discriminate|]. rewrite exec_block_cons in H.
  destruct (exec N P m T mu C st) as [[o mu1]| |] eqn:E; try discriminate. cbn [rbind] in H.
  exists m. rewrite E. destruct o; [|exact H].
  destruct m; [discriminate|]. rewrite exec_block_nil in H. exact H.
Qed.

Lemma XB_app : forall T mu C b1 b2 T1 mu1 r,
  XB T mu C b1 (ONormal T1, mu1) -> XB T1 mu1 C b2 r -> XB T mu C (b1 ++ b2) r.
Proof. intros T mu C b1 b2 T1 mu1 r [m1 H1] [m2 H2]. eapply exec_block_app; eauto. Qed.

Lemma XB_app_ret : forall T mu C b1 b2 v mu1,
  XB T mu C b1 (OReturn v, mu1) -> XB T mu C (b1 ++ b2) (OReturn v, mu1).
Proof. intros T mu C b1 b2 v mu1 [m1 H1]. exists m1. apply exec_block_app_ret. exact H1. Qed.

Lemma XS_assign : forall T mu C p e v mu1 T1,
  XE T mu C e (v, mu1) -> bind_pat p v T = Ok T1 -> XS T mu C (SAssign p e) (ONormal T1, mu1).
Proof.
  intros T mu C p e v mu1 T1 [m H] Hb. exists (S m). simpl. rewrite H. cbn [rbind]. rewrite Hb. reflexivity.
Qed.

Lemma XS_effect : forall T mu C e v mu1, XE T mu C e (v, mu1) -> XS T mu C (SEffect e) (ONormal T, mu1).
Proof. intros T mu C e v mu1 [m H]. exists (S m). simpl. rewrite H. reflexivity. Qed.

Lemma XS_return : forall T mu C e v mu1, XE T mu C e (v, mu1) -> XS T mu C (SReturn e) (OReturn v, mu1).
Proof. intros T mu C e v mu1 [m H]. exists (S m). simpl. rewrite H. reflexivity. Qed.

Lemma XE_var : forall T mu C x v, env_get T x = Some v -> XE T mu C (EVar x) (v, mu).
Proof. intros. exists 1%nat. simpl. rewrite H. reflexivity. Qed.

Lemma XS_if1_true : forall T mu C c body mu1 r,
  XE T mu C c (VBool true, mu1) -> XB T mu1 C body r -> XS T mu C (SIf1 c body) r.
Proof.
  intros T mu C c body mu1 r [m1 H1] [m2 H2]. exists (S (Nat.max m1 m2)). simpl.
  rewrite (eval_up m1 _ _ _ _ _ _ (Nat.le_max_l _ _) H1). cbn [rbind as_bool].
  apply (exec_block_up N P m2); [apply Nat.le_max_r|exact H2].
Qed.

Lemma XS_if1_false : forall T mu C c body mu1,
  XE T mu C c (VBool false, mu1) -> XS T mu C (SIf1 c body) (ONormal T, mu1).
Proof. intros T mu C c body mu1 [m1 H1]. exists (S m1). simpl. rewrite H1. reflexivity. Qed.

Lemma XS_if : forall T mu C c b1 b2 (t : bool) mu1 r,
  XE T mu C c (VBool t, mu1) -> XB T mu1 C (if t then b1 else b2) r -> XS T mu C (SIf c b1 b2) r.
Proof.
  intros T mu C c b1 b2 t mu1 r [m1 H1] [m2 H2]. exists (S (Nat.max m1 m2)). simpl.
  rewrite (eval_up m1 _ _ _ _ _ _ (Nat.le_max_l _ _) H1). cbn [rbind as_bool].
  destruct t; (apply (exec_block_up N P m2); [apply Nat.le_max_r|exact H2]).
Qed.

Lemma XS_while_false : forall T mu C c body mu1,
  XE T mu C c (VBool false, mu1) -> XS T mu C (SWhile c body) (ONormal T, mu1).
Proof. intros T mu C c body mu1 [m1 H1]. exists (S m1). simpl. rewrite H1. reflexivity. Qed.

Lemma XS_while_ret : forall T mu C c body mu1 v mu2,
  XE T mu C c (VBool true, mu1) -> XB T mu1 C body (OReturn v, mu2) ->
  XS T mu C (SWhile c body) (OReturn v, mu2).
Proof.
  intros T mu C c body mu1 v mu2 [m1 H1] [m2 H2]. exists (S (Nat.max m1 m2)). simpl.
  rewrite (eval_up m1 _ _ _ _ _ _ (Nat.le_max_l _ _) H1). cbn [rbind as_bool].
  rewrite (exec_block_up N P m2 _ _ _ _ _ _ (Nat.le_max_r _ _) H2). reflexivity.
Qed.

Lemma XS_while_step : forall T mu C c body mu1 T1 mu2 r,
  XE T mu C c (VBool true, mu1) -> XB T mu1 C body (ONormal T1, mu2) ->
  XS T1 mu2 C (SWhile c body) r -> XS T mu C (SWhile c body) r.
Proof.
  intros T mu C c body mu1 T1 mu2 r [m1 H1] [m2 H2] [m3 H3].
  assert (L1 : (m1 <= Nat.max m1 (Nat.max m2 m3))%nat) by lia.
  assert (L2 : (m2 <= Nat.max m1 (Nat.max m2 m3))%nat) by lia.
  assert (L3 : (m3 <= Nat.max m1 (Nat.max m2 m3))%nat) by lia.
  exists (S (Nat.max m1 (Nat.max m2 m3))). simpl.
  rewrite (eval_up m1 _ _ _ _ _ _ L1 H1). cbn [rbind as_bool].
  rewrite (exec_block_up N P m2 _ _ _ _ _ _ L2 H2). cbn [rbind].
  apply (exec_up N P m3); [exact L3|exact H3].
Qed.

Lemma XS_context : forall T mu C x e body C' mu1 r,
  XE T mu CReal e (VCtx C', mu1) ->
  XB (match x with Some x => env_set T x (VCtx C') | None => T end) mu1 C' body r ->
  XS T mu C (SContext x e body) r.
Proof.
  intros T mu C x e body C' mu1 r [m1 H1] [m2 H2]. exists (S (Nat.max m1 m2)). simpl.
  rewrite (eval_up m1 _ _ _ _ _ _ (Nat.le_max_l _ _) H1). cbn [rbind].
  apply (exec_block_up N P m2); [apply Nat.le_max_r|exact H2].
Qed.

Lemma XS_for : forall T mu C p it body vi mu1 l vs r,
  XE T mu C it (vi, mu1) -> as_list mu1 vi = ROk (l, vs) -> XF T mu1 C p l 0 body r ->
  XS T mu C (SFor p it body) r.
Proof.
  intros T mu C p it body vi mu1 l vs r [m1 H1] Hl [m2 H2]. exists (S (Nat.max m1 m2)). simpl.
  rewrite (eval_up m1 _ _ _ _ _ _ (Nat.le_max_l _ _) H1). cbn [rbind]. rewrite Hl. cbn [rbind].
  apply (for_loop_up m2); [apply Nat.le_max_r|exact H2].
Qed.

Lemma XF_done : forall T mu C p l i body vs,
  store_get mu l = Some vs -> nth_error vs i = None -> XF T mu C p l i body (ONormal T, mu).
Proof.
  intros. exists 1%nat. simpl. unfold for_loop_body. rewrite H, H0. reflexivity.
Qed.

Lemma XF_step_ret : forall T mu C p l i body vs x T1 v mu1,
  store_get mu l = Some vs -> nth_error vs i = Some x -> bind_pat p x T = Ok T1 ->
  XB T1 mu C body (OReturn v, mu1) -> XF T mu C p l i body (OReturn v, mu1).
Proof.
  intros T mu C p l i body vs x T1 v mu1 Hg Hn Hb [m H]. exists (S m). simpl. unfold for_loop_body.
  rewrite Hg, Hn, Hb. cbn [lift rbind]. rewrite H. reflexivity.
Qed.

Lemma XF_step : forall T mu C p l i body vs x T1 T2 mu1 r,
  store_get mu l = Some vs -> nth_error vs i = Some x -> bind_pat p x T = Ok T1 ->
  XB T1 mu C body (ONormal T2, mu1) -> XF T2 mu1 C p l (S i) body r -> XF T mu C p l i body r.
Proof.
  intros T mu C p l i body vs x T1 T2 mu1 r Hg Hn Hb [m1 H1] [m2 H2]. exists (S (Nat.max m1 m2)).
  simpl. unfold for_loop_body. rewrite Hg, Hn, Hb. cbn [lift rbind].
  rewrite (exec_block_up N P m1 _ _ _ _ _ _ (Nat.le_max_l _ _) H1). cbn [rbind].
  apply (for_loop_up m2); [apply Nat.le_max_r|exact H2].
Qed.

End BigStep.

(* ---------------------------------------------------------------- more syntactic facts *)
Lemma stmt_targets_names : forall st z, In z (stmt_targets st) -> In z (stmt_names st).
Proof.
  assert (K : forall l, Forall (fun st => forall z, In z (stmt_targets st) -> In z (stmt_names st)) l ->
              forall z, In z (flat_map stmt_targets l) -> In z (flat_map stmt_names l)).
  { induction 1 as [|x l Hx Hl IH]; cbn; auto. intros z Hz. apply in_app_or in Hz. apply in_or_app.
    destruct Hz; [left; apply Hx|right; apply IH]; assumption. }
  induction st using stmt_ind'; cbn [stmt_targets stmt_names]; intros z Hz; try contradiction.
  - apply in_or_app. left. exact Hz.
  - apply in_or_app. right. apply K; assumption.
  - apply in_or_app. right. apply in_app_or in Hz. apply in_or_app. destruct Hz; [left|right]; apply K; assumption.
  - apply in_or_app. right. apply K; assumption.
  - apply in_app_or in Hz. apply in_or_app. destruct Hz; [left; assumption|right].
    apply in_or_app. right. apply K; assumption.
  - apply in_app_or in Hz. apply in_or_app. destruct Hz; [left; assumption|right].
    apply in_or_app. right. apply K; assumption.
Qed.

Lemma block_targets_names : forall b z, In z (block_targets b) -> In z (block_names b).
Proof.
  unfold block_targets, block_names. induction b as [|st b IH]; cbn; auto. intros z Hz.
  apply in_app_or in Hz. apply in_or_app. destruct Hz; [left; apply stmt_targets_names|right; apply IH]; assumption.
Qed.

Lemma with_targets_ren : forall rho st, with_targets (ren_stmt rho st) = with_targets st.
Proof.
  intros rho.
  assert (K : forall l, Forall (fun st => with_targets (ren_stmt rho st) = with_targets st) l ->
              flat_map with_targets (map (ren_stmt rho) l) = flat_map with_targets l).
  { induction 1 as [|x l Hx Hl IH]; cbn; auto. rewrite Hx, IH. reflexivity. }
  induction st using stmt_ind'; cbn; auto; rewrite ?K by assumption; reflexivity.
Qed.

Lemma with_targets_ren_block : forall rho b,
  flat_map with_targets (ren_block rho b) = flat_map with_targets b.
Proof.
  intros rho b. unfold ren_block. induction b as [|st b IH]; cbn; auto. rewrite with_targets_ren, IH. reflexivity.
Qed.

Lemma with_targets_rr : forall t b b', rr_block t b = Some b' ->
  flat_map with_targets b' = flat_map with_targets b.
Proof.
  intros t.
  assert (Hs : forall st st', rr_stmt t st = Some st' -> with_targets st' = with_targets st).
  { induction st using stmt_ind'; intros st' Hrr; try discriminate.
    - rewrite rr_stmt_context in Hrr. destruct (rr_block t body) as [body'|] eqn:E; [|discriminate].
      inversion Hrr; subst st'. clear Hrr. cbn [with_targets]. f_equal.
      revert body' E. induction H as [|s0 r Hs0 Hr IH]; intros body' E; [discriminate|].
      destruct r as [|s1 r].
      + cbn in E. destruct (rr_stmt t s0) eqn:E0; [|discriminate]. inversion E; subst. cbn.
        rewrite (Hs0 _ eq_refl). reflexivity.
      + rewrite rr_block_cons2 in E. destruct (rr_block t (s1 :: r)) eqn:E1; [|discriminate].
        inversion E; subst. cbn [flat_map]. rewrite (IH _ eq_refl). reflexivity.
    - cbn in Hrr. inversion Hrr; subst. reflexivity. }
  induction b as [|s0 r IH]; intros b' H; [discriminate|].
  destruct r as [|s1 r].
  - cbn in H. destruct (rr_stmt t s0) eqn:E0; [|discriminate]. inversion H; subst. cbn.
    rewrite (Hs _ _ E0). reflexivity.
  - rewrite rr_block_cons2 in H. destruct (rr_block t (s1 :: r)) eqn:E1; [|discriminate].
    inversion H; subst. cbn [flat_map]. rewrite (IH _ eq_refl). reflexivity.
Qed.

Lemma no_with_spec : forall b, no_with b = true <-> flat_map with_targets b = [].
Proof. intro b. unfold no_with. destruct (flat_map with_targets b); split; auto; discriminate. Qed.

Lemma with_targets_bind_list : forall rho qs args, flat_map with_targets (bind_list rho qs args) = [].
Proof.
  intros rho qs args. unfold bind_list. induction (combine qs args); cbn; auto.
Qed.

(* ---------------------------------------------------------------- the core: one pass of `_FuncInline` *)
Section Core.
Variable N : numops.
Variable P : program.
Variable V : list ident.
Variable sel : nat -> bool.
Variable impl : ident -> option func.
Variable rc : bool.
Variable fwt fhdr : bool.
Variable rex : nat -> bool.

(* fn' can stand for fn at any call (same value, same store) *)
Definition call_sim (fn fn' : func) : Prop :=
  forall n vs mu C r, call N P n fn vs mu C = ROk r -> exists m, call N P m fn' vs mu C = ROk r.

Hypothesis Himpl : forall g fn', impl g = Some fn' ->
  exists fn, lookup_fn P g = Some fn /\ call_sim fn fn' /\ flat_map with_targets (f_body fn') = [].

(* the transformed run knows everything the original knows; the original binds only names of V *)
Definition Inv (s T : env) : Prop :=
  erel idr s T /\ (forall z, ~ In z V -> env_get s z = None).

Definition orelV (o o' : outcome) : Prop :=
  match o, o' with
  | ONormal s', ONormal T' => Inv s' T'
  | OReturn v, OReturn v' => v = v'
  | _, _ => False
  end.

Lemma Inv_bound_in_V : forall s T x v, Inv s T -> env_get s x = Some v -> In x V.
Proof.
  intros s T x v [_ Hd] Hx. destruct (in_dec string_dec x V) as [Hi|Hn]; auto.
  rewrite (Hd _ Hn) in Hx. discriminate.
Qed.

Lemma bind_args_run : forall rho, inj rho -> forall C args qs n s mu vs mu1 T sa,
  evals N P n s mu C args = ROk (vs, mu1) -> erel idr s T ->
  (forall q, In q qs -> env_get s (rho q) = None) ->
  List.length args = List.length qs -> erel rho sa T ->
  exists T1, XB N P T mu C (bind_list rho qs args) (ONormal T1, mu1) /\
             erel idr s T1 /\ keeps (map rho qs) T T1 /\
             (forall s0, bind_params qs vs sa = Ok s0 -> erel rho s0 T1).
Proof.
  intros rho Hinj C. induction args as [|a args IH]; intros qs n s mu vs mu1 T sa He HR Hq Hl Hsa.
  - destruct qs; [|discriminate]. destruct n; [discriminate|]. simpl in He. inversion He; subst.
    exists T. split; [apply XB_nil|]. split; [assumption|]. split; [apply keeps_refl|].
    intros s0 Hb. cbn in Hb. inversion Hb; subst. assumption.
  - destruct qs as [|q qs]; [discriminate|]. destruct n; [discriminate|]. simpl in He.
    repeat bstep. inversion He; subst. clear He.
    assert (HR' : erel idr s (env_set T (rho q) v)).
    { intros x w Hx. unfold idr. rewrite env_get_set_other; [apply HR; exact Hx|].
      intro Heq. subst x. rewrite (Hq q (or_introl eq_refl)) in Hx. discriminate. }
    destruct (IH qs n s s0 l mu1 (env_set T (rho q) v) (env_set sa q v) E0 HR'
                (fun q0 Hq0 => Hq q0 (or_intror Hq0)) ltac:(cbn in Hl; lia)
                (erel_set rho sa T q v Hinj Hsa)) as (T1 & Hx & HR1 & K1 & Hb1).
    exists T1. split.
    { cbn [bind_list combine map fst snd]. eapply XB_cons_normal; [|exact Hx].
      eapply XS_assign; [exists n; eapply eval_frame; eauto|reflexivity]. }
    split; [assumption|]. split.
    { cbn [map]. change (rho q :: map rho qs) with ([rho q] ++ map rho qs).
      eapply keeps_trans; [apply keeps_set|exact K1]. }
    intros s1 Hb. cbn in Hb. apply Hb1. exact Hb.
Qed.

Lemma fresh_ok_spec : forall rho fn' body' t, fresh_ok V rho fn' body' t = true ->
  flat_map with_targets body' = [] ->
  forall z, In z (map rho (f_params fn') ++ block_targets body' ++ [t]) -> ~ In z V.
Proof.
  intros rho fn' body' t H Hnw z Hz. unfold fresh_ok in H. rewrite Hnw in H. rewrite forallb_forall in H.
  assert (Hf : filter (fun z0 : ident => negb (mem z0 [])) (block_targets body') = block_targets body').
  { generalize (block_targets body') as l. induction l as [|a l IHl]; [reflexivity|]. cbn [filter mem negb]. f_equal. exact IHl. }
  rewrite Hf in H.
  specialize (H z Hz). apply negb_true_iff in H. apply mem_false_In. exact H.
Qed.

(* the spliced code computes what the call computes *)
Lemma site_run : forall g fn' args subst t body' n s mu C vs mu1 fn v mu2 T,
  impl g = Some fn' -> lookup_fn P g = Some fn ->
  count_ret_block (f_body fn') = 1%nat ->
  rr_block t (ren_block (perm_of subst) (f_body fn')) = Some body' ->
  fresh_ok V (perm_of subst) fn' body' t = true ->
  List.length args = List.length (f_params fn') ->
  evals N P n s mu C args = ROk (vs, mu1) ->
  call N P n fn vs mu1 C = ROk (v, mu2) ->
  Inv s T ->
  exists T2, XB N P T mu C (bind_list (perm_of subst) (f_params fn') args ++ wrap_body F0 fn' body')
                (ONormal T2, mu2) /\
             env_get T2 t = Some v /\ Inv s T2.
Proof.
  intros g fn' args subst t body' n s mu C vs mu1 fn v mu2 T Hi Hl Hc Hrr Hf Hlen He Hcall [HR Hd].
  set (rho := perm_of subst) in *.
  assert (Hinj : inj rho) by apply perm_of_inj.
  destruct (Himpl _ _ Hi) as (fn0 & Hl0 & Hsim & Hnw). rewrite Hl in Hl0. inversion Hl0; subst fn0. clear Hl0.
  destruct (Hsim _ _ _ _ _ Hcall) as (m & Hcall').
  destruct m as [|m]; [discriminate|]. rewrite call_unfold in Hcall'.
  destruct (bind_params (f_params fn') vs []) as [s0|] eqn:Eb; [|discriminate]. cbn [lift rbind] in Hcall'.
  set (C' := match f_ctx fn' with Some c => c | None => C end) in *.
  destruct (exec_block N P m s0 mu1 C' (f_body fn')) as [[o mu0]| |] eqn:Ex; try discriminate.
  cbn [rbind] in Hcall'. destruct o as [s1|v0]; [discriminate|]. inversion Hcall'; subst v0 mu0. clear Hcall'.
  assert (Hnw' : flat_map with_targets body' = []).
  { rewrite (with_targets_rr _ _ _ Hrr), with_targets_ren_block. exact Hnw. }
  pose proof (fresh_ok_spec _ _ _ _ Hf Hnw') as Hfr.
  assert (Hq : forall q, In q (f_params fn') -> env_get s (rho q) = None).
  { intros q Hq. apply Hd. apply Hfr. apply in_or_app. left. apply in_map. exact Hq. }
  assert (Hnil : erel rho [] T) by (intros x w Hx; discriminate).
  destruct (bind_args_run rho Hinj C args (f_params fn') n s mu vs mu1 T [] He HR Hq Hlen Hnil)
    as (T1 & Hx1 & HR1 & K1 & Hb1).
  specialize (Hb1 _ Eb).
  (* the renamed body under T1 *)
  destruct (h_exec_block _ _ _ _ (sim_all N P P (ext_refl P) m) rho Hinj m _ _ _ _ _ _ _ (le_n _) Hb1
              (wt_ok_block_no_with rho _ Hnw) Ex) as (o' & Ex' & Ho).
  destruct o' as [T'|v']; cbn in Ho; [contradiction|]. subst v'.
  assert (Hc' : count_ret_block (ren_block rho (f_body fn')) = 1%nat) by (rewrite count_ret_ren_block; exact Hc).
  destruct (rr_sound N P t m _ _ _ _ _ _ _ Hrr Hc' Ex') as (T2 & Ex2 & Ht).
  pose proof (exec_block_keeps N P _ _ _ _ _ _ _ Ex2) as K2.
  exists T2. split; [|split; [exact Ht|]].
  - eapply XB_app; [exact Hx1|]. unfold wrap_body. cbn [fl_hdr F0]. unfold C' in Ex2.
    destruct (f_ctx fn') as [c|].
    + apply XB_single. eapply XS_context with (C' := c) (mu1 := mu1); [exists 1%nat; reflexivity|].
      exists m. exact Ex2.
    + exists m. exact Ex2.
  - split; [|exact Hd]. intros x w Hx. unfold idr.
    assert (Hv : In x V) by (eapply Inv_bound_in_V; [split; eassumption|exact Hx]).
    rewrite K2.
    + apply HR1. exact Hx.
    + intro Hin. apply (Hfr x); [|exact Hv]. apply in_or_app. right. apply in_or_app. left. exact Hin.
Qed.


Lemma Inv_after : forall s T s' T' W, Inv s T -> erel idr s' T' -> keeps W s s' ->
  (forall z, In z W -> In z V) -> Inv s' T'.
Proof.
  intros s T s' T' W [_ Hd] HR K HW. split; [exact HR|]. intros z Hz.
  rewrite K; [apply Hd; exact Hz|]. intro Hin. apply Hz, HW, Hin.
Qed.

Lemma bind_pat_keeps : forall p v s s1, bind_pat p v s = Ok s1 -> keeps (pat_vars p) s s1.
Proof.
  intros p v s s1 Eb.
  destruct (bind_pat_sim idr inj_idr _ _ _ _ s Eb (erel_id_refl s)) as (S1 & Eb' & _ & K).
  rewrite ren_pat_id in Eb'. rewrite Eb in Eb'. inversion Eb'; subst. unfold idr in K. rewrite map_id in K. exact K.
Qed.

(* a statement the pass leaves alone *)
Lemma leaf_case : forall n s mu C st o mu' T,
  exec N P n s mu C st = ROk (o, mu') -> Inv s T -> (forall z, In z (stmt_targets st) -> In z V) ->
  exists o', XB N P T mu C [st] (o', mu') /\ orelV o o'.
Proof.
  intros n s mu C st o mu' T H HI HW.
  destruct (exec_frame N P n n s T mu C st o mu' (le_n _) (proj1 HI) H) as (o' & Ex & Ho).
  exists o'. split; [apply XB_single; exists n; exact Ex|].
  destruct o as [s'|v], o' as [T'|v']; cbn in Ho |- *; try contradiction; auto.
  destruct Ho as [HR' _]. eapply Inv_after; eauto. eapply exec_keeps; eauto.
Qed.

(* an expression in a position where a call may be inlined *)
Lemma expr_site : forall e st pre e' st' n s mu C v mu' T,
  site_expr e = true ->
  inl_expr V sel impl rc fwt fhdr rex F0 e st = Some (pre, e', st') ->
  eval N P n s mu C e = ROk (v, mu') -> Inv s T ->
  exists T2 mu2, XB N P T mu C pre (ONormal T2, mu2) /\ XE N P T2 mu2 C e' (v, mu') /\ Inv s T2.
Proof.
  intros e st pre e' st' n s mu C v mu' T Hs Hi He HI.
  destruct (has_call e) eqn:Hc.
  2:{ rewrite (inl_expr_nocall V sel impl rc fwt fhdr rex _ _ _ Hc) in Hi. inversion Hi; subst.
      exists T, mu. split; [apply XB_nil|]. split; [|exact HI].
      exists n. eapply eval_frame; eauto. apply (proj1 HI). }
  destruct e; cbn [site_expr] in Hs; try (rewrite Hc in Hs; discriminate).
  apply negb_true_iff in Hs.
  destruct (inl_call_inv V sel impl rc fwt fhdr rex F0 _ _ _ _ _ _ eq_refl Hs Hi) as (fn' & Himp & [[-> ->]|Hin]).
  - exists T, mu. split; [apply XB_nil|]. split; [|exact HI].
    exists n. eapply eval_frame; eauto. apply (proj1 HI).
  - destruct Hin as (subst & t & body' & _ & Hcnt & Hrr & Hf & Hlen & -> & ->).
    assert (Hrr' : rr_block t (ren_block (perm_of subst) (f_body fn')) = Some body').
    { destruct (Himpl _ _ Himp) as (_ & _ & _ & Hnw0).
      destruct fwt; [rewrite <- (ren_block_t_no_with _ _ Hnw0)|]; exact Hrr. }
    clear Hrr. rename Hrr' into Hrr.
    destruct n as [|n]; [discriminate|]. simpl in He.
    destruct (lookup_fn P f) as [fn|] eqn:El; [|discriminate].
    bstep.
    destruct (site_run f fn' args subst t body' n s mu C l s0 fn v mu' T Himp El Hcnt Hrr Hf Hlen E He HI)
      as (T2 & Hx & Ht & HI2).
    exists T2, mu'. split; [exact Hx|]. split; [apply XE_var; exact Ht|exact HI2].
Qed.

Definition tgt_in (b : block) : Prop := forall z, In z (block_targets b) -> In z V.

Definition CE (n : nat) : Prop := forall st sg l sg' s mu C o mu' T,
  sform st = true -> (forall z, In z (stmt_targets st) -> In z V) ->
  inl_stmt V sel impl rc fwt fhdr rex st sg = Some (l, sg') ->
  exec N P n s mu C st = ROk (o, mu') -> Inv s T ->
  exists o', XB N P T mu C l (o', mu') /\ orelV o o'.

Definition CB (n : nat) : Prop := forall b sg b' sg' s mu C o mu' T,
  sform_block b = true -> tgt_in b ->
  inl_block V sel impl rc fwt fhdr rex b sg = Some (b', sg') ->
  exec_block N P n s mu C b = ROk (o, mu') -> Inv s T ->
  exists o', XB N P T mu C b' (o', mu') /\ orelV o o'.

Definition CF (n : nat) : Prop := forall body sg body' sg' p l i s mu C o mu' T,
  sform_block body = true -> tgt_in body -> (forall z, In z (pat_vars p) -> In z V) ->
  inl_block V sel impl rc fwt fhdr rex body sg = Some (body', sg') ->
  for_loop N P n s mu C p l i body = ROk (o, mu') -> Inv s T ->
  exists o', XF N P T mu C p l i body' (o', mu') /\ orelV o o'.

Lemma tgt_in_cons : forall st b, tgt_in (st :: b) ->
  (forall z, In z (stmt_targets st) -> In z V) /\ tgt_in b.
Proof.
  intros st b H. unfold tgt_in, block_targets in *. cbn [flat_map] in H. split; intros z Hz; apply H, in_or_app; auto.
Qed.

Lemma orelV_Inv_refl : forall s T, Inv s T -> orelV (ONormal s) (ONormal T).
Proof. auto. Qed.

Ltac nocall_in H :=
  repeat match type of H with
  | context [inl_expr V sel impl rc fwt fhdr rex ?fl ?e ?st] =>
      rewrite (inl_expr_nocall V sel impl rc fwt fhdr rex fl e st) in H by assumption
  end.

Ltac split_sform Hs :=
  cbn [sform] in Hs; repeat (apply andb_prop in Hs; let H1 := fresh "Hs" in destruct Hs as [Hs H1]);
  repeat match goal with H : negb _ = true |- _ => apply negb_true_iff in H end.

Lemma CE_step : forall n, CE n -> CB n -> CF n -> CE (S n).
Proof.
  intros n IHe IHb IHf st sg l sg' s mu C o mu' T Hs HW Hi H HI.
  destruct st.
  - (* SAssign *)
    cbn [sform] in Hs. cbn [inl_stmt] in Hi.
    destruct (inl_expr V sel impl rc fwt fhdr rex F0 e sg) as [[[pre e'] sg1]|] eqn:Ee; [|discriminate].
    inversion Hi; subst l sg'. clear Hi.
    simpl in H. bstep. destruct (bind_pat p v s) as [s1|] eqn:Eb; [|discriminate].
    cbn [lift rbind] in H. inversion H; subst o mu'. clear H.
    destruct (expr_site _ _ _ _ _ _ _ _ _ _ _ _ Hs Ee E HI) as (T2 & mu2 & Hx & Hv & HI2).
    destruct (bind_pat_sim idr inj_idr _ _ _ _ _ Eb (proj1 HI2)) as (T3 & Eb' & HR3 & _).
    rewrite ren_pat_id in Eb'.
    exists (ONormal T3). split.
    + eapply XB_app; [exact Hx|]. apply XB_single. eapply XS_assign; eauto.
    + cbn. eapply Inv_after; [exact HI|exact HR3| |exact HW].
      eapply bind_pat_keeps; eauto.
  - (* SIndexAssign *)
    split_sform Hs. cbn [inl_stmt] in Hi. unfold inl_exprs in Hi.
    rewrite (il_gen_nocall _ (fun a st0 Ha => inl_expr_nocall V sel impl rc fwt fhdr rex F0 a st0 Ha) _ _ Hs) in Hi.
    nocall_in Hi. inversion Hi; subst. eapply leaf_case; eauto.
  - (* SIf1 *)
    split_sform Hs. cbn [inl_stmt] in Hi. nocall_in Hi.
    destruct (ib_gen (inl_stmt V sel impl rc fwt fhdr rex) body sg) as [[body' sg2]|] eqn:Eb; [|discriminate].
    inversion Hi; subst l sg'. clear Hi. cbn [app].
    simpl in H. repeat bstep. destruct v; try discriminate. cbn in E0. inversion E0; subst a. clear E0.
    assert (Hc : XE N P T mu C c (VBool b, s0)) by (exists n; eapply eval_frame; eauto; apply (proj1 HI)).
    destruct b.
    + destruct (IHb body sg body' sg2 s s0 C o mu' T Hs0 HW Eb H HI) as (o' & Hx & Ho).
      exists o'. split; [|exact Ho]. apply XB_single. eapply XS_if1_true; eauto.
    + inversion H; subst. exists (ONormal T). split; [|exact HI]. apply XB_single. apply XS_if1_false. exact Hc.
  - (* SIf *)
    split_sform Hs. cbn [inl_stmt] in Hi. nocall_in Hi.
    destruct (ib_gen (inl_stmt V sel impl rc fwt fhdr rex) ift sg) as [[b1' sg2]|] eqn:Eb1; [|discriminate].
    destruct (ib_gen (inl_stmt V sel impl rc fwt fhdr rex) iff sg2) as [[b2' sg3]|] eqn:Eb2; [|discriminate].
    inversion Hi; subst l sg'. clear Hi. cbn [app].
    simpl in H. repeat bstep. destruct v; try discriminate. cbn in E0. inversion E0; subst a. clear E0.
    assert (Hc : XE N P T mu C c (VBool b, s0)) by (exists n; eapply eval_frame; eauto; apply (proj1 HI)).
    assert (HW1 : tgt_in ift) by (intros z Hz; apply HW; cbn; apply in_or_app; auto).
    assert (HW2 : tgt_in iff) by (intros z Hz; apply HW; cbn; apply in_or_app; auto).
    destruct b.
    + destruct (IHb ift sg b1' sg2 s s0 C o mu' T Hs1 HW1 Eb1 H HI) as (o' & Hx & Ho).
      exists o'. split; [|exact Ho]. apply XB_single. eapply XS_if with (t := true); eauto.
    + destruct (IHb iff sg2 b2' sg3 s s0 C o mu' T Hs0 HW2 Eb2 H HI) as (o' & Hx & Ho).
      exists o'. split; [|exact Ho]. apply XB_single. eapply XS_if with (t := false); eauto.
  - (* SWhile *)
    pose proof Hi as Hi0. pose proof Hs as Hs00.
    split_sform Hs. cbn [inl_stmt] in Hi. nocall_in Hi.
    destruct (ib_gen (inl_stmt V sel impl rc fwt fhdr rex) body sg) as [[body' sg2]|] eqn:Eb; [|discriminate].
    inversion Hi; subst l sg'. clear Hi. cbn [app].
    simpl in H. repeat bstep. destruct v; try discriminate. cbn in E0. inversion E0; subst a. clear E0.
    assert (Hc : XE N P T mu C c (VBool b, s0)) by (exists n; eapply eval_frame; eauto; apply (proj1 HI)).
    destruct b.
    + bstep.
      destruct (IHb body sg body' sg2 s s0 C o0 s1 T Hs0 HW Eb E0 HI) as (o1 & Hx & Ho).
      destruct o0 as [sw|vw], o1 as [Tw|vw']; cbn in Ho; try contradiction.
      * destruct (IHe (SWhile c body) sg _ sg2 sw s1 C o mu' Tw Hs00 HW Hi0 H Ho) as (o2 & Hx2 & Ho2).
        exists o2. split; [|exact Ho2]. apply XB_single. apply XB_single_inv in Hx2.
        eapply XS_while_step; eauto.
      * subst vw'. inversion H; subst. exists (OReturn vw). split; [|reflexivity].
        apply XB_single. eapply XS_while_ret; eauto.
    + inversion H; subst. exists (ONormal T). split; [|exact HI]. apply XB_single. apply XS_while_false. exact Hc.
  - (* SFor *)
    split_sform Hs. cbn [inl_stmt] in Hi. nocall_in Hi.
    destruct (ib_gen (inl_stmt V sel impl rc fwt fhdr rex) body sg) as [[body' sg2]|] eqn:Eb; [|discriminate].
    inversion Hi; subst l sg'. clear Hi. cbn [app].
    simpl in H. repeat bstep.
    assert (Hc : XE N P T mu C it (v, s0)) by (exists n; eapply eval_frame; eauto; apply (proj1 HI)).
    assert (HW1 : tgt_in body) by (intros z Hz; apply HW; cbn; apply in_or_app; auto).
    assert (HW2 : forall z, In z (pat_vars p) -> In z V) by (intros z Hz; apply HW; cbn; apply in_or_app; auto).
    destruct (IHf body sg body' sg2 p l 0%nat s s0 C o mu' T Hs0 HW1 HW2 Eb H HI) as (o' & Hx & Ho).
    exists o'. split; [|exact Ho]. apply XB_single. eapply XS_for; eauto.
  - (* SContext *)
    split_sform Hs. cbn [inl_stmt] in Hi. nocall_in Hi.
    destruct (ib_gen (inl_stmt V sel impl rc fwt fhdr rex) body sg) as [[body' sg2]|] eqn:Eb; [|discriminate].
    inversion Hi; subst l sg'. clear Hi. cbn [app].
    simpl in H. bstep. destruct v; try discriminate.
    assert (Hc : XE N P T mu CReal e (VCtx c, s0)) by (exists n; eapply eval_frame; eauto; apply (proj1 HI)).
    assert (HW1 : tgt_in body) by (intros z Hz; apply HW; cbn; apply in_or_app; auto).
    assert (HI1 : Inv (match x with Some x0 => env_set s x0 (VCtx c) | None => s end)
                      (match x with Some x0 => env_set T x0 (VCtx c) | None => T end)).
    { destruct x as [x|]; [|exact HI]. destruct HI as [HR Hd]. split.
      - apply (erel_set idr s T x (VCtx c) inj_idr HR).
      - intros z Hz. rewrite env_get_set_other; [apply Hd; exact Hz|].
        intro; subst z. apply Hz, HW. cbn. left. reflexivity. }
    destruct (IHb body sg body' sg2 _ s0 c o mu' _ Hs0 HW1 Eb H HI1) as (o' & Hx & Ho).
    exists o'. split; [|exact Ho]. apply XB_single. eapply XS_context; eauto.
  - (* SAssert *)
    split_sform Hs. cbn [inl_stmt] in Hi. nocall_in Hi. inversion Hi; subst. eapply leaf_case; eauto.
  - (* SEffect *)
    cbn [sform] in Hs. cbn [inl_stmt] in Hi.
    destruct (inl_expr V sel impl rc fwt fhdr rex F0 e sg) as [[[pre e'] sg1]|] eqn:Ee; [|discriminate].
    inversion Hi; subst l sg'. clear Hi.
    simpl in H. bstep. inversion H; subst o mu'. clear H.
    destruct (expr_site _ _ _ _ _ _ _ _ _ _ _ _ Hs Ee E HI) as (T2 & mu2 & Hx & Hv & HI2).
    exists (ONormal T2). split; [|exact HI2].
    eapply XB_app; [exact Hx|]. apply XB_single. eapply XS_effect; eauto.
  - (* SReturn *)
    cbn [sform] in Hs. cbn [inl_stmt] in Hi.
    destruct (inl_expr V sel impl rc fwt fhdr rex F0 e sg) as [[[pre e'] sg1]|] eqn:Ee; [|discriminate].
    inversion Hi; subst l sg'. clear Hi.
    simpl in H. bstep. inversion H; subst o mu'. clear H.
    destruct (expr_site _ _ _ _ _ _ _ _ _ _ _ _ Hs Ee E HI) as (T2 & mu2 & Hx & Hv & HI2).
    exists (OReturn v). split; [|reflexivity].
    eapply XB_app; [exact Hx|]. apply XB_single. eapply XS_return; eauto.
  - (* SPass *)
    cbn [inl_stmt] in Hi. inversion Hi; subst. eapply leaf_case; eauto.
Qed.


Lemma CB_step : forall n, CE n -> CB n -> CB (S n).
Proof.
  intros n IHe IHb b sg b' sg' s mu C o mu' T Hs HW Hi H HI.
  destruct b as [|st b].
  - cbn in Hi. inversion Hi; subst. rewrite exec_block_nil in H. inversion H; subst.
    exists (ONormal T). split; [apply XB_nil|exact HI].
  - unfold inl_block in Hi. cbn [ib_gen] in Hi.
    destruct (inl_stmt V sel impl rc fwt fhdr rex st sg) as [[l1 sg1]|] eqn:E1; [|discriminate].
    destruct (ib_gen (inl_stmt V sel impl rc fwt fhdr rex) b sg1) as [[l2 sg2]|] eqn:E2; [|discriminate].
    inversion Hi; subst b' sg'. clear Hi.
    unfold sform_block in Hs. cbn [forallb] in Hs. apply andb_prop in Hs. destruct Hs as [Hs1 Hs2].
    destruct (tgt_in_cons _ _ HW) as [HW1 HW2].
    rewrite exec_block_cons in H. bstep.
    destruct (IHe st sg l1 sg1 s mu C o0 s0 T Hs1 HW1 E1 E HI) as (o1 & Hx & Ho).
    destruct o0 as [sw|vw], o1 as [Tw|vw']; cbn in Ho; try contradiction.
    + destruct (IHb b sg1 l2 sg2 sw s0 C o mu' Tw Hs2 HW2 E2 H Ho) as (o2 & Hx2 & Ho2).
      exists o2. split; [|exact Ho2]. eapply XB_app; eauto.
    + subst vw'. inversion H; subst. exists (OReturn vw). split; [|reflexivity]. apply XB_app_ret. exact Hx.
Qed.

Lemma CF_step : forall n, CB n -> CF n -> CF (S n).
Proof.
  intros n IHb IHf body sg body' sg' p l i s mu C o mu' T Hs HW HWp Hi H HI.
  simpl in H. unfold for_loop_body in H.
  destruct (store_get mu l) as [vs|] eqn:Eg; [|discriminate].
  destruct (nth_error vs i) as [x|] eqn:En.
  2:{ inversion H; subst. exists (ONormal T). split; [eapply XF_done; eauto|exact HI]. }
  destruct (bind_pat p x s) as [s1|] eqn:Eb; [|discriminate]. cbn [lift rbind] in H.
  destruct (bind_pat_sim idr inj_idr _ _ _ _ _ Eb (proj1 HI)) as (T1 & Eb' & HR1 & _).
  rewrite ren_pat_id in Eb'.
  assert (HI1 : Inv s1 T1) by (eapply Inv_after; [exact HI|exact HR1|eapply bind_pat_keeps; eauto|exact HWp]).
  bstep.
  destruct (IHb body sg body' sg' s1 mu C o0 s0 T1 Hs HW Hi E HI1) as (o1 & Hx & Ho).
  destruct o0 as [sw|vw], o1 as [Tw|vw']; cbn in Ho; try contradiction.
  - destruct (IHf body sg body' sg' p l (S i) sw s0 C o mu' Tw Hs HW HWp Hi H Ho) as (o2 & Hx2 & Ho2).
    exists o2. split; [|exact Ho2]. eapply XF_step; eauto.
  - subst vw'. inversion H; subst. exists (OReturn vw). split; [|reflexivity]. eapply XF_step_ret; eauto.
Qed.

Lemma C_all : forall n, CE n /\ CB n /\ CF n.
Proof.
  induction n as [|n (IHe & IHb & IHf)].
  - repeat split; intros ? ? ? ? ? ? ? ? ? ? ? ?; intros; discriminate.
  - repeat split; [apply CE_step|apply CB_step|apply CF_step]; assumption.
Qed.

End Core.

(* the pass does not introduce named `with` targets *)
Section NoWith.
Variable V : list ident.
Variable sel : nat -> bool.
Variable impl : ident -> option func.
Variable rc : bool.
Variable fwt fhdr : bool.
Variable rex : nat -> bool.
Hypothesis Hnw : forall g fn', impl g = Some fn' -> flat_map with_targets (f_body fn') = [].

Lemma nw_site_expr : forall e st pre e' st', site_expr e = true ->
  inl_expr V sel impl rc fwt fhdr rex F0 e st = Some (pre, e', st') -> flat_map with_targets pre = [].
Proof.
  intros e st pre e' st' Hs Hi.
  destruct (has_call e) eqn:Hc.
  2:{ rewrite (inl_expr_nocall V sel impl rc fwt fhdr rex _ _ _ Hc) in Hi. inversion Hi; subst. reflexivity. }
  destruct e; cbn [site_expr] in Hs; try (rewrite Hc in Hs; discriminate).
  apply negb_true_iff in Hs.
  destruct (inl_call_inv V sel impl rc fwt fhdr rex F0 _ _ _ _ _ _ eq_refl Hs Hi) as (fn' & Himp & [[-> ->]|Hin]); [reflexivity|].
  destruct Hin as (subst & t & body' & _ & _ & Hrr & _ & _ & -> & _).
  assert (Hrr' : rr_block t (ren_block (perm_of subst) (f_body fn')) = Some body').
  { destruct fwt; [rewrite <- (ren_block_t_no_with _ _ (Hnw _ _ Himp))|]; exact Hrr. }
  clear Hrr. rename Hrr' into Hrr.
  rewrite flat_map_app, with_targets_bind_list. cbn [app].
  unfold wrap_body. cbn [fl_hdr F0].
  pose proof (with_targets_rr _ _ _ Hrr) as K. rewrite with_targets_ren_block, (Hnw _ _ Himp) in K.
  destruct (f_ctx fn'); cbn; rewrite ?K; reflexivity.
Qed.

Lemma nw_inl_stmt : forall st sg l sg', sform st = true -> with_targets st = [] ->
  inl_stmt V sel impl rc fwt fhdr rex st sg = Some (l, sg') -> flat_map with_targets l = [].
Proof.
  assert (K : forall body, Forall (fun st => forall sg l sg', sform st = true -> with_targets st = [] ->
                inl_stmt V sel impl rc fwt fhdr rex st sg = Some (l, sg') -> flat_map with_targets l = []) body ->
              forall sg body' sg', forallb sform body = true -> flat_map with_targets body = [] ->
              ib_gen (inl_stmt V sel impl rc fwt fhdr rex) body sg = Some (body', sg') -> flat_map with_targets body' = []).
  { induction 1 as [|x r Hx Hr IH]; intros sg body' sg' Hs Hw Hi.
    - cbn in Hi. inversion Hi; subst. reflexivity.
    - cbn [ib_gen] in Hi.
      destruct (inl_stmt V sel impl rc fwt fhdr rex x sg) as [[l1 sg1]|] eqn:E1; [|discriminate].
      destruct (ib_gen (inl_stmt V sel impl rc fwt fhdr rex) r sg1) as [[l2 sg2]|] eqn:E2; [|discriminate].
      inversion Hi; subst. cbn in Hs, Hw. apply andb_prop in Hs. destruct Hs as [Hs1 Hs2].
      apply app_eq_nil in Hw. destruct Hw as [Hw1 Hw2].
      rewrite flat_map_app, (Hx _ _ _ Hs1 Hw1 E1), (IH _ _ _ Hs2 Hw2 E2). reflexivity. }
  induction st using stmt_ind'; intros sg l sg' Hs Hw Hi.
  - cbn [sform] in Hs. cbn [inl_stmt] in Hi.
    destruct (inl_expr V sel impl rc fwt fhdr rex F0 e sg) as [[[pre e'] sg1]|] eqn:Ee; [|discriminate].
    inversion Hi; subst. rewrite flat_map_app, (nw_site_expr _ _ _ _ _ Hs Ee). reflexivity.
  - cbn [sform] in Hs. apply andb_prop in Hs. destruct Hs as [Hs1 Hs2].
    apply negb_true_iff in Hs1. apply negb_true_iff in Hs2.
    cbn [inl_stmt] in Hi. unfold inl_exprs in Hi.
    rewrite (il_gen_nocall _ (fun a st0 Ha => inl_expr_nocall V sel impl rc fwt fhdr rex F0 a st0 Ha) _ _ Hs1) in Hi.
    rewrite (inl_expr_nocall V sel impl rc fwt fhdr rex _ _ _ Hs2) in Hi. inversion Hi; subst. reflexivity.
  - cbn [sform] in Hs. apply andb_prop in Hs. destruct Hs as [Hs1 Hs2]. apply negb_true_iff in Hs1.
    cbn [inl_stmt] in Hi. rewrite (inl_expr_nocall V sel impl rc fwt fhdr rex _ _ _ Hs1) in Hi.
    destruct (ib_gen (inl_stmt V sel impl rc fwt fhdr rex) body sg) as [[body' sg2]|] eqn:Eb; [|discriminate].
    inversion Hi; subst. cbn. rewrite (K _ H _ _ _ Hs2 Hw Eb). reflexivity.
  - cbn [sform] in Hs. apply andb_prop in Hs. destruct Hs as [Hs Hs3]. apply andb_prop in Hs. destruct Hs as [Hs1 Hs2].
    apply negb_true_iff in Hs1. cbn in Hw. apply app_eq_nil in Hw. destruct Hw as [Hw1 Hw2].
    cbn [inl_stmt] in Hi. rewrite (inl_expr_nocall V sel impl rc fwt fhdr rex _ _ _ Hs1) in Hi.
    destruct (ib_gen (inl_stmt V sel impl rc fwt fhdr rex) ift sg) as [[b1' sg2]|] eqn:Eb1; [|discriminate].
    destruct (ib_gen (inl_stmt V sel impl rc fwt fhdr rex) iff sg2) as [[b2' sg3]|] eqn:Eb2; [|discriminate].
    inversion Hi; subst. cbn. rewrite (K _ H _ _ _ Hs2 Hw1 Eb1), (K _ H0 _ _ _ Hs3 Hw2 Eb2). reflexivity.
  - cbn [sform] in Hs. apply andb_prop in Hs. destruct Hs as [Hs1 Hs2]. apply negb_true_iff in Hs1.
    cbn [inl_stmt] in Hi. rewrite (inl_expr_nocall V sel impl rc fwt fhdr rex _ _ _ Hs1) in Hi.
    destruct (ib_gen (inl_stmt V sel impl rc fwt fhdr rex) body sg) as [[body' sg2]|] eqn:Eb; [|discriminate].
    inversion Hi; subst. cbn. rewrite (K _ H _ _ _ Hs2 Hw Eb). reflexivity.
  - cbn [sform] in Hs. apply andb_prop in Hs. destruct Hs as [Hs1 Hs2]. apply negb_true_iff in Hs1.
    cbn [inl_stmt] in Hi. rewrite (inl_expr_nocall V sel impl rc fwt fhdr rex _ _ _ Hs1) in Hi.
    destruct (ib_gen (inl_stmt V sel impl rc fwt fhdr rex) body sg) as [[body' sg2]|] eqn:Eb; [|discriminate].
    inversion Hi; subst. cbn. rewrite (K _ H _ _ _ Hs2 Hw Eb). reflexivity.
  - cbn [sform] in Hs. apply andb_prop in Hs. destruct Hs as [Hs1 Hs2]. apply negb_true_iff in Hs1.
    cbn in Hw. destruct x; [discriminate|]. cbn in Hw.
    cbn [inl_stmt] in Hi. rewrite (inl_expr_nocall V sel impl rc fwt fhdr rex _ _ _ Hs1) in Hi.
    destruct (ib_gen (inl_stmt V sel impl rc fwt fhdr rex) body sg) as [[body' sg2]|] eqn:Eb; [|discriminate].
    inversion Hi; subst. cbn. rewrite (K _ H _ _ _ Hs2 Hw Eb). reflexivity.
  - cbn [sform] in Hs. apply negb_true_iff in Hs.
    cbn [inl_stmt] in Hi. rewrite (inl_expr_nocall V sel impl rc fwt fhdr rex _ _ _ Hs) in Hi. inversion Hi; subst. reflexivity.
  - cbn [sform] in Hs. cbn [inl_stmt] in Hi.
    destruct (inl_expr V sel impl rc fwt fhdr rex F0 e sg) as [[[pre e'] sg1]|] eqn:Ee; [|discriminate].
    inversion Hi; subst. rewrite flat_map_app, (nw_site_expr _ _ _ _ _ Hs Ee). reflexivity.
  - cbn [sform] in Hs. cbn [inl_stmt] in Hi.
    destruct (inl_expr V sel impl rc fwt fhdr rex F0 e sg) as [[[pre e'] sg1]|] eqn:Ee; [|discriminate].
    inversion Hi; subst. rewrite flat_map_app, (nw_site_expr _ _ _ _ _ Hs Ee). reflexivity.
  - cbn in Hi. inversion Hi; subst. reflexivity.
Qed.

Lemma nw_inl_block : forall b sg b' sg', sform_block b = true -> flat_map with_targets b = [] ->
  inl_block V sel impl rc fwt fhdr rex b sg = Some (b', sg') -> flat_map with_targets b' = [].
Proof.
  unfold inl_block, sform_block. induction b as [|x r IH]; intros sg b' sg' Hs Hw Hi.
  - cbn in Hi. inversion Hi; subst. reflexivity.
  - cbn [ib_gen] in Hi.
    destruct (inl_stmt V sel impl rc fwt fhdr rex x sg) as [[l1 sg1]|] eqn:E1; [|discriminate].
    destruct (ib_gen (inl_stmt V sel impl rc fwt fhdr rex) r sg1) as [[l2 sg2]|] eqn:E2; [|discriminate].
    inversion Hi; subst. cbn in Hs, Hw. apply andb_prop in Hs. destruct Hs as [Hs1 Hs2].
    apply app_eq_nil in Hw. destruct Hw as [Hw1 Hw2].
    rewrite flat_map_app, (nw_inl_stmt _ _ _ _ Hs1 Hw1 E1), (IH _ _ _ Hs2 Hw2 E2). reflexivity.
Qed.

End NoWith.

(* ---------------------------------------------------------------- the pass on a function *)
Lemma bind_params_dom : forall xs vs s s', bind_params xs vs s = Ok s' ->
  forall z, ~ In z xs -> env_get s' z = env_get s z.
Proof.
  induction xs as [|x xs IH]; intros vs s s' Hb z Hn; destruct vs; cbn in Hb; try discriminate.
  - inversion Hb; auto.
  - rewrite (IH _ _ _ Hb). apply env_get_set_other. intro; subst; apply Hn; left; auto.
    intro; apply Hn; right; auto.
Qed.

Section Pass.
Variable N : numops.
Variable P : program.

Definition impl_ok (impl : ident -> option func) : Prop :=
  forall g fn', impl g = Some fn' ->
    exists fn, lookup_fn P g = Some fn /\ call_sim N P fn fn' /\ flat_map with_targets (f_body fn') = [].

Lemma call_sim_refl : forall fn, call_sim N P fn fn.
Proof. intros fn n vs mu C r H. exists n. exact H. Qed.

Theorem inline_fn_sound : forall fx fname impl rc wh fn fn',
  impl_ok impl -> fn_ok fn = true ->
  inline_fn fx fname impl rc wh fn = Some fn' ->
  call_sim N P fn fn' /\ flat_map with_targets (f_body fn') = [].
Proof.
  intros fx fname impl rc wh fn fn' Himpl Hok Hi.
  unfold fn_ok in Hok. apply andb_prop in Hok. destruct Hok as [Hs Hw]. apply no_with_spec in Hw.
  unfold inline_fn in Hi.
  set (V := func_names fn) in *.
  set (sel := fun i => match wh with None => true | Some k => Nat.eqb i k end) in *.
  destruct (inl_block V sel impl rc (fx_wt fx) (fx_hdr fx) (fx_ref fx fname) (f_body fn) (ist0 fn)) as [[body' sg]|] eqn:Eb; [|discriminate].
  assert (Hfn : fn' = Func (f_params fn) (f_ctx fn) body').
  { destruct wh; [destruct (Nat.ltb n (is_idx sg)); [|discriminate]|]; inversion Hi; reflexivity. }
  subst fn'. clear Hi. split.
  2:{ cbn. eapply nw_inl_block; eauto. intros g fg' Hg. destruct (Himpl _ _ Hg) as (_ & _ & _ & K). exact K. }
  intros n vs mu C r Hcall.
  destruct n as [|n]; [discriminate|]. rewrite call_unfold in Hcall.
  destruct (bind_params (f_params fn) vs []) as [s0|] eqn:Ebp; [|discriminate]. cbn [lift rbind] in Hcall.
  set (C' := match f_ctx fn with Some c => c | None => C end) in *.
  destruct (exec_block N P n s0 mu C' (f_body fn)) as [[o mu1]| |] eqn:Ex; try discriminate.
  cbn [rbind] in Hcall. destruct o as [s1|v]; [discriminate|]. inversion Hcall; subst r. clear Hcall.
  assert (HI : Inv V s0 s0).
  { split; [apply erel_id_refl|]. intros z Hz. rewrite (bind_params_dom _ _ _ _ Ebp); [reflexivity|].
    intro Hin. apply Hz. unfold V, func_names. apply in_or_app. left. exact Hin. }
  assert (HW : tgt_in V (f_body fn)).
  { intros z Hz. unfold V, func_names. apply in_or_app. right. apply block_targets_names. exact Hz. }
  destruct (proj1 (proj2 (C_all N P V sel impl rc (fx_wt fx) (fx_hdr fx) (fx_ref fx fname) Himpl n)) _ _ _ _ _ _ _ _ _ _ Hs HW Eb Ex HI)
    as (o' & [m Hx] & Ho).
  destruct o' as [T'|v']; cbn in Ho; [contradiction|]. subst v'.
  exists (S m). rewrite call_unfold. cbn [f_params f_ctx f_body]. rewrite Ebp. cbn [lift rbind].
  fold C'. rewrite Hx. reflexivity.
Qed.

Lemma prog_ok_lookup : forall g fn, prog_ok P = true -> lookup_fn P g = Some fn -> fn_ok fn = true.
Proof.
  unfold prog_ok. induction P as [|[h fh] Q IH]; intros g fn Hp Hl; [discriminate|].
  cbn in Hp, Hl. apply andb_prop in Hp. destruct Hp as [Hp1 Hp2].
  destruct (String.eqb g h); [inversion Hl; subst; exact Hp1|eapply IH; eauto].
Qed.

(* recursive=True: every callee is flattened first (bottom-up), then spliced *)
Theorem inline_full_sound : prog_ok P = true -> forall fx d fname fn fn',
  fn_ok fn = true -> inline_full fx P d fname fn = Some fn' ->
  call_sim N P fn fn' /\ flat_map with_targets (f_body fn') = [].
Proof.
  intros Hp fx. induction d as [|d IH]; intros fname fn fn' Hok Hi; [discriminate|].
  cbn [inline_full] in Hi. eapply inline_fn_sound; [|exact Hok|exact Hi].
  intros g fg' Hg. destruct (lookup_fn P g) as [fg|] eqn:El; [|discriminate].
  exists fg. split; [reflexivity|]. apply (IH g); [|exact Hg]. eapply prog_ok_lookup; eauto.
Qed.

(* inline(f, where, recursive): one site / all sites, flattened callees / one level; with or without
   the proposed repairs *)
Theorem inline_x_call_sim : prog_ok P = true -> forall fx d recursive wh fname fn fn',
  fn_ok fn = true -> inline_x fx P d recursive wh fname fn = Some fn' -> call_sim N P fn fn'.
Proof.
  intros Hp fx d recursive wh fname fn fn' Hok Hi. destruct d as [|d]; [discriminate|]. cbn [inline_x] in Hi.
  destruct recursive.
  - eapply (proj1 (inline_fn_sound _ _ _ _ _ _ _ _ Hok Hi)).
    Unshelve. intros g fg' Hg. destruct (lookup_fn P g) as [fg|] eqn:El; [|discriminate].
    exists fg. split; [reflexivity|]. apply (inline_full_sound Hp fx d g); [|exact Hg]. eapply prog_ok_lookup; eauto.
  - eapply (proj1 (inline_fn_sound _ _ _ _ _ _ _ _ Hok Hi)).
    Unshelve. intros g fg' Hg. exists fg'. split; [exact Hg|]. split; [apply call_sim_refl|].
    pose proof (prog_ok_lookup _ _ Hp Hg) as K. unfold fn_ok in K. apply andb_prop in K. destruct K as [_ K].
    apply no_with_spec. exact K.
Qed.

Theorem inline_call_sim : prog_ok P = true -> forall d recursive wh fn fn',
  fn_ok fn = true -> inline P d recursive wh fn = Some fn' -> call_sim N P fn fn'.
Proof. intros Hp d recursive wh fn fn' Hok Hi. eapply inline_x_call_sim; eauto. Qed.

End Pass.

(* ---------------------------------------------------------------- at the Python boundary *)
Lemma lookup_app_l : forall P Q g fn, lookup_fn P g = Some fn -> lookup_fn (P ++ Q) g = Some fn.
Proof.
  induction P as [|[h fh] P IH]; intros Q g fn H; [discriminate|]. cbn in H |- *.
  destruct (String.eqb g h); auto.
Qed.

Lemma lookup_app_new : forall P g fn, lookup_fn P g = None -> lookup_fn (P ++ [(g, fn)]) g = Some fn.
Proof.
  induction P as [|[h fh] P IH]; intros g fn H; cbn in H |- *.
  - rewrite String.eqb_refl. reflexivity.
  - destruct (String.eqb g h); [discriminate|auto].
Qed.

(* a function that can stand for f at every call can stand for it when called from Python *)
Lemma call_sim_run : forall N P f fn f' fn', lookup_fn P f = Some fn -> lookup_fn P f' = None ->
  call_sim N P fn fn' ->
  forall n args c v, run N P n f args c = ROk v ->
  exists m, run N (P ++ [(f', fn')]) m f' args c = ROk v.
Proof.
  intros N P f fn f' fn' Hl Hn Hsim n args c v H.
  unfold run in H. rewrite Hl in H.
  destruct (inject_all args []) as [vs mu] eqn:Ei.
  destruct (call N P n fn vs mu (match c with Some c0 => c0 | None => FP64 end)) as [[w mu1]| |] eqn:Ec; try discriminate.
  cbn [rbind] in H. destruct (extract n mu1 w) as [cv|] eqn:Ee; [|discriminate]. inversion H; subst cv. clear H.
  destruct (Hsim _ _ _ _ _ Ec) as (m & Hc).
  apply (call_ext N P (P ++ [(f', fn')]) (fun g x Hg => lookup_app_l P _ g x Hg)) in Hc.
  exists (Nat.max n m). unfold run. rewrite (lookup_app_new _ _ _ Hn), Ei.
  rewrite (call_up N _ m (Nat.max n m) _ _ _ _ _ (Nat.le_max_r _ _) Hc). cbn [rbind].
  rewrite (extract_mono n (Nat.max n m) _ _ _ Ee (Nat.le_max_l _ _)). reflexivity.
Qed.

Theorem inline_x_sound : forall N P fx d recursive wh f fn fn' f',
  prog_ok P = true -> lookup_fn P f = Some fn -> lookup_fn P f' = None ->
  inline_x fx P d recursive wh f fn = Some fn' ->
  forall n args c v, run N P n f args c = ROk v ->
  exists m, run N (P ++ [(f', fn')]) m f' args c = ROk v.
Proof.
  intros N P fx d recursive wh f fn fn' f' Hp Hl Hn Hi.
  eapply call_sim_run; eauto. eapply inline_x_call_sim; eauto. eapply prog_ok_lookup; eauto.
Qed.

Theorem inline_sound : forall N P d recursive wh f fn fn' f',
  prog_ok P = true -> lookup_fn P f = Some fn -> lookup_fn P f' = None ->
  inline P d recursive wh fn = Some fn' ->
  forall n args c v, run N P n f args c = ROk v ->
  exists m, run N (P ++ [(f', fn')]) m f' args c = ROk v.
Proof.
  intros N P d recursive wh f fn fn' f' Hp Hl Hn Hi.
  eapply call_sim_run; eauto. eapply inline_call_sim; eauto. eapply prog_ok_lookup; eauto.
Qed.
