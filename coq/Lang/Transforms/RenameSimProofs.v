(* (C09) One simulation theorem for the FPyLang evaluator (Sem.v), by a single
   induction on the fuel, that gives at once
     - fuel monotonicity            (rho = id, T = s, P' = P),
     - the frame property           (rho = id: extra bindings do not matter),
     - renaming                     (rho injective: callee locals renamed apart),
     - program extension            (P' defines at least what P defines).
   Only SUCCESSFUL runs are related (`= ROk r`), which is what the transform
   theorems need ("on every input on which the original returns"). *)
From Coq Require Import ZArith List Bool String Lia.
From FpyV Require Import Num.RealFloat Num.Float Num.CtxDef Lang.Syntax Lang.Values Lang.Sem Lang.SemMono.
From FpyV Require Import Lang.Transforms.Rename Lang.Transforms.RenameProofs.
Import ListNotations.

(* ---------------------------------------------------------------- environments *)
Lemma env_get_set_same : forall s x v, env_get (env_set s x v) x = Some v.
Proof.
  induction s as [|[y w] s IH]; intros; cbn.
  - rewrite String.eqb_refl. reflexivity.
  - destruct (String.eqb x y) eqn:E; cbn; rewrite E; auto.
Qed.

Lemma env_get_set_other : forall s x y v, x <> y -> env_get (env_set s x v) y = env_get s y.
Proof.
  induction s as [|[z w] s IH]; intros; cbn.
  - destruct (String.eqb y x) eqn:E; auto. apply String.eqb_eq in E. congruence.
  - destruct (String.eqb x z) eqn:E; cbn.
    + apply String.eqb_eq in E. subst z.
      destruct (String.eqb y x) eqn:E2; auto. apply String.eqb_eq in E2. congruence.
    + destruct (String.eqb y z); auto.
Qed.

Definition inj (rho : ident -> ident) := forall x y, rho x = rho y -> x = y.

(* T knows (under rho) everything s knows *)
Definition erel (rho : ident -> ident) (s T : env) :=
  forall x v, env_get s x = Some v -> env_get T (rho x) = Some v.

(* T' differs from T at most on W *)
Definition keeps (W : list ident) (T T' : env) :=
  forall z, ~ In z W -> env_get T' z = env_get T z.

Lemma keeps_refl : forall W T, keeps W T T.
Proof. intros W T z _. reflexivity. Qed.

Lemma keeps_trans : forall W1 W2 T1 T2 T3,
  keeps W1 T1 T2 -> keeps W2 T2 T3 -> keeps (W1 ++ W2) T1 T3.
Proof.
  intros W1 W2 T1 T2 T3 H1 H2 z Hz. rewrite H2, H1; auto.
  - intro; apply Hz; apply in_or_app; auto.
  - intro; apply Hz; apply in_or_app; auto.
Qed.

Lemma keeps_trans_same : forall W T1 T2 T3, keeps W T1 T2 -> keeps W T2 T3 -> keeps W T1 T3.
Proof. intros W T1 T2 T3 H1 H2 z Hz. rewrite H2, H1; auto. Qed.

Lemma keeps_weaken : forall W W' T T', keeps W T T' -> incl W W' -> keeps W' T T'.
Proof. intros W W' T T' H Hi z Hz. apply H. intro; apply Hz; auto. Qed.

Lemma erel_set : forall rho s T x v, inj rho -> erel rho s T ->
  erel rho (env_set s x v) (env_set T (rho x) v).
Proof.
  intros rho s T x v Hinj HR y w Hy.
  destruct (String.eqb x y) eqn:E.
  - apply String.eqb_eq in E. subst y. rewrite env_get_set_same in Hy |- *. assumption.
  - apply String.eqb_neq in E. rewrite env_get_set_other in Hy by assumption.
    rewrite env_get_set_other. apply HR; assumption.
    intro Heq. apply Hinj in Heq. contradiction.
Qed.

Lemma keeps_set : forall T x v, keeps [x] T (env_set T x v).
Proof.
  intros T x v z Hz. apply env_get_set_other. intro; subst; apply Hz; left; reflexivity.
Qed.

Lemma erel_id_refl : forall s, erel idr s s.
Proof. intros s x v H. exact H. Qed.

(* ---------------------------------------------------------------- patterns *)
Definition bind_pats : list pat -> list value -> env -> result env :=
  fix go (ps : list pat) (vs : list value) (s : env) : result env :=
    match ps, vs with
    | p :: ps', v :: vs' => bind (bind_pat p v s) (fun s' => go ps' vs' s')
    | _, _ => Ok s
    end.

Lemma bind_pat_tuple : forall ps v s,
  bind_pat (PTuple ps) v s =
  match v with
  | VTuple vs => if negb (Nat.eqb (List.length ps) (List.length vs)) then Err ValueErr
                 else bind_pats ps vs s
  | _ => Err TypeErr
  end.
Proof. reflexivity. Qed.

Lemma bind_pat_sim : forall rho, inj rho -> forall p v s s' T,
  bind_pat p v s = Ok s' -> erel rho s T ->
  exists T', bind_pat (ren_pat rho p) v T = Ok T' /\ erel rho s' T' /\
             keeps (map rho (pat_vars p)) T T'.
Proof.
  intros rho Hinj p. induction p as [x| |ps IH] using pat_ind2; intros v s s' T Hb HR.
  - cbn in Hb. inversion Hb; subst. eexists; split; [reflexivity|]. split.
    + apply erel_set; assumption.
    + cbn. apply keeps_set.
  - cbn in Hb. inversion Hb; subst. eexists; split; [reflexivity|]. split; auto. apply keeps_refl.
  - rewrite bind_pat_tuple in Hb. cbn [ren_pat]. rewrite bind_pat_tuple.
    destruct v; try discriminate. rewrite map_length.
    destruct (negb (Nat.eqb (List.length ps) (List.length vs))); try discriminate.
    clear -IH Hb HR Hinj. cbn [pat_vars].
    revert vs s T Hb HR. induction IH as [|p ps Hp _ IHps]; intros vs s T Hb HR.
    + cbn in Hb |- *. inversion Hb; subst. eexists; split; [reflexivity|]. split; auto. apply keeps_refl.
    + destruct vs as [|v vs].
      * cbn in Hb |- *. inversion Hb; subst. eexists; split; [reflexivity|]. split; auto. apply keeps_refl.
      * cbn in Hb. destruct (bind_pat p v s) as [s1|] eqn:E1; cbn in Hb; try discriminate.
        destruct (Hp _ _ _ _ E1 HR) as (T1 & E1' & HR1 & K1).
        destruct (IHps _ _ _ Hb HR1) as (T2 & E2' & HR2 & K2).
        exists T2. split.
        { cbn. rewrite E1'. cbn. exact E2'. }
        split; auto. cbn. rewrite map_app. eapply keeps_trans; eauto.
Qed.

(* ---------------------------------------------------------------- the side fixpoints *)
Lemma value_eq_up : forall N n mu a b r, value_eq N n mu a b = ROk r ->
  forall m, (n <= m)%nat -> value_eq N m mu a b = ROk r.
Proof.
  intros N n mu a b r H m Hm. rewrite <- H. apply value_eq_mono; [exact Hm|]. rewrite H. discriminate.
Qed.

Lemma dim_of_up : forall n mu v r, dim_of n mu v = ROk r ->
  forall m, (n <= m)%nat -> dim_of m mu v = ROk r.
Proof.
  intros n mu v r H m Hm. rewrite <- H. apply dim_of_mono; [exact Hm|]. rewrite H. discriminate.
Qed.

(* ---------------------------------------------------------------- the simulation *)
Section Sim.
Variable N : numops.
Variables P P' : program.
Hypothesis Hext : forall g fn, lookup_fn P g = Some fn -> lookup_fn P' g = Some fn.

Definition orel (rho : ident -> ident) (W : list ident) (T : env) (o o' : outcome) : Prop :=
  match o, o' with
  | ONormal s', ONormal T' => erel rho s' T' /\ keeps W T T'
  | OReturn v, OReturn v' => v = v'
  | _, _ => False
  end.

Record SimAt (n : nat) : Prop := {
  h_eval : forall rho, inj rho -> forall m s T mu C e r, (n <= m)%nat -> erel rho s T ->
    eval N P n s mu C e = ROk r -> eval N P' m T mu C (ren_expr rho e) = ROk r;
  h_evals : forall rho, inj rho -> forall m s T mu C es r, (n <= m)%nat -> erel rho s T ->
    evals N P n s mu C es = ROk r -> evals N P' m T mu C (map (ren_expr rho) es) = ROk r;
  h_eval_opt : forall rho, inj rho -> forall m s T mu C e r, (n <= m)%nat -> erel rho s T ->
    eval_opt N P n s mu C e = ROk r -> eval_opt N P' m T mu C (option_map (ren_expr rho) e) = ROk r;
  h_cmp_chain : forall rho, inj rho -> forall m s T mu C v ops args r, (n <= m)%nat -> erel rho s T ->
    cmp_chain N P n s mu C v ops args = ROk r ->
    cmp_chain N P' m T mu C v ops (map (ren_expr rho) args) = ROk r;
  h_bool_chain : forall rho, inj rho -> forall m s T mu C u args r, (n <= m)%nat -> erel rho s T ->
    bool_chain N P n s mu C u args = ROk r ->
    bool_chain N P' m T mu C u (map (ren_expr rho) args) = ROk r;
  h_comp : forall rho, inj rho -> forall m s T mu C gens elt r, (n <= m)%nat -> erel rho s T ->
    comp N P n s mu C gens elt = ROk r ->
    comp N P' m T mu C (ren_gens rho gens) (ren_expr rho elt) = ROk r;
  h_comp_loop : forall rho, inj rho -> forall m s T mu C p l i gs elt r, (n <= m)%nat -> erel rho s T ->
    comp_loop N P n s mu C p l i gs elt = ROk r ->
    comp_loop N P' m T mu C (ren_pat rho p) l i (ren_gens rho gs) (ren_expr rho elt) = ROk r;
  h_call : forall m fn vs mu C r, (n <= m)%nat ->
    call N P n fn vs mu C = ROk r -> call N P' m fn vs mu C = ROk r;
  h_exec : forall rho, inj rho -> forall m s T mu C st o mu', (n <= m)%nat -> erel rho s T ->
    wt_ok rho st = true ->
    exec N P n s mu C st = ROk (o, mu') ->
    exists o', exec N P' m T mu C (ren_stmt rho st) = ROk (o', mu') /\
               orel rho (map rho (stmt_targets st)) T o o';
  h_exec_block : forall rho, inj rho -> forall m s T mu C b o mu', (n <= m)%nat -> erel rho s T ->
    wt_ok_block rho b = true ->
    exec_block N P n s mu C b = ROk (o, mu') ->
    exists o', exec_block N P' m T mu C (ren_block rho b) = ROk (o', mu') /\
               orel rho (map rho (block_targets b)) T o o';
  h_for_loop : forall rho, inj rho -> forall m s T mu C p l i body o mu', (n <= m)%nat -> erel rho s T ->
    wt_ok_block rho body = true ->
    for_loop N P n s mu C p l i body = ROk (o, mu') ->
    exists o', for_loop N P' m T mu C (ren_pat rho p) l i (ren_block rho body) = ROk (o', mu') /\
               orel rho (map rho (pat_vars p ++ block_targets body)) T o o';
  h_index_walk : forall rho, inj rho -> forall m s T mu C cur idx v mu', (n <= m)%nat -> erel rho s T ->
    index_walk N P n s mu C cur idx v = ROk mu' ->
    index_walk N P' m T mu C cur (map (ren_expr rho) idx) v = ROk mu'
}.

Lemma sim_O : SimAt 0.
Proof. constructor; intros; try discriminate. Qed.

Ltac bstep :=
  match goal with
  | H : rbind ?x _ = ROk _ |- _ =>
      let E := fresh "E" in
      destruct x eqn:E; [|discriminate H|discriminate H]; cbn [rbind] in H;
      repeat match goal with p : (_ * _)%type |- _ => destruct p end
  end.

(* use an induction hypothesis (a field of SimAt n) on E, rewrite the goal with it *)
Ltac ih IH rho Hinj HR :=
  match goal with
  | E : eval N P _ _ _ _ _ = ROk _ |- _ =>
      eapply (h_eval _ IH rho Hinj) in E; [rewrite E; clear E; cbn [rbind] | lia | exact HR]
  | E : evals N P _ _ _ _ _ = ROk _ |- _ =>
      eapply (h_evals _ IH rho Hinj) in E; [rewrite E; clear E; cbn [rbind] | lia | exact HR]
  | E : eval_opt N P _ _ _ _ _ = ROk _ |- _ =>
      eapply (h_eval_opt _ IH rho Hinj) in E; [rewrite E; clear E; cbn [rbind] | lia | exact HR]
  | E : comp N P _ _ _ _ _ _ = ROk _ |- _ =>
      eapply (h_comp _ IH rho Hinj) in E; [rewrite E; clear E; cbn [rbind] | lia | exact HR]
  end.

Ltac steps IH rho Hinj HR := repeat (bstep; try ih IH rho Hinj HR; cbn [rbind] in * ).

Lemma eval_step : forall n, SimAt n ->
  forall rho, inj rho -> forall m s T mu C e r, (S n <= m)%nat -> erel rho s T ->
    eval N P (S n) s mu C e = ROk r -> eval N P' m T mu C (ren_expr rho e) = ROk r.
Proof.
  intros n IH rho Hinj m s T mu C e r Hm HR H.
  destruct m as [|m]; [lia|].
  destruct e; simpl in H |- *.
  all: try (steps IH rho Hinj HR; first [exact H | idtac]).
  - (* EVar *) destruct (env_get s x) as [v|] eqn:E; [|discriminate].
    rewrite (HR _ _ E). exact H.
  - (* ECompare *) destruct args as [|a rest]; [discriminate|]. cbn [map].
    steps IH rho Hinj HR. eapply (h_cmp_chain _ IH rho Hinj); eauto; lia.
  - eapply (h_bool_chain _ IH rho Hinj); eauto; lia.
  - eapply (h_bool_chain _ IH rho Hinj); eauto; lia.
  - (* EIf *) destruct a; eapply (h_eval _ IH rho Hinj); eauto; lia.
  - (* EDim *)
    match goal with E : dim_of n _ _ = ROk _ |- _ => rewrite (dim_of_up _ _ _ _ E m) by lia end.
    cbn [rbind]. match goal with E : lift _ = ROk _ |- _ => rewrite E end. exact H.
  - (* ECall *) destruct (lookup_fn P f) as [fn|] eqn:El; [|discriminate].
    rewrite (Hext _ _ El). steps IH rho Hinj HR.
    eapply (h_call _ IH); eauto; lia.
Qed.

Lemma evals_step : forall n, SimAt n ->
  forall rho, inj rho -> forall m s T mu C es r, (S n <= m)%nat -> erel rho s T ->
    evals N P (S n) s mu C es = ROk r -> evals N P' m T mu C (map (ren_expr rho) es) = ROk r.
Proof.
  intros n IH rho Hinj m s T mu C es r Hm HR H.
  destruct m as [|m]; [lia|].
  destruct es; simpl in H |- *; [exact H|].
  steps IH rho Hinj HR. exact H.
Qed.

Lemma eval_opt_step : forall n, SimAt n ->
  forall rho, inj rho -> forall m s T mu C e r, (S n <= m)%nat -> erel rho s T ->
    eval_opt N P (S n) s mu C e = ROk r -> eval_opt N P' m T mu C (option_map (ren_expr rho) e) = ROk r.
Proof.
  intros n IH rho Hinj m s T mu C e r Hm HR H.
  destruct m as [|m]; [lia|].
  destruct e; simpl in H |- *; [|exact H].
  steps IH rho Hinj HR. exact H.
Qed.

Lemma cmp_chain_step : forall n, SimAt n ->
  forall rho, inj rho -> forall m s T mu C v ops args r, (S n <= m)%nat -> erel rho s T ->
    cmp_chain N P (S n) s mu C v ops args = ROk r ->
    cmp_chain N P' m T mu C v ops (map (ren_expr rho) args) = ROk r.
Proof.
  intros n IH rho Hinj m s T mu C v ops args r Hm HR H.
  destruct m as [|m]; [lia|].
  destruct ops as [|o ops], args as [|e args]; simpl in H |- *; try exact H.
  destruct (is_ordering o).
  - steps IH rho Hinj HR.
    match goal with |- context [cmp_test N o ?a ?b] => destruct (cmp_test N o a b); [|exact H] end.
    destruct ops; [exact H|]. eapply (h_cmp_chain _ IH rho Hinj); eauto; lia.
  - steps IH rho Hinj HR.
    match goal with E : value_eq N n _ _ _ = ROk _ |- _ => rewrite (value_eq_up _ _ _ _ _ _ E m) by lia end. cbn [rbind].
    match goal with |- context [if ?c then _ else _] => destruct c; [|exact H] end.
    destruct ops; [exact H|]. eapply (h_cmp_chain _ IH rho Hinj); eauto; lia.
Qed.

Lemma bool_chain_step : forall n, SimAt n ->
  forall rho, inj rho -> forall m s T mu C u args r, (S n <= m)%nat -> erel rho s T ->
    bool_chain N P (S n) s mu C u args = ROk r ->
    bool_chain N P' m T mu C u (map (ren_expr rho) args) = ROk r.
Proof.
  intros n IH rho Hinj m s T mu C u args r Hm HR H.
  destruct m as [|m]; [lia|].
  destruct args as [|e args]; simpl in H |- *; [exact H|].
  steps IH rho Hinj HR.
  match goal with |- context [Bool.eqb ?a u] => destruct (Bool.eqb a u); [|exact H] end.
  destruct args; [exact H|]. eapply (h_bool_chain _ IH rho Hinj); eauto; lia.
Qed.

Lemma comp_step : forall n, SimAt n ->
  forall rho, inj rho -> forall m s T mu C gens elt r, (S n <= m)%nat -> erel rho s T ->
    comp N P (S n) s mu C gens elt = ROk r ->
    comp N P' m T mu C (ren_gens rho gens) (ren_expr rho elt) = ROk r.
Proof.
  intros n IH rho Hinj m s T mu C gens elt r Hm HR H.
  destruct m as [|m]; [lia|].
  destruct gens as [|[p it] gs]; simpl in H |- *.
  - steps IH rho Hinj HR. exact H.
  - steps IH rho Hinj HR. eapply (h_comp_loop _ IH rho Hinj); eauto; lia.
Qed.

Lemma comp_loop_step : forall n, SimAt n ->
  forall rho, inj rho -> forall m s T mu C p l i gs elt r, (S n <= m)%nat -> erel rho s T ->
    comp_loop N P (S n) s mu C p l i gs elt = ROk r ->
    comp_loop N P' m T mu C (ren_pat rho p) l i (ren_gens rho gs) (ren_expr rho elt) = ROk r.
Proof.
  intros n IH rho Hinj m s T mu C p l i gs elt r Hm HR H.
  destruct m as [|m]; [lia|].
  simpl in H |- *. unfold comp_loop_body in H |- *.
  destruct (store_get mu l) as [vs|]; [|discriminate].
  destruct (nth_error vs i) as [x|]; [|exact H].
  destruct (bind_pat p x s) as [s1|] eqn:Eb; [|discriminate].
  destruct (bind_pat_sim rho Hinj _ _ _ _ _ Eb HR) as (T1 & Eb' & HR1 & _).
  rewrite Eb'. cbn [lift rbind] in H |- *.
  steps IH rho Hinj HR1.
  match goal with E : comp_loop N P n _ _ _ _ _ _ _ _ = ROk _ |- _ =>
    eapply (h_comp_loop _ IH rho Hinj) in E; [rewrite E|lia|exact HR1] end. exact H.
Qed.

Lemma call_step : forall n, SimAt n ->
  forall m fn vs mu C r, (S n <= m)%nat ->
    call N P (S n) fn vs mu C = ROk r -> call N P' m fn vs mu C = ROk r.
Proof.
  intros n IH m fn vs mu C r Hm H.
  destruct m as [|m]; [lia|].
  simpl in H |- *. unfold call_body in H |- *.
  bstep. cbn zeta in H |- *. bstep.
  match goal with E : exec_block N P n _ _ _ _ = ROk _ |- _ =>
    destruct (h_exec_block _ IH idr inj_idr m _ _ _ _ _ _ _ ltac:(lia) (erel_id_refl _) (wt_ok_block_id _) E)
      as (o' & Ex & Ho) end.
  rewrite ren_block_id in Ex. cbn [rbind]. rewrite Ex. cbn [rbind].
  destruct o as [s1|v0], o' as [s1'|v']; cbn in Ho; try contradiction; try discriminate.
  subst v'. exact H.
Qed.

Lemma orel_weaken : forall rho W W' T o o', orel rho W T o o' -> incl W W' -> orel rho W' T o o'.
Proof.
  intros rho W W' T o o' H Hi. destruct o, o'; cbn in *; auto.
  destruct H; split; auto. eapply keeps_weaken; eauto.
Qed.

Lemma exec_step : forall n, SimAt n ->
  forall rho, inj rho -> forall m s T mu C st o mu', (S n <= m)%nat -> erel rho s T ->
    wt_ok rho st = true ->
    exec N P (S n) s mu C st = ROk (o, mu') ->
    exists o', exec N P' m T mu C (ren_stmt rho st) = ROk (o', mu') /\
               orel rho (map rho (stmt_targets st)) T o o'.
Proof.
  intros n IH rho Hinj m s T mu C st o mu' Hm HR Hwt H.
  destruct m as [|m]; [lia|].
  destruct st; simpl in H |- *.
  - (* SAssign *)
    bstep. ih IH rho Hinj HR.
    destruct (bind_pat p v s) as [s1|] eqn:Eb; [|discriminate].
    destruct (bind_pat_sim rho Hinj _ _ _ _ _ Eb HR) as (T1 & Eb' & HR1 & K1).
    rewrite Eb'. cbn [lift rbind] in H |- *. inversion H; subst.
    eexists; split; [reflexivity|]. cbn. split; assumption.
  - (* SIndexAssign *)
    steps IH rho Hinj HR.
    destruct (env_get s x) as [cur|] eqn:Ex; [|discriminate].
    rewrite (HR _ _ Ex). bstep.
    match goal with E : index_walk N P n _ _ _ _ _ _ = ROk _ |- _ =>
      eapply (h_index_walk _ IH rho Hinj) in E; [rewrite E|lia|exact HR] end. cbn [rbind].
    inversion H; subst. eexists; split; [reflexivity|]. cbn. split; [assumption|apply keeps_refl].
  - (* SIf1 *)
    steps IH rho Hinj HR. destruct a.
    + eapply (h_exec_block _ IH rho Hinj); eauto; lia.
    + inversion H; subst. eexists; split; [reflexivity|]. cbn. split; [assumption|apply keeps_refl].
  - (* SIf *)
    cbn in Hwt. apply andb_prop in Hwt. destruct Hwt as [Hw1 Hw2].
    steps IH rho Hinj HR. destruct a.
    + destruct (h_exec_block _ IH rho Hinj m _ _ _ _ _ _ _ ltac:(lia) HR Hw1 H) as (o' & Ex & Ho). unfold ren_block, block_targets in *.
      exists o'. split; [exact Ex|]. eapply orel_weaken; eauto. rewrite map_app. apply incl_appl, incl_refl.
    + destruct (h_exec_block _ IH rho Hinj m _ _ _ _ _ _ _ ltac:(lia) HR Hw2 H) as (o' & Ex & Ho). unfold ren_block, block_targets in *.
      exists o'. split; [exact Ex|]. eapply orel_weaken; eauto. rewrite map_app. apply incl_appr, incl_refl.
  - (* SWhile *)
    steps IH rho Hinj HR. destruct a.
    + bstep.
      match goal with E : exec_block N P n _ _ _ _ = ROk _ |- _ =>
        destruct (h_exec_block _ IH rho Hinj m _ _ _ _ _ _ _ ltac:(lia) HR Hwt E) as (o1 & Ex & Ho) end. unfold ren_block, block_targets in *.
      rewrite Ex. cbn [rbind].
      destruct o0 as [s1'|v0], o1 as [T1|v']; cbn in Ho; try contradiction.
      * destruct Ho as [HR1 K1].
        destruct (h_exec _ IH rho Hinj m _ _ _ _ (SWhile c body) _ _ ltac:(lia) HR1 Hwt H) as (o2 & Ex2 & Ho2). unfold ren_block, block_targets in *.
        exists o2. split; [exact Ex2|].
        destruct o as [s2|v2], o2 as [T2|v2']; cbn in Ho2 |- *; try contradiction; auto.
        destruct Ho2 as [HR2 K2]. split; auto. eapply keeps_trans_same; eauto.
      * subst v'. inversion H; subst. eexists; split; [reflexivity|]. reflexivity.
    + inversion H; subst. eexists; split; [reflexivity|]. cbn. split; [assumption|apply keeps_refl].
  - (* SFor *)
    steps IH rho Hinj HR.
    eapply (h_for_loop _ IH rho Hinj); eauto; lia.
  - (* SContext *)
    cbn in Hwt. apply andb_prop in Hwt. destruct Hwt as [Hx Hwb].
    bstep. match goal with E : eval N P n _ _ _ _ = ROk _ |- _ =>
      eapply (h_eval _ IH rho Hinj) in E; [rewrite E|lia|exact HR] end. cbn [rbind].
    destruct v; try discriminate.
    assert (HR1 : erel rho (match x with Some x0 => env_set s x0 (VCtx c) | None => s end)
                           (match x with Some x0 => env_set T x0 (VCtx c) | None => T end)).
    { destruct x as [x|]; [|exact HR]. apply String.eqb_eq in Hx.
      pose proof (erel_set rho s T x (VCtx c) Hinj HR) as K. rewrite Hx in K. exact K. }
    destruct (h_exec_block _ IH rho Hinj m _ _ _ _ _ _ _ ltac:(lia) HR1 Hwb H) as (o' & Ex & Ho). unfold ren_block, block_targets in *.
    exists o'. split; [exact Ex|].
    destruct o as [s2|v2], o' as [T2|v2']; cbn in Ho |- *; try contradiction; auto.
    destruct Ho as [HR2 K2]. split; auto.
    destruct x as [x|]; cbn [app map].
    + apply String.eqb_eq in Hx. rewrite Hx.
      change (x :: map rho (flat_map stmt_targets body)) with ([x] ++ map rho (flat_map stmt_targets body)).
      eapply keeps_trans; [apply keeps_set|exact K2].
    + exact K2.
  - (* SAssert *)
    steps IH rho Hinj HR. destruct a; [|discriminate].
    inversion H; subst. eexists; split; [reflexivity|]. cbn. split; [assumption|apply keeps_refl].
  - (* SEffect *)
    steps IH rho Hinj HR.
    inversion H; subst. eexists; split; [reflexivity|]. cbn. split; [assumption|apply keeps_refl].
  - (* SReturn *)
    steps IH rho Hinj HR.
    inversion H; subst. eexists; split; [reflexivity|]. reflexivity.
  - (* SPass *)
    inversion H; subst. eexists; split; [reflexivity|]. cbn. split; [assumption|apply keeps_refl].
Qed.

Lemma exec_block_step : forall n, SimAt n ->
  forall rho, inj rho -> forall m s T mu C b o mu', (S n <= m)%nat -> erel rho s T ->
    wt_ok_block rho b = true ->
    exec_block N P (S n) s mu C b = ROk (o, mu') ->
    exists o', exec_block N P' m T mu C (ren_block rho b) = ROk (o', mu') /\
               orel rho (map rho (block_targets b)) T o o'.
Proof.
  intros n IH rho Hinj m s T mu C b o mu' Hm HR Hwt H.
  destruct m as [|m]; [lia|].
  destruct b as [|st b]; simpl in H |- *.
  - inversion H; subst. eexists; split; [reflexivity|]. cbn. split; [assumption|apply keeps_refl].
  - cbn in Hwt. apply andb_prop in Hwt. destruct Hwt as [Hw1 Hw2].
    bstep.
    match goal with E : exec N P n _ _ _ _ = ROk _ |- _ =>
      destruct (h_exec _ IH rho Hinj m _ _ _ _ _ _ _ ltac:(lia) HR Hw1 E) as (o1 & Ex & Ho) end. unfold ren_block, block_targets in *.
    rewrite Ex. cbn [rbind].
    destruct o0 as [s1|v], o1 as [T1|v']; cbn in Ho; try contradiction.
    + destruct Ho as [HR1 K1].
      destruct (h_exec_block _ IH rho Hinj m _ _ _ _ _ _ _ ltac:(lia) HR1 Hw2 H) as (o2 & Ex2 & Ho2). unfold ren_block, block_targets in *.
      exists o2. split; [exact Ex2|].
      destruct o as [s2|v2], o2 as [T2|v2']; cbn in Ho2 |- *; try contradiction; auto.
      destruct Ho2 as [HR2 K2]. split; auto. cbn [flat_map]. rewrite map_app.
      eapply keeps_trans; eauto.
    + subst v'. inversion H; subst. eexists; split; [reflexivity|]. reflexivity.
Qed.

Lemma for_loop_step : forall n, SimAt n ->
  forall rho, inj rho -> forall m s T mu C p l i body o mu', (S n <= m)%nat -> erel rho s T ->
    wt_ok_block rho body = true ->
    for_loop N P (S n) s mu C p l i body = ROk (o, mu') ->
    exists o', for_loop N P' m T mu C (ren_pat rho p) l i (ren_block rho body) = ROk (o', mu') /\
               orel rho (map rho (pat_vars p ++ block_targets body)) T o o'.
Proof.
  intros n IH rho Hinj m s T mu C p l i body o mu' Hm HR Hwt H.
  destruct m as [|m]; [lia|].
  simpl in H |- *. unfold for_loop_body in H |- *.
  destruct (store_get mu l) as [vs|]; [|discriminate].
  destruct (nth_error vs i) as [x|].
  2:{ inversion H; subst. eexists; split; [reflexivity|]. cbn. split; [assumption|apply keeps_refl]. }
  destruct (bind_pat p x s) as [s1|] eqn:Eb; [|discriminate].
  destruct (bind_pat_sim rho Hinj _ _ _ _ _ Eb HR) as (T1 & Eb' & HR1 & K1).
  rewrite Eb'. cbn [lift rbind] in H |- *.
  bstep.
  match goal with E : exec_block N P n _ _ _ _ = ROk _ |- _ =>
    destruct (h_exec_block _ IH rho Hinj m _ _ _ _ _ _ _ ltac:(lia) HR1 Hwt E) as (o1 & Ex & Ho) end. unfold ren_block, block_targets in *.
  rewrite Ex. cbn [rbind].
  destruct o0 as [s2|v], o1 as [T2|v']; cbn in Ho; try contradiction.
  - destruct Ho as [HR2 K2].
    destruct (h_for_loop _ IH rho Hinj m _ _ _ _ _ _ _ _ _ _ ltac:(lia) HR2 Hwt H) as (o2 & Ex2 & Ho2). unfold ren_block, block_targets in *.
    exists o2. split; [exact Ex2|].
    destruct o as [s3|v3], o2 as [T3|v3']; cbn in Ho2 |- *; try contradiction; auto.
    destruct Ho2 as [HR3 K3]. split; auto.
    eapply keeps_trans_same; [|exact K3]. rewrite map_app. eapply keeps_trans; eauto.
  - subst v'. inversion H; subst. eexists; split; [reflexivity|]. reflexivity.
Qed.

Lemma index_walk_step : forall n, SimAt n ->
  forall rho, inj rho -> forall m s T mu C cur idx v mu', (S n <= m)%nat -> erel rho s T ->
    index_walk N P (S n) s mu C cur idx v = ROk mu' ->
    index_walk N P' m T mu C cur (map (ren_expr rho) idx) v = ROk mu'.
Proof.
  intros n IH rho Hinj m s T mu C cur idx v mu' Hm HR H.
  destruct m as [|m]; [lia|].
  destruct idx as [|i [|j rest]]; simpl in H |- *; [discriminate| |].
  - steps IH rho Hinj HR. exact H.
  - steps IH rho Hinj HR.
    eapply (h_index_walk _ IH rho Hinj m _ _ _ _ _ (j :: rest)) in H; [exact H|lia|exact HR].
Qed.

Theorem sim_all : forall n, SimAt n.
Proof.
  induction n as [|n IH]; [apply sim_O|].
  constructor.
  - apply eval_step; assumption.
  - apply evals_step; assumption.
  - apply eval_opt_step; assumption.
  - apply cmp_chain_step; assumption.
  - apply bool_chain_step; assumption.
  - apply comp_step; assumption.
  - apply comp_loop_step; assumption.
  - apply call_step; assumption.
  - apply exec_step; assumption.
  - apply exec_block_step; assumption.
  - apply for_loop_step; assumption.
  - apply index_walk_step; assumption.
Qed.

End Sim.

(* ---------------------------------------------------------------- corollaries *)
Section Corollaries.
Variable N : numops.
Variable P : program.

Lemma ext_refl : forall g fn, lookup_fn P g = Some fn -> lookup_fn P g = Some fn.
Proof. auto. Qed.

(* frame: extra or different bindings on names the run does not see do not matter *)
Lemma eval_frame : forall n m s T mu C e r, (n <= m)%nat -> erel idr s T ->
  eval N P n s mu C e = ROk r -> eval N P m T mu C e = ROk r.
Proof.
  intros. rewrite <- (ren_expr_id e).
  eapply (h_eval _ _ _ _ (sim_all N P P ext_refl n) idr inj_idr); eauto.
Qed.

Lemma evals_frame : forall n m s T mu C es r, (n <= m)%nat -> erel idr s T ->
  evals N P n s mu C es = ROk r -> evals N P m T mu C es = ROk r.
Proof.
  intros. rewrite <- (map_id_Forall _ (ren_expr idr) es).
  - eapply (h_evals _ _ _ _ (sim_all N P P ext_refl n) idr inj_idr); eauto.
  - clear. induction es; constructor; auto. apply ren_expr_id.
Qed.

Lemma exec_frame : forall n m s T mu C st o mu', (n <= m)%nat -> erel idr s T ->
  exec N P n s mu C st = ROk (o, mu') ->
  exists o', exec N P m T mu C st = ROk (o', mu') /\ orel idr (stmt_targets st) T o o'.
Proof.
  intros n m s T mu C st o mu' Hm HR H.
  destruct (h_exec _ _ _ _ (sim_all N P P ext_refl n) idr inj_idr m _ _ _ _ _ _ _ Hm HR (wt_ok_id st) H)
    as (o' & Ex & Ho).
  rewrite ren_stmt_id in Ex. rewrite map_id in Ho. eauto.
Qed.

Lemma exec_block_frame : forall n m s T mu C b o mu', (n <= m)%nat -> erel idr s T ->
  exec_block N P n s mu C b = ROk (o, mu') ->
  exists o', exec_block N P m T mu C b = ROk (o', mu') /\ orel idr (block_targets b) T o o'.
Proof.
  intros n m s T mu C b o mu' Hm HR H.
  destruct (h_exec_block _ _ _ _ (sim_all N P P ext_refl n) idr inj_idr m _ _ _ _ _ _ _ Hm HR (wt_ok_block_id b) H)
    as (o' & Ex & Ho).
  rewrite ren_block_id in Ex. rewrite map_id in Ho. eauto.
Qed.

(* a normally completing statement / block changes the environment on its targets only *)
Lemma exec_keeps : forall n s mu C st s' mu',
  exec N P n s mu C st = ROk (ONormal s', mu') -> keeps (stmt_targets st) s s'.
Proof.
  intros n s mu C st s' mu' H.
  destruct (exec_frame n n s s mu C st _ _ (le_n _) (erel_id_refl s) H) as (o' & Ex & Ho).
  rewrite H in Ex. inversion Ex; subst. cbn in Ho. tauto.
Qed.

Lemma exec_block_keeps : forall n s mu C b s' mu',
  exec_block N P n s mu C b = ROk (ONormal s', mu') -> keeps (block_targets b) s s'.
Proof.
  intros n s mu C b s' mu' H.
  destruct (exec_block_frame n n s s mu C b _ _ (le_n _) (erel_id_refl s) H) as (o' & Ex & Ho).
  rewrite H in Ex. inversion Ex; subst. cbn in Ho. tauto.
Qed.

(* fuel monotonicity on successful runs (from SemMono.v) *)
Lemma exec_block_up : forall n m s mu C b r, (n <= m)%nat ->
  exec_block N P n s mu C b = ROk r -> exec_block N P m s mu C b = ROk r.
Proof. intros. eapply exec_block_mono; eauto. discriminate. Qed.

Lemma exec_up : forall n m s mu C st r, (n <= m)%nat ->
  exec N P n s mu C st = ROk r -> exec N P m s mu C st = ROk r.
Proof. intros. eapply exec_mono; eauto. discriminate. Qed.

Lemma call_up : forall n m fn vs mu C r, (n <= m)%nat ->
  call N P n fn vs mu C = ROk r -> call N P m fn vs mu C = ROk r.
Proof. intros. eapply call_mono; eauto. discriminate. Qed.

End Corollaries.

(* program extension: a program that defines at least what P defines runs the same *)
Lemma call_ext : forall N P P', (forall g fn, lookup_fn P g = Some fn -> lookup_fn P' g = Some fn) ->
  forall n fn vs mu C r, call N P n fn vs mu C = ROk r -> call N P' n fn vs mu C = ROk r.
Proof. intros N P P' Hext n fn vs mu C r H. eapply (h_call _ _ _ _ (sim_all N P P' Hext n)); eauto. Qed.

Lemma exec_block_ext_ret : forall N P P', (forall g fn, lookup_fn P g = Some fn -> lookup_fn P' g = Some fn) ->
  forall n s mu C b v mu', exec_block N P n s mu C b = ROk (OReturn v, mu') ->
  exec_block N P' n s mu C b = ROk (OReturn v, mu').
Proof.
  intros N P P' Hext n s mu C b v mu' H.
  destruct (h_exec_block _ _ _ _ (sim_all N P P' Hext n) idr inj_idr n _ _ _ _ _ _ _ (le_n _) (erel_id_refl s) (wt_ok_block_id b) H)
    as (o' & Ex & Ho).
  rewrite ren_block_id in Ex. rewrite Ex.
  destruct o'; cbn in Ho; try contradiction. subst; reflexivity.
Qed.
