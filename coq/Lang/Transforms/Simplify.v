(* C07: strategies/simple.py `simplify` as an iteration of checked passes.
   Definitions only.

   A step is one of the three passes.  CopyPropagate and DeadCodeEliminate are
   the repaired Gallina passes re-checked by their validators; a ConstFold step
   carries its OUTPUT (it depends on PartialEval's facts, which are not
   modelled) and is accepted only if the validator of expression rewriting
   accepts it.  `simp_iter` applies any sequence of steps: every subset of the
   enable_* switches, every order, any number of rounds. *)
From Coq Require Import ZArith List Bool String.
From FpyV Require Import Num.RealFloat Num.Float Num.CtxDef Lang.Syntax Lang.Values Lang.Sem.
From FpyV Require Import Lang.Transforms.SimpDefs Lang.Transforms.SimpRw Lang.Transforms.SimpDce.
Import ListNotations.

Inductive cand := CCopyProp | CDce | CConstFold (b : block).

Section Iter.
Variable kfuel : nat.
Variable claim_ok : claim -> bool.
Variable guess_ctx : facts -> expr -> option ctx.
Variable d : nat.
Variable P : program.

Definition constfold_checked (fn : func) (b : block) : block :=
  if vrw_func kfuel claim_ok guess_ctx d fn (with_body fn b) then b else f_body fn.

Definition step (fn : func) (c : cand) : func :=
  with_body fn (match c with
                | CCopyProp => copyprop_checked d fn
                | CDce => dce_checked d P fn
                | CConstFold b => constfold_checked fn b
                end).

Fixpoint simp_iter (cs : list cand) (fn : func) : func :=
  match cs with
  | [] => fn
  | c :: r => simp_iter r (step fn c)
  end.
End Iter.
