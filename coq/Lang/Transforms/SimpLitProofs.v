(* C07: value_to_literal (SimpDefs.literal_of_value): a value with a literal
   form is denoted by its literal -- same class, same sign (of zero too), same
   real value; infinities and NaN have none. *)
From Coq Require Import ZArith List Bool String Lia.
From FpyV Require Import Num.RealFloat Num.Float Num.CtxDef Lang.Syntax Lang.Values Lang.Sem Lang.SemMono.
From FpyV Require Import Lang.Transforms.SimpDefs Lang.Transforms.SimpEqProofs.
Import ListNotations.
Open Scope Z_scope.

Lemma bitlen_scaled : forall c k, 0 < c -> 0 <= k -> bitlen (c * 2 ^ k) = bitlen c + k.
Proof.
  intros c k Hc Hk. unfold bitlen.
  assert (0 < c * 2 ^ k) by (apply Z.mul_pos_pos; [lia | apply Z.pow_pos_nonneg; lia]).
  destruct (c * 2 ^ k =? 0) eqn:E1; [apply Z.eqb_eq in E1; lia|].
  destruct (c =? 0) eqn:E2; [apply Z.eqb_eq in E2; lia|].
  rewrite Z.log2_mul_pow2 by lia. lia.
Qed.

(* the same number written with k more trailing zero bits *)
Lemma rf_compare_scaled_l : forall s e c k, 0 < c -> 0 <= k ->
  rf_compare (RF s e (c * 2 ^ k)) (RF s (e + k) c) = Eq.
Proof.
  intros s e c k Hc Hk. unfold rf_compare. cbn [rc rs rexp].
  assert (0 < c * 2 ^ k) by (apply Z.mul_pos_pos; [lia | apply Z.pow_pos_nonneg; lia]).
  destruct (c * 2 ^ k =? 0) eqn:E1; [apply Z.eqb_eq in E1; lia|].
  destruct (c =? 0) eqn:E2; [apply Z.eqb_eq in E2; lia|].
  rewrite Bool.eqb_reflx. cbn [negb].
  unfold rf_e, rf_p. cbn [rc rexp]. rewrite bitlen_scaled by lia.
  replace (e + (bitlen c + k) - 1) with (e + k + bitlen c - 1) by lia. rewrite Z.compare_refl.
  rewrite Z.min_l by lia. replace (e - e) with 0 by lia. replace (e + k - e) with k by lia.
  rewrite Z.shiftl_0_r. rewrite Z.shiftl_mul_pow2 by lia. rewrite Z.compare_refl.
  destruct s; reflexivity.
Qed.

Lemma rf_compare_scaled_r : forall s e c k, 0 < c -> 0 <= k ->
  rf_compare (RF s (e + k) c) (RF s e (c * 2 ^ k)) = Eq.
Proof.
  intros s e c k Hc Hk. unfold rf_compare. cbn [rc rs rexp].
  assert (0 < c * 2 ^ k) by (apply Z.mul_pos_pos; [lia | apply Z.pow_pos_nonneg; lia]).
  destruct (c * 2 ^ k =? 0) eqn:E1; [apply Z.eqb_eq in E1; lia|].
  destruct (c =? 0) eqn:E2; [apply Z.eqb_eq in E2; lia|].
  rewrite Bool.eqb_reflx. cbn [negb].
  unfold rf_e, rf_p. cbn [rc rexp]. rewrite bitlen_scaled by lia.
  replace (e + (bitlen c + k) - 1) with (e + k + bitlen c - 1) by lia. rewrite Z.compare_refl.
  rewrite Z.min_r by lia. replace (e - e) with 0 by lia. replace (e + k - e) with k by lia.
  rewrite Z.shiftl_0_r. rewrite Z.shiftl_mul_pow2 by lia. rewrite Z.compare_refl.
  destruct s; reflexivity.
Qed.

Lemma strip_zeros_spec : forall k e c e' c', 0 < c -> strip_zeros k e c = (e', c') ->
  0 < c' /\ 0 <= e' - e /\ c = c' * 2 ^ (e' - e).
Proof.
  induction k as [|k IH]; intros e c e' c' Hc H; cbn [strip_zeros] in H.
  - inversion H; subst. replace (e' - e') with 0 by lia. cbn. lia.
  - destruct ((e <? 0) && Z.even c && negb (c =? 0)) eqn:B.
    + apply andb_prop in B. destruct B as [B _]. apply andb_prop in B. destruct B as [_ Hev].
      apply Z.even_spec in Hev. destruct Hev as [q Hq].
      assert (Hq2 : c / 2 = q) by (subst c; rewrite Z.mul_comm; apply Z.div_mul; lia).
      rewrite Hq2 in H. destruct (IH (e + 1) q e' c' ltac:(lia) H) as (P1 & P2 & P3).
      split; [exact P1|]. split; [lia|].
      subst c q. replace (e' - e) with (1 + (e' - (e + 1))) by lia.
      rewrite Z.pow_add_r by lia. change (2 ^ 1) with 2. ring.
    + inversion H; subst. replace (e' - e') with 0 by lia. cbn. lia.
Qed.

Definition rf_ok (r : rf) : Prop := 0 <= rc r.

Lemma canon_rf_same : forall r, rf_ok r -> num_same (NF (FFin r)) (NF (FFin (canon_rf r))) = true.
Proof.
  intros [s e c] Hw. unfold rf_ok in Hw. cbn [rc] in Hw. unfold canon_rf. cbn [rc rs rexp].
  destruct (c =? 0) eqn:Ec.
  - apply Z.eqb_eq in Ec. subst c. cbn. rewrite Bool.eqb_reflx. reflexivity.
  - apply Z.eqb_neq in Ec. assert (Hc : 0 < c) by lia.
    destruct (e >=? 0) eqn:Ee.
    + assert (0 <= e) by lia.
      cbn [num_same num_compare fl_compare num_sign fl_s rs].
      pose proof (rf_compare_scaled_r s 0 c e Hc H) as X. replace (0 + e) with e in X by lia. rewrite X.
      apply Bool.eqb_reflx.
    + destruct (strip_zeros (Z.to_nat (- e)) e c) as [e' c'] eqn:St.
      destruct (strip_zeros_spec _ _ _ _ _ Hc St) as (P1 & P2 & P3).
      cbn [num_same num_compare fl_compare num_sign fl_s rs].
      pose proof (rf_compare_scaled_l s e c' (e' - e) P1 P2) as X.
      rewrite <- P3 in X. replace (e + (e' - e)) with e' in X by lia. rewrite X.
      apply Bool.eqb_reflx.
Qed.

(* infinities and NaN have no literal form; -0 keeps its sign *)
Lemma literal_of_value_inf_nan : forall s,
  literal_of_value (CNum (NF (FInf s))) = None /\ literal_of_value (CNum (NF (FNaN s))) = None.
Proof. intros; split; reflexivity. Qed.

Lemma literal_of_value_negzero : forall e,
  literal_of_value (CNum (NF (FFin (RF true e 0)))) = Some (ENum (FFin (RF true 0 0))).
Proof. reflexivity. Qed.

(* ---------------------------------------------------------------- round trip *)
(* well-formed, list-free values: non-negative significands, rationals in the
   canonical form of Values.num_of_frac *)
Fixpoint cval_okb (w : cval) : bool :=
  match w with
  | CNum (NF (FFin r)) => 0 <=? rc r
  | CNum (NF _) => true
  | CNum (NQ n d) =>
      negb (d =? 0) &&
      match num_of_frac n d with NQ n' d' => (n =? n') && (d =? d') | NF _ => false end
  | CTuple l => forallb cval_okb l
  | CList _ => false
  | _ => true
  end.

Fixpoint cval_depth (w : cval) : nat :=
  match w with
  | CTuple l | CList l => S (fold_right (fun x m => Nat.max (cval_depth x) m) O l)
  | _ => 1%nat
  end.

Definition lits_of : list cval -> option (list expr) :=
  fix go (l : list cval) : option (list expr) :=
    match l with
    | [] => Some []
    | x :: r => match literal_of_value x, go r with Some e, Some es => Some (e :: es) | _, _ => None end
    end.

Definition lit_vals : list expr -> option (list value) :=
  fix go (l : list expr) : option (list value) :=
    match l with
    | [] => Some []
    | x :: r => match lit_val x, go r with Some v, Some vs => Some (v :: vs) | _, _ => None end
    end.

Definition extracts (n : nat) (mu : store) : list value -> option (list cval) :=
  fix go (l : list value) : option (list cval) :=
    match l with
    | [] => Some []
    | x :: r => match extract n mu x, go r with Some c, Some cs => Some (c :: cs) | _, _ => None end
    end.

Definition cvals_eqb : list cval -> list cval -> bool :=
  fix go (l m : list cval) : bool :=
    match l, m with
    | [], [] => true
    | x :: l', y :: m' => cval_eqb x y && go l' m'
    | _, _ => false
    end.

Theorem literal_of_value_roundtrip : forall w e, cval_okb w = true -> literal_of_value w = Some e ->
  is_lit e = true /\
  exists v, lit_val e = Some v /\
    forall k mu, (cval_depth w <= k)%nat -> exists w', extract k mu v = Some w' /\ cval_eqb w w' = true.
Proof.
  induction w as [b|x|c|l IH|l IH|] using cval_ind'; intros e Hok Hl.
  - cbn in Hl. inversion Hl; subst. split; [reflexivity|]. exists (VBool b). split; [reflexivity|].
    intros k mu Hk. destruct k; [cbn in Hk; lia|]. exists (CBool b). split; [reflexivity|]. cbn. apply Bool.eqb_reflx.
  - destruct x as [[r|s|s]|n d]; cbn [literal_of_value] in Hl; try discriminate.
    + inversion Hl; subst. split; [reflexivity|]. eexists. split; [reflexivity|].
      intros k mu Hk. destruct k; [cbn in Hk; lia|]. eexists. split; [reflexivity|].
      cbn [cval_eqb]. apply canon_rf_same. cbn in Hok. unfold rf_ok. lia.
    + inversion Hl; subst. cbn in Hok. apply andb_prop in Hok. destruct Hok as [Hd Hq].
      apply negb_true_iff in Hd. split; [cbn; rewrite Hd; reflexivity|].
      destruct (num_of_frac n d) as [f|n' d'] eqn:Nf; [discriminate|].
      apply andb_prop in Hq. destruct Hq as [Hn Hd']. apply Z.eqb_eq in Hn. apply Z.eqb_eq in Hd'. subst n' d'.
      exists (VNum (NQ n d)). split; [cbn; rewrite Hd, Nf; reflexivity|].
      intros k mu Hk. destruct k; [cbn in Hk; lia|]. exists (CNum (NQ n d)). split; [reflexivity|].
      cbn [cval_eqb]. apply num_same_refl.
  - cbn in Hl. inversion Hl; subst. split; [reflexivity|]. exists (VCtx c). split; [reflexivity|].
    intros k mu Hk. destruct k; [cbn in Hk; lia|]. exists (CCtx c). split; [reflexivity|]. cbn. apply ctx_eqb_refl.
  - (* tuple *)
    cbn [literal_of_value] in Hl. change (match lits_of l with Some es => Some (ETuple es) | None => None end = Some e) in Hl.
    destruct (lits_of l) as [es|] eqn:Ls; [|discriminate]. inversion Hl; subst e. clear Hl.
    cbn [cval_okb] in Hok.
    assert (X : forallb is_lit es = true /\ exists vs, lit_vals es = Some vs /\
              forall k mu, (fold_right (fun x m => Nat.max (cval_depth x) m) O l <= k)%nat ->
                exists ws, extracts k mu vs = Some ws /\ cvals_eqb l ws = true).
    { revert es Ls Hok. induction IH as [|w l Hw _ IHl]; intros es Ls Hok.
      - cbn in Ls. inversion Ls; subst. split; [reflexivity|]. exists []. split; [reflexivity|].
        intros k mu _. exists []. split; reflexivity.
      - cbn [lits_of] in Ls. destruct (literal_of_value w) as [e0|] eqn:L0; [|discriminate].
        change (match lits_of l with Some es0 => Some (e0 :: es0) | None => None end = Some es) in Ls.
        destruct (lits_of l) as [es0|] eqn:L1; [|discriminate]. inversion Ls; subst es. clear Ls.
        cbn [forallb] in Hok. apply andb_prop in Hok. destruct Hok as [Ok0 Ok1].
        destruct (Hw e0 Ok0 eq_refl) as (Li0 & v0 & Lv0 & Ex0).
        destruct (IHl es0 eq_refl Ok1) as (Li1 & vs1 & Lv1 & Ex1).
        split; [cbn; rewrite Li0, Li1; reflexivity|].
        exists (v0 :: vs1). split; [cbn [lit_vals]; rewrite Lv0; change (match lit_vals es0 with Some vs => Some (v0 :: vs) | None => None end = Some (v0 :: vs1)); rewrite Lv1; reflexivity|].
        intros k mu Hk. cbn [fold_right] in Hk.
        destruct (Ex0 k mu ltac:(lia)) as (w0' & E0 & Q0). destruct (Ex1 k mu ltac:(lia)) as (ws' & E1 & Q1).
        exists (w0' :: ws'). split.
        + cbn [extracts]. rewrite E0. change (match extracts k mu vs1 with Some cs => Some (w0' :: cs) | None => None end = Some (w0' :: ws')). rewrite E1. reflexivity.
        + cbn [cvals_eqb]. rewrite Q0. exact Q1. }
    destruct X as (Li & vs & Lv & Ex).
    split; [exact Li|]. exists (VTuple vs). split.
    + cbn [lit_val]. change (match lit_vals es with Some vs0 => Some (VTuple vs0) | None => None end = Some (VTuple vs)). rewrite Lv. reflexivity.
    + intros k mu Hk. destruct k; [cbn in Hk; lia|]. cbn [cval_depth] in Hk.
      destruct (Ex k mu ltac:(lia)) as (ws & E & Q). exists (CTuple ws). split.
      * cbn [extract]. change (match extracts k mu vs with Some cs => Some (CTuple cs) | None => None end = Some (CTuple ws)). rewrite E. reflexivity.
      * cbn [cval_eqb]. exact Q.
  - cbn in Hok. discriminate.
  - cbn in Hl. discriminate.
Qed.
