(* Model of fpy2/transform/while_unroll.py (_WhileUnroll._visit_while) and of
   strategies/loop_unroll.py unroll_while.  Definitions only.

     while c: b   ~~>   if c: b; (if c: b; (... while c: b))      (times nested ifs)

   The body is visited (nested selected loops rewritten) and the same rewritten
   body is used in every copy.  Sites are counted in visit order, outermost
   first; re-visiting a matched loop's body inflates the real counter, but only
   for indices larger than the one aimed at, so the preorder index is exact. *)
From Coq Require Import ZArith List Bool String.
From FpyV Require Import Num.RealFloat Num.Float Num.CtxDef Lang.Syntax Lang.Values Lang.Transforms.Common.
Import ListNotations.

(* one selected loop, its body already rewritten *)
Definition unroll_while_stmt (times : nat) (c : expr) (b : block) : stmt :=
  Nat.iter times (fun s => SIf1 c (b ++ [s])) (SWhile c b).

Fixpoint wu_stmt (w : sel) (times : nat) (inside : bool) (st : stmt) (idx : nat) {struct st} : list stmt * nat :=
  match st with
  | SWhile c b =>
      let '(b', idx') := bmapM (wu_stmt w times (enters w inside idx)) b (S idx) in
      if selected w inside idx then ([unroll_while_stmt times c b'], idx')
      else ([SWhile c b'], idx')
  | SIf1 c b => let '(b', i) := bmapM (wu_stmt w times inside) b idx in ([SIf1 c b'], i)
  | SIf c t f =>
      let '(t', i1) := bmapM (wu_stmt w times inside) t idx in
      let '(f', i2) := bmapM (wu_stmt w times inside) f i1 in ([SIf c t' f'], i2)
  | SFor p it b => let '(b', i) := bmapM (wu_stmt w times inside) b idx in ([SFor p it b'], i)
  | SContext x e b => let '(b', i) := bmapM (wu_stmt w times inside) b idx in ([SContext x e b'], i)
  | _ => ([st], idx)
  end.

Definition wu_block (w : sel) (times : nat) (b : block) : block :=
  fst (bmapM (wu_stmt w times false) b O).

Definition while_unroll (w : sel) (times : nat) (fn : func) : func :=
  set_body fn (wu_block w times (f_body fn)).
