(* Alpha-equivalence of FPyLang functions up to a bijective renaming of variables
   (the tie compares the output of the real transforms with the model's output
   "modulo fresh names").  Definitions only.  The two terms are traversed in
   lockstep while a partial injective map between their variable names is built;
   function names, operators, literals and contexts must coincide. *)
From Coq Require Import ZArith List Bool String.
From FpyV Require Import Num.RealFloat Num.Float Num.CtxDef Lang.Syntax Lang.Values.
Import ListNotations.

Definition amap := list (ident * ident).

Definition a_id (x y : ident) (m : amap) : option amap :=
  match find (fun p => String.eqb (fst p) x) m with
  | Some (_, y') => if String.eqb y y' then Some m else None
  | None => if existsb (fun p => String.eqb (snd p) y) m then None else Some ((x, y) :: m)
  end.

Definition pred_eqb (a b : pred) : bool :=
  match a, b with
  | PIsNan, PIsNan | PIsInf, PIsInf | PIsFinite, PIsFinite | PIsNormal, PIsNormal | PSignbit, PSignbit => true
  | _, _ => false
  end.

Definition cmpop_eqb (a b : cmpop) : bool :=
  match a, b with
  | CLt, CLt | CLe, CLe | CGe, CGe | CGt, CGt | CEq, CEq | CNe, CNe => true
  | _, _ => false
  end.

Fixpoint cmpops_eqb (a b : list cmpop) : bool :=
  match a, b with
  | [], [] => true
  | x :: r, y :: s => cmpop_eqb x y && cmpops_eqb r s
  | _, _ => false
  end.

Definition ctor_eqb (a b : ctor) : bool :=
  match a, b with
  | KMPFloat r, KMPFloat r' => rmode_eqb r r'
  | KMPSFloat r, KMPSFloat r' => rmode_eqb r r'
  | KMPBFloat r o, KMPBFloat r' o' => rmode_eqb r r' && ovmode_eqb o o'
  | KIEEE r o, KIEEE r' o' => rmode_eqb r r' && ovmode_eqb o o'
  | KMPFixed r, KMPFixed r' => rmode_eqb r r'
  | KFixed s r o, KFixed s' r' o' => Bool.eqb s s' && rmode_eqb r r' && ovmode_eqb o o'
  | KSMFixed r o, KSMFixed r' o' => rmode_eqb r r' && ovmode_eqb o o'
  | KExp r o, KExp r' o' => rmode_eqb r r' && ovmode_eqb o o'
  | _, _ => false
  end.

Definition aeq_list {A} (f : A -> A -> amap -> option amap) : list A -> list A -> amap -> option amap :=
  fix go (l1 l2 : list A) (m : amap) : option amap :=
    match l1, l2 with
    | [], [] => Some m
    | x :: r, y :: s => match f x y m with Some m' => go r s m' | None => None end
    | _, _ => None
    end.

Definition aeq_opt {A} (f : A -> A -> amap -> option amap) (o1 o2 : option A) (m : amap) : option amap :=
  match o1, o2 with
  | None, None => Some m
  | Some x, Some y => f x y m
  | _, _ => None
  end.

Fixpoint aeq_pat (p1 p2 : pat) (m : amap) : option amap :=
  match p1, p2 with
  | PVar x, PVar y => a_id x y m
  | PWild, PWild => Some m
  | PTuple l1, PTuple l2 => aeq_list aeq_pat l1 l2 m
  | _, _ => None
  end.

Definition aeq_gens (f : expr -> expr -> amap -> option amap)
    : list (pat * expr) -> list (pat * expr) -> amap -> option amap :=
  fix go (l1 l2 : list (pat * expr)) (m : amap) : option amap :=
    match l1, l2 with
    | [], [] => Some m
    | g1 :: r, g2 :: s =>
        match g1, g2 with (p1, e1), (p2, e2) =>
          match aeq_pat p1 p2 m with None => None | Some m1 =>
          match f e1 e2 m1 with None => None | Some m2 => go r s m2 end end
        end
    | _, _ => None
    end.

Fixpoint aeq_expr (e1 e2 : expr) (m : amap) {struct e1} : option amap :=
  match e1 with
  | EVar x1 => match e2 with EVar x2 => a_id x1 x2 m | _ => None end
  | ENum v1 => match e2 with ENum v2 => if fl_same v1 v2 then Some m else None | _ => None end
  | ERat n1 d1 => match e2 with ERat n2 d2 => if Z.eqb n1 n2 && Z.eqb d1 d2 then Some m else None | _ => None end
  | EBool b1 => match e2 with EBool b2 => if Bool.eqb b1 b2 then Some m else None | _ => None end
  | ECtxVal c1 => match e2 with ECtxVal c2 => if ctx_eqb c1 c2 then Some m else None | _ => None end
  | EOp0 o1 => match e2 with EOp0 o2 => if op_eqb o1 o2 then Some m else None | _ => None end
  | EOp1 o1 a1 => match e2 with EOp1 o2 a2 => if op_eqb o1 o2 then aeq_expr a1 a2 m else None | _ => None end
  | EOp2 o1 a1 b1 => match e2 with EOp2 o2 a2 b2 => if op_eqb o1 o2 then match aeq_expr a1 a2 m with None => None | Some m1 => aeq_expr b1 b2 m1 end else None | _ => None end
  | EOp3 o1 a1 b1 c1 => match e2 with EOp3 o2 a2 b2 c2 => if op_eqb o1 o2 then match aeq_expr a1 a2 m with None => None | Some m1 => match aeq_expr b1 b2 m1 with None => None | Some m2 => aeq_expr c1 c2 m2 end end else None | _ => None end
  | EPred p1 a1 => match e2 with EPred p2 a2 => if pred_eqb p1 p2 then aeq_expr a1 a2 m else None | _ => None end
  | ECompare ops1 args1 => match e2 with ECompare ops2 args2 => if cmpops_eqb ops1 ops2 then aeq_list aeq_expr args1 args2 m else None | _ => None end
  | EAnd args1 => match e2 with EAnd args2 => aeq_list aeq_expr args1 args2 m | _ => None end
  | EOr args1 => match e2 with EOr args2 => aeq_list aeq_expr args1 args2 m | _ => None end
  | ENot a1 => match e2 with ENot a2 => aeq_expr a1 a2 m | _ => None end
  | EIf c1 a1 b1 => match e2 with EIf c2 a2 b2 => match aeq_expr c1 c2 m with None => None | Some m1 => match aeq_expr a1 a2 m1 with None => None | Some m2 => aeq_expr b1 b2 m2 end end | _ => None end
  | ETuple es1 => match e2 with ETuple es2 => aeq_list aeq_expr es1 es2 m | _ => None end
  | EFst a1 => match e2 with EFst a2 => aeq_expr a1 a2 m | _ => None end
  | ESnd a1 => match e2 with ESnd a2 => aeq_expr a1 a2 m | _ => None end
  | EList es1 => match e2 with EList es2 => aeq_list aeq_expr es1 es2 m | _ => None end
  | ERef a1 i1 => match e2 with ERef a2 i2 => match aeq_expr a1 a2 m with None => None | Some m1 => aeq_expr i1 i2 m1 end | _ => None end
  | ESlice a1 lo1 hi1 => match e2 with ESlice a2 lo2 hi2 => match aeq_expr a1 a2 m with None => None | Some m1 => match aeq_opt aeq_expr lo1 lo2 m1 with None => None | Some m2 => aeq_opt aeq_expr hi1 hi2 m2 end end | _ => None end
  | EComp gens1 elt1 => match e2 with EComp gens2 elt2 => match aeq_gens aeq_expr gens1 gens2 m with None => None | Some m1 => aeq_expr elt1 elt2 m1 end | _ => None end
  | ELen a1 => match e2 with ELen a2 => aeq_expr a1 a2 m | _ => None end
  | ERange1 a1 => match e2 with ERange1 a2 => aeq_expr a1 a2 m | _ => None end
  | ERange2 a1 b1 => match e2 with ERange2 a2 b2 => match aeq_expr a1 a2 m with None => None | Some m1 => aeq_expr b1 b2 m1 end | _ => None end
  | ERange3 a1 b1 c1 => match e2 with ERange3 a2 b2 c2 => match aeq_expr a1 a2 m with None => None | Some m1 => match aeq_expr b1 b2 m1 with None => None | Some m2 => aeq_expr c1 c2 m2 end end | _ => None end
  | EZip es1 => match e2 with EZip es2 => aeq_list aeq_expr es1 es2 m | _ => None end
  | EEnumerate a1 => match e2 with EEnumerate a2 => aeq_expr a1 a2 m | _ => None end
  | EEmpty dims1 => match e2 with EEmpty dims2 => aeq_list aeq_expr dims1 dims2 m | _ => None end
  | EDim a1 => match e2 with EDim a2 => aeq_expr a1 a2 m | _ => None end
  | ESize a1 d1 => match e2 with ESize a2 d2 => match aeq_expr a1 a2 m with None => None | Some m1 => aeq_expr d1 d2 m1 end | _ => None end
  | ESum a1 => match e2 with ESum a2 => aeq_expr a1 a2 m | _ => None end
  | EAMin a1 => match e2 with EAMin a2 => aeq_expr a1 a2 m | _ => None end
  | EAMax a1 => match e2 with EAMax a2 => aeq_expr a1 a2 m | _ => None end
  | EMin es1 => match e2 with EMin es2 => aeq_list aeq_expr es1 es2 m | _ => None end
  | EMax es1 => match e2 with EMax es2 => aeq_list aeq_expr es1 es2 m | _ => None end
  | EAny a1 => match e2 with EAny a2 => aeq_expr a1 a2 m | _ => None end
  | EAll a1 => match e2 with EAll a2 => aeq_expr a1 a2 m | _ => None end
  | ECall f1 args1 => match e2 with ECall f2 args2 => if String.eqb f1 f2 then aeq_list aeq_expr args1 args2 m else None | _ => None end
  | ECtor k1 args1 => match e2 with ECtor k2 args2 => if ctor_eqb k1 k2 then aeq_list aeq_expr args1 args2 m else None | _ => None end
  end.

Definition aeq_oid (x y : option ident) (m : amap) : option amap :=
  match x, y with
  | None, None => Some m
  | Some a, Some b => a_id a b m
  | _, _ => None
  end.

Fixpoint aeq_stmt (s1 s2 : stmt) (m : amap) {struct s1} : option amap :=
  match s1 with
  | SAssign p1 e1 => match s2 with SAssign p2 e2 =>
      match aeq_pat p1 p2 m with None => None | Some m1 => aeq_expr e1 e2 m1 end | _ => None end
  | SIndexAssign x1 i1 e1 => match s2 with SIndexAssign x2 i2 e2 =>
      match a_id x1 x2 m with None => None | Some m1 =>
      match aeq_list aeq_expr i1 i2 m1 with None => None | Some m2 => aeq_expr e1 e2 m2 end end | _ => None end
  | SIf1 c1 b1 => match s2 with SIf1 c2 b2 =>
      match aeq_expr c1 c2 m with None => None | Some m1 => aeq_list aeq_stmt b1 b2 m1 end | _ => None end
  | SIf c1 t1 f1 => match s2 with SIf c2 t2 f2 =>
      match aeq_expr c1 c2 m with None => None | Some m1 =>
      match aeq_list aeq_stmt t1 t2 m1 with None => None | Some m2 => aeq_list aeq_stmt f1 f2 m2 end end | _ => None end
  | SWhile c1 b1 => match s2 with SWhile c2 b2 =>
      match aeq_expr c1 c2 m with None => None | Some m1 => aeq_list aeq_stmt b1 b2 m1 end | _ => None end
  | SFor p1 i1 b1 => match s2 with SFor p2 i2 b2 =>
      match aeq_pat p1 p2 m with None => None | Some m1 =>
      match aeq_expr i1 i2 m1 with None => None | Some m2 => aeq_list aeq_stmt b1 b2 m2 end end | _ => None end
  | SContext x1 e1 b1 => match s2 with SContext x2 e2 b2 =>
      match aeq_oid x1 x2 m with None => None | Some m1 =>
      match aeq_expr e1 e2 m1 with None => None | Some m2 => aeq_list aeq_stmt b1 b2 m2 end end | _ => None end
  | SAssert e1 => match s2 with SAssert e2 => aeq_expr e1 e2 m | _ => None end
  | SEffect e1 => match s2 with SEffect e2 => aeq_expr e1 e2 m | _ => None end
  | SReturn e1 => match s2 with SReturn e2 => aeq_expr e1 e2 m | _ => None end
  | SPass => match s2 with SPass => Some m | _ => None end
  end.

Definition optctx_eqb (a b : option ctx) : bool :=
  match a, b with
  | None, None => true
  | Some x, Some y => ctx_eqb x y
  | _, _ => false
  end.

Definition aeq_func (f1 f2 : func) : bool :=
  optctx_eqb (f_ctx f1) (f_ctx f2) &&
  match aeq_list a_id (f_params f1) (f_params f2) [] with
  | None => false
  | Some m => match aeq_list aeq_stmt (f_body f1) (f_body f2) m with Some _ => true | None => false end
  end.

Definition aeq_ofunc (o : option func) (f2 : option func) : bool :=
  match o, f2 with
  | Some a, Some b => aeq_func a b
  | None, None => true
  | _, _ => false
  end.
