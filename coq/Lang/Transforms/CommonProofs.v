(* The fresh-name lemma for the model's name supply (what utils/gensym.py is
   meant to guarantee): a generated name differs from every reserved name and
   from every other generated name.  Proofs. *)
From Coq Require Import ZArith List Bool String Lia.
From FpyV Require Import Num.RealFloat Num.Float Num.CtxDef Lang.Syntax Lang.Values Lang.Transforms.Common.
Import ListNotations.

Lemma underscores_length : forall n, String.length (underscores n) = n.
Proof. induction n; cbn; congruence. Qed.

Lemma gen_name_length : forall L i, String.length (gen_name L i) = S (L + i).
Proof. intros. unfold gen_name. apply underscores_length. Qed.

Lemma max_len_ge : forall l x, In x l -> (String.length x <= max_len l)%nat.
Proof.
  induction l as [|y l IH]; intros x H; [destruct H|]. cbn [max_len fold_right].
  destruct H as [->|H]; [lia|]. specialize (IH x H). unfold max_len in IH. lia.
Qed.

(* a generated name is not among the reserved names *)
Theorem gen_name_fresh : forall names i, ~ In (gen_name (max_len names) i) names.
Proof.
  intros names i H. apply max_len_ge in H. rewrite gen_name_length in H. lia.
Qed.

(* two generated names are different *)
Theorem gen_name_inj : forall L i j, gen_name L i = gen_name L j -> i = j.
Proof.
  intros L i j H. apply (f_equal String.length) in H. rewrite !gen_name_length in H. lia.
Qed.
