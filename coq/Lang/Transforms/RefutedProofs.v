(* The faithful models of elim_iter and fuse REFUTE preservation: concrete
   programs and inputs on which the original returns v and the transformed
   function returns a different value / raises.  (The same witnesses fail on
   fpy2 itself: known_findings.d/C08.json.)  Also: non-vacuity of
   while_unroll_sound.  Proofs by computation. *)
From Coq Require Import ZArith List Bool String.
From FpyV Require Import Num.RealFloat Num.Float Num.CtxDef Lang.Syntax Lang.Values Lang.Sem Lang.NumInst
  Lang.Transforms.Common Lang.Transforms.WhileUnroll Lang.Transforms.ForUnroll Lang.Transforms.Frame
  Lang.Transforms.IterElim Lang.Transforms.ReduceFusion Lang.Transforms.NumInt.
Import ListNotations.
Open Scope string_scope.
Open Scope Z_scope.

Definition nz (z : Z) : cval := CNum (num_of_Z z).

(* acc = 0; for a, b in zip(xs, ys): xs[1] = 100; acc = acc + a; return acc *)
Definition P_zip : program :=
  [("f", Func ["xs"; "ys"] None
     [SAssign (PVar "acc") (int_lit 0);
      SFor (PTuple [PVar "a"; PVar "b"]) (EZip [EVar "xs"; EVar "ys"])
        [SIndexAssign "xs" [int_lit 1] (int_lit 100);
         SAssign (PVar "acc") (EOp2 OAdd (EVar "acc") (EVar "a"))];
      SReturn (EVar "acc")])].

Lemma zip_elim_refuted :
  run c08_numops P_zip 100 "f" [CList [nz 1; nz 2]; CList [nz 3; nz 4]] None = ROk (nz 3) /\
  run c08_numops (prog_update P_zip "f" (elim_iter true true)) 100 "f" [CList [nz 1; nz 2]; CList [nz 3; nz 4]] None = ROk (nz 101).
Proof. split; vm_compute; reflexivity. Qed.

(* acc = 0; for i, x in enumerate(xs): xs[1] = 100; acc = acc + x; return acc *)
Definition P_enum : program :=
  [("f", Func ["xs"] None
     [SAssign (PVar "acc") (int_lit 0);
      SFor (PTuple [PVar "i"; PVar "x"]) (EEnumerate (EVar "xs"))
        [SIndexAssign "xs" [int_lit 1] (int_lit 100);
         SAssign (PVar "acc") (EOp2 OAdd (EVar "acc") (EVar "x"))];
      SReturn (EVar "acc")])].

Lemma enumerate_elim_refuted :
  run c08_numops P_enum 100 "f" [CList [nz 1; nz 2]] None = ROk (nz 3) /\
  run c08_numops (prog_update P_enum "f" (elim_iter true true)) 100 "f" [CList [nz 1; nz 2]] None = ROk (nz 101).
Proof. split; vm_compute; reflexivity. Qed.

(* t = 0; while any([x > t for x in xs]) and t < 3: t = t + 1; return t *)
Definition P_fuse_while : program :=
  [("f", Func ["xs"] None
     [SAssign (PVar "t") (int_lit 0);
      SWhile (EAnd [EAny (EComp [(PVar "x", EVar "xs")] (ECompare [CGt] [EVar "x"; EVar "t"]));
                    ECompare [CLt] [EVar "t"; int_lit 3]])
        [SAssign (PVar "t") (EOp2 OAdd (EVar "t") (int_lit 1))];
      SReturn (EVar "t")])].

Lemma reduce_fusion_refuted_while :
  run c08_numops P_fuse_while 100 "f" [CList [nz 1; nz 2]] None = ROk (nz 2) /\
  run c08_numops (prog_update P_fuse_while "f" reduce_fusion) 100 "f" [CList [nz 1; nz 2]] None = ROk (nz 3).
Proof. split; vm_compute; reflexivity. Qed.

(* return n > 0 and any([xs[i] > 0 for i in range(1)]) *)
Definition P_fuse_sc : program :=
  [("f", Func ["xs"; "n"] None
     [SReturn (EAnd [ECompare [CGt] [EVar "n"; int_lit 0];
                     EAny (EComp [(PVar "i", ERange1 (int_lit 1))]
                                 (ECompare [CGt] [ERef (EVar "xs") (EVar "i"); int_lit 0]))])])].

Lemma reduce_fusion_refuted_shortcircuit :
  run c08_numops P_fuse_sc 100 "f" [CList []; nz 0] None = ROk (CBool false) /\
  run c08_numops (prog_update P_fuse_sc "f" reduce_fusion) 100 "f" [CList []; nz 0] None = RErr IndexErr.
Proof. split; vm_compute; reflexivity. Qed.

(* x = 5; r = any([x > 0 for x in xs]); return x *)
Definition P_fuse_target : program :=
  [("f", Func ["xs"] None
     [SAssign (PVar "x") (int_lit 5);
      SAssign (PVar "r") (EAny (EComp [(PVar "x", EVar "xs")] (ECompare [CGt] [EVar "x"; int_lit 0])));
      SReturn (EVar "x")])].

Lemma reduce_fusion_refuted_target :
  run c08_numops P_fuse_target 100 "f" [CList [nz 1; nz 2]] None = ROk (nz 5) /\
  run c08_numops (prog_update P_fuse_target "f" reduce_fusion) 100 "f" [CList [nz 1; nz 2]] None = ROk (nz 2).
Proof. split; vm_compute; reflexivity. Qed.

(* ---------------------------------------------------------------- the refutations, as existential statements *)
Lemma zip_elim_sound_refuted :
  exists P f args v v',
    run c08_numops P 100 f args None = ROk v /\
    run c08_numops (prog_update P f (elim_iter true true)) 100 f args None = ROk v' /\
    cval_eqb v v' = false.
Proof.
  exists P_zip, "f", [CList [nz 1; nz 2]; CList [nz 3; nz 4]], (nz 3), (nz 101).
  destruct zip_elim_refuted as [A B]. split; [exact A | split; [exact B | reflexivity]].
Qed.

Lemma enumerate_elim_sound_refuted :
  exists P f args v v',
    run c08_numops P 100 f args None = ROk v /\
    run c08_numops (prog_update P f (elim_iter true true)) 100 f args None = ROk v' /\
    cval_eqb v v' = false.
Proof.
  exists P_enum, "f", [CList [nz 1; nz 2]], (nz 3), (nz 101).
  destruct enumerate_elim_refuted as [A B]. split; [exact A | split; [exact B | reflexivity]].
Qed.

Lemma reduce_fusion_sound_refuted_while :
  exists P f args v v',
    run c08_numops P 100 f args None = ROk v /\
    run c08_numops (prog_update P f reduce_fusion) 100 f args None = ROk v' /\
    cval_eqb v v' = false.
Proof.
  exists P_fuse_while, "f", [CList [nz 1; nz 2]], (nz 2), (nz 3).
  destruct reduce_fusion_refuted_while as [A B]. split; [exact A | split; [exact B | reflexivity]].
Qed.

Lemma reduce_fusion_sound_refuted_shortcircuit :
  exists P f args v,
    run c08_numops P 100 f args None = ROk v /\
    run c08_numops (prog_update P f reduce_fusion) 100 f args None = RErr IndexErr.
Proof.
  exists P_fuse_sc, "f", [CList []; nz 0], (CBool false). exact reduce_fusion_refuted_shortcircuit.
Qed.

Lemma reduce_fusion_sound_refuted_target :
  exists P f args v v',
    run c08_numops P 100 f args None = ROk v /\
    run c08_numops (prog_update P f reduce_fusion) 100 f args None = ROk v' /\
    cval_eqb v v' = false.
Proof.
  exists P_fuse_target, "f", [CList [nz 1; nz 2]], (nz 5), (nz 2).
  destruct reduce_fusion_refuted_target as [A B]. split; [exact A | split; [exact B | reflexivity]].
Qed.

(* ---------------------------------------------------------------- non-vacuity of while_unroll_sound *)
(* c = 0; acc = 0; while c < 3: if acc > 2: return (acc, c); acc = acc + xs[c]; c = c + 1;  return (acc, c) *)
Definition P_while : program :=
  [("f", Func ["xs"] None
     [SAssign (PVar "c") (int_lit 0);
      SAssign (PVar "acc") (int_lit 0);
      SWhile (ECompare [CLt] [EVar "c"; int_lit 3])
        [SIf1 (ECompare [CGt] [EVar "acc"; int_lit 2]) [SReturn (ETuple [EVar "acc"; EVar "c"])];
         SAssign (PVar "acc") (EOp2 OAdd (EVar "acc") (ERef (EVar "xs") (EVar "c")));
         SAssign (PVar "c") (EOp2 OAdd (EVar "c") (int_lit 1))];
      SReturn (ETuple [EVar "acc"; EVar "c"])])].

Example while_unroll_sound_nonvacuous :
  run c08_numops P_while 100 "f" [CList [nz 1; nz 2; nz 4]] None = ROk (CTuple [nz 3; nz 2]) /\
  run c08_numops (prog_update P_while "f" (while_unroll SelAll 2)) 100 "f" [CList [nz 1; nz 2; nz 4]] None
    = ROk (CTuple [nz 3; nz 2]).
Proof. split; vm_compute; reflexivity. Qed.

(* ---------------------------------------------------------------- non-vacuity of for_unroll_peel_sound_partial *)
(* acc = 0; for x in xs: (if x > 2: return (acc, xs)); xs[0] = acc; acc = acc + x;  return (acc, xs)
   -- in-place mutation of the iterated list, an early return, an outer variable reassigned *)
Definition F_for : func :=
  Func ["xs"] (Some (CMPFloat 3 RNE (Some 0) sp_default))
    [SAssign (PVar "acc") (int_lit 0);
     SFor (PVar "x") (EVar "xs")
       [SIf1 (ECompare [CGt] [EVar "x"; int_lit 2]) [SReturn (ETuple [EVar "acc"; EVar "xs"])];
        SIndexAssign "xs" [int_lit 0] (EVar "acc");
        SAssign (PVar "acc") (EOp2 OAdd (EVar "acc") (EVar "x"))];
     SReturn (ETuple [EVar "acc"; EVar "xs"])].
Definition P_for : program := [("f", F_for)].

Example for_unroll_nonvacuous :
  f_body F_for = ([SAssign (PVar "acc") (int_lit 0)] ++ SFor (PVar "x") (EVar "xs")
       [SIf1 (ECompare [CGt] [EVar "x"; int_lit 2]) [SReturn (ETuple [EVar "acc"; EVar "xs"])];
        SIndexAssign "xs" [int_lit 0] (EVar "acc");
        SAssign (PVar "acc") (EOp2 OAdd (EVar "acc") (EVar "x"))] :: [SReturn (ETuple [EVar "acc"; EVar "xs"])])%list /\
  ok_block (map (gen_name (max_len (func_names F_for))) (seq 0 (2 + 6))) (f_body F_for) = true /\
  run c08_numops P_for 100 "f" [CList [nz 1; nz 2; nz 1; nz 3; nz 1]] None
    = ROk (CTuple [nz 4; CList [nz 3; nz 2; nz 1; nz 3; nz 1]]) /\
  run c08_numops (prog_update P_for "f" (for_unroll (SelIdx 0) 3 false [])) 100 "f" [CList [nz 1; nz 2; nz 1; nz 3; nz 1]] None
    = ROk (CTuple [nz 4; CList [nz 3; nz 2; nz 1; nz 3; nz 1]]).
Proof. repeat split; vm_compute; reflexivity. Qed.
