(* "Eventually" judgements: a configuration evaluates to r for every
   sufficiently large fuel.  They compose without fuel arithmetic and give the
   few derived rules the loop-restructuring proofs need for the code the
   transforms generate.  Proofs. *)
From Coq Require Import ZArith List Bool String Lia.
From FpyV Require Import Num.RealFloat Num.Float Num.CtxDef Lang.Syntax Lang.Values Lang.Sem Lang.SemMono
  Lang.Transforms.Common Lang.Transforms.NumInt.
Import ListNotations.
Open Scope list_scope.
Open Scope Z_scope.

Section BigStep.
Variable N : numops.
Variable P : program.

Definition EvE (s : env) (mu : store) (C : ctx) (e : expr) (r : value * store) : Prop :=
  exists M0, forall M, (M0 <= M)%nat -> eval N P M s mu C e = ROk r.
Definition EvS (s : env) (mu : store) (C : ctx) (st : stmt) (r : outcome * store) : Prop :=
  exists M0, forall M, (M0 <= M)%nat -> exec N P M s mu C st = ROk r.
Definition EvB (s : env) (mu : store) (C : ctx) (b : block) (r : outcome * store) : Prop :=
  exists M0, forall M, (M0 <= M)%nat -> exec_block N P M s mu C b = ROk r.
Definition EvF (s : env) (mu : store) (C : ctx) (p : pat) (l : loc) (i : nat) (b : block) (r : outcome * store) : Prop :=
  exists M0, forall M, (M0 <= M)%nat -> for_loop N P M s mu C p l i b = ROk r.

(* from a run with a given fuel *)
Lemma EvE_of : forall n s mu C e r, eval N P n s mu C e = ROk r -> EvE s mu C e r.
Proof. intros. exists n. intros. eapply eval_mono_ok; eauto. Qed.
Lemma EvB_of : forall n s mu C b r, exec_block N P n s mu C b = ROk r -> EvB s mu C b r.
Proof. intros. exists n. intros. eapply exec_block_mono_ok; eauto. Qed.
Lemma EvF_of : forall n s mu C p l i b r, for_loop N P n s mu C p l i b = ROk r -> EvF s mu C p l i b r.
Proof. intros. exists n. intros. eapply for_loop_mono_ok; eauto. Qed.

Ltac fuel M0 :=
  exists (S M0); intros M HM; destruct M as [|M]; [lia|].

(* ---------------------------------------------------------------- expressions *)
Lemma EvE_var : forall s mu C x v, env_get s x = Some v -> EvE s mu C (EVar x) (v, mu).
Proof. intros. fuel O. rewrite eval_S. unfold eval_body. rewrite H. reflexivity. Qed.

Lemma EvE_int : forall s mu C z, EvE s mu C (int_lit z) (VNum (num_of_Z z), mu).
Proof. intros. fuel O. reflexivity. Qed.

Lemma EvE_ctxval : forall s mu C c, EvE s mu C (ECtxVal c) (VCtx c, mu).
Proof. intros. fuel O. reflexivity. Qed.

Lemma EvE_op2 : forall s mu C o a b x y r mu1 mu2,
  EvE s mu C a (VNum x, mu1) -> EvE s mu1 C b (VNum y, mu2) -> n_binop N o C x y = Ok r ->
  EvE s mu C (EOp2 o a b) (VNum r, mu2).
Proof.
  intros s mu C o a b x y r mu1 mu2 [Ma Ha] [Mb Hb] Hr. fuel (Nat.max Ma Mb).
  rewrite eval_S. unfold eval_body. rewrite (Ha M ltac:(lia)). cbn [rbind].
  rewrite (Hb M ltac:(lia)). cbn [rbind as_num]. rewrite Hr. reflexivity.
Qed.

Lemma EvE_len : forall s mu C a v mu1 l vs,
  EvE s mu C a (v, mu1) -> as_list mu1 v = ROk (l, vs) ->
  EvE s mu C (ELen a) (VNum (num_of_Z (Z.of_nat (List.length vs))), mu1).
Proof.
  intros s mu C a v mu1 l vs [Ma Ha] Hl. fuel Ma.
  rewrite eval_S. unfold eval_body. rewrite (Ha M ltac:(lia)). cbn [rbind]. rewrite Hl. reflexivity.
Qed.

Lemma num_to_Z_of_Z : forall z, num_to_Z (num_of_Z z) = Some z.
Proof.
  intro z. unfold num_to_Z, num_of_Z, fl_to_int, rf_to_int, is_integer, is_more_significant, is_zero. cbn [rc rexp rs].
  destruct (Z.eqb_spec (Z.abs z) 0) as [E|E].
  - cbn. f_equal. lia.
  - cbn. f_equal. destruct (Z.ltb_spec z 0); lia.
Qed.

Lemma EvE_ref : forall s mu C a i l k vs x mu1 mu2,
  EvE s mu C a (VList l, mu1) -> EvE s mu1 C i (VNum (num_of_Z (Z.of_nat k)), mu2) ->
  store_get mu2 l = Some vs -> nth_error vs k = Some x ->
  EvE s mu C (ERef a i) (x, mu2).
Proof.
  intros s mu C a i l k vs x mu1 mu2 [Ma Ha] [Mi Hi] Hg Hn. fuel (Nat.max Ma Mi).
  rewrite eval_S. unfold eval_body. rewrite (Ha M ltac:(lia)). cbn [rbind].
  rewrite (Hi M ltac:(lia)). cbn [rbind]. unfold cvt_index, cvt_int. rewrite num_to_Z_of_Z. cbn [rbind].
  destruct (Z.ltb_spec (Z.of_nat k) 0); [lia|]. cbn [rbind as_list]. rewrite Hg. cbn [rbind].
  rewrite Nat2Z.id. unfold list_nth. rewrite Hn. reflexivity.
Qed.

Lemma EvE_range3 : forall s mu C a b c x y z mu1 mu2 mu3 vs,
  EvE s mu C a (VNum (num_of_Z x), mu1) -> EvE s mu1 C b (VNum (num_of_Z y), mu2) ->
  EvE s mu2 C c (VNum (num_of_Z z), mu3) -> range_list x y z = ROk vs ->
  EvE s mu C (ERange3 a b c) (VList (List.length mu3), mu3 ++ [vs]).
Proof.
  intros s mu C a b c x y z mu1 mu2 mu3 vs [Ma Ha] [Mb Hb] [Mc Hc] Hr. fuel (Nat.max Ma (Nat.max Mb Mc)).
  rewrite eval_S. unfold eval_body. rewrite (Ha M ltac:(lia)). cbn [rbind].
  rewrite (Hb M ltac:(lia)). cbn [rbind]. rewrite (Hc M ltac:(lia)). cbn [rbind].
  unfold range_arg. rewrite !num_to_Z_of_Z. cbn [rbind]. rewrite Hr. reflexivity.
Qed.

(* ---------------------------------------------------------------- blocks *)
Lemma EvB_nil : forall s mu C, EvB s mu C [] (ONormal s, mu).
Proof. intros. fuel O. reflexivity. Qed.

Lemma EvB_cons : forall s mu C st r s1 mu1 res,
  EvS s mu C st (ONormal s1, mu1) -> EvB s1 mu1 C r res -> EvB s mu C (st :: r) res.
Proof.
  intros s mu C st r s1 mu1 res [Ms Hs] [Mb Hb]. fuel (Nat.max Ms Mb).
  rewrite exec_block_S. unfold exec_block_body. rewrite (Hs M ltac:(lia)). cbn [rbind]. apply Hb. lia.
Qed.

Lemma EvB_cons_ret : forall s mu C st r v mu1,
  EvS s mu C st (OReturn v, mu1) -> EvB s mu C (st :: r) (OReturn v, mu1).
Proof.
  intros s mu C st r v mu1 [Ms Hs]. fuel Ms.
  rewrite exec_block_S. unfold exec_block_body. rewrite (Hs M ltac:(lia)). reflexivity.
Qed.

Lemma EvS_of_EvB1 : forall s mu C st res, EvB s mu C [st] res -> EvS s mu C st res.
Proof.
  intros s mu C st res [Mb Hb]. exists (S Mb). intros M HM.
  specialize (Hb (S M) ltac:(lia)). rewrite exec_block_S in Hb. unfold exec_block_body in Hb.
  destruct (exec N P M s mu C st) as [[o mu1]| |]; cbn [rbind] in Hb; try discriminate.
  destruct o as [s1|v]; [|exact Hb].
  destruct M as [|M]; [lia|]. rewrite exec_block_S in Hb. exact Hb.
Qed.

Lemma EvB_app : forall b1 s mu C b2 s1 mu1 res,
  EvB s mu C b1 (ONormal s1, mu1) -> EvB s1 mu1 C b2 res -> EvB s mu C (b1 ++ b2) res.
Proof.
  induction b1 as [|st r IH]; intros s mu C b2 s1 mu1 res H1 H2.
  - destruct H1 as [M1 H1]. specialize (H1 (S M1) ltac:(lia)). rewrite exec_block_S in H1. cbn in H1.
    inversion H1; subst. exact H2.
  - cbn [app]. destruct H1 as [M1 H1].
    assert (Hst : exists o mu', EvS s mu C st (o, mu') /\
              match o with ONormal s' => EvB s' mu' C r (ONormal s1, mu1) | OReturn _ => False end).
    { pose proof (H1 (S M1) ltac:(lia)) as E. rewrite exec_block_S in E. unfold exec_block_body in E.
      destruct (exec N P M1 s mu C st) as [[o mu']| |] eqn:Es; cbn [rbind] in E; try discriminate.
      exists o, mu'. split.
      - exists M1. intros. eapply exec_mono_ok; eauto.
      - destruct o as [s'|v]; [|discriminate].
        exists (S M1). intros M HM. destruct M as [|M]; [lia|].
        specialize (H1 (S (S M)) ltac:(lia)). rewrite exec_block_S in H1. unfold exec_block_body in H1.
        rewrite (exec_mono_ok N P _ (S M) _ _ _ _ _ Es ltac:(lia)) in H1. cbn [rbind] in H1. exact H1. }
    destruct Hst as (o & mu' & Hs & Hr). destruct o as [s'|v]; [|contradiction].
    eapply EvB_cons; [exact Hs|]. eapply IH; eauto.
Qed.

Lemma EvB_app_ret : forall b1 s mu C b2 v mu1,
  EvB s mu C b1 (OReturn v, mu1) -> EvB s mu C (b1 ++ b2) (OReturn v, mu1).
Proof.
  induction b1 as [|st r IH]; intros s mu C b2 v mu1 H1.
  - destruct H1 as [M1 H1]. specialize (H1 (S M1) ltac:(lia)). rewrite exec_block_S in H1. discriminate.
  - cbn [app]. destruct H1 as [M1 H1].
    pose proof (H1 (S M1) ltac:(lia)) as E. rewrite exec_block_S in E. unfold exec_block_body in E.
    destruct (exec N P M1 s mu C st) as [[o mu']| |] eqn:Es; cbn [rbind] in E; try discriminate.
    assert (Hs : EvS s mu C st (o, mu')) by (exists M1; intros; eapply exec_mono_ok; eauto).
    destruct o as [s'|v'].
    + eapply EvB_cons; [exact Hs|]. apply IH.
      exists (S M1). intros M HM. destruct M as [|M]; [lia|].
      specialize (H1 (S (S M)) ltac:(lia)). rewrite exec_block_S in H1. unfold exec_block_body in H1.
      rewrite (exec_mono_ok N P _ (S M) _ _ _ _ _ Es ltac:(lia)) in H1. cbn [rbind] in H1. exact H1.
    + inversion E; subst. apply EvB_cons_ret. exact Hs.
Qed.

(* ---------------------------------------------------------------- statements *)
Lemma EvS_assign : forall s mu C p e v mu1 s1,
  EvE s mu C e (v, mu1) -> bind_pat p v s = Ok s1 -> EvS s mu C (SAssign p e) (ONormal s1, mu1).
Proof.
  intros s mu C p e v mu1 s1 [Me He] Hb. fuel Me.
  rewrite exec_S. unfold exec_body. rewrite (He M ltac:(lia)). cbn [rbind]. rewrite Hb. reflexivity.
Qed.

Lemma EvS_assign_var : forall s mu C x e v mu1,
  EvE s mu C e (v, mu1) -> EvS s mu C (SAssign (PVar x) e) (ONormal (env_set s x v), mu1).
Proof. intros. eapply EvS_assign; eauto. Qed.

Lemma EvS_context : forall s mu C e C' body res mu1,
  EvE s mu CReal e (VCtx C', mu1) -> EvB s mu1 C' body res -> EvS s mu C (SContext None e body) res.
Proof.
  intros s mu C e C' body res mu1 [Me He] [Mb Hb]. fuel (Nat.max Me Mb).
  rewrite exec_S. unfold exec_body. rewrite (He M ltac:(lia)). cbn [rbind]. apply Hb. lia.
Qed.

Lemma EvS_for : forall s mu C p it body v mu1 l vs res,
  EvE s mu C it (v, mu1) -> as_list mu1 v = ROk (l, vs) -> EvF s mu1 C p l O body res ->
  EvS s mu C (SFor p it body) res.
Proof.
  intros s mu C p it body v mu1 l vs res [Me He] Hl [Mf Hf]. fuel (Nat.max Me Mf).
  rewrite exec_S. unfold exec_body. rewrite (He M ltac:(lia)). cbn [rbind]. rewrite Hl. cbn [rbind].
  apply Hf. lia.
Qed.

Lemma EvS_assert : forall s mu C e mu1,
  EvE s mu C e (VBool true, mu1) -> EvS s mu C (SAssert e) (ONormal s, mu1).
Proof.
  intros s mu C e mu1 [Me He]. fuel Me.
  rewrite exec_S. unfold exec_body. rewrite (He M ltac:(lia)). reflexivity.
Qed.

(* ---------------------------------------------------------------- for loops *)
Lemma EvF_done : forall s mu C p l i body vs,
  store_get mu l = Some vs -> nth_error vs i = None -> EvF s mu C p l i body (ONormal s, mu).
Proof.
  intros. fuel O. rewrite for_loop_S. unfold for_loop_body. rewrite H, H0. reflexivity.
Qed.

Lemma EvF_step : forall s mu C p l i body vs x s1 s2 mu1 res,
  store_get mu l = Some vs -> nth_error vs i = Some x -> bind_pat p x s = Ok s1 ->
  EvB s1 mu C body (ONormal s2, mu1) -> EvF s2 mu1 C p l (S i) body res ->
  EvF s mu C p l i body res.
Proof.
  intros s mu C p l i body vs x s1 s2 mu1 res Hg Hn Hb [Mb HB] [Mf HF]. fuel (Nat.max Mb Mf).
  rewrite for_loop_S. unfold for_loop_body. rewrite Hg, Hn, Hb. cbn [lift rbind].
  rewrite (HB M ltac:(lia)). cbn [rbind]. apply HF. lia.
Qed.

Lemma EvF_step_ret : forall s mu C p l i body vs x s1 v mu1,
  store_get mu l = Some vs -> nth_error vs i = Some x -> bind_pat p x s = Ok s1 ->
  EvB s1 mu C body (OReturn v, mu1) -> EvF s mu C p l i body (OReturn v, mu1).
Proof.
  intros s mu C p l i body vs x s1 v mu1 Hg Hn Hb [Mb HB]. fuel Mb.
  rewrite for_loop_S. unfold for_loop_body. rewrite Hg, Hn, Hb. cbn [lift rbind].
  rewrite (HB M ltac:(lia)). reflexivity.
Qed.

(* the original for loop, inverted one step *)
Lemma for_loop_inv : forall n s mu C p l i body o mu_f,
  for_loop N P n s mu C p l i body = ROk (o, mu_f) ->
  exists vs, store_get mu l = Some vs /\
    match nth_error vs i with
    | None => o = ONormal s /\ mu_f = mu
    | Some x =>
        exists s1 o1 mu1, bind_pat p x s = Ok s1 /\ EvB s1 mu C body (o1, mu1) /\
          match o1 with
          | OReturn v => o = OReturn v /\ mu_f = mu1
          | ONormal s2 => for_loop N P n s2 mu1 C p l (S i) body = ROk (o, mu_f)
          end
    end.
Proof.
  intros n s mu C p l i body o mu_f H. destruct n as [|n]; [discriminate|].
  rewrite for_loop_S in H. unfold for_loop_body in H.
  destruct (store_get mu l) as [vs|]; [|discriminate]. exists vs. split; [reflexivity|].
  destruct (nth_error vs i) as [x|]; [|inversion H; auto].
  destruct (bind_pat p x s) as [s1|]; cbn [lift rbind] in H; [|discriminate].
  destruct (exec_block N P n s1 mu C body) as [[o1 mu1]| |] eqn:Eb; cbn [rbind] in H; try discriminate.
  exists s1, o1, mu1. split; [reflexivity|]. split; [eapply EvB_of; eauto|].
  destruct o1 as [s2|v]; [|inversion H; auto].
  eapply for_loop_mono_ok; eauto.
Qed.

End BigStep.
