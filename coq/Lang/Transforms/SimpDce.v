(* C07: dead-code elimination (transform/dead_code.py over analysis/define_use.py,
   reaching_defs.py, purity.py) and its validator.  Definitions only.

   Part 1  the def-use analysis of the structured core as coded: SSA-style
           definitions (assignments and phis), the definition reaching every
           use, which definitions feed a phi.
   Part 2  Purity.analyze_expr / Purity.analyze as coded.
   Part 3  _DeadCodeEliminate / _Eliminator as coded, iterated until nothing is
           eliminated:  dce fx = the pass;  dce fx_as_coded = AS CODED (now), dce fx_unrepaired = before the repairs.
           The switches of `fixes` turn the known defects off one at a time:
             fix_phi    operands of an unused phi are deleted only if they are
                        themselves unused, feed no other phi and are pure
             fix_alias  an indexed assignment in a callee makes it impure unless
                        the list is provably allocated in the callee
             fix_loop   an indexed assignment reached by a phi of an argument
                        also makes the callee impure (part of fix_alias' rule)
             fix_for    reaching_defs merges the loop target after a `for`
             fix_ret    _visit_block drops what follows a statement that always returns
   Part 4  the validator `vdce` (liveness on the lock-step walk of (p, p')),
           `noeffect`, and the checked pass `dce_checked`. *)
From Coq Require Import ZArith List Bool String.
From FpyV Require Import Num.RealFloat Num.Float Num.CtxDef Lang.Syntax Lang.Values Lang.Sem.
From FpyV Require Import Lang.Transforms.SimpDefs.
Import ListNotations.
Open Scope Z_scope.

Record fixes := Fixes { fix_phi : bool; fix_alias : bool; fix_for : bool; fix_ret : bool }.
(* the code before the repairs 1bc6253 (for target), 1107ce1 (phi operands), b7a6cfa (unreachable
   statements after a return), bb63c4e (purity through an alias) were committed to /repo *)
Definition fx_unrepaired := Fixes false false false false.
(* the code as it is in /repo now: all four repairs in place *)
Definition fx_as_coded := Fixes true true true true.
Definition fx_all := Fixes true true true true.

(* ================================================================ Part 1: def-use *)
Inductive dkind :=
  | KArg                                   (* Argument *)
  | KAssignId (site : nat) (rhs : expr)    (* Assign with an Id target *)
  | KLeaf (site : nat)                     (* a NamedId leaf of a TupleBinding of an Assign *)
  | KCtx (site : nat)                      (* the `as x` of a with statement *)
  | KOther.                                (* IndexedAssign, for target *)

Inductive ddef :=
  | DA (x : ident) (k : dkind) (fresh : bool)     (* fresh: the value is a list allocated here *)
  | DP (x : ident) (lhs rhs : nat).

Definition dctx := list (ident * nat).

Fixpoint dget (c : dctx) (x : ident) : option nat :=
  match c with
  | [] => None
  | (y, d) :: r => if String.eqb x y then Some d else dget r x
  end.

Fixpoint dset (c : dctx) (x : ident) (d : nat) : dctx :=
  match c with
  | [] => [(x, d)]
  | (y, e) :: r => if String.eqb x y then (y, d) :: r else (y, e) :: dset r x d
  end.

Record dus := DUS {
  d_defs : list ddef;
  d_used : list nat;        (* definitions with at least one use *)
  d_phiop : list nat;       (* definitions that are an operand of some phi *)
  d_site : nat;             (* next statement number (pre-order) *)
  d_argmut : bool }.        (* Purity._visit_indexed_assign fired *)

Definition nmem (n : nat) (l : list nat) : bool := existsb (Nat.eqb n) l.

Definition add_def (U : dus) (d : ddef) : nat * dus :=
  (List.length (d_defs U), DUS (d_defs U ++ [d]) (d_used U) (d_phiop U) (d_site U) (d_argmut U)).

Definition mark_use (c : dctx) (U : dus) (x : ident) : dus :=
  match dget c x with
  | Some d => DUS (d_defs U) (d :: d_used U) (d_phiop U) (d_site U) (d_argmut U)
  | None => U
  end.

Definition mark_uses (c : dctx) (xs : vars) (U : dus) : dus := fold_left (mark_use c) xs U.

Definition add_phiops (U : dus) (l : list nat) : dus :=
  DUS (d_defs U) (d_used U) (l ++ d_phiop U) (d_site U) (d_argmut U).

Definition next_site (U : dus) : nat * dus :=
  (d_site U, DUS (d_defs U) (d_used U) (d_phiop U) (S (d_site U)) (d_argmut U)).

Definition set_argmut (U : dus) : dus := DUS (d_defs U) (d_used U) (d_phiop U) (d_site U) true.

Fixpoint list_upd {A} (l : list A) (i : nat) (v : A) : list A :=
  match l, i with
  | [], _ => []
  | _ :: r, O => v :: r
  | x :: r, S i' => x :: list_upd r i' v
  end.

Definition set_def (U : dus) (i : nat) (d : ddef) : dus :=
  DUS (list_upd (d_defs U) i d) (d_used U) (d_phiop U) (d_site U) (d_argmut U).

Definition allocating (e : expr) : bool :=
  match e with
  | EList _ | ESlice _ _ _ | EComp _ _ | ERange1 _ | ERange2 _ _ | ERange3 _ _ _
  | EZip _ | EEnumerate _ | EEmpty _ => true
  | _ => false
  end.

Definition def_fresh (U : dus) (d : nat) : bool :=
  match nth_error (d_defs U) d with
  | Some (DA _ _ f) => f
  | _ => false
  end.

(* bind every name of a pattern to a new definition *)
Definition def_names (xs : vars) (k : ident -> dkind) (fresh : bool) (c : dctx) (U : dus) : dctx * dus :=
  fold_left (fun cs x => let '(i, U1) := add_def (snd cs) (DA x (k x) fresh) in (dset (fst cs) x i, U1)) xs (c, U).

(* phis at a merge: for the names of `c` (or the common names) whose definitions differ *)
Definition merge_phis (names : vars) (c a b : dctx) (U : dus) : dctx * dus :=
  fold_left (fun cs x =>
    match dget a x, dget b x with
    | Some da, Some db =>
        if Nat.eqb da db then cs
        else let '(i, U1) := add_def (snd cs) (DP x da db) in (dset (fst cs) x i, add_phiops U1 [da; db])
    | _, _ => cs
    end) names (c, U).

Definition dnames (c : dctx) : vars := map fst c.

Section DU.
Variable fx : fixes.

(* loop-head phis for the names of c defined in the body; the right operand is patched later *)
Definition loop_phis (mut : vars) (c : dctx) (U : dus) : dctx * dus * list (ident * nat) :=
  fold_left (fun acc x =>
    let '(c1, U1, ps) := acc in
    match dget c x with
    | Some d => if vmem x (map fst ps) then acc
                else let '(i, U2) := add_def U1 (DP x d d) in (dset c1 x i, U2, (x, i) :: ps)
    | None => acc
    end) mut (c, U, []).

Definition patch_phis (ps : list (ident * nat)) (c_pre c_out : dctx) (U : dus) : dus :=
  fold_left (fun U xi =>
    match dget c_pre (fst xi), dget c_out (fst xi) with
    | Some d, Some o => add_phiops (set_def U (snd xi) (DP (fst xi) d o)) [d; o]
    | _, _ => U
    end) ps U.

Fixpoint du_stmt (c : dctx) (st : stmt) (U : dus) {struct st} : dctx * dus :=
  let blk := fix go (c : dctx) (b : list stmt) (U : dus) : dctx * dus :=
      match b with
      | [] => (c, U)
      | st :: r => let '(c1, U1) := du_stmt c st U in go c1 r U1
      end in
  let '(site, U) := next_site U in
  match st with
  | SAssign p e =>
      let U := mark_uses c (efv [] e) U in
      match p with
      | PVar x => def_names [x] (fun _ => KAssignId site e) (allocating e) c U
      | _ => def_names (pvars p) (fun _ => KLeaf site) false c U
      end
  | SIndexAssign x idx e =>
      let U := mark_uses c (x :: flat_map (efv []) idx ++ efv [] e) U in
      let U := match dget c x with
               | Some d =>
                   match nth_error (d_defs U) d with
                   | Some (DA _ KArg _) => set_argmut U
                   | Some (DA _ _ f) => if fix_alias fx && negb f then set_argmut U else U
                   | Some (DP _ _ _) => if fix_alias fx then set_argmut U else U
                   | None => U
                   end
               | None => U
               end in
      def_names [x] (fun _ => KOther)
        (match dget c x with Some d => def_fresh U d | None => false end) c U
  | SIf1 cnd body =>
      let U := mark_uses c (efv [] cnd) U in
      let '(cb, U) := blk c body U in
      merge_phis (dnames c) c c cb U
  | SIf cnd t f =>
      let U := mark_uses c (efv [] cnd) U in
      let '(ct, U) := blk c t U in
      let '(cf, U) := blk c f U in
      merge_phis (filter (fun x => vmem x (dnames cf)) (dnames ct)) c ct cf U
  | SWhile cnd body =>
      let '(ch, U, ps) := loop_phis (assigned_block body) c U in
      let U := mark_uses ch (efv [] cnd) U in
      let '(co, U) := blk ch body U in
      let U := patch_phis ps c co U in
      (fold_left (fun c1 xi => dset c1 (fst xi) (snd xi)) ps c, U)
  | SFor p it body =>
      let U := mark_uses c (efv [] it) U in
      let mut := (if fix_for fx then pvars p else []) ++ assigned_block body in
      let '(ch, U, ps) := loop_phis mut c U in
      let '(cb, U) := def_names (pvars p) (fun _ => KOther) false ch U in
      let '(co, U) := blk cb body U in
      let U := patch_phis ps c co U in
      (fold_left (fun c1 xi => dset c1 (fst xi) (snd xi)) ps c, U)
  | SContext x e body =>
      let U := mark_uses c (efv [] e) U in
      let '(c1, U) := def_names (ovar x) (fun _ => KCtx site) false c U in
      blk c1 body U
  | SAssert e | SEffect e | SReturn e => (c, mark_uses c (efv [] e) U)
  | SPass => (c, U)
  end.

Definition du_block : dctx -> block -> dus -> dctx * dus :=
  fix go (c : dctx) (b : list stmt) (U : dus) : dctx * dus :=
    match b with
    | [] => (c, U)
    | st :: r => let '(c1, U1) := du_stmt c st U in go c1 r U1
    end.

Definition du_func (params : list ident) (body : block) : dus :=
  let '(c, U) := def_names params (fun _ => KArg) false [] (DUS [] [] [] O false) in
  snd (du_block c body U).

(* ================================================================ Part 2: purity *)
(* Purity.analyze(callee): no indexed assignment whose reaching definition is an
   argument, no call of an impure function (k bounds the call depth) *)
Fixpoint fn_pure (k : nat) (P : program) (fn : func) {struct k} : bool :=
  match k with
  | O => false
  | S k' =>
      negb (d_argmut (du_func (f_params fn) (f_body fn))) &&
      block_all (fun e => match e with
                          | ECall g _ => match lookup_fn P g with Some gn => fn_pure k' P gn | None => false end
                          | _ => true
                          end) (f_body fn)
  end.

(* Purity.analyze_expr *)
Definition pure_ac (P : program) (e : expr) : bool :=
  expr_all (fun e => match e with
                     | ECall g _ => match lookup_fn P g with Some gn => fn_pure 20 P gn | None => false end
                     | _ => true
                     end) e.

(* ================================================================ Part 3: the eliminator *)
Definition is_unused (U : dus) (d : nat) : bool := negb (nmem d (d_used U)) && negb (nmem d (d_phiop U)).

Definition indices {A} (l : list A) : list nat := seq O (List.length l).

(* _DeadCodeEliminate.apply: the Assign sites to delete *)
Definition dead_sites (P : program) (U : dus) : list nat :=
  let ds := combine (indices (d_defs U)) (d_defs U) in
  let direct := flat_map (fun id =>
      match snd id with
      | DA _ (KAssignId site rhs) _ => if is_unused U (fst id) && pure_ac P rhs then [site] else []
      | _ => []
      end) ds in
  let via_phi := flat_map (fun id =>
      match snd id with
      | DP _ l r =>
          if is_unused U (fst id) then
            flat_map (fun o =>
              match nth_error (d_defs U) o with
              | Some (DA _ (KAssignId site rhs) _) =>
                  if fix_phi fx then
                    (* repaired: the operand itself has no use, feeds no other phi, pure right-hand side *)
                    if negb (nmem o (d_used U)) &&
                       Nat.eqb (List.length (filter (Nat.eqb o) (d_phiop U))) 1 && pure_ac P rhs
                    then [site] else []
                  else [site]
              | _ => []
              end) [l; r]
          else []
      | _ => []
      end) ds in
  direct ++ via_phi.

(* the definition introduced for name x at statement `site` *)
Definition def_at (U : dus) (site : nat) (x : ident) : option nat :=
  match find (fun id => match snd id with
                        | DA y (KLeaf s) _ | DA y (KCtx s) _ => Nat.eqb s site && String.eqb x y
                        | _ => false
                        end) (combine (indices (d_defs U)) (d_defs U)) with
  | Some id => Some (fst id)
  | None => None
  end.

Definition leaf_live (U : dus) (site : nat) (x : ident) : bool :=
  match def_at U site x with
  | Some d => nmem d (d_used U) || nmem d (d_phiop U)
  | None => true
  end.

Fixpoint scrub (U : dus) (site : nat) (p : pat) : pat :=
  match p with
  | PVar x => if leaf_live U site x then PVar x else PWild
  | PWild => PWild
  | PTuple ps => PTuple (map (scrub U site) ps)
  end.

Fixpoint all_wild (p : pat) : bool :=
  match p with
  | PVar _ => false
  | PWild => true
  | PTuple ps => forallb all_wild ps
  end.

(* number of statements (= sites) in a block *)
Fixpoint nsites (st : stmt) : nat :=
  match st with
  | SIf1 _ b | SWhile _ b | SFor _ _ b | SContext _ _ b => S (fold_right (fun s n => nsites s + n)%nat O b)
  | SIf _ t f => S (fold_right (fun s n => nsites s + n)%nat O t + fold_right (fun s n => nsites s + n)%nat O f)
  | _ => 1%nat
  end.
Definition nsites_block (b : block) : nat := fold_right (fun s n => nsites s + n)%nat O b.

Definition is_empty_block (b : block) : bool := match b with [SPass] => true | _ => false end.

(* _Eliminator._always_returns *)
Fixpoint always_returns (st : stmt) : bool :=
  let lastr := fix lastr (l : list stmt) : bool :=
      match l with
      | [] => false
      | x :: r => match r with [] => always_returns x | _ => lastr r end
      end in
  match st with
  | SReturn _ => true
  | SContext _ _ b => lastr b
  | SIf _ t f => lastr t && lastr f
  | _ => false
  end.

(* the prefix up to and including the first statement that always returns *)
Fixpoint cut_ret (l : list stmt) : option (list stmt) :=
  match l with
  | [] => None
  | x :: r => if always_returns x then Some [x]
              else match cut_ret r with Some p => Some (x :: p) | None => None end
  end.

Section Elim.
Variable P : program.
Variable U : dus.
Variable dead : list nat.

(* _Eliminator._visit_statement: the replacement statements, whether anything was eliminated *)
Fixpoint el_stmt (site : nat) (st : stmt) {struct st} : list stmt * bool :=
  let blk := fix go (site : nat) (b : list stmt) (acc : list stmt) : list stmt * bool :=
      match b with
      | [] => (acc, false)
      | st :: r =>
          let '(o1, e1) := el_stmt site st in
          let acc' := acc ++ o1 in
          match (if fix_ret fx then cut_ret acc' else None) with
          | Some pre =>
              (pre, e1 || Nat.ltb (List.length pre) (List.length acc') || negb (match r with [] => true | _ => false end))
          | None => let '(o2, e2) := go (site + nsites st)%nat r acc' in (o2, e1 || e2)
          end
      end in
  (* _visit_block: `pass` alone is left as it is; an emptied block gets a `pass` *)
  let vblock := fun (site : nat) (b : list stmt) =>
      if is_empty_block b then (b, false)
      else let '(o, e) := blk site b [] in ((match o with [] => [SPass] | _ => o end), e) in
  match st with
  | SAssign p e =>
      if nmem site dead then ([], true)
      else match p, e with
           | PVar x, EVar y => if String.eqb x y then ([], true) else ([st], false)
           | PTuple _, _ =>
               let p' := scrub U site p in
               if all_wild p' && pure_ac P e then ([], true)
               else if pat_eqb p p' then ([st], false) else ([SAssign p' e], true)
           | _, _ => ([st], false)
           end
  | SIndexAssign _ _ _ => ([st], false)
  | SIf1 c body =>
      match c with
      | EBool true => (fst (vblock (S site) body), true)
      | EBool false => ([], true)
      | _ =>
          if is_empty_block body && pure_ac P c then ([], true)
          else let '(b', e) := vblock (S site) body in ([SIf1 c b'], e)
      end
  | SIf c t f =>
      match c with
      | EBool true => (fst (vblock (S site) t), true)
      | EBool false => (fst (vblock (S site + nsites_block t)%nat f), true)
      | _ =>
          if is_empty_block t && is_empty_block f && pure_ac P c then ([], true)
          else if is_empty_block t && pure_ac P c then ([SIf1 (ENot c) f], true)
          else if is_empty_block f && pure_ac P c then ([SIf1 c t], true)
          else let '(t', e1) := vblock (S site) t in
               let '(f', e2) := vblock (S site + nsites_block t)%nat f in
               ([SIf c t' f'], e1 || e2)
      end
  | SWhile c body =>
      match c with
      | EBool false => ([], true)
      | _ => let '(b', e) := vblock (S site) body in ([SWhile c b'], e)
      end
  | SFor p it body =>
      let '(b', e) := vblock (S site) body in ([SFor p it b'], e)
  | SContext x e body =>
      let '(b', el) := vblock (S site) body in
      let unused := match x with
                    | Some x => match def_at U site x with
                                | Some d => negb (nmem d (d_used U))
                                | None => false
                                end
                    | None => false
                    end in
      if unused then
        match b' with
        | [SPass] => ([], true)
        | [SContext x2 e2 b2] => ([SContext x2 e2 b2], true)
        | _ => ([SContext x e b'], el)
        end
      else ([SContext x e b'], el)
  | SAssert (EBool true) => ([], true)
  | SAssert _ => ([st], false)
  | SEffect e => if pure_ac P e then ([], true) else ([st], false)
  | SReturn _ => ([st], false)
  | SPass => ([], true)
  end.

Definition el_block (b : block) : block * bool :=
  if is_empty_block b then (b, false)
  else
    let '(o, e) :=
      (fix go (site : nat) (b : list stmt) (acc : list stmt) : list stmt * bool :=
         match b with
         | [] => (acc, false)
         | st :: r =>
             let '(o1, e1) := el_stmt site st in
             let acc' := acc ++ o1 in
             match (if fix_ret fx then cut_ret acc' else None) with
             | Some pre =>
                 (pre, e1 || Nat.ltb (List.length pre) (List.length acc') || negb (match r with [] => true | _ => false end))
             | None => let '(o2, e2) := go (site + nsites st)%nat r acc' in (o2, e1 || e2)
             end
         end) O b [] in
    ((match o with [] => [SPass] | _ => o end), e).
End Elim.

(* one iteration of _DeadCodeEliminate.apply's loop *)
Definition dce_round (P : program) (params : list ident) (b : block) : block * bool :=
  let U := du_func params b in
  el_block P U (dead_sites P U) b.

Fixpoint dce_iter (k : nat) (P : program) (params : list ident) (b : block) : block :=
  match k with
  | O => b
  | S k' => let '(b', e) := dce_round P params b in if e then dce_iter k' P params b' else b'
  end.

Definition dce (P : program) (fn : func) : block := dce_iter 40 P (f_params fn) (f_body fn).
End DU.

Definition dce_as_coded := dce fx_as_coded.
Definition dce_unrepaired := dce fx_unrepaired.
Definition dce_fixed := dce fx_all.

(* ================================================================ Part 4: the validator *)
(* a statement whose execution, when it terminates normally, cannot return,
   cannot touch the store, and rebinds `bound st` only *)
Fixpoint noeffect (st : stmt) : bool :=
  match st with
  | SAssign _ e => pure_na e
  | SIndexAssign _ _ _ => false
  | SIf1 c b => pure_na c && forallb noeffect b
  | SIf c t f => pure_na c && forallb noeffect t && forallb noeffect f
  | SWhile c b => pure_na c && forallb noeffect b
  | SFor _ it b => pure_na it && forallb noeffect b
  | SContext _ e b => pure_na e && forallb noeffect b
  | SAssert e | SEffect e => pure_na e
  | SReturn _ => false
  | SPass => true
  end.

Definition orelse {A} (a b : option A) : option A := match a with Some _ => a | None => b end.

(* p' is p with dead leaves (not in L) replaced by `_` *)
Fixpoint pat_scrub_ok (L : vars) (p p' : pat) {struct p} : bool :=
  match p, p' with
  | PVar x, PVar y => String.eqb x y
  | PVar x, PWild => negb (vmem x L)
  | PWild, PWild => true
  | PTuple ps, PTuple qs =>
      (fix go (l m : list pat) : bool :=
         match l, m with
         | [], [] => true
         | a :: l', b :: m' => pat_scrub_ok L a b && go l' m'
         | _, _ => false
         end) ps qs
  | _, _ => false
  end.

(* iterate the loop-head live set: L0, L0 ++ f L0, ... until closed *)
Fixpoint close_live (k : nat) (f : vars -> option vars) (L : vars) : option vars :=
  match k with
  | O => None
  | S k' =>
      match f L with
      | Some Lb => if vincl Lb L then Some L else close_live k' f (Lb ++ L)
      | None => None
      end
  end.

(* vd d Lout b b' = Some Lin: b' is b with dead code removed, given that the
   names Lout are live after the block; Lin are the names live before it *)
Fixpoint vd (d : nat) (Lout : vars) (b b' : block) {struct d} : option vars :=
  match d with
  | O => None
  | S d' =>
    let skip_pass :=
      match b' with
      | SPass :: r' => vd d' Lout b r'
      | _ => None
      end in
    match b with
    | [] => match b' with [] => Some Lout | _ => skip_pass end
    | st :: r =>
        let dropped :=
          if noeffect st then
            match vd d' Lout r b' with
            | Some L => if vdisj (bound st) L then Some L else None
            | None => None
            end
          else None in
        let spliced :=
          match st with
          | SIf1 (EBool true) body => vd d' Lout (body ++ r) b'
          | SIf1 (EBool false) _ => vd d' Lout r b'
          | SIf (EBool true) t _ => vd d' Lout (t ++ r) b'
          | SIf (EBool false) _ f => vd d' Lout (f ++ r) b'
          | SWhile (EBool false) _ => vd d' Lout r b'
          | _ => None
          end in
        let kept :=
          match b' with
          | st' :: r' =>
              if negb (same_head st st') then None else
              match vd d' Lout r r' with
              | Some L1 => vk d' L1 st st'
              | None => None
              end
          | [] => None
          end in
        orelse kept (orelse dropped (orelse spliced skip_pass))
    end
  end

(* the statement is kept: st' is st with dead code removed inside *)
with vk (d : nat) (L1 : vars) (st st' : stmt) {struct d} : option vars :=
  match d with
  | O => None
  | S d' =>
    match st, st' with
    | SAssign p e, SAssign p' e' =>
        if expr_eqb e e' && pat_scrub_ok L1 p p' then Some (vdiff L1 (pvars p') ++ efv [] e) else None
    | SIndexAssign x idx e, SIndexAssign x' idx' e' =>
        if String.eqb x x' && vexprs no_leaf no_kb [] idx idx' && expr_eqb e e'
        then Some (x :: flat_map (efv []) idx ++ efv [] e ++ L1) else None
    | SIf1 c body, SIf1 c' body' =>
        if expr_eqb c c' then
          match vd d' L1 body body' with
          | Some Lb => Some (efv [] c ++ Lb ++ L1)
          | None => None
          end
        else None
    | SIf c t f, SIf c' t' f' =>
        if expr_eqb c c' then
          match vd d' L1 t t', vd d' L1 f f' with
          | Some Ltr, Some Lf => Some (efv [] c ++ Ltr ++ Lf)
          | _, _ => None
          end
        else None
    | SIf c t f, SIf1 (ENot c') f' =>
        (* if c: <nothing> else: f   ==>   if not c: f *)
        if expr_eqb c c' && pure_na c && forallb noeffect t && vdisj (bound_block t) L1 then
          match vd d' L1 f f' with
          | Some Lf => Some (efv [] c ++ Lf ++ L1)
          | None => None
          end
        else
          (* (c itself may be a negation) if c: t else: <nothing>  ==>  if c: t *)
          if expr_eqb c (ENot c') && forallb noeffect f && vdisj (bound_block f) L1 then
            match vd d' L1 t f' with
            | Some Ltr => Some (efv [] c ++ Ltr ++ L1)
            | None => None
            end
          else None
    | SIf c t f, SIf1 c' t' =>
        if expr_eqb c c' && forallb noeffect f && vdisj (bound_block f) L1 then
          match vd d' L1 t t' with
          | Some Ltr => Some (efv [] c ++ Ltr ++ L1)
          | None => None
          end
        else None
    | SWhile c body, SWhile c' body' =>
        if expr_eqb c c' then
          match close_live d' (fun L => vd d' L body body') (efv [] c ++ L1) with
          | Some Lh =>
              (* re-check what the proof uses *)
              match vd d' Lh body body' with
              | Some Lb => if vincl Lb Lh && vincl L1 Lh && vincl (efv [] c) Lh then Some Lh else None
              | None => None
              end
          | None => None
          end
        else None
    | SFor p it body, SFor p' it' body' =>
        if pat_eqb p p' && expr_eqb it it' then
          match close_live d' (fun L => match vd d' L body body' with
                                        | Some Lb => Some (vdiff Lb (pvars p))
                                        | None => None
                                        end) L1 with
          | Some Lh =>
              match vd d' Lh body body' with
              | Some Lb => if vincl (vdiff Lb (pvars p)) Lh && vincl L1 Lh then Some (efv [] it ++ Lh) else None
              | None => None
              end
          | None => None
          end
        else None
    | SContext x e body, SContext x' e' body' =>
        if oident_eqb x x' && expr_eqb e e' then
          match vd d' L1 body body' with
          | Some Lb => Some (efv [] e ++ vdiff Lb (ovar x))
          | None => None
          end
        else None
    | SAssert e, SAssert e' => if expr_eqb e e' then Some (efv [] e ++ L1) else None
    | SEffect e, SEffect e' => if expr_eqb e e' then Some (efv [] e ++ L1) else None
    | SReturn e, SReturn e' => if expr_eqb e e' then Some (efv [] e) else None
    | SPass, SPass => Some L1
    | _, _ => None
    end
  end.

Definition validate_dce (d : nat) (fn fn' : func) : bool :=
  idents_eqb (f_params fn) (f_params fn') && octx_eqb (f_ctx fn) (f_ctx fn') &&
  match vd d [] (f_body fn) (f_body fn') with Some _ => true | None => false end.

(* the pass that the soundness theorem is about: the repaired pass, its result
   re-checked by the verified validator (identity when rejected) *)
Definition dce_checked (d : nat) (P : program) (fn : func) : block :=
  let b' := dce_fixed P fn in
  if validate_dce d fn (with_body fn b') then b' else f_body fn.
