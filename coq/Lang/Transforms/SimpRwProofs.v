(* C07: soundness of the validator of expression rewriting (SimpRw.v: vrw, vrwb,
   vrw_func), which covers CopyPropagate and ConstFold results. *)
From Coq Require Import ZArith List Bool String Lia.
From FpyV Require Import Num.RealFloat Num.Float Num.CtxDef Lang.Syntax Lang.Values Lang.Sem Lang.SemMono.
From FpyV Require Import Lang.Transforms.SimpDefs Lang.Transforms.SimpRw Lang.Transforms.SimpBaseProofs
  Lang.Transforms.SimpEqProofs Lang.Transforms.SimpEvalProofs Lang.Transforms.SimpVexprProofs.
Import ListNotations.
Open Scope Z_scope.

Section RW.
Variable N : numops.
Variable P : program.
Variable K : nat.
Variable claim_ok : claim -> bool.
Variable guess_ctx : facts -> expr -> option ctx.
Hypothesis HK1 : (1 <= K)%nat.

Definition ctx_ok (oc : option ctx) (C : ctx) : Prop := match oc with Some c => C = c | None => True end.

(* the meaning of an accepted claim: under the literal facts and the known
   context, the expression evaluates to the very value of the literal and
   leaves the store alone *)
Definition claim_valid (cl : claim) : Prop :=
  forall n mu C r, ctx_ok (cl_ctx cl) C ->
    eval N P n (env_of_facts (cl_env cl)) mu C (cl_e cl) = ROk r ->
    exists v, lit_val (cl_lit cl) = Some v /\ r = (v, mu).

Hypothesis claim_sound : forall cl, claim_ok cl = true -> claim_valid cl.

(* ---------------------------------------------------------------- literals *)
Lemma lit_eval_aux : forall n m, (m <= n)%nat -> forall l v s mu C, lit_val l = Some v -> (lit_depth l <= m)%nat ->
  eval N P m s mu C l = ROk (v, mu).
Proof.
  induction n as [|n IH]; intros m Hmn l v s mu C Hl Hd.
  - destruct l; cbn in Hd; lia.
  - destruct m as [|m]; [destruct l; cbn in Hd; lia|].
    rewrite eval_S. unfold eval_body. destruct l; cbn [lit_val] in Hl; try discriminate.
    + inversion Hl; reflexivity.
    + destruct (d =? 0); [discriminate|]. inversion Hl; reflexivity.
    + inversion Hl; reflexivity.
    + inversion Hl; reflexivity.
    + (* ETuple *)
      cbn [lit_depth] in Hd.
      match type of Hl with context [match ?g es with _ => _ end] => destruct (g es) as [vs|] eqn:G end; [|discriminate].
      inversion Hl; subst v. clear Hl.
      assert (X : forall k es vs mu, (fold_right (fun x m => Nat.max (lit_depth x) m) O es + List.length es + 1 <= k)%nat -> (k <= n)%nat ->
        (fix go (l : list expr) : option (list value) :=
           match l with
           | [] => Some []
           | x :: r => match lit_val x, go r with Some v, Some vs => Some (v :: vs) | _, _ => None end
           end) es = Some vs ->
        evals N P k s mu C es = ROk (vs, mu)).
      { induction k as [|k IHk]; intros es0 vs0 mu0 Hk Hkn G0.
        - lia.
        - rewrite evals_S. unfold evals_body. destruct es0 as [|e0 es0].
          + inversion G0; reflexivity.
          + destruct (lit_val e0) as [v0|] eqn:L0; [|discriminate].
            match type of G0 with context [match ?g es0 with _ => _ end] => destruct (g es0) as [vs1|] eqn:G1 end; [|discriminate].
            inversion G0; subst vs0. cbn [fold_right List.length] in Hk.
            rewrite (IH k ltac:(lia) e0 v0 s mu0 C L0) by lia. cbn [rbind].
            rewrite (IHk es0 vs1 mu0) by (try lia; exact G1). reflexivity. }
      rewrite (X m es vs mu) by (try lia; exact G). reflexivity.
Qed.

Lemma lit_eval : forall n l v s mu C, lit_val l = Some v -> (lit_depth l <= n)%nat ->
  eval N P n s mu C l = ROk (v, mu).
Proof. intros. eapply lit_eval_aux; eauto. Qed.


(* a literal evaluates to lit_val and touches nothing (by induction on the fuel) *)
Lemma is_lit_eval : forall n e s mu C v mu1, is_lit e = true -> eval N P n s mu C e = ROk (v, mu1) ->
  lit_val e = Some v /\ mu1 = mu.
Proof.
  induction n as [|n IH]; intros e s mu C v mu1 Hl H; [discriminate|].
  rewrite eval_S in H. unfold eval_body in H. destruct e; cbn [is_lit] in Hl; try discriminate.
  - inversion H; subst. split; reflexivity.
  - cbn [lit_val]. apply negb_true_iff in Hl. rewrite Hl in *. inversion H; subst. split; reflexivity.
  - inversion H; subst. split; reflexivity.
  - inversion H; subst. split; reflexivity.
  - destruct (rbind_ok _ _ _ _ _ H) as ([vs m] & E & H'). inversion H'; subst. clear H H'.
    assert (X : forall k es vs mu m, (k <= n)%nat -> forallb is_lit es = true -> evals N P k s mu C es = ROk (vs, m) ->
      (fix go (l : list expr) : option (list value) :=
         match l with
         | [] => Some []
         | x :: r => match lit_val x, go r with Some v, Some vs => Some (v :: vs) | _, _ => None end
         end) es = Some vs /\ m = mu).
    { induction k as [|k IHk]; intros es0 vs0 mu0 m0 Hk Hl0 E0; [discriminate|].
      rewrite evals_S in E0. unfold evals_body in E0. destruct es0 as [|e0 es0].
      - inversion E0; subst. split; reflexivity.
      - cbn [forallb] in Hl0. apply andb_prop in Hl0. destruct Hl0 as [L0 L1].
        destruct (rbind_ok _ _ _ _ _ E0) as ([v0 m1] & E1 & E2).
        destruct (rbind_ok _ _ _ _ _ E2) as ([vs1 m2] & E3 & E4). inversion E4; subst.
        assert (E1' : eval N P n s mu0 C e0 = ROk (v0, m1)) by (eapply eval_mono_ok; [exact E1 | lia]).
        destruct (IH _ _ _ _ _ _ L0 E1') as [Lv ->].
        destruct (IHk es0 vs1 mu0 m0 ltac:(lia) L1 E3) as [Lvs ->].
        rewrite Lv, Lvs. split; reflexivity. }
    destruct (X n es vs mu mu1 (le_n _) Hl E) as [G ->]. cbn [lit_val]. rewrite G. split; reflexivity.
Qed.

(* ---------------------------------------------------------------- facts *)
Definition sval (s : env) (e : expr) : option value :=
  match e with EVar y => env_get s y | _ => lit_val e end.

Definition fact_ok (s : env) (xe : fact) : Prop :=
  simple (snd xe) = true /\ (lit_depth (snd xe) <= K)%nat /\
  exists v, env_get s (fst xe) = Some v /\ sval s (snd xe) = Some v.

Definition Inv (E : facts) (s : env) : Prop := forall xe, In xe E -> fact_ok s xe.

Lemma sval_keeps : forall e W s s', keeps W s s' -> vdisj (evars e) W = true -> sval s' e = sval s e.
Proof.
  intros e W s s' Hk Hd. destruct e; try reflexivity.
  cbn [sval]. apply Hk. cbn [evars] in Hd. eapply vdisj_spec in Hd; [exact Hd | left; reflexivity].
Qed.

Lemma Inv_kill : forall E W s s', Inv E s -> keeps W s s' -> Inv (kill W E) s'.
Proof.
  intros E W s s' HI Hk [x e] Hin. unfold kill in Hin. apply filter_In in Hin. destruct Hin as [Hin Hf].
  cbn [fst snd] in Hf. apply andb_prop in Hf. destruct Hf as [Hx He].
  apply negb_true_iff in Hx. apply vmem_false in Hx.
  destruct (HI _ Hin) as (S1 & S2 & v & G1 & G2). cbn [fst snd] in *.
  unfold fact_ok. cbn [fst snd]. split; [exact S1|]. split; [exact S2|]. exists v. split.
  - rewrite (Hk x Hx). exact G1.
  - rewrite (sval_keeps e W s s' Hk He). exact G2.
Qed.

Lemma Inv_weaken : forall E W s, Inv E s -> Inv (kill W E) s.
Proof. intros. eapply Inv_kill; [eassumption | apply keeps_refl]. Qed.

(* facts that mention no name of W survive any change within W' <= W *)
Lemma Inv_kill_stable : forall E W W' s s', Inv (kill W E) s -> keeps W' s s' -> incl W' W -> Inv (kill W E) s'.
Proof.
  intros E W W' s s' HI Hk Hi [x e] Hin.
  pose proof Hin as Hin0. unfold kill in Hin. apply filter_In in Hin. destruct Hin as [Hin Hf].
  cbn [fst snd] in Hf. apply andb_prop in Hf. destruct Hf as [Hx He].
  apply negb_true_iff in Hx. apply vmem_false in Hx.
  destruct (HI _ Hin0) as (S1 & S2 & v & G1 & G2). cbn [fst snd] in *.
  assert (Hk' : keeps W s s') by (eapply keeps_incl; eassumption).
  unfold fact_ok. cbn [fst snd]. split; [exact S1|]. split; [exact S2|]. exists v. split.
  - rewrite (Hk' x Hx). exact G1.
  - rewrite (sval_keeps e W s s' Hk' He). exact G2.
Qed.

Lemma simple_eval : forall n e s mu C v mu1, simple e = true -> eval N P n s mu C e = ROk (v, mu1) ->
  sval s e = Some v /\ mu1 = mu.
Proof.
  intros n e s mu C v mu1 Hs H. destruct e; try (cbn [simple] in Hs; cbn [sval]; eapply is_lit_eval; eassumption).
  destruct n; [discriminate|]. rewrite eval_S in H. unfold eval_body in H. cbn [sval].
  destruct (env_get s x); inversion H; subst. split; reflexivity.
Qed.

Lemma sval_eval : forall n e s mu C v, simple e = true -> sval s e = Some v -> (lit_depth e <= n)%nat ->
  eval N P n s mu C e = ROk (v, mu).
Proof.
  intros n e s mu C v Hs Hv Hd. destruct e; try (cbn [sval] in Hv; eapply lit_eval; eassumption).
  destruct n; [cbn in Hd; lia|]. rewrite eval_S. unfold eval_body. cbn [sval] in Hv. rewrite Hv. reflexivity.
Qed.

(* the environment of the literal facts agrees with every environment that satisfies them *)
Lemma env_of_facts_get : forall E s x, Inv E s -> has_lit E x = true ->
  env_get (env_of_facts (lit_facts E)) x = env_get s x.
Proof.
  intros E s x HI Hh. unfold has_lit in Hh. apply vmem_In in Hh.
  assert (HF : forall xe, In xe (lit_facts E) -> fact_ok s xe /\ is_lit (snd xe) = true).
  { intros xe Hin. unfold lit_facts in Hin. apply filter_In in Hin. destruct Hin. split; auto. }
  revert Hh HF. generalize (lit_facts E) as F. induction F as [|[y l] F IH]; intros Hh HF; [destruct Hh|].
  destruct (HF (y, l) (or_introl eq_refl)) as ((_ & _ & v & G1 & G2) & Hl). cbn [fst snd] in *.
  assert (Lv : lit_val l = Some v).
  { destruct l; cbn [is_lit] in Hl; try discriminate; exact G2. }
  cbn [env_of_facts flat_map fst snd]. rewrite Lv. cbn [app env_get].
  destruct (String.eqb x y) eqn:Exy.
  - apply String.eqb_eq in Exy. subst y. symmetry. exact G1.
  - apply IH.
    + cbn [map fst] in Hh. destruct Hh as [Hh|Hh]; [subst; rewrite String.eqb_refl in Exy; discriminate | exact Hh].
    + intros xe Hin. apply HF. right. exact Hin.
Qed.

(* ---------------------------------------------------------------- the assertion used for expressions *)
Definition Arw (E : facts) (oc : option ctx) (bvs : vars) (s : env) (C : ctx) : Prop :=
  ctx_ok oc C /\ exists s0, Inv E s0 /\ forall x, ~ In x bvs -> env_get s x = env_get s0 x.

Lemma Arw_top : forall E oc s C, Inv E s -> ctx_ok oc C -> Arw E oc [] s C.
Proof. intros. split; auto. exists s. split; auto. Qed.

Lemma Arw_bind : forall E oc bvs s C p v s', Arw E oc bvs s C -> bind_pat p v s = Ok s' -> Arw E oc (pvars p ++ bvs) s' C.
Proof.
  intros E oc bvs s C p v s' (Hc & s0 & HI & Hs) Hb. split; [exact Hc|]. exists s0. split; [exact HI|].
  intros x Hx. rewrite (bind_pat_keeps _ _ _ _ Hb x).
  - apply Hs. intro; apply Hx; apply in_or_app; auto.
  - intro; apply Hx; apply in_or_app; auto.
Qed.

Lemma Arw_incl : forall E oc bvs bvs' s C, Arw E oc bvs s C -> incl bvs bvs' -> Arw E oc bvs' s C.
Proof.
  intros E oc bvs bvs' s C (Hc & s0 & HI & Hs) Hi. split; [exact Hc|]. exists s0. split; [exact HI|].
  intros x Hx. apply Hs. intro; apply Hx; auto.
Qed.

Lemma expr_eqb_sound : forall n e e' s mu C r, expr_eqb e e' = true ->
  eval N P n s mu C e = ROk r -> eval N P n s mu C e' = ROk r.
Proof.
  intros n e e' s mu C r He H. unfold expr_eqb in He.
  replace n with (n + 0)%nat by lia.
  eapply (vexpr_sound N P 0 no_leaf no_kb (fun _ _ _ => True)); try eassumption; auto.
  - intros; discriminate.
  - intros; discriminate.
Qed.

Lemma exprs_eqb_sound : forall n es es' s mu C r, vexprs no_leaf no_kb [] es es' = true ->
  evals N P n s mu C es = ROk r -> evals N P n s mu C es' = ROk r.
Proof.
  intros n es es' s mu C r He H.
  replace n with (n + 0)%nat by lia.
  eapply (vexprs_sound N P 0 no_leaf no_kb (fun _ _ _ => True)); try eassumption; auto.
  - intros; discriminate.
  - intros; discriminate.
Qed.

Lemma agree_facts : forall E oc bvs s C e, Arw E oc bvs s C ->
  forallb (fun x => negb (vmem x bvs) && has_lit E x) (efv [] e) = true ->
  agree (efv [] e) s (env_of_facts (lit_facts E)).
Proof.
  intros E oc bvs s C e (_ & s0 & HI & Hs) Hf x Hx.
  rewrite forallb_forall in Hf. specialize (Hf x Hx). apply andb_prop in Hf. destruct Hf as [Hb Hl].
  apply negb_true_iff in Hb. apply vmem_false in Hb.
  rewrite (Hs x Hb). symmetry. apply env_of_facts_get; assumption.
Qed.

Lemma leaf_rw_ok : forall E oc bvs e e' n s mu C r, leaf_rw K claim_ok E oc bvs e e' = true -> Arw E oc bvs s C ->
  eval N P n s mu C e = ROk r -> eval N P (n + K) s mu C e' = ROk r.
Proof.
  intros E oc bvs e e' n s mu C r Hl HA H. unfold leaf_rw in Hl. apply orb_prop in Hl. destruct Hl as [Hl|Hl].
  - (* an available equality *)
    destruct e; try discriminate Hl.
    apply andb_prop in Hl. destruct Hl as [Hl Hex]. apply andb_prop in Hl. destruct Hl as [Hl Hd].
    apply andb_prop in Hl. destruct Hl as [Hx He'].
    apply negb_true_iff in Hx. apply vmem_false in Hx. apply Nat.leb_le in Hd.
    apply existsb_exists in Hex. destruct Hex as ([y se] & Hin & Hy). cbn [fst snd] in Hy.
    apply andb_prop in Hy. destruct Hy as [Hy Hdis]. apply andb_prop in Hy. destruct Hy as [Hy Heq].
    apply String.eqb_eq in Hy. subst y.
    destruct HA as (Hc & s0 & HI & Hs).
    destruct (HI _ Hin) as (S1 & S2 & v & G1 & G2). cbn [fst snd] in *.
    destruct n; [discriminate|]. rewrite eval_S in H. unfold eval_body in H.
    rewrite (Hs x Hx), G1 in H. inversion H; subst r. clear H.
    eapply expr_eqb_sound; [exact Heq|].
    eapply sval_eval; [exact S1 | | lia].
    rewrite <- G2. destruct se; try reflexivity. cbn [sval]. apply Hs.
    cbn [evars] in Hdis. eapply vdisj_spec in Hdis; [exact Hdis | left; reflexivity].
  - (* a claim *)
    apply andb_prop in Hl. destruct Hl as [Hl Hclaim]. apply andb_prop in Hl. destruct Hl as [Hl Hfv].
    apply andb_prop in Hl. destruct Hl as [Hl Hpure]. apply andb_prop in Hl. destruct Hl as [Hl Hd].
    apply andb_prop in Hl. destruct Hl as [Hlit _]. apply Nat.leb_le in Hd.
    pose proof (agree_facts E oc bvs s C e HA Hfv) as Hag.
    rewrite (eval_agree N P n _ s (env_of_facts (lit_facts E)) mu C e Hag (incl_refl _)) in H.
    destruct HA as (Hc & _).
    destruct (claim_sound _ Hclaim n mu C r Hc H) as (v & Lv & ->). cbn [cl_lit] in Lv.
    eapply lit_eval; [exact Lv | lia].
Qed.

Lemma kb_rw_ok : forall E oc bvs c t n s mu C v mu1, kb_rw claim_ok E oc bvs c = Some t -> Arw E oc bvs s C ->
  eval N P n s mu C c = ROk (v, mu1) -> v = VBool t /\ mu1 = mu.
Proof.
  intros E oc bvs c t n s mu C v mu1 Hk HA H. unfold kb_rw in Hk.
  destruct (pure_na c && forallb (fun x => negb (vmem x bvs) && has_lit E x) (efv [] c)) eqn:G; [|discriminate].
  apply andb_prop in G. destruct G as [Hp Hfv].
  pose proof (agree_facts E oc bvs s C c HA Hfv) as Hag.
  rewrite (eval_agree N P n _ s (env_of_facts (lit_facts E)) mu C c Hag (incl_refl _)) in H.
  destruct HA as (Hc & _).
  destruct (claim_ok (Claim (lit_facts E) oc c (EBool true))) eqn:C1.
  - inversion Hk; subst t. destruct (claim_sound _ C1 n mu C _ Hc H) as (w & Lw & Hr).
    cbn in Lw. inversion Lw; subst w. inversion Hr; subst. split; reflexivity.
  - destruct (claim_ok (Claim (lit_facts E) oc c (EBool false))) eqn:C2; [|discriminate].
    inversion Hk; subst t. destruct (claim_sound _ C2 n mu C _ Hc H) as (w & Lw & Hr).
    cbn in Lw. inversion Lw; subst w. inversion Hr; subst. split; reflexivity.
Qed.

(* the comparison of two expressions under the facts (E, oc) *)
Lemma vx_rw : forall E oc n e e' s mu C r,
  vexpr (leaf_rw K claim_ok E oc) (kb_rw claim_ok E oc) [] e e' = true -> Inv E s -> ctx_ok oc C ->
  eval N P n s mu C e = ROk r -> eval N P (n + K) s mu C e' = ROk r.
Proof.
  intros E oc n e e' s mu C r Hv HI Hc H.
  eapply (vexpr_sound N P K (leaf_rw K claim_ok E oc) (kb_rw claim_ok E oc) (Arw E oc)); try eassumption.
  - apply Arw_bind.
  - apply Arw_incl.
  - intros. eapply leaf_rw_ok; eassumption.
  - intros. eapply kb_rw_ok; eassumption.
  - apply Arw_top; assumption.
Qed.

Lemma vxs_rw : forall E oc n es es' s mu C r,
  vexprs (leaf_rw K claim_ok E oc) (kb_rw claim_ok E oc) [] es es' = true -> Inv E s -> ctx_ok oc C ->
  evals N P n s mu C es = ROk r -> evals N P (n + K) s mu C es' = ROk r.
Proof.
  intros E oc n es es' s mu C r Hv HI Hc H.
  eapply (vexprs_sound N P K (leaf_rw K claim_ok E oc) (kb_rw claim_ok E oc) (Arw E oc)); try eassumption.
  - apply Arw_bind.
  - apply Arw_incl.
  - intros. eapply leaf_rw_ok; eassumption.
  - intros. eapply kb_rw_ok; eassumption.
  - apply Arw_top; assumption.
Qed.

End RW.
