(* C07: soundness of the validator of expression rewriting (SimpRw.v: vrw, vrwb,
   vrw_func), which covers CopyPropagate and ConstFold results. *)
From Coq Require Import ZArith List Bool String Lia.
From FpyV Require Import Num.RealFloat Num.Float Num.CtxDef Lang.Syntax Lang.Values Lang.Sem Lang.SemMono.
From FpyV Require Import Lang.Transforms.SimpDefs Lang.Transforms.SimpRw Lang.Transforms.SimpBaseProofs
  Lang.Transforms.SimpEqProofs Lang.Transforms.SimpEvalProofs Lang.Transforms.SimpVexprProofs Lang.Transforms.SimpRunProofs.
Import ListNotations.
Open Scope Z_scope.

Section RW.
Variable N : numops.
Variable P : program.
Variable K : nat.
Variable claim_ok : claim -> bool.
Variable guess_ctx : facts -> expr -> option ctx.
Hypothesis HK1 : (1 <= K)%nat.


(* the meaning of an accepted claim: under the literal facts and the known
   context, the expression evaluates to the very value of the literal and
   leaves the store alone *)
Definition claim_valid (cl : claim) : Prop :=
  forall n mu C r, ctx_ok (cl_ctx cl) C ->
    eval N P n (env_of_facts (cl_env cl)) mu C (cl_e cl) = ROk r ->
    exists v, lit_val (cl_lit cl) = Some v /\ r = (v, mu).

Hypothesis claim_sound : forall cl, claim_ok cl = true -> claim_valid cl.

(* ---------------------------------------------------------------- literals *)
Lemma lit_eval_aux : forall n m, (m <= n)%nat -> forall l v s mu C, lit_val l = Some v -> (lit_depth l <= m)%nat ->
  eval N P m s mu C l = ROk (v, mu).
Proof.
  induction n as [|n IH]; intros m Hmn l v s mu C Hl Hd.
  - destruct l; cbn in Hd; lia.
  - destruct m as [|m]; [destruct l; cbn in Hd; lia|].
    rewrite eval_S. unfold eval_body. destruct l; cbn [lit_val] in Hl; try discriminate.
    + inversion Hl; reflexivity.
    + destruct (d =? 0); [discriminate|]. inversion Hl; reflexivity.
    + inversion Hl; reflexivity.
    + inversion Hl; reflexivity.
    + (* ETuple *)
      cbn [lit_depth] in Hd.
      match type of Hl with context [match ?g es with _ => _ end] => destruct (g es) as [vs|] eqn:G end; [|discriminate].
      inversion Hl; subst v. clear Hl.
      assert (X : forall k es vs mu, (fold_right (fun x m => Nat.max (lit_depth x) m) O es + List.length es + 1 <= k)%nat -> (k <= n)%nat ->
        (fix go (l : list expr) : option (list value) :=
           match l with
           | [] => Some []
           | x :: r => match lit_val x, go r with Some v, Some vs => Some (v :: vs) | _, _ => None end
           end) es = Some vs ->
        evals N P k s mu C es = ROk (vs, mu)).
      { induction k as [|k IHk]; intros es0 vs0 mu0 Hk Hkn G0.
        - lia.
        - rewrite evals_S. unfold evals_body. destruct es0 as [|e0 es0].
          + inversion G0; reflexivity.
          + destruct (lit_val e0) as [v0|] eqn:L0; [|discriminate].
            match type of G0 with context [match ?g es0 with _ => _ end] => destruct (g es0) as [vs1|] eqn:G1 end; [|discriminate].
            inversion G0; subst vs0. cbn [fold_right List.length] in Hk.
            rewrite (IH k ltac:(lia) e0 v0 s mu0 C L0) by lia. cbn [rbind].
            rewrite (IHk es0 vs1 mu0) by (try lia; exact G1). reflexivity. }
      rewrite (X m es vs mu) by (try lia; exact G). reflexivity.
Qed.

Lemma lit_eval : forall n l v s mu C, lit_val l = Some v -> (lit_depth l <= n)%nat ->
  eval N P n s mu C l = ROk (v, mu).
Proof. intros. eapply lit_eval_aux; eauto. Qed.


(* a literal evaluates to lit_val and touches nothing (by induction on the fuel) *)
Lemma is_lit_eval : forall n e s mu C v mu1, is_lit e = true -> eval N P n s mu C e = ROk (v, mu1) ->
  lit_val e = Some v /\ mu1 = mu.
Proof.
  induction n as [|n IH]; intros e s mu C v mu1 Hl H; [discriminate|].
  rewrite eval_S in H. unfold eval_body in H. destruct e; cbn [is_lit] in Hl; try discriminate.
  - inversion H; subst. split; reflexivity.
  - cbn [lit_val]. apply negb_true_iff in Hl. rewrite Hl in *. inversion H; subst. split; reflexivity.
  - inversion H; subst. split; reflexivity.
  - inversion H; subst. split; reflexivity.
  - destruct (rbind_ok _ _ _ _ _ H) as ([vs m] & E & H'). inversion H'; subst. clear H H'.
    assert (X : forall k es vs mu m, (k <= n)%nat -> forallb is_lit es = true -> evals N P k s mu C es = ROk (vs, m) ->
      (fix go (l : list expr) : option (list value) :=
         match l with
         | [] => Some []
         | x :: r => match lit_val x, go r with Some v, Some vs => Some (v :: vs) | _, _ => None end
         end) es = Some vs /\ m = mu).
    { induction k as [|k IHk]; intros es0 vs0 mu0 m0 Hk Hl0 E0; [discriminate|].
      rewrite evals_S in E0. unfold evals_body in E0. destruct es0 as [|e0 es0].
      - inversion E0; subst. split; reflexivity.
      - cbn [forallb] in Hl0. apply andb_prop in Hl0. destruct Hl0 as [L0 L1].
        destruct (rbind_ok _ _ _ _ _ E0) as ([v0 m1] & E1 & E2).
        destruct (rbind_ok _ _ _ _ _ E2) as ([vs1 m2] & E3 & E4). inversion E4; subst.
        assert (E1' : eval N P n s mu0 C e0 = ROk (v0, m1)) by (eapply eval_mono_ok; [exact E1 | lia]).
        destruct (IH _ _ _ _ _ _ L0 E1') as [Lv ->].
        destruct (IHk es0 vs1 mu0 m0 ltac:(lia) L1 E3) as [Lvs ->].
        rewrite Lv, Lvs. split; reflexivity. }
    destruct (X n es vs mu mu1 (le_n _) Hl E) as [G ->]. cbn [lit_val]. rewrite G. split; reflexivity.
Qed.

(* ---------------------------------------------------------------- facts *)
Definition sval (s : env) (e : expr) : option value :=
  match e with EVar y => env_get s y | _ => lit_val e end.

Definition fact_ok (s : env) (xe : fact) : Prop :=
  simple (snd xe) = true /\ (lit_depth (snd xe) <= K)%nat /\
  exists v, env_get s (fst xe) = Some v /\ sval s (snd xe) = Some v.

Definition Inv (E : facts) (s : env) : Prop := forall xe, In xe E -> fact_ok s xe.

Lemma sval_keeps : forall e W s s', keeps W s s' -> vdisj (evars e) W = true -> sval s' e = sval s e.
Proof.
  intros e W s s' Hk Hd. destruct e; try reflexivity.
  cbn [sval]. apply Hk. cbn [evars] in Hd. eapply vdisj_spec in Hd; [exact Hd | left; reflexivity].
Qed.

Lemma Inv_kill : forall E W s s', Inv E s -> keeps W s s' -> Inv (kill W E) s'.
Proof.
  intros E W s s' HI Hk [x e] Hin. unfold kill in Hin. apply filter_In in Hin. destruct Hin as [Hin Hf].
  cbn [fst snd] in Hf. apply andb_prop in Hf. destruct Hf as [Hx He].
  apply negb_true_iff in Hx. apply vmem_false in Hx.
  destruct (HI _ Hin) as (S1 & S2 & v & G1 & G2). cbn [fst snd] in *.
  unfold fact_ok. cbn [fst snd]. split; [exact S1|]. split; [exact S2|]. exists v. split.
  - rewrite (Hk x Hx). exact G1.
  - rewrite (sval_keeps e W s s' Hk He). exact G2.
Qed.

Lemma Inv_weaken : forall E W s, Inv E s -> Inv (kill W E) s.
Proof. intros. eapply Inv_kill; [eassumption | apply keeps_refl]. Qed.

(* facts that mention no name of W survive any change within W' <= W *)
Lemma Inv_kill_stable : forall E W W' s s', Inv (kill W E) s -> keeps W' s s' -> incl W' W -> Inv (kill W E) s'.
Proof.
  intros E W W' s s' HI Hk Hi [x e] Hin.
  pose proof Hin as Hin0. unfold kill in Hin. apply filter_In in Hin. destruct Hin as [Hin Hf].
  cbn [fst snd] in Hf. apply andb_prop in Hf. destruct Hf as [Hx He].
  apply negb_true_iff in Hx. apply vmem_false in Hx.
  destruct (HI _ Hin0) as (S1 & S2 & v & G1 & G2). cbn [fst snd] in *.
  assert (Hk' : keeps W s s') by (eapply keeps_incl; eassumption).
  unfold fact_ok. cbn [fst snd]. split; [exact S1|]. split; [exact S2|]. exists v. split.
  - rewrite (Hk' x Hx). exact G1.
  - rewrite (sval_keeps e W s s' Hk' He). exact G2.
Qed.

Lemma simple_eval : forall n e s mu C v mu1, simple e = true -> eval N P n s mu C e = ROk (v, mu1) ->
  sval s e = Some v /\ mu1 = mu.
Proof.
  intros n e s mu C v mu1 Hs H. destruct e; try (cbn [simple] in Hs; cbn [sval]; eapply is_lit_eval; eassumption).
  destruct n; [discriminate|]. rewrite eval_S in H. unfold eval_body in H. cbn [sval].
  destruct (env_get s x); inversion H; subst. split; reflexivity.
Qed.

Lemma sval_eval : forall n e s mu C v, simple e = true -> sval s e = Some v -> (lit_depth e <= n)%nat ->
  eval N P n s mu C e = ROk (v, mu).
Proof.
  intros n e s mu C v Hs Hv Hd. destruct e; try (cbn [sval] in Hv; eapply lit_eval; eassumption).
  destruct n; [cbn in Hd; lia|]. rewrite eval_S. unfold eval_body. cbn [sval] in Hv. rewrite Hv. reflexivity.
Qed.

(* the environment of the literal facts agrees with every environment that satisfies them *)
Lemma env_of_facts_get : forall E s x, Inv E s -> has_lit E x = true ->
  env_get (env_of_facts (lit_facts E)) x = env_get s x.
Proof.
  intros E s x HI Hh. unfold has_lit in Hh. apply vmem_In in Hh.
  assert (HF : forall xe, In xe (lit_facts E) -> fact_ok s xe /\ is_lit (snd xe) = true).
  { intros xe Hin. unfold lit_facts in Hin. apply filter_In in Hin. destruct Hin. split; auto. }
  revert Hh HF. generalize (lit_facts E) as F. induction F as [|[y l] F IH]; intros Hh HF; [destruct Hh|].
  destruct (HF (y, l) (or_introl eq_refl)) as ((_ & _ & v & G1 & G2) & Hl). cbn [fst snd] in *.
  assert (Lv : lit_val l = Some v).
  { destruct l; cbn [is_lit] in Hl; try discriminate; exact G2. }
  cbn [env_of_facts flat_map fst snd]. rewrite Lv. cbn [app env_get].
  destruct (String.eqb x y) eqn:Exy.
  - apply String.eqb_eq in Exy. subst y. symmetry. exact G1.
  - apply IH.
    + cbn [map fst] in Hh. destruct Hh as [Hh|Hh]; [subst; rewrite String.eqb_refl in Exy; discriminate | exact Hh].
    + intros xe Hin. apply HF. right. exact Hin.
Qed.

(* ---------------------------------------------------------------- the assertion used for expressions *)
Definition Arw (E : facts) (oc : option ctx) (bvs : vars) (s : env) (C : ctx) : Prop :=
  ctx_ok oc C /\ exists s0, Inv E s0 /\ forall x, ~ In x bvs -> env_get s x = env_get s0 x.

Lemma Arw_top : forall E oc s C, Inv E s -> ctx_ok oc C -> Arw E oc [] s C.
Proof. intros. split; auto. exists s. split; auto. Qed.

Lemma Arw_bind : forall E oc bvs s C p v s', Arw E oc bvs s C -> bind_pat p v s = Ok s' -> Arw E oc (pvars p ++ bvs) s' C.
Proof.
  intros E oc bvs s C p v s' (Hc & s0 & HI & Hs) Hb. split; [exact Hc|]. exists s0. split; [exact HI|].
  intros x Hx. rewrite (bind_pat_keeps _ _ _ _ Hb x).
  - apply Hs. intro; apply Hx; apply in_or_app; auto.
  - intro; apply Hx; apply in_or_app; auto.
Qed.

Lemma Arw_incl : forall E oc bvs bvs' s C, Arw E oc bvs s C -> incl bvs bvs' -> Arw E oc bvs' s C.
Proof.
  intros E oc bvs bvs' s C (Hc & s0 & HI & Hs) Hi. split; [exact Hc|]. exists s0. split; [exact HI|].
  intros x Hx. apply Hs. intro; apply Hx; auto.
Qed.

Lemma expr_eqb_sound : forall n e e' s mu C r, expr_eqb e e' = true ->
  eval N P n s mu C e = ROk r -> eval N P n s mu C e' = ROk r.
Proof.
  clear HK1 claim_sound. intros n e e' s mu C r He H. unfold expr_eqb in He.
  replace n with (n + 0)%nat by lia.
  eapply (vexpr_sound N P 0 no_leaf no_kb (fun _ _ _ => True)); try eassumption; auto.
  - intros; discriminate.
  - intros; discriminate.
Qed.

Lemma exprs_eqb_sound : forall n es es' s mu C r, vexprs no_leaf no_kb [] es es' = true ->
  evals N P n s mu C es = ROk r -> evals N P n s mu C es' = ROk r.
Proof.
  clear HK1 claim_sound. intros n es es' s mu C r He H.
  replace n with (n + 0)%nat by lia.
  eapply (vexprs_sound N P 0 no_leaf no_kb (fun _ _ _ => True)); try eassumption; auto.
  - intros; discriminate.
  - intros; discriminate.
Qed.

Lemma agree_facts : forall E oc bvs s C e, Arw E oc bvs s C ->
  forallb (fun x => negb (vmem x bvs) && has_lit E x) (efv [] e) = true ->
  agree (efv [] e) s (env_of_facts (lit_facts E)).
Proof.
  intros E oc bvs s C e (_ & s0 & HI & Hs) Hf x Hx.
  rewrite forallb_forall in Hf. specialize (Hf x Hx). apply andb_prop in Hf. destruct Hf as [Hb Hl].
  apply negb_true_iff in Hb. apply vmem_false in Hb.
  rewrite (Hs x Hb). symmetry. apply env_of_facts_get; assumption.
Qed.

Lemma leaf_rw_ok : forall E oc bvs e e' n s mu C r, leaf_rw K claim_ok E oc bvs e e' = true -> Arw E oc bvs s C ->
  eval N P n s mu C e = ROk r -> eval N P (n + K) s mu C e' = ROk r.
Proof.
  intros E oc bvs e e' n s mu C r Hl HA H. unfold leaf_rw in Hl. apply orb_prop in Hl. destruct Hl as [Hl|Hl].
  - (* an available equality *)
    destruct e; try discriminate Hl.
    apply andb_prop in Hl. destruct Hl as [Hl Hex]. apply andb_prop in Hl. destruct Hl as [Hl Hd].
    apply andb_prop in Hl. destruct Hl as [Hx He'].
    apply negb_true_iff in Hx. apply vmem_false in Hx. apply Nat.leb_le in Hd.
    apply existsb_exists in Hex. destruct Hex as ([y se] & Hin & Hy). cbn [fst snd] in Hy.
    apply andb_prop in Hy. destruct Hy as [Hy Hdis]. apply andb_prop in Hy. destruct Hy as [Hy Heq].
    apply String.eqb_eq in Hy. subst y.
    destruct HA as (Hc & s0 & HI & Hs).
    destruct (HI _ Hin) as (S1 & S2 & v & G1 & G2). cbn [fst snd] in *.
    destruct n; [discriminate|]. rewrite eval_S in H. unfold eval_body in H.
    rewrite (Hs x Hx), G1 in H. inversion H; subst r. clear H.
    eapply expr_eqb_sound; [exact Heq|].
    eapply sval_eval; [exact S1 | | lia].
    rewrite <- G2. destruct se; try reflexivity. cbn [sval]. apply Hs.
    cbn [evars] in Hdis. eapply vdisj_spec in Hdis; [exact Hdis | left; reflexivity].
  - (* a claim *)
    apply andb_prop in Hl. destruct Hl as [Hl Hclaim]. apply andb_prop in Hl. destruct Hl as [Hl Hfv].
    apply andb_prop in Hl. destruct Hl as [Hl Hpure]. apply andb_prop in Hl. destruct Hl as [Hl Hd].
    apply andb_prop in Hl. destruct Hl as [Hlit _]. apply Nat.leb_le in Hd.
    pose proof (agree_facts E oc bvs s C e HA Hfv) as Hag.
    rewrite (eval_agree N P n _ s (env_of_facts (lit_facts E)) mu C e Hag (incl_refl _)) in H.
    destruct HA as (Hc & _).
    destruct (claim_sound _ Hclaim n mu C r Hc H) as (v & Lv & ->). cbn [cl_lit] in Lv.
    eapply lit_eval; [exact Lv | lia].
Qed.

Lemma kb_rw_ok : forall E oc bvs c t n s mu C v mu1, kb_rw claim_ok E oc bvs c = Some t -> Arw E oc bvs s C ->
  eval N P n s mu C c = ROk (v, mu1) -> v = VBool t /\ mu1 = mu.
Proof.
  intros E oc bvs c t n s mu C v mu1 Hk HA H. unfold kb_rw in Hk.
  destruct (pure_na c && forallb (fun x => negb (vmem x bvs) && has_lit E x) (efv [] c)) eqn:G; [|discriminate].
  apply andb_prop in G. destruct G as [Hp Hfv].
  pose proof (agree_facts E oc bvs s C c HA Hfv) as Hag.
  rewrite (eval_agree N P n _ s (env_of_facts (lit_facts E)) mu C c Hag (incl_refl _)) in H.
  destruct HA as (Hc & _).
  destruct (claim_ok (Claim (lit_facts E) oc c (EBool true))) eqn:C1.
  - inversion Hk; subst t. destruct (claim_sound _ C1 n mu C _ Hc H) as (w & Lw & Hr).
    cbn in Lw. inversion Lw; subst w. inversion Hr; subst. split; reflexivity.
  - destruct (claim_ok (Claim (lit_facts E) oc c (EBool false))) eqn:C2; [|discriminate].
    inversion Hk; subst t. destruct (claim_sound _ C2 n mu C _ Hc H) as (w & Lw & Hr).
    cbn in Lw. inversion Lw; subst w. inversion Hr; subst. split; reflexivity.
Qed.

(* the comparison of two expressions under the facts (E, oc) *)
Lemma vx_rw : forall E oc n e e' s mu C r,
  vexpr (leaf_rw K claim_ok E oc) (kb_rw claim_ok E oc) [] e e' = true -> Inv E s -> ctx_ok oc C ->
  eval N P n s mu C e = ROk r -> eval N P (n + K) s mu C e' = ROk r.
Proof.
  intros E oc n e e' s mu C r Hv HI Hc H.
  eapply (vexpr_sound N P K (leaf_rw K claim_ok E oc) (kb_rw claim_ok E oc) (Arw E oc)); try eassumption.
  - apply Arw_bind.
  - apply Arw_incl.
  - intros. eapply leaf_rw_ok; eassumption.
  - intros. eapply kb_rw_ok; eassumption.
  - apply Arw_top; assumption.
Qed.

Lemma vxs_rw : forall E oc n es es' s mu C r,
  vexprs (leaf_rw K claim_ok E oc) (kb_rw claim_ok E oc) [] es es' = true -> Inv E s -> ctx_ok oc C ->
  evals N P n s mu C es = ROk r -> evals N P (n + K) s mu C es' = ROk r.
Proof.
  intros E oc n es es' s mu C r Hv HI Hc H.
  eapply (vexprs_sound N P K (leaf_rw K claim_ok E oc) (kb_rw claim_ok E oc) (Arw E oc)); try eassumption.
  - apply Arw_bind.
  - apply Arw_incl.
  - intros. eapply leaf_rw_ok; eassumption.
  - intros. eapply kb_rw_ok; eassumption.
  - apply Arw_top; assumption.
Qed.


(* ---------------------------------------------------------------- statements *)
Definition post (E' : facts) (o : outcome) : Prop :=
  match o with ONormal s' => Inv E' s' | OReturn _ => True end.

Notation LF := (leaf_rw K claim_ok).
Notation KB := (kb_rw claim_ok).

Lemma Inv_gen : forall E p e e' n m s mu C v mu1 s',
  Inv E s -> eval N P n s mu C e = ROk (v, mu1) -> eval N P m s mu C e' = ROk (v, mu1) ->
  bind_pat p v s = Ok s' -> Inv (gen K p e e' (kill (pvars p) E)) s'.
Proof.
  intros E p e e' n m s mu C v mu1 s' HI He He' Hb.
  pose proof (bind_pat_keeps _ _ _ _ Hb) as Hk.
  pose proof (Inv_kill E (pvars p) s s' HI Hk) as HI'.
  destruct p as [x| |ps]; cbn [gen]; try exact HI'.
  cbn [pvars] in *. cbn in Hb. inversion Hb; subst s'. clear Hb.
  assert (X : forall a k, eval N P k s mu C a = ROk (v, mu1) ->
    simple a && negb (vmem x (evars a)) && Nat.leb (lit_depth a) K = true -> fact_ok (env_set s x v) (x, a)).
  { intros a k Ha Hc. apply andb_prop in Hc. destruct Hc as [Hc Hd]. apply andb_prop in Hc. destruct Hc as [Hs Hx].
    apply Nat.leb_le in Hd. apply negb_true_iff in Hx.
    unfold fact_ok. cbn [fst snd]. split; [exact Hs|]. split; [exact Hd|]. exists v. split.
    - apply env_get_set_same.
    - destruct (simple_eval _ _ _ _ _ _ _ Hs Ha) as [Sv _]. rewrite <- Sv.
      apply (sval_keeps a [x] s (env_set s x v) Hk). unfold vdisj. apply forallb_forall. intros z Hz.
      apply negb_true_iff. apply vmem_false. intros [Hzx|[]]. subst z.
      apply vmem_false in Hx. apply Hx. exact Hz. }
  intros xe Hin. apply in_app_or in Hin. destruct Hin as [Hin|Hin].
  - destruct (simple e && negb (vmem x (evars e)) && Nat.leb (lit_depth e) K) eqn:G; [|destruct Hin].
    destruct Hin as [<-|[]]. eapply X; eassumption.
  - apply in_app_or in Hin. destruct Hin as [Hin|Hin].
    + destruct (simple e' && negb (vmem x (evars e')) && Nat.leb (lit_depth e') K) eqn:G; [|destruct Hin].
      destruct Hin as [<-|[]]. eapply X; eassumption.
    + apply HI'. exact Hin.
Qed.

Lemma index_walk_rw : forall E oc idx idx', vexprs (LF E oc) (KB E oc) [] idx idx' = true ->
  forall n s mu C cur v m, Inv E s -> ctx_ok oc C ->
  index_walk N P n s mu C cur idx v = ROk m -> index_walk N P (n + K) s mu C cur idx' v = ROk m.
Proof.
  intros E oc idx. induction idx as [|i rest IH]; intros idx' Hv n s mu C cur v m HI Hc H.
  - destruct n; [discriminate|]. rewrite index_walk_S in H. discriminate.
  - destruct idx' as [|i' rest']; [discriminate|]. cbn [vexprs] in Hv. apply andb_prop in Hv. destruct Hv as [Hi Hr].
    destruct n; [discriminate|]. change (S n + K)%nat with (S (n + K)).
    rewrite index_walk_S in *. unfold index_walk_body in *.
    destruct rest as [|j rest].
    + destruct rest' as [|? ?]; [|discriminate].
      destruct (rbind_ok _ _ _ _ _ H) as ([vi m1] & E1 & H1). clear H.
      rewrite (vx_rw E oc n i i' s mu C _ Hi HI Hc E1). cbn [rbind]. exact H1.
    + destruct rest' as [|j' rest']; [discriminate|].
      destruct (rbind_ok _ _ _ _ _ H) as ([vi m1] & E1 & H1). clear H.
      rewrite (vx_rw E oc n i i' s mu C _ Hi HI Hc E1). cbn [rbind].
      destruct (cvt_index vi) as [k| |]; cbn [rbind] in *; try discriminate.
      destruct (as_list m1 cur) as [[l0 vs]| |]; cbn [rbind] in *; try discriminate.
      destruct (list_nth vs k) as [nxt| |]; cbn [rbind] in *; try discriminate.
      eapply IH; eassumption.
Qed.

Lemma while_rw : forall Eh oc c c' body body',
  vexpr (LF Eh oc) (KB Eh oc) [] c c' = true ->
  (forall n s mu C o mu', Inv Eh s -> ctx_ok oc C -> exec_block N P n s mu C body = ROk (o, mu') ->
     exec_block N P (n + K) s mu C body' = ROk (o, mu')) ->
  (forall s s', Inv Eh s -> keeps (bound_block body) s s' -> Inv Eh s') ->
  forall n s mu C o mu', Inv Eh s -> ctx_ok oc C -> exec N P n s mu C (SWhile c body) = ROk (o, mu') ->
    exec N P (n + K) s mu C (SWhile c' body') = ROk (o, mu') /\ post Eh o.
Proof.
  intros Eh oc c c' body body' Hvc Hb Hstab. induction n as [|n IH]; intros s mu C o mu' HI Hc H; [discriminate|].
  change (S n + K)%nat with (S (n + K)). rewrite exec_S in *. unfold exec_body in *.
  destruct (rbind_ok _ _ _ _ _ H) as ([vc m1] & E1 & H1). clear H.
  rewrite (vx_rw Eh oc n c c' s mu C _ Hvc HI Hc E1). cbn [rbind].
  destruct (as_bool vc) as [t| |]; cbn [rbind] in *; try discriminate.
  destruct t.
  - destruct (rbind_ok _ _ _ _ _ H1) as ([o1 m2] & E2 & H2). clear H1.
    rewrite (Hb n s m1 C o1 m2 HI Hc E2). cbn [rbind].
    destruct o1 as [s1|v1].
    + apply IH; try assumption. eapply Hstab; [exact HI|]. eapply exec_block_frame; eassumption.
    + inversion H2; subst. split; [reflexivity | exact I].
  - inversion H1; subst. split; [reflexivity | exact HI].
Qed.

Lemma for_rw : forall Eh oc p body body',
  (forall n s mu C o mu', Inv Eh s -> ctx_ok oc C -> exec_block N P n s mu C body = ROk (o, mu') ->
     exec_block N P (n + K) s mu C body' = ROk (o, mu')) ->
  (forall s s', Inv Eh s -> keeps (pvars p ++ bound_block body) s s' -> Inv Eh s') ->
  forall n s mu C l i o mu', Inv Eh s -> ctx_ok oc C -> for_loop N P n s mu C p l i body = ROk (o, mu') ->
    for_loop N P (n + K) s mu C p l i body' = ROk (o, mu') /\ post Eh o.
Proof.
  intros Eh oc p body body' Hb Hstab. induction n as [|n IH]; intros s mu C l i o mu' HI Hc H; [discriminate|].
  change (S n + K)%nat with (S (n + K)). rewrite for_loop_S in *. unfold for_loop_body in *.
  destruct (store_get mu l) as [vs|]; [|discriminate].
  destruct (nth_error vs i) as [x|]; [|inversion H; subst; split; [reflexivity | exact HI]].
  destruct (bind_pat p x s) as [s1|] eqn:B; cbn [lift rbind] in *; [|discriminate].
  assert (HI1 : Inv Eh s1).
  { eapply Hstab; [exact HI|]. eapply keeps_incl; [eapply bind_pat_keeps; exact B|].
    intros z Hz. apply in_or_app. left. exact Hz. }
  destruct (rbind_ok _ _ _ _ _ H) as ([o1 m2] & E2 & H2). clear H.
  rewrite (Hb n s1 mu C o1 m2 HI1 Hc E2). cbn [rbind].
  destruct o1 as [s2|v1].
  - apply IH; try assumption. eapply Hstab; [exact HI1|].
    eapply keeps_incl; [eapply exec_block_frame; exact E2|]. intros z Hz. apply in_or_app. right. exact Hz.
  - inversion H2; subst. split; [reflexivity | exact I].
Qed.

Definition rw_at (d : nat) : Prop :=
  (forall E oc st st' E', vrw K claim_ok guess_ctx d E oc st st' = Some E' ->
     forall n s mu C o mu', Inv E s -> ctx_ok oc C -> exec N P n s mu C st = ROk (o, mu') ->
       exec N P (n + K) s mu C st' = ROk (o, mu') /\ post E' o) /\
  (forall E oc b b' E', vrwb K claim_ok guess_ctx d E oc b b' = Some E' ->
     forall n s mu C o mu', Inv E s -> ctx_ok oc C -> exec_block N P n s mu C b = ROk (o, mu') ->
       exec_block N P (n + K) s mu C b' = ROk (o, mu') /\ post E' o).

Lemma post_frame_kill : forall E W s o, Inv E s -> okeeps W s o -> post (kill W E) o.
Proof. intros E W s [s'|v] HI Hk; cbn in *; auto. eapply Inv_kill; eassumption. Qed.

Lemma guess_checked_ok : forall E e' c n s mu v mu1, guess_checked claim_ok guess_ctx E e' = Some c -> Inv E s ->
  eval N P n s mu CReal e' = ROk (v, mu1) -> v = VCtx c.
Proof.
  intros E e' c n s mu v mu1 Hk HI H. unfold guess_checked in Hk.
  destruct (guess_ctx (lit_facts E) e') as [c0|] eqn:G; [|discriminate].
  match type of Hk with (if ?b then _ else _) = _ => destruct b eqn:B end; [|discriminate].
  inversion Hk; subst c0. apply andb_prop in B. destruct B as [B Hcl]. apply andb_prop in B. destruct B as [Hp Hfv].
  assert (Hag : agree (efv [] e') s (env_of_facts (lit_facts E))).
  { intros x Hx. rewrite forallb_forall in Hfv. symmetry. apply env_of_facts_get; [exact HI | apply Hfv; exact Hx]. }
  rewrite (eval_agree N P n _ s (env_of_facts (lit_facts E)) mu CReal e' Hag (incl_refl _)) in H.
  destruct (claim_sound _ Hcl n mu CReal _ eq_refl H) as (w & Lw & Hr). cbn in Lw. inversion Lw; subst w.
  inversion Hr. reflexivity.
Qed.

Lemma known_ctx_ok : forall E e' c n s mu v mu1, known_ctx claim_ok guess_ctx E e' = Some c -> Inv E s ->
  eval N P n s mu CReal e' = ROk (v, mu1) -> v = VCtx c.
Proof.
  intros E e' c n s mu v mu1 Hk HI H.
  destruct e'; cbn [known_ctx] in Hk; try (eapply guess_checked_ok; eassumption).
  inversion Hk; subst. destruct n; [discriminate|]. rewrite eval_S in H. unfold eval_body in H. inversion H. reflexivity.
Qed.

Notation VRW := (vrw K claim_ok guess_ctx).
Notation VRWB := (vrwb K claim_ok guess_ctx).

Lemma vrw_assign : forall d E oc p e p' e', VRW (S d) E oc (SAssign p e) (SAssign p' e') =
  if pat_eqb p p' && vexpr (LF E oc) (KB E oc) [] e e' then Some (gen K p e e' (kill (pvars p) E)) else None.
Proof. reflexivity. Qed.
Lemma vrw_iassign : forall d E oc x idx e x' idx' e', VRW (S d) E oc (SIndexAssign x idx e) (SIndexAssign x' idx' e') =
  if String.eqb x x' && vexprs (LF E oc) (KB E oc) [] idx idx' && vexpr (LF E oc) (KB E oc) [] e e' then Some E else None.
Proof. reflexivity. Qed.
Lemma vrw_if1 : forall d E oc c body c' body', VRW (S d) E oc (SIf1 c body) (SIf1 c' body') =
  if vexpr (LF E oc) (KB E oc) [] c c' then
    match VRWB d E oc body body' with Some _ => Some (kill (bound_block body) E) | None => None end
  else None.
Proof. reflexivity. Qed.
Lemma vrw_if : forall d E oc c t f c' t' f', VRW (S d) E oc (SIf c t f) (SIf c' t' f') =
  if vexpr (LF E oc) (KB E oc) [] c c' then
    match VRWB d E oc t t', VRWB d E oc f f' with
    | Some _, Some _ => Some (kill (bound_block t ++ bound_block f) E)
    | _, _ => None
    end
  else None.
Proof. reflexivity. Qed.
Lemma vrw_while : forall d E oc c body c' body', VRW (S d) E oc (SWhile c body) (SWhile c' body') =
  let Eh := kill (bound_block body) E in
  if vexpr (LF Eh oc) (KB Eh oc) [] c c' then
    match VRWB d Eh oc body body' with Some _ => Some Eh | None => None end
  else None.
Proof. reflexivity. Qed.
Lemma vrw_for : forall d E oc p it body p' it' body', VRW (S d) E oc (SFor p it body) (SFor p' it' body') =
  let Eh := kill (pvars p ++ bound_block body) E in
  if pat_eqb p p' && vexpr (LF E oc) (KB E oc) [] it it' then
    match VRWB d Eh oc body body' with Some _ => Some Eh | None => None end
  else None.
Proof. reflexivity. Qed.
Lemma vrw_context : forall d E oc x e body x' e' body', VRW (S d) E oc (SContext x e body) (SContext x' e' body') =
  if oident_eqb x x' && vexpr (LF E (Some CReal)) (KB E (Some CReal)) [] e e' then
    let oc' := known_ctx claim_ok guess_ctx E e' in
    let E1 := kill (ovar x) E in
    let E2 := match x, oc' with Some x, Some c => (x, ECtxVal c) :: E1 | _, _ => E1 end in
    VRWB d E2 oc' body body'
  else None.
Proof. reflexivity. Qed.
Lemma vrw_assert : forall d E oc e e', VRW (S d) E oc (SAssert e) (SAssert e') =
  if vexpr (LF E oc) (KB E oc) [] e e' then Some E else None.
Proof. reflexivity. Qed.
Lemma vrw_effect : forall d E oc e e', VRW (S d) E oc (SEffect e) (SEffect e') =
  if vexpr (LF E oc) (KB E oc) [] e e' then Some E else None.
Proof. reflexivity. Qed.
Lemma vrw_return : forall d E oc e e', VRW (S d) E oc (SReturn e) (SReturn e') =
  if vexpr (LF E oc) (KB E oc) [] e e' then Some E else None.
Proof. reflexivity. Qed.
Lemma vrwb_cons : forall d E oc st r st' r', VRWB (S d) E oc (st :: r) (st' :: r') =
  match VRW d E oc st st' with Some E1 => VRWB d E1 oc r r' | None => None end.
Proof. reflexivity. Qed.

Lemma rw_step : forall d, rw_at d -> rw_at (S d).
Proof.
  intros d (IHs & IHb). split.
  - (* statements *)
    intros E oc st st' E' Hv n s mu C o mu' HI Hc H.
    destruct n; [discriminate|]. change (S n + K)%nat with (S (n + K)).
    destruct st, st'; try (cbn [vrw] in Hv; discriminate Hv).
    + (* SAssign *)
      rewrite vrw_assign in Hv.
      match type of Hv with (if ?b then _ else _) = _ => destruct b eqn:B end; [|discriminate].
      inversion Hv; subst E'. clear Hv. apply andb_prop in B. destruct B as [Bp Be]. apply pat_eqb_eq in Bp. subst p0.
      rewrite exec_S in *. unfold exec_body in *.
      destruct (rbind_ok _ _ _ _ _ H) as ([v m1] & E1 & H1). clear H.
      pose proof (vx_rw E oc n e e0 s mu C _ Be HI Hc E1) as E1'. rewrite E1'. cbn [rbind].
      destruct (bind_pat p v s) as [s'|] eqn:Bd; cbn [lift rbind] in *; [|discriminate].
      inversion H1; subst. split; [reflexivity|]. cbn [post]. eapply Inv_gen; eassumption.
    + (* SIndexAssign *)
      rewrite vrw_iassign in Hv.
      match type of Hv with (if ?b then _ else _) = _ => destruct b eqn:B end; [|discriminate].
      inversion Hv; subst E'. clear Hv. apply andb_prop in B. destruct B as [B Be]. apply andb_prop in B. destruct B as [Bx Bi].
      apply String.eqb_eq in Bx. subst x0.
      rewrite exec_S in *. unfold exec_body in *.
      destruct (rbind_ok _ _ _ _ _ H) as ([v m1] & E1 & H1). clear H.
      rewrite (vx_rw E oc n e e0 s mu C _ Be HI Hc E1). cbn [rbind].
      destruct (env_get s x) as [cur|]; [|discriminate].
      destruct (rbind_ok _ _ _ _ _ H1) as (m2 & E2 & H2). clear H1.
      rewrite (index_walk_rw E oc idx idx0 Bi n s m1 C cur v m2 HI Hc E2). cbn [rbind].
      inversion H2; subst. split; [reflexivity | exact HI].
    + (* SIf1 *)
      rewrite vrw_if1 in Hv.
      match type of Hv with (if ?b then _ else _) = _ => destruct b eqn:B end; [|discriminate].
      destruct (vrwb K claim_ok guess_ctx d E oc body body0) as [Eb|] eqn:Vb; [|discriminate].
      inversion Hv; subst E'. clear Hv.
      pose proof (frame_all N P (S n)) as (Fex & _). pose proof (Fex _ _ _ _ _ _ H) as Hfr. cbn [bound] in Hfr.
      rewrite exec_S in *. unfold exec_body in *.
      destruct (rbind_ok _ _ _ _ _ H) as ([vc m1] & E1 & H1). clear H.
      rewrite (vx_rw E oc n c c0 s mu C _ B HI Hc E1). cbn [rbind].
      destruct (as_bool vc) as [t| |]; cbn [rbind] in *; try discriminate.
      destruct t.
      * destruct (IHb _ _ _ _ _ Vb n s m1 C o mu' HI Hc H1) as [X _]. split; [exact X|].
        eapply post_frame_kill; eassumption.
      * inversion H1; subst. split; [reflexivity|]. cbn [post]. apply Inv_weaken. exact HI.
    + (* SIf *)
      rewrite vrw_if in Hv.
      match type of Hv with (if ?b then _ else _) = _ => destruct b eqn:B end; [|discriminate].
      destruct (vrwb K claim_ok guess_ctx d E oc ift ift0) as [Et|] eqn:Vt; [|discriminate].
      destruct (vrwb K claim_ok guess_ctx d E oc iff iff0) as [Ef|] eqn:Vf; [|discriminate].
      inversion Hv; subst E'. clear Hv.
      pose proof (frame_all N P (S n)) as (Fex & _). pose proof (Fex _ _ _ _ _ _ H) as Hfr. cbn [bound] in Hfr.
      rewrite exec_S in *. unfold exec_body in *.
      destruct (rbind_ok _ _ _ _ _ H) as ([vc m1] & E1 & H1). clear H.
      rewrite (vx_rw E oc n c c0 s mu C _ B HI Hc E1). cbn [rbind].
      destruct (as_bool vc) as [t| |]; cbn [rbind] in *; try discriminate.
      destruct t.
      * destruct (IHb _ _ _ _ _ Vt n s m1 C o mu' HI Hc H1) as [X _]. split; [exact X|].
        eapply post_frame_kill; eassumption.
      * destruct (IHb _ _ _ _ _ Vf n s m1 C o mu' HI Hc H1) as [X _]. split; [exact X|].
        eapply post_frame_kill; eassumption.
    + (* SWhile *)
      rewrite vrw_while in Hv. cbv zeta in Hv.
      match type of Hv with (if ?b then _ else _) = _ => destruct b eqn:B end; [|discriminate].
      destruct (vrwb K claim_ok guess_ctx d (kill (bound_block body) E) oc body body0) as [Eb|] eqn:Vb; [|discriminate].
      inversion Hv; subst E'. clear Hv.
      change (S (n + K)) with (S n + K)%nat.
      eapply (while_rw (kill (bound_block body) E) oc c c0 body body0 B); try eassumption.
      * intros n0 s0 mu0 C0 o0 mu0' HI0 Hc0 H0. destruct (IHb _ _ _ _ _ Vb n0 s0 mu0 C0 o0 mu0' HI0 Hc0 H0) as [X _]. exact X.
      * intros s0 s0' HI0 Hk0. eapply Inv_kill_stable; [exact HI0 | exact Hk0 | apply incl_refl].
      * apply Inv_weaken. exact HI.
    + (* SFor *)
      rewrite vrw_for in Hv. cbv zeta in Hv.
      match type of Hv with (if ?b then _ else _) = _ => destruct b eqn:B end; [|discriminate].
      destruct (vrwb K claim_ok guess_ctx d (kill (pvars p ++ bound_block body) E) oc body body0) as [Eb|] eqn:Vb; [|discriminate].
      inversion Hv; subst E'. clear Hv. apply andb_prop in B. destruct B as [Bp Bi]. apply pat_eqb_eq in Bp. subst p0.
      rewrite exec_S in *. unfold exec_body in *.
      destruct (rbind_ok _ _ _ _ _ H) as ([vi m1] & E1 & H1). clear H.
      rewrite (vx_rw E oc n it it0 s mu C _ Bi HI Hc E1). cbn [rbind].
      destruct (as_list m1 vi) as [[l vs]| |]; cbn [rbind] in *; try discriminate.
      eapply (for_rw (kill (pvars p ++ bound_block body) E) oc p body body0); try eassumption.
      * intros n0 s0 mu0 C0 o0 mu0' HI0 Hc0 H0. destruct (IHb _ _ _ _ _ Vb n0 s0 mu0 C0 o0 mu0' HI0 Hc0 H0) as [X _]. exact X.
      * intros s0 s0' HI0 Hk0. eapply Inv_kill_stable; [exact HI0 | exact Hk0 | apply incl_refl].
      * apply Inv_weaken. exact HI.
    + (* SContext *)
      rewrite vrw_context in Hv. cbv zeta in Hv.
      match type of Hv with (if ?b then _ else _) = _ => destruct b eqn:B end; [|discriminate].
      apply andb_prop in B. destruct B as [Bx Be]. apply oident_eqb_eq in Bx. subst x0.
      rewrite exec_S in *. unfold exec_body in *.
      destruct (rbind_ok _ _ _ _ _ H) as ([vc m1] & E1 & H1). clear H.
      pose proof (vx_rw E (Some CReal) n e e0 s mu CReal _ Be HI eq_refl E1) as E1'. rewrite E1'. cbn [rbind].
      destruct vc; try discriminate.
      set (oc' := known_ctx claim_ok guess_ctx E e0) in *.
      assert (Hoc : ctx_ok oc' c).
      { destruct oc' as [c1|] eqn:Koc; cbn; auto. pose proof (known_ctx_ok E e0 c1 _ s mu _ _ Koc HI E1') as X. inversion X. reflexivity. }
      set (s1 := match x with Some x0 => env_set s x0 (VCtx c) | None => s end) in *.
      assert (HI1 : Inv (kill (ovar x) E) s1).
      { eapply Inv_kill; [exact HI|]. destruct x as [x|]; cbn [ovar]; subst s1; [|apply keeps_refl].
        intros z Hz. apply env_get_set_other. intro; subst; apply Hz; left; reflexivity. }
      assert (HI2 : Inv (match x, oc' with Some x0, Some c1 => (x0, ECtxVal c1) :: kill (ovar x) E | _, _ => kill (ovar x) E end) s1).
      { destruct x as [x|]; [|exact HI1]. destruct oc' as [c1|]; [|exact HI1].
        cbn in Hoc. subst c1. intros xe [<-|Hin]; [|apply HI1; exact Hin].
        unfold fact_ok. cbn [fst snd simple is_lit lit_depth sval lit_val]. split; [reflexivity|]. split; [exact HK1|].
        exists (VCtx c). split; [subst s1; apply env_get_set_same | reflexivity]. }
      destruct (IHb _ _ _ _ _ Hv n s1 m1 c o mu' HI2 Hoc H1) as [X Y]. split; assumption.
    + (* SAssert *)
      rewrite vrw_assert in Hv.
      match type of Hv with (if ?b then _ else _) = _ => destruct b eqn:B end; [|discriminate].
      inversion Hv; subst E'. rewrite exec_S in *. unfold exec_body in *.
      destruct (rbind_ok _ _ _ _ _ H) as ([v m1] & E1 & H1). clear H.
      rewrite (vx_rw E oc n e e0 s mu C _ B HI Hc E1). cbn [rbind].
      destruct (as_bool v) as [t| |]; cbn [rbind] in *; try discriminate.
      destruct t; [|discriminate]. inversion H1; subst. split; [reflexivity | exact HI].
    + (* SEffect *)
      rewrite vrw_effect in Hv.
      match type of Hv with (if ?b then _ else _) = _ => destruct b eqn:B end; [|discriminate].
      inversion Hv; subst E'. rewrite exec_S in *. unfold exec_body in *.
      destruct (rbind_ok _ _ _ _ _ H) as ([v m1] & E1 & H1). clear H.
      rewrite (vx_rw E oc n e e0 s mu C _ B HI Hc E1). cbn [rbind].
      inversion H1; subst. split; [reflexivity | exact HI].
    + (* SReturn *)
      rewrite vrw_return in Hv.
      match type of Hv with (if ?b then _ else _) = _ => destruct b eqn:B end; [|discriminate].
      inversion Hv; subst E'. rewrite exec_S in *. unfold exec_body in *.
      destruct (rbind_ok _ _ _ _ _ H) as ([v m1] & E1 & H1). clear H.
      rewrite (vx_rw E oc n e e0 s mu C _ B HI Hc E1). cbn [rbind].
      inversion H1; subst. split; [reflexivity | exact I].
    + (* SPass *)
      cbn in Hv. inversion Hv; subst E'. rewrite exec_S in *. unfold exec_body in *. inversion H; subst. split; [reflexivity | exact HI].
  - (* blocks *)
    intros E oc b b' E' Hv n s mu C o mu' HI Hc H.
    destruct n; [discriminate|]. change (S n + K)%nat with (S (n + K)).
    rewrite exec_block_S in *. unfold exec_block_body in *.
    destruct b as [|st r], b' as [|st' r']; try (cbn in Hv; discriminate Hv).
    + cbn in Hv. inversion Hv; subst E'. inversion H; subst. split; [reflexivity | exact HI].
    + rewrite vrwb_cons in Hv. destruct (vrw K claim_ok guess_ctx d E oc st st') as [E1|] eqn:V1; [|discriminate].
      destruct (rbind_ok _ _ _ _ _ H) as ([o1 m1] & X1 & H1). clear H.
      destruct (IHs _ _ _ _ _ V1 n s mu C o1 m1 HI Hc X1) as [Y1 P1]. rewrite Y1. cbn [rbind].
      destruct o1 as [s1|v1].
      * eapply IHb; eassumption.
      * inversion H1; subst. split; [reflexivity | exact I].
Qed.

Lemma rw_all : forall d, rw_at d.
Proof.
  induction d as [|d IH]; [|apply rw_step; exact IH].
  split; intros; discriminate.
Qed.

Lemma vrwb_sound : forall d E oc b b' E', vrwb K claim_ok guess_ctx d E oc b b' = Some E' ->
  forall n s mu C o mu', Inv E s -> ctx_ok oc C -> exec_block N P n s mu C b = ROk (o, mu') ->
    exec_block N P (n + K) s mu C b' = ROk (o, mu').
Proof.
  intros d E oc b b' E' Hv n s mu C o mu' HI Hc H.
  destruct (rw_all d) as (_ & X). destruct (X _ _ _ _ _ Hv n s mu C o mu' HI Hc H) as [Y _]. exact Y.
Qed.
End RW.
