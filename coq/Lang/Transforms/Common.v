(* Shared machinery of the loop / iterator restructuring models (property C08):
   the INTEGER context constant, a state monad for name supply, one-level
   monadic maps over expressions and blocks, renaming (RenameTarget), the set of
   names of a function, and alpha-equivalence of functions (the structural
   comparison of a real transform output with the model's output, modulo the
   spelling of generated temporaries).  Definitions only. *)
From Coq Require Import ZArith List Bool String Ascii.
From FpyV Require Import Num.RealFloat Num.Float Num.CtxDef Lang.Syntax Lang.Values.
Import ListNotations.
Open Scope Z_scope.

(* fp.INTEGER = MPFixedContext(-1, RM.RTZ, enable_neg_zero=False), as exported *)
Definition CInteger : ctx := CMPFixed (-1) RTZ (Some 0) (SP false false None None) false.

Definition int_lit (z : Z) : expr := ENum (FFin (RF (z <? 0) 0 (Z.abs z))).

(* transform/utils.py: integer_ctx *)
Definition integer_ctx (b : block) : stmt := SContext None (ECtxVal CInteger) b.

(* `where`: an index (preorder), a cursor naming the n-th site (selects every
   candidate at or beneath it), or None (all) *)
Inductive sel := SelAll | SelIdx (n : nat) | SelUnder (n : nat).

Definition selected (w : sel) (inside : bool) (idx : nat) : bool :=
  match w with
  | SelAll => true
  | SelIdx n => Nat.eqb idx n
  | SelUnder n => inside || Nat.eqb idx n
  end.

Definition enters (w : sel) (inside : bool) (idx : nat) : bool :=
  inside || match w with SelUnder n => Nat.eqb idx n | _ => false end.

(* ---------------------------------------------------------------- fresh names *)
(* utils/gensym.py guarantees a name distinct from the reserved names (all
   names of the function) and from every name generated before.  The model's
   supply: the i-th generated name is a run of L+1+i underscores, L the length
   of the longest reserved name -- fresh and pairwise distinct by length. *)
Fixpoint underscores (n : nat) : string :=
  match n with O => EmptyString | S n' => String "_"%char (underscores n') end.

Definition gen_name (L : nat) (i : nat) : ident := underscores (S (L + i)).

Definition max_len (l : list ident) : nat := fold_right (fun x m => Nat.max (String.length x) m) O l.

(* ---------------------------------------------------------------- one-level maps *)
Section MapM.
Variable S : Type.

Definition listM {A B} (f : A -> S -> B * S) : list A -> S -> list B * S :=
  fix go (l : list A) (s : S) : list B * S :=
  match l with
  | [] => ([], s)
  | x :: r => let '(y, s1) := f x s in let '(ys, s2) := go r s1 in (y :: ys, s2)
  end.

Definition optM {A B} (f : A -> S -> B * S) (o : option A) (s : S) : option B * S :=
  match o with None => (None, s) | Some x => let '(y, s1) := f x s in (Some y, s1) end.

(* children visited in the order of ast/visitor.py DefaultTransformVisitor *)
Definition emapM (f : expr -> S -> expr * S) (e : expr) (s : S) : expr * S :=
  match e with
  | EVar _ | ENum _ | ERat _ _ | EBool _ | ECtxVal _ | EOp0 _ => (e, s)
  | EOp1 o a => let '(a', s1) := f a s in (EOp1 o a', s1)
  | EOp2 o a b => let '(a', s1) := f a s in let '(b', s2) := f b s1 in (EOp2 o a' b', s2)
  | EOp3 o a b c =>
      let '(a', s1) := f a s in let '(b', s2) := f b s1 in let '(c', s3) := f c s2 in (EOp3 o a' b' c', s3)
  | EPred p a => let '(a', s1) := f a s in (EPred p a', s1)
  | ECompare ops args => let '(l, s1) := listM f args s in (ECompare ops l, s1)
  | EAnd args => let '(l, s1) := listM f args s in (EAnd l, s1)
  | EOr args => let '(l, s1) := listM f args s in (EOr l, s1)
  | ENot a => let '(a', s1) := f a s in (ENot a', s1)
  | EIf c a b =>
      let '(c', s1) := f c s in let '(a', s2) := f a s1 in let '(b', s3) := f b s2 in (EIf c' a' b', s3)
  | ETuple es => let '(l, s1) := listM f es s in (ETuple l, s1)
  | EFst a => let '(a', s1) := f a s in (EFst a', s1)
  | ESnd a => let '(a', s1) := f a s in (ESnd a', s1)
  | EList es => let '(l, s1) := listM f es s in (EList l, s1)
  | ERef a i => let '(a', s1) := f a s in let '(i', s2) := f i s1 in (ERef a' i', s2)
  | ESlice a lo hi =>
      let '(a', s1) := f a s in let '(lo', s2) := optM f lo s1 in let '(hi', s3) := optM f hi s2 in
      (ESlice a' lo' hi', s3)
  | EComp gens elt =>
      let '(gens', s1) := listM (fun g s => let '(it', s') := f (snd g) s in ((fst g, it'), s')) gens s in
      let '(elt', s2) := f elt s1 in
      (EComp gens' elt', s2)
  | ELen a => let '(a', s1) := f a s in (ELen a', s1)
  | ERange1 a => let '(a', s1) := f a s in (ERange1 a', s1)
  | ERange2 a b => let '(a', s1) := f a s in let '(b', s2) := f b s1 in (ERange2 a' b', s2)
  | ERange3 a b c =>
      let '(a', s1) := f a s in let '(b', s2) := f b s1 in let '(c', s3) := f c s2 in (ERange3 a' b' c', s3)
  | EZip es => let '(l, s1) := listM f es s in (EZip l, s1)
  | EEnumerate a => let '(a', s1) := f a s in (EEnumerate a', s1)
  | EEmpty es => let '(l, s1) := listM f es s in (EEmpty l, s1)
  | EDim a => let '(a', s1) := f a s in (EDim a', s1)
  | ESize a d => let '(a', s1) := f a s in let '(d', s2) := f d s1 in (ESize a' d', s2)
  | ESum a => let '(a', s1) := f a s in (ESum a', s1)
  | EAMin a => let '(a', s1) := f a s in (EAMin a', s1)
  | EAMax a => let '(a', s1) := f a s in (EAMax a', s1)
  | EMin es => let '(l, s1) := listM f es s in (EMin l, s1)
  | EMax es => let '(l, s1) := listM f es s in (EMax l, s1)
  | EAny a => let '(a', s1) := f a s in (EAny a', s1)
  | EAll a => let '(a', s1) := f a s in (EAll a', s1)
  | ECall g args => let '(l, s1) := listM f args s in (ECall g l, s1)
  | ECtor k args => let '(l, s1) := listM f args s in (ECtor k l, s1)
  end.

(* a statement handler returns the statements that replace the statement *)
Definition bmapM (f : stmt -> S -> list stmt * S) : block -> S -> block * S :=
  fix go (b : block) (s : S) : block * S :=
  match b with
  | [] => ([], s)
  | st :: r => let '(ss, s1) := f st s in let '(rr, s2) := go r s1 in (ss ++ rr, s2)
  end.
End MapM.
Arguments listM {S A B} f l s.
Arguments optM {S A B} f o s.
Arguments emapM {S} f e s.
Arguments bmapM {S} f b s.

(* pure one-level map *)
Definition emap (f : expr -> expr) (e : expr) : expr :=
  fst (emapM (fun a (u : unit) => (f a, u)) e tt).

(* ---------------------------------------------------------------- renaming (transform/rename_target.py) *)
Definition ren_id (r : list (ident * ident)) (x : ident) : ident :=
  match find (fun p => String.eqb x (fst p)) r with Some p => snd p | None => x end.

Fixpoint ren_pat (r : list (ident * ident)) (p : pat) : pat :=
  match p with
  | PVar x => PVar (ren_id r x)
  | PWild => PWild
  | PTuple ps => PTuple (map (ren_pat r) ps)
  end.

(* RenameTarget renames uses, targets and comprehension targets alike (no scoping) *)
Fixpoint ren_expr (r : list (ident * ident)) (e : expr) : expr :=
  match e with
  | EVar x => EVar (ren_id r x)
  | EComp gens elt =>
      EComp (map (fun g => (ren_pat r (fst g), ren_expr r (snd g))) gens) (ren_expr r elt)
  | _ => emap (ren_expr r) e
  end.

Fixpoint ren_stmt (r : list (ident * ident)) (st : stmt) : stmt :=
  match st with
  | SAssign p e => SAssign (ren_pat r p) (ren_expr r e)
  | SIndexAssign x idx e => SIndexAssign (ren_id r x) (map (ren_expr r) idx) (ren_expr r e)
  | SIf1 c b => SIf1 (ren_expr r c) (map (ren_stmt r) b)
  | SIf c t f => SIf (ren_expr r c) (map (ren_stmt r) t) (map (ren_stmt r) f)
  | SWhile c b => SWhile (ren_expr r c) (map (ren_stmt r) b)
  | SFor p it b => SFor (ren_pat r p) (ren_expr r it) (map (ren_stmt r) b)
  | SContext x e b => SContext x (ren_expr r e) (map (ren_stmt r) b)
  | SAssert e => SAssert (ren_expr r e)
  | SEffect e => SEffect (ren_expr r e)
  | SReturn e => SReturn (ren_expr r e)
  | SPass => SPass
  end.

Definition ren_block (r : list (ident * ident)) (b : block) : block := map (ren_stmt r) b.

(* ---------------------------------------------------------------- generic trees *)
Inductive atom :=
  | AStr (s : string) | AFl (f : fl) | ARat (n d : Z) | ABool (b : bool) | AOp (o : op) | APred (p : pred)
  | ACmps (l : list cmpop) | ACtx (c : ctx) | ACtor (k : ctor).

Inductive tree := T (tag : string) (atoms : list atom) (vars : list ident) (kids : list tree).

Open Scope string_scope.

Fixpoint tree_of_pat (p : pat) : tree :=
  match p with
  | PVar x => T "pvar" [] [x] []
  | PWild => T "pwild" [] [] []
  | PTuple ps => T "ptuple" [] [] (map tree_of_pat ps)
  end.

Fixpoint tree_of_expr (e : expr) : tree :=
  let opt := fun o : option expr => match o with None => T "none" [] [] [] | Some a => T "some" [] [] [tree_of_expr a] end in
  match e with
  | EVar x => T "var" [] [x] []
  | ENum v => T "num" [AFl v] [] []
  | ERat n d => T "rat" [ARat n d] [] []
  | EBool b => T "bool" [ABool b] [] []
  | ECtxVal c => T "ctxval" [ACtx c] [] []
  | EOp0 o => T "op0" [AOp o] [] []
  | EOp1 o a => T "op1" [AOp o] [] [tree_of_expr a]
  | EOp2 o a b => T "op2" [AOp o] [] [tree_of_expr a; tree_of_expr b]
  | EOp3 o a b c => T "op3" [AOp o] [] [tree_of_expr a; tree_of_expr b; tree_of_expr c]
  | EPred p a => T "pred" [APred p] [] [tree_of_expr a]
  | ECompare ops args => T "cmp" [ACmps ops] [] (map tree_of_expr args)
  | EAnd args => T "and" [] [] (map tree_of_expr args)
  | EOr args => T "or" [] [] (map tree_of_expr args)
  | ENot a => T "not" [] [] [tree_of_expr a]
  | EIf c a b => T "ife" [] [] [tree_of_expr c; tree_of_expr a; tree_of_expr b]
  | ETuple es => T "tuple" [] [] (map tree_of_expr es)
  | EFst a => T "fst" [] [] [tree_of_expr a]
  | ESnd a => T "snd" [] [] [tree_of_expr a]
  | EList es => T "list" [] [] (map tree_of_expr es)
  | ERef a i => T "ref" [] [] [tree_of_expr a; tree_of_expr i]
  | ESlice a lo hi => T "slice" [] [] [tree_of_expr a; opt lo; opt hi]
  | EComp gens elt =>
      T "comp" [] [] (tree_of_expr elt :: map (fun g => T "gen" [] [] [tree_of_pat (fst g); tree_of_expr (snd g)]) gens)
  | ELen a => T "len" [] [] [tree_of_expr a]
  | ERange1 a => T "range1" [] [] [tree_of_expr a]
  | ERange2 a b => T "range2" [] [] [tree_of_expr a; tree_of_expr b]
  | ERange3 a b c => T "range3" [] [] [tree_of_expr a; tree_of_expr b; tree_of_expr c]
  | EZip es => T "zip" [] [] (map tree_of_expr es)
  | EEnumerate a => T "enumerate" [] [] [tree_of_expr a]
  | EEmpty es => T "empty" [] [] (map tree_of_expr es)
  | EDim a => T "dim" [] [] [tree_of_expr a]
  | ESize a d => T "size" [] [] [tree_of_expr a; tree_of_expr d]
  | ESum a => T "sum" [] [] [tree_of_expr a]
  | EAMin a => T "amin" [] [] [tree_of_expr a]
  | EAMax a => T "amax" [] [] [tree_of_expr a]
  | EMin es => T "min" [] [] (map tree_of_expr es)
  | EMax es => T "max" [] [] (map tree_of_expr es)
  | EAny a => T "any" [] [] [tree_of_expr a]
  | EAll a => T "all" [] [] [tree_of_expr a]
  | ECall g args => T "call" [AStr g] [] (map tree_of_expr args)
  | ECtor k args => T "ctor" [ACtor k] [] (map tree_of_expr args)
  end.

Fixpoint tree_of_stmt (st : stmt) : tree :=
  match st with
  | SAssign p e => T "assign" [] [] [tree_of_pat p; tree_of_expr e]
  | SIndexAssign x idx e => T "iassign" [] [x] (tree_of_expr e :: map tree_of_expr idx)
  | SIf1 c b => T "if1" [] [] [tree_of_expr c; T "block" [] [] (map tree_of_stmt b)]
  | SIf c t f => T "if" [] [] [tree_of_expr c; T "block" [] [] (map tree_of_stmt t); T "block" [] [] (map tree_of_stmt f)]
  | SWhile c b => T "while" [] [] [tree_of_expr c; T "block" [] [] (map tree_of_stmt b)]
  | SFor p it b => T "for" [] [] [tree_of_pat p; tree_of_expr it; T "block" [] [] (map tree_of_stmt b)]
  | SContext x e b =>
      T "with" [] (match x with Some x => [x] | None => [] end) [tree_of_expr e; T "block" [] [] (map tree_of_stmt b)]
  | SAssert e => T "assert" [] [] [tree_of_expr e]
  | SEffect e => T "effect" [] [] [tree_of_expr e]
  | SReturn e => T "return" [] [] [tree_of_expr e]
  | SPass => T "pass" [] [] []
  end.

Definition tree_of_func (f : func) : tree :=
  T "func" (match f_ctx f with Some c => [ACtx c] | None => [] end) (f_params f)
    [T "block" [] [] (map tree_of_stmt (f_body f))].

(* every identifier occurring anywhere (parameters, uses, targets, comprehension targets) *)
Fixpoint tree_names (t : tree) : list ident :=
  match t with T _ _ vs kids => vs ++ flat_map tree_names kids end.

Definition func_names (f : func) : list ident := tree_names (tree_of_func f).
Definition block_names (b : block) : list ident := flat_map (fun st => tree_names (tree_of_stmt st)) b.
Definition expr_names (e : expr) : list ident := tree_names (tree_of_expr e).

(* ---------------------------------------------------------------- equality of atoms *)
Definition pred_eqb (a b : pred) : bool :=
  match a, b with
  | PIsNan, PIsNan | PIsInf, PIsInf | PIsFinite, PIsFinite | PIsNormal, PIsNormal | PSignbit, PSignbit => true
  | _, _ => false
  end.

Definition cmpop_eqb (a b : cmpop) : bool :=
  match a, b with
  | CLt, CLt | CLe, CLe | CGe, CGe | CGt, CGt | CEq, CEq | CNe, CNe => true
  | _, _ => false
  end.

Fixpoint list_eqb {A} (eq : A -> A -> bool) (l m : list A) : bool :=
  match l, m with
  | [], [] => true
  | x :: l', y :: m' => eq x y && list_eqb eq l' m'
  | _, _ => false
  end.

Definition ctor_eqb (a b : ctor) : bool :=
  match a, b with
  | KMPFloat r, KMPFloat r' => rmode_eqb r r'
  | KMPSFloat r, KMPSFloat r' => rmode_eqb r r'
  | KMPBFloat r o, KMPBFloat r' o' => rmode_eqb r r' && ovmode_eqb o o'
  | KIEEE r o, KIEEE r' o' => rmode_eqb r r' && ovmode_eqb o o'
  | KMPFixed r, KMPFixed r' => rmode_eqb r r'
  | KFixed s r o, KFixed s' r' o' => Bool.eqb s s' && rmode_eqb r r' && ovmode_eqb o o'
  | KSMFixed r o, KSMFixed r' o' => rmode_eqb r r' && ovmode_eqb o o'
  | KExp r o, KExp r' o' => rmode_eqb r r' && ovmode_eqb o o'
  | _, _ => false
  end.

(* literals are compared as the numbers they denote (sign of zero included) *)
Definition atom_eqb (a b : atom) : bool :=
  match a, b with
  | AStr x, AStr y => String.eqb x y
  | AFl x, AFl y => fl_same x y
  | ARat n d, ARat n' d' => Z.eqb n n' && Z.eqb d d'
  | ABool x, ABool y => Bool.eqb x y
  | AOp x, AOp y => op_eqb x y
  | APred x, APred y => pred_eqb x y
  | ACmps x, ACmps y => list_eqb cmpop_eqb x y
  | ACtx x, ACtx y => ctx_eqb x y
  | ACtor x, ACtor y => ctor_eqb x y
  | _, _ => false
  end.

(* ---------------------------------------------------------------- alpha-equivalence *)
(* A partial bijection between the names of the two sides, grown at first
   occurrences; names in `fixed` (the names of the untransformed function)
   may only correspond to themselves. *)
Definition amap := list (ident * ident).

Definition mem (x : ident) (l : list ident) : bool := existsb (String.eqb x) l.

Definition a_var (fixed : list ident) (x y : ident) (m : amap) : option amap :=
  match find (fun p => String.eqb x (fst p)) m with
  | Some p => if String.eqb y (snd p) then Some m else None
  | None =>
      if existsb (fun p => String.eqb y (snd p)) m then None
      else if (mem x fixed || mem y fixed) && negb (String.eqb x y) then None
      else Some ((x, y) :: m)
  end.

(* the relaxed correspondence: a FUNCTION from the names of the left side (identity on `fixed` names of the
   left side), not required to be injective.  "Relaxed holds, strict fails" = the right side is the left side
   with a generated name merged into another name: a name collision. *)
Definition a_var_relaxed (fixed : list ident) (x y : ident) (m : amap) : option amap :=
  match find (fun p => String.eqb x (fst p)) m with
  | Some p => if String.eqb y (snd p) then Some m else None
  | None => if mem x fixed && negb (String.eqb x y) then None else Some ((x, y) :: m)
  end.

Fixpoint a_vars (av : ident -> ident -> amap -> option amap) (xs ys : list ident) (m : amap) : option amap :=
  match xs, ys with
  | [], [] => Some m
  | x :: xs', y :: ys' => match av x y m with Some m1 => a_vars av xs' ys' m1 | None => None end
  | _, _ => None
  end.

Fixpoint a_tree (av : ident -> ident -> amap -> option amap) (t u : tree) (m : amap) : option amap :=
  match t, u with
  | T g a v k, T g' a' v' k' =>
      if String.eqb g g' && list_eqb atom_eqb a a' then
        match a_vars av v v' m with
        | Some m1 =>
            (fix go (k k' : list tree) (m : amap) : option amap :=
               match k, k' with
               | [], [] => Some m
               | x :: r, y :: r' => match a_tree av x y m with Some m' => go r r' m' | None => None end
               | _, _ => None
               end) k k' m1
        | None => None
        end
      else None
  end.

(* the structural comparison: `g` (a real transform output) equals `f` (the
   model's output) up to a bijective renaming that fixes the names in `fixed` *)
Definition func_alpha_eqb (fixed : list ident) (f g : func) : bool :=
  match a_tree (a_var fixed) (tree_of_func f) (tree_of_func g) [] with Some _ => true | None => false end.

Definition func_alpha_relaxed (fixed : list ident) (f g : func) : bool :=
  match a_tree (a_var_relaxed fixed) (tree_of_func f) (tree_of_func g) [] with Some _ => true | None => false end.

(* ---------------------------------------------------------------- programs *)
Fixpoint prog_update (P : program) (f : ident) (T : func -> func) : program :=
  match P with
  | [] => []
  | (g, fn) :: P' => if String.eqb f g then (g, T fn) :: P' else (g, fn) :: prog_update P' f T
  end.

Definition set_body (fn : func) (b : block) : func := Func (f_params fn) (f_ctx fn) b.
