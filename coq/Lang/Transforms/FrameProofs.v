(* The frame property of the allocation-free fragment (Frame.v): running such
   code in an environment that agrees outside the temporaries X, on a store with
   extra cells appended, gives the same outcome, leaves the extra cells and the
   temporaries alone, and keeps the shape of the store.  Proofs. *)
From Coq Require Import ZArith List Bool String Lia.
From FpyV Require Import Num.RealFloat Num.Float Num.CtxDef Lang.Syntax Lang.Values Lang.Sem Lang.SemMono
  Lang.Transforms.Common Lang.Transforms.Frame.
Import ListNotations.
Open Scope list_scope.

(* ---------------------------------------------------------------- environments *)
Lemma env_get_set_same : forall s x v, env_get (env_set s x v) x = Some v.
Proof.
  induction s as [|[y w] s IH]; intros; cbn.
  - rewrite String.eqb_refl. reflexivity.
  - destruct (String.eqb x y) eqn:E; cbn; rewrite E; auto.
Qed.

Lemma env_get_set_other : forall s x y v, x <> y -> env_get (env_set s x v) y = env_get s y.
Proof.
  induction s as [|[z w] s IH]; intros; cbn.
  - destruct (String.eqb y x) eqn:E; auto. apply String.eqb_eq in E. congruence.
  - destruct (String.eqb x z) eqn:E; cbn.
    + apply String.eqb_eq in E. subst z.
      destruct (String.eqb y x) eqn:E2; auto. apply String.eqb_eq in E2. congruence.
    + destruct (String.eqb y z); auto.
Qed.

Lemma env_get_set : forall s x y v,
  env_get (env_set s x v) y = if String.eqb y x then Some v else env_get s y.
Proof.
  intros. destruct (String.eqb y x) eqn:E.
  - apply String.eqb_eq in E. subst. apply env_get_set_same.
  - apply env_get_set_other. intro; subst. rewrite String.eqb_refl in E. discriminate.
Qed.

Section WithX.
Variable X : list ident.

Lemma agree_refl : forall s, agree X s s.
Proof. intros s x _. reflexivity. Qed.

Lemma keep_refl : forall s, keep X s s.
Proof. intros s x _. reflexivity. Qed.

Lemma keep_trans : forall a b c, keep X a b -> keep X b c -> keep X a c.
Proof. intros a b c H1 H2 x Hx. rewrite (H2 x Hx). apply H1, Hx. Qed.

Lemma agree_set : forall s s' x v, agree X s s' -> agree X (env_set s x v) (env_set s' x v).
Proof. intros s s' x v H y Hy. rewrite !env_get_set. destruct (String.eqb y x); auto. Qed.

Lemma keep_set : forall s' x v, ok_id X x = true -> keep X s' (env_set s' x v).
Proof.
  intros s' x v Hx y Hy. rewrite env_get_set. destruct (String.eqb y x) eqn:E; auto.
  apply String.eqb_eq in E. subst. congruence.
Qed.

(* binding a pattern that avoids X *)
Lemma bind_pat_frame : forall p v s s' s1,
  ok_pat X p = true -> agree X s s' -> bind_pat p v s = Ok s1 ->
  exists s1', bind_pat p v s' = Ok s1' /\ agree X s1 s1' /\ keep X s' s1'.
Proof.
  fix IH 1. intros p v s s' s1 Hok Ha Hb. destruct p as [x| |ps].
  - cbn in *. inversion Hb; subst. eexists; split; [reflexivity|]. split; [apply agree_set, Ha | apply keep_set, Hok].
  - cbn in *. inversion Hb; subst. eexists; split; [reflexivity|]. split; [exact Ha | apply keep_refl].
  - cbn [bind_pat] in *. destruct v; try discriminate.
    destruct (negb (Nat.eqb (List.length ps) (List.length vs))); [discriminate|].
    cbn [ok_pat] in Hok. revert vs s s' s1 Ha Hb.
    induction ps as [|p ps IHps]; intros vs s s' s1 Ha Hb.
    + inversion Hb; subst. eexists; split; [reflexivity|]. split; [exact Ha | apply keep_refl].
    + destruct vs as [|v vs].
      * inversion Hb; subst. eexists; split; [reflexivity|]. split; [exact Ha | apply keep_refl].
      * cbn [forallb] in Hok. apply andb_true_iff in Hok as [Hp Hps].
        destruct (bind_pat p v s) as [s2|] eqn:E; cbn [bind] in Hb; [|discriminate].
        destruct (IH p v s s' s2 Hp Ha E) as (s2' & E' & Ha2 & Hk2).
        destruct (IHps Hps vs s2 s2' s1 Ha2 Hb) as (s1' & E1 & Ha1 & Hk1).
        exists s1'. split; [|split; [exact Ha1 | eapply keep_trans; eauto]].
        rewrite E'. cbn [bind]. exact E1.
Qed.

(* ---------------------------------------------------------------- stores with extra cells appended *)
Lemma store_get_app : forall mu g l vs, store_get mu l = Some vs -> store_get (mu ++ g) l = Some vs.
Proof.
  unfold store_get. intros mu g l vs H. rewrite nth_error_app1; auto.
  apply nth_error_Some. congruence.
Qed.

Lemma as_list_app : forall mu g v r, as_list mu v = ROk r -> as_list (mu ++ g) v = ROk r.
Proof.
  intros mu g v r H. destruct v; try discriminate. cbn in *.
  destruct (store_get mu l) as [vs|] eqn:E; [|discriminate]. rewrite (store_get_app _ g _ _ E). exact H.
Qed.

Lemma list_set_length : forall A (l : list A) i v, List.length (list_set l i v) = List.length l.
Proof. induction l; destruct i; cbn; auto. Qed.

Lemma list_set_app : forall A (l g : list A) i v, (i < List.length l)%nat -> list_set (l ++ g) i v = list_set l i v ++ g.
Proof. induction l as [|a l IH]; intros g i v H; cbn in *; [lia|]. destruct i; cbn; [reflexivity|]. rewrite IH; auto. lia. Qed.

Lemma store_set_app : forall mu g l i v vs, store_get mu l = Some vs ->
  store_set (mu ++ g) l i v = store_set mu l i v ++ g.
Proof.
  intros mu g l i v vs H. unfold store_set. pose proof (store_get_app _ g _ _ H) as H'.
  unfold store_get in *. rewrite H, H'. apply list_set_app. apply nth_error_Some. congruence.
Qed.

Lemma list_set_map_length : forall (mu : store) l c, nth_error mu l = Some c ->
  forall c', List.length c' = List.length c -> shape (list_set mu l c') = shape mu.
Proof.
  unfold shape. induction mu as [|a mu IH]; intros l c H c' Hc; destruct l; cbn in *; try discriminate.
  - inversion H; subst. congruence.
  - f_equal. eapply IH; eauto.
Qed.

Lemma shape_store_set : forall mu l i v, shape (store_set mu l i v) = shape mu.
Proof.
  intros. unfold store_set. destruct (nth_error mu l) as [vs|] eqn:E; [|reflexivity].
  eapply list_set_map_length; eauto. apply list_set_length.
Qed.

(* ---------------------------------------------------------------- value_eq *)
Section WithN.
Variable N : numops.
(* code of the fragment calls nothing, so the two sides may even run under different programs *)
Variables P P' : program.

Lemma eq_lists_app : forall (v1 v2 : value -> value -> res bool),
  (forall a b r, v1 a b = ROk r -> v2 a b = ROk r) ->
  forall l m r, eq_lists v1 l m = ROk r -> eq_lists v2 l m = ROk r.
Proof.
  intros v1 v2 H. induction l as [|x l IH]; intros [|y m] r E; cbn [eq_lists] in *; auto.
  destruct (v1 x y) as [e| |] eqn:Ev; cbn [rbind] in E; try discriminate.
  rewrite (H _ _ _ Ev). cbn [rbind]. destruct e; auto.
Qed.

Lemma value_eq_app : forall n mu g a b r,
  value_eq N n mu a b = ROk r -> value_eq N n (mu ++ g) a b = ROk r.
Proof.
  induction n as [|n IH]; intros mu g a b r H; [discriminate|].
  cbn [value_eq] in *. unfold value_eq_body in *.
  assert (Hl : forall l m r, eq_lists (value_eq N n mu) l m = ROk r -> eq_lists (value_eq N n (mu ++ g)) l m = ROk r).
  { apply eq_lists_app. intros. apply IH. assumption. }
  destruct a, b; try discriminate; try exact H.
  - destruct (Nat.eqb _ _); auto.
  - destruct (store_get mu l) as [vs|] eqn:E1; [|discriminate].
    destruct (store_get mu l0) as [ws|] eqn:E2; [|discriminate].
    rewrite (store_get_app _ g _ _ E1), (store_get_app _ g _ _ E2).
    destruct (Nat.eqb _ _); auto.
Qed.

(* ---------------------------------------------------------------- expressions of the fragment *)
(* they change nothing in the store, and are insensitive to the temporaries and the extra cells *)
Definition fe_eval (n : nat) : Prop :=
  forall e s s' mu g C v mu1, ok_expr X e = true -> agree X s s' ->
    eval N P n s mu C e = ROk (v, mu1) -> mu1 = mu /\ eval N P' n s' (mu ++ g) C e = ROk (v, mu ++ g).

Definition fe_evals (n : nat) : Prop :=
  forall es s s' mu g C vs mu1, forallb (ok_expr X) es = true -> agree X s s' ->
    evals N P n s mu C es = ROk (vs, mu1) -> mu1 = mu /\ evals N P' n s' (mu ++ g) C es = ROk (vs, mu ++ g).

Definition fe_cmp (n : nat) : Prop :=
  forall args s s' mu g C v0 ops v mu1, forallb (ok_expr X) args = true -> agree X s s' ->
    cmp_chain N P n s mu C v0 ops args = ROk (v, mu1) ->
    mu1 = mu /\ cmp_chain N P' n s' (mu ++ g) C v0 ops args = ROk (v, mu ++ g).

Definition fe_bool (n : nat) : Prop :=
  forall args s s' mu g C u v mu1, forallb (ok_expr X) args = true -> agree X s s' ->
    bool_chain N P n s mu C u args = ROk (v, mu1) ->
    mu1 = mu /\ bool_chain N P' n s' (mu ++ g) C u args = ROk (v, mu ++ g).

(* one bind step: the sub-evaluation succeeded; transport it with the induction hypothesis *)
Ltac bind_in H :=
  match type of H with
  | rbind ?c _ = ROk _ =>
      let E := fresh "E" in
      destruct c as [?| |] eqn:E; cbn [rbind] in H; [cbn [rbind]|discriminate H|discriminate H]
  end.

Ltac split_pairs :=
  repeat match goal with
  | p : (_ * _)%type |- _ => destruct p
  end.

Lemma frame_expr_all : forall n, fe_eval n /\ fe_evals n /\ fe_cmp n /\ fe_bool n.
Proof.
  induction n as [|n (IHe & IHs & IHc & IHb)].
  - unfold fe_eval, fe_evals, fe_cmp, fe_bool. split; [|split; [|split]]; intros; discriminate.
  - assert (Hone : forall a s s' mu g C v mu1 (k : value * store -> res (value * store)),
              ok_expr X a = true -> agree X s s' -> eval N P n s mu C a = ROk (v, mu1) ->
              mu1 = mu /\ rbind (eval N P' n s' (mu ++ g) C a) k = k (v, mu ++ g)).
    { intros a s s' mu g C v mu1 k Hok Ha E. destruct (IHe _ _ _ _ g _ _ _ Hok Ha E) as [-> E']. rewrite E'. auto. }
    split; [|split; [|split]].
    + (* eval *)
      intros e s s' mu g C v mu1 Hok Ha H. rewrite eval_S in *. unfold eval_body in *.
      destruct e; cbn [ok_expr] in Hok; try discriminate Hok.
      * (* EVar *) rewrite <- (Ha x Hok). destruct (env_get s x); inversion H; subst; auto.
      * inversion H; auto.
      * destruct (Z.eqb d 0); inversion H; auto.
      * inversion H; auto.
      * inversion H; auto.
      * (* EOp0 *) bind_in H. inversion H; subst; auto.
      * (* EOp1 *)
        bind_in H. split_pairs. destruct (IHe _ _ _ _ g _ _ _ Hok Ha E) as [-> E']. rewrite E'. cbn [rbind].
        bind_in H. bind_in H. inversion H; subst; auto.
      * (* EOp2 *)
        apply andb_true_iff in Hok as [Hk1 Hk2].
        bind_in H. split_pairs. destruct (IHe _ _ _ _ g _ _ _ Hk1 Ha E) as [-> E']. rewrite E'. cbn [rbind].
        bind_in H. split_pairs. destruct (IHe _ _ _ _ g _ _ _ Hk2 Ha E0) as [-> E0']. rewrite E0'. cbn [rbind].
        bind_in H. bind_in H. bind_in H. inversion H; subst; auto.
      * (* EOp3 *)
        apply andb_true_iff in Hok as [Hk12 Hk3]. apply andb_true_iff in Hk12 as [Hk1 Hk2].
        bind_in H. split_pairs. destruct (IHe _ _ _ _ g _ _ _ Hk1 Ha E) as [-> E']. rewrite E'. cbn [rbind].
        bind_in H. split_pairs. destruct (IHe _ _ _ _ g _ _ _ Hk2 Ha E0) as [-> E0']. rewrite E0'. cbn [rbind].
        bind_in H. split_pairs. destruct (IHe _ _ _ _ g _ _ _ Hk3 Ha E1) as [-> E1']. rewrite E1'. cbn [rbind].
        bind_in H. bind_in H. bind_in H. bind_in H. inversion H; subst; auto.
      * (* EPred *)
        bind_in H. split_pairs. destruct (IHe _ _ _ _ g _ _ _ Hok Ha E) as [-> E']. rewrite E'. cbn [rbind].
        bind_in H. inversion H; subst; auto.
      * (* ECompare *)
        destruct args as [|a rest]; [discriminate H|]. cbn [forallb] in Hok. apply andb_true_iff in Hok as [Hk1 Hk2].
        bind_in H. split_pairs. destruct (IHe _ _ _ _ g _ _ _ Hk1 Ha E) as [-> E']. rewrite E'. cbn [rbind].
        eapply IHc; eauto.
      * (* EAnd *) eapply IHb; eauto.
      * (* EOr *) eapply IHb; eauto.
      * (* ENot *)
        bind_in H. split_pairs. destruct (IHe _ _ _ _ g _ _ _ Hok Ha E) as [-> E']. rewrite E'. cbn [rbind].
        bind_in H. inversion H; subst; auto.
      * (* EIf *)
        apply andb_true_iff in Hok as [Hk12 Hk3]. apply andb_true_iff in Hk12 as [Hk1 Hk2].
        bind_in H. split_pairs. destruct (IHe _ _ _ _ g _ _ _ Hk1 Ha E) as [-> E']. rewrite E'. cbn [rbind].
        bind_in H. match type of H with (if ?t then _ else _) = _ => destruct t end; eapply IHe; eauto.
      * (* ETuple *)
        bind_in H. split_pairs. destruct (IHs _ _ _ _ g _ _ _ Hok Ha E) as [-> E']. rewrite E'. cbn [rbind].
        inversion H; subst; auto.
      * (* EFst *)
        bind_in H. split_pairs. destruct (IHe _ _ _ _ g _ _ _ Hok Ha E) as [-> E']. rewrite E'. cbn [rbind].
        destruct v0 as [| | |[|x [|y [|? ?]]]| |]; inversion H; subst; auto.
      * (* ESnd *)
        bind_in H. split_pairs. destruct (IHe _ _ _ _ g _ _ _ Hok Ha E) as [-> E']. rewrite E'. cbn [rbind].
        destruct v0 as [| | |[|x [|y [|? ?]]]| |]; inversion H; subst; auto.
      * (* ERef *)
        apply andb_true_iff in Hok as [Hk1 Hk2].
        bind_in H. split_pairs. destruct (IHe _ _ _ _ g _ _ _ Hk1 Ha E) as [-> E']. rewrite E'. cbn [rbind].
        bind_in H. split_pairs. destruct (IHe _ _ _ _ g _ _ _ Hk2 Ha E0) as [-> E0']. rewrite E0'. cbn [rbind].
        bind_in H. bind_in H. split_pairs. rewrite (as_list_app _ g _ _ E2). cbn [rbind].
        bind_in H. inversion H; subst; auto.
      * (* ELen *)
        bind_in H. split_pairs. destruct (IHe _ _ _ _ g _ _ _ Hok Ha E) as [-> E']. rewrite E'. cbn [rbind].
        bind_in H. split_pairs. rewrite (as_list_app _ g _ _ E0). cbn [rbind]. inversion H; subst; auto.
      * (* ESum *)
        bind_in H. split_pairs. destruct (IHe _ _ _ _ g _ _ _ Hok Ha E) as [-> E']. rewrite E'. cbn [rbind].
        bind_in H. split_pairs. rewrite (as_list_app _ g _ _ E0). cbn [rbind].
        bind_in H. inversion H; subst; auto.
      * (* EAMin *)
        bind_in H. split_pairs. destruct (IHe _ _ _ _ g _ _ _ Hok Ha E) as [-> E']. rewrite E'. cbn [rbind].
        bind_in H. split_pairs. rewrite (as_list_app _ g _ _ E0). cbn [rbind].
        destruct l0; [discriminate H|]. bind_in H. bind_in H. inversion H; subst; auto.
      * (* EAMax *)
        bind_in H. split_pairs. destruct (IHe _ _ _ _ g _ _ _ Hok Ha E) as [-> E']. rewrite E'. cbn [rbind].
        bind_in H. split_pairs. rewrite (as_list_app _ g _ _ E0). cbn [rbind].
        destruct l0; [discriminate H|]. bind_in H. bind_in H. inversion H; subst; auto.
      * (* EMin *)
        bind_in H. split_pairs. destruct (IHs _ _ _ _ g _ _ _ Hok Ha E) as [-> E']. rewrite E'. cbn [rbind].
        bind_in H. bind_in H. inversion H; subst; auto.
      * (* EMax *)
        bind_in H. split_pairs. destruct (IHs _ _ _ _ g _ _ _ Hok Ha E) as [-> E']. rewrite E'. cbn [rbind].
        bind_in H. bind_in H. inversion H; subst; auto.
      * (* EAny *)
        bind_in H. split_pairs. destruct (IHe _ _ _ _ g _ _ _ Hok Ha E) as [-> E']. rewrite E'. cbn [rbind].
        bind_in H. split_pairs. rewrite (as_list_app _ g _ _ E0). cbn [rbind].
        bind_in H. inversion H; subst; auto.
      * (* EAll *)
        bind_in H. split_pairs. destruct (IHe _ _ _ _ g _ _ _ Hok Ha E) as [-> E']. rewrite E'. cbn [rbind].
        bind_in H. split_pairs. rewrite (as_list_app _ g _ _ E0). cbn [rbind].
        bind_in H. inversion H; subst; auto.
      * (* ECtor *)
        bind_in H. split_pairs. destruct (IHs _ _ _ _ g _ _ _ Hok Ha E) as [-> E']. rewrite E'. cbn [rbind].
        bind_in H. bind_in H. inversion H; subst; auto.
    + (* evals *)
      intros es s s' mu g C vs mu1 Hok Ha H. rewrite evals_S in *. unfold evals_body in *.
      destruct es as [|e r]; [inversion H; auto|].
      cbn [forallb] in Hok. apply andb_true_iff in Hok as [Hk1 Hk2].
      bind_in H. split_pairs. destruct (IHe _ _ _ _ g _ _ _ Hk1 Ha E) as [-> E']. rewrite E'. cbn [rbind].
      bind_in H. split_pairs. destruct (IHs _ _ _ _ g _ _ _ Hk2 Ha E0) as [-> E0']. rewrite E0'. cbn [rbind].
      inversion H; subst; auto.
    + (* cmp_chain *)
      intros args s s' mu g C v0 ops v mu1 Hok Ha H. rewrite cmp_chain_S in *. unfold cmp_chain_body in *.
      destruct ops as [|o ops'], args as [|e args']; try discriminate H; [inversion H; auto|].
      cbn [forallb] in Hok. apply andb_true_iff in Hok as [Hk1 Hk2].
      destruct (is_ordering o).
      * bind_in H. bind_in H. split_pairs. destruct (IHe _ _ _ _ g _ _ _ Hk1 Ha E0) as [-> E0']. rewrite E0'. cbn [rbind].
        bind_in H. match type of H with (if ?t then _ else _) = _ => destruct t end; [|inversion H; auto].
        destruct ops'; [inversion H; auto|]. eapply IHc; eauto.
      * bind_in H. split_pairs. destruct (IHe _ _ _ _ g _ _ _ Hk1 Ha E) as [-> E']. rewrite E'. cbn [rbind].
        bind_in H. rewrite (value_eq_app _ _ g _ _ _ E0). cbn [rbind].
        match type of H with (if ?t then _ else _) = _ => destruct t end; [|inversion H; auto].
        destruct ops'; [inversion H; auto|]. eapply IHc; eauto.
    + (* bool_chain *)
      intros args s s' mu g C u v mu1 Hok Ha H. rewrite bool_chain_S in *. unfold bool_chain_body in *.
      destruct args as [|e r]; [inversion H; auto|].
      cbn [forallb] in Hok. apply andb_true_iff in Hok as [Hk1 Hk2].
      bind_in H. split_pairs. destruct (IHe _ _ _ _ g _ _ _ Hk1 Ha E) as [-> E']. rewrite E'. cbn [rbind].
      bind_in H. match type of H with (if ?t then _ else _) = _ => destruct t end; [|inversion H; auto].
      destruct r; [inversion H; auto|]. eapply IHb; eauto.
Qed.


Lemma frame_eval : forall n e s s' mu g C v mu1, ok_expr X e = true -> agree X s s' ->
  eval N P n s mu C e = ROk (v, mu1) -> mu1 = mu /\ eval N P' n s' (mu ++ g) C e = ROk (v, mu ++ g).
Proof. intro n. destruct (frame_expr_all n) as (H & _). exact H. Qed.

(* ---------------------------------------------------------------- statements of the fragment *)
Lemma orel_refl : forall s s', agree X s s' -> orel X s' (ONormal s) (ONormal s').
Proof. intros s s' H. split; [exact H | apply keep_refl]. Qed.

Lemma orel_keep : forall s' s1' o o', keep X s' s1' -> orel X s1' o o' -> orel X s' o o'.
Proof.
  intros s' s1' o o' Hk H. destruct o, o'; cbn in *; try contradiction; auto.
  destruct H as [Ha Hk2]. split; [exact Ha | eapply keep_trans; eauto].
Qed.

Lemma as_list_loc : forall mu v l vs, as_list mu v = ROk (l, vs) -> v = VList l /\ store_get mu l = Some vs.
Proof.
  intros mu v l vs H. destruct v; try discriminate. cbn in H.
  destruct (store_get mu l0) eqn:E; inversion H; subst. auto.
Qed.

Definition fs_exec (n : nat) : Prop :=
  forall st s s' mu g C o mu1, ok_stmt X st = true -> agree X s s' ->
    exec N P n s mu C st = ROk (o, mu1) ->
    exists o', exec N P' n s' (mu ++ g) C st = ROk (o', mu1 ++ g) /\ orel X s' o o' /\ shape mu1 = shape mu.

Definition fs_block (n : nat) : Prop :=
  forall b s s' mu g C o mu1, ok_block X b = true -> agree X s s' ->
    exec_block N P n s mu C b = ROk (o, mu1) ->
    exists o', exec_block N P' n s' (mu ++ g) C b = ROk (o', mu1 ++ g) /\ orel X s' o o' /\ shape mu1 = shape mu.

Definition fs_for (n : nat) : Prop :=
  forall body p l i s s' mu g C o mu1, ok_pat X p = true -> ok_block X body = true -> agree X s s' ->
    for_loop N P n s mu C p l i body = ROk (o, mu1) ->
    exists o', for_loop N P' n s' (mu ++ g) C p l i body = ROk (o', mu1 ++ g) /\ orel X s' o o' /\ shape mu1 = shape mu.

Definition fs_idx (n : nat) : Prop :=
  forall idx s s' mu g C cur v mu1, forallb (ok_expr X) idx = true -> agree X s s' ->
    index_walk N P n s mu C cur idx v = ROk mu1 ->
    index_walk N P' n s' (mu ++ g) C cur idx v = ROk (mu1 ++ g) /\ shape mu1 = shape mu.

Lemma frame_stmt_all : forall n, fs_exec n /\ fs_block n /\ fs_for n /\ fs_idx n.
Proof.
  induction n as [|n (IHx & IHb & IHf & IHi)].
  - unfold fs_exec, fs_block, fs_for, fs_idx. split; [|split; [|split]]; intros; discriminate.
  - pose proof (frame_eval n) as FE.
    split; [|split; [|split]].
    + (* exec *)
      intros st s s' mu g C o mu1 Hok Ha H. rewrite exec_S in *. unfold exec_body in *.
      destruct st; cbn [ok_stmt] in Hok.
      * (* SAssign *)
        apply andb_true_iff in Hok as [Hp He].
        bind_in H. split_pairs. destruct (FE _ _ _ _ g _ _ _ He Ha E) as [-> E']. rewrite E'. cbn [rbind].
        destruct (bind_pat p v s) as [s1|] eqn:Eb; cbn [lift rbind] in H; [|discriminate H].
        destruct (bind_pat_frame _ _ _ _ _ Hp Ha Eb) as (s1' & Eb' & Ha1 & Hk1).
        rewrite Eb'. cbn [lift rbind]. inversion H; subst. eexists; split; [reflexivity|]. split; [split; assumption|reflexivity].
      * (* SIndexAssign *)
        apply andb_true_iff in Hok as [Hxi He]. apply andb_true_iff in Hxi as [Hx Hi].
        bind_in H. split_pairs. destruct (FE _ _ _ _ g _ _ _ He Ha E) as [-> E']. rewrite E'. cbn [rbind].
        rewrite <- (Ha x Hx). destruct (env_get s x) as [cur|]; [|discriminate H].
        bind_in H. destruct (IHi _ _ _ _ g _ _ _ _ Hi Ha E0) as [E0' Hs]. rewrite E0'. cbn [rbind].
        inversion H; subst. eexists; split; [reflexivity|]. split; [apply orel_refl, Ha | exact Hs].
      * (* SIf1 *)
        apply andb_true_iff in Hok as [Hc Hb].
        bind_in H. split_pairs. destruct (FE _ _ _ _ g _ _ _ Hc Ha E) as [-> E']. rewrite E'. cbn [rbind].
        bind_in H. match type of H with (if ?t then _ else _) = _ => destruct t end.
        -- eapply IHb; eauto.
        -- inversion H; subst. eexists; split; [reflexivity|]. split; [apply orel_refl, Ha | reflexivity].
      * (* SIf *)
        apply andb_true_iff in Hok as [Hct Hf]. apply andb_true_iff in Hct as [Hc Ht].
        bind_in H. split_pairs. destruct (FE _ _ _ _ g _ _ _ Hc Ha E) as [-> E']. rewrite E'. cbn [rbind].
        bind_in H. match type of H with (if ?t then _ else _) = _ => destruct t end; eapply IHb; eauto.
      * (* SWhile *)
        pose proof Hok as Hok0. apply andb_true_iff in Hok as [Hc Hb].
        bind_in H. split_pairs. destruct (FE _ _ _ _ g _ _ _ Hc Ha E) as [-> E']. rewrite E'. cbn [rbind].
        bind_in H. match type of H with (if ?t then _ else _) = _ => destruct t end.
        -- bind_in H. split_pairs.
           destruct (IHb _ _ _ _ g _ _ _ Hb Ha E1) as (o1' & E1' & Ho1 & Hs1). rewrite E1'. cbn [rbind].
           destruct o0 as [s2|v2], o1' as [s2'|v2']; cbn [orel] in Ho1; try contradiction.
           ++ destruct Ho1 as [Ha2 Hk2].
              destruct (IHx (SWhile c body) _ _ _ g _ _ _ Hok0 Ha2 H) as (o' & Ex & Ho & Hs).
              exists o'. split; [exact Ex|]. split; [eapply orel_keep; eauto | congruence].
           ++ subst. inversion H; subst. eexists; split; [reflexivity|]. split; [reflexivity | exact Hs1].
        -- inversion H; subst. eexists; split; [reflexivity|]. split; [apply orel_refl, Ha | reflexivity].
      * (* SFor *)
        apply andb_true_iff in Hok as [Hpi Hb]. apply andb_true_iff in Hpi as [Hp Hi].
        bind_in H. split_pairs. destruct (FE _ _ _ _ g _ _ _ Hi Ha E) as [-> E']. rewrite E'. cbn [rbind].
        bind_in H. split_pairs. rewrite (as_list_app _ g _ _ E0). cbn [rbind].
        eapply IHf; eauto.
      * (* SContext *)
        apply andb_true_iff in Hok as [Hxe Hb]. apply andb_true_iff in Hxe as [Hx He].
        bind_in H. split_pairs. destruct (FE _ _ _ _ g _ _ _ He Ha E) as [-> E']. rewrite E'. cbn [rbind].
        destruct v; try discriminate H.
        destruct x as [x|].
        -- destruct (IHb _ _ _ _ g _ _ _ Hb (agree_set _ _ x (VCtx c) Ha) H) as (o' & Eb & Ho & Hs).
           exists o'. split; [exact Eb|]. split; [|exact Hs].
           eapply orel_keep; [|exact Ho]. apply keep_set. exact Hx.
        -- eapply IHb; eauto.
      * (* SAssert *)
        bind_in H. split_pairs. destruct (FE _ _ _ _ g _ _ _ Hok Ha E) as [-> E']. rewrite E'. cbn [rbind].
        bind_in H. match type of H with (if ?t then _ else _) = _ => destruct t end; [|discriminate H].
        inversion H; subst. eexists; split; [reflexivity|]. split; [apply orel_refl, Ha | reflexivity].
      * (* SEffect *)
        bind_in H. split_pairs. destruct (FE _ _ _ _ g _ _ _ Hok Ha E) as [-> E']. rewrite E'. cbn [rbind].
        inversion H; subst. eexists; split; [reflexivity|]. split; [apply orel_refl, Ha | reflexivity].
      * (* SReturn *)
        bind_in H. split_pairs. destruct (FE _ _ _ _ g _ _ _ Hok Ha E) as [-> E']. rewrite E'. cbn [rbind].
        inversion H; subst. eexists; split; [reflexivity|]. split; [reflexivity | reflexivity].
      * (* SPass *)
        inversion H; subst. eexists; split; [reflexivity|]. split; [apply orel_refl, Ha | reflexivity].
    + (* exec_block *)
      intros b s s' mu g C o mu1 Hok Ha H. rewrite exec_block_S in *. unfold exec_block_body in *.
      destruct b as [|st r].
      * inversion H; subst. eexists; split; [reflexivity|]. split; [apply orel_refl, Ha | reflexivity].
      * cbn [ok_block forallb] in Hok. apply andb_true_iff in Hok as [Hs Hr].
        bind_in H. split_pairs.
        destruct (IHx _ _ _ _ g _ _ _ Hs Ha E) as (o1' & E1' & Ho1 & Hs1). rewrite E1'. cbn [rbind].
        destruct o0 as [s2|v2], o1' as [s2'|v2']; cbn [orel] in Ho1; try contradiction.
        -- destruct Ho1 as [Ha2 Hk2].
           destruct (IHb _ _ _ _ g _ _ _ Hr Ha2 H) as (o' & Ex & Ho & Hsh).
           exists o'. split; [exact Ex|]. split; [eapply orel_keep; eauto | congruence].
        -- subst. inversion H; subst. eexists; split; [reflexivity|]. split; [reflexivity | exact Hs1].
    + (* for_loop *)
      intros body p l i s s' mu g C o mu1 Hp Hb Ha H. rewrite for_loop_S in *. unfold for_loop_body in *.
      destruct (store_get mu l) as [vs|] eqn:El; [|discriminate H].
      rewrite (store_get_app _ g _ _ El).
      destruct (nth_error vs i) as [x|].
      * destruct (bind_pat p x s) as [s1|] eqn:Eb; cbn [lift rbind] in H; [|discriminate H].
        destruct (bind_pat_frame _ _ _ _ _ Hp Ha Eb) as (s1' & Eb' & Ha1 & Hk1).
        rewrite Eb'. cbn [lift rbind].
        bind_in H. split_pairs.
        destruct (IHb _ _ _ _ g _ _ _ Hb Ha1 E) as (o1' & E1' & Ho1 & Hs1). rewrite E1'. cbn [rbind].
        destruct o0 as [s2|v2], o1' as [s2'|v2']; cbn [orel] in Ho1; try contradiction.
        -- destruct Ho1 as [Ha2 Hk2].
           destruct (IHf _ _ _ _ _ _ _ g _ _ _ Hp Hb Ha2 H) as (o' & Ex & Ho & Hsh).
           exists o'. split; [exact Ex|]. split; [|congruence].
           eapply orel_keep; [exact Hk1|]. eapply orel_keep; eauto.
        -- subst. inversion H; subst. eexists; split; [reflexivity|]. split; [reflexivity | exact Hs1].
      * inversion H; subst. eexists; split; [reflexivity|]. split; [apply orel_refl, Ha | reflexivity].
    + (* index_walk *)
      intros idx s s' mu g C cur v mu1 Hok Ha H. rewrite index_walk_S in *. unfold index_walk_body in *.
      destruct idx as [|i rest]; [discriminate H|].
      cbn [forallb] in Hok. apply andb_true_iff in Hok as [Hi Hr].
      destruct rest as [|i2 rest].
      * bind_in H. split_pairs. destruct (FE _ _ _ _ g _ _ _ Hi Ha E) as [-> E']. rewrite E'. cbn [rbind].
        bind_in H. bind_in H. split_pairs. rewrite (as_list_app _ g _ _ E1). cbn [rbind].
        destruct (as_list_loc _ _ _ _ E1) as [-> Eg].
        match type of H with (if ?t then _ else _) = _ => destruct t end; [|discriminate H].
        inversion H; subst. rewrite (store_set_app _ g _ _ _ _ Eg). split; [reflexivity | apply shape_store_set].
      * bind_in H. split_pairs. destruct (FE _ _ _ _ g _ _ _ Hi Ha E) as [-> E']. rewrite E'. cbn [rbind].
        bind_in H. bind_in H. split_pairs. rewrite (as_list_app _ g _ _ E1). cbn [rbind].
        bind_in H. eapply IHi; eauto.
Qed.

Lemma frame_block : forall n b s s' mu g C o mu1, ok_block X b = true -> agree X s s' ->
  exec_block N P n s mu C b = ROk (o, mu1) ->
  exists o', exec_block N P' n s' (mu ++ g) C b = ROk (o', mu1 ++ g) /\ orel X s' o o' /\ shape mu1 = shape mu.
Proof. intro n. destruct (frame_stmt_all n) as (_ & H & _). exact H. Qed.

End WithN.
End WithX.
