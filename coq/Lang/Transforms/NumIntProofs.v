(* The number instance of the correspondence runs satisfies the hypothesis of
   the loop-transform theorems: INTEGER arithmetic on small non-negative
   integers is exact.  Proofs. *)
From Coq Require Import ZArith List Bool String Lia Reals.
From Flocq Require Import Core.
From FpyV Require Import Num.RealFloat Num.RealFloatProofs Num.Float Num.CtxDef Lang.Syntax Lang.Values Lang.Sem
  Lang.NumInst Lang.Transforms.Common Lang.Transforms.NumInt.
Import ListNotations.
Open Scope Z_scope.

Definition nat_rf (a : Z) : rf := RF false 0 a.

Lemma num_of_Z_nonneg : forall a, 0 <= a -> num_of_Z a = NF (FFin (nat_rf a)).
Proof.
  intros a H. unfold num_of_Z, nat_rf. destruct (Z.ltb_spec a 0); [lia|]. rewrite Z.abs_eq by lia. reflexivity.
Qed.

(* rounding an integer under INTEGER returns it *)
Lemma round_integer : forall a, 0 <= a ->
  ctx_round_ext CInteger (NF (FFin (nat_rf a))) = Ok (NF (FFin (nat_rf a))).
Proof.
  intros a H. unfold ctx_round_ext, CInteger, round_finite, nat_rf, is_zero. cbn [rc rs rexp].
  destruct (Z.eqb_spec a 0) as [->|Hne].
  - reflexivity.
  - unfold rf_round, round_params, round_at, bind. cbn [rexp rs rc fst].
    change (0 >? -1) with true. cbn [andb fst negb is_zero rc].
    destruct (Z.eqb_spec a 0); [contradiction|]. reflexivity.
Qed.

Lemma rf_add_nat : forall a b, 0 <= a -> 0 <= b -> rf_add (nat_rf a) (nat_rf b) = nat_rf (a + b).
Proof.
  intros a b Ha Hb. unfold rf_add, nat_rf. cbn [rc rs rexp].
  destruct (Z.eqb_spec a 0) as [->|Hna]; destruct (Z.eqb_spec b 0) as [->|Hnb]; cbn; try reflexivity.
  - rewrite Z.add_0_r. reflexivity.
  - destruct (Z.ltb_spec (a + b) 0); [lia|]. reflexivity.
Qed.

Lemma rf_sub_nat : forall a b, 0 <= b <= a -> rf_add (nat_rf a) (RF true 0 b) = nat_rf (a - b).
Proof.
  intros a b H. unfold rf_add, nat_rf. cbn [rc rs rexp].
  destruct (Z.eqb_spec a 0) as [->|Hna]; destruct (Z.eqb_spec b 0) as [->|Hnb]; cbn; try reflexivity.
  - lia.
  - rewrite Z.sub_0_r. reflexivity.
  - destruct (Z.ltb_spec (a + - b) 0); [lia|]. reflexivity.
Qed.

Lemma num_fmod_nat : forall a k, 0 <= a -> 0 < k ->
  num_fmod (NF (FFin (nat_rf a))) (NF (FFin (nat_rf k))) = NF (FFin (nat_rf (a mod k))).
Proof.
  intros a k Ha Hk. unfold num_fmod, nat_rf, num_isnan, num_isinf, num_is_zero, fl_isnan, fl_isinf, fl_is_zero, is_zero,
    num_frac, frac_of_rf, rf_m, num_sign, fl_s. cbn [rc rs rexp orb].
  destruct (Z.eqb_spec k 0); [lia|]. change (0 >=? 0) with true. cbn iota. change (2 ^ 0) with 1.
  replace (Z.quot (a * 1 * 1) (1 * (k * 1))) with (a / k) by (rewrite Z.quot_div_nonneg by lia; f_equal; lia).
  replace (a * 1 * 1 - a / k * (k * 1) * 1) with (a mod k) by (rewrite Z.mod_eq by lia; lia).
  pose proof (Z.mod_pos_bound a k Hk) as Hb.
  destruct (Z.eqb_spec (a mod k) 0) as [E|E].
  - rewrite E. reflexivity.
  - unfold num_of_frac. change (1 * 1) with 1. change (1 <? 0) with false. cbn iota.
    rewrite Z.gcd_1_r. change (1 =? 0) with false. cbn iota. rewrite !Z.div_1_r.
    change (is_pow2 1) with true. cbn iota. change (- Z.log2 1) with 0.
    destruct (Z.ltb_spec (a mod k) 0); [lia|]. rewrite Z.abs_eq by lia. reflexivity.
Qed.

Lemma cmp_nat : forall a b, 0 <= a -> 0 <= b -> rf_compare (nat_rf a) (nat_rf b) = (a ?= b).
Proof.
  intros a b Ha Hb. rewrite compare_denote by (unfold rf_wf, nat_rf; cbn; lia).
  unfold R2R, nat_rf, rf_m, F2R. cbn [rs rc rexp Fnum Fexp bpow]. rewrite !Rmult_1_r.
  apply Rcompare_IZR.
Qed.

Theorem c08_int_exact : int_exact c08_numops.
Proof.
  constructor.
  - (* + *)
    intros a b Ha Hb. rewrite !num_of_Z_nonneg by lia. cbn [c08_numops n_binop binop_ext num_add fl_add].
    rewrite rf_add_nat by lia. apply round_integer. lia.
  - (* - *)
    intros a b H. rewrite !num_of_Z_nonneg by lia. cbn [c08_numops n_binop binop_ext].
    unfold num_sub, num_neg, fl_neg, fl_with_sign, nat_rf. cbn [fl_s rs negb num_add fl_add].
    cbn [rexp rc]. change (RF false 0 a) with (nat_rf a). change (RF false 0 (a - b)) with (nat_rf (a - b)).
    rewrite (rf_sub_nat a b) by lia. apply round_integer. lia.
  - (* fmod *)
    intros a k Ha Hk. pose proof (Z.mod_pos_bound a k Hk) as Hb.
    rewrite !num_of_Z_nonneg by lia. cbn [c08_numops n_binop binop_ext].
    rewrite num_fmod_nat by lia. apply round_integer. lia.
  - (* comparison *)
    intros a b Ha Hb. rewrite !num_of_Z_nonneg by lia. cbn [c08_numops n_cmp num_compare fl_compare]. f_equal.
    apply cmp_nat; assumption.
Qed.
