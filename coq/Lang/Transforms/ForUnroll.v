(* Model of fpy2/transform/for_unroll.py (_ForUnroll) and of
   strategies/loop_unroll.py unroll_for.  Definitions only.

   for x in IT: BODY      (k = times + 1, PEEL, length not statically known)
   ~~>
   t = IT
   with INTEGER: n = len(t); m = n - fmod(n, k)
   for i in range(0, m, k):
       with INTEGER: i_1 = i + 1; ...; i_{k-1} = i + (k-1)
       x = t[i]; BODY;  x = t[i_1]; BODY; ...
   for r in range(m, n, 1): x = t[r]; BODY

   STRICT: `assert fmod(n, k) == 0` instead of m, no residual loop.
   When the array-size analysis knows the length (an ORACLE here: `sizes`, one
   entry per `for` statement in visit order, computed by the real analysis),
   the bounds are literals and the remainder is peeled straight-line. *)
From Coq Require Import ZArith List Bool String.
From FpyV Require Import Num.RealFloat Num.Float Num.CtxDef Lang.Syntax Lang.Values Lang.Transforms.Common.
Import ListNotations.
Open Scope list_scope.
Open Scope Z_scope.

Record fu_cfg := FuCfg {
  fu_sel : sel;
  fu_times : nat;
  fu_strict : bool;
  fu_sizes : list (option Z);      (* static_size of the iterable of the i-th `for` (visit order) *)
  fu_L : nat }.                    (* length of the longest name of the function (Gensym's reserved set) *)

(* raw: number of `for` statements visited; idx: number of sites counted; ctr: names generated *)
Record fu_st := FuSt { fu_raw : nat; fu_idx : nat; fu_ctr : nat }.

Definition fu_fresh (cfg : fu_cfg) (s : fu_st) : ident * fu_st :=
  (gen_name (fu_L cfg) (fu_ctr s), FuSt (fu_raw s) (fu_idx s) (S (fu_ctr s))).

Fixpoint fu_freshes (cfg : fu_cfg) (n : nat) (s : fu_st) : list ident * fu_st :=
  match n with
  | O => ([], s)
  | S n' => let '(x, s1) := fu_fresh cfg s in let '(xs, s2) := fu_freshes cfg n' s1 in (x :: xs, s2)
  end.

(* _body_copy: bind the target to t[index], then a copy of the body in which the
   names generated while unrolling nested loops are refreshed *)
Definition fu_body_copy (cfg : fu_cfg) (target : pat) (t : ident) (index : expr) (body : block)
    (nested : list ident) (s : fu_st) : list stmt * fu_st :=
  match nested with
  | [] => (SAssign target (ERef (EVar t) index) :: body, s)      (* clone_block: the body as it is *)
  | _ =>
      let '(fresh, s1) := fu_freshes cfg (List.length nested) s in
      (SAssign target (ERef (EVar t) index) :: ren_block (combine nested fresh) body, s1)
  end.

Fixpoint fu_copies (cfg : fu_cfg) (target : pat) (t : ident) (indices : list expr) (body : block)
    (nested : list ident) (s : fu_st) : list stmt * fu_st :=
  match indices with
  | [] => ([], s)
  | i :: r =>
      let '(c, s1) := fu_body_copy cfg target t i body nested s in
      let '(cs, s2) := fu_copies cfg target t r body nested s1 in
      (c ++ cs, s2)
  end.

(* _main_loop *)
Definition fu_main_loop (cfg : fu_cfg) (t : ident) (bound : expr) (k : nat) (target : pat) (body : block)
    (nested : list ident) (s : fu_st) : stmt * fu_st :=
  let '(idx, s1) := fu_fresh cfg s in
  let '(offs, s2) := fu_freshes cfg (k - 1) s1 in
  let defs := map (fun jo => SAssign (PVar (snd jo)) (EOp2 OAdd (EVar idx) (int_lit (Z.of_nat (fst jo)))))
                  (combine (seq 1 (k - 1)) offs) in
  let '(copies, s3) := fu_copies cfg target t (EVar idx :: map EVar offs) body nested s2 in
  (SFor (PVar idx) (ERange3 (int_lit 0) bound (int_lit (Z.of_nat k)))
        ((match defs with [] => [] | _ => [integer_ctx defs] end) ++ copies), s3).

Definition fu_build_strict (cfg : fu_cfg) (size : option Z) (target : pat) (iterable : expr) (body : block)
    (k : nat) (nested : list ident) (s : fu_st) : list stmt * fu_st :=
  let '(t, s1) := fu_fresh cfg s in
  match size with
  | Some sz =>
      if sz >? 0 then
        let '(lp, s2) := fu_main_loop cfg t (int_lit sz) k target body nested s1 in
        ([SAssign (PVar t) iterable; lp], s2)
      else ([SAssign (PVar t) iterable], s1)
  | None =>
      let '(n, s2) := fu_fresh cfg s1 in
      let '(lp, s3) := fu_main_loop cfg t (EVar n) k target body nested s2 in
      ([SAssign (PVar t) iterable;
        integer_ctx [SAssign (PVar n) (ELen (EVar t));
                     SAssert (ECompare [CEq] [EOp2 OFmod (EVar n) (int_lit (Z.of_nat k)); int_lit 0])];
        lp], s3)
  end.

Definition fu_build_peel (cfg : fu_cfg) (size : option Z) (target : pat) (iterable : expr) (body : block)
    (k : nat) (nested : list ident) (s : fu_st) : list stmt * fu_st :=
  let '(t, s1) := fu_fresh cfg s in
  match size with
  | Some sz =>
      let m := (sz / Z.of_nat k) * Z.of_nat k in
      let '(main, s2) :=
        if m >? 0 then let '(lp, s2) := fu_main_loop cfg t (int_lit m) k target body nested s1 in ([lp], s2)
        else ([], s1) in
      let '(peeled, s3) :=
        fu_copies cfg target t (map (fun p => int_lit (m + Z.of_nat p)) (seq 0 (Z.to_nat (sz - m)))) body nested s2 in
      (SAssign (PVar t) iterable :: main ++ peeled, s3)
  | None =>
      let '(n, s2) := fu_fresh cfg s1 in
      let '(m, s3) := fu_fresh cfg s2 in
      let '(lp, s4) := fu_main_loop cfg t (EVar m) k target body nested s3 in
      let '(r, s5) := fu_fresh cfg s4 in
      let '(rb, s6) := fu_body_copy cfg target t (EVar r) body nested s5 in
      ([SAssign (PVar t) iterable;
        integer_ctx [SAssign (PVar n) (ELen (EVar t));
                     SAssign (PVar m) (EOp2 OSub (EVar n) (EOp2 OFmod (EVar n) (int_lit (Z.of_nat k))))];
        lp;
        SFor (PVar r) (ERange3 (EVar m) (EVar n) (int_lit 1)) rb], s6)
  end.

(* _refuses: STRICT with a statically known, indivisible length is not a site *)
Definition fu_refuses (cfg : fu_cfg) (size : option Z) : bool :=
  fu_strict cfg && negb (Nat.eqb (fu_times cfg) 0) &&
  match size with Some sz => negb (sz mod Z.of_nat (S (fu_times cfg)) =? 0) | None => false end.

Fixpoint fu_stmt (cfg : fu_cfg) (inside : bool) (st : stmt) (s : fu_st) {struct st} : list stmt * fu_st :=
  match st with
  | SFor p it b =>
      let size := nth (fu_raw s) (fu_sizes cfg) None in
      let s0 := FuSt (S (fu_raw s)) (fu_idx s) (fu_ctr s) in
      if fu_refuses cfg size then
        let '(b', s1) := bmapM (fu_stmt cfg inside) b s0 in ([SFor p it b'], s1)
      else
        let idx := fu_idx s0 in
        let s1 := FuSt (fu_raw s0) (S idx) (fu_ctr s0) in
        let aimed := selected (fu_sel cfg) inside idx in
        let c0 := fu_ctr s1 in
        let '(b', s2) := bmapM (fu_stmt cfg (enters (fu_sel cfg) inside idx)) b s1 in
        if aimed && negb (Nat.eqb (fu_times cfg) 0) then
          let nested := map (gen_name (fu_L cfg)) (seq c0 (fu_ctr s2 - c0)) in
          let k := S (fu_times cfg) in
          if fu_strict cfg then fu_build_strict cfg size p it b' k nested s2
          else fu_build_peel cfg size p it b' k nested s2
        else ([SFor p it b'], s2)
  | SIf1 c b => let '(b', s1) := bmapM (fu_stmt cfg inside) b s in ([SIf1 c b'], s1)
  | SIf c t f =>
      let '(t', s1) := bmapM (fu_stmt cfg inside) t s in
      let '(f', s2) := bmapM (fu_stmt cfg inside) f s1 in ([SIf c t' f'], s2)
  | SWhile c b => let '(b', s1) := bmapM (fu_stmt cfg inside) b s in ([SWhile c b'], s1)
  | SContext x e b => let '(b', s1) := bmapM (fu_stmt cfg inside) b s in ([SContext x e b'], s1)
  | _ => ([st], s)
  end.

Definition fu_block (cfg : fu_cfg) (b : block) : block :=
  fst (bmapM (fu_stmt cfg false) b (FuSt O O O)).

Definition for_unroll_cfg (cfg : fu_cfg) (fn : func) : func := set_body fn (fu_block cfg (f_body fn)).

(* unroll_for(f, where, times, strategy) with the size oracle *)
Definition for_unroll (w : sel) (times : nat) (strict : bool) (sizes : list (option Z)) (fn : func) : func :=
  for_unroll_cfg (FuCfg w times strict sizes (max_len (func_names fn))) fn.
