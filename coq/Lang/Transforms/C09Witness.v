(* (C09) Witness programs for the refutation theorems of Props/C09.v: exported by
   harness/lang.py from the real fpy2 ASTs of

     def bump(zs, v):  zs[0] = zs[0] + v;  return zs[0] * 2
     def f1(xs, x):    y = xs[0] + bump(xs, x);  return y

     def chk(x):       assert x > 0;  return x
     def sc(x):        b = x > 0 and chk(x) > 1;  return b

     def cinh(a):      with C2 as cc: r = a + 1
                       return r * a
     def callerx(a, cc):  y = cinh(a);  return (y, cc)

     @fpy(ctx=MPFloatContext(2))
     def l3(xs):       acc = 0
                       for x in xs:
                           with MPFloatContext(3 * 5): acc = acc + x
                       return acc
   Definitions only. *)
From Coq Require Import ZArith List Bool String.
From FpyV Require Import Num.RealFloat Num.Float Num.CtxDef Lang.Syntax Lang.Values Lang.Sem Lang.NumInst.
Import ListNotations.
Open Scope string_scope.
Open Scope Z_scope.
Open Scope list_scope.

Definition P_f1 : program := [("bump", (Func ["zs"; "v"] None [(SIndexAssign "zs" [(ENum (FFin (RF false 0%Z 0%Z)))] (EOp2 OAdd (ERef (EVar "zs") (ENum (FFin (RF false 0%Z 0%Z)))) (EVar "v"))); (SReturn (EOp2 OMul (ERef (EVar "zs") (ENum (FFin (RF false 0%Z 0%Z)))) (ENum (FFin (RF false 0%Z 2%Z)))))])); ("f1", (Func ["xs"; "x"] None [(SAssign (PVar "y") (EOp2 OAdd (ERef (EVar "xs") (ENum (FFin (RF false 0%Z 0%Z)))) (ECall "bump" [(EVar "xs"); (EVar "x")]))); (SReturn (EVar "y"))]))].
Definition P_sc : program := [("chk", (Func ["x"] None [(SAssert (ECompare [CGt] [(EVar "x"); (ENum (FFin (RF false 0%Z 0%Z)))])); (SReturn (EVar "x"))])); ("sc", (Func ["x"] None [(SAssign (PVar "b") (EAnd [(ECompare [CGt] [(EVar "x"); (ENum (FFin (RF false 0%Z 0%Z)))]); (ECompare [CGt] [(ECall "chk" [(EVar "x")]); (ENum (FFin (RF false 0%Z 1%Z)))])])); (SReturn (EVar "b"))]))].
Definition P_callerx : program := [("cinh", (Func ["a"] None [(SContext (Some "cc") (ECtxVal (CMPFloat 2%Z RNE (Some 0%Z) sp_default)) [(SAssign (PVar "r") (EOp2 OAdd (EVar "a") (ENum (FFin (RF false 0%Z 1%Z)))))]); (SReturn (EOp2 OMul (EVar "r") (EVar "a")))])); ("callerx", (Func ["a"; "cc"] None [(SAssign (PVar "y") (ECall "cinh" [(EVar "a")])); (SReturn (ETuple [(EVar "y"); (EVar "cc")]))]))].
Definition P_l3 : program := [("l3", (Func ["xs"] (Some (CMPFloat 2%Z RNE (Some 0%Z) sp_default)) [(SAssign (PVar "acc") (ENum (FFin (RF false 0%Z 0%Z)))); (SFor (PVar "x") (EVar "xs") [(SContext None (ECtor (KMPFloat RNE) [(EOp2 OMul (ENum (FFin (RF false 0%Z 3%Z))) (ENum (FFin (RF false 0%Z 5%Z))))]) [(SAssign (PVar "acc") (EOp2 OAdd (EVar "acc") (EVar "x")))])]); (SReturn (EVar "acc"))]))].

(* programs in the proved fragments (for the satisfiability examples):
   ok1: callees with / without a declared context, called from nested `with` and a loop, a list
   argument mutated by the callee, the callee parameter `a` clashing with the caller's `a`;
   lf: literal constructors in `with` headers inside a `for` and a `while` loop *)
Definition P_ok1 : program := [("cdecl", (Func ["a"] (Some (CMPFloat 3%Z RNE (Some 0%Z) sp_default)) [(SContext None (ECtxVal (CMPFloat 2%Z RNE (Some 0%Z) sp_default)) [(SAssign (PVar "r") (EOp2 OAdd (EVar "a") (ENum (FFin (RF false 0%Z 1%Z)))))]); (SReturn (EOp2 OMul (EVar "r") (EVar "a")))])); ("bump", (Func ["zs"; "v"] None [(SIndexAssign "zs" [(ENum (FFin (RF false 0%Z 0%Z)))] (EOp2 OAdd (ERef (EVar "zs") (ENum (FFin (RF false 0%Z 0%Z)))) (EVar "v"))); (SReturn (EOp2 OMul (ERef (EVar "zs") (ENum (FFin (RF false 0%Z 0%Z)))) (ENum (FFin (RF false 0%Z 2%Z)))))])); ("ok1", (Func ["x"; "a"; "xs"] None [(SContext None (ECtor (KMPFloat RNE) [(ENum (FFin (RF false 0%Z 4%Z)))]) [(SAssign (PVar "a") (ECall "cdecl" [(EVar "x")]))]); (SFor (PVar "i") (ERange1 (ENum (FFin (RF false 0%Z 2%Z)))) [(SContext None (ECtor (KMPFloat RNE) [(ENum (FFin (RF false 0%Z 5%Z)))]) [(SAssign (PVar "a") (ECall "bump" [(EVar "xs"); (EVar "a")]))])]); (SReturn (EOp2 OAdd (EVar "a") (ERef (EVar "xs") (ENum (FFin (RF false 0%Z 0%Z))))))]))].
Definition P_lf : program := [("lf", (Func ["xs"] None [(SAssign (PVar "acc") (ENum (FFin (RF false 0%Z 0%Z)))); (SFor (PVar "x") (EVar "xs") [(SContext None (ECtor (KIEEE RNE OV_OVERFLOW) [(ENum (FFin (RF false 0%Z 5%Z))); (ENum (FFin (RF false 0%Z 16%Z)))]) [(SAssign (PVar "acc") (EOp2 OAdd (EVar "acc") (EVar "x")))])]); (SAssign (PVar "i") (ENum (FFin (RF false 0%Z 0%Z)))); (SWhile (ECompare [CLt] [(EVar "i"); (ENum (FFin (RF false 0%Z 2%Z)))]) [(SContext (Some "k") (ECtor (KMPFloat RTZ) [(ENum (FFin (RF false 0%Z 3%Z)))]) [(SAssign (PVar "acc") (EOp2 OMul (EVar "acc") (ENum (FFin (RF false 0%Z 3%Z)))))]); (SAssign (PVar "i") (EOp2 OAdd (EVar "i") (ENum (FFin (RF false 0%Z 1%Z)))))]); (SReturn (EVar "acc"))]))].

Definition fn_of (P : program) (f : ident) : func :=
  match lookup_fn P f with Some fn => fn | None => Func [] None [] end.

Definition w_one := NF (FFin (RF false 0 1)).
Definition w_two := NF (FFin (RF false 0 2)).
Definition w_three := NF (FFin (RF false 0 3)).
Definition w_args_f1 : list cval := [CList [CNum w_one; CNum w_two]; CNum w_three].
Definition w_args_sc : list cval := [CNum (NF (FFin (RF true 0 1)))].
Definition w_args_callerx : list cval := [CNum w_three; CNum w_two].
(* 1 + 2^-15: 16 significant bits *)
Definition w_args_l3 : list cval := [CList [CNum (NF (FFin (RF false (-15) 32769)))]].
Definition w_args_ok1 : list cval := [CNum w_three; CNum w_one; CList [CNum w_one; CNum w_two]].
Definition w_args_lf : list cval := [CList [CNum w_one; CNum (NF (FFin (RF false (-15) 32769)))]].
Definition w_caps : list (ident * expr) := [("K", ENum (FFin (RF false 0 2))); ("T", ETuple [ERat 1 3; EBool true])].
Definition w_fn_caps : func := Func ["x"] None [SReturn (ETuple [EOp2 OMul (EVar "K") (EVar "x"); EVar "T"])].
