(* FPyLang transforms: renaming of variables (fpy2/transform/rename_target.py,
   `_RenameTargetInstance`) by a total function rho : ident -> ident, and the
   name / target collectors the transforms use.  Definitions only.

   As coded, RenameTarget renames: `Var` uses, the targets of `Assign`, `for`,
   comprehensions and tuple bindings, the variable of an `IndexedAssign`.  It
   has NO `_visit_context`, so the `as x` target of a `with` statement is NOT
   renamed (its uses are) -- `ren_stmt` reproduces that; `wt_ok` is the
   condition under which this is harmless (every named with-target is a fixed
   point of rho). *)
From Coq Require Import ZArith List Bool String.
From FpyV Require Import Num.RealFloat Num.Float Num.CtxDef Lang.Syntax.
Import ListNotations.

Section Ren.
Variable rho : ident -> ident.

Fixpoint ren_pat (p : pat) : pat :=
  match p with
  | PVar x => PVar (rho x)
  | PWild => PWild
  | PTuple ps => PTuple (map ren_pat ps)
  end.

Fixpoint ren_expr (e : expr) : expr :=
  match e with
  | EVar x => EVar (rho x)
  | ENum v => ENum v
  | ERat n d => ERat n d
  | EBool b => EBool b
  | ECtxVal c => ECtxVal c
  | EOp0 o => EOp0 o
  | EOp1 o a => EOp1 o (ren_expr a)
  | EOp2 o a b => EOp2 o (ren_expr a) (ren_expr b)
  | EOp3 o a b c => EOp3 o (ren_expr a) (ren_expr b) (ren_expr c)
  | EPred p a => EPred p (ren_expr a)
  | ECompare ops args => ECompare ops (map ren_expr args)
  | EAnd args => EAnd (map ren_expr args)
  | EOr args => EOr (map ren_expr args)
  | ENot a => ENot (ren_expr a)
  | EIf c a b => EIf (ren_expr c) (ren_expr a) (ren_expr b)
  | ETuple es => ETuple (map ren_expr es)
  | EFst a => EFst (ren_expr a)
  | ESnd a => ESnd (ren_expr a)
  | EList es => EList (map ren_expr es)
  | ERef a i => ERef (ren_expr a) (ren_expr i)
  | ESlice a lo hi => ESlice (ren_expr a) (option_map ren_expr lo) (option_map ren_expr hi)
  | EComp gens elt => EComp (map (fun g => match g with (p, it) => (ren_pat p, ren_expr it) end) gens) (ren_expr elt)
  | ELen a => ELen (ren_expr a)
  | ERange1 a => ERange1 (ren_expr a)
  | ERange2 a b => ERange2 (ren_expr a) (ren_expr b)
  | ERange3 a b c => ERange3 (ren_expr a) (ren_expr b) (ren_expr c)
  | EZip es => EZip (map ren_expr es)
  | EEnumerate a => EEnumerate (ren_expr a)
  | EEmpty dims => EEmpty (map ren_expr dims)
  | EDim a => EDim (ren_expr a)
  | ESize a d => ESize (ren_expr a) (ren_expr d)
  | ESum a => ESum (ren_expr a)
  | EAMin a => EAMin (ren_expr a)
  | EAMax a => EAMax (ren_expr a)
  | EMin es => EMin (map ren_expr es)
  | EMax es => EMax (map ren_expr es)
  | EAny a => EAny (ren_expr a)
  | EAll a => EAll (ren_expr a)
  | ECall f args => ECall f (map ren_expr args)
  | ECtor k args => ECtor k (map ren_expr args)
  end.

Definition ren_gens (gens : list (pat * expr)) : list (pat * expr) :=
  map (fun g => match g with (p, it) => (ren_pat p, ren_expr it) end) gens.

Fixpoint ren_stmt (st : stmt) : stmt :=
  match st with
  | SAssign p e => SAssign (ren_pat p) (ren_expr e)
  | SIndexAssign x idx e => SIndexAssign (rho x) (map ren_expr idx) (ren_expr e)
  | SIf1 c body => SIf1 (ren_expr c) (map ren_stmt body)
  | SIf c ift iff => SIf (ren_expr c) (map ren_stmt ift) (map ren_stmt iff)
  | SWhile c body => SWhile (ren_expr c) (map ren_stmt body)
  | SFor p it body => SFor (ren_pat p) (ren_expr it) (map ren_stmt body)
  | SContext x e body => SContext x (ren_expr e) (map ren_stmt body)     (* target NOT renamed, as coded *)
  | SAssert e => SAssert (ren_expr e)
  | SEffect e => SEffect (ren_expr e)
  | SReturn e => SReturn (ren_expr e)
  | SPass => SPass
  end.

Definition ren_block (b : block) : block := map ren_stmt b.

(* RenameTarget with a `_visit_context` (proposed repair fixes/C09-rename-with-target.diff):
   the `as x` target is renamed like every other binding *)
Fixpoint ren_stmt_t (st : stmt) : stmt :=
  match st with
  | SAssign p e => SAssign (ren_pat p) (ren_expr e)
  | SIndexAssign x idx e => SIndexAssign (rho x) (map ren_expr idx) (ren_expr e)
  | SIf1 c body => SIf1 (ren_expr c) (map ren_stmt_t body)
  | SIf c ift iff => SIf (ren_expr c) (map ren_stmt_t ift) (map ren_stmt_t iff)
  | SWhile c body => SWhile (ren_expr c) (map ren_stmt_t body)
  | SFor p it body => SFor (ren_pat p) (ren_expr it) (map ren_stmt_t body)
  | SContext x e body => SContext (option_map rho x) (ren_expr e) (map ren_stmt_t body)
  | SAssert e => SAssert (ren_expr e)
  | SEffect e => SEffect (ren_expr e)
  | SReturn e => SReturn (ren_expr e)
  | SPass => SPass
  end.

Definition ren_block_t (b : block) : block := map ren_stmt_t b.

(* every named with-target is left in place by rho *)
Fixpoint wt_ok (st : stmt) : bool :=
  match st with
  | SIf1 _ body => forallb wt_ok body
  | SIf _ ift iff => forallb wt_ok ift && forallb wt_ok iff
  | SWhile _ body => forallb wt_ok body
  | SFor _ _ body => forallb wt_ok body
  | SContext x _ body =>
      (match x with Some x => String.eqb (rho x) x | None => true end) && forallb wt_ok body
  | _ => true
  end.

Definition wt_ok_block (b : block) : bool := forallb wt_ok b.

End Ren.

(* ---------------------------------------------------------------- collectors *)
Fixpoint pat_vars (p : pat) : list ident :=
  match p with
  | PVar x => [x]
  | PWild => []
  | PTuple ps => flat_map pat_vars ps
  end.

(* the variables a statement may bind in the environment of its block
   (comprehension targets are local to the comprehension) *)
Fixpoint stmt_targets (st : stmt) : list ident :=
  match st with
  | SAssign p _ => pat_vars p
  | SIf1 _ body => flat_map stmt_targets body
  | SIf _ ift iff => flat_map stmt_targets ift ++ flat_map stmt_targets iff
  | SWhile _ body => flat_map stmt_targets body
  | SFor p _ body => pat_vars p ++ flat_map stmt_targets body
  | SContext x _ body => (match x with Some x => [x] | None => [] end) ++ flat_map stmt_targets body
  | _ => []
  end.

Definition block_targets (b : block) : list ident := flat_map stmt_targets b.

(* every variable name occurring in an expression (uses and comprehension targets) *)
Fixpoint expr_names (e : expr) : list ident :=
  match e with
  | EVar x => [x]
  | ENum _ | ERat _ _ | EBool _ | ECtxVal _ | EOp0 _ => []
  | EOp1 _ a | EPred _ a | ENot a | EFst a | ESnd a | ELen a | ERange1 a | EEnumerate a
  | EDim a | ESum a | EAMin a | EAMax a | EAny a | EAll a => expr_names a
  | EOp2 _ a b | ERef a b | ERange2 a b | ESize a b => expr_names a ++ expr_names b
  | EOp3 _ a b c | EIf a b c | ERange3 a b c => expr_names a ++ expr_names b ++ expr_names c
  | ECompare _ es | EAnd es | EOr es | ETuple es | EList es | EZip es | EEmpty es
  | EMin es | EMax es | ECall _ es | ECtor _ es => flat_map expr_names es
  | ESlice a lo hi =>
      expr_names a ++ (match lo with Some x => expr_names x | None => [] end)
                   ++ (match hi with Some x => expr_names x | None => [] end)
  | EComp gens elt =>
      flat_map (fun g => match g with (p, it) => pat_vars p ++ expr_names it end) gens ++ expr_names elt
  end.

Fixpoint stmt_names (st : stmt) : list ident :=
  match st with
  | SAssign p e => pat_vars p ++ expr_names e
  | SIndexAssign x idx e => x :: flat_map expr_names idx ++ expr_names e
  | SIf1 c body => expr_names c ++ flat_map stmt_names body
  | SIf c ift iff => expr_names c ++ flat_map stmt_names ift ++ flat_map stmt_names iff
  | SWhile c body => expr_names c ++ flat_map stmt_names body
  | SFor p it body => pat_vars p ++ expr_names it ++ flat_map stmt_names body
  | SContext x e body => (match x with Some x => [x] | None => [] end) ++ expr_names e ++ flat_map stmt_names body
  | SAssert e | SEffect e | SReturn e => expr_names e
  | SPass => []
  end.

Definition block_names (b : block) : list ident := flat_map stmt_names b.

Definition func_names (fn : func) : list ident := f_params fn ++ block_names (f_body fn).

(* ---------------------------------------------------------------- finite renamings *)
Definition swap (x y z : ident) : ident :=
  if String.eqb z x then y else if String.eqb z y then x else z.

(* the permutation x1 |-> y1, ..., xk |-> yk (for fresh, distinct yi) as a
   composition of transpositions: injective by construction *)
Fixpoint perm_of (l : list (ident * ident)) (z : ident) : ident :=
  match l with
  | [] => z
  | (x, y) :: r => perm_of r (swap x y z)
  end.

Fixpoint mem (x : ident) (l : list ident) : bool :=
  match l with
  | [] => false
  | y :: r => String.eqb x y || mem x r
  end.
