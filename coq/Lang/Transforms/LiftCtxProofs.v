(* Soundness of lifting context constructors with literal arguments to the top
   of the function (model: LiftCtx.v): out of `for` / `while` loops, `if`s and
   nested `with` blocks, from `with` headers (evaluated under REAL there) and
   from assignment right-hand sides. *)
From Coq Require Import ZArith List Bool String Lia.
From FpyV Require Import Num.RealFloat Num.Float Num.CtxDef Lang.Syntax Lang.Values Lang.Sem Lang.SemMono Lang.SemProps.
From FpyV Require Import Lang.Transforms.Rename Lang.Transforms.RenameProofs Lang.Transforms.RenameSimProofs
                         Lang.Transforms.Inline Lang.Transforms.InlineProofs Lang.Transforms.LiftCtx.
Import ListNotations.

Section LiftP.
Variable N : numops.
Variable P : program.

Lemma lits_evals_det : forall args xs, lit_nums args = Some xs ->
  forall n s mu C r, evals N P n s mu C args = ROk r -> r = (map VNum xs, mu).
Proof.
  induction args as [|a args IH]; intros xs Hl n s mu C r H.
  - inversion Hl; subst. destruct n; [discriminate|]. simpl in H. inversion H; reflexivity.
  - destruct n as [|n]; [discriminate|]. simpl in H.
    destruct (eval N P n s mu C a) as [[v mu1]| |] eqn:E; try discriminate. cbn [rbind] in H.
    destruct (evals N P n s mu1 C args) as [[vs mu2]| |] eqn:E0; try discriminate. cbn [rbind] in H.
    inversion H; subst r. clear H.
    destruct a; try discriminate; cbn in Hl.
    + destruct (lit_nums args) as [ys|] eqn:El; [|discriminate]. inversion Hl; subst xs.
      destruct n as [|n]; [discriminate|]. simpl in E. inversion E; subst v mu1.
      pose proof (IH _ eq_refl _ _ _ _ _ E0) as K. inversion K; subst. reflexivity.
    + destruct (d =? 0)%Z eqn:Ed; [discriminate|].
      destruct (lit_nums args) as [ys|] eqn:El; [|discriminate]. inversion Hl; subst xs.
      destruct n as [|n]; [discriminate|]. simpl in E. rewrite Ed in E. inversion E; subst v mu1.
      pose proof (IH _ eq_refl _ _ _ _ _ E0) as K. inversion K; subst. reflexivity.
Qed.

Lemma lits_evals_ex : forall args xs, lit_nums args = Some xs ->
  forall s mu C, exists m, evals N P (S m) s mu C args = ROk (map VNum xs, mu).
Proof.
  induction args as [|a args IH]; intros xs Hl s mu C.
  - inversion Hl; subst. exists 0%nat. reflexivity.
  - destruct a; try discriminate; cbn in Hl.
    + destruct (lit_nums args) as [ys|] eqn:El; [|discriminate]. inversion Hl; subst xs.
      destruct (IH _ eq_refl s mu C) as [m Hm]. exists (S m).
      rewrite evals_S. unfold evals_body. rewrite eval_S. cbn [eval_body rbind]. rewrite Hm. reflexivity.
    + destruct (d =? 0)%Z eqn:Ed; [discriminate|].
      destruct (lit_nums args) as [ys|] eqn:El; [|discriminate]. inversion Hl; subst xs.
      destruct (IH _ eq_refl s mu C) as [m Hm]. exists (S m).
      rewrite evals_S. unfold evals_body. rewrite eval_S. cbn [eval_body rbind]. rewrite Ed. cbn [rbind].
      rewrite Hm. reflexivity.
Qed.

Lemma as_nums_map : forall xs, as_nums (map VNum xs) = ROk xs.
Proof. induction xs; cbn; auto. rewrite IHxs. reflexivity. Qed.

(* a liftable constructor call denotes one context, whatever the environment, the store
   and the rounding context it is evaluated under *)
Lemma liftable_eval : forall hdr e, liftable (ctor_ok_N N) (ctor_ok_real N) false hdr e = true ->
  exists c, static_ctx N e = Some c /\
    (forall T mu C, XE N P T mu C e (VCtx c, mu)) /\
    (forall n s mu C r, eval N P n s mu C e = ROk r -> r = (VCtx c, mu)).
Proof.
  intros hdr e H. destruct e; try discriminate. cbn [liftable] in H.
  destruct (forallb is_lit args); [|discriminate].
  unfold ctor_ok_N in H. destruct (static_ctx N (ECtor k args)) as [c|] eqn:Es; [|discriminate].
  exists c. split; [reflexivity|]. cbn [static_ctx] in Es.
  destruct (lit_nums args) as [xs|] eqn:El; [|discriminate].
  destruct (n_ctor N k xs) as [c0|] eqn:Ek; [|discriminate]. inversion Es; subst c0. split.
  - intros T mu C. destruct (lits_evals_ex _ _ El T mu C) as [m Hm]. exists (S (S m)). rewrite eval_S. cbn [eval_body].
    rewrite Hm. cbn [rbind]. rewrite as_nums_map. cbn [rbind]. rewrite Ek. reflexivity.
  - intros n s mu C r He. destruct n; [discriminate|]. simpl in He. bstep.
    pose proof (lits_evals_det _ _ El _ _ _ _ _ E) as K. inversion K; subst.
    rewrite as_nums_map in He. cbn [rbind] in He. rewrite Ek in He. cbn in He. inversion He; reflexivity.
Qed.

Section Ctx.
Variable V : list ident.
Variable BS : list (ident * expr).
Hypothesis HBS : forall x e, In (x, e) BS -> ~ In x V.

Definition LInv (s T : env) : Prop :=
  erel idr s T /\ (forall z, ~ In z V -> env_get s z = None) /\
  (forall x e, In (x, e) BS -> exists c, static_ctx N e = Some c /\ env_get T x = Some (VCtx c)).

Definition keepsV (T T' : env) : Prop := forall z, ~ In z V -> env_get T' z = env_get T z.

Definition orelL (T : env) (o o' : outcome) : Prop :=
  match o, o' with
  | ONormal s', ONormal T' =>
      erel idr s' T' /\ (forall z, ~ In z V -> env_get s' z = None) /\ keepsV T T'
  | OReturn v, OReturn v' => v = v'
  | _, _ => False
  end.

Lemma LInv_next : forall s T s' T', LInv s T -> orelL T (ONormal s') (ONormal T') -> LInv s' T'.
Proof.
  intros s T s' T' (_ & _ & HB) (HR & Hd & K). split; [exact HR|]. split; [exact Hd|].
  intros x e Hin. destruct (HB _ _ Hin) as (c & Hs & Hg). exists c. split; [exact Hs|].
  rewrite K; [exact Hg|]. eapply HBS; eauto.
Qed.

Lemma keepsV_of_keeps : forall W T T', keeps W T T' -> (forall z, In z W -> In z V) -> keepsV T T'.
Proof. intros W T T' K HW z Hz. apply K. intro Hin. apply Hz, HW, Hin. Qed.

Lemma keepsV_trans : forall T1 T2 T3, keepsV T1 T2 -> keepsV T2 T3 -> keepsV T1 T3.
Proof. intros T1 T2 T3 H1 H2 z Hz. rewrite H2, H1; auto. Qed.

Lemma keepsV_refl : forall T, keepsV T T.
Proof. intros T z _. reflexivity. Qed.

Lemma orelL_trans : forall T T1 o o', keepsV T T1 -> orelL T1 o o' -> orelL T o o'.
Proof.
  intros T T1 o o' K H. destruct o, o'; cbn in *; auto. destruct H as (A & B & C). repeat split; auto.
  eapply keepsV_trans; eauto.
Qed.

Lemma dom_after : forall s s' W, (forall z, ~ In z V -> env_get s z = None) -> keeps W s s' ->
  (forall z, In z W -> In z V) -> forall z, ~ In z V -> env_get s' z = None.
Proof. intros s s' W Hd K HW z Hz. rewrite K; [apply Hd; exact Hz|]. intro Hin. apply Hz, HW, Hin. Qed.

Lemma lift_leaf : forall n s mu C st o mu' T,
  exec N P n s mu C st = ROk (o, mu') -> LInv s T -> (forall z, In z (stmt_targets st) -> In z V) ->
  exists o', XS N P T mu C st (o', mu') /\ orelL T o o'.
Proof.
  intros n s mu C st o mu' T H (HR & Hd & HB) HW.
  destruct (exec_frame N P n n s T mu C st o mu' (le_n _) HR H) as (o' & Ex & Ho).
  exists o'. split; [exists n; exact Ex|].
  destruct o as [s'|v], o' as [T'|v']; cbn in Ho |- *; try contradiction; auto.
  destruct Ho as [HR' K]. split; [exact HR'|]. split.
  - eapply dom_after; eauto. eapply exec_keeps; eauto.
  - eapply keepsV_of_keeps; eauto.
Qed.

(* an expression in a lifted position evaluates to the same value *)
Lemma lift_pos_eval : forall hdr e st e' st' bs n s mu C v mu1 T,
  lift_pos (ctor_ok_N N) (ctor_ok_real N) false hdr e st = Some (e', st', bs) -> incl bs BS ->
  eval N P n s mu C e = ROk (v, mu1) -> LInv s T ->
  XE N P T mu C e' (v, mu1).
Proof.
  intros hdr e st e' st' bs n s mu C v mu1 T Hl Hi He (HR & Hd & HB).
  unfold lift_pos in Hl. destruct (liftable (ctor_ok_N N) (ctor_ok_real N) false hdr e) eqn:El.
  - destruct (refresh "ctx" st) as [[x st1]|]; [|discriminate]. inversion Hl; subst e' st' bs. clear Hl.
    destruct (liftable_eval _ _ El) as (c & Hs & _ & Hdet).
    pose proof (Hdet _ _ _ _ _ He) as K. inversion K; subst v mu1.
    destruct (HB x e (Hi _ (or_introl eq_refl))) as (c' & Hs' & Hg). rewrite Hs in Hs'. inversion Hs'; subst c'.
    apply XE_var. exact Hg.
  - destruct (has_ctor e); [discriminate|]. inversion Hl; subst e' st' bs.
    exists n. eapply eval_frame; eauto.
Qed.

Lemma keep_pos_inv : forall e st e' st' bs, keep_pos e st = Some (e', st', bs) -> e' = e /\ bs = [].
Proof.
  intros e st e' st' bs H. unfold keep_pos in H.
  destruct e; try (destruct (has_ctor _); [discriminate|]; inversion H; auto).
  destruct (existsb has_ctor args); [discriminate|]. inversion H; auto.
Qed.

Lemma lift_other_eval : forall e n s mu C v mu1 T,
  eval N P n s mu C e = ROk (v, mu1) -> LInv s T -> XE N P T mu C e (v, mu1).
Proof. intros e n s mu C v mu1 T He (HR & _). exists n. eapply eval_frame; eauto. Qed.

Definition LE (n : nat) : Prop := forall amb st sg st' sg' bs s mu C o mu' T,
  lift_stmt (ctor_ok_N N) (ctor_ok_real N) false amb st sg = Some (st', sg', bs) -> incl bs BS ->
  (forall z, In z (stmt_targets st) -> In z V) ->
  exec N P n s mu C st = ROk (o, mu') -> LInv s T ->
  exists o', XS N P T mu C st' (o', mu') /\ orelL T o o'.

Definition LB (n : nat) : Prop := forall amb b sg b' sg' bs s mu C o mu' T,
  lift_block (ctor_ok_N N) (ctor_ok_real N) false amb b sg = Some (b', sg', bs) -> incl bs BS ->
  (forall z, In z (block_targets b) -> In z V) ->
  exec_block N P n s mu C b = ROk (o, mu') -> LInv s T ->
  exists o', XB N P T mu C b' (o', mu') /\ orelL T o o'.

Definition LF (n : nat) : Prop := forall amb body sg body' sg' bs p l i s mu C o mu' T,
  lift_block (ctor_ok_N N) (ctor_ok_real N) false amb body sg = Some (body', sg', bs) -> incl bs BS ->
  (forall z, In z (block_targets body) -> In z V) -> (forall z, In z (pat_vars p) -> In z V) ->
  for_loop N P n s mu C p l i body = ROk (o, mu') -> LInv s T ->
  exists o', XF N P T mu C p l i body' (o', mu') /\ orelL T o o'.

Lemma incl_app_l : forall A (a b c : list A), incl (a ++ b) c -> incl a c.
Proof. intros A a b c H x Hx. apply H, in_or_app. auto. Qed.
Lemma incl_app_r : forall A (a b c : list A), incl (a ++ b) c -> incl b c.
Proof. intros A a b c H x Hx. apply H, in_or_app. auto. Qed.

Lemma LE_step : forall n, LE n -> LB n -> LF n -> LE (S n).
Proof.
  intros n IHe IHb IHf amb st sg st' sg' bs s mu C o mu' T Hl Hi HW H HI.
  destruct st; cbn [lift_stmt] in Hl.
  - (* SAssign *)
    destruct (if amb then lift_pos (ctor_ok_N N) (ctor_ok_real N) false false e sg else keep_pos e sg) as [[[e' sg1] b1]|] eqn:Ep; [|discriminate].
    inversion Hl; subst st' sg' bs. clear Hl.
    simpl in H. bstep. destruct (bind_pat p v s) as [s1|] eqn:Eb; [|discriminate].
    cbn [lift rbind] in H. inversion H; subst o mu'. clear H.
    assert (Hx : XE N P T mu C e' (v, s0)).
    { destruct amb.
      - eapply lift_pos_eval; eauto.
      - destruct (keep_pos_inv _ _ _ _ _ Ep) as [-> _]. eapply lift_other_eval; eauto. }
    destruct HI as (HR & Hd & HB).
    destruct (bind_pat_sim idr inj_idr _ _ _ _ _ Eb HR) as (T1 & Eb' & HR1 & K1).
    rewrite ren_pat_id in Eb'. unfold idr in K1. rewrite map_id in K1.
    exists (ONormal T1). split; [eapply XS_assign; eauto|]. cbn. split; [exact HR1|]. split.
    + eapply dom_after; eauto. eapply bind_pat_keeps; eauto.
    + eapply keepsV_of_keeps; eauto.
  - (* SIndexAssign *)
    destruct (forallb lift_other idx && lift_other e); [|discriminate]. inversion Hl; subst. eapply lift_leaf; eauto.
  - (* SIf1 *)
    destruct (lift_other c); [|discriminate].
    destruct (lb_gen (lift_stmt (ctor_ok_N N) (ctor_ok_real N) false amb) body sg) as [[[body' sg1] b1]|] eqn:Eb; [|discriminate].
    inversion Hl; subst st' sg' bs. clear Hl.
    simpl in H. repeat bstep. destruct v; try discriminate. cbn in E0. inversion E0; subst a. clear E0.
    pose proof (lift_other_eval _ _ _ _ _ _ _ _ E HI) as Hc.
    destruct b.
    + destruct (IHb amb body sg body' sg1 b1 s s0 C o mu' T Eb Hi HW H HI) as (o' & Hx & Ho).
      exists o'. split; [|exact Ho]. eapply XS_if1_true; eauto.
    + inversion H; subst. exists (ONormal T). split; [apply XS_if1_false; exact Hc|].
      destruct HI as (HR & Hd & _). cbn. repeat split; auto; try apply keepsV_refl.
  - (* SIf *)
    destruct (lift_other c); [|discriminate].
    destruct (lb_gen (lift_stmt (ctor_ok_N N) (ctor_ok_real N) false amb) ift sg) as [[[b1' sg1] l1]|] eqn:Eb1; [|discriminate].
    destruct (lb_gen (lift_stmt (ctor_ok_N N) (ctor_ok_real N) false amb) iff sg1) as [[[b2' sg2] l2]|] eqn:Eb2; [|discriminate].
    inversion Hl; subst st' sg' bs. clear Hl.
    simpl in H. repeat bstep. destruct v; try discriminate. cbn in E0. inversion E0; subst a. clear E0.
    pose proof (lift_other_eval _ _ _ _ _ _ _ _ E HI) as Hc.
    assert (HW1 : forall z, In z (block_targets ift) -> In z V) by (intros z Hz; apply HW; cbn; apply in_or_app; auto).
    assert (HW2 : forall z, In z (block_targets iff) -> In z V) by (intros z Hz; apply HW; cbn; apply in_or_app; auto).
    destruct b.
    + destruct (IHb amb ift sg b1' sg1 l1 s s0 C o mu' T Eb1 (incl_app_l _ _ _ _ Hi) HW1 H HI) as (o' & Hx & Ho).
      exists o'. split; [|exact Ho]. eapply XS_if with (t := true); eauto.
    + destruct (IHb amb iff sg1 b2' sg2 l2 s s0 C o mu' T Eb2 (incl_app_r _ _ _ _ Hi) HW2 H HI) as (o' & Hx & Ho).
      exists o'. split; [|exact Ho]. eapply XS_if with (t := false); eauto.
  - (* SWhile *)
    destruct (lift_other c) eqn:Elo; [|discriminate].
    destruct (lb_gen (lift_stmt (ctor_ok_N N) (ctor_ok_real N) false amb) body sg) as [[[body' sg1] b1]|] eqn:Eb; [|discriminate].
    inversion Hl; subst st' sg' bs. clear Hl.
    assert (Hl0 : lift_stmt (ctor_ok_N N) (ctor_ok_real N) false amb (SWhile c body) sg = Some (SWhile c body', sg1, b1))
      by (cbn [lift_stmt]; rewrite Elo, Eb; reflexivity).
    simpl in H. repeat bstep. destruct v; try discriminate. cbn in E0. inversion E0; subst a. clear E0.
    pose proof (lift_other_eval _ _ _ _ _ _ _ _ E HI) as Hc.
    destruct b.
    + bstep.
      destruct (IHb amb body sg body' sg1 b1 s s0 C o0 s1 T Eb Hi HW E0 HI) as (o1 & Hx & Ho).
      destruct o0 as [sw|vw], o1 as [Tw|vw']; cbn in Ho; try contradiction.
      * pose proof (LInv_next _ _ _ _ HI Ho) as HI1.
        destruct (IHe amb (SWhile c body) sg _ sg1 b1 sw s1 C o mu' Tw Hl0 Hi HW H HI1) as (o2 & Hx2 & Ho2).
        exists o2. split; [eapply XS_while_step; eauto|].
        eapply orelL_trans; [|exact Ho2]. apply Ho.
      * subst vw'. inversion H; subst. exists (OReturn vw). split; [eapply XS_while_ret; eauto|reflexivity].
    + inversion H; subst. exists (ONormal T). split; [apply XS_while_false; exact Hc|].
      destruct HI as (HR & Hd & _). cbn. repeat split; auto; try apply keepsV_refl.
  - (* SFor *)
    destruct (lift_other it); [|discriminate].
    destruct (lb_gen (lift_stmt (ctor_ok_N N) (ctor_ok_real N) false amb) body sg) as [[[body' sg1] b1]|] eqn:Eb; [|discriminate].
    inversion Hl; subst st' sg' bs. clear Hl.
    simpl in H. repeat bstep.
    pose proof (lift_other_eval _ _ _ _ _ _ _ _ E HI) as Hc.
    assert (HW1 : forall z, In z (block_targets body) -> In z V) by (intros z Hz; apply HW; cbn; apply in_or_app; auto).
    assert (HW2 : forall z, In z (pat_vars p) -> In z V) by (intros z Hz; apply HW; cbn; apply in_or_app; auto).
    destruct (IHf amb body sg body' sg1 b1 p l 0%nat s s0 C o mu' T Eb Hi HW1 HW2 H HI) as (o' & Hx & Ho).
    exists o'. split; [|exact Ho]. eapply XS_for; eauto.
  - (* SContext *)
    destruct (lift_pos (ctor_ok_N N) (ctor_ok_real N) false true e sg) as [[[e' sg1] l1]|] eqn:Ep; [|discriminate].
    destruct (lb_gen (lift_stmt (ctor_ok_N N) (ctor_ok_real N) false (static_hdr (ctor_ok_N N) (ctor_ok_real N) false e)) body sg1) as [[[body' sg2] l2]|] eqn:Eb; [|discriminate].
    inversion Hl; subst st' sg' bs. clear Hl.
    simpl in H. bstep. destruct v; try discriminate.
    pose proof (lift_pos_eval _ _ _ _ _ _ _ _ _ _ _ _ _ Ep (incl_app_l _ _ _ _ Hi) E HI) as Hc.
    assert (HW1 : forall z, In z (block_targets body) -> In z V) by (intros z Hz; apply HW; cbn; apply in_or_app; auto).
    set (s' := match x with Some x0 => env_set s x0 (VCtx c) | None => s end) in *.
    set (T' := match x with Some x0 => env_set T x0 (VCtx c) | None => T end).
    assert (HK : keepsV T T').
    { unfold T'. destruct x as [x|]; [|apply keepsV_refl]. intros z Hz. apply env_get_set_other.
      intro; subst z. apply Hz, HW. cbn. left. reflexivity. }
    assert (HI1 : LInv s' T').
    { destruct HI as (HR & Hd & HB). unfold s', T'. destruct x as [x|]; [|repeat split; auto]. split; [|split].
      - apply (erel_set idr s T x (VCtx c) inj_idr HR).
      - intros z Hz. rewrite env_get_set_other; [apply Hd; exact Hz|].
        intro; subst z. apply Hz, HW. cbn. left. reflexivity.
      - intros y ey Hin. destruct (HB _ _ Hin) as (cy & Hs & Hg). exists cy. split; [exact Hs|].
        rewrite env_get_set_other; [exact Hg|]. intro; subst y. apply (HBS _ _ Hin), HW. cbn. left. reflexivity. }
    destruct (IHb _ body sg1 body' sg2 l2 s' s0 c o mu' T' Eb (incl_app_r _ _ _ _ Hi) HW1 H HI1) as (o' & Hx & Ho).
    exists o'. split; [eapply XS_context; eauto|]. eapply orelL_trans; eauto.
  - destruct (lift_other e); [|discriminate]. inversion Hl; subst. eapply lift_leaf; eauto.
  - destruct (lift_other e); [|discriminate]. inversion Hl; subst. eapply lift_leaf; eauto.
  - destruct (lift_other e); [|discriminate]. inversion Hl; subst. eapply lift_leaf; eauto.
  - inversion Hl; subst. eapply lift_leaf; eauto.
Qed.

Lemma LB_step : forall n, LE n -> LB n -> LB (S n).
Proof.
  intros n IHe IHb amb b sg b' sg' bs s mu C o mu' T Hl Hi HW H HI.
  destruct b as [|st b].
  - cbn in Hl. inversion Hl; subst. rewrite exec_block_nil in H. inversion H; subst.
    exists (ONormal T). split; [apply XB_nil|]. destruct HI as (HR & Hd & _). cbn. repeat split; auto; try apply keepsV_refl.
  - unfold lift_block in Hl. cbn [lb_gen] in Hl.
    destruct (lift_stmt (ctor_ok_N N) (ctor_ok_real N) false amb st sg) as [[[st' sg1] b1]|] eqn:E1; [|discriminate].
    destruct (lb_gen (lift_stmt (ctor_ok_N N) (ctor_ok_real N) false amb) b sg1) as [[[r' sg2] b2]|] eqn:E2; [|discriminate].
    inversion Hl; subst b' sg' bs. clear Hl.
    assert (HW1 : forall z, In z (stmt_targets st) -> In z V) by (intros z Hz; apply HW; unfold block_targets; cbn; apply in_or_app; auto).
    assert (HW2 : forall z, In z (block_targets b) -> In z V) by (intros z Hz; apply HW; unfold block_targets; cbn; apply in_or_app; auto).
    rewrite exec_block_cons in H. bstep.
    destruct (IHe amb st sg st' sg1 b1 s mu C o0 s0 T E1 (incl_app_l _ _ _ _ Hi) HW1 E HI) as (o1 & Hx & Ho).
    destruct o0 as [sw|vw], o1 as [Tw|vw']; cbn in Ho; try contradiction.
    + pose proof (LInv_next _ _ _ _ HI Ho) as HI1.
      destruct (IHb amb b sg1 r' sg2 b2 sw s0 C o mu' Tw E2 (incl_app_r _ _ _ _ Hi) HW2 H HI1) as (o2 & Hx2 & Ho2).
      exists o2. split; [eapply XB_cons_normal; eauto|]. eapply orelL_trans; [|exact Ho2]. apply Ho.
    + subst vw'. inversion H; subst. exists (OReturn vw). split; [apply XB_cons_ret; exact Hx|reflexivity].
Qed.

Lemma LF_step : forall n, LB n -> LF n -> LF (S n).
Proof.
  intros n IHb IHf amb body sg body' sg' bs p l i s mu C o mu' T Hl Hi HW HWp H HI.
  simpl in H. unfold for_loop_body in H.
  destruct (store_get mu l) as [vs|] eqn:Eg; [|discriminate].
  destruct (nth_error vs i) as [x|] eqn:En.
  2:{ inversion H; subst. exists (ONormal T). split; [eapply XF_done; eauto|].
      destruct HI as (HR & Hd & _). cbn. repeat split; auto; try apply keepsV_refl. }
  destruct (bind_pat p x s) as [s1|] eqn:Eb; [|discriminate]. cbn [lift rbind] in H.
  pose proof HI as (HR & Hd & HB).
  destruct (bind_pat_sim idr inj_idr _ _ _ _ _ Eb HR) as (T1 & Eb' & HR1 & K1).
  rewrite ren_pat_id in Eb'. unfold idr in K1. rewrite map_id in K1.
  assert (Ho1 : orelL T (ONormal s1) (ONormal T1)).
  { cbn. split; [exact HR1|]. split; [eapply dom_after; eauto; eapply bind_pat_keeps; eauto|eapply keepsV_of_keeps; eauto]. }
  pose proof (LInv_next _ _ _ _ HI Ho1) as HI1.
  bstep.
  destruct (IHb amb body sg body' sg' bs s1 mu C o0 s0 T1 Hl Hi HW E HI1) as (o1 & Hx & Ho).
  destruct o0 as [sw|vw], o1 as [Tw|vw']; cbn in Ho; try contradiction.
  - pose proof (LInv_next _ _ _ _ HI1 Ho) as HI2.
    destruct (IHf amb body sg body' sg' bs p l (S i) sw s0 C o mu' Tw Hl Hi HW HWp H HI2) as (o2 & Hx2 & Ho2).
    exists o2. split; [eapply XF_step; eauto|].
    eapply orelL_trans; [apply Ho1|]. eapply orelL_trans; [|exact Ho2]. apply Ho.
  - subst vw'. inversion H; subst. exists (OReturn vw). split; [eapply XF_step_ret; eauto|reflexivity].
Qed.

Lemma L_all : forall n, LE n /\ LB n /\ LF n.
Proof.
  induction n as [|n (IHe & IHb & IHf)].
  - repeat split; unfold LE, LB, LF; intros; discriminate.
  - repeat split; [apply LE_step|apply LB_step|apply LF_step]; assumption.
Qed.

End Ctx.

(* the prelude binds every lifted name to the context its expression denotes (with or without the
   proposed repair: for a literal constructor the expression and its static value coincide) *)
Lemma prelude_lift_run : forall fx bs T mu C,
  (forall x e, In (x, e) bs -> liftable (ctor_ok_N N) (ctor_ok_real N) false true e = true) -> NoDup (map fst bs) ->
  exists T0, XB N P T mu C (lift_prelude fx (static_val N) bs) (ONormal T0, mu) /\ keeps (map fst bs) T T0 /\
    (forall x e, In (x, e) bs -> exists c, static_ctx N e = Some c /\ env_get T0 x = Some (VCtx c)).
Proof.
  intros fx. induction bs as [|[x e] bs IH]; intros T mu C Hl Hnd.
  - exists T. split; [apply XB_nil|]. split; [apply keeps_refl|]. intros ? ? [].
  - destruct (liftable_eval _ _ (Hl x e (or_introl eq_refl))) as (c & Hs & Hx & _).
    inversion Hnd; subst.
    destruct (IH (env_set T x (VCtx c)) mu C (fun y ey Hy => Hl y ey (or_intror Hy)) H2) as (T0 & Hb & K & Hall).
    exists T0. split; [|split].
    + cbn [lift_prelude map fst snd]. eapply XB_cons_normal; [|exact Hb]. eapply XS_assign; [|reflexivity].
      unfold bound_expr, static_val. destruct fx; [|apply Hx]. rewrite Hs. exists 1%nat. reflexivity.
    + cbn [map fst]. change (x :: map fst bs) with ([x] ++ map fst bs). eapply keeps_trans; [apply keeps_set|exact K].
    + intros y ey [Heq|Hin].
      * inversion Heq; subst y ey. exists c. split; [exact Hs|]. rewrite K; [apply env_get_set_same|exact H1].
      * apply Hall. exact Hin.
Qed.

Lemma nodupb_NoDup : forall l, nodupb l = true -> NoDup l.
Proof.
  induction l as [|x l IH]; cbn; intro H; constructor.
  - apply andb_prop in H. destruct H as [H _]. apply negb_true_iff in H. apply mem_false_In. exact H.
  - apply andb_prop in H. destruct H as [_ H]. auto.
Qed.

Theorem lift_ctx_call_sim : forall fx fn fn', lift_ctx_lit_x N fx fn = Some fn' -> call_sim N P fn fn'.
Proof.
  intros fx fn fn' Hl. unfold lift_ctx_lit_x, lift_fn in Hl.
  destruct (lift_block (ctor_ok_N N) (ctor_ok_real N) false (match f_ctx fn with Some _ => true | None => false end) (f_body fn) (ist0 fn)) as [[[body' sg] bs]|] eqn:Eb; [|discriminate].
  match type of Hl with (if ?c then _ else _) = _ => destruct c eqn:Ec; [|discriminate] end.
  inversion Hl; subst fn'. clear Hl.
  apply andb_prop in Ec. destruct Ec as [Ec1 Ec2]. rewrite forallb_forall in Ec1.
  set (V := func_names fn) in *.
  assert (Hfresh : forall x e, In (x, e) bs -> ~ In x V).
  { intros x e Hin. specialize (Ec1 _ Hin). apply andb_prop in Ec1. destruct Ec1 as [E1 _].
    apply negb_true_iff in E1. apply mem_false_In. exact E1. }
  assert (Hlift : forall x e, In (x, e) bs -> liftable (ctor_ok_N N) (ctor_ok_real N) false true e = true).
  { intros x e Hin. specialize (Ec1 _ Hin). apply andb_prop in Ec1. destruct Ec1 as [_ E2]. exact E2. }
  intros n vs mu C r Hcall.
  destruct n as [|n]; [discriminate|]. rewrite call_unfold in Hcall.
  destruct (bind_params (f_params fn) vs []) as [s0|] eqn:Ebp; [|discriminate]. cbn [lift rbind] in Hcall.
  set (C' := match f_ctx fn with Some c => c | None => C end) in *.
  destruct (exec_block N P n s0 mu C' (f_body fn)) as [[o mu1]| |] eqn:Ex; try discriminate.
  cbn [rbind] in Hcall. destruct o as [s1|v]; [discriminate|]. inversion Hcall; subst r. clear Hcall.
  destruct (prelude_lift_run fx bs s0 mu C' Hlift (nodupb_NoDup _ Ec2)) as (T0 & Hpre & K0 & Hall).
  assert (Hd0 : forall z, ~ In z V -> env_get s0 z = None).
  { intros z Hz. rewrite (bind_params_dom _ _ _ _ Ebp); [reflexivity|].
    intro Hin. apply Hz. unfold V, func_names. apply in_or_app. left. exact Hin. }
  assert (HI : LInv V bs s0 T0).
  { split; [|split; [exact Hd0|exact Hall]]. intros x w Hx. unfold idr. rewrite K0; [exact Hx|].
    intro Hin. apply in_map_iff in Hin. destruct Hin as ([y e] & Hy & Hin). cbn in Hy. subst y.
    apply (Hfresh _ _ Hin). destruct (in_dec string_dec x V) as [Hv|Hv]; [exact Hv|].
    rewrite (Hd0 _ Hv) in Hx. discriminate. }
  assert (HW : forall z, In z (block_targets (f_body fn)) -> In z V).
  { intros z Hz. unfold V, func_names. apply in_or_app. right. apply block_targets_names. exact Hz. }
  destruct (proj1 (proj2 (L_all V bs Hfresh n)) _ _ _ _ _ _ _ _ _ _ _ _ Eb (incl_refl _) HW Ex HI) as (o' & Hx & Ho).
  destruct o' as [T'|v']; cbn in Ho; [contradiction|]. subst v'.
  destruct (XB_app N P _ _ _ _ _ _ _ _ Hpre Hx) as [m Hm].
  exists (S m). rewrite call_unfold. cbn [f_params f_ctx f_body]. rewrite Ebp. cbn [lift rbind].
  fold C'. rewrite Hm. reflexivity.
Qed.

End LiftP.

Theorem lift_ctx_x_sound : forall N P fx f fn fn' f',
  lookup_fn P f = Some fn -> lookup_fn P f' = None -> lift_ctx_lit_x N fx fn = Some fn' ->
  forall n args c v, run N P n f args c = ROk v ->
  exists m, run N (P ++ [(f', fn')]) m f' args c = ROk v.
Proof.
  intros N P fx f fn fn' f' Hl Hn Hf. eapply call_sim_run; eauto. eapply lift_ctx_call_sim; eauto.
Qed.

Theorem lift_ctx_sound : forall N P f fn fn' f',
  lookup_fn P f = Some fn -> lookup_fn P f' = None -> lift_ctx_lit N fn = Some fn' ->
  forall n args c v, run N P n f args c = ROk v ->
  exists m, run N (P ++ [(f', fn')]) m f' args c = ROk v.
Proof. intros N P. apply (lift_ctx_x_sound N P false). Qed.
